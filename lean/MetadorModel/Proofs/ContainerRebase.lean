import MetadorModel.Proofs.ContainerPend
/-!
# Instances of `treeOK_rebase`: copying / moving user nodes and metadata directories
-/
namespace MetadorModel.Container

/-- a path without reserved names that continues to a metadata directory: the split is unique -/
theorem split_user {a bs c tail : Path} {ms : String} (ha : isInternal a = false) (hbs : isInternal bs = false)
    (h : a ++ c = bs ++ .metaDir ms :: tail) : ∃ c0, bs = a ++ c0 ∧ c = c0 ++ .metaDir ms :: tail := by
  have hp : a <+: bs := prefix_of_meta ha ⟨c, h⟩
  obtain ⟨c0, rfl⟩ := hp
  refine ⟨c0, rfl, ?_⟩
  rw [List.append_assoc] at h
  exact List.append_cancel_left h

theorem dirCorr_user_half {a a' : Path} (ha : isInternal a = false) (ha' : isInternal a' = false)
    (c base : Path) (m : String) (tail : Path) (hb : isInternal base = false)
    (h : a' ++ c = base ++ .metaDir m :: tail) :
    ∃ bs ms, isInternal bs = false ∧ a ++ c = bs ++ .metaDir ms :: tail := by
  obtain ⟨c0, rfl, rfl⟩ := split_user ha' hb h
  rw [isInternal_append] at hb
  simp only [Bool.or_eq_false_iff] at hb
  exact ⟨a ++ c0, m, by rw [isInternal_append, ha, hb.2]; rfl, by simp⟩

theorem dirCorr_user {src dst : Path} (hs : isInternal src = false) (hd : isInternal dst = false) :
    DirCorr src dst :=
  ⟨fun c base m tail hb h => dirCorr_user_half hs hd c base m tail hb h,
   fun c bs ms tail hb h => dirCorr_user_half hd hs c bs ms tail hb h⟩

theorem dirCorr_meta {b b' : Path} (m m' : String) (hb : isInternal b = false) (hb' : isInternal b' = false) :
    DirCorr (b ++ [.metaDir m]) (b' ++ [.metaDir m']) := by
  constructor
  · intro c base mm tail hbase h
    have h1 : b' ++ Key.metaDir m' :: c = base ++ Key.metaDir mm :: tail := by simpa using h
    obtain ⟨rfl, -, rfl⟩ := internal_split_unique b' base _ _ _ _ hb' hbase rfl rfl h1
    exact ⟨b, m, hb, by simp⟩
  · intro c bs ms tail hbs h
    have h1 : b ++ Key.metaDir m :: c = bs ++ Key.metaDir ms :: tail := by simpa using h
    obtain ⟨rfl, -, rfl⟩ := internal_split_unique b bs _ _ _ _ hb hbs rfl rfl h1
    exact ⟨b', m', hb', by simp⟩

theorem ushape_rebase_user {src dst c : Path} {n : Node} (hs : isInternal src = false)
    (hd : isInternal dst = false) (h : UShape (src ++ c) n) : UShape (dst ++ c) n := by
  generalize hq : src ++ c = q at h
  cases h with
  | user q n hi hn =>
    rw [← hq, isInternal_append] at hi
    simp only [Bool.or_eq_false_iff] at hi
    exact .user _ n (by rw [isInternal_append, hd, hi.2]; rfl) hn
  | metaDir base m hb =>
    obtain ⟨c0, rfl, rfl⟩ := split_user (tail := []) hs hb hq
    rw [isInternal_append] at hb
    simp only [Bool.or_eq_false_iff] at hb
    have : dst ++ (c0 ++ [Key.metaDir m]) = (dst ++ c0) ++ [Key.metaDir m] := by simp
    rw [this]
    exact .metaDir _ m (by rw [isInternal_append, hd, hb.2]; rfl)
  | obj base m r u tok hb =>
    obtain ⟨c0, rfl, rfl⟩ := split_user (tail := [.obj r u]) hs hb hq
    rw [isInternal_append] at hb
    simp only [Bool.or_eq_false_iff] at hb
    have : dst ++ (c0 ++ [Key.metaDir m, Key.obj r u]) = (dst ++ c0) ++ [Key.metaDir m, Key.obj r u] := by simp
    rw [this]
    exact .obj _ m r u tok (by rw [isInternal_append, hd, hb.2]; rfl)

theorem ushape_rebase_meta {b b' c : Path} {m m' : String} {n : Node} (hb : isInternal b = false)
    (hb' : isInternal b' = false) (h : UShape (b ++ [.metaDir m] ++ c) n) :
    UShape (b' ++ [.metaDir m'] ++ c) n := by
  generalize hq : b ++ [Key.metaDir m] ++ c = q at h
  have hq' : b ++ Key.metaDir m :: c = q := by simpa using hq
  cases h with
  | user q n hi hn =>
    rw [← hq', isInternal_metaDir] at hi; cases hi
  | metaDir base mm hbase =>
    obtain ⟨-, -, rfl⟩ := internal_split_unique b base _ _ _ _ hb hbase rfl rfl hq'
    simpa using UShape.metaDir b' m' hb'
  | obj base mm r u tok hbase =>
    have h1 : b ++ Key.metaDir m :: c = base ++ Key.metaDir mm :: [Key.obj r u] := by simpa using hq'
    obtain ⟨-, -, rfl⟩ := internal_split_unique b base _ _ _ _ hb hbase rfl rfl h1
    simpa using UShape.obj b' m' r u tok hb'

theorem head_append_ne_toc {a : Path} (c : Path) (ha0 : a ≠ []) (ha : a.head? ≠ some .toc) :
    (a ++ c).head? ≠ some .toc := by
  cases a with
  | nil => exact absurd rfl ha0
  | cons x a => simpa using ha

theorem internal_ne_nil {a : Path} : isInternal a = true → a ≠ [] := by
  rintro h rfl; simp [isInternal] at h

theorem obj_path_internal (P : Path) (r : SRef) (u : Nat) : isInternal (P ++ [Key.obj r u]) = true := by
  simp [isInternal, Key.internal]

/-- below-`dst` directories get their dataset from the corresponding source directory -/
theorem hD_user {e : Env} {t t' : Tree} {src dst : Path} {mv : Bool} (ht : TreeOK e t)
    (hs : isInternal src = false) (hd : isInternal dst = false) (hd0 : dst ≠ [])
    (hreb : Rebased t t' src dst mv) :
    ∀ base m, isInternal base = false → dst <+: base ++ [.metaDir m] →
      get? t' (base ++ [.metaDir m]) ≠ none → ¬ False →
      (m = "" ∨ ∃ v, get? t' (base ++ [.user m]) = some (.ds v)) := by
  intro base m hb hpre hg _
  obtain ⟨c0, rfl⟩ := prefix_of_meta hd hpre
  rw [isInternal_append] at hb
  simp only [Bool.or_eq_false_iff] at hb
  have gd : ∀ c, get? t' (dst ++ c) = get? t (src ++ c) := by
    intro c
    rw [hreb _ (by simp [hd0]), if_pos (List.prefix_append _ _), drop_append_self]
  rw [List.append_assoc, gd, ← List.append_assoc] at hg
  rcases ht.host_ds (src ++ c0) m (by rw [isInternal_append, hs, hb.2]; rfl) hg (fun h => h) with h | ⟨v, hv⟩
  · exact Or.inl h
  · exact Or.inr ⟨v, by rw [List.append_assoc, gd, ← List.append_assoc]; exact hv⟩

/-- `raw.copy` of a user node (group with everything below, or dataset) to a free user name -/
theorem treeOK_copy_user {e : Env} {t t' : Tree} {src dst : Path} (ht : TreeOK e t)
    (hs : isInternal src = false) (hd : isInternal dst = false) (h : rawCopy t src dst = .ok t') :
    TreeOK e t' ∧ ∀ p r u, ObjAt t' p r u ↔
      ((dst <+: p ∧ ObjAt t (src ++ p.drop dst.length) r u) ∨ (¬ dst <+: p ∧ ObjAt t p r u)) := by
  obtain ⟨hs0, hd0, -, hfree, -⟩ := rawCopy_inv h
  have hreb := rebased_of_copy h ht.pclosed
  have := treeOK_rebase (ex' := fun _ => False) ht (rawCopy_keys h ht.keys ht.pclosed) (rawCopy_pclosed h ht.pclosed)
    hreb hs0 hd0 (isInternal_head_ne_toc hd) hfree
    (fun q hm => isInternal_prefix (isMid_nil_iff.mp hm).2.1 hd)
    (fun P r u hp => by rw [hp, obj_path_internal] at hs; cases hs)
    (fun P r u hp => by rw [hp, obj_path_internal] at hd; cases hd)
    (fun c n hg => ushape_rebase_user hs hd (ht.ushape _ n (by simp [hs0])
      (head_append_ne_toc c hs0 (isInternal_head_ne_toc hs)) hg))
    (dirCorr_user hs hd) (hD_user ht hs hd hd0 hreb)
    (fun base m _ _ _ _ hne => ⟨hne, Or.inr (by simp)⟩)
  refine ⟨this.1, fun p r u => ?_⟩
  rw [this.2]; simp

/-- `raw.copy` of a metadata directory to the (free) directory name of an existing dataset -/
theorem treeOK_copy_meta {e : Env} {t t' : Tree} {b b' : Path} {m m' : String} (ht : TreeOK e t)
    (hb : isInternal b = false) (hb' : isInternal b' = false)
    (hhost : m' = "" ∨ ∃ v, get? t (b' ++ [.user m']) = some (.ds v))
    (h : rawCopy t (b ++ [.metaDir m]) (b' ++ [.metaDir m']) = .ok t') :
    TreeOK e t' ∧ ∀ p r u, ObjAt t' p r u ↔
      ((b' ++ [.metaDir m'] <+: p ∧ ObjAt t (b ++ [.metaDir m] ++ p.drop (b' ++ [Key.metaDir m']).length) r u) ∨
       (¬ b' ++ [.metaDir m'] <+: p ∧ ObjAt t p r u)) := by
  obtain ⟨hs0, hd0, -, hfree, -⟩ := rawCopy_inv h
  have hreb := rebased_of_copy h ht.pclosed
  have hmid : ∀ q, isMid [] (b' ++ [Key.metaDir m']) q = true → isInternal q = false := by
    intro q hm
    obtain ⟨-, hpre, hne⟩ := isMid_nil_iff.mp hm
    rcases prefix_snoc_iff.mp (show q <+: b' ++ [Key.metaDir m'] from hpre) with h | h
    · exact absurd h hne
    · exact isInternal_prefix h hb'
  have := treeOK_rebase (ex' := fun _ => False) ht (rawCopy_keys h ht.keys ht.pclosed) (rawCopy_pclosed h ht.pclosed)
    hreb hs0 hd0 (objPath_head hb') hfree hmid
    (fun P r u hp => by have := congrArg List.getLast? hp; simp at this)
    (fun P r u hp => by have := congrArg List.getLast? hp; simp at this)
    (fun c n hg => ushape_rebase_meta hb hb' (ht.ushape _ n (by simp)
      (by rw [List.append_assoc]; exact objPath_head hb) hg))
    (dirCorr_meta m m' hb hb')
    (fun base mm hbase hpre hg _ => by
      obtain ⟨c, hc⟩ := hpre
      have h1 : b' ++ Key.metaDir m' :: c = base ++ Key.metaDir mm :: [] := by simpa using hc
      obtain ⟨rfl, hk, -⟩ := internal_split_unique b' base _ _ _ _ hb' hbase rfl rfl h1
      simp only [Key.metaDir.injEq] at hk
      subst hk
      rcases hhost with h | ⟨v, hv⟩
      · exact Or.inl h
      · refine Or.inr ⟨v, ?_⟩
        have hnd : ¬ b' ++ [Key.metaDir m'] <+: b' ++ [.user m'] := by
          intro hp
          rcases prefix_snoc_iff.mp hp with h | h
          · have := congrArg List.getLast? h; simp at this
          · have := isInternal_prefix h hb'
            rw [isInternal_metaDir b' m' []] at this; cases this
        rw [hreb _ (by simp), if_neg hnd, hv]; simp)
    (fun base m _ _ _ _ hne => ⟨hne, Or.inr (by simp)⟩)
  refine ⟨this.1, fun p r u => ?_⟩
  rw [this.2]; simp

/-- `raw.move` of a group (with everything below) to a free user name -/
theorem treeOK_move_group {e : Env} {t t' : Tree} {src dst : Path} (ht : TreeOK e t)
    (hs : isInternal src = false) (hd : isInternal dst = false) (hgrp : get? t src = some .grp)
    (h : rawMove t src dst = .ok t') :
    TreeOK e t' ∧ ∀ p r u, ObjAt t' p r u ↔
      ((dst <+: p ∧ ObjAt t (src ++ p.drop dst.length) r u) ∨ (¬ dst <+: p ∧ ¬ src <+: p ∧ ObjAt t p r u)) := by
  obtain ⟨hs0, hd0, -, hfree, -, -⟩ := rawMove_inv h
  have hreb := rebased_of_move h ht.pclosed
  have := treeOK_rebase (ex' := fun _ => False) ht (rawMove_keys h ht.keys ht.pclosed) (rawMove_pclosed h ht.pclosed)
    hreb hs0 hd0 (isInternal_head_ne_toc hd) hfree
    (fun q hm => isInternal_prefix (isMid_nil_iff.mp hm).2.1 hd)
    (fun P r u hp => by rw [hp, obj_path_internal] at hs; cases hs)
    (fun P r u hp => by rw [hp, obj_path_internal] at hd; cases hd)
    (fun c n hg => ushape_rebase_user hs hd (ht.ushape _ n (by simp [hs0])
      (head_append_ne_toc c hs0 (isInternal_head_ne_toc hs)) hg))
    (dirCorr_user hs hd) (hD_user ht hs hd hd0 hreb)
    (fun base m hb hg _ hrm hne => ⟨hne, by
      rcases ht.host_ds base m hb hg (fun h => h) with h | ⟨v, hv⟩
      · exact Or.inl h
      · right
        rintro ⟨-, hp⟩
        rcases prefix_snoc_iff.mp hp with h | h
        · rw [h, hv] at hgrp; cases hgrp
        · exact hrm ⟨rfl, h.trans (List.prefix_append _ _)⟩⟩)
  refine ⟨this.1, fun p r u => ?_⟩
  rw [this.2]; simp

/-- nothing lives below a dataset -/
theorem none_below_ds {t : Tree} (hc : PClosed t) {src q : Path} {v : Val} (hv : get? t src = some (.ds v))
    (hpre : src <+: q) (hne : q ≠ src) : get? t q = none := by
  by_contra hg
  have := prefix_grp' hc hpre (fun h => hne h.symm) hg
  rw [hv] at this; cases this

/-- `raw.move` of a dataset: its metadata directory (if any) is left behind for the moment -/
theorem treeOK_move_ds {e : Env} {t t' : Tree} {b : Path} {m : String} {dst : Path} {v : Val} (ht : TreeOK e t)
    (hb : isInternal b = false) (hsi : isInternal (b ++ [.user m]) = false)
    (hd : isInternal dst = false) (hds : get? t (b ++ [.user m]) = some (.ds v))
    (h : rawMove t (b ++ [.user m]) dst = .ok t') :
    TreeOKx e t' (fun P => P = b ++ [.metaDir m]) ∧ (∀ p r u, ObjAt t' p r u ↔ ObjAt t p r u) ∧
    (∀ q, isInternal q = true → get? t' q = get? t q) ∧ get? t' dst = some (.ds v) := by
  obtain ⟨hs0, hd0, -, hfree, -, -⟩ := rawMove_inv h
  have hreb := rebased_of_move h ht.pclosed
  have hnb : ∀ q, b ++ [Key.user m] <+: q → q ≠ b ++ [.user m] → get? t q = none :=
    fun q hp hne => none_below_ds ht.pclosed hds hp hne
  have := treeOK_rebase (ex' := fun P => P = b ++ [.metaDir m]) ht (rawMove_keys h ht.keys ht.pclosed)
    (rawMove_pclosed h ht.pclosed)
    hreb hs0 hd0 (isInternal_head_ne_toc hd) hfree
    (fun q hm => isInternal_prefix (isMid_nil_iff.mp hm).2.1 hd)
    (fun P r u hp => by rw [hp, obj_path_internal] at hsi; cases hsi)
    (fun P r u hp => by rw [hp, obj_path_internal] at hd; cases hd)
    (fun c n hg => ushape_rebase_user hsi hd (ht.ushape _ n (by simp)
      (head_append_ne_toc c hs0 (isInternal_head_ne_toc hsi)) hg))
    (dirCorr_user hsi hd)
    (fun base mm hbase hpre hg hne => hD_user ht hsi hd hd0 hreb base mm hbase hpre hg (fun h => h))
    (fun base mm hbase hg _ hrm hne => ⟨fun h => h, by
      right
      rintro ⟨-, hp⟩
      rcases prefix_snoc_iff.mp hp with h | h
      · obtain ⟨rfl, hk⟩ := List.append_inj' h rfl
        simp at hk; subst hk
        exact hne rfl
      · exact hrm ⟨rfl, h.trans (List.prefix_append _ _)⟩⟩)
  have hint : ∀ q, isInternal q = true → get? t' q = get? t q := by
    intro q hq
    have hq0 := internal_ne_nil hq
    rw [hreb q hq0]
    by_cases hpre : dst <+: q
    · -- the only thing at or below `dst` is the dataset itself
      have hqd : q ≠ dst := by rintro rfl; rw [hd] at hq; cases hq
      obtain ⟨c, rfl⟩ := hpre
      rw [if_pos (List.prefix_append _ _), drop_append_self, none_below_free ht.pclosed hfree (List.prefix_append _ _)]
      exact hnb _ (List.prefix_append _ _) (by
        intro h
        have : c = [] := by simpa using List.append_cancel_left (h.trans (List.append_nil _).symm)
        exact hqd (by rw [this]; simp))
    · rw [if_neg hpre]
      by_cases hsq : b ++ [Key.user m] <+: q
      · rw [if_pos ⟨rfl, hsq⟩, hnb q hsq (by rintro rfl; rw [hsi] at hq; cases hq)]
      · rw [if_neg (fun h => hsq h.2)]
        cases hg : get? t q with
        | some x => rfl
        | none =>
          cases hm : isMid [] dst q with
          | false => rfl
          | true => rw [isInternal_prefix (isMid_nil_iff.mp hm).2.1 hd] at hq; cases hq
  refine ⟨this.1, fun p r u => ObjAt.congr_internal hint p r u, hint, ?_⟩
  have := hreb dst hd0
  rw [if_pos (List.prefix_refl _)] at this
  simpa [hds] using this

/-- `raw.move` of the metadata directory of a moved dataset to the directory name of its new place -/
theorem treeOK_move_meta {e : Env} {t t' : Tree} {b b' : Path} {m m' : String} {v : Val}
    (ht : TreeOKx e t (fun P => P = b ++ [.metaDir m]))
    (hb : isInternal b = false) (hb' : isInternal b' = false)
    (hhost : get? t (b' ++ [.user m']) = some (.ds v))
    (h : rawMove t (b ++ [.metaDir m]) (b' ++ [.metaDir m']) = .ok t') :
    TreeOK e t' ∧ ∀ p r u, ObjAt t' p r u ↔
      ((b' ++ [.metaDir m'] <+: p ∧ ObjAt t (b ++ [.metaDir m] ++ p.drop (b' ++ [Key.metaDir m']).length) r u) ∨
       (¬ b' ++ [.metaDir m'] <+: p ∧ ¬ b ++ [.metaDir m] <+: p ∧ ObjAt t p r u)) := by
  obtain ⟨hs0, hd0, -, hfree, -, -⟩ := rawMove_inv h
  have hreb := rebased_of_move h ht.pclosed
  have hmid : ∀ q, isMid [] (b' ++ [Key.metaDir m']) q = true → isInternal q = false := by
    intro q hm
    obtain ⟨-, hpre, hne⟩ := isMid_nil_iff.mp hm
    rcases prefix_snoc_iff.mp (show q <+: b' ++ [Key.metaDir m'] from hpre) with h | h
    · exact absurd h hne
    · exact isInternal_prefix h hb'
  -- a directory path is never a prefix of `base ++ [user _]`
  have hnp : ∀ (a : Path) (x : String) (base : Path) (y : String), isInternal base = false →
      ¬ a ++ [Key.metaDir x] <+: base ++ [.user y] := by
    intro a x base y hbase hp
    rcases prefix_snoc_iff.mp hp with h | h
    · have := congrArg List.getLast? h; simp at this
    · have := isInternal_prefix h hbase
      rw [isInternal_metaDir a x []] at this; cases this
  have := treeOK_rebase (ex' := fun _ => False) ht (rawMove_keys h ht.keys ht.pclosed) (rawMove_pclosed h ht.pclosed)
    hreb hs0 hd0 (objPath_head hb') hfree hmid
    (fun P r u hp => by have := congrArg List.getLast? hp; simp at this)
    (fun P r u hp => by have := congrArg List.getLast? hp; simp at this)
    (fun c n hg => ushape_rebase_meta hb hb' (ht.ushape _ n (by simp)
      (by rw [List.append_assoc]; exact objPath_head hb) hg))
    (dirCorr_meta m m' hb hb')
    (fun base mm hbase hpre hg _ => by
      obtain ⟨c, hc⟩ := hpre
      have h1 : b' ++ Key.metaDir m' :: c = base ++ Key.metaDir mm :: [] := by simpa using hc
      obtain ⟨rfl, hk, -⟩ := internal_split_unique b' base _ _ _ _ hb' hbase rfl rfl h1
      simp only [Key.metaDir.injEq] at hk
      subst hk
      refine Or.inr ⟨v, ?_⟩
      rw [hreb _ (by simp), if_neg (hnp _ _ _ _ hb'), if_neg (fun h => hnp _ _ _ _ hb' h.2), hhost]; rfl)
    (fun base mm hbase _ _ hrm _ => ⟨fun h => hrm ⟨rfl, by rw [h]⟩, Or.inr (fun h => hnp _ _ _ _ hbase h.2)⟩)
  refine ⟨this.1, fun p r u => ?_⟩
  rw [this.2]; simp

end MetadorModel.Container
