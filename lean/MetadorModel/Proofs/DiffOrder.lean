import MetadorModel.Proofs.DiffApply
import MetadorModel.Proofs.DiffEq
/-! Helper lemmas for C18, part 4: applying the listing of `compare a b` in order to `a`
never fails and ends in `b`. -/
namespace MetadorModel.Diff
open MetadorModel

/-! ### single steps at an entry of the root directory -/

theorem apply_add_here {E : Entries} {k : String} (x : DirTree) (hg : AL.get E k = none) :
    applyRec (.dir E) ⟨[k], none, some x⟩ = some (.dir (AL.ins k (shell x) E)) := by
  simp [applyRec, addAt, hg]

theorem apply_rem_here {E : Entries} {k : String} {t pv : DirTree} (hg : AL.get E k = some t)
    (hr : removable t = true) :
    applyRec (.dir E) ⟨[k], some pv, none⟩ = some (.dir (AL.erase k E)) := by
  simp [applyRec, removeAt, hg, hr]

theorem apply_replace_here {E : Entries} (hs : AL.sorted E = true) {k : String} {t pv c : DirTree}
    (hg : AL.get E k = some t) (hr : removable t = true) (hb : bothDir (some pv) (some c) = false) :
    applyRec (.dir E) ⟨[k], some pv, some c⟩ = some (.dir (AL.ins k (shell c) E)) := by
  simp only [applyRec, hb, Bool.false_eq_true, if_false, removeAt, hg, hr, if_true, addAt]
  rw [AL.get_erase_self k hs]
  simp [AL.ins_erase k _ hs]

theorem apply_keep_here {E : Entries} {k : String} {a b ds : Entries}
    (hg : AL.get E k = some (.dir ds)) :
    applyRec (.dir E) ⟨[k], some (.dir a), some (.dir b)⟩ = some (.dir E) := by
  simp only [applyRec, bothDir, if_true]
  rw [lookup_deep hg]
  simp [lookup]

/-! ### everything added -/

mutual
theorem thmA : (t : DirTree) → t.wf = true → ∀ (k : String) (E : Entries), AL.sorted E = true →
    AL.get E k = none →
    applyAll (.dir E) ((nodes (addT [] t)).map (Rec.pre [k])) = some (.dir (AL.ins k t E))
  | .file s, _, k, E, _, hg => by
    simp only [addT, nodes_mk, nodesL_nil, List.nil_append, List.map_cons, List.map_nil, applyAll]
    have := apply_add_here (k := k) (.file s) hg
    simp only [Rec.pre, List.append_nil] at this ⊢
    rw [this]; rfl
  | .dir cs, hw, k, E, hs, hg => by
    have hw' := (wf_dir cs).mp hw
    simp only [addT, nodes_mk, nodesL_nil, List.nil_append, List.map_cons, applyAll]
    have h1 := apply_add_here (k := k) (.dir cs) hg
    simp only [Rec.pre, List.append_nil] at h1 ⊢
    rw [h1]
    simp only [shell]
    rw [← addSel_nil_right]
    have hp : ∀ r ∈ nodesL (addSel [] cs []), r.path ≠ [] := addSel_paths cs []
    rw [applyAll_pre (AL.sorted_ins k _ hs) (AL.get_ins_self k _ E) _ hp]
    obtain ⟨E2, h2, h3, h4⟩ := thmAS cs hw'.2 hw'.1 [] [] rfl (by simp)
    rw [h2]
    have : E2 = cs := AL.ext h3 hw'.1 (by
      intro n; rw [h4]
      cases AL.get cs n <;> simp)
    subst this
    simp [AL.ins_ins k _ _ hs]
theorem thmAS : (fs' : Entries) → wfEs fs' = true → AL.sorted fs' = true →
    ∀ (es E' : Entries), AL.sorted E' = true →
    (∀ n, (AL.get fs' n).isSome = true → AL.get es n = none → AL.get E' n = none) →
    ∃ E2, applyAll (.dir E') (nodesL (addSel [] fs' es)) = some (.dir E2) ∧ AL.sorted E2 = true ∧
      ∀ n, AL.get E2 n = if (AL.get fs' n).isSome && (AL.get es n).isNone then AL.get fs' n else AL.get E' n
  | [], _, _, es, E', hs', _ => ⟨E', by simp [addSel, applyAll], hs', by simp⟩
  | (k, t) :: r, hw, hs, es, E', hs', hd => by
    have hwt := (wfEs_cons k t r).mp hw
    have hk : AL.get r k = none := AL.get_tail_head hs
    rw [addSel_root_cons]
    cases hg : AL.get es k with
    | some u =>
      simp only []
      obtain ⟨E2, h2, h3, h4⟩ := thmAS r hwt.2 (AL.sorted_tail hs) es E' hs' (by
        intro n hn he
        apply hd n _ he
        rw [AL.get_cons]; split_ifs <;> simp [hn])
      refine ⟨E2, h2, h3, ?_⟩
      intro n
      rw [h4, AL.get_cons]
      by_cases hnk : k = n
      · subst hnk; simp [hk, hg]
      · rw [if_neg hnk]
    | none =>
      simp only []
      rw [applyAll_append, thmA t hwt.1 k E' hs' (hd k (by simp [AL.get_cons]) hg)]
      simp only [Option.bind_some]
      obtain ⟨E2, h2, h3, h4⟩ := thmAS r hwt.2 (AL.sorted_tail hs) es (AL.ins k t E')
        (AL.sorted_ins k t hs') (by
        intro n hn he
        have hnk : n ≠ k := by
          intro e; subst e; rw [hk] at hn; simp at hn
        rw [AL.get_ins_ne hnk]
        apply hd n _ he
        rw [AL.get_cons, if_neg (Ne.symm hnk)]; exact hn)
      refine ⟨E2, h2, h3, ?_⟩
      intro n
      rw [h4, AL.get_cons]
      by_cases hnk : k = n
      · subst hnk; simp [hk, hg, AL.get_ins_self]
      · rw [if_neg hnk, AL.get_ins_ne (Ne.symm hnk)]
end

/-! ### everything removed -/

mutual
theorem thmR : (t : DirTree) → t.wf = true → ∀ (k : String) (E : Entries), AL.sorted E = true →
    AL.get E k = some t →
    applyAll (.dir E) ((nodes (remT [] t)).map (Rec.pre [k])) = some (.dir (AL.erase k E))
  | .file s, _, k, E, _, hg => by
    simp only [remT, nodes_mk, nodesL_nil, List.nil_append, List.map_cons, List.map_nil, applyAll]
    have := apply_rem_here (k := k) (pv := .file s) hg (by simp [removable])
    simp only [Rec.pre, List.append_nil] at this ⊢
    rw [this]
  | .dir cs, hw, k, E, hs, hg => by
    have hw' := (wf_dir cs).mp hw
    simp only [remT, nodes_mk, nodesL_nil, List.nil_append, List.map_append, List.map_cons, List.map_nil]
    rw [applyAll_append, ← remSel_nil_right]
    have hp : ∀ r ∈ nodesL (remSel [] cs []), r.path ≠ [] := remSel_paths cs []
    rw [applyAll_pre hs hg _ hp]
    obtain ⟨X2, h2, h3, h4⟩ := thmRS cs hw'.2 hw'.1 [] cs hw'.1 (by intro n t h _; exact h)
    rw [h2]
    have : X2 = [] := AL.ext h3 rfl (by
      intro n; rw [h4]
      cases AL.get cs n <;> simp)
    subst this
    simp only [Option.map_some, Option.bind_some, applyAll]
    have := apply_rem_here (k := k) (pv := .dir cs) (AL.get_ins_self k (.dir []) E) (by simp [removable])
    simp only [Rec.pre, List.append_nil] at this ⊢
    rw [this, AL.erase_ins k _ hs]
theorem thmRS : (es' : Entries) → wfEs es' = true → AL.sorted es' = true →
    ∀ (fs X : Entries), AL.sorted X = true →
    (∀ n t, AL.get es' n = some t → AL.get fs n = none → AL.get X n = some t) →
    ∃ X2, applyAll (.dir X) (nodesL (remSel [] es' fs)) = some (.dir X2) ∧ AL.sorted X2 = true ∧
      ∀ n, AL.get X2 n = if (AL.get es' n).isSome && (AL.get fs n).isNone then none else AL.get X n
  | [], _, _, fs, X, hx, _ => ⟨X, by simp [remSel, applyAll], hx, by simp⟩
  | (k, t) :: r, hw, hs, fs, X, hx, hd => by
    have hwt := (wfEs_cons k t r).mp hw
    have hk : AL.get r k = none := AL.get_tail_head hs
    rw [remSel_root_cons]
    cases hg : AL.get fs k with
    | some u =>
      simp only []
      obtain ⟨X2, h2, h3, h4⟩ := thmRS r hwt.2 (AL.sorted_tail hs) fs X hx (by
        intro n t' hn he
        apply hd n t' _ he
        rw [AL.get_cons, if_neg]; exact hn
        intro e; subst e; rw [hk] at hn; cases hn)
      refine ⟨X2, h2, h3, ?_⟩
      intro n
      rw [h4, AL.get_cons]
      by_cases hnk : k = n
      · subst hnk; simp [hk, hg]
      · rw [if_neg hnk]
    | none =>
      simp only []
      rw [applyAll_append, thmR t hwt.1 k X hx (hd k t (by simp [AL.get_cons]) hg)]
      simp only [Option.bind_some]
      obtain ⟨X2, h2, h3, h4⟩ := thmRS r hwt.2 (AL.sorted_tail hs) fs (AL.erase k X)
        (AL.sorted_erase k hx) (by
        intro n t' hn he
        have hnk : n ≠ k := by
          intro e; subst e; rw [hk] at hn; cases hn
        rw [AL.get_erase_ne hnk]
        apply hd n t' _ he
        rw [AL.get_cons, if_neg (Ne.symm hnk)]; exact hn)
      refine ⟨X2, h2, h3, ?_⟩
      intro n
      rw [h4, AL.get_cons]
      by_cases hnk : k = n
      · subst hnk; simp [hk, hg, AL.get_erase_self k hx]
      · rw [if_neg hnk, AL.get_erase_ne (Ne.symm hnk)]
end

/-! ### two directories: removed children, modified children, (the node itself), added children -/

/-- what `thmMS` provides for the modified children of `es` against `fs` -/
def ModSpec (es fs : Entries) : Prop :=
  ∀ X : Entries, AL.sorted X = true →
    (∀ n t, AL.get es n = some t → (AL.get fs n).isSome = true → AL.get X n = some t) →
    ∃ X2, applyAll (.dir X) (nodesL (cmpEs [] es fs)) = some (.dir X2) ∧ AL.sorted X2 = true ∧
      ∀ n, AL.get X2 n = if (AL.get es n).isSome && (AL.get fs n).isSome then AL.get fs n else AL.get X n

theorem phases_of (es fs : Entries) (he : (DirTree.dir es).wf = true) (hf : (DirTree.dir fs).wf = true)
    (hM : ModSpec es fs) :
    ∃ X1 X2, AL.sorted X1 = true ∧ AL.sorted X2 = true ∧
      applyAll (.dir es) (nodesL (remSel [] es fs)) = some (.dir X1) ∧
      applyAll (.dir X1) (nodesL (cmpEs [] es fs)) = some (.dir X2) ∧
      applyAll (.dir X2) (nodesL (addSel [] fs es)) = some (.dir fs) := by
  have he' := (wf_dir es).mp he
  have hf' := (wf_dir fs).mp hf
  obtain ⟨X1, r1, s1, g1⟩ := thmRS es he'.2 he'.1 fs es he'.1 (fun n t h _ => h)
  obtain ⟨X2, r2, s2, g2⟩ := hM X1 s1 (by
    intro n t hn hfn
    rw [g1, hn]
    cases hx : AL.get fs n with
    | none => rw [hx] at hfn; cases hfn
    | some u => simp)
  obtain ⟨X3, r3, s3, g3⟩ := thmAS fs hf'.2 hf'.1 es X2 s2 (by
    intro n hn hen
    rw [g2, g1, hen]
    simp)
  have : X3 = fs := AL.ext s3 hf'.1 (by
    intro n
    rw [g3, g2, g1]
    cases AL.get es n <;> cases AL.get fs n <;> simp)
  subst this
  exact ⟨X1, X2, s1, s2, r1, r2, r3⟩

mutual
theorem thmC : (a : DirTree) → a.wf = true → ∀ (b : DirTree) (k : String) (E : Entries), b.wf = true →
    AL.sorted E = true → AL.get E k = some a →
    applyAll (.dir E) ((nodesO (cmpT [] a b)).map (Rec.pre [k])) = some (.dir (AL.ins k b E))
  | .file s, _, .file s', k, E, _, hs, hg => by
    simp only [cmpT]
    split_ifs with h
    · subst h; simp [nodesO, applyAll, AL.ins_of_get hs hg]
    · simp only [nodesO, nodes_mk, nodesL_nil, List.nil_append, List.map_cons, List.map_nil, applyAll]
      have := apply_replace_here hs (pv := .file s) (c := .file s') hg (by simp [removable]) (by simp [bothDir])
      simp only [Rec.pre, List.append_nil] at this ⊢
      rw [this]; rfl
  | .file s, _, .dir fs, k, E, hb, hs, hg => by
    have hf' := (wf_dir fs).mp hb
    simp only [cmpT, nodesO, nodes_mk, nodesL_nil, List.nil_append, List.map_cons, applyAll]
    have h1 := apply_replace_here hs (pv := .file s) (c := .dir fs) hg (by simp [removable]) (by simp [bothDir])
    simp only [Rec.pre, List.append_nil] at h1 ⊢
    rw [h1]
    simp only [shell]
    rw [← addSel_nil_right]
    rw [applyAll_pre (AL.sorted_ins k _ hs) (AL.get_ins_self k _ E) _ (addSel_paths fs [])]
    obtain ⟨E2, h2, h3, h4⟩ := thmAS fs hf'.2 hf'.1 [] [] rfl (by simp)
    rw [h2]
    have : E2 = fs := AL.ext h3 hf'.1 (by
      intro n; rw [h4]
      cases AL.get fs n <;> simp)
    subst this
    simp [AL.ins_ins k _ _ hs]
  | .dir es, ha, .file s', k, E, _, hs, hg => by
    have he' := (wf_dir es).mp ha
    simp only [cmpT, nodesO, nodes_mk, nodesL_nil, List.nil_append, List.map_append, List.map_cons, List.map_nil]
    rw [applyAll_append, ← remSel_nil_right]
    rw [applyAll_pre hs hg _ (remSel_paths es [])]
    obtain ⟨X2, h2, h3, h4⟩ := thmRS es he'.2 he'.1 [] es he'.1 (by intro n t h _; exact h)
    rw [h2]
    have : X2 = [] := AL.ext h3 rfl (by
      intro n; rw [h4]
      cases AL.get es n <;> simp)
    subst this
    simp only [Option.map_some, Option.bind_some, applyAll]
    have := apply_replace_here (AL.sorted_ins k (.dir []) hs) (pv := .dir es) (c := .file s')
      (AL.get_ins_self k (.dir []) E) (by simp [removable]) (by simp [bothDir])
    simp only [Rec.pre, List.append_nil] at this ⊢
    rw [this]
    simp [shell, AL.ins_ins k _ _ hs]
  | .dir es, ha, .dir fs, k, E, hb, hs, hg => by
    have he' := (wf_dir es).mp ha
    have hf' := (wf_dir fs).mp hb
    cases hc : cmpT [] (.dir es) (.dir fs) with
    | none =>
      have := cmpT_none _ _ _ ha hb hc
      rw [← this]
      simp [nodesO, applyAll, AL.ins_of_get hs hg]
    | some d =>
      rw [cmpT_dir_dir] at hc
      split_ifs at hc with hcc
      cases hc
      obtain ⟨X1, X2, s1, s2, r1, r2, r3⟩ := phases_of es fs ha hb (fun X hx hd => thmMS es he'.2 he'.1 fs X hf'.2 hx hd)
      simp only [nodesO, nodes_mk, List.map_append, List.map_cons]
      rw [applyAll_append, applyAll_pre hs hg _ (remSel_paths es fs), r1]
      simp only [Option.map_some, Option.bind_some]
      rw [applyAll_append, applyAll_pre (AL.sorted_ins k _ hs) (AL.get_ins_self k _ E) _ (cmpEs_paths es fs), r2]
      simp only [Option.map_some, Option.bind_some, applyAll]
      rw [AL.ins_ins k _ _ hs]
      have hk := apply_keep_here (k := k) (a := es) (b := fs) (AL.get_ins_self k (.dir X2) E)
      simp only [Rec.pre, List.append_nil] at hk ⊢
      rw [hk]
      simp only []
      rw [applyAll_pre (AL.sorted_ins k _ hs) (AL.get_ins_self k _ E) _ (addSel_paths fs es), r3]
      simp [AL.ins_ins k _ _ hs]
theorem thmMS : (es' : Entries) → wfEs es' = true → AL.sorted es' = true →
    ∀ (fs X : Entries), wfEs fs = true → AL.sorted X = true →
    (∀ n t, AL.get es' n = some t → (AL.get fs n).isSome = true → AL.get X n = some t) →
    ∃ X2, applyAll (.dir X) (nodesL (cmpEs [] es' fs)) = some (.dir X2) ∧ AL.sorted X2 = true ∧
      ∀ n, AL.get X2 n = if (AL.get es' n).isSome && (AL.get fs n).isSome then AL.get fs n else AL.get X n
  | [], _, _, fs, X, _, hx, _ => ⟨X, by simp [cmpEs, applyAll], hx, by simp⟩
  | (k, t) :: r, hw, hs, fs, X, hwf, hx, hd => by
    have hwt := (wfEs_cons k t r).mp hw
    have hk : AL.get r k = none := AL.get_tail_head hs
    rw [cmpEs_root_cons]
    cases hg : AL.get fs k with
    | none =>
      simp only []
      obtain ⟨X2, h2, h3, h4⟩ := thmMS r hwt.2 (AL.sorted_tail hs) fs X hwf hx (by
        intro n t' hn he
        apply hd n t' _ he
        rw [AL.get_cons, if_neg]; exact hn
        intro e; subst e; rw [hk] at hn; cases hn)
      refine ⟨X2, h2, h3, ?_⟩
      intro n
      rw [h4, AL.get_cons]
      by_cases hnk : k = n
      · subst hnk; simp [hk, hg]
      · rw [if_neg hnk]
    | some u =>
      simp only []
      have hu : u.wf = true := wfEs_get hwf hg
      rw [applyAll_append, thmC t hwt.1 u k X hu hx (hd k t (by simp [AL.get_cons]) (by simp [hg]))]
      simp only [Option.bind_some]
      obtain ⟨X2, h2, h3, h4⟩ := thmMS r hwt.2 (AL.sorted_tail hs) fs (AL.ins k u X) hwf
        (AL.sorted_ins k u hx) (by
        intro n t' hn he
        have hnk : n ≠ k := by
          intro e; subst e; rw [hk] at hn; cases hn
        rw [AL.get_ins_ne hnk]
        apply hd n t' _ he
        rw [AL.get_cons, if_neg (Ne.symm hnk)]; exact hn)
      refine ⟨X2, h2, h3, ?_⟩
      intro n
      rw [h4, AL.get_cons]
      by_cases hnk : k = n
      · subst hnk; simp [hk, hg, AL.get_ins_self]
      · rw [if_neg hnk, AL.get_ins_ne (Ne.symm hnk)]
end

/-- the listing of two directories, applied to the old one, gives the new one -/
theorem applyAll_compare (es fs : Entries) (ha : (DirTree.dir es).wf = true) (hb : (DirTree.dir fs).wf = true) :
    applyAll (.dir es) (nodesO (compare (.dir es) (.dir fs))) = some (.dir fs) := by
  have he' := (wf_dir es).mp ha
  have hf' := (wf_dir fs).mp hb
  unfold compare
  cases hc : cmpT [] (.dir es) (.dir fs) with
  | none =>
    have := cmpT_none _ _ _ ha hb hc
    rw [← this]; simp [nodesO, applyAll]
  | some d =>
    rw [cmpT_dir_dir] at hc
    split_ifs at hc with hcc
    cases hc
    obtain ⟨X1, X2, s1, s2, r1, r2, r3⟩ := phases_of es fs ha hb (fun X hx hd => thmMS es he'.2 he'.1 fs X hf'.2 hx hd)
    simp only [nodesO, nodes_mk]
    rw [applyAll_append, r1]
    simp only [Option.bind_some]
    rw [applyAll_append, r2]
    simp only [Option.bind_some, applyAll, applyRec, bothDir, if_true, lookup]
    exact r3
