import MetadorModel.Proofs.DiffApply
import MetadorModel.Proofs.DiffEq
/-! Helper lemmas for C18, part 5: the listing reports exactly the paths whose entries differ,
with the two entries as `prev` / `curr`. -/
namespace MetadorModel.Diff
open MetadorModel

/-- `lookup` with a possibly missing tree -/
def lookupO : Option DirTree → Path → Option DirTree
  | none, _ => none
  | some t, p => lookup t p

/-- the entries of a directory; a file (or nothing) has none -/
def entriesO : Option DirTree → Entries
  | some (.dir es) => es
  | _ => []

/-- the listing of `compare(x, y, Path(""))` -/
def N (x y : Option DirTree) : List Rec := nodesO (compareAt [] x y)

theorem lookupO_cons (x : Option DirTree) (k : String) (q : Path) :
    lookupO x (k :: q) = lookupO (AL.get (entriesO x) k) q := by
  cases x with
  | none => simp [lookupO, entriesO]
  | some t =>
    cases t with
    | file s => simp [lookupO, entriesO, lookup]
    | dir es =>
      simp only [lookupO, entriesO]
      rw [lookup_cons_dir]
      cases AL.get es k <;> rfl

theorem lookupO_nil (x : Option DirTree) : lookupO x [] = x := by
  cases x <;> simp [lookupO, lookup]

/-! ### membership in the three buckets -/

theorem mem_remSel {es fs : Entries} (hs : AL.sorted es = true) (r : Rec) :
    r ∈ nodesL (remSel [] es fs) ↔
      ∃ k t, AL.get es k = some t ∧ AL.get fs k = none ∧ ∃ r' ∈ nodes (remT [] t), r = Rec.pre [k] r' := by
  induction es with
  | nil => simp [remSel]
  | cons a rest ih =>
    obtain ⟨k0, t0⟩ := a
    have hk : AL.get rest k0 = none := AL.get_tail_head hs
    rw [remSel_root_cons]
    have ih' := ih (AL.sorted_tail hs)
    constructor
    · intro h
      cases hg : AL.get fs k0 with
      | none =>
        rw [hg] at h
        rcases List.mem_append.mp h with h | h
        · obtain ⟨r', hr', rfl⟩ := List.mem_map.mp h
          exact ⟨k0, t0, by simp [AL.get_cons], hg, r', hr', rfl⟩
        · obtain ⟨k, t, h1, h2, h3⟩ := ih'.mp h
          refine ⟨k, t, ?_, h2, h3⟩
          rw [AL.get_cons, if_neg]; exact h1
          intro e; subst e; rw [hk] at h1; cases h1
      | some u =>
        rw [hg] at h
        obtain ⟨k, t, h1, h2, h3⟩ := ih'.mp h
        refine ⟨k, t, ?_, h2, h3⟩
        rw [AL.get_cons, if_neg]; exact h1
        intro e; subst e; rw [hk] at h1; cases h1
    · rintro ⟨k, t, h1, h2, r', hr', rfl⟩
      rw [AL.get_cons] at h1
      by_cases hkk : k0 = k
      · subst hkk
        rw [if_pos rfl] at h1
        cases h1
        rw [h2]
        exact List.mem_append.mpr (Or.inl (List.mem_map.mpr ⟨r', hr', rfl⟩))
      · rw [if_neg hkk] at h1
        have := ih'.mpr ⟨k, t, h1, h2, r', hr', rfl⟩
        cases AL.get fs k0 with
        | none => exact List.mem_append.mpr (Or.inr this)
        | some u => exact this

theorem mem_addSel {fs es : Entries} (hs : AL.sorted fs = true) (r : Rec) :
    r ∈ nodesL (addSel [] fs es) ↔
      ∃ k t, AL.get fs k = some t ∧ AL.get es k = none ∧ ∃ r' ∈ nodes (addT [] t), r = Rec.pre [k] r' := by
  induction fs with
  | nil => simp [addSel]
  | cons a rest ih =>
    obtain ⟨k0, t0⟩ := a
    have hk : AL.get rest k0 = none := AL.get_tail_head hs
    rw [addSel_root_cons]
    have ih' := ih (AL.sorted_tail hs)
    constructor
    · intro h
      cases hg : AL.get es k0 with
      | none =>
        rw [hg] at h
        rcases List.mem_append.mp h with h | h
        · obtain ⟨r', hr', rfl⟩ := List.mem_map.mp h
          exact ⟨k0, t0, by simp [AL.get_cons], hg, r', hr', rfl⟩
        · obtain ⟨k, t, h1, h2, h3⟩ := ih'.mp h
          refine ⟨k, t, ?_, h2, h3⟩
          rw [AL.get_cons, if_neg]; exact h1
          intro e; subst e; rw [hk] at h1; cases h1
      | some u =>
        rw [hg] at h
        obtain ⟨k, t, h1, h2, h3⟩ := ih'.mp h
        refine ⟨k, t, ?_, h2, h3⟩
        rw [AL.get_cons, if_neg]; exact h1
        intro e; subst e; rw [hk] at h1; cases h1
    · rintro ⟨k, t, h1, h2, r', hr', rfl⟩
      rw [AL.get_cons] at h1
      by_cases hkk : k0 = k
      · subst hkk
        rw [if_pos rfl] at h1
        cases h1
        rw [h2]
        exact List.mem_append.mpr (Or.inl (List.mem_map.mpr ⟨r', hr', rfl⟩))
      · rw [if_neg hkk] at h1
        have := ih'.mpr ⟨k, t, h1, h2, r', hr', rfl⟩
        cases AL.get es k0 with
        | none => exact List.mem_append.mpr (Or.inr this)
        | some u => exact this

theorem mem_cmpEs {es fs : Entries} (hs : AL.sorted es = true) (r : Rec) :
    r ∈ nodesL (cmpEs [] es fs) ↔
      ∃ k t u, AL.get es k = some t ∧ AL.get fs k = some u ∧ ∃ r' ∈ nodesO (cmpT [] t u), r = Rec.pre [k] r' := by
  induction es with
  | nil => simp [cmpEs]
  | cons a rest ih =>
    obtain ⟨k0, t0⟩ := a
    have hk : AL.get rest k0 = none := AL.get_tail_head hs
    rw [cmpEs_root_cons]
    have ih' := ih (AL.sorted_tail hs)
    constructor
    · intro h
      cases hg : AL.get fs k0 with
      | some u0 =>
        rw [hg] at h
        rcases List.mem_append.mp h with h | h
        · obtain ⟨r', hr', rfl⟩ := List.mem_map.mp h
          exact ⟨k0, t0, u0, by simp [AL.get_cons], hg, r', hr', rfl⟩
        · obtain ⟨k, t, u, h1, h2, h3⟩ := ih'.mp h
          refine ⟨k, t, u, ?_, h2, h3⟩
          rw [AL.get_cons, if_neg]; exact h1
          intro e; subst e; rw [hk] at h1; cases h1
      | none =>
        rw [hg] at h
        obtain ⟨k, t, u, h1, h2, h3⟩ := ih'.mp h
        refine ⟨k, t, u, ?_, h2, h3⟩
        rw [AL.get_cons, if_neg]; exact h1
        intro e; subst e; rw [hk] at h1; cases h1
    · rintro ⟨k, t, u, h1, h2, r', hr', rfl⟩
      rw [AL.get_cons] at h1
      by_cases hkk : k0 = k
      · subst hkk
        rw [if_pos rfl] at h1
        cases h1
        rw [h2]
        exact List.mem_append.mpr (Or.inl (List.mem_map.mpr ⟨r', hr', rfl⟩))
      · rw [if_neg hkk] at h1
        have := ih'.mpr ⟨k, t, u, h1, h2, r', hr', rfl⟩
        cases AL.get fs k0 with
        | some u => exact List.mem_append.mpr (Or.inr this)
        | none => exact this

/-! ### uniform shape of a listing -/

def wfO : Option DirTree → Prop
  | none => True
  | some t => t.wf = true

theorem cmpEs_nil_right (p : Path) (es : Entries) : cmpEs p es [] = [] := by
  induction es with
  | nil => simp [cmpEs]
  | cons a r ih => obtain ⟨k, t⟩ := a; rw [cmpEs_cons]; simpa using ih

theorem remSel_nil_left (p : Path) (fs : Entries) : remSel p [] fs = [] := by simp [remSel]
theorem addSel_nil_left (p : Path) (es : Entries) : addSel p [] es = [] := by simp [addSel]
theorem cmpEs_nil_left (p : Path) (fs : Entries) : cmpEs p [] fs = [] := by simp [cmpEs]

theorem wfO_entries {x : Option DirTree} (h : wfO x) :
    AL.sorted (entriesO x) = true ∧ wfEs (entriesO x) = true := by
  cases x with
  | none => simp [entriesO, wfEs]
  | some t =>
    cases t with
    | file s => simp [entriesO, wfEs]
    | dir es => exact (wf_dir es).mp h

theorem wfO_get {x : Option DirTree} (h : wfO x) (k : String) : wfO (AL.get (entriesO x) k) := by
  cases hg : AL.get (entriesO x) k with
  | none => trivial
  | some t => exact wfEs_get (wfO_entries h).2 hg

theorem N_eq {x : Option DirTree} (h : wfO x) : N x x = [] := by
  cases x with
  | none => simp [N, compareAt, nodesO]
  | some t => simp [N, compareAt, cmpT_self t [] h, nodesO]

theorem N_ne {x y : Option DirTree} (hx : wfO x) (hy : wfO y) (hne : x ≠ y) :
    N x y = nodesL (remSel [] (entriesO x) (entriesO y)) ++
      (nodesL (cmpEs [] (entriesO x) (entriesO y)) ++
        (⟨[], x, y⟩ :: nodesL (addSel [] (entriesO y) (entriesO x)))) := by
  cases x with
  | none =>
    cases y with
    | none => exact absurd rfl hne
    | some b =>
      cases b with
      | file s => simp [N, compareAt, nodesO, addT, nodes_mk, entriesO, remSel, cmpEs, addSel]
      | dir fs =>
        simp [N, compareAt, nodesO, addT, nodes_mk, entriesO, remSel, cmpEs, addSel_nil_right]
  | some a =>
    cases y with
    | none =>
      cases a with
      | file s => simp [N, compareAt, nodesO, remT, nodes_mk, entriesO, remSel, cmpEs, addSel]
      | dir es =>
        simp [N, compareAt, nodesO, remT, nodes_mk, entriesO, addSel, cmpEs_nil_right, remSel_nil_right]
    | some b =>
      cases a with
      | file s =>
        cases b with
        | file s' =>
          have : s ≠ s' := fun e => hne (by rw [e])
          simp [N, compareAt, nodesO, cmpT, this, nodes_mk, entriesO, remSel, cmpEs, addSel]
        | dir fs =>
          simp [N, compareAt, nodesO, cmpT, nodes_mk, entriesO, remSel, cmpEs, addSel_nil_right]
      | dir es =>
        cases b with
        | file s' =>
          simp [N, compareAt, nodesO, cmpT, nodes_mk, entriesO, addSel, cmpEs_nil_right, remSel_nil_right]
        | dir fs =>
          have hc : cmpT [] (.dir es) (.dir fs) ≠ none := by
            intro h
            exact hne (by rw [cmpT_none _ _ _ hx hy h])
          simp only [N, compareAt, entriesO]
          rw [cmpT_dir_dir] at hc ⊢
          split_ifs at hc ⊢ with hcc
          · exact absurd rfl hc
          · simp [nodesO, nodes_mk]

theorem mem_children {es fs : Entries} (he : AL.sorted es = true) (hf : AL.sorted fs = true) (r : Rec) :
    (r ∈ nodesL (remSel [] es fs) ∨ r ∈ nodesL (cmpEs [] es fs) ∨ r ∈ nodesL (addSel [] fs es)) ↔
      ∃ k r', r' ∈ N (AL.get es k) (AL.get fs k) ∧ r = Rec.pre [k] r' := by
  constructor
  · rintro (h | h | h)
    · obtain ⟨k, t, h1, h2, r', hr', rfl⟩ := (mem_remSel he r).mp h
      exact ⟨k, r', by simpa [N, compareAt, h1, h2, nodesO] using hr', rfl⟩
    · obtain ⟨k, t, u, h1, h2, r', hr', rfl⟩ := (mem_cmpEs he r).mp h
      exact ⟨k, r', by simpa [N, compareAt, h1, h2] using hr', rfl⟩
    · obtain ⟨k, t, h1, h2, r', hr', rfl⟩ := (mem_addSel hf r).mp h
      exact ⟨k, r', by simpa [N, compareAt, h1, h2, nodesO] using hr', rfl⟩
  · rintro ⟨k, r', hr', rfl⟩
    cases h1 : AL.get es k with
    | none =>
      cases h2 : AL.get fs k with
      | none => simp [N, compareAt, h1, h2, nodesO] at hr'
      | some u =>
        refine Or.inr (Or.inr ((mem_addSel hf _).mpr ⟨k, u, h2, h1, r', ?_, rfl⟩))
        simpa [N, compareAt, h1, h2, nodesO] using hr'
    | some t =>
      cases h2 : AL.get fs k with
      | none =>
        refine Or.inl ((mem_remSel he _).mpr ⟨k, t, h1, h2, r', ?_, rfl⟩)
        simpa [N, compareAt, h1, h2, nodesO] using hr'
      | some u =>
        refine Or.inr (Or.inl ((mem_cmpEs he _).mpr ⟨k, t, u, h1, h2, r', ?_, rfl⟩))
        simpa [N, compareAt, h1, h2] using hr'

/-- a record of the listing is the node itself (iff the two sides differ) or a record of the
listing of one child, seen from one level up -/
theorem mem_N {x y : Option DirTree} (hx : wfO x) (hy : wfO y) (r : Rec) :
    r ∈ N x y ↔ (r = ⟨[], x, y⟩ ∧ x ≠ y) ∨
      ∃ k r', r' ∈ N (AL.get (entriesO x) k) (AL.get (entriesO y) k) ∧ r = Rec.pre [k] r' := by
  by_cases hxy : x = y
  · subst hxy
    rw [N_eq hx]
    simp only [List.not_mem_nil, ne_eq, not_true_eq_false, and_false, false_or, false_iff, not_exists, not_and]
    intro k r' hr'
    rw [N_eq (wfO_get hx k)] at hr'
    simp at hr'
  · rw [N_ne hx hy hxy, ← mem_children (wfO_entries hx).1 (wfO_entries hy).1]
    simp only [List.mem_append, List.mem_cons]
    constructor
    · rintro (h | h | h | h)
      · exact Or.inr (Or.inl h)
      · exact Or.inr (Or.inr (Or.inl h))
      · exact Or.inl ⟨h, hxy⟩
      · exact Or.inr (Or.inr (Or.inr h))
    · rintro (⟨h, _⟩ | h | h | h)
      · exact Or.inr (Or.inr (Or.inl h))
      · exact Or.inl h
      · exact Or.inr (Or.inl h)
      · exact Or.inr (Or.inr (Or.inr h))

/-! ### induction on the size of the two trees -/

mutual
def size : DirTree → Nat
  | .file _ => 1
  | .dir es => 1 + sizeEs es
def sizeEs : Entries → Nat
  | [] => 0
  | (_, t) :: r => size t + sizeEs r
end

def sizeO : Option DirTree → Nat
  | none => 0
  | some t => size t

theorem size_pos (t : DirTree) : 0 < size t := by
  cases t <;> simp [size]

theorem size_get {es : Entries} {k : String} {t : DirTree} (h : AL.get es k = some t) :
    size t ≤ sizeEs es := by
  induction es with
  | nil => simp at h
  | cons a r ih =>
    obtain ⟨k', t'⟩ := a
    rw [AL.get_cons] at h
    simp only [sizeEs]
    split_ifs at h with h1
    · cases h; omega
    · have := ih h; omega

theorem sizeO_child (x : Option DirTree) (k : String) :
    sizeO (AL.get (entriesO x) k) ≤ sizeO x ∧
      (AL.get (entriesO x) k ≠ none → sizeO (AL.get (entriesO x) k) < sizeO x) := by
  cases x with
  | none => simp [entriesO, sizeO]
  | some t =>
    cases t with
    | file s => simp [entriesO, sizeO]
    | dir es =>
      simp only [entriesO]
      cases hg : AL.get es k with
      | none => simp [sizeO]
      | some u =>
        have := size_get hg
        simp only [sizeO, size, ne_eq, reduceCtorEq, not_false_eq_true, forall_const]
        omega

theorem N_none_none : N none none = [] := by simp [N, compareAt, nodesO]

/-- every listed record carries the two entries at its path; a path is listed iff they differ -/
theorem reported (n : Nat) : ∀ (x y : Option DirTree), wfO x → wfO y → sizeO x + sizeO y ≤ n →
    (∀ r ∈ N x y, r.prev = lookupO x r.path ∧ r.curr = lookupO y r.path) ∧
    (∀ p, (∃ r ∈ N x y, r.path = p) ↔ lookupO x p ≠ lookupO y p) := by
  induction n with
  | zero =>
    intro x y hx hy hn
    have hx0 : x = none := by
      cases x with
      | none => rfl
      | some t => have := size_pos t; simp [sizeO] at hn; omega
    have hy0 : y = none := by
      cases y with
      | none => rfl
      | some t => have := size_pos t; simp [sizeO] at hn; omega
    subst hx0 hy0
    simp [N_none_none, lookupO]
  | succ n ih =>
    intro x y hx hy hn
    -- the listing of a child is covered by the induction hypothesis (or empty)
    have child : ∀ k, AL.get (entriesO x) k ≠ none ∨ AL.get (entriesO y) k ≠ none →
        sizeO (AL.get (entriesO x) k) + sizeO (AL.get (entriesO y) k) ≤ n := by
      intro k h
      have hcx := sizeO_child x k
      have hcy := sizeO_child y k
      rcases h with h | h
      · have := hcx.2 h; omega
      · have := hcy.2 h; omega
    have ihk : ∀ k,
        (∀ r ∈ N (AL.get (entriesO x) k) (AL.get (entriesO y) k),
          r.prev = lookupO (AL.get (entriesO x) k) r.path ∧ r.curr = lookupO (AL.get (entriesO y) k) r.path) ∧
        (∀ p, (∃ r ∈ N (AL.get (entriesO x) k) (AL.get (entriesO y) k), r.path = p) ↔
          lookupO (AL.get (entriesO x) k) p ≠ lookupO (AL.get (entriesO y) k) p) := by
      intro k
      by_cases hboth : AL.get (entriesO x) k = none ∧ AL.get (entriesO y) k = none
      · rw [hboth.1, hboth.2]
        simp [N_none_none, lookupO]
      · apply ih _ _ (wfO_get hx k) (wfO_get hy k) (child k _)
        by_cases h1 : AL.get (entriesO x) k = none
        · exact Or.inr (fun h2 => hboth ⟨h1, h2⟩)
        · exact Or.inl h1
    constructor
    · intro r hr
      rcases (mem_N hx hy r).mp hr with ⟨rfl, _⟩ | ⟨k, r', hr', rfl⟩
      · simp [lookupO_nil]
      · have := (ihk k).1 r' hr'
        simp only [Rec.pre_prev, Rec.pre_curr, Rec.pre_path, List.singleton_append, lookupO_cons]
        exact this
    · intro p
      cases p with
      | nil =>
        rw [lookupO_nil, lookupO_nil]
        constructor
        · rintro ⟨r, hr, hp⟩
          rcases (mem_N hx hy r).mp hr with ⟨_, hne⟩ | ⟨k, r', _, rfl⟩
          · exact hne
          · simp at hp
        · intro hne
          exact ⟨⟨[], x, y⟩, (mem_N hx hy _).mpr (Or.inl ⟨rfl, hne⟩), rfl⟩
      | cons k q =>
        rw [lookupO_cons, lookupO_cons, ← (ihk k).2 q]
        constructor
        · rintro ⟨r, hr, hp⟩
          rcases (mem_N hx hy r).mp hr with ⟨rfl, _⟩ | ⟨k', r', hr', rfl⟩
          · simp at hp
          · simp only [Rec.pre_path, List.singleton_append, List.cons.injEq] at hp
            obtain ⟨rfl, rfl⟩ := hp
            exact ⟨r', hr', rfl⟩
        · rintro ⟨r', hr', rfl⟩
          exact ⟨Rec.pre [k] r', (mem_N hx hy _).mpr (Or.inr ⟨k, r', hr', rfl⟩), by simp⟩
