import MetadorModel.Proofs.OverlayWriteOps
/-!
# C01 write side, part 6: attribute writes (`attrs[k] = v`, `del attrs[k]`)
-/
namespace MetadorModel.Overlay
open MetadorModel.Tree
variable {V : Type}

theorem attrFind_idx_lt (q : Path) (k : Key) (c : Nat) (r : Rec V) (i : Nat) (v : Option V)
    (h : attrFind q k c r = some (i, v)) : i < r.length := by
  induction r with
  | nil => simp [attrFind] at h
  | cons p rest ih =>
    simp only [attrFind] at h
    split at h
    · simp at h
    · split at h
      · have := ih h; simp; omega
      · split at h
        · simp at h; simp; omega
        · have := ih h; simp; omega

theorem aget_aput_same' {κ β : Type} [DecidableEq κ] (k : κ) (v : β) (l : List (κ × β)) :
    aget k (aput k v l) = some v := by rw [aget_aput]; simp

theorem withCarriers_self (c : Cont V) (p : Path) : withCarriers c p p = aget p c := by
  unfold withCarriers
  cases aget p c with
  | some m => rfl
  | none =>
    have : p ∉ properPrefixes p := not_mem_pp_of_isPre p p (isPre_refl p)
    simp [this]

/-- when `p` has an entry in a well-formed container no intermediate group is missing -/
theorem withCarriers_of_present (c : Cont V) (hwf : WF c) (p q : Path) (hp : aget p c ≠ none) :
    withCarriers c p q = aget q c := by
  unfold withCarriers
  cases hq : aget q c with
  | some m => rfl
  | none =>
    by_cases hm : q ∈ properPrefixes p
    · exfalso
      obtain ⟨s, hs, rfl⟩ := (mem_properPrefixes _ _).1 hm
      obtain ⟨m, hm', _⟩ := hwf.anc s q hs hp
      rw [hq] at hm'; cases hm'
    · simp [hm]

/-- attributes of the entry at `p` (none when there is no entry) -/
def rawAttrs (c : Cont V) (p : Path) (k : Key) : Option (Option V) := (aget p c).bind (fun n => aget k n.attrs)

/-- body of `IH5AttributeManager.__setitem__` on the newest container -/
theorem setAttrRaw_shape (c : Cont V) (older : Rec V) (path : Path) (k : Key) (w : Option V)
    (hanc : ∀ x ∈ properPrefixes path, ∀ m, aget x c = some m → m.kind.isGroup = true) :
    ∃ c' n', W.setAttrRaw (c :: older) path k w = .ok (c' :: older) ∧ aget path c' = some n' ∧
      (n'.kind = match aget path c with | some n => n.kind | none => .vgroup) ∧
      (∀ k', aget k' n'.attrs = if k' = k then some w else rawAttrs c path k') ∧
      ∀ q, q ≠ path → aget q c' = match aget path c with
        | none => withCarriers c path q
        | some _ => aget q c := by
  cases hp : aget path c with
  | none =>
    obtain ⟨t1, ht1, hget1⟩ := createNode_shape c path vnode hp hanc
    have hat1 : aget path t1 = some vnode := by rw [hget1]; simp
    refine ⟨aput path { (vnode : RNode V) with attrs := aput k w (vnode : RNode V).attrs } t1, _, ?_, aget_aput_same' _ _ _, rfl, ?_, ?_⟩
    · simp only [W.setAttrRaw, hp, Option.isNone_none, ↓reduceIte, Raw.createGroup, ht1, bind, Except.bind,
        Raw.setAttr, hat1, pure, Except.pure]
    · intro k'
      simp only [vnode, aget_aput, rawAttrs, hp, Option.bind_none, aget]
    · intro q hq
      rw [aget_aput, hget1]
      simp [hq]
  | some n =>
    refine ⟨aput path { n with attrs := aput k w n.attrs } c, _, ?_, aget_aput_same' _ _ _, rfl, ?_, ?_⟩
    · simp only [W.setAttrRaw, hp, Option.isNone_some, Bool.false_eq_true, ↓reduceIte, bind, Except.bind,
        Raw.setAttr, pure, Except.pure]
    · intro k'
      simp only [aget_aput, rawAttrs, hp, Option.bind_some]
    · intro q hq
      rw [aget_aput]
      simp [hq]

/-- meaning of an attribute edit at a visible path -/
theorem attr_sem (c c' : Cont V) (older : Rec V) (path : Path) (n' : RNode V) (k : Key)
    (wraw : Option (Option V)) (w : Option V)
    (hinv : Inv (c :: older)) (hvis : viewKind (c :: older) path ≠ none)
    (hat : aget path c' = some n')
    (hkind : n'.kind = match aget path c with | some n => n.kind | none => .vgroup)
    (hattrs : ∀ k', aget k' n'.attrs = if k' = k then wraw else rawAttrs c path k')
    (hw : wraw = some w ∨ (wraw = none ∧ older = [] ∧ w = none))
    (hout : ∀ q, q ≠ path → aget q c' = match aget path c with
        | none => withCarriers c path q
        | some _ => aget q c) :
    Inv (c' :: older) ∧ (∀ q, viewKind (c' :: older) q = viewKind (c :: older) q) ∧
    ∀ q k', viewAttr (c' :: older) q k' = if q = path ∧ k' = k then w else viewAttr (c :: older) q k' := by
  obtain ⟨hinv1, hview1⟩ := carriers c older path hinv (pp_visible_of_visible _ path hvis)
  have hp1 : aget path (ensure vnode path c) = aget path c := by rw [aget_ensure_vnode, withCarriers_self]
  obtain ⟨hinv2, hk2, ho2, ha2⟩ := attrEdit (ensure vnode path c) c' older path n' hinv1
    (by rw [(hview1 path).1]; exact hvis)
    (fun x hx => by rw [aget_ensure_vnode]; exact withCarriers_mem_ne_none c path x hx)
    hat (by rw [hp1]; exact hkind)
    (by
      intro q hq
      rw [hout q hq, aget_ensure_vnode]
      cases hp : aget path c with
      | none => rfl
      | some n => exact (withCarriers_of_present c hinv.1 path q (by simp [hp])).symm)
  refine ⟨hinv2, fun q => by rw [hk2 q, (hview1 q).1], fun q k' => ?_⟩
  by_cases hq : q = path
  · subst hq
    rw [ha2 k', ← (hview1 q).2 k', viewAttr_top (ensure vnode q c) older q hinv1
      (by rw [(hview1 q).1]; exact hvis) k', hp1, hattrs k']
    by_cases hk : k' = k
    · subst hk
      simp only [and_self, ↓reduceIte]
      rcases hw with h | ⟨h1, h2, h3⟩
      · subst h
        split <;> rfl
      · subst h1; subst h2; subst h3
        split
        · rfl
        · exact viewAttr_nil q k'
    · simp only [hk, and_false, ↓reduceIte]
      rfl
  · rw [ho2 q k' hq, (hview1 q).2 k']
    simp [hq]

/-! ### `attrs[k] = v` -/

theorem setAttr_ok (c : Cont V) (older : Rec V) (path : Path) (k : Key) (v : V)
    (hinv : Inv (c :: older)) (hvis : viewKind (c :: older) path ≠ none) :
    ∃ c', W.setAttr (c :: older) path k v = .ok (c' :: older) ∧ Inv (c' :: older) ∧
      (∀ q, viewKind (c' :: older) q = viewKind (c :: older) q) ∧
      ∀ q k', viewAttr (c' :: older) q k' = if q = path ∧ k' = k then some v else viewAttr (c :: older) q k' := by
  obtain ⟨cf, nf, hl⟩ := found_of_viewKind _ _ hvis
  have hanc := anc_groups c older hinv path (pp_visible_of_visible _ path hvis)
  obtain ⟨c', n', h1, h2, h3, h4, h5⟩ := setAttrRaw_shape c older path k (some v) hanc
  refine ⟨c', by simp only [W.setAttr, hl, h1], ?_⟩
  exact attr_sem c c' older path n' k (some (some v)) (some v) hinv hvis h2 h3 h4 (Or.inl rfl) h5

theorem setAttr_err (r : Rec V) (path : Path) (k : Key) (v : V) (hvis : viewKind r path = none) :
    ∃ e, W.setAttr r path k v = .error e := by
  unfold W.setAttr
  cases hl : look r path with
  | found cf nf =>
    exact absurd hvis (by rw [(viewKind_of_found r path cf nf hl).1]; exact (viewKind_of_found r path cf nf hl).2)
  | part _ _ => exact ⟨_, rfl⟩
  | insideValue => exact ⟨_, rfl⟩

/-! ### `del attrs[k]` -/

theorem delAttr_err (c : Cont V) (older : Rec V) (path : Path) (k : Key)
    (h : viewAttr (c :: older) path k = none) : ∃ e, W.delAttr (c :: older) path k = .error e := by
  cases hl : look (c :: older) path with
  | found cf nf =>
    rw [viewAttr_of_found _ _ cf nf hl] at h
    unfold attrOf at h
    cases hf : attrFind path k cf (c :: older) with
    | none => exact ⟨.missing, by simp only [W.delAttr, hl, hf]⟩
    | some x =>
      obtain ⟨i, ov⟩ := x
      cases ov with
      | none => exact ⟨.missing, by simp only [W.delAttr, hl, hf]⟩
      | some v0 => rw [hf] at h; cases h
  | part _ _ => exact ⟨.missing, by simp only [W.delAttr, hl]⟩
  | insideValue => exact ⟨.missing, by simp only [W.delAttr, hl]⟩

theorem delAttr_ok (c : Cont V) (older : Rec V) (path : Path) (k : Key)
    (hinv : Inv (c :: older)) (h : viewAttr (c :: older) path k ≠ none) :
    ∃ c', W.delAttr (c :: older) path k = .ok (c' :: older) ∧ Inv (c' :: older) ∧
      (∀ q, viewKind (c' :: older) q = viewKind (c :: older) q) ∧
      ∀ q k', viewAttr (c' :: older) q k' = if q = path ∧ k' = k then none else viewAttr (c :: older) q k' := by
  have hvis : viewKind (c :: older) path ≠ none := fun hn => h (viewAttr_none_of_viewKind_none _ _ hn k)
  obtain ⟨cf, nf, hl⟩ := found_of_viewKind _ _ hvis
  have hanc := anc_groups c older hinv path (pp_visible_of_visible _ path hvis)
  rw [viewAttr_of_found _ _ cf nf hl] at h
  unfold attrOf at h
  -- the attribute is found, with a value
  obtain ⟨i, v0, hf⟩ : ∃ i v0, attrFind path k cf (c :: older) = some (i, some v0) := by
    cases hf : attrFind path k cf (c :: older) with
    | none => rw [hf] at h; exact absurd rfl h
    | some x =>
      obtain ⟨i, ov⟩ := x
      cases ov with
      | none => rw [hf] at h; exact absurd rfl h
      | some v0 => exact ⟨i, v0, rfl⟩
  have hcf : cf ≤ older.length := by
    by_contra hgt
    have : (c :: older).length ≤ cf := by simp; omega
    rw [attrFind_none_of_le _ _ _ _ this] at hf; cases hf
  have hfc := attrFind_cons path k cf c older hcf
  rw [hf] at hfc
  -- is the attribute stored in the newest container?
  cases hr : rawAttrs c path k with
  | some x =>
    -- yes: it is removed there first
    obtain ⟨n1, hn1, hx⟩ : ∃ n1, aget path c = some n1 ∧ aget k n1.attrs = some x := by
      unfold rawAttrs at hr
      cases hp : aget path c with
      | none => simp [hp] at hr
      | some n1 => exact ⟨n1, rfl, by simpa [hp] using hr⟩
    have hi : i = older.length := by
      simp only [hn1, hx, Option.some.injEq, Prod.mk.injEq] at hfc
      exact hfc.1
    let n2 : RNode V := { n1 with attrs := aerase k n1.attrs }
    have hraw : Raw.delAttr c path k = .ok (aput path n2 c) := by
      simp only [Raw.delAttr, hn1, hx, n2]
    have hget1 : ∀ q, aget q (aput path n2 c) = if q = path then some n2 else aget q c :=
      fun q => aget_aput path q n2 c
    cases older with
    | nil =>
      refine ⟨aput path n2 c, ?_, ?_⟩
      · simp only [W.delAttr, hl, hf, hi, List.length_nil, ↓reduceIte, hraw, bind, Except.bind,
          List.isEmpty_nil, pure, Except.pure]
      · apply attr_sem c _ [] path n2 k none none hinv hvis (by rw [hget1]; simp) (by simp [hn1, n2])
          _ (Or.inr ⟨rfl, rfl, rfl⟩)
        · intro q hq; rw [hget1]; simp [hq, hn1]
        · intro k'
          simp only [n2, aget_aerase, rawAttrs, hn1, Option.bind_some]
    | cons o os =>
      have hanc2 : ∀ x ∈ properPrefixes path, ∀ m, aget x (aput path n2 c) = some m → m.kind.isGroup = true := by
        intro x hx m hm
        rw [hget1] at hm
        have : x ≠ path := by
          rintro rfl; exact not_mem_pp_of_isPre x x (isPre_refl x) hx
        simp only [this, ↓reduceIte] at hm
        exact hanc x hx m hm
      obtain ⟨c', n', h1, h2, h3, h4, h5⟩ := setAttrRaw_shape (aput path n2 c) (o :: os) path k none hanc2
      have hp2 : aget path (aput path n2 c) = some n2 := by rw [hget1]; simp
      refine ⟨c', ?_, ?_⟩
      · simp only [W.delAttr, hl, hf, hi, ↓reduceIte, hraw, bind, Except.bind,
          List.isEmpty_cons, Bool.false_eq_true, h1]
      · apply attr_sem c c' (o :: os) path n' k (some none) none hinv hvis h2 (by simp [h3, hp2, hn1, n2])
          _ (Or.inl rfl)
        · intro q hq
          rw [h5 q hq, hp2, hn1]
          simp only
          rw [hget1]; simp [hq]
        · intro k'
          rw [h4 k']
          by_cases hk : k' = k
          · simp [hk]
          · simp only [hk, ↓reduceIte, rawAttrs, hp2, hn1, Option.bind_some, n2, aget_aerase]
  | none =>
    -- no: found in an older container; a deletion marker is written
    have hfo : attrFind path k cf older = some (i, some v0) := by
      unfold rawAttrs at hr
      cases hp : aget path c with
      | none => simpa [hp] using hfc.symm
      | some n1 =>
        simp only [hp, Option.bind_some] at hr
        simpa [hp, hr] using hfc.symm
    have hi : i < older.length := attrFind_idx_lt _ _ _ _ _ _ hfo
    have hi' : ¬ i = older.length := by omega
    obtain ⟨c', n', h1, h2, h3, h4, h5⟩ := setAttrRaw_shape c older path k none hanc
    cases older with
    | nil => simp at hi
    | cons o os =>
      refine ⟨c', ?_, ?_⟩
      · simp only [W.delAttr, hl, hf, hi', ↓reduceIte, bind, Except.bind, pure, Except.pure,
          List.isEmpty_cons, Bool.false_eq_true, h1]
      · apply attr_sem c c' (o :: os) path n' k (some none) none hinv hvis h2 h3 _ (Or.inl rfl) h5
        intro k'
        rw [h4 k']

end MetadorModel.Overlay
