import MetadorModel.Model.RecordKw
import MetadorModel.Proofs.RecordOpen
/-! The calls with optional keyword arguments (`Model/RecordKw.lean`): with the default values
they are the calls of the base model; frame, write-set characterisation and the handle
invariant of C02 hold for every value of the keywords. -/
namespace MetadorModel.Record
open MetadorModel.FindFiles

/-! ## default values -/

theorem openFilesK_false (d : Disk) (paths : List Name) (rw : Bool) :
    openFilesK d paths rw false = openFiles d paths rw := by
  unfold openFilesK openFiles
  by_cases hp : paths.isEmpty
  · simp [hp]
  · simp only [hp]
    cases loadAll d paths with
    | error e => rfl
    | ok ubs =>
      simp only
      cases sortByIdx ubs with
      | nil => rfl
      | cons x rest =>
        obtain ⟨f0, u0⟩ := x
        simp only [Bool.not_false, Bool.true_and]
        generalize lastFile ((f0, u0) :: rest) = o
        rcases o with _ | ⟨_, _⟩ <;> rfl

theorem loadManifestK_none (d : Disk) (files : List (Name × UB)) :
    loadManifestK d files none = loadManifest d files := by
  unfold loadManifestK loadManifest
  cases lastFile files with
  | none => rfl
  | some y =>
    obtain ⟨f, ub⟩ := y
    simp only [Option.getD_none]
    repeat' (first | rfl | split)

theorem openExistingK_default (s : State) (c : Bool) (paths : List Name) (m : Mode) :
    openExistingK s c paths m {} = openExisting s c paths m := by
  unfold openExistingK openExisting
  simp only [openFilesK_false, loadManifestK_none]
  repeat' (first | rfl | split)

/-- the constructor called with the default values of the keywords is the plain constructor -/
theorem openRecK_default (s : State) (c : Bool) (t : Target) (m : Mode) :
    openRecK s c t m {} = openRec s c t m := by
  unfold openRecK openRec
  split
  · rfl
  · cases t with
    | list fs => simp only [openExistingK_default]
    | name n => cases m <;> simp only [openExistingK_default] <;> repeat' (first | rfl | split)

/-- the plain class never looks at `manifest_file=` -/
theorem openRecK_plain_ignores_mfile (s : State) (t : Target) (m : Mode) (kw : OpenKw) :
    openRecK s false t m kw = openRecK s false t m { kw with mfile := none } := by
  unfold openRecK openExistingK
  simp

/-! ## `_open` with `allow_baseless` -/

theorem openFilesK_ok {d : Disk} {paths : List Name} {rw bl : Bool} {files : List (Name × UB)} {b : Bool}
    (h : openFilesK d paths rw bl = .ok (files, b)) :
    paths ≠ [] ∧
    (∃ ubs, loadAll d paths = .ok ubs ∧ files = sortByIdx ubs) ∧
    (∃ f ul, lastFile files = some (f, ul) ∧ b = (rw && ul.hash.isNone)) := by
  unfold openFilesK at h
  by_cases hp : paths.isEmpty
  · simp [hp] at h
  · simp only [hp, Bool.false_eq_true, if_false] at h
    cases hl : loadAll d paths with
    | error e => simp [hl] at h
    | ok ubs =>
      simp only [hl] at h
      cases hs : sortByIdx ubs with
      | nil => simp [hs] at h
      | cons x rest =>
        obtain ⟨f0, u0⟩ := x
        simp only [hs] at h
        split at h
        · cases h
        · split at h
          · cases h
          · split at h
            · cases h
            · split at h
              · cases h
              · cases hlast : lastFile ((f0, u0) :: rest) with
                | none => simp [hlast] at h
                | some y =>
                  obtain ⟨fl, ul⟩ := y
                  simp only [hlast, Except.ok.injEq, Prod.mk.injEq] at h
                  obtain ⟨rfl, rfl⟩ := h
                  refine ⟨by simpa using hp, ⟨ubs, rfl, hs.symm⟩, fl, ul, hlast, rfl⟩

theorem openFilesK_mem {d : Disk} {paths : List Name} {rw bl : Bool} {files : List (Name × UB)} {b : Bool}
    (h : openFilesK d paths rw bl = .ok (files, b)) :
    ∀ f ub, (f, ub) ∈ files → ∃ p, getF d f = some (.cont ub p) := by
  obtain ⟨_, ⟨ubs, h1, rfl⟩, _⟩ := openFilesK_ok h
  intro f ub hm
  exact (loadAll_ok d paths ubs h1).2 f ub ((sortByIdx_perm ubs).mem_iff.mp hm)

theorem openFilesK_error {d : Disk} {paths : List Name} {rw bl : Bool} {e : Out}
    (h : openFilesK d paths rw bl = .error e) : e ≠ .ok := by
  unfold openFilesK at h
  split at h
  · cases h; decide
  · cases hl : loadAll d paths with
    | error e' => simp only [hl, Except.error.injEq] at h; subst h; exact loadAll_error _ _ _ hl
    | ok ubs =>
      simp only [hl] at h
      repeat' (split at h <;> try (cases h; decide))
      all_goals (try cases h)

theorem loadManifestK_error {d : Disk} {files : List (Name × UB)} {mf : Option Name} {e : Out}
    (h : loadManifestK d files mf = .error e) : e ≠ .ok := by
  unfold loadManifestK at h
  repeat' (split at h <;> try (cases h; decide))
  all_goals (try cases h)

/-- `_open` only looks at the files it is given -/
theorem openFilesK_congr (d d' : Disk) (paths : List Name) (rw bl : Bool)
    (h : ∀ f ∈ paths, getF d' f = getF d f) : openFilesK d' paths rw bl = openFilesK d paths rw bl := by
  unfold openFilesK
  rw [loadAll_congr d d' paths h]
  cases hl : loadAll d paths with
  | error e => rfl
  | ok ubs =>
    simp only
    have hmem : ∀ x ∈ sortByIdx ubs, getF d' x.1 = getF d x.1 := by
      intro x hx
      have hx' : x ∈ ubs := (sortByIdx_perm ubs).mem_iff.mp hx
      have h1 := (loadAll_ok d paths ubs hl).1
      apply h
      rw [← h1]
      exact List.mem_map_of_mem hx'
    cases hs : sortByIdx ubs with
    | nil => rfl
    | cons x rest =>
      obtain ⟨f0, u0⟩ := x
      rw [hs] at hmem
      simp only
      rw [checkUB_congr (hmem (f0, u0) (by simp)),
        checkChain_congr d d' u0.rid rest u0 (fun x hx => hmem x (by simp [hx]))]

/-- … and the manifest check only at the sidecars of these files and at the file named by the
keyword -/
theorem loadManifestK_congr (d d' : Disk) (files : List (Name × UB)) (mf : Option Name)
    (h : ∀ x ∈ files, getF d' (manifestFile x.1) = getF d (manifestFile x.1))
    (hm : ∀ g, mf = some g → getF d' g = getF d g) :
    loadManifestK d' files mf = loadManifestK d files mf := by
  unfold loadManifestK
  cases hl : lastFile files with
  | none => rfl
  | some y =>
    obtain ⟨f, ub⟩ := y
    simp only
    have h1 : getF d' (mf.getD (manifestFile f)) = getF d (mf.getD (manifestFile f)) := by
      cases mf with
      | none => exact h (f, ub) (lastFile_mem _ _ hl)
      | some g => exact hm g rfl
    rw [h1]
    cases hp : prevFile files with
    | none => rfl
    | some z =>
      obtain ⟨g, ubp⟩ := z
      simp only
      rw [h (g, ubp) (prevFile_mem _ _ hp)]

/-! ## the constructor with keywords -/

theorem openExistingK_spec (s : State) (c : Bool) (paths : List Name) (m : Mode) (kw : OpenKw) :
    Failed s (openExistingK s c paths m kw) ∨
    ∃ files b man,
      openFilesK s.disk paths (m != .r) kw.baseless = .ok (files, b) ∧
      (if c then loadManifestK s.disk files kw.mfile else .ok none) = .ok man ∧
      (((m != .r && !hasWritable (openedHandle files b c m man)) = false ∧
          openExistingK s c paths m kw =
            { st := { s with h := openedHandle files b c m man }, out := .ok,
              written := if b then (match lastFile files with | some (f, _) => [f] | none => []) else [] }) ∨
       ((m != .r && !hasWritable (openedHandle files b c m man)) = true ∧
          (createPatch { s with h := openedHandle files b c m man }).out = .ok ∧
          openExistingK s c paths m kw = createPatch { s with h := openedHandle files b c m man })) := by
  unfold openExistingK
  simp only
  cases ho : openFilesK s.disk paths (m != .r) kw.baseless with
  | error e =>
    left
    exact failed_fail rfl rfl (openFilesK_error ho)
  | ok v =>
    obtain ⟨files, b⟩ := v
    simp only
    cases hm : (if c then loadManifestK s.disk files kw.mfile else .ok none) with
    | error e =>
      left
      have : e ≠ .ok := by
        by_cases hc : c
        · simp only [hc, if_true] at hm
          exact loadManifestK_error hm
        · simp [hc] at hm
      simp only [hm]
      exact failed_fail rfl rfl this
    | ok man =>
      simp only [hm]
      by_cases hw : (m != .r && !hasWritable (openedHandle files b c m man))
      · simp only [openedHandle] at hw
        simp only [hw, if_true]
        cases hcp : (createPatch { s with h := { files := files, lastRW := b, allow := m != .r, closed := false, mfcls := c, manifest := man } }).out with
        | ok =>
          right
          refine ⟨files, b, man, rfl, hm, Or.inr ⟨by simpa [openedHandle] using hw, by simpa [openedHandle] using hcp, ?_⟩⟩
          simp [openedHandle]
        | _ => left; simp only; exact failed_fail rfl rfl (by decide)
      · right
        refine ⟨files, b, man, rfl, hm, Or.inl ⟨by simpa using hw, ?_⟩⟩
        simp only [openedHandle] at hw
        simp only [hw, Bool.false_eq_true, if_false]
        rfl

theorem openExistingK_frame (s : State) (c : Bool) (paths : List Name) (m : Mode) (kw : OpenKw) :
    Frame s (openExistingK s c paths m kw) := by
  rcases openExistingK_spec s c paths m kw with hf | ⟨files, b, man, _, _, ⟨_, heq⟩ | ⟨_, _, heq⟩⟩
  · exact hf.frame
  · rw [heq]; intro g _; rfl
  · rw [heq]; exact createPatch_frame _

theorem openRecK_frame (s : State) (c : Bool) (t : Target) (m : Mode) (kw : OpenKw) :
    Frame s (openRecK s c t m kw) := by
  unfold openRecK
  split
  · exact frame_fail _ _
  · cases t with
    | list fs =>
      simp only
      split
      · exact frame_fail _ _
      · split
        · exact frame_fail _ _
        · exact openExistingK_frame _ _ _ _ _
    | name n =>
      cases m <;> simp only <;> first
        | exact createRec_frame _ _ _ _ _
        | (split
           · exact frame_fail _ _
           · first
             | exact frame_fail _ _
             | (split
                · exact createRec_frame _ _ _ _ _
                · exact frame_fail _ _)
           · exact openExistingK_frame _ _ _ _ _)

theorem openExistingK_touch (s : State) (c : Bool) (paths : List Name) (m : Mode) (kw : OpenKw) :
    ∀ f ∈ (openExistingK s c paths m kw).W, Touchable s.disk f := by
  rcases openExistingK_spec s c paths m kw with hf | ⟨files, b, man, hopen, _, ⟨_, heq⟩ | ⟨_, _, heq⟩⟩
  · exact touch_of_failed hf
  · rw [heq]
    intro g hg
    simp only [Res.W, List.append_nil, List.nil_append] at hg
    obtain ⟨_, _, fl, ul, hl, hb⟩ := openFilesK_ok hopen
    by_cases hbb : b
    · simp only [hbb, if_true, hl, List.mem_cons, List.not_mem_nil, or_false] at hg
      subst hg
      obtain ⟨p, hp⟩ := openFilesK_mem hopen g ul (lastFile_mem _ _ hl)
      have : ul.hash = none := by
        rw [hbb] at hb
        have := hb.symm
        simp only [Bool.and_eq_true, Option.isNone_iff_eq_none] at this
        exact this.2
      exact Or.inr (Or.inl ⟨ul, p, hp, this⟩)
    · simp [hbb] at hg
  · rw [heq]
    exact createPatch_touch { s with h := openedHandle files b c m man }

theorem openExistingK_inv (s : State) (c : Bool) (paths : List Name) (m : Mode) (kw : OpenKw) (hi : Inv s) :
    Inv (openExistingK s c paths m kw).st := by
  rcases openExistingK_spec s c paths m kw with hf | ⟨files, b, man, hopen, _, ⟨_, heq⟩ | ⟨hw, _, heq⟩⟩
  · exact inv_of_failed hi hf
  · rw [heq]
    refine ⟨hi.diskOk, ?_⟩
    intro hw
    simp only [hasWritable, openedHandle, Bool.and_eq_true] at hw
    obtain ⟨_, _, fl, ul, hl, hb⟩ := openFilesK_ok hopen
    obtain ⟨p, hp⟩ := openFilesK_mem hopen fl ul (lastFile_mem _ _ hl)
    refine ⟨fl, ul, hl, ul, p, hp, ?_⟩
    rw [hw.2] at hb
    have := hb.symm
    simp only [Bool.and_eq_true, Option.isNone_iff_eq_none] at this
    exact this.2
  · rw [heq]
    apply createPatch_inv
    refine ⟨hi.diskOk, ?_⟩
    intro h
    simp only [Bool.and_eq_true, Bool.not_eq_eq_eq_not, Bool.not_true] at hw
    rw [hw.2] at h; cases h

theorem openRecK_touch (s : State) (c : Bool) (t : Target) (m : Mode) (kw : OpenKw)
    (hsafe : (OpK.openKw c t m kw).safe = true) :
    ∀ f ∈ (openRecK s c t m kw).W, Touchable s.disk f := by
  unfold openRecK
  split
  · exact touch_of_failed (failed_fail rfl rfl (by decide))
  · cases t with
    | list fs =>
      simp only
      split
      · exact touch_of_failed (failed_fail rfl rfl (by decide))
      · split
        · exact touch_of_failed (failed_fail rfl rfl (by decide))
        · exact openExistingK_touch _ _ _ _ _
    | name n =>
      cases m with
      | w => simp [OpK.safe] at hsafe
      | wm => exact createRec_notrunc_touch _ _ _ _
      | x => exact createRec_notrunc_touch _ _ _ _
      | r =>
        simp only
        split
        · exact touch_of_failed (failed_fail rfl rfl (by decide))
        · exact touch_of_failed (failed_fail rfl rfl (by decide))
        · exact openExistingK_touch _ _ _ _ _
      | rp =>
        simp only
        split
        · exact touch_of_failed (failed_fail rfl rfl (by decide))
        · exact touch_of_failed (failed_fail rfl rfl (by decide))
        · exact openExistingK_touch _ _ _ _ _
      | a =>
        simp only
        split
        · exact touch_of_failed (failed_fail rfl rfl (by decide))
        · exact createRec_notrunc_touch _ _ _ _
        · exact openExistingK_touch _ _ _ _ _

theorem openRecK_inv (s : State) (c : Bool) (t : Target) (m : Mode) (kw : OpenKw)
    (hsafe : (OpK.openKw c t m kw).safe = true) (hi : Inv s) : Inv (openRecK s c t m kw).st := by
  unfold openRecK
  split
  · exact hi
  · cases t with
    | list fs =>
      simp only
      split
      · exact hi
      · split
        · exact hi
        · exact openExistingK_inv _ _ _ _ _ hi
    | name n =>
      cases m with
      | w => simp [OpK.safe] at hsafe
      | wm => exact createRec_notrunc_inv _ _ _ _ hi
      | x => exact createRec_notrunc_inv _ _ _ _ hi
      | r =>
        simp only
        split
        · exact hi
        · exact hi
        · exact openExistingK_inv _ _ _ _ _ hi
      | rp =>
        simp only
        split
        · exact hi
        · exact hi
        · exact openExistingK_inv _ _ _ _ _ hi
      | a =>
        simp only
        split
        · exact hi
        · exact createRec_notrunc_inv _ _ _ _ hi
        · exact openExistingK_inv _ _ _ _ _ hi

/-! ## `commit_patch(manifest_exts=…)` -/

theorem commitPatchExts_frame (s : State) : Frame s (commitPatchExts s) := by
  unfold commitPatchExts; split
  · exact commitMF_frame s
  · exact frame_fail _ _

theorem commitPatchExts_touch (s : State) (hi : Inv s) : ∀ f ∈ (commitPatchExts s).W, Touchable s.disk f := by
  unfold commitPatchExts; split
  · exact commitMF_touch s hi
  · exact touch_of_failed (failed_fail rfl rfl (by decide))

theorem commitPatchExts_inv (s : State) (hi : Inv s) : Inv (commitPatchExts s).st := by
  unfold commitPatchExts; split
  · exact commitMF_inv s hi
  · exact hi

/-- for the manifest class the keyword changes nothing the file-level model can see -/
theorem commitPatchExts_mf (s : State) (h : s.h.mfcls = true) : commitPatchExts s = commitPatch s := by
  simp [commitPatchExts, commitPatch, h]

/-! ## every call -/

theorem stepK_frame (s : State) (op : OpK) : Frame s (stepK s op) := by
  cases op with
  | base o => exact step_frame s o
  | openKw c t m kw => exact openRecK_frame s c t m kw
  | commitExts => exact commitPatchExts_frame s

theorem stepK_touch (s : State) (op : OpK) (hsafe : op.safe = true) (hi : Inv s) :
    ∀ f ∈ (stepK s op).W, Touchable s.disk f := by
  cases op with
  | base o => exact step_touch s o hsafe hi
  | openKw c t m kw => exact openRecK_touch s c t m kw hsafe
  | commitExts => exact commitPatchExts_touch s hi

theorem stepK_inv (s : State) (op : OpK) (hsafe : op.safe = true) (hi : Inv s) : Inv (stepK s op).st := by
  cases op with
  | base o => exact step_inv s o hsafe hi
  | openKw c t m kw => exact openRecK_inv s c t m kw hsafe hi
  | commitExts => exact commitPatchExts_inv s hi

/-- a history without keyword arguments is a history of the base model -/
theorem runK_base (ops : List Op) (s : State) : runK s (ops.map OpK.base) = run s ops := by
  induction ops generalizing s with
  | nil => rfl
  | cons o r ih => simp only [List.map, runK, run, stepK]; exact ih _

end MetadorModel.Record
