import MetadorModel.Model.Container
import Mathlib.Data.List.Basic
import Mathlib.Data.List.Nodup
import Mathlib.Tactic.SplitIfs
/-!
# Lemmas about the raw-tree primitives and association lists of the container model

Everything is stated point-wise (`get? t' q = …` for every path `q`), cf. DESIGN.md §4.
-/
namespace MetadorModel.Container

theorem lookup_cons (p : Path) (n : Node) (t : Tree) (q : Path) :
    lookup ((p, n) :: t) q = if p = q then some n else lookup t q := rfl

@[simp] theorem get?_root (t : Tree) : get? t [] = some .grp := by simp [get?]

theorem get?_ne_nil {t : Tree} {q : Path} (h : q ≠ []) : get? t q = lookup t q := by simp [get?, h]

theorem get?_cons {p : Path} {n : Node} {t : Tree} {q : Path} (h : q ≠ []) :
    get? ((p, n) :: t) q = if p = q then some n else get? t q := by
  simp [get?, h, lookup]

theorem lookup_filter (f : Path → Bool) (t : Tree) (q : Path) :
    lookup (t.filter fun e => f e.1) q = if f q then lookup t q else none := by
  induction t with
  | nil => simp [lookup]
  | cons a t ih =>
    obtain ⟨p, n⟩ := a
    by_cases hp : f p
    · simp only [List.filter_cons, hp, if_true, lookup]
      by_cases hpq : p = q
      · subst hpq; simp [hp]
      · simp [hpq, ih]
    · simp only [List.filter_cons, hp, lookup]
      by_cases hpq : p = q
      · subst hpq; simp [hp, ih]
      · simp [hpq, ih]

theorem lookup_some_mem {t : Tree} {q : Path} {n : Node} (h : lookup t q = some n) : (q, n) ∈ t := by
  induction t with
  | nil => simp [lookup] at h
  | cons a t ih =>
    obtain ⟨p, m⟩ := a
    simp only [lookup] at h
    split_ifs at h with hp
    · cases h; subst hp; simp
    · exact List.mem_cons_of_mem _ (ih h)

theorem mem_lookup {t : Tree} (hn : (t.map Prod.fst).Nodup) {q : Path} {n : Node} (h : (q, n) ∈ t) :
    lookup t q = some n := by
  induction t with
  | nil => simp at h
  | cons a t ih =>
    obtain ⟨p, m⟩ := a
    simp only [List.map_cons, List.nodup_cons] at hn
    simp only [lookup]
    rcases List.mem_cons.mp h with h | h
    · cases h; simp
    · have : p ≠ q := by
        rintro rfl
        exact hn.1 (List.mem_map.mpr ⟨(p, n), h, rfl⟩)
      simp [this, ih hn.2 h]
/-- well-formed key list: distinct paths, the (implicit) root is not stored -/
structure KeysOK (t : Tree) : Prop where
  nodup : (t.map Prod.fst).Nodup
  noroot : ∀ n, ([], n) ∉ t

theorem mem_iff_get? {t : Tree} (h : KeysOK t) {q : Path} {n : Node} :
    (q, n) ∈ t ↔ (q ≠ [] ∧ get? t q = some n) := by
  constructor
  · intro hm
    have hq : q ≠ [] := by rintro rfl; exact h.noroot n hm
    exact ⟨hq, by rw [get?_ne_nil hq]; exact mem_lookup h.nodup hm⟩
  · rintro ⟨hq, hg⟩
    rw [get?_ne_nil hq] at hg
    exact lookup_some_mem hg

theorem get?_filter (f : Path → Bool) (t : Tree) (q : Path) (hq : q ≠ []) :
    get? (t.filter fun e => f e.1) q = if f q then get? t q else none := by
  simp [get?, hq, lookup_filter]

/-- `q` is one of the intermediate paths `pre ++ [k₁ … kᵢ]`, `1 ≤ i < rest.length` -/
def isMid : Path → Path → Path → Bool
  | _, [], _ => false
  | _, [_], _ => false
  | pre, k :: k' :: rest, q => q == pre ++ [k] || isMid (pre ++ [k]) (k' :: rest) q

theorem isMid_iff (pre rest q : Path) :
    isMid pre rest q = true ↔ ∃ a b, a ≠ [] ∧ b ≠ [] ∧ rest = a ++ b ∧ q = pre ++ a := by
  fun_induction isMid pre rest q with
  | case1 pre q =>
    simp only [Bool.false_eq_true, false_iff]
    rintro ⟨a, b, ha, hb, hab, -⟩
    cases a with
    | nil => exact ha rfl
    | cons x a => cases hab
  | case2 pre k q =>
    simp only [Bool.false_eq_true, false_iff]
    rintro ⟨a, b, ha, hb, hab, -⟩
    cases a with
    | nil => exact ha rfl
    | cons x a =>
      simp only [List.cons_append, List.cons.injEq] at hab
      have := hab.2.symm
      simp only [List.append_eq_nil_iff] at this
      exact hb this.2
  | case3 pre k k' rest q ih =>
    simp only [Bool.or_eq_true, beq_iff_eq, ih]
    constructor
    · rintro (rfl | ⟨a, b, ha, hb, hab, rfl⟩)
      · exact ⟨[k], k' :: rest, by simp, by simp, rfl, rfl⟩
      · exact ⟨k :: a, b, by simp, hb, by simp [hab], by simp⟩
    · rintro ⟨a, b, ha, hb, hab, rfl⟩
      cases a with
      | nil => exact absurd rfl ha
      | cons x a =>
        simp only [List.cons_append, List.cons.injEq] at hab
        obtain ⟨rfl, hab⟩ := hab
        cases a with
        | nil => left; rfl
        | cons y a => right; exact ⟨y :: a, b, by simp, hb, hab, by simp⟩

/-- effect of `mkParents` on lookups: old entries stay, the missing proper prefixes become groups -/
theorem mkParents_get? (rest : Path) (t : Tree) (pre : Path) (t' : Tree)
    (h : mkParents t pre rest = .ok t') (q : Path) (hq : q ≠ []) :
    get? t' q = match get? t q with
      | some n => some n
      | none => if isMid pre rest q then some .grp else none := by
  fun_induction mkParents t pre rest generalizing t' with
  | case1 t pre => cases h; cases get? t q <;> simp [isMid]
  | case2 t pre k => cases h; cases get? t q <;> simp [isMid]
  | case3 t pre k k' rest pre' hg ih =>
    rw [ih t' h]
    cases hq' : get? t q with
    | some n => rfl
    | none =>
      have : q ≠ pre ++ [k] := by rintro rfl; simp [pre', hq'] at hg
      simp [isMid, this, pre']
  | case4 t pre k k' rest pre' v hg => cases h
  | case5 t pre k k' rest pre' hg ih =>
    rw [ih t' h, get?_cons hq]
    by_cases hqq : pre' = q
    · subst hqq; simp [hg, isMid, pre']
    · have : q ≠ pre ++ [k] := fun h => hqq h.symm
      simp only [hqq, if_false]
      cases hq' : get? t q with
      | some n => rfl
      | none => simp [isMid, this, pre']

theorem under_iff {p q : Path} : under p q = true ↔ p <+: q := by
  simp [under, List.isPrefixOf_iff_prefix]

theorem has_iff {t : Tree} {q : Path} : has t q = true ↔ get? t q ≠ none := by
  simp [has, Option.isSome_iff_ne_none]

theorem has_false_iff {t : Tree} {q : Path} : has t q = false ↔ get? t q = none := by
  cases h : get? t q <;> simp [has, h]

/-! ### mkParents -/

theorem mkParents_ok (rest : Path) (t : Tree) (pre : Path)
    (h : ∀ q v, isMid pre rest q = true → get? t q ≠ some (.ds v)) :
    ∃ t', mkParents t pre rest = .ok t' := by
  fun_induction mkParents t pre rest with
  | case1 t pre => exact ⟨_, rfl⟩
  | case2 t pre k => exact ⟨_, rfl⟩
  | case3 t pre k k' rest pre' hg ih =>
    apply ih
    intro q v hm
    exact h q v (by simp [isMid, hm, pre'])
  | case4 t pre k k' rest pre' v hg =>
    exact absurd hg (h pre' v (by simp [isMid, pre']))
  | case5 t pre k k' rest pre' hg ih =>
    apply ih
    intro q v hm
    have hq : q ≠ [] := by
      rcases (isMid_iff _ _ _).mp hm with ⟨a, b, ha, -, -, rfl⟩
      simp [pre']
    rw [get?_cons hq]
    split_ifs with hpq
    · exact fun h => by cases h
    · exact h q v (by simp [isMid, hm, pre'])

theorem isMid_ne_nil {pre rest q : Path} (h : isMid pre rest q = true) : q ≠ [] := by
  rcases (isMid_iff _ _ _).mp h with ⟨a, b, ha, -, -, rfl⟩
  simp [ha]

/-- `isMid [] p q`: `q` is a proper, non-empty prefix of `p` -/
theorem isMid_nil_iff {p q : Path} : isMid [] p q = true ↔ q ≠ [] ∧ q <+: p ∧ q ≠ p := by
  rw [isMid_iff]
  constructor
  · rintro ⟨a, b, ha, hb, hab, hq⟩
    simp only [List.nil_append] at hq
    subst hq; subst hab
    refine ⟨ha, by simp, ?_⟩
    intro h
    exact hb (List.self_eq_append_right.mp h)
  · rintro ⟨hq, ⟨b, rfl⟩, hne⟩
    refine ⟨q, b, hq, ?_, rfl, by simp⟩
    rintro rfl
    simp at hne

theorem mkParents_keys (rest : Path) (t : Tree) (pre : Path) (t' : Tree)
    (h : mkParents t pre rest = .ok t') (hk : KeysOK t) : KeysOK t' := by
  fun_induction mkParents t pre rest generalizing t' with
  | case1 t pre => cases h; exact hk
  | case2 t pre k => cases h; exact hk
  | case3 t pre k k' rest pre' hg ih => exact ih t' h hk
  | case4 t pre k k' rest pre' v hg => cases h
  | case5 t pre k k' rest pre' hg ih =>
    apply ih t' h
    have hne : pre' ≠ [] := by simp [pre']
    constructor
    · simp only [List.map_cons, List.nodup_cons]
      refine ⟨?_, hk.nodup⟩
      intro hm
      obtain ⟨⟨p, n⟩, hmem, rfl⟩ := List.mem_map.mp hm
      have := ((mem_iff_get? hk).mp hmem).2
      rw [hg] at this; cases this
    · intro n hm
      rcases List.mem_cons.mp hm with h | h
      · exact hne (Prod.mk.inj h).1.symm
      · exact hk.noroot n h

/-! ### rawCreate -/

theorem rawCreate_ok {t : Tree} {p : Path} {n : Node} (hp : p ≠ []) (hfree : get? t p = none)
    (hpar : ∀ q v, isMid [] p q = true → get? t q ≠ some (.ds v)) :
    ∃ t', rawCreate t p n = .ok t' := by
  obtain ⟨t', ht'⟩ := mkParents_ok p t [] hpar
  exact ⟨(p, n) :: t', by simp [rawCreate, hp, has_false_iff.mpr hfree, ht']⟩

theorem rawCreate_inv {t t' : Tree} {p : Path} {n : Node} (h : rawCreate t p n = .ok t') :
    p ≠ [] ∧ get? t p = none ∧ ∃ t1, mkParents t [] p = .ok t1 ∧ t' = (p, n) :: t1 := by
  by_cases h1 : p = []
  · simp [rawCreate, h1] at h
  · cases h2 : has t p
    · cases hm : mkParents t [] p with
      | error e => simp [rawCreate, h1, h2, hm] at h
      | ok t1 =>
        simp only [rawCreate, h1, h2, hm, if_false, Bool.false_eq_true] at h
        cases h
        exact ⟨h1, has_false_iff.mp h2, t1, rfl, rfl⟩
    · simp [rawCreate, h1, h2] at h

theorem rawCreate_get? {t t' : Tree} {p : Path} {n : Node} (h : rawCreate t p n = .ok t')
    (q : Path) (hq : q ≠ []) :
    get? t' q = if q = p then some n else
      match get? t q with
      | some x => some x
      | none => if isMid [] p q then some .grp else none := by
  obtain ⟨hp, hfree, t1, h1, rfl⟩ := rawCreate_inv h
  rw [get?_cons hq, mkParents_get? _ _ _ _ h1 q hq]
  by_cases hpq : p = q
  · subst hpq; simp
  · have : q ≠ p := fun h => hpq h.symm
    rw [if_neg hpq, if_neg this]

theorem rawCreate_keys {t t' : Tree} {p : Path} {n : Node} (h : rawCreate t p n = .ok t')
    (hk : KeysOK t) : KeysOK t' := by
  obtain ⟨hp, hfree, t1, h1, rfl⟩ := rawCreate_inv h
  have hk1 := mkParents_keys _ _ _ _ h1 hk
  have hfree1 : get? t1 p = none := by
    rw [mkParents_get? _ _ _ _ h1 p hp, hfree]
    have : isMid [] p p = false := by
      cases hm : isMid [] p p
      · rfl
      · exact absurd rfl (isMid_nil_iff.mp hm).2.2
    simp [this]
  constructor
  · simp only [List.map_cons, List.nodup_cons]
    refine ⟨?_, hk1.nodup⟩
    intro hm
    obtain ⟨⟨p', n'⟩, hmem, rfl⟩ := List.mem_map.mp hm
    have := ((mem_iff_get? hk1).mp hmem).2
    rw [hfree1] at this; cases this
  · intro n' hm
    rcases List.mem_cons.mp hm with h | h
    · cases h; exact hp rfl
    · exact hk1.noroot n' h

/-! ### rawDel -/

theorem rawDel_inv {t t' : Tree} {p : Path} (h : rawDel t p = .ok t') :
    p ≠ [] ∧ get? t p ≠ none ∧ t' = t.filter fun e => !under p e.1 := by
  by_cases h1 : p = []
  · simp [rawDel, h1] at h
  · cases h2 : has t p
    · simp [rawDel, h1, h2] at h
    · simp only [rawDel, h1, h2, if_false, Bool.not_true, Bool.false_eq_true] at h
      cases h
      exact ⟨h1, has_iff.mp h2, rfl⟩

theorem rawDel_ok {t : Tree} {p : Path} (hp : p ≠ []) (h : get? t p ≠ none) :
    rawDel t p = .ok (t.filter fun e => !under p e.1) := by
  simp [rawDel, hp, has_iff.mpr h]

theorem rawDel_get? {t t' : Tree} {p : Path} (h : rawDel t p = .ok t') (q : Path) (hq : q ≠ []) :
    get? t' q = if under p q then none else get? t q := by
  obtain ⟨-, -, rfl⟩ := rawDel_inv h
  rw [get?_filter (fun x => !under p x) t q hq]
  cases under p q <;> simp

theorem filter_keys {t : Tree} (f : Path × Node → Bool) (hk : KeysOK t) : KeysOK (t.filter f) := by
  constructor
  · exact (hk.nodup.sublist ((List.filter_sublist).map Prod.fst))
  · intro n hm
    exact hk.noroot n (List.mem_filter.mp hm).1

theorem rawDel_keys {t t' : Tree} {p : Path} (h : rawDel t p = .ok t') (hk : KeysOK t) : KeysOK t' := by
  obtain ⟨-, -, rfl⟩ := rawDel_inv h
  exact filter_keys _ hk

/-- every stored node has a parent that is a group -/
def PClosed (t : Tree) : Prop := ∀ q k, get? t (q ++ [k]) ≠ none → get? t q = some .grp

theorem mkParents_mid_not_ds (rest : Path) (t : Tree) (pre : Path) (t' : Tree)
    (h : mkParents t pre rest = .ok t') (q : Path) (hm : isMid pre rest q = true) (v : Val) :
    get? t q ≠ some (.ds v) := by
  fun_induction mkParents t pre rest generalizing t' with
  | case1 t pre => simp [isMid] at hm
  | case2 t pre k => simp [isMid] at hm
  | case3 t pre k k' rest pre' hg ih =>
    simp only [isMid, Bool.or_eq_true, beq_iff_eq] at hm
    rcases hm with rfl | hm
    · simp [pre'] at hg; rw [hg]; exact fun h => by cases h
    · exact ih t' h hm
  | case4 t pre k k' rest pre' v hg => cases h
  | case5 t pre k k' rest pre' hg ih =>
    simp only [isMid, Bool.or_eq_true, beq_iff_eq] at hm
    rcases hm with rfl | hm
    · simp [pre'] at hg; rw [hg]; exact fun h => by cases h
    · have := ih t' h hm
      have hq := isMid_ne_nil hm
      rw [get?_cons hq] at this
      split_ifs at this with hpq
      · subst hpq; rw [hg]; exact fun h => by cases h
      · exact this

theorem prefix_snoc_cases {q p : Path} {k : Key} (h : q ++ [k] <+: p) : q <+: p ∧ q ≠ p := by
  obtain ⟨b, rfl⟩ := h
  refine ⟨⟨k :: b, by simp⟩, ?_⟩
  intro h
  have : q ++ [] = q ++ (k :: b) := by simpa using h
  exact absurd (List.append_cancel_left this) (by simp)

theorem rawCreate_pclosed {t t' : Tree} {p : Path} {n : Node} (h : rawCreate t p n = .ok t')
    (hc : PClosed t) : PClosed t' := by
  obtain ⟨hp, hfree, t1, h1, -⟩ := rawCreate_inv h
  -- value of a proper prefix of `p` in the new tree
  have hpre : ∀ q, q <+: p → q ≠ p → get? t' q = some .grp := by
    intro q hqp hne
    by_cases hq : q = []
    · subst hq; simp
    · have hm : isMid [] p q = true := isMid_nil_iff.mpr ⟨hq, hqp, hne⟩
      rw [rawCreate_get? h q hq, if_neg hne]
      cases hg : get? t q with
      | none => simp [hm]
      | some x =>
        cases x with
        | grp => rfl
        | ds v => exact absurd hg (mkParents_mid_not_ds _ _ _ _ h1 q hm v)
  intro q k hne
  have hqk : q ++ [k] ≠ [] := by simp
  by_cases hqp : q ++ [k] = p
  · exact hpre q ⟨[k], hqp⟩ (by intro h; rw [h] at hqp; simp at hqp)
  · cases hg : get? t (q ++ [k]) with
    | some x =>
      have hq := hc q k (by rw [hg]; simp)
      by_cases hq0 : q = []
      · subst hq0; simp
      · rw [rawCreate_get? h q hq0]
        have : q ≠ p := by rintro rfl; rw [hfree] at hq; cases hq
        simp [this, hq]
    | none =>
      by_cases hm : isMid [] p (q ++ [k]) = true
      · obtain ⟨-, hpr, -⟩ := isMid_nil_iff.mp hm
        obtain ⟨h1', h2'⟩ := prefix_snoc_cases hpr
        exact hpre q h1' h2'
      · exfalso; apply hne
        rw [rawCreate_get? h _ hqk, if_neg hqp, hg]
        simp [hm]

theorem rawDel_pclosed {t t' : Tree} {p : Path} (h : rawDel t p = .ok t') (hc : PClosed t) :
    PClosed t' := by
  intro q k hne
  have hqk : q ++ [k] ≠ [] := by simp
  rw [rawDel_get? h _ hqk] at hne
  split_ifs at hne with hu
  · exact absurd rfl hne
  · by_cases hq0 : q = []
    · subst hq0; simp
    · rw [rawDel_get? h q hq0]
      have : under p q = false := by
        cases hu' : under p q
        · rfl
        · exfalso; apply hu
          rw [under_iff] at hu' ⊢
          exact hu'.trans ⟨[k], rfl⟩
      simp [this, hc q k hne]

/-! ### listings -/

theorem getLast?_eq_some_iff' {l : Path} {k : Key} : l.getLast? = some k ↔ ∃ q, l = q ++ [k] := by
  constructor
  · intro h
    exact ⟨l.dropLast, by
      have := List.dropLast_append_getLast? k (by simpa using h)
      exact this.symm⟩
  · rintro ⟨q, rfl⟩; simp

theorem mem_children {t : Tree} (hk : KeysOK t) {p : Path} {k : Key} {n : Node} :
    (k, n) ∈ children t p ↔ get? t (p ++ [k]) = some n := by
  simp only [children, List.mem_filterMap]
  constructor
  · rintro ⟨⟨q, m⟩, hmem, hm⟩
    cases hl : q.getLast? with
    | none => simp [hl] at hm
    | some k' =>
      simp only [hl] at hm
      split_ifs at hm with hc
      · cases hm
        simp only [Bool.and_eq_true, decide_eq_true_eq, under_iff] at hc
        obtain ⟨q', rfl⟩ := getLast?_eq_some_iff'.mp hl
        obtain ⟨hlen, b, hb⟩ := hc
        have : q' = p := by
          have h1 : q'.length = p.length := by simpa using hlen
          have : p ++ b = q' ++ [k] := hb
          exact (List.append_inj this h1.symm).1.symm
        subst this
        exact ((mem_iff_get? hk).mp hmem).2
  · intro hg
    refine ⟨(p ++ [k], n), (mem_iff_get? hk).mpr ⟨by simp, hg⟩, ?_⟩
    simp [under]

theorem mem_descendants {t : Tree} (hk : KeysOK t) {p q : Path} {n : Node} :
    (q, n) ∈ descendants t p ↔ (get? t q = some n ∧ p <+: q ∧ q ≠ p) := by
  simp only [descendants, List.mem_filter, Bool.and_eq_true, decide_eq_true_eq, under_iff]
  constructor
  · rintro ⟨hmem, hpre, hlen⟩
    refine ⟨((mem_iff_get? hk).mp hmem).2, hpre, ?_⟩
    rintro rfl; omega
  · rintro ⟨hg, hpre, hne⟩
    have hq : q ≠ [] := by
      rintro rfl
      exact hne (List.prefix_nil.mp hpre).symm
    refine ⟨(mem_iff_get? hk).mpr ⟨hq, hg⟩, hpre, ?_⟩
    obtain ⟨b, rfl⟩ := hpre
    cases b with
    | nil => simp at hne
    | cons x b => simp

/-! ### association lists and list-sets -/
section AL
variable {α β : Type} [DecidableEq α]

@[simp] theorem alGet_nil (a : α) : alGet ([] : List (α × β)) a = none := rfl

theorem alGet_cons (k : α) (v : β) (t : List (α × β)) (a : α) :
    alGet ((k, v) :: t) a = if k = a then some v else alGet t a := rfl

theorem alGet_alSet (l : List (α × β)) (a : α) (b : β) (x : α) :
    alGet (alSet l a b) x = if x = a then some b else alGet l x := by
  induction l with
  | nil =>
    simp only [alSet, alGet_cons, alGet_nil]
    by_cases h : x = a
    · simp [h]
    · have h2 : ¬ a = x := fun h' => h h'.symm
      simp [h, h2]
  | cons e t ih =>
    obtain ⟨k, v⟩ := e
    simp only [alSet]
    by_cases hk : k = a
    · subst hk
      simp only [if_true, alGet_cons]
      by_cases hx : k = x
      · subst hx; simp
      · have h2 : ¬ x = k := fun h' => hx h'.symm
        simp [hx, h2]
    · simp only [hk, if_false, alGet_cons, ih]
      by_cases hx : k = x
      · subst hx; simp [hk]
      · simp [hx]

theorem alGet_alErase (l : List (α × β)) (a x : α) :
    alGet (alErase l a) x = if x = a then none else alGet l x := by
  induction l with
  | nil => simp [alErase]
  | cons e t ih =>
    obtain ⟨k, v⟩ := e
    simp only [alErase, List.filter_cons] at ih ⊢
    by_cases hk : k = a
    · subst hk
      simp only [ne_eq, not_true_eq_false, decide_false, Bool.false_eq_true, if_false, ih, alGet_cons]
      by_cases hx : x = k
      · simp [hx]
      · have h2 : ¬ k = x := fun h' => hx h'.symm
        simp [hx, h2]
    · simp only [ne_eq, hk, not_false_eq_true, decide_true, if_true, alGet_cons, ih]
      by_cases hx : k = x
      · subst hx; simp [hk]
      · simp [hx]

theorem mem_setAdd (l : List α) (a x : α) : x ∈ setAdd l a ↔ x ∈ l ∨ x = a := by
  unfold setAdd
  split_ifs with h
  · constructor
    · exact Or.inl
    · rintro (h' | rfl)
      · exact h'
      · exact h
  · simp

theorem mem_setRemove (l : List α) (a x : α) : x ∈ setRemove l a ↔ x ∈ l ∧ x ≠ a := by
  simp [setRemove]

theorem nodup_setAdd {l : List α} (h : l.Nodup) (a : α) : (setAdd l a).Nodup := by
  unfold setAdd
  split_ifs with hm
  · exact h
  · exact List.nodup_append.mpr ⟨h, List.nodup_singleton a, by
      intro x hx y hy
      simp only [List.mem_singleton] at hy
      subst hy
      rintro rfl
      exact hm hx⟩

theorem nodup_setRemove {l : List α} (h : l.Nodup) (a : α) : (setRemove l a).Nodup :=
  h.sublist List.filter_sublist

theorem setRemove_eq_nil {l : List α} {a : α} : setRemove l a = [] ↔ ∀ x ∈ l, x = a := by
  simp [setRemove, List.filter_eq_nil_iff]

/-- keys of an association list -/
def alKeys (l : List (α × β)) : List α := l.map Prod.fst

theorem alGet_isSome_iff (l : List (α × β)) (a : α) : (alGet l a).isSome ↔ a ∈ alKeys l := by
  induction l with
  | nil => simp [alKeys]
  | cons e t ih =>
    obtain ⟨k, v⟩ := e
    simp only [alGet_cons, alKeys, List.map_cons, List.mem_cons] at ih ⊢
    by_cases hk : k = a
    · simp [hk]
    · have h2 : ¬ a = k := fun h => hk h.symm
      simp [hk, ih, h2]

theorem alGet_eq_none_iff (l : List (α × β)) (a : α) : alGet l a = none ↔ a ∉ alKeys l := by
  rw [← alGet_isSome_iff]
  cases alGet l a <;> simp

theorem alKeys_alSet_nodup {l : List (α × β)} (h : (alKeys l).Nodup) (a : α) (b : β) :
    (alKeys (alSet l a b)).Nodup := by
  induction l with
  | nil => simp [alSet, alKeys]
  | cons e t ih =>
    obtain ⟨k, v⟩ := e
    simp only [alKeys, List.map_cons, List.nodup_cons] at h
    simp only [alSet]
    split_ifs with hk
    · simpa [alKeys] using h
    · simp only [alKeys, List.map_cons, List.nodup_cons]
      refine ⟨?_, ih h.2⟩
      intro hm
      have : (alGet (alSet t a b) k).isSome := (alGet_isSome_iff _ _).mpr hm
      rw [alGet_alSet, if_neg hk] at this
      exact h.1 ((alGet_isSome_iff _ _).mp this)

theorem alKeys_alErase_nodup {l : List (α × β)} (h : (alKeys l).Nodup) (a : α) :
    (alKeys (alErase l a)).Nodup :=
  h.sublist ((List.filter_sublist).map Prod.fst)

theorem mem_alKeys_alSet (l : List (α × β)) (a : α) (b : β) (x : α) :
    x ∈ alKeys (alSet l a b) ↔ x ∈ alKeys l ∨ x = a := by
  rw [← alGet_isSome_iff, alGet_alSet, ← alGet_isSome_iff]
  by_cases h : x = a <;> simp [h]

theorem mem_alKeys_alErase (l : List (α × β)) (a x : α) :
    x ∈ alKeys (alErase l a) ↔ x ∈ alKeys l ∧ x ≠ a := by
  rw [← alGet_isSome_iff, alGet_alErase, ← alGet_isSome_iff]
  by_cases h : x = a <;> simp [h]

end AL

end MetadorModel.Container
