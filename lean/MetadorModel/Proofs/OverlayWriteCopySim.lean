import MetadorModel.Proofs.OverlayWriteRun
/-!
# C01 write side, part 10: `copy` on the overlay is the same replay on the plain tree

`h5_copy_from_to` lists the source first and then replays it with `create_group` /
`create_dataset` / attribute writes. `specCopyProg` is that same program on the plain tree;
`copy_prog_sim` shows (with the step lemmas for the basic operations) that the overlay run of
the program simulates the plain-tree run. That the program computes `Spec.copy` is a fact about
plain trees only (`OverlayWriteCopySpec.lean`).
-/
namespace MetadorModel.Overlay
open MetadorModel.Tree
variable {V : Type}

/-! ### the replay program on the plain tree -/

def specCopyAttrs (t : Tree V) (dst : Path) : List (Key × V) → Except Err (Tree V)
  | [] => .ok t
  | (k, v) :: more => do
    let t1 ← Spec.setAttr t dst k v
    specCopyAttrs t1 dst more

def specCreate (t : Tree V) (tgt : Path) : NKind V → Except Err (Tree V)
  | .group => Spec.createGroup t tgt
  | .data v => Spec.createDataset t tgt v

def specReplay (src dst : Path) : Tree V → List (Path × NKind V × List (Key × V)) → Except Err (Tree V)
  | t, [] => .ok t
  | t, (q, kd, as) :: more => do
    let t1 ← specCreate t (dst ++ q.drop src.length) kd
    let t2 ← specCopyAttrs t1 (dst ++ q.drop src.length) as
    specReplay src dst t2 more

def specCopyProg (t : Tree V) (src dst : Path) (kd : NKind V) (as : List (Key × V))
    (kids : List (Path × NKind V × List (Key × V))) : Except Err (Tree V) := do
  let t1 ← specCreate t dst kd
  let t2 ← specCopyAttrs t1 dst as
  match kd with
  | .data _ => pure t2
  | .group => specReplay src dst t2 kids

/-! ### composing simulations -/

theorem Sim.bind {x : Except Err (Rec V)} {y : Except Err (Tree V)}
    {f : Rec V → Except Err (Rec V)} {g : Tree V → Except Err (Tree V)} (h : Sim x y)
    (hfg : ∀ r' t', x = .ok r' → y = .ok t' → Rep r' t' → Inv r' → r' ≠ [] → Sim (f r') (g t')) :
    Sim (x >>= f) (y >>= g) := by
  rcases h.cases with ⟨r', t', rfl, rfl, h1, h2, h3⟩ | ⟨e, e', rfl, rfl⟩
  · exact hfg r' t' rfl rfl h1 h2 h3
  · trivial

def wCreate (r : Rec V) (tgt : Path) : NKind V → Except Err (Rec V)
  | .group => W.createGroup r tgt
  | .data v => W.createDataset r tgt v

theorem create_sim (r : Rec V) (t : Tree V) (tgt : Path) (kd : NKind V)
    (hne : r ≠ []) (hinv : Inv r) (hrep : Rep r t) : Sim (wCreate r tgt kd) (specCreate t tgt kd) := by
  cases r with
  | nil => exact absurd rfl hne
  | cons c older =>
    cases kd with
    | group => exact createGroup_sim c older t tgt hinv hrep
    | data v => exact createDataset_sim c older t tgt v hinv hrep

theorem specCreate_kind (t t' : Tree V) (tgt : Path) (kd : NKind V) (h : specCreate t tgt kd = .ok t') :
    kindAt t' tgt = some kd := by
  cases kd with
  | group =>
    obtain ⟨_, rfl⟩ := spec_create_inv t t' tgt _ h
    rw [kindAt_aput]; simp [emptyGroup]
  | data v =>
    obtain ⟨_, rfl⟩ := spec_create_inv t t' tgt _ h
    rw [kindAt_aput]; simp

theorem copyAttrs_sim (as : List (Key × V)) : ∀ (r : Rec V) (t : Tree V) (dst : Path),
    r ≠ [] → Inv r → Rep r t → viewKind r dst ≠ none →
    Sim (W.copyAttrs r dst as) (specCopyAttrs t dst as) := by
  induction as with
  | nil => intro r t dst hne hinv hrep _; exact ⟨hrep, hinv, hne⟩
  | cons kv more ih =>
    intro r t dst hne hinv hrep hvis
    obtain ⟨k, v⟩ := kv
    cases r with
    | nil => exact absurd rfl hne
    | cons c older =>
      obtain ⟨cf, nf, hl⟩ := found_of_viewKind _ _ hvis
      have hs := setAttr_sim c older t dst k v hinv hrep
      have heq : W.setAttr (c :: older) dst k v = W.setAttrRaw (c :: older) dst k (some v) := by
        simp only [W.setAttr, hl]
      rw [heq] at hs
      simp only [W.copyAttrs, specCopyAttrs]
      refine Sim.bind hs (fun r' t' _ ht' hrep' hinv' hne' => ?_)
      apply ih r' t' dst hne' hinv' hrep'
      obtain ⟨kd, hkd⟩ : ∃ kd, kindAt t dst = some kd := by
        rw [(hrep dst).1] at hvis
        cases hk : kindAt t dst with
        | none => exact absurd hk hvis
        | some kd => exact ⟨kd, rfl⟩
      rw [(hrep' dst).1, spec_step_kind_stable t t' (.sattr dst k v) dst kd rfl rfl ht' hkd]
      simp

/-- the loop over the listed children -/
theorem replay_sim (src dst : Path) (kids : List (Path × NKind V × List (Key × V))) :
    ∀ (r : Rec V) (t : Tree V), r ≠ [] → Inv r → Rep r t →
    Sim (W.replay src dst r kids) (specReplay src dst t kids) := by
  induction kids with
  | nil => intro r t hne hinv hrep; exact ⟨hrep, hinv, hne⟩
  | cons e more ih =>
    intro r t hne hinv hrep
    obtain ⟨q, kd, as⟩ := e
    have hw : W.replay src dst r ((q, kd, as) :: more) =
        (wCreate r (dst ++ q.drop src.length) kd >>= fun r1 =>
          (match look r1 (dst ++ q.drop src.length) with
            | .found _ _ => W.copyAttrs r1 (dst ++ q.drop src.length) as
            | _ => .error .missing) >>= fun r2 => W.replay src dst r2 more) := by
      cases kd <;> rfl
    rw [hw]
    simp only [specReplay]
    refine Sim.bind (create_sim r t _ kd hne hinv hrep) (fun r1 t1 _ ht1 hrep1 hinv1 hne1 => ?_)
    have hvis : viewKind r1 (dst ++ q.drop src.length) ≠ none := by
      rw [(hrep1 _).1, specCreate_kind t t1 _ kd ht1]; simp
    obtain ⟨cf, nf, hl⟩ := found_of_viewKind _ _ hvis
    simp only [hl]
    exact Sim.bind (copyAttrs_sim as r1 t1 _ hne1 hinv1 hrep1 hvis)
      (fun r2 t2 _ _ hrep2 hinv2 hne2 => ih r2 t2 hne2 hinv2 hrep2)

/-- `IH5Group.copy` when the source is visible with kind `kd` and the destination is free -/
theorem copy_prog_sim (c : Cont V) (older : Rec V) (t : Tree V) (src dst : Path) (cf : Nat) (nf : RNode V)
    (kd : NKind V) (hinv : Inv (c :: older)) (hrep : Rep (c :: older) t) (hs : src ≠ [])
    (hl : look (c :: older) src = .found cf nf) (hkd : plainKind nf.kind = some kd) :
    Sim (W.copy (c :: older) src dst)
      (specCopyProg t src dst kd (attrsList (c :: older) src)
        ((listing (c :: older)).filter (fun e => isPre src e.1 && e.1 != src))) := by
  have hne : c :: older ≠ [] := by simp
  -- the program as the overlay runs it
  have hprog : Sim (wCreate (c :: older) dst kd >>= fun r1 =>
        W.copyAttrs r1 dst (attrsList (c :: older) src) >>= fun r2 =>
          (match kd with
            | .data _ => pure r2
            | .group => W.replay src dst r2 ((listing (c :: older)).filter (fun e => isPre src e.1 && e.1 != src))))
      (specCopyProg t src dst kd (attrsList (c :: older) src)
        ((listing (c :: older)).filter (fun e => isPre src e.1 && e.1 != src))) := by
    unfold specCopyProg
    refine Sim.bind (create_sim _ t dst kd hne hinv hrep) (fun r1 t1 _ ht1 hrep1 hinv1 hne1 => ?_)
    have hvis : viewKind r1 dst ≠ none := by
      rw [(hrep1 _).1, specCreate_kind t t1 _ kd ht1]; simp
    refine Sim.bind (copyAttrs_sim _ r1 t1 dst hne1 hinv1 hrep1 hvis) (fun r2 t2 _ _ hrep2 hinv2 hne2 => ?_)
    cases kd with
    | data v => exact ⟨hrep2, hinv2, hne2⟩
    | group => exact replay_sim src dst _ r2 t2 hne2 hinv2 hrep2
  cases hd : look (c :: older) dst with
  | found cf' nf' =>
    apply Sim.of_err ⟨.exists_, by simp only [W.copy, hs, ↓reduceIte, hl, hd]⟩
    obtain ⟨e, he⟩ := (create_sim (c :: older) t dst kd hne hinv hrep).cases.resolve_left (by
      rintro ⟨r', t', h1, _⟩
      cases kd with
      | group => exact ok_ne_err h1 (createGroup_err _ dst (Or.inl ⟨cf', nf', hd⟩))
      | data v => exact ok_ne_err h1 (createDataset_err c older dst v (Or.inl ⟨cf', nf', hd⟩)))
    obtain ⟨e', _, he'⟩ := he
    exact ⟨e', by simp [specCopyProg, he', bind, Except.bind]⟩
  | insideValue =>
    apply Sim.of_err ⟨.insideValue, by simp only [W.copy, hs, ↓reduceIte, hl, hd]⟩
    obtain ⟨e, he⟩ := (create_sim (c :: older) t dst kd hne hinv hrep).cases.resolve_left (by
      rintro ⟨r', t', h1, _⟩
      cases kd with
      | group => exact ok_ne_err h1 (createGroup_err _ dst (Or.inr hd))
      | data v => exact ok_ne_err h1 (createDataset_err c older dst v (Or.inr hd)))
    obtain ⟨e', _, he'⟩ := he
    exact ⟨e', by simp [specCopyProg, he', bind, Except.bind]⟩
  | part pre y =>
    have hw : W.copy (c :: older) src dst = (wCreate (c :: older) dst kd >>= fun r1 =>
        W.copyAttrs r1 dst (attrsList (c :: older) src) >>= fun r2 =>
          (match kd with
            | .data _ => pure r2
            | .group => W.replay src dst r2 ((listing (c :: older)).filter (fun e => isPre src e.1 && e.1 != src)))) := by
      simp only [W.copy, hs, ↓reduceIte, hl, hd, hkd]
      cases kd with
      | data v =>
        simp only [wCreate, bind, Except.bind, pure, Except.pure]
        cases W.createDataset (c :: older) dst v with
        | error e => rfl
        | ok r1 =>
          simp only
          cases W.copyAttrs r1 dst (attrsList (c :: older) src) <;> rfl
      | group =>
        simp only [wCreate, bind, Except.bind]
    rw [hw]
    exact hprog

end MetadorModel.Overlay
