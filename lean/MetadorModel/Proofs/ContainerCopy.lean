import MetadorModel.Proofs.ContainerMissing
import MetadorModel.Proofs.ContainerRebase
import MetadorModel.Proofs.ContainerDelF
/-!
# `group.copy(source, dest, without_meta=…)` keeps the invariant
-/
namespace MetadorModel.Container

theorem user_head {base : Path} (m : String) (hb : isInternal base = false) :
    (base ++ [Key.user m]).head? ≠ some .toc := by
  cases base with
  | nil => simp
  | cons x base => simpa using isInternal_head_ne_toc hb

/-- the tree part of the invariant only looks outside `/metador_container` -/
theorem treeOK_of_frame {e : Env} {t t' : Tree} {ex : Path → Prop} (ht : TreeOKx e t ex) (hk : KeysOK t')
    (hc : PClosed t') (hf : ∀ q, q.head? ≠ some .toc → get? t' q = get? t q) : TreeOKx e t' ex := by
  have hobj : ∀ p r u, ObjAt t' p r u ↔ ObjAt t p r u := ObjAt.congr hf
  refine ⟨hk, hc, ?_, ?_, ?_, ?_, ?_⟩
  · intro q n hq hqt hg
    rw [hf q hqt] at hg
    exact ht.ushape q n hq hqt hg
  · intro b m hb hg hne
    rw [hf _ (objPath_head hb)] at hg
    rcases ht.host_ds b m hb hg hne with h | ⟨v, hv⟩
    · exact Or.inl h
    · exact Or.inr ⟨v, by rw [hf _ (user_head m hb)]; exact hv⟩
  · intro b m hb hg
    rw [hf _ (objPath_head hb)] at hg
    obtain ⟨r, u, h⟩ := ht.host_obj b m hb hg
    exact ⟨r, u, by rw [hf _ (objPath_head hb)]; exact h⟩
  · intro p r u ho; exact ht.objenv p r u ((hobj _ _ _).mp ho)
  · intro b m r u r' u' hb h1 h2 hn
    rw [hf _ (objPath_head hb)] at h1 h2
    exact ht.onename b m r u r' u' hb h1 h2 hn

theorem repairMissing_cons (e : Env) (p : Path) (todo : List Path) (update : Bool) :
    repairMissing e (p :: todo) update =
      (do
        (match objOfPath p with
          | none => raise .value
          | some (r, u) => do
            let s ← getSt
            if update && (alGet s.c.tocPath u).isSome then
              linkUpdate u p
            else
              let u' ← freshUuid
              let newPath := p.dropLast ++ [.obj r u']
              liftRaw fun t => rawMove t p newPath
              linkRegister e r u' newPath : M Unit)
        repairMissing e todo update) := rfl

theorem repairCopy_step_run (e : Env) (base : Path) (m : String) (r : SRef) (u : Nat) (todo : List Path)
    (s : St) (t2 : Tree) (s3 : St)
    (h2 : rawMove s.raw (base ++ [.metaDir m, .obj r u]) (base ++ [.metaDir m, .obj r s.next]) = .ok t2)
    (h3 : linkRegister e r s.next (base ++ [.metaDir m, .obj r s.next]) ⟨t2, s.c, s.next + 1⟩ = (.ok (), s3)) :
    repairMissing e ((base ++ [.metaDir m, .obj r u]) :: todo) false s = repairMissing e todo false s3 := by
  have hdl : (base ++ [Key.metaDir m, Key.obj r u]).dropLast ++ [Key.obj r s.next] =
      base ++ [.metaDir m, .obj r s.next] := by
    rw [show base ++ [Key.metaDir m, Key.obj r u] = (base ++ [Key.metaDir m]) ++ [Key.obj r u] by simp,
      List.dropLast_concat]; simp
  rw [repairMissing_cons]
  simp only [objOfPath_obj, Bool.false_and, Bool.false_eq_true, if_false, bind, M.bind, run_getSt, freshUuid,
    run_liftRaw, hdl, h2, h3]

/-- the loop of `repair_missing(update=False)`: every pending (unlinked) object gets a fresh uuid
and is registered -/
theorem repairCopy_spec {e : Env} (he : WFEnv e) : ∀ (todo : List Path) (s : St),
    TreeOK e s.raw → TocOK e s (fun q r u => ObjAt s.raw q r u ∧ q ∉ todo) → todo.Nodup →
    (∀ q ∈ todo, ∃ r u, ObjAt s.raw q r u) → (∀ q r u, ObjAt s.raw q r u → u < s.next) →
    ∃ s', repairMissing e todo false s = (.ok (), s') ∧ Inv e s' ∧
      (∀ q n, q.head? ≠ some .toc → get? s.raw q = some n → q ∉ todo → get? s'.raw q = some n)
  | [], s, ht, hc, _, _, hb =>
    ⟨s, rfl, inv_of_parts ht (hc.congr (fun p r u => by simp)) hb, fun _ _ _ h _ => h⟩
  | p :: todo, s, ht, hc, hnd, hall, hb => by
    obtain ⟨hpn, hnd'⟩ := List.nodup_cons.mp hnd
    obtain ⟨r, u, hobj⟩ := hall p (by simp)
    have hobj0 := hobj
    obtain ⟨base, m, hbase, rfl, hex⟩ := hobj
    set p := base ++ [.metaDir m, .obj r u] with hp
    set new := base ++ [.metaDir m, .obj r s.next] with hnew
    obtain ⟨i, hinfo⟩ := ht.objenv p r u hobj0
    -- the new name is free: its uuid has never been used
    have hfree : get? s.raw new = none := by
      by_contra hg
      exact absurd (hb new r s.next ⟨base, m, hbase, rfl, hg⟩) (lt_irrefl _)
    obtain ⟨t2, hmv, ht2, htoc2, -, hobj2, hframe2⟩ := renameObj_spec ht hbase hex hfree
    -- the linked objects are the same as before
    let L := fun q r' u' => ObjAt s.raw q r' u' ∧ q ∉ p :: todo
    have hnew_todo : new ∉ todo := by
      intro hm
      obtain ⟨r', u', _, _, _, _, hg⟩ := hall new (List.mem_cons_of_mem _ hm)
      exact hg hfree
    have hL2 : ∀ q r' u', L q r' u' ↔ (ObjAt t2 q r' u' ∧ q ≠ new ∧ q ∉ todo) := by
      intro q r' u'
      simp only [L, List.mem_cons, not_or]
      rw [hobj2]
      constructor
      · rintro ⟨ho, hqp, hqt⟩
        refine ⟨Or.inl ⟨ho, hqp⟩, ?_, hqt⟩
        rintro rfl
        obtain ⟨_, _, _, _, hg⟩ := ho
        exact hg hfree
      · rintro ⟨⟨ho, hqp⟩ | ⟨rfl, -, -⟩, hqn, hqt⟩
        · exact ⟨ho, hqp, hqt⟩
        · exact absurd rfl hqn
    have htoc_s2 : TocRaw e L (fun r' => ∃ q u', L q r' u') t2 := hc.toc.frame htoc2
    have hfresh : ¬ ∃ q r', L q r' s.next := by
      rintro ⟨q, r', ho, -⟩
      exact absurd (hb q r' s.next ho) (lt_irrefl _)
    obtain ⟨s3, hrun3, htoc3, hsc3, hlc3, step3⟩ := linkRegister_spec he (s := ⟨t2, s.c, s.next + 1⟩)
      (p0 := new) hinfo htoc_s2 hc.scache hc.lcache hfresh
    have hobj3 : ∀ q r' u', ObjAt s3.raw q r' u' ↔ ObjAt t2 q r' u' := ObjAt.congr step3.frame
    have hL3 : ∀ q r' u', (ObjAt s3.raw q r' u' ∧ q ∉ todo) ↔ (L q r' u' ∨ (q = new ∧ r' = r ∧ u' = s.next)) := by
      intro q r' u'
      rw [hobj3, hL2]
      constructor
      · rintro ⟨ho, hqt⟩
        by_cases hqn : q = new
        · subst hqn
          rcases (hobj2 _ _ _).mp ho with ⟨⟨_, _, _, _, hg⟩, -⟩ | ⟨-, rfl, rfl⟩
          · exact absurd hfree hg
          · exact Or.inr ⟨rfl, rfl, rfl⟩
        · exact Or.inl ⟨ho, hqn, hqt⟩
      · rintro (⟨ho, -, hqt⟩ | ⟨rfl, rfl, rfl⟩)
        · exact ⟨ho, hqt⟩
        · exact ⟨(hobj2 _ _ _).mpr (Or.inr ⟨rfl, rfl, rfl⟩), hnew_todo⟩
    have hU3 : ∀ r', (∃ q u', ObjAt s3.raw q r' u' ∧ q ∉ todo) ↔ ((∃ q u', L q r' u') ∨ r' = r) := by
      intro r'
      constructor
      · rintro ⟨q, u', h⟩
        rcases (hL3 q r' u').mp h with h | ⟨-, rfl, -⟩
        · exact Or.inl ⟨q, u', h⟩
        · exact Or.inr rfl
      · rintro (⟨q, u', h⟩ | rfl)
        · exact ⟨q, u', (hL3 _ _ _).mpr (Or.inl h)⟩
        · exact ⟨new, s.next, (hL3 _ _ _).mpr (Or.inr ⟨rfl, rfl, rfl⟩)⟩
    have hc3 : TocOK e s3 (fun q r' u' => ObjAt s3.raw q r' u' ∧ q ∉ todo) := by
      refine ⟨(htoc3.congr hL3 hU3), hsc3.congr hU3, ?_, ?_⟩
      · intro u' tp
        rw [hlc3 u' tp]
        constructor
        · rintro ⟨q, r', h, rfl⟩; exact ⟨q, r', (hL3 _ _ _).mpr h, rfl⟩
        · rintro ⟨q, r', h, rfl⟩; exact ⟨q, r', (hL3 _ _ _).mp h, rfl⟩
      · intro q q' r1 r2 u' h1 h2
        rcases (hL3 _ _ _).mp h1 with hm1 | ⟨rfl, rfl, rfl⟩ <;> rcases (hL3 _ _ _).mp h2 with hm2 | ⟨rfl, rfl, hu⟩
        · exact hc.luniq q q' r1 r2 u' hm1 hm2
        · exact absurd ⟨q, r1, hu ▸ hm1⟩ hfresh
        · exact absurd ⟨q', r2, hm2⟩ hfresh
        · exact ⟨rfl, rfl⟩
    have ht3 : TreeOK e s3.raw :=
      treeOK_of_frame ht2 (step3.keys (rawMove_keys hmv ht.keys ht.pclosed))
        (step3.pclosed (rawMove_pclosed hmv ht.pclosed)) step3.frame
    have hall3 : ∀ q ∈ todo, ∃ r' u', ObjAt s3.raw q r' u' := by
      intro q hq
      obtain ⟨r', u', ho⟩ := hall q (List.mem_cons_of_mem _ hq)
      refine ⟨r', u', (hobj3 _ _ _).mpr ((hobj2 _ _ _).mpr (Or.inl ⟨ho, ?_⟩))⟩
      rintro rfl; exact hpn hq
    have hb3 : ∀ q r' u', ObjAt s3.raw q r' u' → u' < s3.next := by
      intro q r' u' ho
      rw [step3.next]
      rcases (hobj2 _ _ _).mp ((hobj3 _ _ _).mp ho) with ⟨h, -⟩ | ⟨-, -, rfl⟩
      · exact Nat.lt_succ_of_lt (hb q r' u' h)
      · exact Nat.lt_succ_self _
    obtain ⟨s', hrun', hinv', hkeep'⟩ := repairCopy_spec he todo s3 ht3 hc3 hnd' hall3 hb3
    refine ⟨s', by rw [repairCopy_step_run e base m r u todo s t2 s3 hmv hrun3]; exact hrun', hinv', ?_⟩
    intro q n hqt hq hnot
    simp only [List.mem_cons, not_or] at hnot
    refine hkeep' q n hqt ?_ hnot.2
    rw [step3.frame q hqt, hframe2 q hnot.1 (by rintro rfl; rw [hfree] at hq; cases hq)]
    exact hq

/-! ### assembling `copy` -/

/-- a new raw tree with the same reserved subtree and the same attached objects -/
theorem inv_of_same_objs {e : Env} {s : St} (hi : Inv e s) {t' : Tree} (ht : TreeOK e t')
    (htoc : ∀ q, q.head? = some .toc → get? t' q = get? s.raw q)
    (hobj : ∀ p r u, ObjAt t' p r u ↔ ObjAt s.raw p r u) : Inv e ⟨t', s.c, s.next⟩ := by
  have hused : ∀ r, (∃ p u, ObjAt t' p r u) ↔ (∃ p u, ObjAt s.raw p r u) := fun r =>
    ⟨fun ⟨p, u, h⟩ => ⟨p, u, (hobj _ _ _).mp h⟩, fun ⟨p, u, h⟩ => ⟨p, u, (hobj _ _ _).mpr h⟩⟩
  refine inv_of_parts ht ⟨(hi.toc.frame htoc).congr hobj hused, hi.scache.congr hused, ?_, ?_⟩ ?_
  · intro u tp
    rw [hi.lcache u tp]
    constructor
    · rintro ⟨p, r, h, rfl⟩; exact ⟨p, r, (hobj _ _ _).mpr h, rfl⟩
    · rintro ⟨p, r, h, rfl⟩; exact ⟨p, r, (hobj _ _ _).mp h, rfl⟩
  · intro p p' r r' u h1 h2
    exact hi.mok.uniq p p' r r' u ((hobj _ _ _).mp h1) ((hobj _ _ _).mp h2)
  · intro p r u h; exact hi.mok.bound p r u ((hobj _ _ _).mp h)

/-- the reserved subtree is not touched by re-rooting outside of it -/
theorem rebased_toc {t t' : Tree} {src dst : Path} {mv : Bool} (hreb : Rebased t t' src dst mv)
    (hd0 : dst ≠ []) (hdt : dst.head? ≠ some .toc) (hs0 : src ≠ []) (hst : src.head? ≠ some .toc)
    (q : Path) (hq : q.head? = some .toc) : get? t' q = get? t q := by
  have hq0 : q ≠ [] := by rintro rfl; simp at hq
  have hnp : ∀ a : Path, a ≠ [] → a.head? ≠ some .toc → ¬ a <+: q := by
    rintro a ha0 hat ⟨c, rfl⟩
    cases a with
    | nil => exact ha0 rfl
    | cons x a => simp at hq hat; exact hat hq
  rw [hreb q hq0, if_neg (hnp dst hd0 hdt), if_neg (fun h => hnp src hs0 hst h.2)]
  cases hg : get? t q with
  | some x => rfl
  | none =>
    cases hm : isMid [] dst q with
    | false => rfl
    | true =>
      obtain ⟨-, hpre, -⟩ := isMid_nil_iff.mp hm
      obtain ⟨c, rfl⟩ := hpre
      cases q with
      | nil => exact absurd rfl hq0
      | cons x q => simp at hq hdt; exact absurd hq hdt

theorem nodeKind_of_get {s : St} {t : Tree} {p q : Path} (h : get? s.raw p = get? t q) (c : Caches) (n : Nat) :
    nodeKind s p = nodeKind ⟨t, c, n⟩ q := by
  simp [nodeKind, h]

/-- no metadata object lives below a dataset -/
theorem no_obj_below_ds {e : Env} {t : Tree} {ex : Path → Prop} (ht : TreeOKx e t ex) {src : Path} {v : Val}
    (hs : isInternal src = false) (hv : get? t src = some (.ds v)) {c : Path} {r : SRef} {u : Nat} :
    ¬ ObjAt t (src ++ c) r u := by
  rintro ⟨base, m, hb, hp, hg⟩
  have hne : src ++ c ≠ src := by
    intro h
    have : isInternal (src ++ c) = true := hp ▸ isInternal_metaDir base m _
    rw [h, hs] at this; cases this
  exact hg (none_below_ds ht.pclosed hv (List.prefix_append _ _) hne)

/-- what `copy` leaves behind: the invariant holds, and nothing that existed has been touched -/
def CopyPost (e : Env) (s s' : St) : Prop :=
  Inv e s' ∧ ∀ q n, q.head? ≠ some .toc → get? s.raw q = some n → get? s'.raw q = some n

theorem CopyPost.refl {e : Env} {s : St} (hi : Inv e s) : CopyPost e s s := ⟨hi, fun _ _ _ h => h⟩

/-- `group.copy(source, dest, without_meta)`: success or failure -/
theorem opCopy_spec {e : Env} (he : WFEnv e) {s : St} (hi : Inv e s) (src dst : Path) (wm : Bool) :
    CopyPost e s (opCopy e src dst wm s).2 := by
  unfold opCopy guardPath
  cases hsi : isInternal src with
  | true => simpa [hsi] using CopyPost.refl hi
  | false =>
    simp only [Bool.false_eq_true, if_false, bind, M.bind, run_pure, run_getSt]
    cases hk : nodeKind s src with
    | none => simpa using CopyPost.refl hi
    | some k =>
      simp only [run_ofOpt_some]
      cases hdi : isInternal dst with
      | true => simpa [hdi] using CopyPost.refl hi
      | false =>
        simp only [Bool.false_eq_true, if_false, run_pure, run_liftRaw]
        cases hcp : rawCopy s.raw src dst with
        | error err => simpa using CopyPost.refl hi
        | ok t1 =>
          simp only [run_getSt]
          have ht := hi.treeOK
          obtain ⟨hs0, hd0, -, hfree, -⟩ := rawCopy_inv hcp
          obtain ⟨ht1, hobj1⟩ := treeOK_copy_user ht hsi hdi hcp
          have hreb1 := rebased_of_copy hcp ht.pclosed
          have htoc1 : ∀ q, q.head? = some .toc → get? t1 q = get? s.raw q :=
            rebased_toc hreb1 hd0 (isInternal_head_ne_toc hdi) hs0 (isInternal_head_ne_toc hsi)
          have hdst1 : get? t1 dst = get? s.raw src := by
            have := hreb1 dst hd0
            rw [if_pos (List.prefix_refl _)] at this
            simpa using this
          have hkd : nodeKind ⟨t1, s.c, s.next⟩ dst = some k := by
            rw [← nodeKind_of_get (s := s) (p := src) hdst1.symm]; exact hk
          simp only [hkd, run_ofOpt_some]
          -- whatever existed is still there
          have keep1 : ∀ q n, get? s.raw q = some n → get? t1 q = some n := by
            intro q n hq
            by_cases hq0 : q = []
            · subst hq0; simpa using hq
            · have hnd : ¬ dst <+: q := fun hp => by
                rw [none_below_free ht.pclosed hfree hp] at hq; cases hq
              rw [hreb1 q hq0, if_neg hnd, if_neg (by simp), hq]; rfl
          -- objects outside `dst` are the old ones
          have hold : ∀ p r u, ObjAt s.raw p r u → ¬ dst <+: p := by
            rintro p r u ⟨_, _, _, _, hg⟩ hpre
            exact hg (none_below_free ht.pclosed hfree hpre)
          have hold1 : ∀ p r u, (ObjAt t1 p r u ∧ ¬ dst <+: p) ↔ ObjAt s.raw p r u := by
            intro p r u
            rw [hobj1]
            constructor
            · rintro ⟨⟨h, -⟩ | ⟨-, h⟩, hn⟩
              · exact absurd h hn
              · exact h
            · intro h; exact ⟨Or.inr ⟨hold p r u h, h⟩, hold p r u h⟩
          have hb1 : ∀ p r u, ObjAt t1 p r u → u < s.next := by
            intro p r u ho
            rcases (hobj1 p r u).mp ho with ⟨-, h⟩ | ⟨-, h⟩
            · exact hi.mok.bound _ r u h
            · exact hi.mok.bound _ r u h
          have hc1 : TocOK e ⟨t1, s.c, s.next⟩ (ObjAt s.raw) :=
            ⟨hi.toc.frame htoc1, hi.scache, hi.lcache, fun p p' r r' u => hi.mok.uniq p p' r r' u⟩
          cases k with
          | true =>
            -- a dataset: nothing below it, the copy carries no metadata yet
            obtain ⟨v, hv⟩ : ∃ v, get? s.raw src = some (.ds v) := by
              rcases nodeKind_some hk with ⟨h, -⟩ | ⟨-, v, hv⟩
              · cases h
              · exact ⟨v, hv⟩
            have hobjs1 : ∀ p r u, ObjAt t1 p r u ↔ ObjAt s.raw p r u := by
              intro p r u
              rw [hobj1]
              constructor
              · rintro (⟨-, h⟩ | ⟨-, h⟩)
                · exact absurd h (no_obj_below_ds ht hsi hv)
                · exact h
              · intro h; exact Or.inr ⟨hold p r u h, h⟩
            have hinv1 : CopyPost e s ⟨t1, s.c, s.next⟩ :=
              ⟨inv_of_same_objs hi ht1 htoc1 hobjs1, fun q n _ hq => keep1 q n hq⟩
            cases wm with
            | true => simpa using hinv1
            | false =>
              simp only [Bool.not_false, Bool.and_self, if_true, run_liftRaw, Bool.not_true, Bool.false_eq_true,
                if_false, bind, M.bind, run_pure, run_getSt]
              cases hcp2 : rawCopy t1 (metaBase src true) (metaBase dst true) with
              | error err => simpa using hinv1
              | ok t2 =>
                simp only []
                obtain ⟨b, m, rfl, hb⟩ := user_path_snoc hs0 hsi
                obtain ⟨b', m', rfl, hb'⟩ := user_path_snoc hd0 hdi
                simp only [metaBase_ds] at hcp2 ⊢
                have hdv : get? t1 (b' ++ [.user m']) = some (.ds v) := by rw [hdst1, hv]
                obtain ⟨ht2, hobj2⟩ := treeOK_copy_meta ht1 hb hb' (Or.inr ⟨v, hdv⟩) hcp2
                obtain ⟨hs0', hd0', -, hfree2, -⟩ := rawCopy_inv hcp2
                have hreb2 := rebased_of_copy hcp2 ht1.pclosed
                have htoc2 : ∀ q, q.head? = some .toc → get? t2 q = get? s.raw q := fun q hq =>
                  (rebased_toc hreb2 hd0' (objPath_head hb') hs0' (objPath_head hb) q hq).trans (htoc1 q hq)
                have hc2 : TocOK e ⟨t2, s.c, s.next⟩ (ObjAt s.raw) :=
                  ⟨hi.toc.frame htoc2, hi.scache, hi.lcache, fun p p' r r' u => hi.mok.uniq p p' r r' u⟩
                -- objects outside the new directory are the old ones
                have hold2 : ∀ p r u, ObjAt t1 p r u → ¬ b' ++ [Key.metaDir m'] <+: p := by
                  rintro p r u ⟨_, _, _, _, hg⟩ hpre
                  exact hg (none_below_free ht1.pclosed hfree2 hpre)
                have hdm0 : b' ++ [Key.metaDir m'] ≠ [] := by simp
                have hmiss : findMissing ⟨t2, s.c, s.next⟩ (b' ++ [.metaDir m']) =
                    .ok (objsBelow t2 (b' ++ [.metaDir m'])) := by
                  refine findMissing_all (s := ⟨t2, s.c, s.next⟩) ht2 hc2 hdm0 (objPath_head hb') ?_
                  rintro q r u ho hpre p0 r0 hL rfl
                  exact hold2 p0 r0 u ((hobjs1 _ _ _).mpr hL) hpre
                simp only [hmiss, bind, M.bind]
                have hL2 : ∀ q r u, (ObjAt t2 q r u ∧ q ∉ objsBelow t2 (b' ++ [.metaDir m'])) ↔ ObjAt s.raw q r u := by
                  intro q r u
                  rw [mem_objsBelow ht2 hdm0 (objPath_head hb'), ← hobjs1]
                  constructor
                  · rintro ⟨ho, hn⟩
                    rcases (hobj2 q r u).mp ho with ⟨hpre, -⟩ | ⟨-, h⟩
                    · exfalso
                      apply hn
                      refine ⟨⟨r, u, ho⟩, hpre, ?_⟩
                      rintro rfl
                      obtain ⟨_, _, _, hp, -⟩ := ho
                      have := congrArg List.getLast? hp; simp at this
                    · exact h
                  · intro h
                    exact ⟨(hobj2 q r u).mpr (Or.inr ⟨hold2 q r u h, h⟩), fun hm => hold2 q r u h hm.2.1⟩
                obtain ⟨s', hrun', hinv', hkeep'⟩ := repairCopy_spec he (objsBelow t2 (b' ++ [.metaDir m'])) ⟨t2, s.c, s.next⟩
                  ht2 (hc2.congr hL2) (objsBelow_nodup ht2.keys _)
                  (fun q hq => ((mem_objsBelow ht2 hdm0 (objPath_head hb') q).mp hq).1)
                  (fun q r u ho => by
                    rcases (hobj2 q r u).mp ho with ⟨-, h⟩ | ⟨-, h⟩
                    · exact hb1 _ r u h
                    · exact hb1 _ r u h)
                simp only [hrun']
                refine ⟨hinv', fun q n hqt hq => ?_⟩
                have hq1 := keep1 q n hq
                have hnd2 : ¬ b' ++ [Key.metaDir m'] <+: q := fun hp => by
                  rw [none_below_free ht1.pclosed hfree2 hp] at hq1; cases hq1
                refine hkeep' q n hqt ?_ (fun hm => hnd2 ((mem_objsBelow ht2 hdm0 (objPath_head hb') q).mp hm).2.1)
                show get? t2 q = some n
                by_cases hq0 : q = []
                · subst hq0; simpa using hq
                · rw [hreb2 q hq0, if_neg hnd2, if_neg (by simp), hq1]; rfl
          | false =>
            simp only [Bool.false_and, Bool.false_eq_true, if_false, run_pure, Bool.not_false, if_true]
            cases wm with
            | true =>
              simp only [if_true]
              obtain ⟨s', hrun', ht', hnext', ⟨⟨hcs, htoc'⟩, hmono'⟩, huser', hgone, hsurv⟩ :=
                destroyMeta_spec (delSpec_tree e) (s := ⟨t1, s.c, s.next⟩) ht1 hdi hkd
              rw [hrun']
              have hobjs' : ∀ p r u, ObjAt s'.raw p r u ↔ ObjAt s.raw p r u := by
                intro p r u
                rw [← hold1]
                constructor
                · intro h; exact ⟨(hgone p r u h).1, (hgone p r u h).2.2⟩
                · rintro ⟨h, hn⟩
                  refine hsurv p r u h hn ?_
                  intro hd
                  apply hn
                  obtain ⟨base, m, _, rfl, _⟩ := h
                  have hdl : (base ++ [Key.metaDir m, Key.obj r u]).dropLast = base ++ [.metaDir m] := by
                    rw [show base ++ [Key.metaDir m, Key.obj r u] = (base ++ [Key.metaDir m]) ++ [Key.obj r u] by simp,
                      List.dropLast_concat]
                  rw [hdl, metaBase_grp] at hd
                  rw [show base ++ [Key.metaDir m, Key.obj r u] = (base ++ [Key.metaDir m]) ++ [Key.obj r u] by simp, hd]
                  exact ⟨[.metaDir "", .obj r u], by simp⟩
              have := inv_of_same_objs hi ht' (fun q hq => (htoc' q hq).trans (htoc1 q hq)) hobjs'
              have hs' : s' = ⟨s'.raw, s.c, s.next⟩ := by
                cases s'
                simp only at hcs hnext'
                rw [hcs, hnext']
              rw [hs']
              refine ⟨this, fun q n hqt hq => ?_⟩
              show get? s'.raw q = some n
              have hq1 := keep1 q n hq
              -- `q` is a user node, a surviving object, or the directory of a surviving object
              rcases hmono' q hqt with hnone | hsame
              · exfalso
                have hq0 : q ≠ [] := by rintro rfl; simp at hnone
                have hsh := ht.ushape q n hq0 hqt hq
                cases hsh with
                | user q n hqi _ => rw [huser' q hqi, hq1] at hnone; cases hnone
                | metaDir base m hb =>
                  obtain ⟨r, u, hru⟩ := ht.host_obj base m hb (by rw [hq]; simp)
                  have ho : ObjAt s.raw (base ++ [.metaDir m, .obj r u]) r u := ⟨base, m, hb, rfl, hru⟩
                  obtain ⟨_, _, _, _, hg'⟩ := (hobjs' _ _ _).mpr ho
                  have := ht'.pclosed (base ++ [.metaDir m]) (.obj r u) (by simpa using hg')
                  rw [hnone] at this; cases this
                | obj base m r u tok hb =>
                  have ho : ObjAt s.raw (base ++ [.metaDir m, .obj r u]) r u := ⟨base, m, hb, rfl, by rw [hq]; simp⟩
                  obtain ⟨_, _, _, _, hg'⟩ := (hobjs' _ _ _).mpr ho
                  exact hg' hnone
              · rw [hsame]; exact hq1
            | false =>
              simp only [Bool.false_eq_true, if_false, run_getSt, bind, M.bind]
              have hmiss : findMissing ⟨t1, s.c, s.next⟩ dst = .ok (objsBelow t1 dst) := by
                refine findMissing_all (s := ⟨t1, s.c, s.next⟩) ht1 hc1 hd0 (isInternal_head_ne_toc hdi) ?_
                rintro q r u ho hpre p0 r0 hL rfl
                exact hold p0 r0 u hL hpre
              simp only [hmiss]
              have hL1 : ∀ q r u, (ObjAt t1 q r u ∧ q ∉ objsBelow t1 dst) ↔ ObjAt s.raw q r u := by
                intro q r u
                rw [mem_objsBelow ht1 hd0 (isInternal_head_ne_toc hdi), ← hold1]
                constructor
                · rintro ⟨ho, hn⟩
                  refine ⟨ho, fun hpre => hn ⟨⟨r, u, ho⟩, hpre, ?_⟩⟩
                  rintro rfl
                  rw [ho.internal] at hdi; cases hdi
                · rintro ⟨ho, hn⟩
                  exact ⟨ho, fun hm => hn hm.2.1⟩
              obtain ⟨s', hrun', hinv', hkeep'⟩ := repairCopy_spec he (objsBelow t1 dst) ⟨t1, s.c, s.next⟩
                ht1 (hc1.congr hL1) (objsBelow_nodup ht1.keys _)
                (fun q hq => ((mem_objsBelow ht1 hd0 (isInternal_head_ne_toc hdi) q).mp hq).1) hb1
              simp only [hrun']
              refine ⟨hinv', fun q n hqt hq => hkeep' q n hqt (keep1 q n hq) (fun hm => ?_)⟩
              have hpre := ((mem_objsBelow ht1 hd0 (isInternal_head_ne_toc hdi) q).mp hm).2.1
              rw [none_below_free ht.pclosed hfree hpre] at hq; cases hq

theorem opCopy_inv {e : Env} (he : WFEnv e) {s : St} (hi : Inv e s) (src dst : Path) (wm : Bool) :
    Inv e (opCopy e src dst wm s).2 := (opCopy_spec he hi src dst wm).1

/-- `copy` never changes (or removes) anything that existed outside `/metador_container` -/
theorem opCopy_keeps {e : Env} (he : WFEnv e) {s : St} (hi : Inv e s) (src dst : Path) (wm : Bool) {q : Path}
    {n : Node} (hqt : q.head? ≠ some .toc) (hq : get? s.raw q = some n) :
    get? (opCopy e src dst wm s).2.raw q = some n := (opCopy_spec he hi src dst wm).2 q n hqt hq

end MetadorModel.Container
