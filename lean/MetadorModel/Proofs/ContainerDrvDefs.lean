import MetadorModel.Model.Container
/-!
# Definitions for property C09 (containers behave identically on plain HDF5 and on IH5 records)

* `Ins ins h h'`: `h'` is `h` with additional operations satisfying `ins` inserted anywhere
  (patch boundaries: `isPatch`, reopen points: `isReopen`).
* `Obs`, `obs`, `outcomes`: what the caller of a history observes (status of every operation and
  the outcomes of the sub-operations on a `node.meta` handle).
* `Driver D`: an abstract raw driver (h5py `File`, `IH5Record`, …) whose observable content is a
  raw `Tree` (`view`), with the four write primitives, a patch boundary and a reopen, and the
  laws that say that the writes act on the view exactly like `rawCreate/rawDel/rawMove/rawCopy`
  and that `patch`/`reopen` do not change the view.
* `Drv.*`: the container layer of `Model/Container.lean` re-stated over an arbitrary `Driver`.
  Every definition is a textual copy of the model's do-block where `liftRaw fun t => rawX t …`
  became `liftD fun d => drv.x d …` and `let s ← getSt` became `let s ← getView drv` (the state
  with the raw part replaced by its view). All reads of the raw tree therefore go through
  `Driver.view` and all writes through `create/del/move/copy`.
* `RawOp`, `replay`, `plView`, `plWrite`: ingredients of the IH5-like `patchLogDriver`
  (the drivers themselves carry their law proofs and live in `ContainerDrvSim.lean`).
* `CacheCoherentR`, `Congruent`: hypotheses of the up-to version of reopen-unobservability.

Definitions only; imports only the model.
-/
namespace MetadorModel.Container

/-! ## Histories with inserted operations -/

/-- `Ins ins h h'`: `h'` arises from `h` by inserting operations `op` with `ins op = true` at
arbitrary positions -/
inductive Ins (ins : Op → Bool) : List Op → List Op → Prop
  | nil : Ins ins [] []
  | keep (op : Op) {h h' : List Op} : Ins ins h h' → Ins ins (op :: h) (op :: h')
  | skip (op : Op) {h h' : List Op} : ins op = true → Ins ins h h' → Ins ins h (op :: h')

def isPatch : Op → Bool
  | .patch => true
  | _ => false

def isReopen : Op → Bool
  | .reopen => true
  | _ => false

/-! ## Observations -/

/-- what the caller of one operation sees: returned / raised (through the enum `Err`) and, for
operations on a `node.meta` handle, the outcome of every sub-operation -/
structure Obs where
  status : Except Err Unit
  sub : List Outcome

/-- observation of one operation started in state `s`. For `.onMeta p ops` the sub-outcomes are
those of `metaSeqTrace` on the handle opened at `p` (as printed by `lean/Drv/Ctr.lean` for a
`meta` line; no sub-operation runs when the path is refused or the node does not exist) -/
def obs (e : Env) (op : Op) (s : St) : Obs :=
  { status := (step e op s).1
    sub :=
      match op with
      | .onMeta p ops =>
        if isInternal p then []
        else
          match nodeKind s p with
          | none => []
          | some k => (metaSeqTrace e (openHandle s p k) ops s).1
      | _ => [] }

/-- observations of all operations `op` with `ins op = false` along a history (operations with
`ins op = true` are executed but not reported) -/
def outcomes (ins : Op → Bool) (e : Env) : St → List Op → List Obs
  | _, [] => []
  | s, op :: ops =>
    if ins op then outcomes ins e (step e op s).2 ops
    else obs e op s :: outcomes ins e (step e op s).2 ops

/-! ## Reopen points up to a relation -/

/-- reopening the right-hand side keeps the relation (the caches rebuilt from the raw tree are
as good as the ones maintained incrementally) -/
def CacheCoherentR (e : Env) (R : St → St → Prop) : Prop :=
  ∀ s s', R s s' → R s (step e .reopen s').2

/-- related states cannot be told apart by any operation, and stay related -/
def Congruent (e : Env) (R : St → St → Prop) : Prop :=
  ∀ op s s', R s s' → obs e op s = obs e op s' ∧ R (step e op s).2 (step e op s').2

/-! ## Cache equivalence: what survives a reopen -/

/-- same members (Python `set` equality on list-sets) -/
def MemEq {α : Type} (l l' : List α) : Prop := ∀ x, x ∈ l ↔ x ∈ l'

/-- both absent, or both present and related -/
inductive OptRel {α β : Type} (R : α → β → Prop) : Option α → Option β → Prop
  | none : OptRel R none none
  | some {a : α} {b : β} : R a b → OptRel R (some a) (some b)

/-- the caches agree as far as any operation can tell: dictionaries extensionally (order of
insertion ignored), sets by membership, and the `used` table only for packages that currently
provide some schema (stale entries `(pkg, [])` of packages that provide nothing are ignored) -/
structure CachesEqv (c c' : Caches) : Prop where
  tocPath : ∀ k, alGet c.tocPath k = alGet c'.tocPath k
  parents : ∀ k, alGet c.parents k = alGet c'.parents k
  pkginfos : ∀ k, alGet c.pkginfos k = alGet c'.pkginfos k
  providers : ∀ k, alGet c.providers k = alGet c'.providers k
  schemas : ∀ r, r ∈ c.schemas ↔ r ∈ c'.schemas
  children : ∀ r, OptRel MemEq (alGet c.children r) (alGet c'.children r)
  used : ∀ r pk, pk ∈ (alGet c.providers r).getD [] →
    OptRel MemEq (alGet c.used pk) (alGet c'.used pk)

/-- same raw tree, same uuid counter, equivalent caches -/
def ObsEq (s s' : St) : Prop := s.raw = s'.raw ∧ s.next = s'.next ∧ CachesEqv s.c s'.c

/-- reachable from a fresh container -/
def Reachable (e : Env) (s : St) : Prop := ∃ h, s = run e initSt h

/-- the caches rebuilt from the raw tree are equivalent to the incrementally maintained ones,
in every reachable state (a consequence of the container invariant of C06) -/
def CacheCoherent (e : Env) : Prop := ∀ s, Reachable e s → CachesEqv (reload s.raw) s.c

/-- reachable from a fresh container by a history whose operations all satisfy `P` -/
def ReachableP (P : Op → Prop) (e : Env) (s : St) : Prop := ∃ h, (∀ op ∈ h, P op) ∧ s = run e initSt h

/-- `CacheCoherent` restricted to histories over operations satisfying `P` -/
def CacheCoherentOn (P : Op → Prop) (e : Env) : Prop :=
  ∀ s, ReachableP P e s → CachesEqv (reload s.raw) s.c

/-! ## Abstract raw driver -/

/-- An abstract raw driver with state space `D`. `view` is the raw tree a reader sees
(for IH5: the overlay of all patch containers). Errors are compared through the model's small
enum `Err` (the harness maps exceptions of h5py/IH5 into the same enum). -/
structure Driver (D : Type) where
  view : D → Tree
  create : D → Path → Node → Except Err D
  del : D → Path → Except Err D
  move : D → Path → Path → Except Err D
  copy : D → Path → Path → Except Err D
  /-- patch boundary (`commit_patch(); create_patch()`) -/
  patch : D → D
  /-- close and open again -/
  reopen : D → D
  create_view : ∀ d p n, (create d p n).map view = rawCreate (view d) p n
  del_view : ∀ d p, (del d p).map view = rawDel (view d) p
  move_view : ∀ d a b, (move d a b).map view = rawMove (view d) a b
  copy_view : ∀ d a b, (copy d a b).map view = rawCopy (view d) a b
  patch_view : ∀ d, view (patch d) = view d
  reopen_view : ∀ d, view (reopen d) = view d

/-- container state over a driver -/
structure StD (D : Type) where
  raw : D
  c : Caches
  next : Nat

/-- the model state a driver state stands for -/
def viewSt {D : Type} (drv : Driver D) (sD : StD D) : St := ⟨drv.view sD.raw, sD.c, sD.next⟩

/-- state-and-exception monad over a driver state (state kept on error, like `M`) -/
def MD (D : Type) (α : Type) := StD D → Except Err α × StD D

@[inline] def MD.pure {D α} (a : α) : MD D α := fun s => (.ok a, s)
@[inline] def MD.bind {D α β} (m : MD D α) (f : α → MD D β) : MD D β := fun s =>
  match m s with
  | (.ok a, s') => f a s'
  | (.error e, s') => (.error e, s')
instance {D : Type} : Monad (MD D) where
  pure := MD.pure
  bind := MD.bind

/-! ## The container layer over a driver (textual copy of `Model/Container.lean`) -/

namespace Drv
variable {D : Type} (drv : Driver D)

def raise {α} (e : Err) : MD D α := fun s => (.error e, s)
/-- the only way the container layer reads its state: the raw part through `Driver.view` -/
def getView : MD D St := fun s => (.ok (viewSt drv s), s)
def modC (f : Caches → Caches) : MD D Unit := fun s => (.ok (), { s with c := f s.c })
/-- the only way the container layer writes the raw part: a driver primitive -/
def liftD (f : D → Except Err D) : MD D Unit := fun s =>
  match f s.raw with
  | .ok d => (.ok (), { s with raw := d })
  | .error e => (.error e, s)
def ofOpt {α} (e : Err) : Option α → MD D α
  | some a => pure a
  | none => raise e

def forEachM {α} (l : List α) (f : α → MD D Unit) : MD D Unit :=
  match l with
  | [] => pure ()
  | a :: t => do f a; forEachM t f

/-! ### TOCPackages -/

def pkgRegister (pkg : PkgId) (plugins : List SRef) : MD D Unit := do
  liftD fun d => drv.create d (pkgPath pkg) (.ds (.pkginfo pkg plugins))
  modC fun c => { c with pkginfos := alSet c.pkginfos pkg plugins,
                         providers := addProviders c.providers pkg plugins }

def pkgUnregister (pkg : PkgId) : MD D Unit := do
  liftD fun d => drv.del d (pkgPath pkg)
  let s ← getView drv
  let info ← ofOpt .key (alGet s.c.pkginfos pkg)
  modC fun c => { c with pkginfos := alErase c.pkginfos pkg }
  let s ← getView drv
  match removeProviders s.c.providers pkg info with
  | .error e => raise e
  | .ok prov =>
    modC fun c => { c with providers := prov }
    let s ← getView drv
    if (children s.raw packagesP).isEmpty then liftD fun d => drv.del d packagesP

/-! ### TOCSchemas -/

def schemaRegister (e : Env) (ref : SRef) : MD D Unit := do
  let s ← getView drv
  if ref ∈ s.c.schemas then return ()
  let info ← ofOpt .other (e.info ref)
  liftD fun d => drv.create d (schemaDir ref ++ [.jsonschema]) (.ds (.jsonschema ref))
  liftD fun d => drv.create d (schemaDir ref ++ [.compat]) (.ds (.compat info.parents))
  modC fun c =>
    let (par, chi) := upcAdd ref c.parents c.children [] info.parents
    { c with schemas := setAdd c.schemas ref, parents := par, children := chi }
  let s ← getView drv
  if ((alGet s.c.providers ref).getD []).isEmpty then
    pkgRegister drv info.pkg (e.pkgPlugins info.pkg)
    modC fun c => { c with used := alSet c.used info.pkg [] }
  let s ← getView drv
  let provs ← ofOpt .key (alGet s.c.providers ref)
  forEachM provs fun pkg => do
    let s ← getView drv
    let cur ← ofOpt .key (alGet s.c.used pkg)
    modC fun c => { c with used := alSet c.used pkg (setAdd cur ref) }

def schemaUnregister (ref : SRef) : MD D Unit := do
  liftD fun d => drv.del d (schemaDir ref)
  let s ← getView drv
  if ref ∉ s.c.schemas then raise .key
  modC fun c => { c with schemas := setRemove c.schemas ref }
  let s ← getView drv
  let ps ← ofOpt .key (alGet s.c.parents ref)
  match upcRemove ref s.c.schemas s.c.parents s.c.children ps with
  | .error e => raise e
  | .ok (par, chi) =>
    modC fun c => { c with parents := par, children := chi }
    let s ← getView drv
    let provs ← ofOpt .key (alGet s.c.providers ref)
    forEachM provs fun pkg => do
      let s ← getView drv
      let cur ← ofOpt .key (alGet s.c.used pkg)
      let cur' := setRemove cur ref
      modC fun c => { c with used := alSet c.used pkg cur' }
      if cur'.isEmpty then pkgUnregister drv pkg
    let s ← getView drv
    if (children s.raw schemasP).isEmpty then liftD fun d => drv.del d schemasP

/-! ### TOCLinks -/

def freshUuid : MD D Nat := fun s => (.ok s.next, { s with next := s.next + 1 })

def linkRegister (e : Env) (ref : SRef) (u : Nat) (objPath : Path) : MD D Unit := do
  schemaRegister drv e ref
  let tp := linkPath ref u
  modC fun c => { c with tocPath := alSet c.tocPath u tp }
  liftD fun d => drv.create d tp (.ds (.target objPath))

def linkUnregister (u : Nat) : MD D Unit := do
  let s ← getView drv
  let tp ← ofOpt .key (alGet s.c.tocPath u)
  if !has s.raw tp then raise .key
  let schemaGroup := tp.dropLast
  let linkGroup := schemaGroup.dropLast
  if linkGroup ≠ linksP then raise .other
  liftD fun d => drv.del d tp
  modC fun c => { c with tocPath := alErase c.tocPath u }
  let s ← getView drv
  if !(children s.raw schemaGroup).isEmpty then return ()
  match schemaGroup.getLast? with
  | some (.ep ref) =>
    liftD fun d => drv.del d schemaGroup
    schemaUnregister drv ref
    let s ← getView drv
    if !(children s.raw linkGroup).isEmpty then return ()
    liftD fun d => drv.del d linkGroup
  | _ => raise .other

def linkUpdate (u : Nat) (newTarget : Path) : MD D Unit := do
  let s ← getView drv
  let tp ← ofOpt .key (alGet s.c.tocPath u)
  liftD fun d => drv.del d tp
  liftD fun d => drv.create d tp (.ds (.target newTarget))

def repairMissing (e : Env) (missing : List Path) (update : Bool) : MD D Unit :=
  forEachM missing fun p => do
    match objOfPath p with
    | none => raise .value
    | some (r, u) =>
      let s ← getView drv
      if update && (alGet s.c.tocPath u).isSome then
        linkUpdate drv u p
      else
        let u' ← freshUuid
        let newPath := p.dropLast ++ [.obj r u']
        liftD fun d => drv.move d p newPath
        linkRegister drv e r u' newPath

/-! ### MetadorMeta -/

def Handle.setRaw (e : Env) (h : Handle) (ref : SRef) (tok : String) : MD D Handle := do
  let u ← freshUuid
  let objPath := h.baseDir ++ [.obj ref u]
  liftD fun d => drv.create d objPath (.ds (.data tok))
  let h' : Handle := { h with objs := alSet h.objs ref.name ⟨u, ref, objPath⟩ }
  linkRegister drv e ref u objPath
  return h'

def Handle.delRaw (h : Handle) (name : String) (unlink : Bool) : MD D Handle := do
  let st ← ofOpt .key (alGet h.objs name)
  if unlink then linkUnregister drv st.uuid
  let h' : Handle := { h with objs := alErase h.objs st.schema.name }
  liftD fun d => drv.del d st.path
  if h'.objs.isEmpty then liftD fun d => drv.del d h.baseDir
  return h'

def Handle.set (e : Env) (h : Handle) (name : String) (ver : Option Ver) (valid : Bool) (tok : String) :
    MD D Handle := do
  if (h.getRaw name none).isSome then raise .value
  match e.requireSchema name ver with
  | .error err => raise err
  | .ok info =>
    if !valid then raise .validation
    Handle.setRaw drv e h info.ref tok

def Handle.del (h : Handle) (name : String) : MD D Handle := do
  if (h.getRaw name none).isNone then raise .key
  Handle.delRaw drv h name true

def Handle.destroy (h : Handle) (unlink : Bool) : MD D Unit :=
  let rec go (h : Handle) : List String → MD D Unit
    | [] => pure ()
    | n :: ns => do
      let h' ← Handle.delRaw drv h n unlink
      go h' ns
  go h (h.objs.map (·.1))

/-! ### Nodes -/

def guardPath (p : Path) : MD D Unit := if isInternal p then raise .value else pure ()

def destroyMeta (p : Path) (isDs : Bool) (unlink : Bool) : MD D Unit := do
  let s ← getView drv
  Handle.destroy drv (openHandle s p isDs) unlink
  if !isDs then
    forEachM (userNodesFrom s.raw p) fun (q, d) => do
      let s ← getView drv
      Handle.destroy drv (openHandle s q d) unlink

def opCreateGroup (p : Path) : MD D Unit := do
  guardPath p
  liftD fun d => drv.create d p .grp

def opCreateDataset (p : Path) (tok : String) : MD D Unit := do
  guardPath p
  liftD fun d => drv.create d p (.ds (.data tok))

def opDelete (p : Path) : MD D Unit := do
  guardPath p
  let s ← getView drv
  let k ← ofOpt .key (nodeKind s p)
  destroyMeta drv p k true
  liftD fun d => drv.del d p

def opMove (e : Env) (src dst : Path) : MD D Unit := do
  guardPath src
  guardPath dst
  let s ← getView drv
  let k ← ofOpt .key (nodeKind s src)
  let srcMeta := metaBase src k
  liftD fun d => drv.move d src dst
  let s ← getView drv
  let dk ← ofOpt .key (nodeKind s dst)
  let metaBaseP ← (do
    if dk then
      let dstMeta := metaBase dst true
      let s ← getView drv
      if has s.raw srcMeta then liftD fun d => drv.move d srcMeta dstMeta
      pure dstMeta
    else pure dst : MD D Path)
  let s ← getView drv
  if has s.raw metaBaseP then
    match findMissing s metaBaseP with
    | .error err => raise err
    | .ok missing => repairMissing drv e missing true

def opCopy (e : Env) (src dst : Path) (withoutMeta : Bool) : MD D Unit := do
  guardPath src
  let s ← getView drv
  let k ← ofOpt .key (nodeKind s src)
  guardPath dst
  liftD fun d => drv.copy d src dst
  let s ← getView drv
  let _ ← ofOpt .key (nodeKind s dst)
  if k && !withoutMeta then
    let srcMeta := metaBase src true
    let dstMeta := metaBase dst true
    liftD fun d => drv.copy d srcMeta dstMeta
    let s ← getView drv
    match findMissing s dstMeta with
    | .error err => raise err
    | .ok missing => repairMissing drv e missing false
  if !k then
    if withoutMeta then destroyMeta drv dst false false
    else
      let s ← getView drv
      match findMissing s dst with
      | .error err => raise err
      | .ok missing => repairMissing drv e missing false

/-- reopen: the driver is closed and opened again, the caches are rebuilt from what it shows -/
def opReopen : MD D Unit := fun s =>
  let d := drv.reopen s.raw
  (.ok (), { s with raw := d, c := reload (drv.view d) })

/-- patch boundary: only the driver notices -/
def opPatch : MD D Unit := fun s => (.ok (), { s with raw := drv.patch s.raw })

/-! ### Operations and histories -/

def metaStep (e : Env) (h : Handle) (o : MetaOp) (s : StD D) : (Outcome × Handle) × StD D :=
  match o with
  | .set n v ok tok =>
    match Handle.set drv e h n v ok tok s with
    | (.ok h', s') => ((.done, h'), s')
    | (.error err, s') => ((.raised err, h), s')
  | .del n =>
    match Handle.del drv h n s with
    | (.ok h', s') => ((.done, h'), s')
    | (.error err, s') => ((.raised err, h), s')
  | .get n v =>
    match h.get e (viewSt drv s) n v with
    | .ok r => ((.found r.isSome, h), s)
    | .error err => ((.raised err, h), s)

def metaSeqTrace (e : Env) : Handle → List MetaOp → StD D → List Outcome × StD D
  | _, [], s => ([], s)
  | h, o :: os, s =>
    match metaStep drv e h o s with
    | ((out, h'), s') =>
      let r := metaSeqTrace e h' os s'
      (out :: r.1, r.2)

def metaSeq (e : Env) (h : Handle) (ops : List MetaOp) : MD D Unit := fun s =>
  (.ok (), (metaSeqTrace drv e h ops s).2)

def opMeta (e : Env) (p : Path) (ops : List MetaOp) : MD D Unit := do
  guardPath p
  let s ← getView drv
  let k ← ofOpt .key (nodeKind s p)
  metaSeq drv e (openHandle s p k) ops

def step (e : Env) (op : Op) : MD D Unit :=
  match op with
  | .createGroup p => opCreateGroup drv p
  | .createDataset p tok => opCreateDataset drv p tok
  | .onMeta p ops => opMeta drv e p ops
  | .delete p => opDelete drv p
  | .copy src dst wm => opCopy drv e src dst wm
  | .move src dst => opMove drv e src dst
  | .reopen => opReopen drv
  | .patch => opPatch drv

def run (e : Env) (s : StD D) : List Op → StD D
  | [] => s
  | op :: ops => run e (step drv e op s).2 ops

def obs (e : Env) (op : Op) (s : StD D) : Obs :=
  { status := (step drv e op s).1
    sub :=
      match op with
      | .onMeta p ops =>
        if isInternal p then []
        else
          match nodeKind (viewSt drv s) p with
          | none => []
          | some k => (metaSeqTrace drv e (openHandle (viewSt drv s) p k) ops s).1
      | _ => [] }

def outcomes (ins : Op → Bool) (e : Env) : StD D → List Op → List Obs
  | _, [] => []
  | s, op :: ops =>
    if ins op then outcomes ins e (step drv e op s).2 ops
    else obs drv e op s :: outcomes ins e (step drv e op s).2 ops

end Drv

/-! ## Two concrete drivers -/

/-- one successful raw write, as logged in a patch container -/
inductive RawOp where
  | create (p : Path) (n : Node)
  | del (p : Path)
  | move (a b : Path)
  | copy (a b : Path)
deriving Repr, Inhabited

def RawOp.apply (t : Tree) : RawOp → Except Err Tree
  | .create p n => rawCreate t p n
  | .del p => rawDel t p
  | .move a b => rawMove t a b
  | .copy a b => rawCopy t a b

/-- replay of a log (an operation that fails is skipped; logs only contain successful ones) -/
def replay (t : Tree) : List RawOp → Tree
  | [] => t
  | op :: ops =>
    match op.apply t with
    | .ok t' => replay t' ops
    | .error _ => replay t ops

/-- the overlay of a list of patch containers: all logs replayed in order over the empty tree -/
def plView (d : List (List RawOp)) : Tree := replay [] d.flatten

/-- append to the most recent patch container -/
def appendLast : List (List RawOp) → RawOp → List (List RawOp)
  | [], op => [[op]]
  | [l], op => [l ++ [op]]
  | l :: l' :: ls, op => l :: appendLast (l' :: ls) op

/-- a write goes to the most recent container iff it succeeds on the overlay -/
def plWrite (d : List (List RawOp)) (op : RawOp) : Except Err (List (List RawOp)) :=
  match op.apply (plView d) with
  | .ok _ => .ok (appendLast d op)
  | .error e => .error e

end MetadorModel.Container
