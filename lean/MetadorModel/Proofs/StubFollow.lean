import MetadorModel.Proofs.MergeFollow
/-!
# The existence-based write paths only look at the skeleton of the older containers (C10)

`create_group`, `create_dataset`, `__delitem__`, `attrs[k] = v`, `del attrs[k]` of
`ih5/overlay.py` consult the record only through

* `o.base`        — is the newest container the base container (`older.isEmpty`);
* `o.shape q`     — the *outcome* of `_node_seq` at a path: found / deepest existing prefix and the
                    missing rest / "inside a value" (never the creation index or the node);
* `o.attrHit q k` — is attribute `k` visible at `q`, and if so, does its newest sighting lie in
                    the newest container (`del attrs[k]` removes it there for real);

and otherwise only read and write the newest container. `T.*` are the write paths written as
functions of these observations and of the newest container alone; `*_top` are the (hypothesis
free) refactoring lemmas `W.f (p :: r) … = (T.f (obsOf p r) p …).map (· :: r)`.

`obsOf_congr`: two records with the same skeleton (`SameSkel`) under the same newest container
(which satisfies the invariant on top of both) give the same observations.
-/
namespace MetadorModel.Follow
open MetadorModel.Tree MetadorModel.Overlay MetadorModel.Merge

variable {V : Type}

/-! ## the outcome of `_node_seq` as a function of the visible skeleton -/

inductive Shape where
  | found
  | part (pre rest : Path)
  | inside
deriving DecidableEq, Repr

def lookShape : Look V → Shape
  | .found _ _ => .found
  | .part pre rest => .part pre rest
  | .insideValue => .inside

/-- the walk of `_node_seq` on a skeleton `t` (`some true` = group, `some false` = dataset) -/
def shapeFrom (t : Path → Option Bool) : Path → Path → Shape
  | _, [] => .found
  | pre, k :: rest =>
    if t pre = some true then
      match t (pre ++ [k]) with
      | none => .part pre (k :: rest)
      | some _ => shapeFrom t (pre ++ [k]) rest
    else .inside

def tagView (r : Rec V) (q : Path) : Option Bool := (viewKind r q).map kindTag

theorem tag_of_found (r : Rec V) (q : Path) (c : Nat) (n : RNode V) (h : look r q = .found c n) :
    tagView r q = some n.kind.isGroup := by
  have hnd := (look_found_props r q c n h).2
  unfold tagView
  rw [(viewKind_of_found r q c n h).1]
  cases hk : n.kind <;> simp_all [plainKind, kindTag, RKind.isGroup, RKind.isDel]

theorem lookFrom_shape (r : Rec V) (rest : Path) : ∀ (pre : Path) (c : Nat) (cur : RNode V),
    look r pre = .found c cur →
    lookShape (lookFrom r pre c cur rest) = shapeFrom (tagView r) pre rest := by
  induction rest with
  | nil => intro pre c cur _; rfl
  | cons k rest ih =>
    intro pre c cur hl
    have htag := tag_of_found r pre c cur hl
    have happ : look r (pre ++ [k]) = lookFrom r pre c cur [k] := by
      rw [look_append, hl]
    simp only [lookFrom, shapeFrom, htag]
    by_cases hg : cur.kind.isGroup = true
    · simp only [hg, ↓reduceIte]
      simp only [lookFrom, hg, ↓reduceIte] at happ
      cases hc : child r (pre ++ [k]) c with
      | none =>
        rw [hc] at happ
        have : tagView r (pre ++ [k]) = none := by
          unfold tagView viewKind; rw [happ]; rfl
        simp [this, lookShape]
      | some x =>
        obtain ⟨i, n⟩ := x
        rw [hc] at happ
        have : tagView r (pre ++ [k]) = some n.kind.isGroup := tag_of_found r _ i n happ
        simp only [this]
        exact ih (pre ++ [k]) i n happ
    · simp [hg, lookShape]

theorem look_shape (r : Rec V) (q : Path) : lookShape (look r q) = shapeFrom (tagView r) [] q :=
  lookFrom_shape r q [] 0 vnode rfl

/-- records with the same skeleton resolve every path with the same outcome -/
theorem shape_congr (r₁ r₂ : Rec V) (h : SameSkel r₁ r₂) (q : Path) :
    lookShape (look r₁ q) = lookShape (look r₂ q) := by
  rw [look_shape, look_shape]
  have : tagView r₁ = tagView r₂ := funext fun x => (h x).1
  rw [this]

/-! ## what the write paths observe -/

structure Obs where
  base : Bool
  shape : Path → Shape
  attrHit : Path → Key → Option Bool

def obsOf (p : Cont V) (r : Rec V) : Obs where
  base := r.isEmpty
  shape := fun q => lookShape (look (p :: r) q)
  attrHit := fun q k =>
    match look (p :: r) q with
    | .found c _ =>
      match attrFind q k c (p :: r) with
      | some (i, some _) => some (i == r.length)
      | _ => none
    | _ => none

theorem attrFind_idx_lt (q : Path) (k : Key) (c : Nat) (r : Rec V) (i : Nat) (v : Option V)
    (h : attrFind q k c r = some (i, v)) : i < r.length := by
  induction r with
  | nil => simp [attrFind] at h
  | cons p rest ih =>
    simp only [attrFind] at h
    split at h
    · cases h
    · cases hp : aget q p with
      | none =>
        simp only [hp] at h
        have := ih h; simp; omega
      | some n =>
        simp only [hp] at h
        cases hk : aget k n.attrs with
        | none =>
          simp only [hk] at h
          have := ih h; simp; omega
        | some w =>
          simp only [hk, Option.some.injEq, Prod.mk.injEq] at h
          simp; omega

/-- is attribute `k` stored (value or deletion marker) at `q` in the container `p` -/
def attrIn (p : Cont V) (q : Path) (k : Key) : Bool :=
  ((aget q p).bind (fun n => aget k n.attrs)).isSome

/-- closed form of the attribute observation -/
theorem attrHit_eq (p : Cont V) (r : Rec V) (q : Path) (k : Key) :
    (obsOf p r).attrHit q k =
      if (viewAttr (p :: r) q k).isSome then some (attrIn p q k) else none := by
  cases hl : look (p :: r) q with
  | part _ _ => simp [obsOf, viewAttr, hl]
  | insideValue => simp [obsOf, viewAttr, hl]
  | found c n =>
    simp only [obsOf, viewAttr, hl, attrOf]
    by_cases hc : c ≤ r.length
    · rw [attrFind_cons q k c p r hc]
      unfold attrIn
      cases hp : aget q p with
      | none =>
        simp only [Option.bind_none, Option.isSome_none]
        cases hf : attrFind q k c r with
        | none => simp
        | some x =>
          obtain ⟨i, w⟩ := x
          have hi := attrFind_idx_lt q k c r i w hf
          cases w with
          | none => simp
          | some v =>
            have : (i == r.length) = false := by simp; omega
            simp [this]
      | some m =>
        simp only [Option.bind_some]
        cases hk : aget k m.attrs with
        | some w =>
          cases w with
          | none => simp
          | some v => simp
        | none =>
          simp only [Option.isSome_none]
          cases hf : attrFind q k c r with
          | none => simp
          | some x =>
            obtain ⟨i, w⟩ := x
            have hi := attrFind_idx_lt q k c r i w hf
            cases w with
            | none => simp
            | some v =>
              have : (i == r.length) = false := by simp; omega
              simp [this]
    · have : attrFind q k c (p :: r) = none :=
        attrFind_none_of_le q k c (p :: r) (by simp; omega)
      simp [this]

/-- **the observations only depend on the skeleton of the older containers** -/
theorem obsOf_congr (p : Cont V) (r₁ r₂ : Rec V) (hwf : WF p) (h1 : InvLast p r₁) (h2 : InvLast p r₂)
    (hs : SameSkel r₁ r₂) (he : r₁.isEmpty = r₂.isEmpty) : obsOf p r₁ = obsOf p r₂ := by
  have hs' := sameSkel_cons p r₁ r₂ hwf h1 h2 hs
  have hshape : (obsOf p r₁).shape = (obsOf p r₂).shape :=
    funext fun q => shape_congr _ _ hs' q
  have hattr : (obsOf p r₁).attrHit = (obsOf p r₂).attrHit := by
    funext q k
    rw [attrHit_eq, attrHit_eq, (hs' q).2 k]
  have hbase : (obsOf p r₁).base = (obsOf p r₂).base := he
  cases ho1 : obsOf p r₁
  cases ho2 : obsOf p r₂
  rw [ho1, ho2] at hshape hattr hbase
  simp only at hshape hattr hbase
  subst hshape; subst hattr; subst hbase
  rfl

/-! ## the write paths as functions of the observations and the newest container -/

namespace T

def createGroupAt (base : Bool) (top : Cont V) (path : Path) : Except Err (Cont V) := do
  let top1 := if isDelAt top path then removeSub path top else top
  let top2 ← Raw.createGroup top1 path
  if base then pure top2 else Raw.markSubst top2 path

def createGroup (o : Obs) (top : Cont V) (path : Path) : Except Err (Cont V) :=
  match o.shape path with
  | .inside => .error .insideValue
  | .found => .error .exists_
  | .part _ [] => .error .raw
  | .part pre (k :: more) =>
    if more = [] then createGroupAt o.base top path
    else do
      let t1 ← createGroupAt o.base top (pre ++ [k])
      createGroupAt o.base t1 path

def createVirtual (o : Obs) (top : Cont V) (path : Path) : Except Err (Cont V) :=
  match o.shape path with
  | .inside => .error .insideValue
  | .found => .ok top
  | .part _ [] => .error .raw
  | .part pre (k :: more) => do
    let t1 ← createGroup o top (pre ++ [k])
    if more = [] then pure t1 else Raw.createGroup t1 path

def createDataset (o : Obs) (top : Cont V) (path : Path) (v : V) : Except Err (Cont V) :=
  match o.shape path with
  | .inside => .error .insideValue
  | .found => .error .exists_
  | .part _ _ => do
    let t1 ← (if isDelAt top path then pure (removeSub path top)
      else if (aget path top).isNone then do
        let t' ← createVirtual o top path
        if (aget path t').isNone then .error .raw else pure (removeSub path t')
      else pure top)
    Raw.createNode t1 path ⟨.data v, []⟩

def delete (o : Obs) (top : Cont V) (path : Path) : Except Err (Cont V) :=
  if path = [] then .error .root
  else match o.shape path with
    | .found => do
      let t1 := if (aget path top).isSome then removeSub path top else top
      if o.base then pure t1 else Raw.createNode t1 path ⟨.del, []⟩
    | _ => .error .missing

def setAttrRaw (top : Cont V) (path : Path) (k : Key) (v : Option V) : Except Err (Cont V) := do
  let t1 ← if (aget path top).isNone then Raw.createGroup top path else pure top
  Raw.setAttr t1 path k v

def setAttr (o : Obs) (top : Cont V) (path : Path) (k : Key) (v : V) : Except Err (Cont V) :=
  match o.shape path with
  | .found => setAttrRaw top path k (some v)
  | _ => .error .missing

def delAttr (o : Obs) (top : Cont V) (path : Path) (k : Key) : Except Err (Cont V) :=
  match o.attrHit path k with
  | some inTop => do
    let t1 ← if inTop then Raw.delAttr top path k else pure top
    if o.base then pure t1 else setAttrRaw t1 path k none
  | none => .error .missing

/-- the existence-based operations; everything else is refused here (`copy`/`move` read values,
`patch` adds a container) -/
def step (o : Obs) (top : Cont V) : Op V → Except Err (Cont V)
  | .set p v => createDataset o top p v
  | .grp p => createGroup o top p
  | .del p => delete o top p
  | .sattr p k v => setAttr o top p k v
  | .dattr p k => delAttr o top p k
  | _ => .error .raw

end T

/-- the operations whose effect is determined by which nodes / attributes exist -/
def isEx : Op V → Bool
  | .set _ _ => true
  | .grp _ => true
  | .del _ => true
  | .sattr _ _ _ => true
  | .dattr _ _ => true
  | _ => false

/-- put a new newest container on top of the unchanged older ones -/
def onTop (r : Rec V) (x : Except Err (Cont V)) : Except Err (Rec V) :=
  match x with
  | .ok t => .ok (t :: r)
  | .error e => .error e

theorem createGroupAt_top (p : Cont V) (r : Rec V) (path : Path) :
    W.createGroupAt (p :: r) path = onTop r (T.createGroupAt r.isEmpty p path) := by
  simp only [W.createGroupAt, T.createGroupAt, bind, Except.bind, pure, Except.pure]
  cases Raw.createGroup (if isDelAt p path then removeSub path p else p) path with
  | error e => rfl
  | ok t2 =>
    cases hb : r.isEmpty with
    | true => simp [onTop]
    | false =>
      simp only [Bool.false_eq_true, ↓reduceIte, onTop]
      cases Raw.markSubst t2 path <;> rfl

theorem shape_found {p : Cont V} {r : Rec V} {q : Path} {c : Nat} {n : RNode V}
    (h : look (p :: r) q = .found c n) : (obsOf p r).shape q = .found := by
  simp [obsOf, h, lookShape]

theorem shape_part {p : Cont V} {r : Rec V} {q x y : Path}
    (h : look (p :: r) q = .part x y) : (obsOf p r).shape q = .part x y := by
  simp [obsOf, h, lookShape]

theorem shape_inside {p : Cont V} {r : Rec V} {q : Path}
    (h : look (p :: r) q = .insideValue) : (obsOf p r).shape q = .inside := by
  simp [obsOf, h, lookShape]

theorem obsOf_base (p : Cont V) (r : Rec V) : (obsOf p r).base = r.isEmpty := rfl

theorem createGroup_top (p : Cont V) (r : Rec V) (path : Path) :
    W.createGroup (p :: r) path = onTop r (T.createGroup (obsOf p r) p path) := by
  unfold W.createGroup T.createGroup
  cases hl : look (p :: r) path with
  | insideValue => rw [shape_inside hl]; rfl
  | found c n => rw [shape_found hl]; rfl
  | part pre rest =>
    rw [shape_part hl]
    cases rest with
    | nil => rfl
    | cons k more =>
      simp only
      by_cases hm : more = []
      · simp only [hm, ↓reduceIte]
        exact createGroupAt_top p r _
      · simp only [hm, ↓reduceIte, bind, Except.bind]
        rw [createGroupAt_top]
        simp only [obsOf_base]
        cases T.createGroupAt r.isEmpty p (pre ++ [k]) with
        | error e => rfl
        | ok t1 => simp only [onTop]; exact createGroupAt_top t1 r path

theorem createVirtual_top (p : Cont V) (r : Rec V) (path : Path) :
    W.createVirtual (p :: r) path = onTop r (T.createVirtual (obsOf p r) p path) := by
  unfold W.createVirtual T.createVirtual
  cases hl : look (p :: r) path with
  | insideValue => rw [shape_inside hl]; rfl
  | found c n => rw [shape_found hl]; rfl
  | part pre rest =>
    rw [shape_part hl]
    cases rest with
    | nil => rfl
    | cons k more =>
      simp only [bind, Except.bind]
      rw [createGroup_top]
      cases T.createGroup (obsOf p r) p (pre ++ [k]) with
      | error e => rfl
      | ok t1 =>
        simp only [onTop]
        by_cases hm : more = []
        · simp [hm, pure, Except.pure]
        · simp only [hm, ↓reduceIte]
          cases Raw.createGroup t1 path <;> rfl

theorem createDataset_top (p : Cont V) (r : Rec V) (path : Path) (v : V) :
    W.createDataset (p :: r) path v = onTop r (T.createDataset (obsOf p r) p path v) := by
  cases hl : look (p :: r) path with
  | insideValue => simp only [W.createDataset, T.createDataset, hl, shape_inside hl]; rfl
  | found c n => simp only [W.createDataset, T.createDataset, hl, shape_found hl]; rfl
  | part pre rest =>
    simp only [W.createDataset, T.createDataset, hl, shape_part hl, bind, Except.bind, pure, Except.pure]
    by_cases hd : isDelAt p path = true
    · simp only [hd, ↓reduceIte]
      cases Raw.createNode (removeSub path p) path ⟨.data v, []⟩ <;> rfl
    · simp only [hd, Bool.false_eq_true, ↓reduceIte]
      by_cases hn : (aget path p).isNone = true
      · simp only [hn, ↓reduceIte]
        rw [createVirtual_top]
        cases T.createVirtual (obsOf p r) p path with
        | error e => rfl
        | ok t' =>
          simp only [onTop]
          by_cases hn' : (aget path t').isNone = true
          · simp [hn']
          · simp only [hn', Bool.false_eq_true, ↓reduceIte]
            cases Raw.createNode (removeSub path t') path ⟨.data v, []⟩ <;> rfl
      · simp only [hn, Bool.false_eq_true, ↓reduceIte]
        cases Raw.createNode p path ⟨.data v, []⟩ <;> rfl

theorem delete_top (p : Cont V) (r : Rec V) (path : Path) :
    W.delete (p :: r) path = onTop r (T.delete (obsOf p r) p path) := by
  by_cases h0 : path = []
  · simp [W.delete, T.delete, h0, onTop]
  · cases hl : look (p :: r) path with
    | insideValue => simp only [W.delete, T.delete, h0, ↓reduceIte, hl, shape_inside hl]; rfl
    | part _ _ => simp only [W.delete, T.delete, h0, ↓reduceIte, hl, shape_part hl]; rfl
    | found c n =>
      simp only [W.delete, T.delete, h0, ↓reduceIte, hl, shape_found hl, bind, Except.bind, pure,
        Except.pure, obsOf_base]
      by_cases hb : r.isEmpty = true
      · simp [hb, onTop]
      · simp only [hb, Bool.false_eq_true, ↓reduceIte]
        cases Raw.createNode (if (aget path p).isSome then removeSub path p else p) path ⟨.del, []⟩ <;> rfl

theorem setAttrRaw_top (p : Cont V) (r : Rec V) (path : Path) (k : Key) (v : Option V) :
    W.setAttrRaw (p :: r) path k v = onTop r (T.setAttrRaw p path k v) := by
  simp only [W.setAttrRaw, T.setAttrRaw, bind, Except.bind, pure, Except.pure]
  by_cases hn : (aget path p).isNone = true
  · simp only [hn, ↓reduceIte]
    cases Raw.createGroup p path with
    | error e => rfl
    | ok t1 => simp only [onTop]; cases Raw.setAttr t1 path k v <;> rfl
  · simp only [hn, Bool.false_eq_true, ↓reduceIte, onTop]
    cases Raw.setAttr p path k v <;> rfl

theorem setAttr_top (p : Cont V) (r : Rec V) (path : Path) (k : Key) (v : V) :
    W.setAttr (p :: r) path k v = onTop r (T.setAttr (obsOf p r) p path k v) := by
  unfold W.setAttr T.setAttr
  cases hl : look (p :: r) path with
  | insideValue => rw [shape_inside hl]; rfl
  | part _ _ => rw [shape_part hl]; rfl
  | found c n => rw [shape_found hl]; exact setAttrRaw_top p r path k (some v)

theorem delAttr_top (p : Cont V) (r : Rec V) (path : Path) (k : Key) :
    W.delAttr (p :: r) path k = onTop r (T.delAttr (obsOf p r) p path k) := by
  cases hl : look (p :: r) path with
  | insideValue => simp only [W.delAttr, T.delAttr, obsOf, hl]; rfl
  | part _ _ => simp only [W.delAttr, T.delAttr, obsOf, hl]; rfl
  | found c n =>
    cases hf : attrFind path k c (p :: r) with
    | none => simp only [W.delAttr, T.delAttr, obsOf, hl, hf]; rfl
    | some x =>
      obtain ⟨i, w⟩ := x
      cases w with
      | none => simp only [W.delAttr, T.delAttr, obsOf, hl, hf]; rfl
      | some v =>
        simp only [W.delAttr, T.delAttr, obsOf, hl, hf, bind, Except.bind, pure, Except.pure, beq_iff_eq]
        by_cases hi : i = r.length
        · simp only [hi, ↓reduceIte]
          cases Raw.delAttr p path k with
          | error e => rfl
          | ok t1 =>
            by_cases hb : r.isEmpty = true
            · simp [hb, onTop]
            · simp only [hb, Bool.false_eq_true, ↓reduceIte, onTop]
              exact setAttrRaw_top t1 r path k none
        · simp only [hi, ↓reduceIte]
          by_cases hb : r.isEmpty = true
          · simp [hb, onTop]
          · simp only [hb, Bool.false_eq_true, ↓reduceIte, onTop]
            exact setAttrRaw_top p r path k none

/-- every existence-based operation reads the older containers only through `obsOf` and writes
only the newest container -/
theorem step_top (p : Cont V) (r : Rec V) (op : Op V) (hop : isEx op = true) :
    W.step (p :: r) op = onTop r (T.step (obsOf p r) p op) := by
  cases op with
  | set q v => exact createDataset_top p r q v
  | grp q => exact createGroup_top p r q
  | del q => exact delete_top p r q
  | sattr q k v => exact setAttr_top p r q k v
  | dattr q k => exact delAttr_top p r q k
  | copy _ _ => cases hop
  | move _ _ => cases hop
  | patch => cases hop

/-! ## histories of existence-based operations -/

/-- the record invariant holds before every operation of the history and at its end -/
def InvAlong : Rec V → List (Op V) → Prop
  | r, [] => Inv r
  | r, op :: ops => Inv r ∧
    match W.step r op with
    | .ok r' => InvAlong r' ops
    | .error _ => InvAlong r ops

theorem run_cons_ex (r : Rec V) (op : Op V) (ops : List (Op V)) (hop : isEx op = true) :
    W.run r (op :: ops) = match W.step r op with
      | .ok r' => ((W.run r' ops).1, true :: (W.run r' ops).2)
      | .error _ => ((W.run r ops).1, false :: (W.run r ops).2) := by
  cases op <;> first | (simp only [W.run]; cases W.step r _ <;> rfl) | cases hop

/-- decidable check of `InvAlong` (for the concrete examples) -/
def invAlongB : Rec V → List (Op V) → Bool
  | r, [] => invB r
  | r, op :: ops => invB r &&
    match W.step r op with
    | .ok r' => invAlongB r' ops
    | .error _ => invAlongB r ops

theorem invAlongB_sound : ∀ (ops : List (Op V)) (r : Rec V), invAlongB r ops = true → InvAlong r ops
  | [], r, h => invB_sound r h
  | op :: ops, r, h => by
    simp only [invAlongB, Bool.and_eq_true] at h
    refine ⟨invB_sound r h.1, ?_⟩
    cases hs : W.step r op with
    | ok r' => simp only [hs] at h ⊢; exact invAlongB_sound ops r' h.2
    | error e => simp only [hs] at h ⊢; exact invAlongB_sound ops r h.2

/-- **same history, same patch**: a history of existence-based operations run in one patch
container on top of two records with the same skeleton gives the same outcomes and the same
patch container, and leaves the older containers alone. -/
theorem run_same_patch (r₁ r₂ : Rec V) (hs : SameSkel r₁ r₂) (hm : MentionSub r₁ r₂)
    (he : r₁.isEmpty = r₂.isEmpty) :
    ∀ (ops : List (Op V)) (p : Cont V), (∀ op ∈ ops, isEx op = true) → InvAlong (p :: r₁) ops →
      ∃ p' outs, W.run (p :: r₁) ops = (p' :: r₁, outs) ∧ W.run (p :: r₂) ops = (p' :: r₂, outs) ∧
        Inv (p' :: r₁) ∧ InvLast p' r₂ := by
  intro ops
  induction ops with
  | nil =>
    intro p _ hinv
    exact ⟨p, [], rfl, rfl, hinv, invLast_transfer p r₁ r₂ hs hm hinv.2.1⟩
  | cons op ops ih =>
    intro p hex hinv
    have hop := hex op (by simp)
    obtain ⟨hI, hrest⟩ := hinv
    have hl2 : InvLast p r₂ := invLast_transfer p r₁ r₂ hs hm hI.2.1
    have hobs := obsOf_congr p r₁ r₂ hI.1 hI.2.1 hl2 hs he
    have e1 := step_top p r₁ op hop
    have e2 := step_top p r₂ op hop
    rw [← hobs] at e2
    rw [run_cons_ex _ _ _ hop, run_cons_ex _ _ _ hop, e1, e2]
    rw [e1] at hrest
    cases hres : T.step (obsOf p r₁) p op with
    | ok p1 =>
      simp only [hres, onTop] at hrest ⊢
      obtain ⟨p', outs, h1, h2, h3, h4⟩ := ih p1 (fun o ho => hex o (by simp [ho])) hrest
      exact ⟨p', true :: outs, by rw [h1], by rw [h2], h3, h4⟩
    | error e =>
      simp only [hres, onTop] at hrest ⊢
      obtain ⟨p', outs, h1, h2, h3, h4⟩ := ih p (fun o ho => hex o (by simp [ho])) hrest
      exact ⟨p', false :: outs, by rw [h1], by rw [h2], h3, h4⟩

theorem invOver_snoc (ps : List (Cont V)) (p : Cont V) (r : Rec V) (h : InvOver ps (p :: r))
    (hwf : WF p) (hl : InvLast p r) : InvOver (ps ++ [p]) r := by
  induction ps with
  | nil => exact ⟨hwf, hl, trivial⟩
  | cons a ps ih => exact ⟨h.1, by simpa using h.2.1, ih h.2.2⟩

/-- existence-based operation or patch boundary (`commit_patch; create_patch`) -/
def isExP : Op V → Bool
  | .patch => true
  | op => isEx op

/-- **same history, same patches**: a history of existence-based operations with any number of
patch boundaries, run on top of two records with the same skeleton, gives the same outcomes and
the same list of new patch containers `ps` (newest first), and leaves the older containers
alone. -/
theorem run_same_patches : ∀ (ops : List (Op V)) (r₁ r₂ : Rec V) (p : Cont V),
    SameSkel r₁ r₂ → MentionSub r₁ r₂ → r₁.isEmpty = r₂.isEmpty →
    (∀ op ∈ ops, isExP op = true) → InvAlong (p :: r₁) ops →
      ∃ ps outs, W.run (p :: r₁) ops = (ps ++ r₁, outs) ∧ W.run (p :: r₂) ops = (ps ++ r₂, outs) ∧
        ps ≠ [] ∧ Inv (ps ++ r₁) ∧ InvOver ps r₂ := by
  intro ops
  induction ops with
  | nil =>
    intro r₁ r₂ p hs hm he _ hinv
    exact ⟨[p], [], rfl, rfl, by simp, hinv,
      ⟨hinv.1, invLast_transfer p r₁ r₂ hs hm hinv.2.1, trivial⟩⟩
  | cons op ops ih =>
    intro r₁ r₂ p hs hm he hex hinv
    obtain ⟨hI, hrest⟩ := hinv
    have hl2 : InvLast p r₂ := invLast_transfer p r₁ r₂ hs hm hI.2.1
    by_cases hp : op = .patch
    · subst hp
      have hs' := sameSkel_cons p r₁ r₂ hI.1 hI.2.1 hl2 hs
      have hm' : MentionSub (p :: r₁) (p :: r₂) := mentionSub_append [p] r₁ r₂ hm
      simp only [W.step] at hrest
      obtain ⟨ps, outs, h1, h2, _, h4, h5⟩ := ih (p :: r₁) (p :: r₂) Cont.init hs' hm' rfl
        (fun o ho => hex o (by simp [ho])) hrest
      refine ⟨ps ++ [p], outs, ?_, ?_, by simp, by simpa using h4, ?_⟩
      · simp only [W.run, W.step, newPatch]; rw [h1]; simp
      · simp only [W.run, W.step, newPatch]; rw [h2]; simp
      · exact invOver_snoc ps p r₂ h5 hI.1 hl2
    · have hop : isEx op = true := by
        have := hex op (by simp)
        cases op <;> simp_all [isExP]
      have hobs := obsOf_congr p r₁ r₂ hI.1 hI.2.1 hl2 hs he
      have e1 := step_top p r₁ op hop
      have e2 := step_top p r₂ op hop
      rw [← hobs] at e2
      rw [run_cons_ex _ _ _ hop, run_cons_ex _ _ _ hop, e1, e2]
      rw [e1] at hrest
      cases hres : T.step (obsOf p r₁) p op with
      | ok p1 =>
        simp only [hres, onTop] at hrest ⊢
        obtain ⟨ps, outs, h1, h2, h3, h4, h5⟩ := ih r₁ r₂ p1 hs hm he (fun o ho => hex o (by simp [ho])) hrest
        exact ⟨ps, true :: outs, by rw [h1], by rw [h2], h3, h4, h5⟩
      | error e =>
        simp only [hres, onTop] at hrest ⊢
        obtain ⟨ps, outs, h1, h2, h3, h4, h5⟩ := ih r₁ r₂ p hs hm he (fun o ho => hex o (by simp [ho])) hrest
        exact ⟨ps, false :: outs, by rw [h1], by rw [h2], h3, h4, h5⟩

/-- `InvAlong` is what preservation of the record invariant by the write paths gives -/
theorem invAlong_of_step_inv
    (hstep : ∀ (R R' : Rec V) (op : Op V), isExP op = true → Inv R → W.step R op = .ok R' → Inv R') :
    ∀ (ops : List (Op V)) (R : Rec V), (∀ op ∈ ops, isExP op = true) → Inv R → InvAlong R ops := by
  intro ops
  induction ops with
  | nil => intro R _ h; exact h
  | cons op ops ih =>
    intro R hex h
    refine ⟨h, ?_⟩
    cases hs : W.step R op with
    | ok R' => exact ih R' (fun o ho => hex o (by simp [ho])) (hstep R R' op (hex op (by simp)) h hs)
    | error e => exact ih R (fun o ho => hex o (by simp [ho])) h

/-! ## root attributes of a stub -/

open MetadorModel.Single MetadorModel.Listing in
theorem stub_root_attr (empty : V) (r s : Rec V) (h : Replayable (Overlay.listing r))
    (hs : stubCont empty r = .ok s) (k : Key) :
    viewAttr s [] k = (viewAttr r [] k).map (fun _ => empty) := by
  have hrep := replayable_stub empty (Overlay.listing r) h
  have hroots : rootAttrsOf (stubListing empty (Overlay.listing r)) =
      (rootAttrsOf (Overlay.listing r)).map (fun kv => (kv.1, (fun _ => empty) kv.2)) := by
    rw [rootAttrsOf_eq, rootAttrsOf_eq, stubListing_eq, aget_map_val]
    cases aget [] (Overlay.listing r) with
    | none => rfl
    | some x => simp [emptied]
  have hnd : ((rootAttrsOf (stubListing empty (Overlay.listing r))).map (·.1)).Nodup := by
    rw [hroots]
    simpa [List.map_map, Function.comp_def] using rootAttrs_nodup r
  rw [(materialise_root_attr _ hrep s hs hnd k).1, hroots,
    aget_map_val (fun _ => empty) (rootAttrsOf (Overlay.listing r)) k, root_attr_listing]

end MetadorModel.Follow
