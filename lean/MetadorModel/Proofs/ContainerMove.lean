import MetadorModel.Proofs.ContainerCopy
import MetadorModel.Proofs.ContainerReload
/-!
# `group.move(source, dest)` keeps the invariant
-/
namespace MetadorModel.Container

/-! ### `TOCLinks.update` -/

theorem linkUpdate_run (u : Nat) (pnew : Path) (s : St) (tp : Path) (t1 t2 : Tree)
    (htp : alGet s.c.tocPath u = some tp) (h1 : rawDel s.raw tp = .ok t1)
    (h2 : rawCreate t1 tp (.ds (.target pnew)) = .ok t2) :
    linkUpdate u pnew s = (.ok (), ⟨t2, s.c, s.next⟩) := by
  simp [linkUpdate, htp, run_liftRaw, h1, h2]

/-- re-targeting the link of uuid `u` -/
theorem linkUpdate_spec {e : Env} {L : Path → SRef → Nat → Prop} {s : St} (hk : KeysOK s.raw)
    (hc : TocOK e s L) {p0 : Path} {r : SRef} {u : Nat} (hL : L p0 r u) (pnew : Path) :
    ∃ s', linkUpdate u pnew s = (.ok (), s') ∧
      TocOK e s' (fun q r' u' => (L q r' u' ∧ u' ≠ u) ∨ (q = pnew ∧ r' = r ∧ u' = u)) ∧
      TocStep s s' ∧ s'.c = s.c := by
  obtain ⟨hb, hlnk, hsch⟩ := tocRaw_iff.mp hc.toc
  have htp : alGet s.c.tocPath u = some (linkPath r u) := (hc.lcache u _).mpr ⟨p0, r, hL, rfl⟩
  have hlink : get? s.raw (linkPath r u) = some (.ds (.target p0)) := hlnk.link_some p0 r u hL
  have h1 := rawDel_ok (t := s.raw) (p := linkPath r u) (by simp [linkPath]) (by rw [hlink]; simp)
  set t1 := s.raw.filter (fun e => !under (linkPath r u) e.1) with ht1
  have hleaf : ∀ q, linkPath r u <+: q → q ≠ linkPath r u → get? s.raw q = none := by
    intro q hpre hne
    by_contra hcn
    obtain ⟨b, rfl⟩ := hpre
    have := hb.shape ([.links, .ep r, .link u] ++ b) (by simpa [linkPath] using hcn)
    cases b with
    | nil => simp at hne
    | cons x b => cases this
  have g1 : ∀ q, q ≠ [] → get? t1 q = if q = linkPath r u then none else get? s.raw q := by
    intro q hq
    rw [rawDel_get? h1 q hq]
    by_cases hqe : q = linkPath r u
    · subst hqe; simp [under]
    · rw [if_neg hqe]
      by_cases hu : linkPath r u <+: q
      · rw [under_true_of_prefix hu, hleaf q hu hqe]; simp
      · rw [under_false_of_not_prefix hu]; simp
  -- the groups above the link
  have hex : ∃ p r' u', L p r' u' := ⟨p0, r, u, hL⟩
  have hpar : ∀ q, isMid [] (linkPath r u) q = true → get? s.raw q = some .grp := by
    intro q hm
    simp only [linkPath, isMid, List.nil_append, Bool.or_false, Bool.or_eq_true, beq_iff_eq] at hm
    rcases hm with rfl | rfl | rfl
    · exact hb.root
    · exact hlnk.links.1 hex
    · exact (hlnk.ldir r).1 ⟨p0, u, hL⟩
  obtain ⟨t2, h2⟩ := rawCreate_ok (t := t1) (p := linkPath r u) (n := .ds (.target pnew)) (by simp [linkPath])
    (by rw [g1 _ (by simp [linkPath])]; simp) (by
      intro q v hm
      have hq := isMid_ne_nil hm
      have hne : q ≠ linkPath r u := (isMid_nil_iff.mp hm).2.2
      rw [g1 q hq, if_neg hne, hpar q hm]; exact fun h => by cases h)
  have g2 : ∀ q, q ≠ [] → get? t2 q = if q = linkPath r u then some (.ds (.target pnew)) else get? s.raw q := by
    intro q hq
    rw [rawCreate_get? h2 q hq]
    by_cases hqe : q = linkPath r u
    · simp [hqe]
    · rw [if_neg hqe, if_neg hqe, g1 q hq, if_neg hqe]
      cases hg : get? s.raw q with
      | some x => rfl
      | none =>
        cases hm : isMid [] (linkPath r u) q with
        | false => rfl
        | true => rw [hpar q hm] at hg; cases hg
  have step : TocStep s ⟨t2, s.c, s.next⟩ :=
    (TocStep.of_del h1 (by simp [linkPath]) s.c).trans
      (TocStep.of_create (s := ⟨t1, s.c, s.next⟩) h2 (by simp [linkPath]) s.c)
  let L' := fun q r' u' => (L q r' u' ∧ u' ≠ u) ∨ (q = pnew ∧ r' = r ∧ u' = u)
  have hU : ∀ r', (∃ q u', L' q r' u') ↔ (∃ q u', L q r' u') := by
    intro r'
    constructor
    · rintro ⟨q, u', ⟨h, -⟩ | ⟨-, rfl, rfl⟩⟩
      · exact ⟨q, u', h⟩
      · exact ⟨p0, u', hL⟩
    · rintro ⟨q, u', h⟩
      by_cases hu : u' = u
      · subst hu
        obtain ⟨-, rfl⟩ := hc.luniq q p0 r' r u' h hL
        exact ⟨pnew, u', Or.inr ⟨rfl, rfl, rfl⟩⟩
      · exact ⟨q, u', Or.inl ⟨h, hu⟩⟩
  have hne_link : ∀ r' u', (r', u') ≠ (r, u) → linkPath r' u' ≠ linkPath r u := by
    intro r' u' hne h
    simp only [linkPath, List.cons.injEq, Key.ep.injEq, Key.link.injEq, true_and, and_true] at h
    exact hne (by rw [h.1, h.2])
  refine ⟨⟨t2, s.c, s.next⟩, linkUpdate_run u pnew s _ t1 t2 htp h1 h2, ⟨?_, hc.scache.congr hU, ?_, ?_⟩, step, rfl⟩
  · -- the raw TOC
    refine tocRaw_iff.mpr ⟨?_, ?_, (hsch.frame ?_).congr hU⟩
    · refine ⟨?_, ?_, ?_, ?_⟩
      · rw [g2 _ (by simp [tocP]), if_neg (by simp [tocP, linkPath])]; exact hb.root
      · rw [g2 _ (by simp [versionP]), if_neg (by simp [versionP, linkPath])]; exact hb.ver
      · rw [g2 _ (by simp [uuidP]), if_neg (by simp [uuidP, linkPath])]; exact hb.uid
      · intro rest hne
        rw [g2 _ (by simp)] at hne
        by_cases hq : Key.toc :: rest = linkPath r u
        · simp only [linkPath, List.cons.injEq, true_and] at hq
          rw [hq]; exact .link r u
        · rw [if_neg hq] at hne; exact hb.shape rest hne
    · refine ⟨?_, fun r' => ?_, ?_, ?_⟩
      · refine Holds.intro_some ?_ ⟨pnew, r, u, Or.inr ⟨rfl, rfl, rfl⟩⟩
        rw [g2 _ (by simp [linksP]), if_neg (by simp [linksP, linkPath])]; exact hlnk.links.1 hex
      · refine (hlnk.ldir r').congr ?_ (hU r')
        rw [g2 _ (by simp [linkDir]), if_neg (by simp [linkDir, linkPath])]
      · rintro q r' u' (⟨h, hu⟩ | ⟨rfl, rfl, rfl⟩)
        · rw [g2 _ (by simp [linkPath]), if_neg (hne_link r' u' (by
            intro heq; cases heq; exact hu rfl))]
          exact hlnk.link_some q r' u' h
        · rw [g2 _ (by simp [linkPath]), if_pos rfl]
      · intro r' u' hno
        have hne : (r', u') ≠ (r, u) := by
          rintro heq; cases heq
          exact hno ⟨pnew, Or.inr ⟨rfl, rfl, rfl⟩⟩
        rw [g2 _ (by simp [linkPath]), if_neg (hne_link r' u' hne)]
        refine hlnk.link_none r' u' ?_
        rintro ⟨q, h⟩
        by_cases hu : u' = u
        · subst hu
          obtain ⟨-, rfl⟩ := hc.luniq q p0 r' r u' h hL
          exact hne rfl
        · exact hno ⟨q, Or.inl ⟨h, hu⟩⟩
    · intro q hq
      have hq0 : q ≠ [] := by
        rintro rfl
        rcases hq with h | h <;> simp [schemasP, packagesP] at h
      rw [g2 q hq0, if_neg]
      rintro rfl
      rcases hq with h | h <;> simp [schemasP, packagesP, linkPath] at h
  · -- the link cache (unchanged)
    intro u' tp
    show alGet s.c.tocPath u' = some tp ↔ _
    rw [hc.lcache u' tp]
    constructor
    · rintro ⟨q, r', h, rfl⟩
      by_cases hu : u' = u
      · subst hu
        obtain ⟨-, rfl⟩ := hc.luniq q p0 r' r u' h hL
        exact ⟨pnew, r', Or.inr ⟨rfl, rfl, rfl⟩, rfl⟩
      · exact ⟨q, r', Or.inl ⟨h, hu⟩, rfl⟩
    · rintro ⟨q, r', ⟨h, -⟩ | ⟨-, rfl, rfl⟩, rfl⟩
      · exact ⟨q, r', h, rfl⟩
      · exact ⟨p0, r', hL, rfl⟩
  · intro q q' r1 r2 u' h1' h2'
    rcases h1' with ⟨a1, n1⟩ | ⟨rfl, rfl, rfl⟩ <;> rcases h2' with ⟨a2, n2⟩ | ⟨rfl, rfl, hu2⟩
    · exact hc.luniq q q' r1 r2 u' a1 a2
    · exact absurd hu2 n1
    · exact absurd rfl n2
    · exact ⟨rfl, rfl⟩

/-! ### the loop of `repair_missing(update=True)` -/

/-- link relation after the links of the objects in `todo` have been re-targeted to their paths -/
def Relinked (L : Path → SRef → Nat → Prop) (todo : List Path) (q : Path) (r : SRef) (u : Nat) : Prop :=
  (L q r u ∧ ∀ p ∈ todo, ∀ r', objOfPath p ≠ some (r', u)) ∨ (q ∈ todo ∧ objOfPath q = some (r, u))

theorem repairMove_step_run (e : Env) (p : Path) (r : SRef) (u : Nat) (todo : List Path) (s s1 : St) (tp : Path)
    (ho : objOfPath p = some (r, u)) (htp : alGet s.c.tocPath u = some tp)
    (h1 : linkUpdate u p s = (.ok (), s1)) :
    repairMissing e (p :: todo) true s = repairMissing e todo true s1 := by
  rw [repairMissing_cons]
  simp only [ho, Bool.true_and, htp, Option.isSome_some, if_true, bind, M.bind, run_getSt, h1]

theorem relink_spec {e : Env} : ∀ (todo : List Path) (s : St) (L : Path → SRef → Nat → Prop),
    KeysOK s.raw → TocOK e s L →
    (∀ p ∈ todo, ∃ r u p0, objOfPath p = some (r, u) ∧ L p0 r u) →
    todo.Pairwise (fun p p' => ∀ r u r' u', objOfPath p = some (r, u) → objOfPath p' = some (r', u') → u ≠ u') →
    ∃ s', repairMissing e todo true s = (.ok (), s') ∧ TocOK e s' (Relinked L todo) ∧ TocStep s s' ∧ s'.c = s.c
  | [], s, L, _, hc, _, _ =>
    ⟨s, rfl, hc.congr (fun q r u => by simp [Relinked]), TocStep.refl s, rfl⟩
  | p :: todo, s, L, hk, hc, hall, hdist => by
    obtain ⟨r, u, p0, ho, hL⟩ := hall p (by simp)
    obtain ⟨hd1, hd2⟩ := List.pairwise_cons.mp hdist
    obtain ⟨s1, hrun1, hc1, step1, hcs1⟩ := linkUpdate_spec hk hc hL p
    have htp : alGet s.c.tocPath u = some (linkPath r u) := (hc.lcache u _).mpr ⟨p0, r, hL, rfl⟩
    have hall1 : ∀ p' ∈ todo, ∃ r' u' p0', objOfPath p' = some (r', u') ∧
        ((L p0' r' u' ∧ u' ≠ u) ∨ (p0' = p ∧ r' = r ∧ u' = u)) := by
      intro p' hp'
      obtain ⟨r', u', p0', ho', hL'⟩ := hall p' (List.mem_cons_of_mem _ hp')
      exact ⟨r', u', p0', ho', Or.inl ⟨hL', fun h => hd1 p' hp' r u r' u' ho ho' h.symm⟩⟩
    obtain ⟨s', hrun', hc', step', hcs'⟩ := relink_spec todo s1 _ (step1.keys hk) hc1 hall1 hd2
    refine ⟨s', by rw [repairMove_step_run e p r u todo s s1 _ ho htp hrun1]; exact hrun', hc'.congr ?_,
      step1.trans step', hcs'.trans hcs1⟩
    intro q r' u'
    simp only [Relinked, List.mem_cons, forall_eq_or_imp]
    constructor
    · rintro (⟨hLq, hnp, hnt⟩ | ⟨rfl | hq, hoq⟩)
      · exact Or.inl ⟨Or.inl ⟨hLq, fun h => hnp r (h ▸ ho)⟩, hnt⟩
      · rw [ho] at hoq; cases hoq
        exact Or.inl ⟨Or.inr ⟨rfl, rfl, rfl⟩, fun p' hp' r'' h => hd1 p' hp' r u r'' u ho h rfl⟩
      · exact Or.inr ⟨hq, hoq⟩
    · rintro (⟨⟨hLq, hu⟩ | ⟨rfl, rfl, rfl⟩, hnt⟩ | ⟨hq, hoq⟩)
      · refine Or.inl ⟨hLq, ?_, hnt⟩
        intro r'' h
        rw [ho] at h; cases h; exact hu rfl
      · exact Or.inr ⟨Or.inl rfl, ho⟩
      · exact Or.inr ⟨Or.inr hq, hoq⟩

/-- after the tree has been re-rooted (`S ↦ D`): `find_missing(D)` + `repair_missing(update=True)`
re-establish the invariant -/
theorem move_finish {e : Env} {s : St} (hi : Inv e s) {t2 : Tree} {S D : Path} (ht2 : TreeOK e t2)
    (htoc : ∀ q, q.head? = some .toc → get? t2 q = get? s.raw q)
    (hD0 : D ≠ []) (hDt : D.head? ≠ some .toc) (hDobj : ∀ r u, ¬ ObjAt t2 D r u)
    (hfreeD : ∀ q r u, ObjAt s.raw q r u → ¬ D <+: q)
    (hobj : ∀ p r u, ObjAt t2 p r u ↔ ((D <+: p ∧ ObjAt s.raw (S ++ p.drop D.length) r u) ∨
      (¬ D <+: p ∧ ¬ S <+: p ∧ ObjAt s.raw p r u))) :
    ∃ missing s', findMissing ⟨t2, s.c, s.next⟩ D = .ok missing ∧
      repairMissing e missing true ⟨t2, s.c, s.next⟩ = (.ok (), s') ∧ Inv e s' ∧
      (∀ q, q.head? ≠ some .toc → get? s'.raw q = get? t2 q) := by
  have hc2 : TocOK e ⟨t2, s.c, s.next⟩ (ObjAt s.raw) :=
    ⟨hi.toc.frame htoc, hi.scache, hi.lcache, fun p p' r r' u => hi.mok.uniq p p' r r' u⟩
  have hmiss : findMissing ⟨t2, s.c, s.next⟩ D = .ok (objsBelow t2 D) := by
    refine findMissing_all (s := ⟨t2, s.c, s.next⟩) ht2 hc2 hD0 hDt ?_
    rintro q r u ho hpre p0 r0 hL rfl
    exact hfreeD p0 r0 u hL hpre
  have hmem : ∀ q, q ∈ objsBelow t2 D ↔ ((∃ r u, ObjAt t2 q r u) ∧ D <+: q) := by
    intro q
    rw [mem_objsBelow ht2 hD0 hDt]
    constructor
    · rintro ⟨h1, h2, -⟩; exact ⟨h1, h2⟩
    · rintro ⟨⟨r, u, h1⟩, h2⟩
      exact ⟨⟨r, u, h1⟩, h2, by rintro rfl; exact hDobj r u h1⟩
  have hoo : ∀ q r u, ObjAt t2 q r u → objOfPath q = some (r, u) := by
    rintro q r u ⟨b, m, -, rfl, -⟩; exact objOfPath_obj b m r u
  -- the old path of a moved object
  have hold : ∀ q r u, ObjAt t2 q r u → D <+: q → ObjAt s.raw (S ++ q.drop D.length) r u := by
    intro q r u ho hpre
    rcases (hobj q r u).mp ho with ⟨-, h⟩ | ⟨h, -⟩
    · exact h
    · exact absurd hpre h
  obtain ⟨s', hrun', hc', step', hcs'⟩ := relink_spec (e := e) (objsBelow t2 D) ⟨t2, s.c, s.next⟩ (ObjAt s.raw)
    ht2.keys hc2
    (by
      intro p hp
      obtain ⟨⟨r, u, ho⟩, hpre⟩ := (hmem p).mp hp
      exact ⟨r, u, _, hoo p r u ho, hold p r u ho hpre⟩)
    (by
      refine List.Nodup.pairwise_of_forall_ne (objsBelow_nodup ht2.keys D) ?_
      intro p hp p' hp' hne r u r' u' ho ho' hu
      subst hu
      obtain ⟨⟨r1, u1, h1⟩, hpre⟩ := (hmem p).mp hp
      obtain ⟨⟨r2, u2, h2⟩, hpre'⟩ := (hmem p').mp hp'
      rw [hoo p r1 u1 h1] at ho; cases ho
      rw [hoo p' r2 u2 h2] at ho'; cases ho'
      have := (hi.mok.uniq _ _ _ _ _ (hold p r u h1 hpre) (hold p' r' u h2 hpre')).1
      obtain ⟨c, rfl⟩ := hpre
      obtain ⟨c', rfl⟩ := hpre'
      simp only [drop_append_self] at this
      exact hne (by rw [List.append_cancel_left this]))
  refine ⟨_, s', hmiss, hrun', ?_, step'.frame⟩
  have hobj' : ∀ q r u, ObjAt s'.raw q r u ↔ ObjAt t2 q r u := ObjAt.congr step'.frame
  have hL' : ∀ q r u, ObjAt s'.raw q r u ↔ Relinked (ObjAt s.raw) (objsBelow t2 D) q r u := by
    intro q r u
    rw [hobj']
    constructor
    · intro ho
      by_cases hpre : D <+: q
      · exact Or.inr ⟨(hmem q).mpr ⟨⟨r, u, ho⟩, hpre⟩, hoo q r u ho⟩
      · rcases (hobj q r u).mp ho with ⟨h, -⟩ | ⟨-, hns, h⟩
        · exact absurd h hpre
        · refine Or.inl ⟨h, ?_⟩
          intro p hp r' hop
          obtain ⟨⟨r1, u1, h1⟩, hpre1⟩ := (hmem p).mp hp
          rw [hoo p r1 u1 h1] at hop; cases hop
          have := (hi.mok.uniq _ _ _ _ _ (hold p r' u h1 hpre1) h).1
          exact hns (this ▸ List.prefix_append _ _)
    · rintro (⟨h, hno⟩ | ⟨hq, hoq⟩)
      · have hnd : ¬ D <+: q := hfreeD q r u h
        refine (hobj q r u).mpr (Or.inr ⟨hnd, ?_, h⟩)
        intro hs
        obtain ⟨c, rfl⟩ := hs
        -- the moved copy of this object would be in the list
        have hmoved : ObjAt t2 (D ++ c) r u := (hobj _ r u).mpr (Or.inl ⟨List.prefix_append _ _, by
          rw [drop_append_self]; exact h⟩)
        exact hno (D ++ c) ((hmem _).mpr ⟨⟨r, u, hmoved⟩, List.prefix_append _ _⟩) r (hoo _ r u hmoved)
      · obtain ⟨⟨r1, u1, h1⟩, -⟩ := (hmem q).mp hq
        rw [hoo q r1 u1 h1] at hoq; cases hoq
        exact h1
  have hU' : ∀ r, (∃ q u, ObjAt s'.raw q r u) ↔ (∃ q u, Relinked (ObjAt s.raw) (objsBelow t2 D) q r u) := fun r =>
    ⟨fun ⟨q, u, h⟩ => ⟨q, u, (hL' _ _ _).mp h⟩, fun ⟨q, u, h⟩ => ⟨q, u, (hL' _ _ _).mpr h⟩⟩
  refine inv_of_parts (treeOK_of_frame ht2 (step'.keys ht2.keys) (step'.pclosed ht2.pclosed) step'.frame)
    (hc'.congr hL') ?_
  intro q r u ho
  rw [step'.next]
  show u < s.next
  rcases (hobj q r u).mp ((hobj' _ _ _).mp ho) with ⟨-, h⟩ | ⟨-, -, h⟩
  · exact hi.mok.bound _ r u h
  · exact hi.mok.bound _ r u h

/-! ### assembling `move` -/

/-- What `move` leaves behind: the invariant; nothing outside the moved node (and, for a dataset,
its metadata directory) is touched; and if the operation succeeded the node with everything below
it (for a dataset: the node and its metadata directory) is found unchanged at the new place. -/
def MovePost (e : Env) (s : St) (src dst : Path) (r : Res Unit) : Prop :=
  Inv e r.2 ∧
  (∀ q n, q.head? ≠ some .toc → get? s.raw q = some n → ¬ src <+: q →
    (∀ k, nodeKind s src = some k → ¬ metaBase src k <+: q) → get? r.2.raw q = some n) ∧
  (r.1 = .ok () →
    (nodeKind s src = some false → ∀ c, get? r.2.raw (dst ++ c) = get? s.raw (src ++ c)) ∧
    (nodeKind s src = some true → get? r.2.raw dst = get? s.raw src ∧
      ∀ c, get? r.2.raw (metaBase dst true ++ c) = get? s.raw (metaBase src true ++ c)))

theorem MovePost.err {e : Env} {s : St} (hi : Inv e s) (src dst : Path) (err : Err) :
    MovePost e s src dst (.error err, s) :=
  ⟨hi, fun _ _ _ h _ _ => h, fun h => by cases h⟩

/-- `group.move(source, dest)`: success or failure. The last name of `dest` must not be empty
(HDF5 names never are; `Key.user ""` is an artefact of the structured names of this model). -/
theorem opMove_spec {e : Env} {s : St} (hi : Inv e s) (src dst : Path)
    (hname : dst.getLast? ≠ some (.user "")) : MovePost e s src dst (opMove e src dst s) := by
  unfold opMove guardPath
  cases hsi : isInternal src with
  | true => simpa [hsi] using MovePost.err hi src dst .value
  | false =>
    cases hdi : isInternal dst with
    | true => simpa [hdi] using MovePost.err hi src dst .value
    | false =>
      simp only [Bool.false_eq_true, if_false, bind, M.bind, run_pure, run_getSt]
      cases hk : nodeKind s src with
      | none => simpa [hk] using MovePost.err hi src dst .key
      | some k =>
        simp only [run_ofOpt_some, run_liftRaw]
        cases hmv : rawMove s.raw src dst with
        | error err => simpa [hk] using MovePost.err hi src dst err
        | ok t1 =>
          simp only []
          have ht := hi.treeOK
          obtain ⟨hs0, hd0, -, hfree, -, -⟩ := rawMove_inv hmv
          have hreb1 := rebased_of_move hmv ht.pclosed
          have htoc1 : ∀ q, q.head? = some .toc → get? t1 q = get? s.raw q :=
            rebased_toc hreb1 hd0 (isInternal_head_ne_toc hdi) hs0 (isInternal_head_ne_toc hsi)
          have hgd1 : ∀ c, get? t1 (dst ++ c) = get? s.raw (src ++ c) := by
            intro c
            rw [hreb1 _ (by simp [hd0]), if_pos (List.prefix_append _ _), drop_append_self]
          have hdst1 : get? t1 dst = get? s.raw src := by simpa using hgd1 []
          have hkd : nodeKind ⟨t1, s.c, s.next⟩ dst = some k := by
            rw [← nodeKind_of_get (s := s) (p := src) hdst1.symm]; exact hk
          simp only [hkd, run_ofOpt_some]
          have hold : ∀ p r u, ObjAt s.raw p r u → ¬ dst <+: p := by
            rintro p r u ⟨_, _, _, _, hg⟩ hpre
            exact hg (none_below_free ht.pclosed hfree hpre)
          -- what existed elsewhere is still there after the first `raw.move`
          have keep1 : ∀ q n, get? s.raw q = some n → ¬ src <+: q → get? t1 q = some n := by
            intro q n hq hns
            by_cases hq0 : q = []
            · subst hq0; simpa using hq
            · have hnd : ¬ dst <+: q := fun hp => by
                rw [none_below_free ht.pclosed hfree hp] at hq; cases hq
              rw [hreb1 q hq0, if_neg hnd, if_neg (fun h => hns h.2), hq]; rfl
          cases k with
          | false =>
            have hgrp : get? s.raw src = some .grp := by
              rcases nodeKind_some hk with ⟨-, h⟩ | ⟨h, -⟩
              · exact h
              · cases h
            obtain ⟨ht1, hobj1⟩ := treeOK_move_group ht hsi hdi hgrp hmv
            have hhas : has t1 dst = true := has_iff.mpr (by rw [hdst1, hgrp]; simp)
            simp only [Bool.false_eq_true, if_false, run_pure, run_getSt, hhas, if_true, bind, M.bind]
            obtain ⟨missing, s', hmiss, hrun', hinv', hfr'⟩ := move_finish hi ht1 htoc1 hd0 (isInternal_head_ne_toc hdi)
              (fun r u ho => by rw [ho.internal] at hdi; cases hdi) hold hobj1
            simp only [hmiss, hrun']
            refine ⟨hinv', fun q n hqt hq hns _ => ?_, fun _ => ⟨fun _ c => ?_, fun h => (by rw [hk] at h; cases h)⟩⟩
            · show get? s'.raw q = some n
              rw [hfr' q hqt]; exact keep1 q n hq hns
            · show get? s'.raw (dst ++ c) = _
              rw [hfr' _ (head_append_ne_toc c hd0 (isInternal_head_ne_toc hdi))]; exact hgd1 c
          | true =>
            obtain ⟨v, hv⟩ : ∃ v, get? s.raw src = some (.ds v) := by
              rcases nodeKind_some hk with ⟨h, -⟩ | ⟨-, v, hv⟩
              · cases h
              · exact ⟨v, hv⟩
            obtain ⟨b, m, rfl, hb⟩ := user_path_snoc hs0 hsi
            obtain ⟨b', m', rfl, hb'⟩ := user_path_snoc hd0 hdi
            have hm' : m' ≠ "" := by
              rintro rfl; exact hname (by simp)
            obtain ⟨ht1x, hobj1, hint1, hdv⟩ := treeOK_move_ds ht hb hsi hdi hv hmv
            simp only [metaBase_ds, if_true]
            -- the directory name of the destination is free
            have hfree2s : get? s.raw (b' ++ [.metaDir m']) = none := by
              by_contra hg
              rcases ht.host_ds b' m' hb' hg (fun h => h) with h | ⟨v', hv'⟩
              · exact hm' h
              · rw [hfree] at hv'; cases hv'
            have hfree2 : get? t1 (b' ++ [.metaDir m']) = none := by
              rw [hint1 _ (isInternal_metaDir b' m' [])]; exact hfree2s
            have hold1 : ∀ q r u, ObjAt s.raw q r u → ¬ b' ++ [Key.metaDir m'] <+: q := by
              rintro q r u ho hpre
              have h1 := (hobj1 q r u).mpr ho
              obtain ⟨_, _, _, _, hg⟩ := h1
              exact hg (none_below_free ht1x.pclosed hfree2 hpre)
            cases hsm : has t1 (b ++ [.metaDir m]) with
            | false =>
              have hsm' : get? t1 (b ++ [.metaDir m]) = none := has_false_iff.mp hsm
              have hhas2 : has t1 (b' ++ [.metaDir m']) = false := has_false_iff.mpr hfree2
              simp only [run_getSt, hsm, Bool.false_eq_true, if_false, run_pure, hhas2, bind, M.bind]
              have ht1 : TreeOK e t1 := ht1x.weaken (fun base mm _ hg hex => by
                rw [hex, hsm'] at hg; exact hg rfl)
              refine ⟨inv_of_same_objs hi ht1 htoc1 hobj1, fun q n _ hq hns _ => keep1 q n hq hns,
                fun _ => ⟨fun h => (by rw [hk] at h; cases h), fun _ => ⟨hdst1, fun c => ?_⟩⟩⟩
              rw [metaBase_ds, metaBase_ds]
              show get? t1 (b' ++ [.metaDir m'] ++ c) = get? s.raw (b ++ [.metaDir m] ++ c)
              rw [none_below_free ht1x.pclosed hfree2 (List.prefix_append _ _)]
              have hsrcm : get? s.raw (b ++ [.metaDir m]) = none := by
                rw [← hint1 _ (isInternal_metaDir b m [])]; exact hsm'
              rw [none_below_free ht.pclosed hsrcm (List.prefix_append _ _)]
            | true =>
              have hsm' : get? t1 (b ++ [.metaDir m]) ≠ none := has_iff.mp hsm
              have hne : b ++ [Key.metaDir m] ≠ b' ++ [.metaDir m'] := by
                intro h; rw [h, hfree2] at hsm'; exact hsm' rfl
              have hb'g : get? t1 b' = some .grp :=
                ht1x.pclosed b' (.user m') (by rw [hdv]; simp)
              obtain ⟨t2, hmv2⟩ := rawMove_ok (t := t1) (src := b ++ [.metaDir m]) (dst := b' ++ [.metaDir m'])
                (by simp) (by simp) hsm' hfree2
                (fun hp => by
                  rcases prefix_snoc_iff.mp hp with h | h
                  · exact hne h
                  · have := isInternal_prefix h hb'
                    rw [isInternal_metaDir b m []] at this; cases this)
                (fun q v' hm => by
                  obtain ⟨-, hpre, hqn⟩ := isMid_nil_iff.mp hm
                  rcases prefix_snoc_iff.mp hpre with h | h
                  · exact absurd h hqn
                  · by_cases hqb : q = b'
                    · rw [hqb, hb'g]; exact fun h => by cases h
                    · rw [prefix_grp' ht1x.pclosed h hqb (by rw [hb'g]; simp)]; exact fun h => by cases h)
              simp only [run_getSt, hsm, if_true, run_liftRaw, hmv2, run_pure, bind, M.bind]
              obtain ⟨ht2, hobj2⟩ := treeOK_move_meta ht1x hb hb' hdv hmv2
              obtain ⟨hs0', hd0', -, -, -, -⟩ := rawMove_inv hmv2
              have hreb2 := rebased_of_move hmv2 ht1x.pclosed
              have htoc2 : ∀ q, q.head? = some .toc → get? t2 q = get? s.raw q := fun q hq =>
                (rebased_toc hreb2 hd0' (objPath_head hb') hs0' (objPath_head hb) q hq).trans (htoc1 q hq)
              have hgd2 : ∀ c, get? t2 (b' ++ [.metaDir m'] ++ c) = get? t1 (b ++ [.metaDir m] ++ c) := by
                intro c
                rw [hreb2 _ (by simp), if_pos (List.prefix_append _ _), drop_append_self]
              have hhas2 : has t2 (b' ++ [.metaDir m']) = true :=
                has_iff.mpr (by have := hgd2 []; simp only [List.append_nil] at this; rw [this]; exact hsm')
              simp only [hhas2, if_true]
              obtain ⟨missing, s', hmiss, hrun', hinv', hfr'⟩ := move_finish (S := b ++ [.metaDir m]) hi ht2 htoc2 hd0'
                (objPath_head hb')
                (fun r u ho => by
                  obtain ⟨_, _, _, hp, -⟩ := ho
                  have := congrArg List.getLast? hp; simp at this)
                hold1
                (fun p r u => by
                  rw [hobj2, hobj1, hobj1])
              simp only [hmiss, hrun']
              -- non-reserved paths of the second tree
              have keep2 : ∀ q n, get? t1 q = some n → ¬ b ++ [Key.metaDir m] <+: q → get? t2 q = some n := by
                intro q n hq hns
                by_cases hq0 : q = []
                · subst hq0; simpa using hq
                · have hnd : ¬ b' ++ [Key.metaDir m'] <+: q := fun hp => by
                    rw [none_below_free ht1x.pclosed hfree2 hp] at hq; cases hq
                  rw [hreb2 q hq0, if_neg hnd, if_neg (fun h => hns h.2), hq]; rfl
              have hnpd : ∀ (a : Path) (x : String) (base : Path) (y : String), isInternal base = false →
                  ¬ a ++ [Key.metaDir x] <+: base ++ [.user y] := by
                intro a x base y hbase hp
                rcases prefix_snoc_iff.mp hp with h | h
                · have := congrArg List.getLast? h; simp at this
                · have := isInternal_prefix h hbase
                  rw [isInternal_metaDir a x []] at this; cases this
              refine ⟨hinv', fun q n hqt hq hns hnm => ?_, fun _ => ⟨fun h => (by rw [hk] at h; cases h), fun _ => ⟨?_, fun c => ?_⟩⟩⟩
              · show get? s'.raw q = some n
                rw [hfr' q hqt]
                exact keep2 q n (keep1 q n hq hns) (by simpa [metaBase_ds] using hnm true hk)
              · show get? s'.raw (b' ++ [.user m']) = _
                rw [hfr' _ (user_head m' hb')]
                rw [← hdst1]
                exact keep2 _ _ hdv (hnpd _ _ _ _ hb') |>.trans hdv.symm
              · rw [metaBase_ds, metaBase_ds]
                show get? s'.raw (b' ++ [.metaDir m'] ++ c) = get? s.raw (b ++ [.metaDir m] ++ c)
                rw [hfr' _ (by rw [List.append_assoc]; exact objPath_head hb'), hgd2 c,
                  hint1 _ (by rw [List.append_assoc]; exact isInternal_metaDir b m _)]

theorem opMove_inv {e : Env} {s : St} (hi : Inv e s) (src dst : Path)
    (hname : dst.getLast? ≠ some (.user "")) : Inv e (opMove e src dst s).2 :=
  (opMove_spec hi src dst hname).1

/-! ### all operations -/

/-- side condition on operations: the destination of a `move` does not end in the empty name
(HDF5 names are never empty; the driver's path parser refuses empty segments) -/
def OpOK : Op → Prop
  | .move _ dst => dst.getLast? ≠ some (.user "")
  | _ => True

instance (op : Op) : Decidable (OpOK op) := by
  cases op <;> unfold OpOK <;> infer_instance

/-- every operation keeps the invariant (success and failure) -/
theorem step_inv {e : Env} (he : WFEnv e) {s : St} (hi : Inv e s) (op : Op) (hop : OpOK op) :
    Inv e (step e op s).2 := by
  cases op with
  | createGroup p => exact opCreateGroup_inv hi p
  | createDataset p tok => exact opCreateDataset_inv hi p tok
  | onMeta p ops => exact opMeta_inv he hi p ops
  | delete p => exact opDelete_inv he hi p
  | copy src dst wm => exact opCopy_inv he hi src dst wm
  | move src dst => exact opMove_inv hi src dst hop
  | reopen => exact opReopen_inv he hi
  | patch => exact hi

theorem run_inv {e : Env} (he : WFEnv e) : ∀ (ops : List Op) (s : St), Inv e s → (∀ op ∈ ops, OpOK op) →
    Inv e (run e s ops)
  | [], _, hi, _ => hi
  | op :: ops, s, hi, h =>
    run_inv he ops _ (step_inv he hi op (h op (by simp))) (fun o ho => h o (List.mem_cons_of_mem _ ho))

end MetadorModel.Container
