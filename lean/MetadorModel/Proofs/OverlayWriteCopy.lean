import MetadorModel.Proofs.OverlayWriteCopyReplay
/-!
# C01 write side, part 14: `copy` and `move` refine the plain tree; all operations; histories
-/
namespace MetadorModel.Overlay
open MetadorModel.Tree
variable {V : Type}

/-! ### the replay program computes a copy -/

theorem checkFresh_anc (t : Tree V) (d : Path) (h : Spec.checkFresh t d = .ok ()) :
    d ≠ [] ∧ aget d t = none ∧ ∀ y ∈ properPrefixes d, ∀ v, kindAt t y ≠ some (.data v) := by
  unfold Spec.checkFresh at h
  by_cases h1 : d = []
  · simp [h1] at h
  · cases h2 : aget d t with
    | some n => simp [h1, h2] at h
    | none =>
      by_cases h3 : ancestorsOk t d = true
      · refine ⟨h1, rfl, fun y hy v hk => ?_⟩
        unfold ancestorsOk at h3
        rw [List.all_eq_true] at h3
        have := h3 y hy
        rw [(isData_iff t y).2 ⟨v, hk⟩] at this
        cases this
      · simp [h1, h2, h3] at h

theorem prog_res (t : Tree V) (s d : Path) (kd : NKind V) (as : List (Key × V))
    (kids : List (Path × NKind V × List (Key × V))) (ctx : CopyCtx t s d)
    (hcf : Spec.checkFresh t d = .ok ()) (hkd : kindAt t s = some kd)
    (has : ∀ k, aget k as = attrAt t s k) (hnd : (as.map (·.1)).Nodup)
    (hkids : kd = .group → KidsOk t s kids) :
    ∃ t', specCopyProg t s d kd as kids = .ok t' ∧ CopyRes t s d t' := by
  -- the destination node
  have hT0 : (∀ q, kindAt (aput d (⟨kd, []⟩ : Node V) (ensure emptyGroup d t)) q =
      if q = d then some kd else withAnc t d q) ∧
      ∀ q k, attrAt (aput d (⟨kd, []⟩ : Node V) (ensure emptyGroup d t)) q k =
        if q = d then none else attrAt t q k := by
    refine ⟨fun q => by rw [kindAt_aput, kindAt_ensure'], fun q k => ?_⟩
    rw [attrAt_aput, attrAt_ensure]
    by_cases hq : q = d <;> simp [hq, aget]
  have hc : specCreate t d kd = .ok (aput d (⟨kd, []⟩ : Node V) (ensure emptyGroup d t)) := by
    cases kd with
    | group => simp [specCreate, Spec.createGroup, hcf, bind, Except.bind, pure, Except.pure, emptyGroup]
    | data v => simp [specCreate, Spec.createDataset, hcf, bind, Except.bind, pure, Except.pure]
  obtain ⟨T0, hc2, hk2, ha2⟩ := specCopyAttrs_ok as (aput d (⟨kd, []⟩ : Node V) (ensure emptyGroup d t)) d
    (by rw [hT0.1]; simp) hnd
  have hfreeA : ∀ x, aget (d ++ x) t = none := fun x => (kindAt_none_iff _ _).1 (ctx.free x)
  have hinv0 : RInv t s d [] T0 := by
    refine ⟨fun x => ?_, fun x k => ?_, fun q hq => ?_⟩
    · rw [hk2, hT0.1]
      by_cases hx : x = []
      · subst hx; simp [hkd]
      · have h1 : d ++ x ≠ d := by simpa using hx
        have h2 : d ++ x ∉ properPrefixes d := not_mem_pp_of_isPre d _ (isPre_append d x)
        simp [h1, hx, withAnc, ctx.free x, h2]
    · rw [ha2]
      by_cases hx : x = []
      · subst hx
        simp only [List.append_nil, ↓reduceIte, true_or, has k]
        cases attrAt t s k with
        | some v => rfl
        | none => simp only []; rw [hT0.2]; simp
      · have h1 : d ++ x ≠ d := by simpa using hx
        simp only [h1, ↓reduceIte, hx, List.not_mem_nil, or_self]
        rw [hT0.2]
        simp [h1, attrAt, hfreeA x]
    · have h1 : q ≠ d := by rintro rfl; rw [isPre_refl] at hq; cases hq
      refine ⟨by rw [hk2, hT0.1]; simp [h1], fun k => ?_⟩
      rw [ha2]
      simp only [h1, ↓reduceIte]
      rw [hT0.2]; simp [h1]
  -- from the loop invariant over all listed descendants to the copy specification
  have fin : ∀ (done : List Path) (T : Tree V), RInv t s d done T →
      (∀ x, x ≠ [] → kindAt t (s ++ x) ≠ none → s ++ x ∈ done) → CopyRes t s d T := by
    intro done T hinv hcomp
    refine ⟨fun x => ⟨?_, fun k => ?_⟩, hinv.other⟩
    · rw [hinv.kind x]
      by_cases hin : x = [] ∨ s ++ x ∈ done
      · simp [hin]
      · simp only [hin, ↓reduceIte]
        by_contra hne
        exact hin (Or.inr (hcomp x (fun h => hin (Or.inl h)) (fun h => hne h.symm)))
    · rw [hinv.attr x k]
      by_cases hin : x = [] ∨ s ++ x ∈ done
      · simp [hin]
      · simp only [hin, ↓reduceIte]
        have : kindAt t (s ++ x) = none := by
          by_contra hne
          exact hin (Or.inr (hcomp x (fun h => hin (Or.inl h)) hne))
        simp [attrAt, (kindAt_none_iff _ _).1 this]
  cases kd with
  | data v =>
    refine ⟨T0, by simp only [specCopyProg, hc, hc2, bind, Except.bind, pure, Except.pure], fin [] T0 hinv0 ?_⟩
    intro x hx hne
    have := ctx.pc s x hx hne
    rw [hkd] at this; cases this
  | group =>
    have hk := hkids rfl
    obtain ⟨T', h3, hinv3⟩ := replay_res t s d ctx kids hk kids [] T0 rfl (by simpa using hinv0)
    exact ⟨T', by simp only [specCopyProg, hc, hc2, bind, Except.bind, h3], fin _ T' hinv3 hk.complete⟩

/-! ### `copy` -/

theorem copy_sim (c : Cont V) (older : Rec V) (t : Tree V) (src dst : Path)
    (hinv : Inv (c :: older)) (hrep : Rep (c :: older) t) :
    Sim (W.copy (c :: older) src dst) (Spec.copy t src dst) := by
  by_cases hs : src = []
  · exact Sim.of_err ⟨.root, by simp [W.copy, hs]⟩ ⟨.root, by simp [Spec.copy, hs]⟩
  · cases hl : look (c :: older) src with
    | part _ _ =>
      refine Sim.of_err ⟨.missing, by simp only [W.copy, hs, ↓reduceIte, hl]⟩ ⟨.missing, ?_⟩
      have : aget src t = none := by
        rw [← kindAt_none_iff, ← (hrep src).1]
        exact viewKind_none_of_not_found _ _ (fun cf nf h => by rw [hl] at h; cases h)
      simp [Spec.copy, hs, this]
    | insideValue =>
      refine Sim.of_err ⟨.missing, by simp only [W.copy, hs, ↓reduceIte, hl]⟩ ⟨.missing, ?_⟩
      have : aget src t = none := by
        rw [← kindAt_none_iff, ← (hrep src).1]
        exact viewKind_none_of_not_found _ _ (fun cf nf h => by rw [hl] at h; cases h)
      simp [Spec.copy, hs, this]
    | found cf nf =>
      obtain ⟨hvk, hvn⟩ := viewKind_of_found _ _ cf nf hl
      obtain ⟨kd, hkd⟩ : ∃ kd, plainKind nf.kind = some kd := by
        cases h : plainKind nf.kind with
        | none => exact absurd h hvn
        | some kd => exact ⟨kd, rfl⟩
      have hkt : kindAt t src = some kd := by rw [← (hrep src).1, hvk, hkd]
      obtain ⟨n, hn⟩ : ∃ n, aget src t = some n := by
        cases h : aget src t with
        | none => rw [(kindAt_none_iff t src).2 h] at hkt; cases hkt
        | some n => exact ⟨n, rfl⟩
      have hps := copy_prog_sim c older t src dst cf nf kd hinv hrep hs hl hkd
      cases hd : look (c :: older) dst with
      | found cf' nf' =>
        refine Sim.of_err ⟨.exists_, by simp only [W.copy, hs, ↓reduceIte, hl, hd]⟩ ?_
        obtain ⟨e, he⟩ := hrep.checkFresh_exists dst (by
          rw [(viewKind_of_found _ _ cf' nf' hd).1]; exact (viewKind_of_found _ _ cf' nf' hd).2)
        exact ⟨e, by simp [Spec.copy, hs, hn, he, bind, Except.bind]⟩
      | insideValue =>
        refine Sim.of_err ⟨.insideValue, by simp only [W.copy, hs, ↓reduceIte, hl, hd]⟩ ?_
        obtain ⟨x, sfx, v, rfl, hsfx, hx⟩ := look_inside_props _ _ hd
        obtain ⟨e, he⟩ := hrep.checkFresh_inside x sfx v hsfx hx
        exact ⟨e, by simp [Spec.copy, hs, hn, he, bind, Except.bind]⟩
      | part pre y =>
        obtain ⟨k, more, hdst, rfl, hpre, hk⟩ := look_part_props _ _ _ _ hd
        have hcf := hrep.checkFresh_ok pre k more hpre hk
        rw [← hdst] at hcf
        have hfree : ∀ x, kindAt t (dst ++ x) = none := by
          intro x
          rw [← (hrep _).1, hdst]
          have : pre ++ k :: more ++ x = (pre ++ [k]) ++ (more ++ x) := by simp
          rw [this]
          exact view_below_none _ _ _ hk
        obtain ⟨hdne, _, hanc⟩ := checkFresh_anc t dst hcf
        have ctx : CopyCtx t src dst := ⟨fun x y hy h => hrep.parent x y hy h, hfree, hanc, hdne⟩
        obtain ⟨t', hprog, hres⟩ := prog_res t src dst kd (attrsList (c :: older) src) _ ctx hcf hkt
          (fun k' => by rw [Listing.aget_attrsList, (hrep src).2 k'])
          (Listing.attrsList_nodup _ src)
          (fun _ => kidsOk_of_rep (c :: older) t src hrep hs)
        have hspec : Spec.copy t src dst = .ok (Spec.regraft src dst t ++ ensure emptyGroup dst t) := by
          simp [Spec.copy, hs, hn, hcf, bind, Except.bind, pure, Except.pure]
        have heq := hres.equiv (specCopy_res t src dst (fun x => (kindAt_none_iff _ _).1 (hfree x)))
        rcases hps.cases with ⟨r', t'', h1, h2, hrep', hinv', hne'⟩ | ⟨e, e', _, h2⟩
        · rw [hprog] at h2
          cases h2
          refine Sim.of_ok r' _ h1 hspec ⟨fun q => ?_, hinv', hne'⟩
          exact ⟨by rw [(hrep' q).1, (heq q).1], fun k' => by rw [(hrep' q).2 k', (heq q).2 k']⟩
        · rw [hprog] at h2; cases h2

/-! ### `move` -/

theorem move_sim (c : Cont V) (older : Rec V) (t : Tree V) (src dst : Path)
    (hinv : Inv (c :: older)) (hrep : Rep (c :: older) t) :
    Sim (W.move (c :: older) src dst) (Spec.move t src dst) := by
  by_cases hp : isPre src dst = true
  · exact Sim.of_err ⟨.root, by simp [W.move, hp]⟩ ⟨.root, by simp [Spec.move, hp]⟩
  · have hw : W.move (c :: older) src dst = (W.copy (c :: older) src dst >>= fun r1 => W.delete r1 src) := by
      simp [W.move, hp]
    have hsp : Spec.move t src dst = (Spec.copy t src dst >>= fun t1 => Spec.delete t1 src) := by
      simp [Spec.move, hp]
    rw [hw, hsp]
    refine Sim.bind (copy_sim c older t src dst hinv hrep) (fun r1 t1 _ _ hrep1 hinv1 hne1 => ?_)
    cases r1 with
    | nil => exact absurd rfl hne1
    | cons c1 o1 => exact delete_sim c1 o1 t1 src hinv1 hrep1

/-! ### every operation of the alphabet, and histories -/

theorem step_sim (r : Rec V) (t : Tree V) (op : Op V) (hne : r ≠ []) (hinv : Inv r) (hrep : Rep r t) :
    Sim (W.step r op) (Spec.step t op) := by
  cases r with
  | nil => exact absurd rfl hne
  | cons c older =>
    cases op with
    | copy s d => exact copy_sim c older t s d hinv hrep
    | move s d => exact move_sim c older t s d hinv hrep
    | set p v => exact step_sim_basic _ t _ rfl hne hinv hrep
    | grp p => exact step_sim_basic _ t _ rfl hne hinv hrep
    | del p => exact step_sim_basic _ t _ rfl hne hinv hrep
    | sattr p k v => exact step_sim_basic _ t _ rfl hne hinv hrep
    | dattr p k => exact step_sim_basic _ t _ rfl hne hinv hrep
    | patch => exact step_sim_basic _ t _ rfl hne hinv hrep

theorem run_sim_all (h : List (Op V)) : ∀ (r : Rec V) (t : Tree V), r ≠ [] → Inv r → Rep r t →
    (W.run r h).2 = (Spec.run t h).2 ∧ Rep (W.run r h).1 (Spec.run t h).1 ∧
      Inv (W.run r h).1 ∧ (W.run r h).1 ≠ [] := by
  induction h with
  | nil => intro r t hne hinv hrep; exact ⟨rfl, hrep, hinv, hne⟩
  | cons op ops ih =>
    intro r t hne hinv hrep
    have hsim := step_sim r t op hne hinv hrep
    by_cases hp : op = .patch
    · subst hp
      rcases hsim.cases with ⟨r', t', h1, h2, hrep', hinv', hne'⟩ | ⟨e, e', h1, h2⟩
      · rw [wrun_patch r r' ops h1, srun_patch]
        simp only [Spec.step, Except.ok.injEq] at h2
        subst h2
        exact ih r' t hne' hinv' hrep'
      · simp [Spec.step] at h2
    · rcases hsim.cases with ⟨r', t', h1, h2, hrep', hinv', hne'⟩ | ⟨e, e', h1, h2⟩
      · rw [wrun_ok r r' op ops hp h1, srun_ok t t' op ops hp h2]
        obtain ⟨a, b, c, d⟩ := ih r' t' hne' hinv' hrep'
        exact ⟨by simp [a], b, c, d⟩
      · rw [wrun_err r e op ops hp h1, srun_err t e' op ops hp h2]
        obtain ⟨a, b, c, d⟩ := ih r t hne hinv hrep
        exact ⟨by simp [a], b, c, d⟩

end MetadorModel.Overlay
