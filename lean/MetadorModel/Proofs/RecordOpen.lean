import MetadorModel.Proofs.RecordInv
/-! `_open` only looks at the files it is given: congruence lemmas (C02 snapshot validity,
C03 reopen). -/
namespace MetadorModel.Record
open MetadorModel.FindFiles

theorem loadAll_congr (d d' : Disk) : ∀ (paths : List Name),
    (∀ f ∈ paths, getF d' f = getF d f) → loadAll d' paths = loadAll d paths
  | [], _ => rfl
  | f :: r, h => by
    simp only [loadAll]
    rw [h f (by simp), loadAll_congr d d' r (fun g hg => h g (by simp [hg]))]

theorem payloadOf_congr {d d' : Disk} {f : Name} (h : getF d' f = getF d f) :
    payloadOf d' f = payloadOf d f := by
  simp [payloadOf, h]

theorem checkUB_congr {d d' : Disk} {f : Name} (h : getF d' f = getF d f) (rid : Nat) (ub : UB)
    (prev : Option UB) (ch : Bool) : checkUB d' rid f ub prev ch = checkUB d rid f ub prev ch := by
  simp [checkUB, payloadOf_congr h]

theorem checkChain_congr (d d' : Disk) (rid : Nat) : ∀ (l : List (Name × UB)) (p : UB),
    (∀ x ∈ l, getF d' x.1 = getF d x.1) → checkChain d' rid p l = checkChain d rid p l
  | [], _, _ => rfl
  | (f, ub) :: r, p, h => by
    cases r with
    | nil => simp only [checkChain]; exact checkUB_congr (h (f, ub) (by simp)) _ _ _ _
    | cons y r' =>
      have h1 := checkUB_congr (h (f, ub) (by simp)) rid ub (some p) true
      have h2 := checkChain_congr d d' rid (y :: r') ub (fun x hx => h x (by simp [hx]))
      simp only at h1
      simp only [checkChain, h1] at h2 ⊢
      rw [h2]

theorem openFiles_congr (d d' : Disk) (paths : List Name) (rw : Bool)
    (h : ∀ f ∈ paths, getF d' f = getF d f) : openFiles d' paths rw = openFiles d paths rw := by
  unfold openFiles
  rw [loadAll_congr d d' paths h]
  cases hl : loadAll d paths with
  | error e => rfl
  | ok ubs =>
    simp only
    have hmem : ∀ x ∈ sortByIdx ubs, getF d' x.1 = getF d x.1 := by
      intro x hx
      have hx' : x ∈ ubs := (sortByIdx_perm ubs).mem_iff.mp hx
      have h1 := (loadAll_ok d paths ubs hl).1
      apply h
      rw [← h1]
      exact List.mem_map_of_mem hx'
    cases hs : sortByIdx ubs with
    | nil => rfl
    | cons x rest =>
      obtain ⟨f0, u0⟩ := x
      rw [hs] at hmem
      simp only
      rw [checkUB_congr (hmem (f0, u0) (by simp)),
        checkChain_congr d d' u0.rid rest u0 (fun x hx => hmem x (by simp [hx]))]

theorem viewFiles_congr (d d' : Disk) : ∀ (l : List (Name × UB)),
    (∀ x ∈ l, getF d' x.1 = getF d x.1) → viewFiles d' l = viewFiles d l
  | [], _ => rfl
  | (f, ub) :: r, h => by
    simp only [viewFiles]
    rw [payloadOf_congr (h (f, ub) (by simp)), viewFiles_congr d d' r (fun x hx => h x (by simp [hx]))]

theorem prevFile_mem : ∀ (l : List (Name × UB)) (x : Name × UB), prevFile l = some x → x ∈ l
  | [], x, h => by simp [prevFile] at h
  | [_], x, h => by simp [prevFile] at h
  | [a, _], x, h => by simp only [prevFile, Option.some.injEq] at h; simp [h]
  | _ :: y :: z :: r, x, h => by
    simp only [prevFile] at h
    exact List.mem_cons_of_mem _ (prevFile_mem (y :: z :: r) x h)

theorem loadManifest_congr (d d' : Disk) (files : List (Name × UB))
    (h : ∀ x ∈ files, getF d' (manifestFile x.1) = getF d (manifestFile x.1)) :
    loadManifest d' files = loadManifest d files := by
  unfold loadManifest
  cases hl : lastFile files with
  | none => rfl
  | some y =>
    obtain ⟨f, ub⟩ := y
    simp only
    rw [h (f, ub) (lastFile_mem _ _ hl)]
    cases hp : prevFile files with
    | none => rfl
    | some z =>
      obtain ⟨g, ubp⟩ := z
      simp only
      rw [h (g, ubp) (prevFile_mem _ _ hp)]

end MetadorModel.Record
