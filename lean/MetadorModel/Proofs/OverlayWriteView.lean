import MetadorModel.Proofs.OverlayWriteAttr
/-!
# C01 write side, part 7: the view after `__delitem__`, `create_group`, `create_dataset`

Each `…_ok` lemma evaluates the write path on a record with the invariant, re-establishes the
invariant and gives the new view in terms of the old one; each `…_err` lemma says when the
write path refuses.
-/
namespace MetadorModel.Overlay
open MetadorModel.Tree
variable {V : Type}

/-- the view after a chain was written -/
theorem chain_view (c c' : Cont V) (older : Rec V) (pre : Path) (k : Key) (more : Path) (fin : RNode V)
    (hinv : Inv (c :: older)) (hpre : viewKind (c :: older) pre = some .group)
    (hsh : ChainShape c (pre ++ [k]) (gk older) more fin c')
    (hfin : older ≠ [] → more = [] → fin.kind.isVirtual = false) (hfa : fin.attrs = []) :
    Inv (c' :: older) ∧ ∀ q,
      (viewKind (c' :: older) q =
        if isPre (pre ++ [k]) q then
          (if q = pre ++ [k] ++ more then plainKind fin.kind
           else if isPre q (pre ++ [k] ++ more) then some .group else none)
        else viewKind (c :: older) q) ∧
      ∀ k', viewAttr (c' :: older) q k' =
        if isPre (pre ++ [k]) q then none else viewAttr (c :: older) q k' := by
  obtain ⟨hinv', hview⟩ := chain_sem c c' older pre k more fin hinv hpre hsh hfin
  refine ⟨hinv', fun q => ⟨?_, fun k' => ?_⟩⟩
  · rw [(hview q).1]
    by_cases hb : isPre (pre ++ [k]) q = true
    · obtain ⟨s, rfl⟩ := (isPre_iff _ _).1 hb
      simp only [hb, ↓reduceIte, hsh.inside, plainK_chainAt _ _ _ (gk_isGroup older), isPre_append_append,
        List.append_cancel_left_eq]
    · simp [hb]
  · rw [(hview q).2 k']
    by_cases hb : isPre (pre ++ [k]) q = true
    · obtain ⟨s, rfl⟩ := (isPre_iff _ _).1 hb
      simp only [hb, ↓reduceIte, hsh.inside, plainA_chainAt _ _ _ hfa]
    · simp [hb]

/-! ### `create_group` -/

theorem createGroup_ok (c : Cont V) (older : Rec V) (path pre : Path) (k : Key) (more : Path)
    (hinv : Inv (c :: older)) (hl : look (c :: older) path = .part pre (k :: more)) :
    ∃ c', W.createGroup (c :: older) path = .ok (c' :: older) ∧ Inv (c' :: older) ∧ ∀ q,
      (viewKind (c' :: older) q =
        if isPre (pre ++ [k]) q then (if isPre q path then some .group else none)
        else viewKind (c :: older) q) ∧
      ∀ k', viewAttr (c' :: older) q k' =
        if isPre (pre ++ [k]) q then none else viewAttr (c :: older) q k' := by
  obtain ⟨c', h1, hsh⟩ := createGroup_eval c older path pre k more hinv hl
  obtain ⟨k', y', hpath, hy, hpre, hk⟩ := look_part_props _ _ _ _ hl
  have hp2 : path = pre ++ [k] ++ more := by rw [hpath]; simp
  obtain ⟨hinv', hview⟩ := chain_view c c' older pre k more _ hinv hpre hsh
    (fun ho _ => gk_nv older ho) rfl
  refine ⟨c', h1, hinv', fun q => ⟨?_, (hview q).2⟩⟩
  rw [(hview q).1, ← hp2]
  by_cases hb : isPre (pre ++ [k]) q = true
  · simp only [hb, ↓reduceIte]
    by_cases hq : q = path
    · simp [hq, isPre_refl, plainKind_group_of_isGroup (gk_isGroup older)]
    · simp [hq]
  · simp [hb]

theorem createGroup_err (r : Rec V) (path : Path)
    (h : (∃ cf nf, look r path = .found cf nf) ∨ look r path = .insideValue) :
    ∃ e, W.createGroup r path = .error e := by
  rcases h with ⟨cf, nf, hl⟩ | hl
  · exact ⟨.exists_, by simp only [W.createGroup, hl]⟩
  · exact ⟨.insideValue, by simp only [W.createGroup, hl]⟩

/-! ### `create_dataset` -/

theorem createDataset_ok (c : Cont V) (older : Rec V) (path pre : Path) (k : Key) (more : Path) (v : V)
    (hinv : Inv (c :: older)) (hl : look (c :: older) path = .part pre (k :: more)) :
    ∃ c', W.createDataset (c :: older) path v = .ok (c' :: older) ∧ Inv (c' :: older) ∧ ∀ q,
      (viewKind (c' :: older) q =
        if isPre (pre ++ [k]) q then
          (if q = path then some (.data v) else if isPre q path then some .group else none)
        else viewKind (c :: older) q) ∧
      ∀ k', viewAttr (c' :: older) q k' =
        if isPre (pre ++ [k]) q then none else viewAttr (c :: older) q k' := by
  obtain ⟨c', h1, hsh⟩ := createDataset_eval c older path pre k more v hinv hl
  obtain ⟨k', y', hpath, hy, hpre, hk⟩ := look_part_props _ _ _ _ hl
  have hp2 : path = pre ++ [k] ++ more := by rw [hpath]; simp
  obtain ⟨hinv', hview⟩ := chain_view c c' older pre k more _ hinv hpre hsh
    (fun _ _ => rfl) rfl
  refine ⟨c', h1, hinv', fun q => ⟨?_, (hview q).2⟩⟩
  rw [(hview q).1, ← hp2]
  rfl

theorem createDataset_err (c : Cont V) (older : Rec V) (path : Path) (v : V)
    (h : (∃ cf nf, look (c :: older) path = .found cf nf) ∨ look (c :: older) path = .insideValue) :
    ∃ e, W.createDataset (c :: older) path v = .error e := by
  rcases h with ⟨cf, nf, hl⟩ | hl
  · exact ⟨.exists_, by simp only [W.createDataset, hl]⟩
  · exact ⟨.insideValue, by simp only [W.createDataset, hl]⟩

/-! ### `__delitem__` -/

theorem delete_ok (c : Cont V) (older : Rec V) (path : Path) (hinv : Inv (c :: older))
    (hne : path ≠ []) (hvis : viewKind (c :: older) path ≠ none) :
    ∃ c', W.delete (c :: older) path = .ok (c' :: older) ∧ Inv (c' :: older) ∧ ∀ q,
      (viewKind (c' :: older) q = if isPre path q then none else viewKind (c :: older) q) ∧
      ∀ k', viewAttr (c' :: older) q k' = if isPre path q then none else viewAttr (c :: older) q k' := by
  obtain ⟨pre, k, rfl⟩ : ∃ pre k, path = pre ++ [k] := by
    rcases List.eq_nil_or_concat path with h | ⟨a, k, h⟩
    · exact absurd h hne
    · exact ⟨a, k, by simpa using h⟩
  have hpre : viewKind (c :: older) pre = some .group := view_prefix_group _ pre [k] (by simp) hvis
  cases older with
  | cons o os =>
    obtain ⟨c', h1, hleaf⟩ := delete_eval_patch c o os (pre ++ [k]) hinv hne hvis
    obtain ⟨hinv', hview⟩ := chain_view c c' (o :: os) pre k [] _ hinv hpre (hleaf.chain _) (fun _ _ => rfl) rfl
    refine ⟨c', h1, hinv', fun q => ⟨?_, (hview q).2⟩⟩
    rw [(hview q).1]
    by_cases hb : isPre (pre ++ [k]) q = true
    · simp only [hb, ↓reduceIte, List.append_nil, plainKind]
      by_cases hq : q = pre ++ [k]
      · simp [hq]
      · simp only [hq, ↓reduceIte]
        have : isPre q (pre ++ [k]) = false := by
          cases hx : isPre q (pre ++ [k]) with
          | false => rfl
          | true => exact absurd (isPre_antisymm _ _ hx hb) hq
        simp [this]
    · simp [hb]
  | nil =>
    obtain ⟨c', h1, hget⟩ := delete_eval_base c (pre ++ [k]) hinv hne hvis
    have hpar : aget pre c ≠ none := base_present c hinv pre (by rw [hpre]; simp)
    obtain ⟨hinv', hview⟩ := graft c c' [] pre k hinv hpre hpar
      (fun q hq => by rw [hget, hq]; rfl)
      (fun s j hne' => by rw [hget, List.append_assoc, isPre_append] at hne'; exact absurd rfl hne')
      (Or.inr (Or.inl rfl))
    refine ⟨c', h1, hinv', fun q => ⟨?_, fun k' => ?_⟩⟩
    · rw [(hview q).1]
      by_cases hb : isPre (pre ++ [k]) q = true
      · simp [hb, hget, plainK]
      · simp [hb]
    · rw [(hview q).2 k']
      by_cases hb : isPre (pre ++ [k]) q = true
      · simp [hb, hget, plainA]
      · simp [hb]

theorem delete_err (c : Cont V) (older : Rec V) (path : Path)
    (h : path = [] ∨ viewKind (c :: older) path = none) : ∃ e, W.delete (c :: older) path = .error e := by
  by_cases hp : path = []
  · exact ⟨.root, by simp only [W.delete, hp, ↓reduceIte]⟩
  · rcases h with h | h
    · exact absurd h hp
    · cases hl : look (c :: older) path with
      | found cf nf =>
        exact absurd h (by rw [(viewKind_of_found _ path cf nf hl).1]; exact (viewKind_of_found _ path cf nf hl).2)
      | part _ _ => exact ⟨.missing, by simp only [W.delete, hp, ↓reduceIte, hl]⟩
      | insideValue => exact ⟨.missing, by simp only [W.delete, hp, ↓reduceIte, hl]⟩

end MetadorModel.Overlay
