import MetadorModel.Proofs.RecordChain
import MetadorModel.Proofs.RecordModes
/-! Close and reopen: `close()` keeps the chain coherent, `_open` on any permutation of its
file names (or on what `find_files` returns) gives the chain back (C03). -/
namespace MetadorModel.Record
open MetadorModel.FindFiles

/-- the newest container's manifest extension (if any) points to an existing sidecar with
that hashsum -/
def ManifestOk (d : Disk) (files : List (Name × UB)) : Prop :=
  ∀ f ub u b, lastFile files = some (f, ub) → ub.ext = some (u, b) →
    ∃ u', getF d (manifestFile f) = some (.mf u' b)

/-- an open handle on a coherent chain -/
structure Good (s : State) : Prop where
  isOpen : s.h.closed = false
  coh : Coherent s.disk s.h.files
  inv : Inv s
  rwAllow : hasWritable s.h = true → s.h.allow = true

theorem loadManifest_ok {d : Disk} {files : List (Name × UB)} (h : ManifestOk d files) :
    ∃ man, loadManifest d files = .ok man := by
  unfold loadManifest
  cases hl : lastFile files with
  | none => exact ⟨none, rfl⟩
  | some y =>
    obtain ⟨f, ub⟩ := y
    simp only
    cases he : ub.ext with
    | some e =>
      obtain ⟨u, b⟩ := e
      obtain ⟨u', hu⟩ := h f ub u b hl he
      simp only [hu, if_true]
      exact ⟨_, rfl⟩
    | none =>
      simp only
      split
      · split
        · split
          · split <;> exact ⟨_, rfl⟩
          · exact ⟨_, rfl⟩
        · exact ⟨_, rfl⟩
      · exact ⟨_, rfl⟩

theorem names_setF (d : Disk) (f : Name) (v : File) :
    names (setF d f v) = if f ∈ names d then names d else names d ++ [f] := by
  induction d with
  | nil => simp [setF, names]
  | cons x r ih =>
    obtain ⟨k, w⟩ := x
    by_cases h : k = f
    · subst h; simp [setF, names]
    · have h' : ¬ f = k := fun e => h e.symm
      simp only [setF, h, if_false, names, List.map_cons, List.mem_cons, h', false_or] at ih ⊢
      rw [ih]
      split <;> simp_all

theorem filter_names_setF_existing (d : Disk) (f : Name) (v : File) (n : Name)
    (h : (getF d f).isSome = true) :
    (names (setF d f v)).filter (belongs n) = (names d).filter (belongs n) := by
  rw [names_setF, if_pos ((getF_isSome_iff_mem_names _ _).mp h)]

theorem filter_names_setF_sidecar (d : Disk) (g : Name) (v : File) (n : Name) :
    (names (setF d (manifestFile g) v)).filter (belongs n) = (names d).filter (belongs n) := by
  rw [names_setF]
  split
  · rfl
  · simp [List.filter_append, belongs_manifestFile]

/-- what `close()` leaves behind: the same chain (possibly with the last container now
committed), still coherent, same view, manifest link intact; no container name appears -/
structure Closed (s s1 : State) (files' : List (Name × UB)) : Prop where
  isClosed : s1.h.closed = true
  coh : Coherent s1.disk files'
  sameNames : files'.map Prod.fst = fileNames s.h
  sameIdx : files'.map (fun x => x.2.idx) = s.h.files.map (fun x => x.2.idx)
  sameView : viewFiles s1.disk files' = view s
  man : ManifestOk s.disk s.h.files → ManifestOk s1.disk files'
  fresh : ∀ g, g.getLast? = some '5' → getF s.disk g = none → getF s1.disk g = none
  found : ∀ n, (names s1.disk).filter (belongs n) = (names s.disk).filter (belongs n)
  inv : Inv s1

theorem close_good (s : State) (hg : Good s) (c : Bool) :
    (close s c).out = .ok ∧ ∃ files', Closed s (close s c).st files' := by
  obtain ⟨f0, u0, rest, hfiles, _⟩ := hg.coh.checks
  have hne : s.h.files ≠ [] := by rw [hfiles]; simp
  cases hl : lastFile s.h.files with
  | none => exact absurd ((lastFile_eq_none _).mp hl) hne
  | some y =>
    obtain ⟨fl, ul⟩ := y
    obtain ⟨p, hp⟩ := hg.coh.onDisk fl ul (lastFile_mem _ _ hl)
    have hpay : payloadOf s.disk fl = some p := by simp [payloadOf, hp]
    have hnocommit : Closed s { s with h := closedHandle s.h } s.h.files :=
      ⟨rfl, hg.coh, rfl, rfl, rfl, fun h => h, fun _ _ h => h, fun _ => rfl,
        ⟨hg.inv.diskOk, by intro h; simp [hasWritable_closedHandle] at h⟩⟩
    rcases close_spec s c with ⟨h, _⟩ | ⟨_, hw, _, hbad, _⟩ | ⟨_, hw, _, hok, heq⟩ | ⟨_, _, heq⟩
    · rw [hg.isOpen] at h; cases h
    · -- commit cannot fail here
      exfalso; apply hbad
      have ha := hg.rwAllow hw
      unfold commitPatch
      split
      · exact commitMF_out_ok s hg.isOpen ha hw hl hpay
      · rw [commitPlain_eq s hg.isOpen ha hw hl hpay]
    · rw [heq]
      refine ⟨hok, ?_⟩
      have ha := hg.rwAllow hw
      unfold commitPatch
      split
      · -- manifest class
        rcases commitMF_spec s with hf | ⟨f, ub, p', h1, _, _, _, h5, _, hd, hh, _, _, _⟩
        · exfalso; apply hf.1
          have : (commitPatch s).out = (commitMF s).out := by unfold commitPatch; simp [*]
          rw [← this]; exact hok
        · rw [hl] at h1; cases h1
          rw [hpay] at h5; cases h5
          have hs : SameLink ul (mfCommitUB ul s.next p) := ⟨rfl, rfl, rfl, rfl⟩
          have hc1 := coherent_commit_last (ul' := mfCommitUB ul s.next p) hg.coh hl hpay hs rfl
          have hlast5 : ∀ x ∈ setLastUB s.h.files (mfCommitUB ul s.next p), x.1 ≠ manifestFile fl := by
            intro x hx heq
            obtain ⟨q, hq⟩ := hc1.onDisk x.1 x.2 hx
            by_cases hx1 : x.1 = fl
            · rw [hx1] at heq
              have := congrArg List.length heq
              simp [manifestFile, mfExt] at this
            · rw [getF_setF_ne _ _ _ _ hx1] at hq
              have := hg.inv.diskOk _ _ _ hq
              rw [heq, manifestFile_last] at this; cases this
          refine ⟨setLastUB s.h.files (mfCommitUB ul s.next p), ?_⟩
          refine ⟨rfl, ?_, map_fst_setLastUB _ _, map_idx_setLastUB _ _ _ _ hl rfl, ?_, ?_, ?_, ?_, ?_⟩
          · simp only
            rw [hd]
            exact coherent_congr (fun x hx => getF_setF_ne _ _ _ _ (hlast5 x hx)) hc1
          · simp only
            rw [hd, viewFiles_congr _ _ _ (fun x hx => getF_setF_ne _ _ _ _ (hlast5 x hx))]
            exact viewFiles_commit_last hg.coh hl hpay
          · simp only
            intro _ f ub u b hlf hext
            rw [lastFile_setLastUB _ _ _ _ hl] at hlf
            cases hlf
            simp only [mfCommitUB, Option.some.injEq, Prod.mk.injEq] at hext
            rw [hd]
            exact ⟨s.next, by rw [getF_setF_eq, hext.2]⟩
          · simp only
            intro g hg5 hgn
            rw [hd]
            have h1 : g ≠ manifestFile fl := by
              intro h; rw [h, manifestFile_last] at hg5; cases hg5
            have h2 : g ≠ fl := by intro h; rw [h, hp] at hgn; cases hgn
            rw [getF_setF_ne _ _ _ _ h1, getF_setF_ne _ _ _ _ h2]; exact hgn
          · simp only
            intro n
            rw [hd, filter_names_setF_sidecar, filter_names_setF_existing _ _ _ _ (by simp [hp])]
          · have := commitMF_inv s hg.inv
            exact ⟨this.diskOk, by intro h; simp [hasWritable_closedHandle] at h⟩
      · -- plain class
        rcases commitPlain_spec s with hf | ⟨f, ub, p', h1, _, _, _, h5, heq2⟩
        · exfalso; apply hf.1
          have : (commitPatch s).out = (commitPlain s).out := by unfold commitPatch; simp [*]
          rw [← this]; exact hok
        · rw [hl] at h1; cases h1
          rw [hpay] at h5; cases h5
          rw [heq2]
          have hs : SameLink ul { ul with hash := some p } := ⟨rfl, rfl, rfl, rfl⟩
          have hc1 := coherent_commit_last (ul' := { ul with hash := some p }) hg.coh hl hpay hs rfl
          refine ⟨setLastUB s.h.files { ul with hash := some p }, ?_⟩
          refine ⟨rfl, hc1, map_fst_setLastUB _ _, map_idx_setLastUB _ _ _ _ hl rfl,
            viewFiles_commit_last hg.coh hl hpay, ?_, ?_, ?_, ?_⟩
          · intro hman0 f ub u b hlf hext
            rw [lastFile_setLastUB _ _ _ _ hl] at hlf
            cases hlf
            obtain ⟨u', hu'⟩ := hman0 fl ul u b hl hext
            have : manifestFile fl ≠ fl := by
              intro h
              have := congrArg List.length h
              simp [manifestFile, mfExt] at this
            exact ⟨u', by simp only; rw [getF_setF_ne _ _ _ _ this]; exact hu'⟩
          · intro g _ hgn
            have h2 : g ≠ fl := by intro h; rw [h, hp] at hgn; cases hgn
            simp only
            rw [getF_setF_ne _ _ _ _ h2]; exact hgn
          · intro n
            simp only
            rw [filter_names_setF_existing _ _ _ _ (by simp [hp])]
          · have := commitPlain_inv s hg.inv
            rw [heq2] at this
            exact ⟨this.diskOk, by intro h; simp [hasWritable_closedHandle] at h⟩
    · rw [heq]
      exact ⟨rfl, s.h.files, hnocommit⟩


/-- the name the next patch container would get is unused (what mode `x` needs) -/
def NextPatchFree (s : State) : Prop :=
  ∀ f0 k, (fileNames s.h).head? = some f0 → (s.h.files.map (fun x => x.2.idx)).getLast? = some k →
    getF s.disk (patchFile (inferName f0) (k + 1)) = none

theorem lastFile_idx : ∀ (l : List (Name × UB)) (fl : Name) (ul : UB), lastFile l = some (fl, ul) →
    (l.map (fun x => x.2.idx)).getLast? = some ul.idx
  | [], _, _, h => by simp [lastFile] at h
  | [(g, v)], fl, ul, h => by
    simp only [lastFile, Option.some.injEq, Prod.mk.injEq] at h
    simp [h.2]
  | a :: b :: r, fl, ul, h => by
    simp only [lastFile] at h
    have := lastFile_idx (b :: r) fl ul h
    simp only [List.map_cons, List.getLast?_cons_cons] at this ⊢
    exact this

theorem viewFiles_append (d : Disk) : ∀ (l l' : List (Name × UB)),
    viewFiles d (l ++ l') = viewFiles d l ++ viewFiles d l'
  | [], _ => rfl
  | (f, u) :: r, l' => by simp [viewFiles, viewFiles_append d r l']

theorem reopen_closed (s s1 : State) (files' : List (Name × UB)) (hcl : Closed s s1 files')
    (cls : Bool) (t : Target) (m : Mode) (paths : List Name) (hres : Resolves s1.disk t paths)
    (hperm : paths.Perm (files'.map Prod.fst)) (hm : m = .r ∨ m = .rp ∨ m = .a)
    (hmf : cls = true → ManifestOk s.disk s.h.files)
    (hfresh : m ≠ .r → NextPatchFree s) :
    (openRec s1 cls t m).out = .ok ∧ view (openRec s1 cls t m).st = viewFiles s1.disk files' := by
  have hman : ∃ man, (if cls then loadManifest s1.disk files' else .ok none) = .ok man := by
    by_cases h : cls
    · obtain ⟨man0, hman0⟩ := loadManifest_ok (hcl.man (hmf h))
      exact ⟨man0, by simp [h, hman0]⟩
    · exact ⟨none, by simp [h]⟩
  obtain ⟨man, hman⟩ := hman
  rcases hm with rfl | hm
  · -- read-only
    obtain ⟨fl, ul, hl, hopen⟩ := openFiles_of_coherent hcl.coh paths hperm false
    rw [openRec_resolved s1 cls t .r paths hcl.isClosed hres (Or.inl rfl)]
    unfold openExisting
    have h1 : (Mode.r != Mode.r) = false := rfl
    simp only [h1, hopen, hman, Bool.false_and, Bool.false_eq_true, if_false]
    exact ⟨trivial, rfl⟩
  · have hm' : m = .rp ∨ m = .a := hm
    have hmr : m ≠ .r := by rcases hm with rfl | rfl <;> decide
    obtain ⟨fl, ul, hl, hopen⟩ := openFiles_of_coherent hcl.coh paths hperm true
    cases hh : ul.hash.isNone with
    | true =>
      rw [hh] at hopen
      obtain ⟨f, ul2, _, _, heq, _⟩ := open_rplus_continues s1 cls t m paths files' man hcl.isClosed hres hm' hopen hman
      rw [heq]
      exact ⟨rfl, rfl⟩
    | false =>
      rw [hh] at hopen
      obtain ⟨f0, u0, rest, fl2, ul2, hfiles, hl2, _, hcase⟩ :=
        open_rplus_new_patch s1 cls t m paths files' man hcl.isClosed hres hm' hopen hman
      rw [hl] at hl2; cases hl2
      -- the next patch name is free in `s1`
      have hhead : (fileNames s.h).head? = some f0 := by rw [← hcl.sameNames, hfiles]; rfl
      have hidx : (s.h.files.map (fun x => x.2.idx)).getLast? = some ul.idx := by
        rw [← hcl.sameIdx]; exact lastFile_idx _ _ _ hl
      have hfree : getF s1.disk (patchFile (inferName f0) (ul.idx + 1)) = none :=
        hcl.fresh _ (patchFile_last _ _) (hfresh hmr f0 ul.idx hhead hidx)
      have hnotin : (files'.map Prod.fst).contains (patchFile (inferName f0) (ul.idx + 1)) = false := by
        cases hc : (files'.map Prod.fst).contains (patchFile (inferName f0) (ul.idx + 1)) with
        | false => rfl
        | true =>
          exfalso
          have hmem : patchFile (inferName f0) (ul.idx + 1) ∈ files'.map Prod.fst := by simpa using hc
          obtain ⟨x, hx, hx1⟩ := List.mem_map.mp hmem
          obtain ⟨q, hq⟩ := hcl.coh.onDisk x.1 x.2 hx
          rw [hx1, hfree] at hq; cases hq
      rcases hcase with ⟨_, _, heq⟩ | ⟨_, hbad⟩
      · rw [heq]
        refine ⟨rfl, ?_⟩
        simp only [view, viewFiles_append]
        have hcongr : viewFiles (setF s1.disk (patchFile (inferName f0) (ul.idx + 1)) (.cont (newPatchUB ul s1.next) [])) files'
            = viewFiles s1.disk files' := by
          apply viewFiles_congr
          intro x hx
          apply getF_setF_ne
          intro hx1
          have : patchFile (inferName f0) (ul.idx + 1) ∈ files'.map Prod.fst := by
            rw [← hx1]; exact List.mem_map_of_mem hx
          have h2 : (files'.map Prod.fst).contains (patchFile (inferName f0) (ul.idx + 1)) = true := by simpa using this
          rw [hnotin] at h2; cases h2
        rw [hcongr]
        simp [viewFiles, payloadOf, getF_setF_eq]
      · exfalso
        rcases hbad with h | h
        · rw [hfree] at h; cases h
        · rw [hnotin] at h; cases h


theorem dropLastF_append_single : ∀ (l : List (Name × UB)) (x : Name × UB), dropLastF (l ++ [x]) = l
  | [], x => rfl
  | [y], x => rfl
  | a :: b :: r, x => by
    have := dropLastF_append_single (b :: r) x
    simp only [List.cons_append, dropLastF] at this ⊢
    rw [this]

/-- a patch that is created, filled with any writes and discarded leaves no trace: every
directory entry and the handle's file list are as before, hence so is the view -/
theorem discard_undoes_patch (s : State) (ks : List Nat) (hok : (createPatch s).out = .ok) :
    (discardPatch (run (createPatch s).st (ks.map Op.write))).out = .ok ∧
    (discardPatch (run (createPatch s).st (ks.map Op.write))).st.h.files = s.h.files ∧
    (∀ g, getF (discardPatch (run (createPatch s).st (ks.map Op.write))).st.disk g = getF s.disk g) ∧
    view (discardPatch (run (createPatch s).st (ks.map Op.write))).st = view s := by
  rcases createPatch_spec s with hf | ⟨f0, u0, rest, fl, ul, hfiles, hl, hcl, hal, hnw, hnotin, hfresh, heq⟩
  · exact absurd hok hf.1
  · generalize hpath : patchFile (inferName f0) (ul.idx + 1) = path at *
    generalize hub : newPatchUB ul s.next = ub at *
    -- invariant of the writes
    have key : ∀ (ks : List Nat) (s' : State),
        s'.h = { s.h with files := s.h.files ++ [(path, ub)], lastRW := true } →
        (∀ g, g ≠ path → getF s'.disk g = getF s.disk g) →
        (∃ p, getF s'.disk path = some (.cont ub p)) →
        let s2 := run s' (ks.map Op.write)
        s2.h = { s.h with files := s.h.files ++ [(path, ub)], lastRW := true } ∧
        (∀ g, g ≠ path → getF s2.disk g = getF s.disk g) ∧
        (∃ p, getF s2.disk path = some (.cont ub p)) := by
      intro ks
      induction ks with
      | nil => intro s' h1 h2 h3; exact ⟨h1, h2, h3⟩
      | cons k r ih =>
        intro s' h1 h2 h3
        simp only [List.map_cons, run]
        obtain ⟨p, hp⟩ := h3
        have hl' : lastFile s'.h.files = some (path, ub) := by rw [h1]; exact lastFile_append_single _ _
        have hw' : hasWritable s'.h = true := by rw [h1]; simp [hasWritable]
        have hc' : s'.h.closed = false := by rw [h1]; exact hcl
        have hwr : step s' (.write k) =
            { st := { s' with disk := setF s'.disk path (.cont ub (p ++ [k])) }, out := .ok, written := [path] } := by
          have hne : s'.h.files.isEmpty = false := by rw [h1]; simp
          simp [step, write, hc', hne, hw', hl', hp]
        rw [hwr]
        apply ih
        · exact h1
        · intro g hg; simp only; rw [getF_setF_ne _ _ _ _ hg]; exact h2 g hg
        · exact ⟨_, getF_setF_eq _ _ _⟩
    obtain ⟨h1, h2, p, h3⟩ := key ks (createPatch s).st (by rw [heq]) (by
        intro g hg; rw [heq]; exact getF_setF_ne _ _ _ _ hg) (by rw [heq]; exact ⟨[], getF_setF_eq _ _ _⟩)
    generalize run (createPatch s).st (ks.map Op.write) = s2 at h1 h2 h3 ⊢
    have hl2 : lastFile s2.h.files = some (path, ub) := by rw [h1]; exact lastFile_append_single _ _
    have hdisc : discardPatch s2 =
        { st := { s2 with disk := eraseF s2.disk path,
                          h := { s2.h with files := dropLastF s2.h.files, lastRW := false } },
          out := .ok, removed := [path] } := by
      have hlen : (s2.h.files.length == 1) = false := by rw [h1, hfiles]; simp
      have hw2 : hasWritable s2.h = true := by rw [h1]; simp [hasWritable]
      have hc2 : s2.h.closed = false := by rw [h1]; exact hcl
      have ha2 : s2.h.allow = true := by rw [h1]; exact hal
      simp [discardPatch, hc2, ha2, hw2, hlen, hl2]
    rw [hdisc]
    have hfilesEq : dropLastF s2.h.files = s.h.files := by rw [h1]; exact dropLastF_append_single _ _
    have hdiskEq : ∀ g, getF (eraseF s2.disk path) g = getF s.disk g := by
      intro g
      by_cases hg : g = path
      · subst hg; rw [getF_eraseF_eq, hfresh]
      · rw [getF_eraseF_ne _ _ _ hg]; exact h2 g hg
    refine ⟨rfl, hfilesEq, hdiskEq, ?_⟩
    simp only [view, hfilesEq]
    exact viewFiles_congr _ _ _ (fun x _ => hdiskEq x.1)

end MetadorModel.Record
