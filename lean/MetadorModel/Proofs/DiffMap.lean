import MetadorModel.Model.Diff
import Mathlib.Data.String.Basic
/-! Key-sorted association lists (`MetadorModel.AL`): lookup after insert / erase,
preservation of sortedness, extensionality. Used by the C18 and C14 proofs. -/
namespace MetadorModel.AL
variable {V : Type}

@[simp] theorem get_nil (n : String) : get ([] : List (String × V)) n = none := rfl

theorem get_cons (k : String) (v : V) (r : List (String × V)) (n : String) :
    get ((k, v) :: r) n = if k = n then some v else get r n := rfl

@[simp] theorem sorted_nil : sorted ([] : List (String × V)) = true := rfl

theorem sorted_cons (k : String) (v : V) (r : List (String × V)) :
    sorted ((k, v) :: r) = true ↔ above k r = true ∧ sorted r = true := by
  simp [sorted]

theorem above_cons (n k : String) (v : V) (r : List (String × V)) :
    above n ((k, v) :: r) = true ↔ n < k ∧ above n r = true := by
  simp [above]

theorem above_trans {n m : String} {l : List (String × V)} (h : above m l = true) (hnm : n < m) :
    above n l = true := by
  induction l with
  | nil => rfl
  | cons a r ih =>
    obtain ⟨k, v⟩ := a
    rw [above_cons] at h ⊢
    exact ⟨lt_trans hnm h.1, ih h.2⟩

theorem get_none_of_above {n m : String} {l : List (String × V)} (h : above m l = true)
    (hnm : n ≤ m) : get l n = none := by
  induction l with
  | nil => rfl
  | cons a r ih =>
    obtain ⟨k, v⟩ := a
    rw [above_cons] at h
    rw [get_cons, if_neg]
    · exact ih h.2
    · intro e
      subst e
      exact absurd (lt_of_lt_of_le h.1 hnm) (lt_irrefl _)

theorem get_ins_self (n : String) (x : V) (l : List (String × V)) : get (ins n x l) n = some x := by
  induction l with
  | nil => simp [ins, get]
  | cons a r ih =>
    obtain ⟨k, v⟩ := a
    simp only [ins]
    split_ifs with h1 h2
    · simp [get]
    · subst h2; simp [get]
    · rw [get_cons, if_neg (fun e => h2 e.symm)]; exact ih

theorem get_ins_ne {n m : String} (h : m ≠ n) (x : V) (l : List (String × V)) :
    get (ins n x l) m = get l m := by
  induction l with
  | nil => simp [ins, get, Ne.symm h]
  | cons a r ih =>
    obtain ⟨k, v⟩ := a
    simp only [ins]
    split_ifs with h1 h2
    · rw [get_cons, if_neg (Ne.symm h)]
    · subst h2; simp [get_cons, Ne.symm h]
    · rw [get_cons, get_cons, ih]

theorem get_ins (n m : String) (x : V) (l : List (String × V)) :
    get (ins n x l) m = if m = n then some x else get l m := by
  split_ifs with h
  · subst h; exact get_ins_self _ _ _
  · exact get_ins_ne h _ _

theorem above_ins {n m : String} {l : List (String × V)} (x : V) (h : above m l = true) (hmn : m < n) :
    above m (ins n x l) = true := by
  induction l with
  | nil => simp [ins, above, hmn]
  | cons a r ih =>
    obtain ⟨k, v⟩ := a
    rw [above_cons] at h
    simp only [ins]
    split_ifs with h1 h2
    · simp [above, hmn, h.1, h.2]
    · simp [above, h.1, h.2]
    · rw [above_cons]; exact ⟨h.1, ih h.2⟩

theorem sorted_ins (n : String) (x : V) {l : List (String × V)} (h : sorted l = true) :
    sorted (ins n x l) = true := by
  induction l with
  | nil => simp [ins, sorted, above]
  | cons a r ih =>
    obtain ⟨k, v⟩ := a
    rw [sorted_cons] at h
    simp only [ins]
    split_ifs with h1 h2
    · rw [sorted_cons, above_cons, sorted_cons]
      exact ⟨⟨h1, above_trans h.1 h1⟩, h.1, h.2⟩
    · rw [sorted_cons]; exact h
    · rw [sorted_cons]
      refine ⟨above_ins x h.1 ?_, ih h.2⟩
      rcases lt_trichotomy n k with h3 | h3 | h3
      · exact absurd h3 h1
      · exact absurd h3 h2
      · exact h3

theorem get_erase_ne {n m : String} (h : m ≠ n) (l : List (String × V)) :
    get (erase n l) m = get l m := by
  induction l with
  | nil => rfl
  | cons a r ih =>
    obtain ⟨k, v⟩ := a
    simp only [erase]
    split_ifs with h1
    · subst h1; rw [get_cons, if_neg (Ne.symm h)]
    · rw [get_cons, get_cons, ih]

theorem above_erase {n m : String} {l : List (String × V)} (h : above m l = true) :
    above m (erase n l) = true := by
  induction l with
  | nil => rfl
  | cons a r ih =>
    obtain ⟨k, v⟩ := a
    rw [above_cons] at h
    simp only [erase]
    split_ifs with h1
    · exact h.2
    · rw [above_cons]; exact ⟨h.1, ih h.2⟩

theorem sorted_erase (n : String) {l : List (String × V)} (h : sorted l = true) :
    sorted (erase n l) = true := by
  induction l with
  | nil => rfl
  | cons a r ih =>
    obtain ⟨k, v⟩ := a
    rw [sorted_cons] at h
    simp only [erase]
    split_ifs with h1
    · exact h.2
    · rw [sorted_cons]; exact ⟨above_erase h.1, ih h.2⟩

theorem get_erase_self (n : String) {l : List (String × V)} (h : sorted l = true) :
    get (erase n l) n = none := by
  induction l with
  | nil => rfl
  | cons a r ih =>
    obtain ⟨k, v⟩ := a
    rw [sorted_cons] at h
    simp only [erase]
    split_ifs with h1
    · subst h1; exact get_none_of_above h.1 le_rfl
    · rw [get_cons, if_neg h1]; exact ih h.2

theorem get_erase (n m : String) {l : List (String × V)} (h : sorted l = true) :
    get (erase n l) m = if m = n then none else get l m := by
  split_ifs with h1
  · subst h1; exact get_erase_self _ h
  · exact get_erase_ne h1 _

/-- two key-sorted lists with the same lookups are equal -/
theorem ext {l1 l2 : List (String × V)} (h1 : sorted l1 = true) (h2 : sorted l2 = true)
    (h : ∀ n, get l1 n = get l2 n) : l1 = l2 := by
  induction l1 generalizing l2 with
  | nil =>
    cases l2 with
    | nil => rfl
    | cons b r' =>
      obtain ⟨k', v'⟩ := b
      have := h k'
      simp [get] at this
  | cons a r ih =>
    obtain ⟨k, v⟩ := a
    cases l2 with
    | nil =>
      have := h k
      simp [get] at this
    | cons b r' =>
      obtain ⟨k', v'⟩ := b
      rw [sorted_cons] at h1 h2
      rcases lt_trichotomy k k' with hk | hk | hk
      · have := h k
        rw [get_cons, if_pos rfl, get_cons, if_neg (ne_of_gt hk),
          get_none_of_above h2.1 (le_of_lt hk)] at this
        cases this
      · subst hk
        have hv := h k
        rw [get_cons, if_pos rfl, get_cons, if_pos rfl] at hv
        cases hv
        have : r = r' := by
          apply ih h1.2 h2.2
          intro n
          by_cases hn : k = n
          · subst hn
            rw [get_none_of_above h1.1 le_rfl, get_none_of_above h2.1 le_rfl]
          · have := h n
            rwa [get_cons, if_neg hn, get_cons, if_neg hn] at this
        rw [this]
      · have := h k'
        rw [get_cons, if_neg (ne_of_gt hk), get_cons, if_pos rfl,
          get_none_of_above h1.1 (le_of_lt hk)] at this
        cases this

theorem ins_ins (n : String) (x y : V) {l : List (String × V)} (h : sorted l = true) :
    ins n y (ins n x l) = ins n y l := by
  apply ext (sorted_ins _ _ (sorted_ins _ _ h)) (sorted_ins _ _ h)
  intro m
  simp only [get_ins]
  split_ifs <;> rfl

theorem ins_erase (n : String) (x : V) {l : List (String × V)} (h : sorted l = true) :
    ins n x (erase n l) = ins n x l := by
  apply ext (sorted_ins _ _ (sorted_erase _ h)) (sorted_ins _ _ h)
  intro m
  simp only [get_ins]
  split_ifs with h1
  · rfl
  · exact get_erase_ne h1 _

theorem erase_ins (n : String) (x : V) {l : List (String × V)} (h : sorted l = true) :
    erase n (ins n x l) = erase n l := by
  apply ext (sorted_erase _ (sorted_ins _ _ h)) (sorted_erase _ h)
  intro m
  rw [get_erase _ _ (sorted_ins _ _ h), get_erase _ _ h]
  split_ifs with h1
  · rfl
  · exact get_ins_ne h1 _ _

theorem ins_of_get {n : String} {x : V} {l : List (String × V)} (h : sorted l = true)
    (hg : get l n = some x) : ins n x l = l := by
  apply ext (sorted_ins _ _ h) h
  intro m
  rw [get_ins]
  split_ifs with h1
  · subst h1; exact hg.symm
  · rfl

theorem erase_of_get_none {n : String} {l : List (String × V)} (h : sorted l = true)
    (hg : get l n = none) : erase n l = l := by
  apply ext (sorted_erase _ h) h
  intro m
  rw [get_erase _ _ h]
  split_ifs with h1
  · subst h1; exact hg.symm
  · rfl

/-- in a key-sorted list the head key does not occur in the tail -/
theorem get_tail_head {k : String} {v : V} {r : List (String × V)} (h : sorted ((k, v) :: r) = true) :
    get r k = none :=
  get_none_of_above ((sorted_cons _ _ _).mp h).1 le_rfl

theorem sorted_tail {k : String} {v : V} {r : List (String × V)} (h : sorted ((k, v) :: r) = true) :
    sorted r = true :=
  ((sorted_cons _ _ _).mp h).2

/-- membership of a pair in a key-sorted list is lookup -/
theorem mem_iff_get {l : List (String × V)} (h : sorted l = true) (k : String) (v : V) :
    (k, v) ∈ l ↔ get l k = some v := by
  induction l with
  | nil => simp
  | cons a r ih =>
    obtain ⟨k', v'⟩ := a
    have hs := (sorted_cons _ _ _).mp h
    rw [List.mem_cons, get_cons, ih hs.2]
    constructor
    · rintro (e | e)
      · cases e; simp
      · have : k' ≠ k := by
          intro e'; subst e'
          rw [get_none_of_above hs.1 le_rfl] at e; cases e
        rw [if_neg this]; exact e
    · intro e
      split_ifs at e with h1
      · subst h1; cases e; exact Or.inl rfl
      · exact Or.inr e

end MetadorModel.AL
