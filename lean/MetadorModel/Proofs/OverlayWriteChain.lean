import MetadorModel.Proofs.OverlayWriteRaw
/-!
# C01 write side, part 4: a fresh leaf / chain written into the newest container

`Leaf c p n c'` : `c'` is `c` with everything at and below `p` replaced by the single entry `n`
and the missing intermediate groups of `p` added. All node-creating write paths are
compositions of this form; `chain_sem` gives the meaning (new view and invariant) of one or
two nested such steps.
-/
namespace MetadorModel.Overlay
open MetadorModel.Tree
variable {V : Type}

/-- `c'` = `c` with the subtree at `p` replaced by the single entry `n` (plus intermediate groups) -/
def Leaf (c : Cont V) (p : Path) (n : RNode V) (c' : Cont V) : Prop :=
  ∀ q, aget q c' = if q = p then some n else if isPre p q then none else withCarriers c p q

theorem withCarriers_idem (c c3 : Cont V) (p q : Path) (h : aget q c3 = withCarriers c p q) :
    withCarriers c3 p q = withCarriers c p q := by
  unfold withCarriers at *
  rw [h]
  cases hq : aget q c with
  | some m => rfl
  | none =>
    by_cases hm : q ∈ properPrefixes p <;> simp [hm]

/-- `del file[p]` (if present) followed by creating a node at `p` -/
theorem rmCreate_shape (c : Cont V) (p : Path) (n : RNode V)
    (hanc : ∀ x ∈ properPrefixes p, ∀ m, aget x c = some m → m.kind.isGroup = true) :
    ∃ c', Raw.createNode (removeSub p c) p n = .ok c' ∧ Leaf c p n c' := by
  have hget : ∀ q, aget q (removeSub p c) = if isPre p q then none else aget q c :=
    fun q => aget_removeSub p q c
  obtain ⟨c', h1, h2⟩ := createNode_shape (removeSub p c) p n (by rw [hget, isPre_refl]; rfl) (by
    intro x hx m hm
    rw [hget, isPre_false_of_mem_pp p x hx] at hm
    exact hanc x hx m hm)
  refine ⟨c', h1, fun q => ?_⟩
  rw [h2]
  by_cases hq : q = p
  · simp [hq]
  · simp only [hq, ↓reduceIte]
    by_cases hb : isPre p q = true
    · simp only [hb, ↓reduceIte]
      exact withCarriers_none_not _ _ _ (by rw [hget, hb]; rfl) (not_mem_pp_of_isPre p q hb)
    · simp only [hb]
      exact withCarriers_congr _ _ _ _ (by rw [hget]; simp [hb])

/-- creating a node at a path where nothing is -/
theorem create_shape_free (c : Cont V) (p : Path) (n : RNode V)
    (hfree : ∀ s, aget (p ++ s) c = none)
    (hanc : ∀ x ∈ properPrefixes p, ∀ m, aget x c = some m → m.kind.isGroup = true) :
    ∃ c', Raw.createNode c p n = .ok c' ∧ Leaf c p n c' := by
  obtain ⟨c', h1, h2⟩ := createNode_shape c p n (by simpa using hfree []) hanc
  refine ⟨c', h1, fun q => ?_⟩
  rw [h2]
  by_cases hq : q = p
  · simp [hq]
  · simp only [hq, ↓reduceIte]
    by_cases hb : isPre p q = true
    · simp only [hb, ↓reduceIte]
      obtain ⟨s, rfl⟩ := (isPre_iff _ _).1 hb
      exact withCarriers_none_not _ _ _ (hfree s) (not_mem_pp_of_isPre p _ hb)
    · simp [hb]

/-- a leaf relative to a container that already carries the intermediate groups -/
theorem Leaf.rebase {c c3 : Cont V} {p : Path} {n : RNode V} {c' : Cont V} (h : Leaf c3 p n c')
    (h3 : ∀ q, isPre p q = false → aget q c3 = withCarriers c p q) : Leaf c p n c' := by
  intro q
  rw [h q]
  by_cases hq : q = p
  · simp [hq]
  · simp only [hq, ↓reduceIte]
    by_cases hb : isPre p q = true
    · simp [hb]
    · simp only [hb]
      exact withCarriers_idem c c3 p q (h3 q (by simpa using hb))

/-! ### from leaves to chains -/

/-- the two point-wise facts `chain_sem` needs -/
structure ChainShape (c : Cont V) (p0 : Path) (g : RKind V) (more : Path) (fin : RNode V) (c' : Cont V) : Prop where
  inside : ∀ s, aget (p0 ++ s) c' = chainAt g more fin s
  outside : ∀ q, isPre p0 q = false → aget q c' = withCarriers c p0 q

theorem Leaf.chain {c : Cont V} {p0 : Path} {fin : RNode V} {c' : Cont V} (g : RKind V) (h : Leaf c p0 fin c') :
    ChainShape c p0 g [] fin c' := by
  refine ⟨fun s => ?_, fun q hq => ?_⟩
  · rw [h]
    unfold chainAt
    by_cases hs : s = []
    · simp [hs]
    · have : isPre s [] = false := by cases s with
        | nil => exact absurd rfl hs
        | cons a s => rfl
      simp [hs, isPre_append, this]
  · rw [h]
    have : q ≠ p0 := by rintro rfl; rw [isPre_refl] at hq; cases hq
    simp [this, hq]

theorem isPre_antisymm (a b : Path) (h1 : isPre a b = true) (h2 : isPre b a = true) : a = b := by
  obtain ⟨s, rfl⟩ := (isPre_iff _ _).1 h1
  obtain ⟨s', hs'⟩ := (isPre_iff _ _).1 h2
  have := congrArg List.length hs'
  simp only [List.length_append] at this
  have : s.length = 0 := by omega
  rw [List.eq_nil_of_length_eq_zero this]; simp

theorem Leaf.extend {c cg c' : Cont V} {p0 more : Path} {g : RKind V} {fin : RNode V}
    (h1 : Leaf c p0 ⟨g, []⟩ cg) (h2 : Leaf cg (p0 ++ more) fin c') :
    ChainShape c p0 g more fin c' := by
  have hcg_in : ∀ s, aget (p0 ++ s) cg = if s = [] then some ⟨g, []⟩ else none := by
    intro s
    rw [h1]
    by_cases hs : s = []
    · simp [hs]
    · simp [hs, isPre_append]
  refine ⟨fun s => ?_, fun q hq => ?_⟩
  · rw [h2]
    unfold chainAt
    by_cases hs : s = more
    · simp [hs]
    · have hne : p0 ++ s ≠ p0 ++ more := by simpa using hs
      simp only [hne, ↓reduceIte, hs, isPre_append_append]
      by_cases hb : isPre more s = true
      · have hnb : isPre s more = false := by
          cases hx : isPre s more with
          | false => rfl
          | true => exact absurd (isPre_antisymm s more hx hb) hs
        simp [hb, hnb]
      · simp only [hb]
        by_cases hs0 : s = []
        · subst hs0
          simp only [Bool.false_eq_true, ↓reduceIte, isPre_nil]
          exact withCarriers_some _ _ _ _ (by simpa using hcg_in [])
        · have hnone : aget (p0 ++ s) cg = none := by rw [hcg_in]; simp [hs0]
          by_cases hp : isPre s more = true
          · simp only [Bool.false_eq_true, ↓reduceIte, hp, hs0]
            exact withCarriers_none_mem _ _ _ hnone
              ((mem_pp_append_append _ _ _).2 ((mem_pp_iff_isPre _ _).2 ⟨hp, hs⟩))
          · simp only [Bool.false_eq_true, ↓reduceIte, hp]
            exact withCarriers_none_not _ _ _ hnone (fun hm =>
              hp ((mem_pp_iff_isPre _ _).1 ((mem_pp_append_append _ _ _).1 hm)).1)
  · rw [h2]
    have hq1 : q ≠ p0 ++ more := by
      rintro rfl; rw [isPre_append] at hq; cases hq
    have hq2 : isPre (p0 ++ more) q = false := by
      cases hx : isPre (p0 ++ more) q with
      | false => rfl
      | true =>
        obtain ⟨s, rfl⟩ := (isPre_iff _ _).1 hx
        rw [List.append_assoc, isPre_append] at hq; cases hq
    simp only [hq1, ↓reduceIte, hq2, Bool.false_eq_true]
    have hqc : aget q cg = withCarriers c p0 q := by
      rw [h1]
      have : q ≠ p0 := by rintro rfl; rw [isPre_refl] at hq; cases hq
      simp [this, hq]
    cases hw : withCarriers c p0 q with
    | some m => exact withCarriers_some _ _ _ m (by rw [hqc, hw])
    | none =>
      apply withCarriers_none_not _ _ _ (by rw [hqc, hw])
      intro hm
      exact withCarriers_mem_ne_none c p0 q (mem_pp_of_mem_pp_append p0 more q hm hq) hw

/-! ### meaning of a chain -/

theorem chain_sem (c c' : Cont V) (older : Rec V) (pre : Path) (k : Key) (more : Path) (fin : RNode V)
    (hinv : Inv (c :: older)) (hpre : viewKind (c :: older) pre = some .group)
    (hsh : ChainShape c (pre ++ [k]) (gk older) more fin c')
    (hfin : older ≠ [] → more = [] → fin.kind.isVirtual = false) :
    Inv (c' :: older) ∧ ∀ q,
      (viewKind (c' :: older) q =
        if isPre (pre ++ [k]) q then plainK (aget q c') else viewKind (c :: older) q) ∧
      ∀ k', viewAttr (c' :: older) q k' =
        if isPre (pre ++ [k]) q then plainA (aget q c') k' else viewAttr (c :: older) q k' := by
  -- step 1: the intermediate groups
  have hvis : ∀ x ∈ properPrefixes (pre ++ [k]), viewKind (c :: older) x = some .group := by
    intro x hx
    obtain ⟨s, hs⟩ := (mem_properPrefixes_snoc pre k x).1 hx
    by_cases hs0 : s = []
    · subst hs0; simp only [List.append_nil] at hs; subst hs; exact hpre
    · exact view_prefix_group _ x s hs0 (by rw [← hs, hpre]; simp)
  obtain ⟨hinv1, hview1⟩ := carriers c older (pre ++ [k]) hinv hvis
  -- step 2: the graft
  have hmem : pre ∈ properPrefixes (pre ++ [k]) := (mem_properPrefixes_snoc pre k pre).2 ⟨[], by simp⟩
  obtain ⟨hinv2, hview2⟩ := graft (ensure vnode (pre ++ [k]) c) c' older pre k hinv1
    (by rw [(hview1 pre).1]; exact hpre)
    (by rw [aget_ensure_vnode]; exact withCarriers_mem_ne_none c _ pre hmem)
    (by intro q hq; rw [aget_ensure_vnode]; exact hsh.outside q hq)
    (by
      intro s j hne
      rw [List.append_assoc, hsh.inside] at hne
      rw [hsh.inside]
      exact chainAt_closed (gk older) more fin (gk_isGroup older) s j hne)
    (by
      by_cases ho : older = []
      · exact Or.inr (Or.inl ho)
      · left
        unfold nvAt
        have := hsh.inside []
        simp only [List.append_nil] at this
        rw [this]
        unfold chainAt
        by_cases hm : more = []
        · subst hm; simp [hfin ho rfl]
        · have : ¬ ([] : Path) = more := fun h => hm h.symm
          simp [this, isPre_nil, gk_nv older ho])
  refine ⟨hinv2, fun q => ⟨?_, fun k' => ?_⟩⟩
  · rw [(hview2 q).1, (hview1 q).1]
  · rw [(hview2 q).2 k', (hview1 q).2 k']

end MetadorModel.Overlay
