import MetadorModel.Proofs.ContainerInit
/-!
# Reopening a container: the caches rebuilt from the raw tree (`reload`) satisfy the same
specification as the incrementally maintained ones, hence agree with them on everything the TOC
API reads (`CachesEq`).
-/
namespace MetadorModel.Container

/-! ### generic fold lemmas -/

theorem foldl_preserves {α β : Type} (f : β → α → β) (I : β → Prop) :
    ∀ (l : List α), (∀ x ∈ l, ∀ b, I b → I (f b x)) → ∀ b, I b → I (l.foldl f b)
  | [], _, b, hb => hb
  | x :: l, h, b, hb =>
    foldl_preserves f I l (fun y hy => h y (List.mem_cons_of_mem _ hy)) (f b x) (h x (by simp) b hb)

theorem foldl_hit {α β : Type} (f : β → α → β) (I : β → Prop) (hmono : ∀ b x, I b → I (f b x))
    {x0 : α} (hhit : ∀ b, I (f b x0)) : ∀ (l : List α), x0 ∈ l → ∀ b, I (l.foldl f b)
  | [], h, _ => by simp at h
  | x :: l, h, b => by
    rw [List.foldl_cons]
    rcases List.mem_cons.mp h with rfl | h
    · exact foldl_preserves f I l (fun y _ b hb => hmono b y hb) _ (hhit b)
    · exact foldl_hit f I hmono hhit l h _

/-- fold invariant indexed by the set of elements processed so far (list without duplicates) -/
theorem foldl_pred {α β : Type} (f : β → α → β) (G : α → Prop) (P : (α → Prop) → β → Prop)
    (step : ∀ D b x, P D b → ¬ D x → G x → P (fun y => D y ∨ y = x) (f b x)) :
    ∀ (l : List α) (D : α → Prop) (b : β), P D b → l.Nodup → (∀ x ∈ l, ¬ D x ∧ G x) →
      P (fun y => D y ∨ y ∈ l) (l.foldl f b)
  | [], D, b, h, _, _ => by simpa using h
  | x :: l, D, b, h, hnd, hl => by
    obtain ⟨hx, hnd'⟩ := List.nodup_cons.mp hnd
    have h1 := step D b x h (hl x (by simp)).1 (hl x (by simp)).2
    have := foldl_pred f G P step l _ _ h1 hnd' (fun y hy => ⟨by
      rintro (hd | rfl)
      · exact (hl y (List.mem_cons_of_mem _ hy)).1 hd
      · exact hx hy, (hl y (List.mem_cons_of_mem _ hy)).2⟩)
    have e : (fun y => (D y ∨ y = x) ∨ y ∈ l) = (fun y => D y ∨ y ∈ x :: l) := by
      funext y; apply propext; simp [or_assoc]
    rw [List.foldl_cons]; rw [e] at this; exact this

theorem alGet_alSet_isSome_mono {α β : Type} [DecidableEq α] (l : List (α × β)) (a : α) (b : β) (x : α)
    (h : (alGet l x).isSome) : (alGet (alSet l a b) x).isSome := by
  rw [alGet_alSet]; split_ifs <;> simp [h]

/-! ### `TOCLinks.__init__` -/

def linkInner (r : SRef) (acc : List (Nat × Path)) (ln : Key × Node) : List (Nat × Path) :=
  match ln.1 with
  | .link u => alSet acc u (linkPath r u)
  | _ => acc

def linkOuter (t : Tree) (acc : List (Nat × Path)) (kn : Key × Node) : List (Nat × Path) :=
  match kn.1 with
  | .ep r => (children t (linkDir r)).foldl (linkInner r) acc
  | _ => acc

theorem loadLinks_eq (t : Tree) : loadLinks t = (children t linksP).foldl (linkOuter t) [] := rfl

theorem linkInner_mono (r : SRef) (u : Nat) (acc : List (Nat × Path)) (ln : Key × Node)
    (h : (alGet acc u).isSome) : (alGet (linkInner r acc ln) u).isSome := by
  obtain ⟨k, n⟩ := ln
  cases k <;> simp only [linkInner, h]
  exact alGet_alSet_isSome_mono _ _ _ _ h

theorem linkOuter_mono (t : Tree) (u : Nat) (acc : List (Nat × Path)) (kn : Key × Node)
    (h : (alGet acc u).isSome) : (alGet (linkOuter t acc kn) u).isSome := by
  obtain ⟨k, n⟩ := kn
  cases k <;> simp only [linkOuter, h]
  exact foldl_preserves _ (fun a => (alGet a u).isSome) _ (fun x _ b hb => linkInner_mono _ u b x hb) _ h

theorem loadLinks_spec {e : Env} {L : Path → SRef → Nat → Prop} {U : SRef → Prop} {t : Tree}
    (hk : KeysOK t) (hr : TocRaw e L U t) (huniq : LUniq L) :
    ∀ u tp, alGet (loadLinks t) u = some tp ↔ ∃ p r, L p r u ∧ tp = linkPath r u := by
  obtain ⟨hb, hl, -⟩ := tocRaw_iff.mp hr
  -- soundness: every entry comes from a link of an attached object
  let Sound : List (Nat × Path) → Prop := fun acc => ∀ u tp, alGet acc u = some tp → ∃ p r, L p r u ∧ tp = linkPath r u
  have inner_sound : ∀ r, ∀ x ∈ children t (linkDir r), ∀ b, Sound b → Sound (linkInner r b x) := by
    rintro r ⟨k, n⟩ hx b hbS
    have hg := (mem_children hk).mp hx
    obtain ⟨u0, rfl⟩ := hb.linkDir_child (k := k) (r := r) (by rw [hg]; simp)
    obtain ⟨p0, hp0⟩ : ∃ p, L p r u0 := by
      by_contra hc
      have := hl.link_none r u0 hc
      simp only [linkPath, linkDir, List.cons_append, List.nil_append] at this hg
      rw [this] at hg; cases hg
    intro u tp
    simp only [linkInner, alGet_alSet]
    split_ifs with hu
    · rintro h; cases h; subst hu; exact ⟨p0, r, hp0, rfl⟩
    · exact hbS u tp
  have outer_sound : ∀ x ∈ children t linksP, ∀ b, Sound b → Sound (linkOuter t b x) := by
    rintro ⟨k, n⟩ hx b hbS
    cases k <;> simp only [linkOuter] <;> try exact hbS
    exact foldl_preserves _ Sound _ (inner_sound _) b hbS
  have hsound : Sound (loadLinks t) := by
    rw [loadLinks_eq]
    exact foldl_preserves _ Sound _ outer_sound [] (fun u tp h => by cases h)
  intro u tp
  constructor
  · exact hsound u tp
  · rintro ⟨p, r, hL, rfl⟩
    -- completeness: the link of `(r, u)` has been visited
    have hdir : (Key.ep r, Node.grp) ∈ children t linksP :=
      (mem_children hk).mpr (by have := (hl.ldir r).1 ⟨p, u, hL⟩; simpa [linkDir, linksP] using this)
    have hlink : (Key.link u, Node.ds (.target p)) ∈ children t (linkDir r) :=
      (mem_children hk).mpr (by have := hl.link_some p r u hL; simpa [linkDir, linkPath] using this)
    have hsome : (alGet (loadLinks t) u).isSome := by
      rw [loadLinks_eq]
      refine foldl_hit (linkOuter t) (fun a => (alGet a u).isSome) (fun b x hb => linkOuter_mono t u b x hb)
        (x0 := (Key.ep r, Node.grp)) ?_ _ hdir []
      intro b
      show (alGet ((children t (linkDir r)).foldl (linkInner r) b) u).isSome
      refine foldl_hit (linkInner r) (fun a => (alGet a u).isSome) (fun b x hb => linkInner_mono r u b x hb)
        (x0 := (Key.link u, Node.ds (.target p))) ?_ _ hlink b
      intro b'
      simp [linkInner, alGet_alSet]
    obtain ⟨tp', htp'⟩ := alGet_some_of_isSome hsome
    obtain ⟨p', r', hL', rfl⟩ := hsound u tp' htp'
    obtain ⟨-, rfl⟩ := huniq p p' r r' u hL hL'
    exact htp'

/-! ### `TOCPackages.__init__` -/

def pkgStep (acc : List (PkgId × List SRef) × List (SRef × List PkgId)) (kn : Key × Node) :
    List (PkgId × List SRef) × List (SRef × List PkgId) :=
  match kn with
  | (.pkg p, .ds (.pkginfo _ plugins)) => (alSet acc.1 p plugins, addProviders acc.2 p plugins)
  | _ => acc

theorem loadPackages_eq (t : Tree) : loadPackages t = (children t packagesP).foldl pkgStep ([], []) := rfl

theorem addProviders_mono (pk : PkgId) (r : SRef) : ∀ (l : List SRef) (prov : List (SRef × List PkgId)),
    (alGet prov r).isSome → (alGet (addProviders prov pk l) r).isSome
  | [], _, h => h
  | x :: l, prov, h => by
    simp only [addProviders]
    exact addProviders_mono pk r l _ (alGet_alSet_isSome_mono _ _ _ _ h)

theorem addProviders_hit (pk : PkgId) (r : SRef) : ∀ (l : List SRef) (prov : List (SRef × List PkgId)),
    r ∈ l → (alGet (addProviders prov pk l) r).isSome
  | [], _, h => by simp at h
  | x :: l, prov, h => by
    simp only [addProviders]
    rcases List.mem_cons.mp h with rfl | h
    · exact addProviders_mono pk r l _ (by rw [alGet_alSet]; simp)
    · exact addProviders_hit pk r l _ h

theorem addProviders_sound {e : Env} (he : WFEnv e) (R : PkgId → Prop) (pk : PkgId) (hR : R pk) :
    ∀ (l : List SRef) (prov : List (SRef × List PkgId)), (∀ r ∈ l, r ∈ e.pkgPlugins pk) →
      (∀ r ps, alGet prov r = some ps → ∃ pk', ps = [pk'] ∧ R pk' ∧ r ∈ e.pkgPlugins pk') →
      ∀ r ps, alGet (addProviders prov pk l) r = some ps → ∃ pk', ps = [pk'] ∧ R pk' ∧ r ∈ e.pkgPlugins pk'
  | [], _, _, h => h
  | x :: l, prov, hl, h => by
    simp only [addProviders]
    apply addProviders_sound he R pk hR l _ (fun r hr => hl r (List.mem_cons_of_mem _ hr))
    intro r ps
    rw [alGet_alSet]
    split_ifs with hrx
    · subst hrx
      have hx := hl r (by simp)
      have hval : setAdd ((alGet prov r).getD []) pk = [pk] := by
        cases hg : alGet prov r with
        | none => simp [setAdd]
        | some ps0 =>
          obtain ⟨pk', rfl, -, hmem⟩ := h r ps0 hg
          rw [he.disj _ _ _ hmem hx]
          simp [setAdd]
      rw [hval]
      rintro h'; cases h'
      exact ⟨pk, rfl, hR, hx⟩
    · exact h r ps

theorem loadPackages_spec {e : Env} (he : WFEnv e) {L : Path → SRef → Nat → Prop} {U : SRef → Prop} {t : Tree}
    (hk : KeysOK t) (hr : TocRaw e L U t) :
    (∀ pk pl, alGet (loadPackages t).1 pk = some pl ↔ (RegP e U pk ∧ pl = e.pkgPlugins pk)) ∧
    (∀ r ps, alGet (loadPackages t).2 r = some ps ↔ ∃ pk, ps = [pk] ∧ RegP e U pk ∧ r ∈ e.pkgPlugins pk) := by
  obtain ⟨hb, -, hs⟩ := tocRaw_iff.mp hr
  -- shape of the listed package records
  have helem : ∀ k n, (k, n) ∈ children t packagesP →
      ∃ pk, RegP e U pk ∧ k = .pkg pk ∧ n = .ds (.pkginfo pk (e.pkgPlugins pk)) := by
    intro k n hx
    have hg := (mem_children hk).mp hx
    obtain ⟨pk, rfl⟩ := hb.pkg_child (k := k) (by rw [hg]; simp)
    have hg' : get? t (pkgPath pk) = some n := by simpa [pkgPath, packagesP] using hg
    by_cases hreg : RegP e U pk
    · rw [(hs.pkg pk).1 hreg] at hg'; cases hg'; exact ⟨pk, hreg, rfl, rfl⟩
    · rw [(hs.pkg pk).2 hreg] at hg'; cases hg'
  have hmem : ∀ pk, RegP e U pk → (Key.pkg pk, Node.ds (.pkginfo pk (e.pkgPlugins pk))) ∈ children t packagesP := by
    intro pk hreg
    exact (mem_children hk).mpr (by have := (hs.pkg pk).1 hreg; simpa [pkgPath, packagesP] using this)
  let Sound : List (PkgId × List SRef) × List (SRef × List PkgId) → Prop := fun acc =>
    (∀ pk pl, alGet acc.1 pk = some pl → RegP e U pk ∧ pl = e.pkgPlugins pk) ∧
    (∀ r ps, alGet acc.2 r = some ps → ∃ pk, ps = [pk] ∧ RegP e U pk ∧ r ∈ e.pkgPlugins pk)
  have step_sound : ∀ x ∈ children t packagesP, ∀ b, Sound b → Sound (pkgStep b x) := by
    rintro ⟨k, n⟩ hx b ⟨hb1, hb2⟩
    obtain ⟨pk, hreg, rfl, rfl⟩ := helem k n hx
    refine ⟨fun pk' pl => ?_, addProviders_sound he (RegP e U) pk hreg _ _ (fun _ h => h) hb2⟩
    simp only [pkgStep, alGet_alSet]
    split_ifs with hpk
    · rintro h; cases h; subst hpk; exact ⟨hreg, rfl⟩
    · exact hb1 pk' pl
  have hsound : Sound (loadPackages t) := by
    rw [loadPackages_eq]
    exact foldl_preserves _ Sound _ step_sound _ ⟨fun _ _ h => (by cases h), fun _ _ h => (by cases h)⟩
  have mono1 : ∀ pk b x, (alGet b.1 pk).isSome → (alGet (pkgStep b x).1 pk).isSome := by
    intro pk b x h
    unfold pkgStep
    split
    · exact alGet_alSet_isSome_mono _ _ _ _ h
    · exact h
  have mono2 : ∀ r b x, (alGet b.2 r).isSome → (alGet (pkgStep b x).2 r).isSome := by
    intro r b x h
    unfold pkgStep
    split
    · exact addProviders_mono _ r _ _ h
    · exact h
  refine ⟨fun pk pl => ⟨hsound.1 pk pl, ?_⟩, fun r ps => ⟨hsound.2 r ps, ?_⟩⟩
  · rintro ⟨hreg, rfl⟩
    have hsome : (alGet (loadPackages t).1 pk).isSome := by
      rw [loadPackages_eq]
      refine foldl_hit pkgStep (fun a => (alGet a.1 pk).isSome) (mono1 pk) (x0 := _) ?_ _ (hmem pk hreg) _
      intro b
      simp [pkgStep, alGet_alSet]
    obtain ⟨pl, hpl⟩ := alGet_some_of_isSome hsome
    rw [hpl, (hsound.1 pk pl hpl).2]
  · rintro ⟨pk, rfl, hreg, hmemr⟩
    have hsome : (alGet (loadPackages t).2 r).isSome := by
      rw [loadPackages_eq]
      refine foldl_hit pkgStep (fun a => (alGet a.2 r).isSome) (mono2 r) (x0 := _) ?_ _ (hmem pk hreg) _
      intro b
      exact addProviders_hit pk r _ _ hmemr
    obtain ⟨ps, hps⟩ := alGet_some_of_isSome hsome
    obtain ⟨pk', rfl, -, hmem'⟩ := hsound.2 r ps hps
    rw [hps, he.disj _ _ _ hmem' hmemr]

/-! ### `TOCSchemas.__init__` -/

def schemaStep (t : Tree) (c : Caches) (kn : Key × Node) : Caches :=
  match kn.1 with
  | .ep r =>
    match get? t (schemaDir r ++ [.compat]) with
    | some (.ds (.compat parents)) =>
      let (par, chi) := upcAdd r c.parents c.children [] parents
      let used := ((alGet c.providers r).getD []).foldl (init := c.used) fun u pkg =>
        alSet u pkg (setAdd ((alGet u pkg).getD []) r)
      { c with schemas := setAdd c.schemas r, parents := par, children := chi, used := used }
    | _ => c
  | _ => c

theorem loadSchemas_eq (t : Tree) (infos : List (PkgId × List SRef)) (provs : List (SRef × List PkgId)) :
    loadSchemas t infos provs = (children t schemasP).foldl (schemaStep t)
      { pkginfos := infos, providers := provs, used := infos.map fun e => (e.1, []) } := rfl

/-- `SchemaCache` with the schema index and `_used` built for the schemas `DS` only -/
structure SC2 (e : Env) (U DS : SRef → Prop) (c : Caches) : Prop where
  schemas : ∀ r, r ∈ c.schemas ↔ DS r
  schemas_nodup : c.schemas.Nodup
  index : IndexOK e DS c.parents c.children
  pkginfos : ∀ pk pl, alGet c.pkginfos pk = some pl ↔ (RegP e U pk ∧ pl = e.pkgPlugins pk)
  providers : ∀ r ps, alGet c.providers r = some ps ↔ ∃ pk, ps = [pk] ∧ RegP e U pk ∧ r ∈ e.pkgPlugins pk
  used_dom : ∀ pk, RegP e U pk → (alGet c.used pk).isSome
  used_val : ∀ pk rs, alGet c.used pk = some rs → rs.Nodup ∧
    ∀ r, r ∈ rs ↔ (DS r ∧ ∃ i, e.info r = some i ∧ i.pkg = pk)

theorem SC2.toSchemaCache {e : Env} {U : SRef → Prop} {c : Caches} (h : SC2 e U U c) : SchemaCache e U c :=
  ⟨h.schemas, h.schemas_nodup, h.index, h.pkginfos, h.providers, h.used_dom, h.used_val⟩

theorem alGet_map_const {α β γ : Type} [DecidableEq α] (l : List (α × β)) (b : γ) (a : α) :
    alGet (l.map fun e => (e.1, b)) a = (alGet l a).map fun _ => b := by
  induction l with
  | nil => rfl
  | cons x l ih =>
    obtain ⟨k, v⟩ := x
    simp only [List.map_cons, alGet_cons, ih]
    split_ifs <;> rfl

theorem schemaStep_run {t : Tree} {c : Caches} {r : SRef} {n : Node} {i : SInfo}
    (hc : get? t (schemaDir r ++ [.compat]) = some (.ds (.compat i.parents)))
    (hp : alGet c.providers r = some [i.pkg]) :
    schemaStep t c (.ep r, n) =
      { c with schemas := setAdd c.schemas r,
               parents := (upcAdd r c.parents c.children [] i.parents).1,
               children := (upcAdd r c.parents c.children [] i.parents).2,
               used := alSet c.used i.pkg (setAdd ((alGet c.used i.pkg).getD []) r) } := by
  simp [schemaStep, hc, hp]

theorem schemaStep_sc2 {e : Env} (he : WFEnv e) {U DS : SRef → Prop} {t : Tree} {c : Caches} {r : SRef}
    {n : Node} {i : SInfo} (hi : e.info r = some i) (hU : U r)
    (hc : get? t (schemaDir r ++ [.compat]) = some (.ds (.compat i.parents)))
    (h : SC2 e U DS c) : SC2 e U (fun r' => DS r' ∨ r' = r) (schemaStep t c (.ep r, n)) := by
  have hreg : RegP e U i.pkg := ⟨r, i, hU, hi, rfl⟩
  have hp : alGet c.providers r = some [i.pkg] := (h.providers r _).mpr ⟨i.pkg, rfl, hreg, he.prov r i hi⟩
  rw [schemaStep_run hc hp]
  obtain ⟨cur, hcur⟩ := alGet_some_of_isSome (h.used_dom i.pkg hreg)
  refine ⟨fun r' => ?_, nodup_setAdd h.schemas_nodup _, upcAdd_index he hi h.index, h.pkginfos, h.providers,
    fun pk hpk => ?_, fun pk rs hrs => ?_⟩
  · simp [mem_setAdd, h.schemas r']
  · simp only [alGet_alSet]
    split_ifs
    · rfl
    · exact h.used_dom pk hpk
  · simp only [alGet_alSet] at hrs
    split_ifs at hrs with hpk
    · cases hrs
      subst hpk
      rw [hcur]
      obtain ⟨hnd, hmem⟩ := h.used_val _ _ hcur
      refine ⟨nodup_setAdd hnd _, fun r' => ?_⟩
      simp only [Option.getD_some, mem_setAdd, hmem r']
      constructor
      · rintro (⟨hD, hex⟩ | rfl)
        · exact ⟨Or.inl hD, hex⟩
        · exact ⟨Or.inr rfl, i, hi, rfl⟩
      · rintro ⟨hD | rfl, hex⟩
        · exact Or.inl ⟨hD, hex⟩
        · exact Or.inr rfl
    · obtain ⟨hnd, hmem⟩ := h.used_val _ _ hrs
      refine ⟨hnd, fun r' => ?_⟩
      rw [hmem r']
      constructor
      · rintro ⟨hD, hex⟩; exact ⟨Or.inl hD, hex⟩
      · rintro ⟨hD | rfl, j, hj, hjp⟩
        · exact ⟨hD, j, hj, hjp⟩
        · rw [hi] at hj; cases hj; exact absurd hjp.symm hpk

theorem loadSchemas_spec {e : Env} (he : WFEnv e) {L : Path → SRef → Nat → Prop} {U : SRef → Prop} {t : Tree}
    (hk : KeysOK t) (hr : TocRaw e L U t) (hUenv : ∀ r, U r → ∃ i, e.info r = some i) :
    SchemaCache e U (loadSchemas t (loadPackages t).1 (loadPackages t).2) := by
  obtain ⟨hb, -, hs⟩ := tocRaw_iff.mp hr
  obtain ⟨hp1, hp2⟩ := loadPackages_spec he hk hr
  have helem : ∀ x ∈ children t schemasP, ∃ r, x = (Key.ep r, Node.grp) ∧ U r := by
    rintro ⟨k, n⟩ hx
    have hg := (mem_children hk).mp hx
    obtain ⟨r, rfl⟩ := hb.schema_child (k := k) (by rw [hg]; simp)
    have hg' : get? t (schemaDir r) = some n := by simpa [schemaDir, schemasP] using hg
    by_cases hu : U r
    · rw [(hs.sdir r).1 hu] at hg'; cases hg'; exact ⟨r, rfl, hu⟩
    · rw [(hs.sdir r).2 hu] at hg'; cases hg'
  have hmem : ∀ r, (Key.ep r, Node.grp) ∈ children t schemasP ↔ U r := by
    intro r
    constructor
    · intro hx
      obtain ⟨r', h1, h2⟩ := helem _ hx
      cases h1; exact h2
    · intro hu
      exact (mem_children hk).mpr (by have := (hs.sdir r).1 hu; simpa [schemaDir, schemasP] using this)
  rw [loadSchemas_eq]
  have key := foldl_pred (schemaStep t) (fun x => ∃ r, x = (Key.ep r, Node.grp) ∧ U r)
    (fun D c => SC2 e U (fun r => D (Key.ep r, Node.grp)) c) (by
      rintro D c x hP hnD ⟨r, rfl, hu⟩
      obtain ⟨i, hi⟩ := hUenv r hu
      have hc : get? t (schemaDir r ++ [.compat]) = some (.ds (.compat i.parents)) := by
        rw [(hs.compat r).1 hu, ppath_eq hi]
      have := schemaStep_sc2 he (n := Node.grp) hi hu hc hP
      have e1 : (fun r' => D (Key.ep r', Node.grp) ∨ r' = r) =
          (fun r' => D (Key.ep r', Node.grp) ∨ (Key.ep r', Node.grp) = (Key.ep r, Node.grp)) := by
        funext r'; apply propext; simp
      rw [e1] at this; exact this)
    (children t schemasP) (fun _ => False)
    { pkginfos := (loadPackages t).1, providers := (loadPackages t).2,
      used := (loadPackages t).1.map fun e => (e.1, []) }
    (by
      refine ⟨fun r => by simp, List.nodup_nil, ⟨fun P => ?_, fun P => Iff.rfl, fun P l h => ?_, fun P cs h => ?_⟩,
        hp1, hp2, fun pk hpk => ?_, fun pk rs hrs => ?_⟩
      · simp
      · cases h
      · cases h
      · show (alGet ((loadPackages t).1.map fun e => (e.1, ([] : List SRef))) pk).isSome
        rw [alGet_map_const, (hp1 pk _).mpr ⟨hpk, rfl⟩]; rfl
      · have hrs' : alGet ((loadPackages t).1.map fun e => (e.1, ([] : List SRef))) pk = some rs := hrs
        rw [alGet_map_const] at hrs'
        cases hg : alGet (loadPackages t).1 pk with
        | none => rw [hg] at hrs'; cases hrs'
        | some pl => rw [hg] at hrs'; cases hrs'; simp)
    (children_nodup hk _) (fun x hx => ⟨fun h => h, helem x hx⟩)
  have e2 : (fun r => False ∨ (Key.ep r, Node.grp) ∈ children t schemasP) = U := by
    funext r; apply propext; simp [hmem r]
  simp only at key
  rw [e2] at key
  exact key.toSchemaCache

/-! ### `reload` -/

theorem reload_eq (t : Tree) :
    reload t = { loadSchemas t (loadPackages t).1 (loadPackages t).2 with tocPath := loadLinks t } := rfl

/-- the caches of a freshly opened container satisfy the cache specification -/
theorem reload_spec {e : Env} (he : WFEnv e) {L : Path → SRef → Nat → Prop} {U : SRef → Prop} {t : Tree}
    (hk : KeysOK t) (hr : TocRaw e L U t) (huniq : LUniq L) (hUenv : ∀ r, U r → ∃ i, e.info r = some i) :
    SchemaCache e U (reload t) ∧ LinkCache L (reload t) := by
  have h1 := loadSchemas_spec he hk hr hUenv
  rw [reload_eq]
  exact ⟨⟨h1.schemas, h1.schemas_nodup, h1.index, h1.pkginfos, h1.providers, h1.used_dom, h1.used_val⟩,
    loadLinks_spec hk hr huniq⟩

/-- closing and reopening keeps the invariant -/
theorem reload_inv {e : Env} (he : WFEnv e) {s : St} (hi : Inv e s) : Inv e { s with c := reload s.raw } := by
  obtain ⟨h1, h2⟩ := reload_spec he hi.keys hi.toc (fun p p' r r' u => hi.mok.uniq p p' r r' u)
    (fun r ⟨p, u, h⟩ => hi.mok.objenv p r u h)
  exact ⟨hi.keys, hi.pclosed, ⟨hi.mok.ushape, hi.mok.host, hi.mok.objenv, hi.mok.onename, hi.mok.uniq, hi.mok.bound⟩,
    hi.toc, h1, h2⟩

theorem opReopen_inv {e : Env} (he : WFEnv e) {s : St} (hi : Inv e s) : Inv e (opReopen s).2 :=
  reload_inv he hi

/-! ### what the public TOC API can observe of the caches -/

/-- Two cache states agree on everything the TOC API reads: links by uuid (`_toc_path`), the set of
embedded schemas (`schemas.keys()`), `parent_path`, the domain and members of `children`,
`packages` and `provider`. (List orders and the private `_used` table are not observable.) -/
structure CachesEq (c c' : Caches) : Prop where
  tocPath : ∀ u, alGet c.tocPath u = alGet c'.tocPath u
  schemas : ∀ r, r ∈ c.schemas ↔ r ∈ c'.schemas
  parents : ∀ r, alGet c.parents r = alGet c'.parents r
  children_dom : ∀ r, (alGet c.children r).isSome = (alGet c'.children r).isSome
  children : ∀ r x, x ∈ (alGet c.children r).getD [] ↔ x ∈ (alGet c'.children r).getD []
  pkginfos : ∀ pk, alGet c.pkginfos pk = alGet c'.pkginfos pk
  providers : ∀ r, alGet c.providers r = alGet c'.providers r

theorem option_eq_of_iff {α : Type} {o o' : Option α} (h : ∀ a, o = some a ↔ o' = some a) : o = o' := by
  cases o with
  | none =>
    cases o' with
    | none => rfl
    | some b => exact absurd ((h b).mpr rfl) (by simp)
  | some a => exact ((h a).mp rfl).symm

/-- the cache specification determines the observable part of the caches -/
theorem cachesEq_of_spec {e : Env} {L : Path → SRef → Nat → Prop} {U : SRef → Prop} {c c' : Caches}
    (h1 : SchemaCache e U c) (l1 : LinkCache L c) (h2 : SchemaCache e U c') (l2 : LinkCache L c') :
    CachesEq c c' := by
  have hdom : ∀ r, (alGet c.children r).isSome = (alGet c'.children r).isSome := by
    intro r
    rw [Bool.eq_iff_iff, h1.index.dom, h2.index.dom]
  refine ⟨fun u => option_eq_of_iff fun tp => (l1 u tp).trans (l2 u tp).symm,
    fun r => (h1.schemas r).trans (h2.schemas r).symm, fun r => ?_, hdom, fun r x => ?_,
    fun pk => option_eq_of_iff fun pl => (h1.pkginfos pk pl).trans (h2.pkginfos pk pl).symm,
    fun r => option_eq_of_iff fun ps => (h1.providers r ps).trans (h2.providers r ps).symm⟩
  · have hd : (alGet c.parents r).isSome = (alGet c'.parents r).isSome := by
      rw [Bool.eq_iff_iff, h1.index.domp, h2.index.domp, hdom r]
    cases hg : alGet c.parents r with
    | none =>
      cases hg' : alGet c'.parents r with
      | none => rfl
      | some l' => rw [hg, hg'] at hd; cases hd
    | some l =>
      cases hg' : alGet c'.parents r with
      | none => rw [hg, hg'] at hd; cases hd
      | some l' => rw [h1.index.par_val r l hg, h2.index.par_val r l' hg']
  · have hd := hdom r
    cases hg : alGet c.children r with
    | none =>
      cases hg' : alGet c'.children r with
      | none => rfl
      | some l' => rw [hg, hg'] at hd; cases hd
    | some l =>
      cases hg' : alGet c'.children r with
      | none => rw [hg, hg'] at hd; cases hd
      | some l' =>
        simp only [Option.getD_some]
        rw [(h1.index.chi_val r l hg).2 x, (h2.index.chi_val r l' hg').2 x]

/-- **cache coherence**: the index rebuilt from disk agrees with the incrementally maintained one -/
theorem reload_cachesEq {e : Env} (he : WFEnv e) {s : St} (hi : Inv e s) : CachesEq (reload s.raw) s.c := by
  have h := reload_inv he hi
  exact cachesEq_of_spec h.scache h.lcache hi.scache hi.lcache

end MetadorModel.Container
