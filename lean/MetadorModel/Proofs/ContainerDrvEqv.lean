import MetadorModel.Proofs.ContainerDrvDefs
/-!
# Cache equivalence: algebra (C09, reopen points)

Association-list and list-set lemmas, and the congruence of the pure cache-update functions
(`addProviders`, `removeProviders`, `upcAdd`, `upcRemove`, `Handle.query`, `findMissing`, …)
with respect to extensional equality / same-members. No invariant is used anywhere.
-/
namespace MetadorModel.Container

/-! ## Lists as sets, options -/

section Sets
variable {α : Type}

theorem MemEq.refl (l : List α) : MemEq l l := fun _ => Iff.rfl
theorem MemEq.symm {l l' : List α} (h : MemEq l l') : MemEq l' l := fun x => (h x).symm
theorem MemEq.trans {l l' l'' : List α} (h : MemEq l l') (h' : MemEq l' l'') : MemEq l l'' :=
  fun x => (h x).trans (h' x)

theorem MemEq.isEmpty {l l' : List α} (h : MemEq l l') : l.isEmpty = l'.isEmpty := by
  cases l with
  | nil =>
    cases l' with
    | nil => rfl
    | cons y t => exact absurd ((h y).2 (by simp)) (by simp)
  | cons x t =>
    cases l' with
    | nil => exact absurd ((h x).1 (by simp)) (by simp)
    | cons y t' => rfl

theorem MemEq.all {l l' : List α} (h : MemEq l l') {p p' : α → Bool} (hp : ∀ x, p x = p' x) :
    l.all p = l'.all p' := by
  rw [Bool.eq_iff_iff, List.all_eq_true, List.all_eq_true]
  constructor
  · intro hh x hx; rw [← hp]; exact hh x ((h x).2 hx)
  · intro hh x hx; rw [hp]; exact hh x ((h x).1 hx)

variable [DecidableEq α]

theorem c9_mem_setAdd (l : List α) (a x : α) : x ∈ setAdd l a ↔ x ∈ l ∨ x = a := by
  unfold setAdd
  split
  · constructor
    · exact Or.inl
    · rintro (h | rfl)
      · exact h
      · assumption
  · simp [List.mem_append]

theorem c9_mem_setRemove (l : List α) (a x : α) : x ∈ setRemove l a ↔ x ∈ l ∧ x ≠ a := by
  simp [setRemove]

theorem MemEq.setAdd {l l' : List α} (h : MemEq l l') (a : α) : MemEq (setAdd l a) (setAdd l' a) := by
  intro x; rw [c9_mem_setAdd, c9_mem_setAdd, h x]

theorem MemEq.setRemove {l l' : List α} (h : MemEq l l') (a : α) :
    MemEq (setRemove l a) (setRemove l' a) := by
  intro x; rw [c9_mem_setRemove, c9_mem_setRemove, h x]

end Sets

section Opt
variable {α β : Type}

theorem OptRel.isNone {R : α → β → Prop} {o : Option α} {o' : Option β} (h : OptRel R o o') :
    o.isNone = o'.isNone := by cases h <;> rfl

theorem OptRel.isSome {R : α → β → Prop} {o : Option α} {o' : Option β} (h : OptRel R o o') :
    o.isSome = o'.isSome := by cases h <;> rfl

theorem OptRel.getD {R : α → β → Prop} {o : Option α} {o' : Option β} (h : OptRel R o o')
    {d : α} {d' : β} (hd : R d d') : R (o.getD d) (o'.getD d') := by
  cases h with
  | none => exact hd
  | some h => exact h

theorem OptRel.of_eq {R : α → α → Prop} (hr : ∀ a, R a a) {o o' : Option α} (h : o = o') :
    OptRel R o o' := by
  subst h
  cases o with
  | none => exact .none
  | some a => exact .some (hr a)

theorem OptRel.symm {R : α → α → Prop} (hs : ∀ a b, R a b → R b a) {o o' : Option α}
    (h : OptRel R o o') : OptRel R o' o := by
  cases h with
  | none => exact .none
  | some h => exact .some (hs _ _ h)

theorem OptRel.trans {R : α → α → Prop} (ht : ∀ a b c, R a b → R b c → R a c) {o o' o'' : Option α}
    (h : OptRel R o o') (h' : OptRel R o' o'') : OptRel R o o'' := by
  cases h with
  | none => cases h'; exact .none
  | some h => cases h' with | some h' => exact .some (ht _ _ _ h h')

theorem OptRel.memEq_symm {o o' : Option (List α)} (h : OptRel MemEq o o') : OptRel MemEq o' o :=
  OptRel.symm (R := MemEq) (fun _ _ hh => MemEq.symm hh) h

theorem OptRel.memEq_trans {o o' o'' : Option (List α)} (h : OptRel MemEq o o')
    (h' : OptRel MemEq o' o'') : OptRel MemEq o o'' :=
  OptRel.trans (R := MemEq) (fun _ _ _ h1 h2 => MemEq.trans h1 h2) h h'

end Opt

/-- related results of a pure computation that may fail: same error, or related values -/
inductive ExcRel {α : Type} (V : α → α → Prop) : Except Err α → Except Err α → Prop
  | ok {a a' : α} : V a a' → ExcRel V (.ok a) (.ok a')
  | err (e : Err) : ExcRel V (.error e) (.error e)

/-! ## Association lists -/

section AL
variable {α β : Type} [DecidableEq α]

theorem c9_alGet_alSet (l : List (α × β)) (a : α) (b : β) (k : α) :
    alGet (alSet l a b) k = if a = k then some b else alGet l k := by
  induction l with
  | nil => simp [alSet, alGet]
  | cons x t ih =>
    obtain ⟨k0, v0⟩ := x
    by_cases h1 : k0 = a
    · subst h1
      by_cases h2 : k0 = k <;> simp [alSet, alGet, h2]
    · have h1' : ¬ a = k0 := fun h => h1 h.symm
      by_cases h2 : k0 = k
      · subst h2; simp [alSet, alGet, h1, h1']
      · simp [alSet, alGet, h1, h2, ih]

theorem c9_alGet_alErase (l : List (α × β)) (a : α) (k : α) :
    alGet (alErase l a) k = if a = k then none else alGet l k := by
  unfold alErase
  induction l with
  | nil => simp [alGet]
  | cons x t ih =>
    obtain ⟨k0, v0⟩ := x
    simp only [List.filter_cons]
    split
    · rename_i h
      have h1 : k0 ≠ a := by simpa using h
      have h1' : ¬ a = k0 := fun hh => h1 hh.symm
      simp only [alGet, ih]
      by_cases h2 : k0 = k
      · subst h2; simp [h1']
      · simp [h2]
    · rename_i h
      have h1 : k0 = a := by simpa using h
      rw [ih]; subst h1
      by_cases h2 : k0 = k
      · simp [h2]
      · simp [alGet, h2]

theorem c9_alGet_isSome_iff (l : List (α × β)) (k : α) : (alGet l k).isSome ↔ k ∈ l.map (·.1) := by
  induction l with
  | nil => simp [alGet]
  | cons x t ih =>
    obtain ⟨k0, v0⟩ := x
    by_cases h : k0 = k
    · subst h; simp [alGet]
    · have h' : ¬ k = k0 := fun hh => h hh.symm
      simp [alGet, h, h', ih]

/-- extensional equality of dictionaries -/
def AlEq (l l' : List (α × β)) : Prop := ∀ k, alGet l k = alGet l' k

/-- dictionaries with the same keys and related values -/
def AlRel (V : β → β → Prop) (l l' : List (α × β)) : Prop := ∀ k, OptRel V (alGet l k) (alGet l' k)

theorem AlEq.alSet {l l' : List (α × β)} (h : AlEq l l') (a : α) (b : β) :
    AlEq (alSet l a b) (alSet l' a b) := by
  intro k; rw [c9_alGet_alSet, c9_alGet_alSet, h k]

theorem AlEq.alErase {l l' : List (α × β)} (h : AlEq l l') (a : α) :
    AlEq (alErase l a) (alErase l' a) := by
  intro k; rw [c9_alGet_alErase, c9_alGet_alErase, h k]

theorem AlRel.alSet {V : β → β → Prop} {l l' : List (α × β)} (h : AlRel V l l') (a : α) {b b' : β}
    (hb : V b b') : AlRel V (alSet l a b) (alSet l' a b') := by
  intro k; rw [c9_alGet_alSet, c9_alGet_alSet]
  split
  · exact .some hb
  · exact h k

theorem AlRel.alErase {V : β → β → Prop} {l l' : List (α × β)} (h : AlRel V l l') (a : α) :
    AlRel V (alErase l a) (alErase l' a) := by
  intro k; rw [c9_alGet_alErase, c9_alGet_alErase]
  split
  · exact .none
  · exact h k

theorem AlRel.keys {V : β → β → Prop} {l l' : List (α × β)} (h : AlRel V l l') (k : α) :
    k ∈ l.map (·.1) ↔ k ∈ l'.map (·.1) := by
  rw [← c9_alGet_isSome_iff, ← c9_alGet_isSome_iff, (h k).isSome]

end AL

/-! ## `addProviders` / `removeProviders` -/

theorem addProviders_congr {p p' : List (SRef × List PkgId)} (h : AlEq p p') (pkg : PkgId)
    (rs : List SRef) : AlEq (addProviders p pkg rs) (addProviders p' pkg rs) := by
  induction rs generalizing p p' with
  | nil => exact h
  | cons r rs ih =>
    simp only [addProviders]
    rw [h r]
    exact ih (h.alSet _ _)

theorem addProviders_mem {p : List (SRef × List PkgId)} {pkg : PkgId} {rs : List SRef} {r : SRef}
    {pk : PkgId} (h : pk ∈ (alGet (addProviders p pkg rs) r).getD []) :
    pk = pkg ∨ pk ∈ (alGet p r).getD [] := by
  induction rs generalizing p with
  | nil => exact Or.inr h
  | cons r0 rs ih =>
    simp only [addProviders] at h
    rcases ih h with h2 | h2
    · exact Or.inl h2
    · rw [c9_alGet_alSet] at h2
      split at h2
      · subst_vars
        simp only [Option.getD_some, c9_mem_setAdd] at h2
        rcases h2 with h3 | h3
        · exact Or.inr h3
        · exact Or.inl h3
      · exact Or.inr h2

theorem removeProviders_congr {p p' : List (SRef × List PkgId)} (h : AlEq p p') (pkg : PkgId)
    (rs : List SRef) : ExcRel AlEq (removeProviders p pkg rs) (removeProviders p' pkg rs) := by
  induction rs generalizing p p' with
  | nil => exact .ok h
  | cons r rs ih =>
    simp only [removeProviders]
    rw [← h r]
    cases alGet p r with
    | none => exact .err _
    | some ps =>
      dsimp only
      split
      · exact .err _
      · apply ih
        split
        · exact h.alErase _
        · exact h.alSet _ _

theorem removeProviders_sub {p p1 : List (SRef × List PkgId)} {pkg : PkgId} {rs : List SRef}
    (h : removeProviders p pkg rs = .ok p1) {r : SRef} {pk : PkgId}
    (hm : pk ∈ (alGet p1 r).getD []) : pk ∈ (alGet p r).getD [] := by
  induction rs generalizing p with
  | nil => simp only [removeProviders, Except.ok.injEq] at h; subst h; exact hm
  | cons r0 rs ih =>
    simp only [removeProviders] at h
    cases hg : alGet p r0 with
    | none => rw [hg] at h; cases h
    | some ps =>
      rw [hg] at h
      dsimp only at h
      split at h
      · cases h
      · have := ih h
        split at this
        · rw [c9_alGet_alErase] at this
          split at this
          · simp at this
          · exact this
        · rw [c9_alGet_alSet] at this
          split at this
          · subst_vars
            rw [hg]
            simp only [Option.getD_some, c9_mem_setRemove] at this ⊢
            exact this.1
          · exact this

/-! ## `upcAdd` / `upcRemove` -/

/-- one step of the `_parents` update of `upcAdd` -/
def parStep (par : List (SRef × List SRef)) (p : SRef) (upto : List SRef) : List (SRef × List SRef) :=
  if (alGet par p).isNone then alSet par p upto else par

/-- one step of the `_children` update of `upcAdd` -/
def chiStep (ref : SRef) (chi : List (SRef × List SRef)) (p : SRef) : List (SRef × List SRef) :=
  let chi1 := if (alGet chi p).isNone then alSet chi p [] else chi
  if p ≠ ref then alSet chi1 p (setAdd ((alGet chi1 p).getD []) ref) else chi1

theorem upcAdd_cons (ref : SRef) (par chi : List (SRef × List SRef)) (done : List SRef) (p : SRef)
    (rest : List SRef) :
    upcAdd ref par chi done (p :: rest) =
      upcAdd ref (parStep par p (done ++ [p])) (chiStep ref chi p) (done ++ [p]) rest := rfl

theorem parStep_congr {par par' : List (SRef × List SRef)} (h : AlEq par par') (p : SRef)
    (upto : List SRef) : AlEq (parStep par p upto) (parStep par' p upto) := by
  unfold parStep
  rw [h p]
  split
  · exact h.alSet _ _
  · exact h

theorem chiStep_congr {chi chi' : List (SRef × List SRef)} (h : AlRel MemEq chi chi') (ref p : SRef) :
    AlRel MemEq (chiStep ref chi p) (chiStep ref chi' p) := by
  have h1 : AlRel MemEq (if (alGet chi p).isNone then alSet chi p [] else chi)
      (if (alGet chi' p).isNone then alSet chi' p [] else chi') := by
    rw [(h p).isNone]
    split
    · exact h.alSet _ (MemEq.refl _)
    · exact h
  unfold chiStep
  dsimp only
  split
  · exact h1.alSet _ (((h1 p).getD (MemEq.refl _)).setAdd _)
  · exact h1

theorem upcAdd_congr (ref : SRef) {par par' chi chi' : List (SRef × List SRef)} (hp : AlEq par par')
    (hc : AlRel MemEq chi chi') (done rest : List SRef) :
    AlEq (upcAdd ref par chi done rest).1 (upcAdd ref par' chi' done rest).1 ∧
    AlRel MemEq (upcAdd ref par chi done rest).2 (upcAdd ref par' chi' done rest).2 := by
  induction rest generalizing par par' chi chi' done with
  | nil => exact ⟨hp, hc⟩
  | cons p rest ih =>
    rw [upcAdd_cons, upcAdd_cons]
    exact ih (parStep_congr hp _ _) (chiStep_congr hc _ _) _

theorem upcRemove_congr (ref : SRef) {sch sch' : List SRef} (hs : MemEq sch sch')
    {par par' chi chi' : List (SRef × List SRef)} (hp : AlEq par par') (hc : AlRel MemEq chi chi')
    (ps : List SRef) :
    ExcRel (fun x x' => AlEq x.1 x'.1 ∧ AlRel MemEq x.2 x'.2)
      (upcRemove ref sch par chi ps) (upcRemove ref sch' par' chi' ps) := by
  induction ps generalizing par par' chi chi' with
  | nil => exact .ok ⟨hp, hc⟩
  | cons p rest ih =>
    -- what happens after `cs'` and the new `chi` have been computed
    have tail : ∀ (csx csx' : List SRef) (chix chix' : List (SRef × List SRef)),
        MemEq csx csx' → AlRel MemEq chix chix' →
        ExcRel (fun x x' => AlEq x.1 x'.1 ∧ AlRel MemEq x.2 x'.2)
          (if p ∈ sch then upcRemove ref sch par chix rest
           else if csx.all (fun ch => ch ∉ sch) then
             if (alGet par p).isNone then .error .key
             else upcRemove ref sch (alErase par p) (alErase chix p) rest
           else upcRemove ref sch par chix rest)
          (if p ∈ sch' then upcRemove ref sch' par' chix' rest
           else if csx'.all (fun ch => ch ∉ sch') then
             if (alGet par' p).isNone then .error .key
             else upcRemove ref sch' (alErase par' p) (alErase chix' p) rest
           else upcRemove ref sch' par' chix' rest) := by
      intro csx csx' chix chix' hcs hchi
      have hall : csx.all (fun ch => decide (ch ∉ sch)) = csx'.all (fun ch => decide (ch ∉ sch')) :=
        hcs.all (fun x => by simp only [hs x])
      rw [hall, hp p]
      by_cases hm : p ∈ sch
      · have hm' : p ∈ sch' := (hs p).1 hm
        rw [if_pos hm, if_pos hm']
        exact ih hp hchi
      · have hm' : p ∉ sch' := fun h => hm ((hs p).2 h)
        rw [if_neg hm, if_neg hm']
        by_cases ha : (csx'.all fun ch => decide (ch ∉ sch')) = true
        · rw [if_pos ha, if_pos ha]
          by_cases hn : (alGet par' p).isNone = true
          · rw [if_pos hn, if_pos hn]; exact .err _
          · rw [if_neg hn, if_neg hn]; exact ih (hp.alErase _) (hchi.alErase _)
        · rw [if_neg ha, if_neg ha]
          exact ih hp hchi
    simp only [upcRemove]
    have hcp := hc p
    generalize alGet chi p = o at hcp
    generalize alGet chi' p = o' at hcp
    cases hcp with
    | none => exact .err _
    | @some cs cs' hcs =>
      dsimp only
      by_cases hpr : p = ref
      · have hn : ¬ (p ≠ ref) := fun h => h hpr
        simp only [if_neg hn]
        exact tail _ _ _ _ hcs hc
      · have hn : p ≠ ref := hpr
        simp only [if_pos hn]
        exact tail _ _ _ _ (hcs.setRemove _) (hc.alSet _ (hcs.setRemove _))

/-! ## Relations on caches and states -/

/-- packages that provide some schema according to the cache -/
def Prov (c : Caches) (pk : PkgId) : Prop := ∃ r, pk ∈ (alGet c.providers r).getD []

/-- `CachesEqv` with the two roles of "currently providing packages" made explicit: the `used`
tables are related on `U`, the providing packages of the left cache lie in `P`. (`CachesEqv` is
the case `U = P = Prov c`; between `TOCPackages._register` and the initialisation of the `used`
entry the two differ.) -/
structure CRel (U P : PkgId → Prop) (c c' : Caches) : Prop where
  tocPath : AlEq c.tocPath c'.tocPath
  parents : AlEq c.parents c'.parents
  pkginfos : AlEq c.pkginfos c'.pkginfos
  providers : AlEq c.providers c'.providers
  schemas : MemEq c.schemas c'.schemas
  children : AlRel MemEq c.children c'.children
  used : ∀ pk, U pk → OptRel MemEq (alGet c.used pk) (alGet c'.used pk)
  prov : ∀ r pk, pk ∈ (alGet c.providers r).getD [] → P pk

structure StRel (U P : PkgId → Prop) (s s' : St) : Prop where
  raw : s.raw = s'.raw
  next : s.next = s'.next
  c : CRel U P s.c s'.c

theorem CachesEqv.toCRel {c c' : Caches} (h : CachesEqv c c') : CRel (Prov c) (Prov c) c c' :=
  ⟨h.tocPath, h.parents, h.pkginfos, h.providers, h.schemas, h.children,
   fun pk ⟨r, hr⟩ => h.used r pk hr, fun r _ hr => ⟨r, hr⟩⟩

theorem CRel.toEqv {U P : PkgId → Prop} (hPU : ∀ pk, P pk → U pk) {c c' : Caches} (h : CRel U P c c') :
    CachesEqv c c' :=
  ⟨h.tocPath, h.parents, h.pkginfos, h.providers, h.schemas, h.children,
   fun r pk hr => h.used pk (hPU pk (h.prov r pk hr))⟩

theorem ObsEq.toStRel {s s' : St} (h : ObsEq s s') : StRel (Prov s.c) (Prov s.c) s s' :=
  ⟨h.1, h.2.1, h.2.2.toCRel⟩

theorem StRel.toObsEq {U P : PkgId → Prop} (hPU : ∀ pk, P pk → U pk) {s s' : St} (h : StRel U P s s') :
    ObsEq s s' := ⟨h.raw, h.next, h.c.toEqv hPU⟩

theorem CachesEqv.refl (c : Caches) : CachesEqv c c :=
  ⟨fun _ => rfl, fun _ => rfl, fun _ => rfl, fun _ => rfl, fun _ => Iff.rfl,
   fun _ => OptRel.of_eq MemEq.refl rfl, fun _ _ _ => OptRel.of_eq MemEq.refl rfl⟩

theorem CachesEqv.symm {c c' : Caches} (h : CachesEqv c c') : CachesEqv c' c :=
  ⟨fun k => (h.tocPath k).symm, fun k => (h.parents k).symm, fun k => (h.pkginfos k).symm,
   fun k => (h.providers k).symm, fun r => (h.schemas r).symm,
   fun r => (h.children r).memEq_symm,
   fun r pk hr => (h.used r pk (by rw [h.providers r]; exact hr)).memEq_symm⟩

theorem CachesEqv.trans {c c' c'' : Caches} (h : CachesEqv c c') (h' : CachesEqv c' c'') :
    CachesEqv c c'' :=
  ⟨fun k => (h.tocPath k).trans (h'.tocPath k), fun k => (h.parents k).trans (h'.parents k),
   fun k => (h.pkginfos k).trans (h'.pkginfos k), fun k => (h.providers k).trans (h'.providers k),
   fun r => (h.schemas r).trans (h'.schemas r),
   fun r => (h.children r).memEq_trans (h'.children r),
   fun r pk hr => (h.used r pk hr).memEq_trans (h'.used r pk (by rw [← h.providers r]; exact hr))⟩

theorem ObsEq.refl (s : St) : ObsEq s s := ⟨rfl, rfl, CachesEqv.refl _⟩
theorem ObsEq.symm {s s' : St} (h : ObsEq s s') : ObsEq s' s := ⟨h.1.symm, h.2.1.symm, h.2.2.symm⟩
theorem ObsEq.trans {s s' s'' : St} (h : ObsEq s s') (h' : ObsEq s' s'') : ObsEq s s'' :=
  ⟨h.1.trans h'.1, h.2.1.trans h'.2.1, h.2.2.trans h'.2.2⟩

/-! ## Reads of the state that related states answer alike -/

theorem c9_nodeKind_congr {s s' : St} (h : ObsEq s s') (p : Path) : nodeKind s p = nodeKind s' p := by
  unfold nodeKind; rw [h.1]

theorem openHandle_congr {s s' : St} (h : ObsEq s s') (p : Path) (k : Bool) :
    openHandle s p k = openHandle s' p k := by
  unfold openHandle; rw [h.1]

theorem linkResolve_congr {s s' : St} (h : ObsEq s s') (u : Nat) : linkResolve s u = linkResolve s' u := by
  unfold linkResolve; rw [h.1, h.2.2.tocPath u]

theorem findMissing_congr {s s' : St} (h : ObsEq s s') (p : Path) : findMissing s p = findMissing s' p := by
  unfold findMissing
  rw [h.1]
  congr 1
  funext acc e
  simp only [h.2.2.tocPath, linkResolve_congr h]

theorem mem_compat_congr {c c' : Caches} (h : AlRel MemEq c.children c'.children) (name : String)
    (ver : Option Ver) (x : SRef) :
    x ∈ ((tocVersions c name ver).map (tocChildren c)).flatten ↔
    x ∈ ((tocVersions c' name ver).map (tocChildren c')).flatten := by
  have hv : ∀ r, r ∈ tocVersions c name ver ↔ r ∈ tocVersions c' name ver := by
    intro r
    unfold tocVersions
    cases ver with
    | none => simp only [List.mem_filter, h.keys r]
    | some v => simp only [List.mem_filter, h.keys r]
  have hc : ∀ r, x ∈ tocChildren c r ↔ x ∈ tocChildren c' r := fun r =>
    (h r).getD (d := []) (d' := []) (MemEq.refl _) x
  simp only [List.mem_flatten, List.mem_map]
  constructor
  · rintro ⟨l, ⟨r, hr, rfl⟩, hx⟩
    exact ⟨_, ⟨r, (hv r).1 hr, rfl⟩, (hc r).1 hx⟩
  · rintro ⟨l, ⟨r, hr, rfl⟩, hx⟩
    exact ⟨_, ⟨r, (hv r).2 hr, rfl⟩, (hc r).2 hx⟩

theorem query_congr {c c' : Caches} (h : AlRel MemEq c.children c'.children) (hd : Handle)
    (name : String) (ver : Option Ver) : hd.query c name ver = hd.query c' name ver := by
  unfold Handle.query
  dsimp only
  congr 1
  apply List.filter_congr
  intro x _
  simp only [mem_compat_congr h name ver x]

theorem handleGet_congr (e : Env) {s s' : St} (h : ObsEq s s') (hd : Handle) (name : String)
    (ver : Option Ver) : hd.get e s name ver = hd.get e s' name ver := by
  unfold Handle.get Handle.getAll
  rw [query_congr h.2.2.children, h.1]

end MetadorModel.Container
