import MetadorModel.Model.CodecParsers
import MetadorModel.Props.C12
/-!
# Facts about the glue-code model (`Model/CodecParsers.lean`) that C12 needs

* the encoder of every schema class reaches the registry, and with it `.json()` of the model is
  `encode` of `Model/Codec.lean` (`encodeVia_classLeaf`, `jsonText_default`); pydantic's own encoder
  fails on the three opaque classes (`pydanticLeaf_fails`, the pinned behaviour F4);
* the own JSON, bytes and YAML text of a valid instance is accepted by `parseRaw` and gives back an equal
  value (`parseRaw_own_json/bytes/yaml`), for the `Env` that the parsers and libraries define (`envOf`);
* validation of an opaque field in `Model/Codec.lean` (`decode (envOf L) (.opq k)`) has the outcome of the
  parser pipeline (`decode_opq_envOf`); pint exceptions never abort a validation (`pint_never_crashes`, F27);
* `override_consts` as an explicit `dict.update` is what `decode` does with constants (`decode_overrideConsts`);
  the JSON schema lists every constant (`schemaExtraLoop_spec`);
* `NumValue`: booleans are refused (F20), a unit-less number stays unit-less (F29), own output is a fixed
  point (`numParse_own_output`).
Library laws are hypotheses (`TextLaws`, `NumLaws`).
-/
namespace MetadorModel.CodecParsers
open MetadorModel.Codec MetadorModel.C12

/-! ## encoder -/

theorem registry_get (k : Opq) : ∃ f, registryModel.get (.opq k) = some f ∧ ∀ L s, applyEncFn L f (.opq k s) = .ok (.str s) := by
  cases k
  · exact ⟨.durationIsoformat, by decide, fun _ _ => rfl⟩
  · exact ⟨.str, by decide, fun _ _ => rfl⟩
  · exact ⟨.str, by decide, fun _ _ => rfl⟩

theorem classLeaf_opq (L : Lib) (k : Opq) (s : Str) : classLeaf L registryModel (.opq k s) = .ok (.str s) := by
  obtain ⟨f, hf, ha⟩ := registry_get k
  simp [classLeaf, dynLeaf, pydanticLeaf, pyTypeKey, hf, ha]

mutual
/-- with the dynamic lookup (and the forced options `by_alias`, `exclude_none`) the dump of the glue-code
model is `encode` of `Model/Codec.lean` -/
theorem encodeVia_classLeaf (L : Lib) (un : Str → Str) : ∀ v : PyVal,
    encodeVia (classLeaf L registryModel) ⟨true, true⟩ un v = .ok (encode v)
  | .none => by simp [encodeVia, encode]
  | .bool _ => by simp [encodeVia, encode]
  | .int _ => by simp [encodeVia, encode]
  | .float _ => by simp [encodeVia, encode]
  | .str _ => by simp [encodeVia, encode]
  | .opq k s => by simp [encodeVia, encode, classLeaf_opq]
  | .list vs => by simp [encodeVia, encode, encodeViaList_classLeaf L un vs]
  | .set vs => by simp [encodeVia, encode, encodeViaList_classLeaf L un vs]
  | .obj n fs cs xs => by simp [encodeVia, encode, encodeViaFields_classLeaf L un fs]
theorem encodeViaList_classLeaf (L : Lib) (un : Str → Str) : ∀ vs : List PyVal,
    encodeViaList (classLeaf L registryModel) ⟨true, true⟩ un vs = .ok (encodeList vs)
  | [] => by simp [encodeViaList, encodeList]
  | v :: vs => by simp [encodeViaList, encodeList, encodeVia_classLeaf L un v, encodeViaList_classLeaf L un vs]
theorem encodeViaFields_classLeaf (L : Lib) (un : Str → Str) : ∀ fs : List (Str × PyVal),
    encodeViaFields (classLeaf L registryModel) ⟨true, true⟩ un fs = .ok (encodeFields fs)
  | [] => by simp [encodeViaFields, encodeFields]
  | (k, v) :: r => by
    cases v <;> simp [encodeViaFields, encodeFields, encodeViaFields_classLeaf L un r, encodeVia_classLeaf L un]
end

/-- pydantic's own encoder (what a class has whose metaclass `__init__` did not chain, F4) cannot dump an
instance that holds a duration, unit or quantity -/
theorem pydanticLeaf_fails (o : DumpOpts) (un : Str → Str) (n f : Str) (k : Opq) (s : Str) (cs xs : Dict) :
    encodeVia pydanticLeaf o un (.obj n [(f, .opq k s)] cs xs) = .error .typeError := by
  simp [encodeVia, encodeViaFields, pydanticLeaf]

/-! ## dump options and text -/

theorem dumpOpts_forced_nil : dumpOpts (forcedKw []) = ⟨true, true⟩ := by decide
theorem kwRest_forced_nil : kwRest (forcedKw []) = [] := by decide

/-- an explicit option of the caller is respected -/
theorem forcedKw_keeps (kw : Dict) (k : Str) (x : Json) (h : lookup k kw = some x) : lookup k (forcedKw kw) = some x := by
  have hk : ∀ (k' : Str) (d : Dict), lookup k d = some x → lookup k (if hasKey k' d then d else setKey k' (.bool true) d) = some x := by
    intro k' d hd
    split
    · exact hd
    · rename_i hh
      have hne : k ≠ k' := by
        intro e
        subst e
        have : lookup k d = none := lookup_none_of_hasKey k d (by simpa using hh)
        rw [this] at hd
        cases hd
      rw [lookup_setKey_ne k' k (.bool true) d hne]
      exact hd
  unfold forcedKw
  exact hk _ _ (hk _ _ h)

/-- `.json()` without arguments of an instance of a class with the dynamic encoder -/
theorem jsonText_default (L : Lib) (v : PyVal) :
    jsonText L (classLeaf L registryModel) v [] = .ok (L.jsonDumps [] (encode v)) := by
  simp [jsonText, pydJson, dumpOpts_forced_nil, kwRest_forced_nil, encodeVia_classLeaf]

/-- laws of the text libraries that the round trip needs -/
structure TextLaws (L : Lib) : Prop where
  json_rt : ∀ j, L.jsonLoads (L.jsonDumps [] j) = some j
  json_nl : ∀ j, L.jsonLoads (L.jsonDumps [] j ++ ['\n']) = some j
  yaml_rt : ∀ j, L.yamlLoad (L.yamlDump j) = .ok j
  /-- YAML text that happens to be JSON denotes the same data -/
  yaml_json : ∀ j j', L.jsonLoads (L.yamlDump j) = some j' → j' = j

theorem pydValidate_own (L : Lib) (t : Ty) (v : PyVal) (h : Valid (envOf L) t v) :
    pydValidate L t (encode v) = .ok v := by
  simp [pydValidate, roundtrip (envOf L) t v h]

/-- `S.parse_raw(o.json()) == o` -/
theorem parseRaw_own_json (L : Lib) (hl : TextLaws L) (t : Ty) (v : PyVal) (h : Valid (envOf L) t v) :
    ∃ s, jsonText L (classLeaf L registryModel) v [] = .ok s ∧ parseRaw L t s [] = .ok v := by
  refine ⟨_, jsonText_default L v, ?_⟩
  simp [parseRaw, pydParseRaw, hl.json_rt, pydValidate_own L t v h]

/-- `S.parse_raw(bytes(o)) == o` -/
theorem parseRaw_own_bytes (L : Lib) (hl : TextLaws L) (t : Ty) (v : PyVal) (h : Valid (envOf L) t v) :
    ∃ s, bytesOf L (classLeaf L registryModel) v = .ok s ∧ parseRaw L t s [] = .ok v := by
  refine ⟨L.jsonDumps [] (encode v) ++ ['\n'], by simp [bytesOf, jsonText_default], ?_⟩
  simp [parseRaw, pydParseRaw, hl.json_nl, pydValidate_own L t v h]

/-- `S.parse_raw(o.yaml()) == o`: whether or not the YAML text is also JSON -/
theorem parseRaw_own_yaml (L : Lib) (hl : TextLaws L) (t : Ty) (v : PyVal) (h : Valid (envOf L) t v) :
    ∃ s, yamlText L (classLeaf L registryModel) v = .ok s ∧ parseRaw L t s [] = .ok v := by
  refine ⟨L.yamlDump (encode v), by simp [yamlText, jsonDict, jsonText_default, loadsOrRaise, hl.json_rt], ?_⟩
  simp only [parseRaw, pydParseRaw, List.isEmpty_nil, if_true]
  cases hj : L.jsonLoads (L.yamlDump (encode v)) with
  | none => simp [parseYamlRawAs, hl.yaml_rt, pydValidate_own L t v h]
  | some j' =>
    have := hl.yaml_json _ _ hj
    subst this
    simp [pydValidate_own L t v h]

/-- `o.json_dict()` is the dump itself, hence shows every constant (`C12.constants_forced`) -/
theorem jsonDict_default (L : Lib) (hl : TextLaws L) (v : PyVal) :
    jsonDict L (classLeaf L registryModel) v [] = .ok (encode v) := by
  simp [jsonDict, jsonText_default, loadsOrRaise, hl.json_rt]

/-- an exception that is no validation error is never retried as YAML -/
theorem parseRaw_crash (L : Lib) (t : Ty) (dat : Str) (kw : Dict) (e : PyErr) (he : e ≠ .validationError)
    (h : pydParseRaw L t dat kw = .error e) : parseRaw L t dat kw = .error e := by
  cases e <;> simp_all [parseRaw]

/-! ## parsers -/

/-- accepted / refused with a validation error / aborted -/
inductive Outcome (α : Type)
  | ok (a : α)
  | refused
  | aborted

def outcomeE {α : Type} : Except Err α → Outcome α
  | .ok a => .ok a
  | .error .crash => .aborted
  | .error _ => .refused

def outcomeM : M Obj → Outcome PyVal
  | .ok (.inst k n) => .ok (.opq k n)
  | .ok _ => .aborted   -- not reached: strict parsers return instances
  | .error e => if e.isValidation then .refused else .aborted

theorem validateOpq_inst (L : Lib) (k : Opq) (v r : Obj) (h : validateOpq L k v = .ok r) : ∃ n, r = .inst k n := by
  cases k <;> simp only [validateOpq] at h
  · split at h
    · split at h <;> simp at h
      exact ⟨_, h.symm⟩
    · simp at h; exact ⟨_, h.symm⟩
    · cases h
  all_goals
    split at h
    · cases h
    · split at h
      · split at h <;> simp at h
        rename_i hk
        simp at hk
        subst hk
        exact ⟨_, h.symm⟩
      · split at h
        · simp at h; exact ⟨_, h.symm⟩
        · split at h <;> cases h
      · cases h

/-- the opaque case of `decode` in `Model/Codec.lean`, instantiated with `envOf L`, has the outcome of the
modelled parser pipeline on every JSON input -/
theorem decode_opq_envOf (L : Lib) (k : Opq) (j : Json) :
    outcomeE (decode (envOf L) (.opq k) j) = outcomeM (validateOpq L k (.json j)) := by
  cases j with
  | str s =>
    have key : ∀ r, validateOpq L k (.json (.str s)) = r →
        outcomeE (decode (envOf L) (.opq k) (.str s)) = outcomeM r := by
      intro r hr
      simp only [decode, envOf, hr]
      cases r with
      | error e => cases he : e.isValidation <;> simp [outcomeE, outcomeM, he]
      | ok r =>
        obtain ⟨n, rfl⟩ := validateOpq_inst L k _ r hr
        simp [outcomeE, outcomeM]
    exact key _ rfl
  | _ =>
    cases k <;> simp [decode, validateOpq, outcomeE, Obj.truthy] <;> (try split) <;> simp [outcomeM, PyErr.isValidation]

/-- whatever pint raises is turned into a validation error (F27): a unit / quantity field never aborts -/
theorem pint_never_crashes (L : Lib) (s : Str) : (envOf L).crash .unit s = false ∧ (envOf L).crash .qty s = false := by
  constructor <;>
  · simp only [envOf, validateOpq]
    split
    · rename_i e he
      split at he
      · cases he; rfl
      · split at he <;> simp at he
        rename_i e' _
        by_cases hv : e'.isValidation = true
        · simp [hv] at he; subst he; simp [hv]
        · simp [hv] at he; subst he; rfl
    · rfl

/-- the cache of `__get_validators__` is coherent: a second call yields the same validators -/
theorem validatorsOf_idem (c c' : PCls) (vs : List Validator) (h : validatorsOf c = .ok (c', vs)) :
    validatorsOf c' = .ok (c', vs) := by
  simp only [validatorsOf] at h
  split at h
  · simp at h
    obtain ⟨rfl, rfl⟩ := h
    rename_i f hf
    simp [validatorsOf, hf]
  · split at h
    · cases h
    · simp at h
      obtain ⟨rfl, rfl⟩ := h
      simp [validatorsOf, pfuncValidators]
    · simp at h
      obtain ⟨rfl, rfl⟩ := h
      simp [validatorsOf, pfuncValidators]


/-! ## constants -/

/-- `override_consts` written as the explicit `values.update(cls.__constants__)` of the source changes nothing
for `decode`, which ignores whatever the input says under a constant key: the treatment of constants in
`Model/Codec.lean` is the source's -/
theorem decode_overrideConsts (env : Env) (n : Str) (ex : Extra) (fs : List Field) (cs : Dict) (kvs : Dict)
    (hdisj : ∀ f ∈ fs, hasKey (fieldName f) cs = false) :
    decode env (.model n ex fs cs) (.obj (overrideConsts cs kvs)) = decode env (.model n ex fs cs) (.obj kvs) := by
  unfold overrideConsts dictUpdate
  have key : ∀ (l : Dict) (d : Dict), (∀ p ∈ l, hasKey p.1 cs = true) →
      decode env (.model n ex fs cs) (.obj (l.foldl (fun acc p => setKey p.1 p.2 acc) d)) = decode env (.model n ex fs cs) (.obj d) := by
    intro l
    induction l with
    | nil => intro d _; rfl
    | cons p l ih =>
      intro d hl
      simp only [List.foldl]
      rw [ih _ (fun q hq => hl q (List.mem_cons_of_mem _ hq))]
      exact constants_ignored env n ex fs cs d p.1 p.2 (hl p (List.mem_cons_self ..)) hdisj
  apply key
  intro p hp
  simp only [hasKey, List.any_eq_true]
  exact ⟨p, hp, by simp⟩

theorem lookup_setKey_eq (k : Str) (x : Json) (l : Dict) : lookup k (setKey k x l) = some x := by
  induction l with
  | nil => simp [setKey, lookup]
  | cons p l ih =>
    obtain ⟨k', v⟩ := p
    by_cases e : k = k'
    · simp [setKey, lookup, e]
    · simp [setKey, lookup, e, ih]

theorem dictSet2_spec (d : Dict) (k1 k2 : Str) (v : Json) (inner : Dict) (h : lookup k1 d = some (.obj inner)) :
    dictSet2 d k1 k2 v = .ok (setKey k1 (.obj (setKey k2 v inner)) d) := by
  simp [dictSet2, h]

/-- **constants are exported into the JSON schema**: on a schema with a `properties` object, `schema_extra`
does not raise, lists every constant under `properties` (as `True`, so that it is not rejected) and stores its
value under `$metador_constants` -/
theorem schemaExtraLoop_spec : ∀ (cs : Dict) (schema ps ks : Dict),
    lookup kProperties schema = some (.obj ps) → lookup kConstFlds schema = some (.obj ks) →
    ∃ r, schemaExtraLoop schema cs = .ok r ∧
      lookup kProperties r = some (.obj (dictUpdate ps (cs.map (fun p => (p.1, Json.bool true))))) ∧
      lookup kConstFlds r = some (.obj (dictUpdate ks cs))
  | [], schema, ps, ks, hp, hk => ⟨schema, rfl, by simpa [dictUpdate] using hp, by simpa [dictUpdate] using hk⟩
  | (c, v) :: rest, schema, ps, ks, hp, hk => by
    have hne : kConstFlds ≠ kProperties := by decide
    simp only [schemaExtraLoop, dictSet2_spec schema kProperties c (.bool true) ps hp]
    have h1 : lookup kConstFlds (setKey kProperties (.obj (setKey c (.bool true) ps)) schema) = some (.obj ks) := by
      rw [lookup_setKey_ne kProperties kConstFlds _ schema hne]; exact hk
    simp only [dictSet2_spec _ kConstFlds c v ks h1]
    have h2 : lookup kProperties (setKey kConstFlds (.obj (setKey c v ks)) (setKey kProperties (.obj (setKey c (.bool true) ps)) schema))
        = some (.obj (setKey c (.bool true) ps)) := by
      rw [lookup_setKey_ne kConstFlds kProperties _ _ (Ne.symm hne)]; exact lookup_setKey_eq _ _ _
    obtain ⟨r, hr, hrp, hrk⟩ := schemaExtraLoop_spec rest _ _ _ h2 (lookup_setKey_eq _ _ _)
    exact ⟨r, hr, by simpa [dictUpdate] using hrp, by simpa [dictUpdate] using hrk⟩

/-- … for the whole function: a class with constants gets the `$metador_constants` object -/
theorem schemaExtra_spec (L : Lib) (schema : Dict) (model : SchemaCls) (ps : Dict)
    (hc : model.unwrap.constants ≠ [])
    (hp : lookup kProperties (if model.unwrap.isMetadataSchema then schema else L.addDescriptions schema) = some (.obj ps)) :
    ∃ r, schemaExtra L schema model = .ok r ∧
      lookup kConstFlds r = some (.obj (dictUpdate [] model.unwrap.constants)) := by
  have hne : kProperties ≠ kConstFlds := by decide
  have he : model.unwrap.constants.isEmpty = false := by
    cases h : model.unwrap.constants with
    | nil => exact absurd h hc
    | cons _ _ => rfl
  simp only [schemaExtra, he]
  obtain ⟨r, hr, _, hrk⟩ := schemaExtraLoop_spec model.unwrap.constants
    (setKey kConstFlds (.obj []) (if model.unwrap.isMetadataSchema then schema else L.addDescriptions schema)) ps []
    (by rw [lookup_setKey_ne kConstFlds kProperties _ _ hne]; exact hp) (lookup_setKey_eq _ _ _)
  exact ⟨r, by simpa using hr, hrk⟩

/-! ## `NumValue` -/

/-- F20: a boolean is refused, whatever the configuration -/
theorem numParse_bool_refused (L : Lib) (cfg : NumCfg) (b : Bool) :
    numParse L cfg (.json (.bool b)) = .error .typeError := rfl

/-- F29: with a parser that infers no unit, a bare number has no unit … -/
theorem numParse_unitless (L : Lib) (au : List Str) (i : Int) :
    numParse L ⟨au, none, false⟩ (.json (.int i)) = .ok (.qv ⟨.tcls, .int i, .null, .null⟩) := rfl

/-- what pydantic guarantees about the helper calls of the parser on the parser's own output -/
structure NumLaws (L : Lib) : Prop where
  /-- validating the dump of a parser-built value against the base class gives its value and unit back -/
  base_dump : ∀ q : QV, q.unitCode = .null →
    L.baseValidate (.json (.obj (dumpQV q))) = .ok (.qv ⟨.base, q.value, q.unitText, .null⟩)
  number_id : ∀ j, isNumber j = true → L.parseNumber (.json j) = .ok (.json j)
  numstr_id : ∀ j s, isNumber j = true →
    L.parseNumStr (.tuple [.json j, .json (.str s)]) = .ok (.tuple [.json j, .json (.str s)])

/-- the values the parser builds: a number, no `unitCode`, and either no unit (possible only when none is inferred
or required) or a non-empty unit that is allowed -/
def GoodOut (cfg : NumCfg) (q : QV) : Prop :=
  q.cls = .tcls ∧ isNumber q.value = true ∧ q.unitCode = .null ∧
    ((q.unitText = .null ∧ cfg.inferUnit = none ∧ cfg.requireUnit = false) ∨
     (∃ s, q.unitText = .str s ∧ s ≠ [] ∧ (cfg.allowedUnits = [] ∨ cfg.allowedUnits.contains s = true)))

/-- **own output is accepted and gives back an equal value**: the dict the parser-built value is dumped as is
parsed into the same value (with F29 repaired also when it has no unit) -/
theorem numParse_own_output (L : Lib) (hl : NumLaws L) (cfg : NumCfg) (q : QV) (h : GoodOut cfg q) :
    numParse L cfg (.json (.obj (dumpQV q))) = .ok (.qv q) := by
  obtain ⟨hc, hn, hu, hunit⟩ := h
  obtain ⟨c, value, unitText, unitCode⟩ := q
  simp only at hc hn hu
  subst hc hu
  simp only [numParse, hl.base_dump ⟨.tcls, value, unitText, .null⟩ rfl, isBaseInst]
  rcases hunit with ⟨h1, h2, h3⟩ | ⟨s, h1, h2, h3⟩
  · simp only at h1
    subst h1
    simp [numUnpack, truthyJ, h2, ofOptStr, isNull, numFinish, pyLen, pyIndex, h3, hl.number_id value hn, numConstruct]
  · simp only at h1
    subst h1
    have ht : truthyJ (.str s) = true := by
      cases s with
      | nil => exact absurd rfl h2
      | cons _ _ => rfl
    have e := hl.numstr_id value s hn
    rcases h3 with h3 | h3
    · simp [numUnpack, ht, isNull, numFinish, pyLen, e, pyIndex, numConstruct, h3]
    · have h3' : s ∈ cfg.allowedUnits := by simpa using h3
      simp [numUnpack, ht, isNull, numFinish, pyLen, e, pyIndex, numConstruct, Obj.inStrs, h3']

/-- the numeric shortcut produces such a value when the class attributes are coherent (the inferred unit is
non-empty and allowed, e.g. `Pixels`: `"px"` in `["px"]`) -/
theorem numParse_number_good (L : Lib) (cfg : NumCfg) (j : Json) (hj : isNumber j = true) (q : QV)
    (hcfg : ∀ u, cfg.inferUnit = some u → u ≠ [] ∧ (cfg.allowedUnits = [] ∨ cfg.allowedUnits.contains u = true))
    (h : numParse L cfg (.json j) = .ok (.qv q)) : GoodOut cfg q := by
  cases j <;> simp [isNumber] at hj <;> simp only [numParse] at h <;>
  · split at h
    · cases h
    · rename_i hr
      simp [numConstruct] at h
      subst h
      refine ⟨rfl, rfl, rfl, ?_⟩
      cases hi : cfg.inferUnit with
      | none => left; exact ⟨rfl, rfl, by simpa using hr⟩
      | some u => right; exact ⟨u, rfl, (hcfg u hi).1, (hcfg u hi).2⟩

end MetadorModel.CodecParsers
