import MetadorModel.Proofs.RecordReopen
/-! The handle stays on a coherent chain along every history (C03): coherence is preserved
by create / open / write / create_patch / commit_patch / discard_patch / merge_files. -/
namespace MetadorModel.Record
open MetadorModel.FindFiles

/-! ## coherence is preserved by the patch life cycle -/

theorem checkUB_weaken {d d' : Disk} {rid : Nat} {f : Name} {ub : UB} {prev : Option UB} {ch : Bool}
    (hd : getF d' f = getF d f ∨ ub.hash = none)
    (h : checkUB d rid f ub prev true = true) : checkUB d' rid f ub prev ch = true := by
  unfold checkUB at h ⊢
  simp only [Bool.and_eq_true, Bool.true_and, Bool.not_eq_eq_eq_not, Bool.not_true] at h
  obtain ⟨⟨⟨h1, h2⟩, h3⟩, h4⟩ := h
  have hsome : ub.hash.isNone = false := h2
  cases hh : ub.hash with
  | none => rw [hh] at hsome; cases hsome
  | some v =>
    rw [hh] at h3
    rcases hd with hd | hd
    · simp [h1, hh, payloadOf, hd] at h3 ⊢
      exact ⟨h3, h4⟩
    · rw [hh] at hd; cases hd

theorem checkUB_same {d d' : Disk} {rid : Nat} {f : Name} {ub : UB} {prev : Option UB} {ch : Bool}
    (hd : getF d' f = getF d f ∨ ub.hash = none) :
    checkUB d' rid f ub prev ch = checkUB d rid f ub prev ch := by
  rcases hd with hd | hd
  · exact checkUB_congr hd _ _ _ _
  · simp [checkUB, hd]

theorem checkUB_hash_of_true {d : Disk} {rid : Nat} {f : Name} {ub : UB} {prev : Option UB}
    (h : checkUB d rid f ub prev true = true) : ub.hash.isSome = true := by
  unfold checkUB at h
  simp only [Bool.and_eq_true, Bool.true_and, Bool.not_eq_eq_eq_not, Bool.not_true] at h
  cases hh : ub.hash with
  | none => rw [hh] at h; simp at h
  | some v => rfl

theorem checkUB_upgrade {d : Disk} {rid : Nat} {f : Name} {ub : UB} {prev : Option UB} {ch : Bool}
    (h : checkUB d rid f ub prev ch = true) (hs : ub.hash.isSome = true) :
    checkUB d rid f ub prev true = true := by
  unfold checkUB at h ⊢
  cases hh : ub.hash with
  | none => rw [hh] at hs; cases hs
  | some v =>
    rw [hh] at h
    simp only [Bool.and_eq_true, Option.isNone_some, Bool.and_false, Bool.not_false, Bool.and_true] at h ⊢
    exact h

theorem checkUB_rid {d : Disk} {rid : Nat} {f : Name} {ub : UB} {prev : Option UB} {ch : Bool}
    (h : checkUB d rid f ub prev ch = true) : ub.rid = rid := by
  unfold checkUB at h
  simp only [Bool.and_eq_true, beq_iff_eq] at h
  exact h.1.1.1

/-- last user block of a chain that starts after `p` -/
def lastUB (p : UB) (rest : List (Name × UB)) : UB :=
  match lastFile rest with
  | some (_, u) => u
  | none => p

theorem lastUB_cons_cons (p : UB) (f : Name) (ub : UB) (y : Name × UB) (r : List (Name × UB)) :
    lastUB p ((f, ub) :: y :: r) = lastUB ub (y :: r) := by
  simp only [lastUB, lastFile]
  cases h : lastFile (y :: r) with
  | none => exact absurd ((lastFile_eq_none _).mp h) (by simp)
  | some z => rfl

theorem checkChain_rid (d : Disk) (rid : Nat) : ∀ (rest : List (Name × UB)) (p : UB),
    checkChain d rid p rest = true → ∀ x ∈ rest, x.2.rid = rid
  | [], _, _, x, hx => by cases hx
  | (f, ub) :: r, p, h, x, hx => by
    cases r with
    | nil =>
      simp only [checkChain] at h
      simp only [List.mem_cons, List.not_mem_nil, or_false] at hx
      subst hx; exact checkUB_rid h
    | cons y r' =>
      simp only [checkChain, Bool.and_eq_true] at h
      simp only [List.mem_cons] at hx
      rcases hx with rfl | hx
      · exact checkUB_rid h.1
      · exact checkChain_rid d rid (y :: r') ub h.2 x (by simpa using hx)

/-- appending a fresh patch container to a chain whose newest container is committed -/
theorem checkChain_append_new (d d' : Disk) (rid : Nat) (path : Name) (new : UB) :
    ∀ (rest : List (Name × UB)) (p : UB), checkChain d rid p rest = true →
      (rest ≠ [] → (lastUB p rest).hash.isSome = true) →
      (∀ x ∈ rest, getF d' x.1 = getF d x.1) →
      checkUB d' rid path new (some (lastUB p rest)) false = true →
      checkChain d' rid p (rest ++ [(path, new)]) = true
  | [], p, _, _, _, hn => by simpa [checkChain, lastUB, lastFile] using hn
  | [(f, ub)], p, h, hs, hc, hn => by
    simp only [checkChain] at h
    simp only [lastUB, lastFile] at hs hn
    simp only [List.cons_append, List.nil_append, checkChain, Bool.and_eq_true]
    refine ⟨?_, hn⟩
    rw [checkUB_congr (hc (f, ub) (by simp))]
    exact checkUB_upgrade h (hs (by simp))
  | (f, ub) :: y :: r, p, h, hs, hc, hn => by
    simp only [checkChain, Bool.and_eq_true] at h
    rw [lastUB_cons_cons] at hs hn
    have ih := checkChain_append_new d d' rid path new (y :: r) ub h.2 (fun _ => hs (by simp))
      (fun x hx => hc x (by simp only [List.mem_cons]; right; simpa using hx)) hn
    simp only [List.cons_append, checkChain, Bool.and_eq_true] at ih ⊢
    exact ⟨by rw [checkUB_congr (hc (f, ub) (by simp))]; exact h.1, ih⟩

theorem distinctPids_append_single : ∀ (l : List (Name × UB)) (x : Name × UB),
    distinctPids l = true → (∀ y ∈ l, y.2.pid ≠ x.2.pid) → distinctPids (l ++ [x]) = true
  | [], x, _, _ => by simp [distinctPids]
  | (f, u) :: r, x, h, hne => by
    simp only [distinctPids, Bool.and_eq_true, Bool.not_eq_eq_eq_not, Bool.not_true] at h
    simp only [List.cons_append, distinctPids, Bool.and_eq_true, Bool.not_eq_eq_eq_not, Bool.not_true,
      List.any_append, List.any_cons, List.any_nil, Bool.or_false, Bool.or_eq_false_iff]
    refine ⟨⟨h.1, ?_⟩, distinctPids_append_single r x h.2 (fun y hy => hne y (by simp [hy]))⟩
    have := hne (f, u) (by simp)
    simp only [beq_eq_false_iff_ne, ne_eq]
    exact fun e => this e.symm


theorem coherent_fresh (d : Disk) (n : Name) (k : Nat) :
    Coherent (setF d (baseFile n) (.cont (newBaseUB k) [])) [(baseFile n, newBaseUB k)] := by
  refine ⟨?_, by simp, baseFile n, newBaseUB k, [], rfl, rfl, ?_, rfl, by simp [distinctPids]⟩
  · intro f ub hm
    simp only [List.mem_cons, List.not_mem_nil, or_false, Prod.mk.injEq] at hm
    obtain ⟨rfl, rfl⟩ := hm
    exact ⟨[], getF_setF_eq _ _ _⟩
  · simp [checkUB, newBaseUB]

theorem lastUB_of_lastFile {u0 : UB} {f0 : Name} {rest : List (Name × UB)} {fl : Name} {ul : UB}
    (h : lastFile ((f0, u0) :: rest) = some (fl, ul)) : lastUB u0 rest = ul := by
  cases rest with
  | nil =>
    simp only [lastFile, Option.some.injEq, Prod.mk.injEq] at h
    simp [lastUB, lastFile, h.2]
  | cons y r =>
    simp only [lastFile] at h
    simp [lastUB, h]

/-- `create_patch` keeps the chain coherent -/
theorem coherent_append_patch {d : Disk} {files : List (Name × UB)} {fl : Name} {ul : UB} {path : Name} {k : Nat}
    (hc : Coherent d files) (hl : lastFile files = some (fl, ul)) (hs : ul.hash.isSome = true)
    (hfree : getF d path = none) (hpid : ∀ x ∈ files, x.2.pid ≠ k) :
    Coherent (setF d path (.cont (newPatchUB ul k) [])) (files ++ [(path, newPatchUB ul k)]) := by
  have hne : ∀ x ∈ files, x.1 ≠ path := by
    intro x hx h
    obtain ⟨p, hp⟩ := hc.onDisk x.1 x.2 hx
    rw [h, hfree] at hp; cases hp
  have hsame : ∀ x ∈ files, getF (setF d path (.cont (newPatchUB ul k) [])) x.1 = getF d x.1 :=
    fun x hx => getF_setF_ne _ _ _ _ (hne x hx)
  obtain ⟨f0, u0, rest, hfiles, hprev, hc0, hcc, hdp⟩ := hc.checks
  have hinit := hc.init_ne_last hl
  refine ⟨?_, ?_, ?_⟩
  · intro f ub hm
    simp only [List.mem_append, List.mem_cons, List.not_mem_nil, or_false, Prod.mk.injEq] at hm
    rcases hm with hm | ⟨rfl, rfl⟩
    · obtain ⟨p, hp⟩ := hc.onDisk f ub hm
      exact ⟨p, by rw [hsame (f, ub) hm]; exact hp⟩
    · exact ⟨[], getF_setF_eq _ _ _⟩
  · rw [List.pairwise_append]
    refine ⟨hc.sorted, by simp, ?_⟩
    intro a ha b hb
    simp only [List.mem_cons, List.not_mem_nil, or_false] at hb
    subst hb
    have hsplit := dropLastF_append_last files (fl, ul) hl
    rw [← hsplit] at ha
    simp only [List.mem_append, List.mem_cons, List.not_mem_nil, or_false] at ha
    unfold IdxLt
    simp only [newPatchUB]
    rcases ha with ha | rfl
    · have := (hinit a ha).2; omega
    · simp
  · subst hfiles
    have hlu : lastUB u0 rest = ul := lastUB_of_lastFile hl
    have hrid : ul.rid = u0.rid := by
      cases rest with
      | nil =>
        simp only [lastFile, Option.some.injEq, Prod.mk.injEq] at hl
        rw [← hl.2]
      | cons y r =>
        have hm : (fl, ul) ∈ y :: r := lastFile_mem _ _ (by simpa [lastFile] using hl)
        exact checkChain_rid d u0.rid (y :: r) u0 hcc (fl, ul) hm
    refine ⟨f0, u0, rest ++ [(path, newPatchUB ul k)], rfl, hprev, ?_, ?_, ?_⟩
    · have hflag : (!(rest ++ [(path, newPatchUB ul k)]).isEmpty) = true := by simp
      rw [hflag, checkUB_congr (hsame (f0, u0) (by simp))]
      apply checkUB_upgrade hc0
      cases rest with
      | nil =>
        simp only [lastFile, Option.some.injEq, Prod.mk.injEq] at hl
        rw [hl.2]; exact hs
      | cons y r => exact checkUB_hash_of_true (by simpa using hc0)
    · apply checkChain_append_new d _ u0.rid path (newPatchUB ul k) rest u0 hcc
      · intro _; rw [hlu]; exact hs
      · intro x hx; exact hsame x (by simp [hx])
      · rw [hlu]
        simp [checkUB, newPatchUB, hrid]
    · apply distinctPids_append_single _ _ hdp
      intro y hy
      exact hpid y hy


theorem checkChain_same (d d' : Disk) (rid : Nat) : ∀ (l : List (Name × UB)) (p : UB),
    (∀ x ∈ l, getF d' x.1 = getF d x.1 ∨ x.2.hash = none) → checkChain d' rid p l = checkChain d rid p l
  | [], _, _ => rfl
  | (f, ub) :: r, p, h => by
    cases r with
    | nil => simp only [checkChain]; exact checkUB_same (h (f, ub) (by simp))
    | cons y r' =>
      have h1 := checkUB_same (rid := rid) (prev := some p) (ch := true) (h (f, ub) (by simp))
      have h2 := checkChain_same d d' rid (y :: r') ub (fun x hx => h x (by simp [hx]))
      simp only at h1
      simp only [checkChain, h1] at h2 ⊢
      rw [h2]

/-- a write into the uncommitted newest container keeps the chain coherent -/
theorem coherent_write {d : Disk} {files : List (Name × UB)} {fl : Name} {ul : UB} {q : List Nat}
    (hc : Coherent d files) (hl : lastFile files = some (fl, ul)) (hn : ul.hash = none) :
    Coherent (setF d fl (.cont ul q)) files := by
  obtain ⟨f0, u0, rest, hfiles, hprev, hc0, hcc, hdp⟩ := hc.checks
  have hlm := lastFile_mem _ _ hl
  have hcase : ∀ x ∈ files, getF (setF d fl (.cont ul q)) x.1 = getF d x.1 ∨ x.2.hash = none := by
    intro x hx
    by_cases h : x.1 = fl
    · right
      have := hc.names_nodup x (fl, ul) hx hlm h
      rw [this]; exact hn
    · left; exact getF_setF_ne _ _ _ _ h
  refine ⟨?_, hc.sorted, f0, u0, rest, hfiles, hprev, ?_, ?_, hdp⟩
  · intro f ub hm
    by_cases h : f = fl
    · subst h
      have := hc.names_nodup (f, ub) (f, ul) hm hlm rfl
      cases this
      exact ⟨q, getF_setF_eq _ _ _⟩
    · obtain ⟨p, hp⟩ := hc.onDisk f ub hm
      exact ⟨p, by rw [getF_setF_ne _ _ _ _ h]; exact hp⟩
  · rw [checkUB_same (hcase (f0, u0) (by rw [hfiles]; simp))]; exact hc0
  · rw [checkChain_same d _ u0.rid rest u0 (fun x hx => hcase x (by rw [hfiles]; simp [hx]))]; exact hcc

/-- dropping the newest container of a chain of at least two -/
theorem checkChain_dropLast (d d' : Disk) (rid : Nat) (last : Name × UB) :
    ∀ (rest : List (Name × UB)) (p : UB), checkChain d rid p (rest ++ [last]) = true →
      (∀ x ∈ rest, getF d' x.1 = getF d x.1) →
      checkChain d' rid p rest = true ∧ (∀ x ∈ rest, x.2.hash.isSome = true)
  | [], _, _, _ => by simp [checkChain]
  | [(f, ub)], p, h, hc => by
    obtain ⟨lf, lu⟩ := last
    simp only [List.cons_append, List.nil_append, checkChain, Bool.and_eq_true] at h
    have hs := checkUB_hash_of_true h.1
    refine ⟨?_, by simpa using hs⟩
    simp only [checkChain]
    exact checkUB_weaken (Or.inl (hc (f, ub) (by simp))) h.1
  | (f, ub) :: y :: r, p, h, hc => by
    have hshape : ∃ z t, (y :: r) ++ [last] = z :: t := ⟨y, r ++ [last], rfl⟩
    rw [List.cons_append, List.cons_append, checkChain] at h
    simp only [Bool.and_eq_true] at h
    have ih := checkChain_dropLast d d' rid last (y :: r) ub (by rw [List.cons_append]; exact h.2)
      (fun x hx => hc x (by simp only [List.mem_cons]; right; simpa using hx))
    refine ⟨?_, ?_⟩
    · simp only [checkChain, Bool.and_eq_true]
      exact ⟨by rw [checkUB_congr (hc (f, ub) (by simp))]; exact h.1, ih.1⟩
    · intro x hx
      simp only [List.mem_cons] at hx
      rcases hx with rfl | hx
      · exact checkUB_hash_of_true h.1
      · exact ih.2 x (by simpa using hx)

theorem distinctPids_append_left : ∀ (l l' : List (Name × UB)), distinctPids (l ++ l') = true → distinctPids l = true
  | [], _, _ => rfl
  | (f, u) :: r, l', h => by
    simp only [List.cons_append, distinctPids, Bool.and_eq_true, Bool.not_eq_eq_eq_not, Bool.not_true,
      List.any_append, Bool.or_eq_false_iff] at h ⊢
    exact ⟨h.1.1, distinctPids_append_left r l' h.2⟩

/-- `discard_patch` keeps the chain coherent, and the container that becomes the newest one is committed -/
theorem coherent_discard {d : Disk} {files : List (Name × UB)} {fl : Name} {ul : UB}
    (hc : Coherent d files) (hl : lastFile files = some (fl, ul)) (hlen : files.length ≠ 1) :
    Coherent (eraseF d fl) (dropLastF files) ∧
    ∀ f u, lastFile (dropLastF files) = some (f, u) → u.hash.isSome = true := by
  have hinit := hc.init_ne_last hl
  have hsplit := dropLastF_append_last files (fl, ul) hl
  have hsame : ∀ x ∈ dropLastF files, getF (eraseF d fl) x.1 = getF d x.1 :=
    fun x hx => getF_eraseF_ne _ _ _ (hinit x hx).1
  obtain ⟨f0, u0, rest, hfiles, hprev, hc0, hcc, hdp⟩ := hc.checks
  -- shape: files = (f0,u0) :: (rest' ++ [last]) with dropLastF files = (f0,u0) :: rest'
  cases hrest : rest with
  | nil => rw [hfiles, hrest] at hlen; simp at hlen
  | cons y r =>
    have hl' : lastFile rest = some (fl, ul) := by rw [hfiles, hrest] at hl; rw [hrest]; simpa [lastFile] using hl
    have hsplit' := dropLastF_append_last rest (fl, ul) hl'
    have hdrop : dropLastF files = (f0, u0) :: dropLastF rest := by rw [hfiles, hrest]; simp [dropLastF]
    have hcc' : checkChain d u0.rid u0 (dropLastF rest ++ [(fl, ul)]) = true := by rw [hsplit']; exact hcc
    obtain ⟨hchain, hcomm⟩ := checkChain_dropLast d (eraseF d fl) u0.rid (fl, ul) (dropLastF rest) u0 hcc'
      (fun x hx => hsame x (by rw [hdrop]; simp [hx]))
    have hflag : (!rest.isEmpty) = true := by rw [hrest]; rfl
    rw [hflag] at hc0
    constructor
    · refine ⟨?_, ?_, f0, u0, dropLastF rest, hdrop, hprev, ?_, hchain, ?_⟩
      · intro f ub hm
        obtain ⟨p, hp⟩ := hc.onDisk f ub (mem_of_mem_dropLastF _ _ hm)
        exact ⟨p, by rw [hsame (f, ub) hm]; exact hp⟩
      · have := hc.sorted
        rw [← hsplit, List.pairwise_append] at this
        exact this.1
      · exact checkUB_weaken (Or.inl (hsame (f0, u0) (by rw [hdrop]; simp))) hc0
      · apply distinctPids_append_left (dropLastF files) [(fl, ul)]
        rw [hsplit]; exact hdp
    · intro f u hlast
      rw [hdrop] at hlast
      cases hdr : dropLastF rest with
      | nil =>
        rw [hdr] at hlast
        simp only [lastFile, Option.some.injEq, Prod.mk.injEq] at hlast
        rw [← hlast.2]
        exact checkUB_hash_of_true hc0
      | cons z t =>
        rw [hdr] at hlast
        have hm : (f, u) ∈ dropLastF rest := by
          rw [hdr]; exact lastFile_mem _ _ (by simpa [lastFile] using hlast)
        exact hcomm (f, u) hm


theorem createRec_next (s : State) (c : Bool) (n : Name) (t : Bool) (o : List Name) :
    s.next ≤ (createRec s c n t o).st.next := by
  rcases createRec_spec s c n t o with ⟨_, h⟩ | ⟨_, e, _, _, h⟩ | ⟨_, _, _, h⟩ <;> rw [h] <;> simp [fail]

theorem createPatch_next (s : State) : s.next ≤ (createPatch s).st.next := by
  unfold createPatch
  simp only
  repeat' split
  all_goals simp [fail]

theorem createPatch_next' (s' : State) (k : Nat) (h : s'.next = k) : k ≤ (createPatch s').st.next :=
  h ▸ createPatch_next s'

theorem commitPlain_next (s : State) : (commitPlain s).st.next = s.next := by
  unfold commitPlain
  simp only
  repeat' split
  all_goals simp [fail]

theorem commitMF_next (s : State) : s.next ≤ (commitMF s).st.next := by
  unfold commitMF
  simp only
  split
  · simp [fail]
  · split
    · simp only
      rw [commitPlain_next]; simp [mfPrep]
    · simp [fail]

theorem commitPatch_next (s : State) : s.next ≤ (commitPatch s).st.next := by
  unfold commitPatch; split
  · exact commitMF_next s
  · rw [commitPlain_next]; exact Nat.le_refl _

theorem close_next (s : State) (c : Bool) : s.next ≤ (close s c).st.next := by
  rcases close_spec s c with ⟨_, h⟩ | ⟨_, _, _, _, h⟩ | ⟨_, _, _, _, h⟩ | ⟨_, _, h⟩ <;> rw [h]
  · exact Nat.le_refl _
  · exact commitPatch_next s
  · exact commitPatch_next s
  · exact Nat.le_refl _

theorem openExisting_next (s : State) (c : Bool) (paths : List Name) (m : Mode) :
    s.next ≤ (openExisting s c paths m).st.next := by
  unfold openExisting
  simp only
  split
  · simp [fail]
  · split
    · simp [fail]
    · split
      · split
        · exact createPatch_next' _ _ rfl
        · simp only [fail]; exact createPatch_next' _ _ rfl
      · simp

theorem openRec_next (s : State) (c : Bool) (t : Target) (m : Mode) : s.next ≤ (openRec s c t m).st.next := by
  unfold openRec
  split
  · simp [fail]
  · cases t with
    | list fs =>
      simp only
      split
      · simp [fail]
      · split
        · simp [fail]
        · exact openExisting_next _ _ _ _
    | name n =>
      cases m with
      | w => exact createRec_next _ _ _ _ _
      | wm => exact createRec_next _ _ _ _ _
      | x => exact createRec_next _ _ _ _ _
      | r =>
        simp only
        split
        · simp [fail]
        · simp [fail]
        · exact openExisting_next _ _ _ _
      | rp =>
        simp only
        split
        · simp [fail]
        · simp [fail]
        · exact openExisting_next _ _ _ _
      | a =>
        simp only
        split
        · simp [fail]
        · exact createRec_next _ _ _ _ _
        · exact openExisting_next _ _ _ _

theorem discardPatch_next (s : State) : (discardPatch s).st.next = s.next := by
  rcases discardPatch_spec s with hf | ⟨f, ub, _, _, _, _, _, heq⟩
  · unfold discardPatch; simp only; repeat' split
    all_goals simp [fail]
  · rw [heq]

theorem write_next (s : State) (k : Nat) : (write s k).st.next = s.next := by
  unfold write; simp only; repeat' split
  all_goals simp [fail]

theorem mergeFiles_next (s : State) (t : Name) : s.next ≤ (mergeFiles s t).st.next := by
  unfold mergeFiles
  simp only
  split
  · simp [fail]
  · split
    · simp [fail]
    · split
      · split
        · have h1 := createRec_next { s with h := {} } s.h.mfcls t false (fileNames s.h)
          have h2 := close_next { (createRec { s with h := {} } s.h.mfcls t false (fileNames s.h)).st with
            disk := setPayload (createRec { s with h := {} } s.h.mfcls t false (fileNames s.h)).st.disk (baseFile t)
              (viewFiles s.disk s.h.files) } true
          simp only at h1 h2
          repeat' split
          all_goals (simp only; omega)
        · simp [fail]
      · simp [fail]

theorem step_next (s : State) (op : Op) : s.next ≤ (step s op).st.next := by
  cases op with
  | openRec c t m => exact openRec_next s c t m
  | write k => simp only [step, write_next]; exact Nat.le_refl _
  | read => simp only [step, (read_state s).1]; exact Nat.le_refl _
  | createPatch => exact createPatch_next s
  | commitPatch => exact commitPatch_next s
  | discardPatch => simp only [step, discardPatch_next]; exact Nat.le_refl _
  | close c => exact close_next s c
  | merge t => exact mergeFiles_next s t
  | deleteFiles n =>
    show s.next ≤ (deleteFiles s n).st.next
    unfold deleteFiles
    split
    · simp [fail]
    · exact Nat.le_refl _

end MetadorModel.Record
