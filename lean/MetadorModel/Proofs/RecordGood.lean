import MetadorModel.Proofs.RecordReopen
/-! The handle stays on a coherent chain along every history (C03): coherence is preserved
by create / open / write / create_patch / commit_patch / discard_patch / merge_files. -/
namespace MetadorModel.Record
open MetadorModel.FindFiles

/-! ## coherence is preserved by the patch life cycle -/

theorem checkUB_weaken {d d' : Disk} {rid : Nat} {f : Name} {ub : UB} {prev : Option UB} {ch : Bool}
    (hd : getF d' f = getF d f ∨ ub.hash = none)
    (h : checkUB d rid f ub prev true = true) : checkUB d' rid f ub prev ch = true := by
  unfold checkUB at h ⊢
  simp only [Bool.and_eq_true, Bool.true_and, Bool.not_eq_eq_eq_not, Bool.not_true] at h
  obtain ⟨⟨⟨h1, h2⟩, h3⟩, h4⟩ := h
  have hsome : ub.hash.isNone = false := h2
  cases hh : ub.hash with
  | none => rw [hh] at hsome; cases hsome
  | some v =>
    rw [hh] at h3
    rcases hd with hd | hd
    · simp [h1, hh, payloadOf, hd] at h3 ⊢
      exact ⟨h3, h4⟩
    · rw [hh] at hd; cases hd

theorem checkUB_same {d d' : Disk} {rid : Nat} {f : Name} {ub : UB} {prev : Option UB} {ch : Bool}
    (hd : getF d' f = getF d f ∨ ub.hash = none) :
    checkUB d' rid f ub prev ch = checkUB d rid f ub prev ch := by
  rcases hd with hd | hd
  · exact checkUB_congr hd _ _ _ _
  · simp [checkUB, hd]

theorem checkUB_hash_of_true {d : Disk} {rid : Nat} {f : Name} {ub : UB} {prev : Option UB}
    (h : checkUB d rid f ub prev true = true) : ub.hash.isSome = true := by
  unfold checkUB at h
  simp only [Bool.and_eq_true, Bool.true_and, Bool.not_eq_eq_eq_not, Bool.not_true] at h
  cases hh : ub.hash with
  | none => rw [hh] at h; simp at h
  | some v => rfl

theorem checkUB_upgrade {d : Disk} {rid : Nat} {f : Name} {ub : UB} {prev : Option UB} {ch : Bool}
    (h : checkUB d rid f ub prev ch = true) (hs : ub.hash.isSome = true) :
    checkUB d rid f ub prev true = true := by
  unfold checkUB at h ⊢
  cases hh : ub.hash with
  | none => rw [hh] at hs; cases hs
  | some v =>
    rw [hh] at h
    simp only [Bool.and_eq_true, Option.isNone_some, Bool.and_false, Bool.not_false, Bool.and_true] at h ⊢
    exact h

theorem checkUB_rid {d : Disk} {rid : Nat} {f : Name} {ub : UB} {prev : Option UB} {ch : Bool}
    (h : checkUB d rid f ub prev ch = true) : ub.rid = rid := by
  unfold checkUB at h
  simp only [Bool.and_eq_true, beq_iff_eq] at h
  exact h.1.1.1

/-- last user block of a chain that starts after `p` -/
def lastUB (p : UB) (rest : List (Name × UB)) : UB :=
  match lastFile rest with
  | some (_, u) => u
  | none => p

theorem lastUB_cons_cons (p : UB) (f : Name) (ub : UB) (y : Name × UB) (r : List (Name × UB)) :
    lastUB p ((f, ub) :: y :: r) = lastUB ub (y :: r) := by
  simp only [lastUB, lastFile]
  cases h : lastFile (y :: r) with
  | none => exact absurd ((lastFile_eq_none _).mp h) (by simp)
  | some z => rfl

theorem checkChain_rid (d : Disk) (rid : Nat) : ∀ (rest : List (Name × UB)) (p : UB),
    checkChain d rid p rest = true → ∀ x ∈ rest, x.2.rid = rid
  | [], _, _, x, hx => by cases hx
  | (f, ub) :: r, p, h, x, hx => by
    cases r with
    | nil =>
      simp only [checkChain] at h
      simp only [List.mem_cons, List.not_mem_nil, or_false] at hx
      subst hx; exact checkUB_rid h
    | cons y r' =>
      simp only [checkChain, Bool.and_eq_true] at h
      simp only [List.mem_cons] at hx
      rcases hx with rfl | hx
      · exact checkUB_rid h.1
      · exact checkChain_rid d rid (y :: r') ub h.2 x (by simpa using hx)

/-- appending a fresh patch container to a chain whose newest container is committed -/
theorem checkChain_append_new (d d' : Disk) (rid : Nat) (path : Name) (new : UB) :
    ∀ (rest : List (Name × UB)) (p : UB), checkChain d rid p rest = true →
      (rest ≠ [] → (lastUB p rest).hash.isSome = true) →
      (∀ x ∈ rest, getF d' x.1 = getF d x.1) →
      checkUB d' rid path new (some (lastUB p rest)) false = true →
      checkChain d' rid p (rest ++ [(path, new)]) = true
  | [], p, _, _, _, hn => by simpa [checkChain, lastUB, lastFile] using hn
  | [(f, ub)], p, h, hs, hc, hn => by
    simp only [checkChain] at h
    simp only [lastUB, lastFile] at hs hn
    simp only [List.cons_append, List.nil_append, checkChain, Bool.and_eq_true]
    refine ⟨?_, hn⟩
    rw [checkUB_congr (hc (f, ub) (by simp))]
    exact checkUB_upgrade h (hs (by simp))
  | (f, ub) :: y :: r, p, h, hs, hc, hn => by
    simp only [checkChain, Bool.and_eq_true] at h
    rw [lastUB_cons_cons] at hs hn
    have ih := checkChain_append_new d d' rid path new (y :: r) ub h.2 (fun _ => hs (by simp))
      (fun x hx => hc x (by simp only [List.mem_cons]; right; simpa using hx)) hn
    simp only [List.cons_append, checkChain, Bool.and_eq_true] at ih ⊢
    exact ⟨by rw [checkUB_congr (hc (f, ub) (by simp))]; exact h.1, ih⟩

theorem distinctPids_append_single : ∀ (l : List (Name × UB)) (x : Name × UB),
    distinctPids l = true → (∀ y ∈ l, y.2.pid ≠ x.2.pid) → distinctPids (l ++ [x]) = true
  | [], x, _, _ => by simp [distinctPids]
  | (f, u) :: r, x, h, hne => by
    simp only [distinctPids, Bool.and_eq_true, Bool.not_eq_eq_eq_not, Bool.not_true] at h
    simp only [List.cons_append, distinctPids, Bool.and_eq_true, Bool.not_eq_eq_eq_not, Bool.not_true,
      List.any_append, List.any_cons, List.any_nil, Bool.or_false, Bool.or_eq_false_iff]
    refine ⟨⟨h.1, ?_⟩, distinctPids_append_single r x h.2 (fun y hy => hne y (by simp [hy]))⟩
    have := hne (f, u) (by simp)
    simp only [beq_eq_false_iff_ne, ne_eq]
    exact fun e => this e.symm


theorem coherent_fresh (d : Disk) (n : Name) (k : Nat) :
    Coherent (setF d (baseFile n) (.cont (newBaseUB k) [])) [(baseFile n, newBaseUB k)] := by
  refine ⟨?_, by simp, baseFile n, newBaseUB k, [], rfl, rfl, ?_, rfl, by simp [distinctPids]⟩
  · intro f ub hm
    simp only [List.mem_cons, List.not_mem_nil, or_false, Prod.mk.injEq] at hm
    obtain ⟨rfl, rfl⟩ := hm
    exact ⟨[], getF_setF_eq _ _ _⟩
  · simp [checkUB, newBaseUB]

theorem lastUB_of_lastFile {u0 : UB} {f0 : Name} {rest : List (Name × UB)} {fl : Name} {ul : UB}
    (h : lastFile ((f0, u0) :: rest) = some (fl, ul)) : lastUB u0 rest = ul := by
  cases rest with
  | nil =>
    simp only [lastFile, Option.some.injEq, Prod.mk.injEq] at h
    simp [lastUB, lastFile, h.2]
  | cons y r =>
    simp only [lastFile] at h
    simp [lastUB, h]

/-- `create_patch` keeps the chain coherent -/
theorem coherent_append_patch {d : Disk} {files : List (Name × UB)} {fl : Name} {ul : UB} {path : Name} {k : Nat}
    (hc : Coherent d files) (hl : lastFile files = some (fl, ul)) (hs : ul.hash.isSome = true)
    (hfree : getF d path = none) (hpid : ∀ x ∈ files, x.2.pid ≠ k) :
    Coherent (setF d path (.cont (newPatchUB ul k) [])) (files ++ [(path, newPatchUB ul k)]) := by
  have hne : ∀ x ∈ files, x.1 ≠ path := by
    intro x hx h
    obtain ⟨p, hp⟩ := hc.onDisk x.1 x.2 hx
    rw [h, hfree] at hp; cases hp
  have hsame : ∀ x ∈ files, getF (setF d path (.cont (newPatchUB ul k) [])) x.1 = getF d x.1 :=
    fun x hx => getF_setF_ne _ _ _ _ (hne x hx)
  obtain ⟨f0, u0, rest, hfiles, hprev, hc0, hcc, hdp⟩ := hc.checks
  have hinit := hc.init_ne_last hl
  refine ⟨?_, ?_, ?_⟩
  · intro f ub hm
    simp only [List.mem_append, List.mem_cons, List.not_mem_nil, or_false, Prod.mk.injEq] at hm
    rcases hm with hm | ⟨rfl, rfl⟩
    · obtain ⟨p, hp⟩ := hc.onDisk f ub hm
      exact ⟨p, by rw [hsame (f, ub) hm]; exact hp⟩
    · exact ⟨[], getF_setF_eq _ _ _⟩
  · rw [List.pairwise_append]
    refine ⟨hc.sorted, by simp, ?_⟩
    intro a ha b hb
    simp only [List.mem_cons, List.not_mem_nil, or_false] at hb
    subst hb
    have hsplit := dropLastF_append_last files (fl, ul) hl
    rw [← hsplit] at ha
    simp only [List.mem_append, List.mem_cons, List.not_mem_nil, or_false] at ha
    unfold IdxLt
    simp only [newPatchUB]
    rcases ha with ha | rfl
    · have := (hinit a ha).2; omega
    · simp
  · subst hfiles
    have hlu : lastUB u0 rest = ul := lastUB_of_lastFile hl
    have hrid : ul.rid = u0.rid := by
      cases rest with
      | nil =>
        simp only [lastFile, Option.some.injEq, Prod.mk.injEq] at hl
        rw [← hl.2]
      | cons y r =>
        have hm : (fl, ul) ∈ y :: r := lastFile_mem _ _ (by simpa [lastFile] using hl)
        exact checkChain_rid d u0.rid (y :: r) u0 hcc (fl, ul) hm
    refine ⟨f0, u0, rest ++ [(path, newPatchUB ul k)], rfl, hprev, ?_, ?_, ?_⟩
    · have hflag : (!(rest ++ [(path, newPatchUB ul k)]).isEmpty) = true := by simp
      rw [hflag, checkUB_congr (hsame (f0, u0) (by simp))]
      apply checkUB_upgrade hc0
      cases rest with
      | nil =>
        simp only [lastFile, Option.some.injEq, Prod.mk.injEq] at hl
        rw [hl.2]; exact hs
      | cons y r => exact checkUB_hash_of_true (by simpa using hc0)
    · apply checkChain_append_new d _ u0.rid path (newPatchUB ul k) rest u0 hcc
      · intro _; rw [hlu]; exact hs
      · intro x hx; exact hsame x (by simp [hx])
      · rw [hlu]
        simp [checkUB, newPatchUB, hrid]
    · apply distinctPids_append_single _ _ hdp
      intro y hy
      exact hpid y hy


theorem checkChain_same (d d' : Disk) (rid : Nat) : ∀ (l : List (Name × UB)) (p : UB),
    (∀ x ∈ l, getF d' x.1 = getF d x.1 ∨ x.2.hash = none) → checkChain d' rid p l = checkChain d rid p l
  | [], _, _ => rfl
  | (f, ub) :: r, p, h => by
    cases r with
    | nil => simp only [checkChain]; exact checkUB_same (h (f, ub) (by simp))
    | cons y r' =>
      have h1 := checkUB_same (rid := rid) (prev := some p) (ch := true) (h (f, ub) (by simp))
      have h2 := checkChain_same d d' rid (y :: r') ub (fun x hx => h x (by simp [hx]))
      simp only at h1
      simp only [checkChain, h1] at h2 ⊢
      rw [h2]

/-- a write into the uncommitted newest container keeps the chain coherent -/
theorem coherent_write {d : Disk} {files : List (Name × UB)} {fl : Name} {ul : UB} {q : List Nat}
    (hc : Coherent d files) (hl : lastFile files = some (fl, ul)) (hn : ul.hash = none) :
    Coherent (setF d fl (.cont ul q)) files := by
  obtain ⟨f0, u0, rest, hfiles, hprev, hc0, hcc, hdp⟩ := hc.checks
  have hlm := lastFile_mem _ _ hl
  have hcase : ∀ x ∈ files, getF (setF d fl (.cont ul q)) x.1 = getF d x.1 ∨ x.2.hash = none := by
    intro x hx
    by_cases h : x.1 = fl
    · right
      have := hc.names_nodup x (fl, ul) hx hlm h
      rw [this]; exact hn
    · left; exact getF_setF_ne _ _ _ _ h
  refine ⟨?_, hc.sorted, f0, u0, rest, hfiles, hprev, ?_, ?_, hdp⟩
  · intro f ub hm
    by_cases h : f = fl
    · subst h
      have := hc.names_nodup (f, ub) (f, ul) hm hlm rfl
      cases this
      exact ⟨q, getF_setF_eq _ _ _⟩
    · obtain ⟨p, hp⟩ := hc.onDisk f ub hm
      exact ⟨p, by rw [getF_setF_ne _ _ _ _ h]; exact hp⟩
  · rw [checkUB_same (hcase (f0, u0) (by rw [hfiles]; simp))]; exact hc0
  · rw [checkChain_same d _ u0.rid rest u0 (fun x hx => hcase x (by rw [hfiles]; simp [hx]))]; exact hcc

/-- dropping the newest container of a chain of at least two -/
theorem checkChain_dropLast (d d' : Disk) (rid : Nat) (last : Name × UB) :
    ∀ (rest : List (Name × UB)) (p : UB), checkChain d rid p (rest ++ [last]) = true →
      (∀ x ∈ rest, getF d' x.1 = getF d x.1) →
      checkChain d' rid p rest = true ∧ (∀ x ∈ rest, x.2.hash.isSome = true)
  | [], _, _, _ => by simp [checkChain]
  | [(f, ub)], p, h, hc => by
    obtain ⟨lf, lu⟩ := last
    simp only [List.cons_append, List.nil_append, checkChain, Bool.and_eq_true] at h
    have hs := checkUB_hash_of_true h.1
    refine ⟨?_, by simpa using hs⟩
    simp only [checkChain]
    exact checkUB_weaken (Or.inl (hc (f, ub) (by simp))) h.1
  | (f, ub) :: y :: r, p, h, hc => by
    have hshape : ∃ z t, (y :: r) ++ [last] = z :: t := ⟨y, r ++ [last], rfl⟩
    rw [List.cons_append, List.cons_append, checkChain] at h
    simp only [Bool.and_eq_true] at h
    have ih := checkChain_dropLast d d' rid last (y :: r) ub (by rw [List.cons_append]; exact h.2)
      (fun x hx => hc x (by simp only [List.mem_cons]; right; simpa using hx))
    refine ⟨?_, ?_⟩
    · simp only [checkChain, Bool.and_eq_true]
      exact ⟨by rw [checkUB_congr (hc (f, ub) (by simp))]; exact h.1, ih.1⟩
    · intro x hx
      simp only [List.mem_cons] at hx
      rcases hx with rfl | hx
      · exact checkUB_hash_of_true h.1
      · exact ih.2 x (by simpa using hx)

theorem distinctPids_append_left : ∀ (l l' : List (Name × UB)), distinctPids (l ++ l') = true → distinctPids l = true
  | [], _, _ => rfl
  | (f, u) :: r, l', h => by
    simp only [List.cons_append, distinctPids, Bool.and_eq_true, Bool.not_eq_eq_eq_not, Bool.not_true,
      List.any_append, Bool.or_eq_false_iff] at h ⊢
    exact ⟨h.1.1, distinctPids_append_left r l' h.2⟩

/-- `discard_patch` keeps the chain coherent, and the container that becomes the newest one is committed -/
theorem coherent_discard {d : Disk} {files : List (Name × UB)} {fl : Name} {ul : UB}
    (hc : Coherent d files) (hl : lastFile files = some (fl, ul)) (hlen : files.length ≠ 1) :
    Coherent (eraseF d fl) (dropLastF files) ∧
    ∀ f u, lastFile (dropLastF files) = some (f, u) → u.hash.isSome = true := by
  have hinit := hc.init_ne_last hl
  have hsplit := dropLastF_append_last files (fl, ul) hl
  have hsame : ∀ x ∈ dropLastF files, getF (eraseF d fl) x.1 = getF d x.1 :=
    fun x hx => getF_eraseF_ne _ _ _ (hinit x hx).1
  obtain ⟨f0, u0, rest, hfiles, hprev, hc0, hcc, hdp⟩ := hc.checks
  -- shape: files = (f0,u0) :: (rest' ++ [last]) with dropLastF files = (f0,u0) :: rest'
  cases hrest : rest with
  | nil => rw [hfiles, hrest] at hlen; simp at hlen
  | cons y r =>
    have hl' : lastFile rest = some (fl, ul) := by rw [hfiles, hrest] at hl; rw [hrest]; simpa [lastFile] using hl
    have hsplit' := dropLastF_append_last rest (fl, ul) hl'
    have hdrop : dropLastF files = (f0, u0) :: dropLastF rest := by rw [hfiles, hrest]; simp [dropLastF]
    have hcc' : checkChain d u0.rid u0 (dropLastF rest ++ [(fl, ul)]) = true := by rw [hsplit']; exact hcc
    obtain ⟨hchain, hcomm⟩ := checkChain_dropLast d (eraseF d fl) u0.rid (fl, ul) (dropLastF rest) u0 hcc'
      (fun x hx => hsame x (by rw [hdrop]; simp [hx]))
    have hflag : (!rest.isEmpty) = true := by rw [hrest]; rfl
    rw [hflag] at hc0
    constructor
    · refine ⟨?_, ?_, f0, u0, dropLastF rest, hdrop, hprev, ?_, hchain, ?_⟩
      · intro f ub hm
        obtain ⟨p, hp⟩ := hc.onDisk f ub (mem_of_mem_dropLastF _ _ hm)
        exact ⟨p, by rw [hsame (f, ub) hm]; exact hp⟩
      · have := hc.sorted
        rw [← hsplit, List.pairwise_append] at this
        exact this.1
      · exact checkUB_weaken (Or.inl (hsame (f0, u0) (by rw [hdrop]; simp))) hc0
      · apply distinctPids_append_left (dropLastF files) [(fl, ul)]
        rw [hsplit]; exact hdp
    · intro f u hlast
      rw [hdrop] at hlast
      cases hdr : dropLastF rest with
      | nil =>
        rw [hdr] at hlast
        simp only [lastFile, Option.some.injEq, Prod.mk.injEq] at hlast
        rw [← hlast.2]
        exact checkUB_hash_of_true hc0
      | cons z t =>
        rw [hdr] at hlast
        have hm : (f, u) ∈ dropLastF rest := by
          rw [hdr]; exact lastFile_mem _ _ (by simpa [lastFile] using hlast)
        exact hcomm (f, u) hm


theorem createRec_next (s : State) (c : Bool) (n : Name) (t : Bool) (o : List Name) :
    s.next ≤ (createRec s c n t o).st.next := by
  rcases createRec_spec s c n t o with ⟨_, h⟩ | ⟨_, e, _, _, h⟩ | ⟨_, _, _, h⟩ <;> rw [h] <;> simp [fail]

theorem createPatch_next (s : State) : s.next ≤ (createPatch s).st.next := by
  unfold createPatch
  simp only
  repeat' split
  all_goals simp [fail]

theorem createPatch_next' (s' : State) (k : Nat) (h : s'.next = k) : k ≤ (createPatch s').st.next :=
  h ▸ createPatch_next s'

theorem commitPlain_next (s : State) : (commitPlain s).st.next = s.next := by
  unfold commitPlain
  simp only
  repeat' split
  all_goals simp [fail]

theorem commitMF_next (s : State) : s.next ≤ (commitMF s).st.next := by
  unfold commitMF
  simp only
  split
  · simp [fail]
  · split
    · simp only
      rw [commitPlain_next]; simp [mfPrep]
    · simp [fail]

theorem commitPatch_next (s : State) : s.next ≤ (commitPatch s).st.next := by
  unfold commitPatch; split
  · exact commitMF_next s
  · rw [commitPlain_next]; exact Nat.le_refl _

theorem close_next (s : State) (c : Bool) : s.next ≤ (close s c).st.next := by
  rcases close_spec s c with ⟨_, h⟩ | ⟨_, _, _, _, h⟩ | ⟨_, _, _, _, h⟩ | ⟨_, _, h⟩ <;> rw [h]
  · exact Nat.le_refl _
  · exact commitPatch_next s
  · exact commitPatch_next s
  · exact Nat.le_refl _

theorem openExisting_next (s : State) (c : Bool) (paths : List Name) (m : Mode) :
    s.next ≤ (openExisting s c paths m).st.next := by
  unfold openExisting
  simp only
  split
  · simp [fail]
  · split
    · simp [fail]
    · split
      · split
        · exact createPatch_next' _ _ rfl
        · simp only [fail]; exact createPatch_next' _ _ rfl
      · simp

theorem openRec_next (s : State) (c : Bool) (t : Target) (m : Mode) : s.next ≤ (openRec s c t m).st.next := by
  unfold openRec
  split
  · simp [fail]
  · cases t with
    | list fs =>
      simp only
      split
      · simp [fail]
      · split
        · simp [fail]
        · exact openExisting_next _ _ _ _
    | name n =>
      cases m with
      | w => exact createRec_next _ _ _ _ _
      | wm => exact createRec_next _ _ _ _ _
      | x => exact createRec_next _ _ _ _ _
      | r =>
        simp only
        split
        · simp [fail]
        · simp [fail]
        · exact openExisting_next _ _ _ _
      | rp =>
        simp only
        split
        · simp [fail]
        · simp [fail]
        · exact openExisting_next _ _ _ _
      | a =>
        simp only
        split
        · simp [fail]
        · exact createRec_next _ _ _ _ _
        · exact openExisting_next _ _ _ _

theorem discardPatch_next (s : State) : (discardPatch s).st.next = s.next := by
  rcases discardPatch_spec s with hf | ⟨f, ub, _, _, _, _, _, heq⟩
  · unfold discardPatch; simp only; repeat' split
    all_goals simp [fail]
  · rw [heq]

theorem write_next (s : State) (k : Nat) : (write s k).st.next = s.next := by
  unfold write; simp only; repeat' split
  all_goals simp [fail]

theorem mergeFiles_next (s : State) (t : Name) : s.next ≤ (mergeFiles s t).st.next := by
  unfold mergeFiles
  simp only
  split
  · simp [fail]
  · split
    · simp [fail]
    · split
      · split
        · have h1 := createRec_next { s with h := {} } s.h.mfcls t false (fileNames s.h)
          have h2 := close_next { (createRec { s with h := {} } s.h.mfcls t false (fileNames s.h)).st with
            disk := setPayload (createRec { s with h := {} } s.h.mfcls t false (fileNames s.h)).st.disk (baseFile t)
              (viewFiles s.disk s.h.files) } true
          simp only at h1 h2
          repeat' split
          all_goals (simp only; omega)
        · simp [fail]
      · simp [fail]

theorem step_next (s : State) (op : Op) : s.next ≤ (step s op).st.next := by
  cases op with
  | openRec c t m => exact openRec_next s c t m
  | write k => simp only [step, write_next]; exact Nat.le_refl _
  | read => simp only [step, (read_state s).1]; exact Nat.le_refl _
  | createPatch => exact createPatch_next s
  | commitPatch => exact commitPatch_next s
  | discardPatch => simp only [step, discardPatch_next]; exact Nat.le_refl _
  | close c => exact close_next s c
  | merge t => exact mergeFiles_next s t
  | deleteFiles n =>
    show s.next ≤ (deleteFiles s n).st.next
    unfold deleteFiles
    split
    · simp [fail]
    · exact Nat.le_refl _


/-- the invariant of all API histories: `Inv` (C02), uuids on disk were drawn from the counter,
an open handle sits on a coherent chain, a writable container implies patching is allowed,
and a handle that allows patching but has no writable container ends in a committed one -/
structure Good0 (s : State) : Prop where
  inv : Inv s
  pidsBelow : ∀ f ub p, getF s.disk f = some (.cont ub p) → ub.pid < s.next
  coh : s.h.closed = false → Coherent s.disk s.h.files
  rwAllow : hasWritable s.h = true → s.h.allow = true
  lastCommitted : s.h.closed = false → s.h.allow = true → hasWritable s.h = false →
    ∀ f ul, lastFile s.h.files = some (f, ul) → ul.hash.isSome = true

theorem good0_of_failed {s : State} {r : Res} (hg : Good0 s) (hf : Failed s r) (hn : s.next ≤ r.st.next) :
    Good0 r.st := by
  refine ⟨inv_of_failed hg.inv hf, ?_, ?_, ?_, ?_⟩
  · intro f ub p h; rw [hf.2.1] at h; exact Nat.lt_of_lt_of_le (hg.pidsBelow f ub p h) hn
  · rw [hf.2.1, hf.2.2.1]; exact hg.coh
  · rw [hf.2.2.1]; exact hg.rwAllow
  · rw [hf.2.2.1]; exact hg.lastCommitted

theorem good0_createRec (s : State) (c : Bool) (n : Name) (o : List Name) (hg : Good0 s) :
    Good0 (createRec s c n false o).st := by
  rcases createRec_notrunc s c n o with hf | ⟨_, _, hfresh, heq⟩
  · exact good0_of_failed hg hf (createRec_next _ _ _ _ _)
  · have hi := createRec_notrunc_inv s c n o hg.inv
    rw [heq] at hi ⊢
    refine ⟨hi, ?_, fun _ => coherent_fresh _ _ _, fun _ => rfl, ?_⟩
    · intro f ub p h
      simp only at h
      by_cases hf : f = baseFile n
      · subst hf; rw [getF_setF_eq] at h; cases h; simp [newBaseUB]
      · rw [getF_setF_ne _ _ _ _ hf] at h
        exact Nat.lt_of_lt_of_le (hg.pidsBelow f ub p h) (by simp)
    · intro _ _ hw; simp [hasWritable, freshHandle] at hw

theorem good0_createPatch (s : State) (hg : Good0 s) : Good0 (createPatch s).st := by
  rcases createPatch_spec s with hf | ⟨f0, u0, rest, fl, ul, hfiles, hl, hcl, hal, hnw, hnotin, hfresh, heq⟩
  · exact good0_of_failed hg hf (createPatch_next s)
  · have hi := createPatch_inv s hg.inv
    rw [heq] at hi ⊢
    have hcoh := hg.coh hcl
    have hs := hg.lastCommitted hcl hal hnw fl ul hl
    refine ⟨hi, ?_, ?_, fun _ => hal, ?_⟩
    · intro f ub p h
      simp only at h
      by_cases hf : f = patchFile (inferName f0) (ul.idx + 1)
      · subst hf; rw [getF_setF_eq] at h; cases h; simp [newPatchUB]
      · rw [getF_setF_ne _ _ _ _ hf] at h
        exact Nat.lt_of_lt_of_le (hg.pidsBelow f ub p h) (by simp)
    · intro _
      apply coherent_append_patch hcoh hl hs hfresh
      intro x hx
      obtain ⟨p, hp⟩ := hcoh.onDisk x.1 x.2 hx
      exact Nat.ne_of_lt (hg.pidsBelow _ _ _ hp)
    · intro _ _ hw; simp [hasWritable] at hw

theorem good0_write (s : State) (k : Nat) (hg : Good0 s) : Good0 (write s k).st := by
  rcases write_spec s k with hf | ⟨f, u, hl, hw, hcl, ⟨ub, p, hg0, heq⟩ | ⟨_, heq⟩⟩
  · exact good0_of_failed hg hf (by rw [write_next]; exact Nat.le_refl _)
  · have hi := write_inv s k hg.inv
    rw [heq] at hi ⊢
    have hcoh := hg.coh hcl
    obtain ⟨q, hq⟩ := hcoh.onDisk f u (lastFile_mem _ _ hl)
    rw [hg0] at hq; cases hq
    obtain ⟨f', ub', hl', ubd, pd, hgd, hnone⟩ := hg.inv.writable hw
    rw [hl] at hl'; cases hl'
    rw [hg0] at hgd; cases hgd
    refine ⟨hi, ?_, fun _ => coherent_write hcoh hl hnone, hg.rwAllow, ?_⟩
    · intro g ubg pg h
      simp only at h
      by_cases hf : g = f
      · subst hf; rw [getF_setF_eq] at h; cases h; exact hg.pidsBelow _ _ _ hg0
      · rw [getF_setF_ne _ _ _ _ hf] at h; exact hg.pidsBelow g ubg pg h
    · intro _ _ hnw; rw [hw] at hnw; cases hnw
  · rw [heq]; exact hg

theorem good0_commitPlain (s : State) (hg : Good0 s) : Good0 (commitPlain s).st := by
  rcases commitPlain_spec s with hf | ⟨f, ub, p, hl, hcl, hal, hw, hp, heq⟩
  · exact good0_of_failed hg hf (by rw [commitPlain_next]; exact Nat.le_refl _)
  · have hi := commitPlain_inv s hg.inv
    rw [heq] at hi ⊢
    have hcoh := hg.coh hcl
    obtain ⟨q, hq⟩ := hcoh.onDisk f ub (lastFile_mem _ _ hl)
    refine ⟨hi, ?_, ?_, ?_, ?_⟩
    · intro g ubg pg h
      simp only at h
      by_cases hf : g = f
      · subst hf; rw [getF_setF_eq] at h; cases h; exact hg.pidsBelow _ ub _ hq
      · rw [getF_setF_ne _ _ _ _ hf] at h; exact hg.pidsBelow g ubg pg h
    · intro _
      exact coherent_commit_last hcoh hl hp ⟨rfl, rfl, rfl, rfl⟩ rfl
    · intro h; simp [hasWritable] at h
    · intro _ _ _ g ug hlg
      simp only at hlg
      rw [lastFile_setLastUB _ _ _ _ hl] at hlg
      cases hlg; rfl

theorem good0_commitMF (s : State) (hg : Good0 s) : Good0 (commitMF s).st := by
  rcases commitMF_spec s with hf | ⟨f, ub, p, hl, hcl, hal, hw, hp, _, hd, hh, hnx, _, _⟩
  · exact good0_of_failed hg hf (commitMF_next s)
  · have hi := commitMF_inv s hg.inv
    have hcoh := hg.coh hcl
    obtain ⟨q, hq⟩ := hcoh.onDisk f ub (lastFile_mem _ _ hl)
    have hc1 := coherent_commit_last (ul' := mfCommitUB ub s.next p) hcoh hl hp ⟨rfl, rfl, rfl, rfl⟩ rfl
    refine ⟨hi, ?_, ?_, ?_, ?_⟩
    · intro g ubg pg h
      rw [hd] at h
      rw [hnx]
      by_cases h2 : g = manifestFile f
      · subst h2; rw [getF_setF_eq] at h; cases h
      · rw [getF_setF_ne _ _ _ _ h2] at h
        by_cases hf : g = f
        · subst hf; rw [getF_setF_eq] at h; cases h
          exact Nat.lt_of_lt_of_le (hg.pidsBelow _ ub _ hq) (by simp)
        · rw [getF_setF_ne _ _ _ _ hf] at h
          exact Nat.lt_of_lt_of_le (hg.pidsBelow g ubg pg h) (by simp)
    · intro _
      rw [hd, hh]
      apply coherent_congr _ hc1
      intro x hx
      apply getF_setF_ne
      intro heq
      obtain ⟨q', hq'⟩ := hc1.onDisk x.1 x.2 hx
      by_cases hx1 : x.1 = f
      · rw [hx1] at heq
        have := congrArg List.length heq
        simp [manifestFile, mfExt] at this
      · rw [getF_setF_ne _ _ _ _ hx1] at hq'
        have := hg.inv.diskOk _ _ _ hq'
        rw [heq, manifestFile_last] at this; cases this
    · intro h; rw [hh] at h; simp [hasWritable] at h
    · intro _ _ _ g ug hlg
      rw [hh] at hlg
      simp only at hlg
      rw [lastFile_setLastUB _ _ _ _ hl] at hlg
      cases hlg; rfl

theorem good0_commitPatch (s : State) (hg : Good0 s) : Good0 (commitPatch s).st := by
  unfold commitPatch; split
  · exact good0_commitMF s hg
  · exact good0_commitPlain s hg

theorem good0_discardPatch (s : State) (hg : Good0 s) : Good0 (discardPatch s).st := by
  rcases discardPatch_spec s with hf | ⟨f, ub, hl, hcl, hal, hw, hlen, heq⟩
  · exact good0_of_failed hg hf (by rw [discardPatch_next]; exact Nat.le_refl _)
  · have hi := discardPatch_inv s hg.inv
    rw [heq] at hi ⊢
    have hcoh := hg.coh hcl
    obtain ⟨hc', hlast⟩ := coherent_discard hcoh hl hlen
    refine ⟨hi, ?_, fun _ => hc', ?_, ?_⟩
    · intro g ubg pg h
      simp only at h
      by_cases hf : g = f
      · subst hf; rw [getF_eraseF_eq] at h; cases h
      · rw [getF_eraseF_ne _ _ _ hf] at h; exact hg.pidsBelow g ubg pg h
    · intro h; simp [hasWritable] at h
    · intro _ _ _ g ug hlg
      exact hlast g ug hlg

theorem good0_close (s : State) (c : Bool) (hg : Good0 s) : Good0 (close s c).st := by
  have hclosed : ∀ (s' : State), Good0 s' → Good0 { s' with h := closedHandle s'.h } := by
    intro s' hg'
    refine ⟨⟨hg'.inv.diskOk, by intro h; simp [hasWritable_closedHandle] at h⟩, hg'.pidsBelow, ?_, ?_, ?_⟩
    · intro h; simp [closedHandle] at h
    · intro h; simp [hasWritable_closedHandle] at h
    · intro h; simp [closedHandle] at h
  rcases close_spec s c with ⟨_, heq⟩ | ⟨_, _, _, _, heq⟩ | ⟨_, _, _, _, heq⟩ | ⟨_, _, heq⟩
  · rw [heq]; exact hg
  · rw [heq]; exact good0_commitPatch s hg
  · rw [heq]; exact hclosed _ (good0_commitPatch s hg)
  · rw [heq]; exact hclosed _ hg


theorem good0_openExisting (s : State) (c : Bool) (paths : List Name) (m : Mode) (hg : Good0 s) :
    Good0 (openExisting s c paths m).st := by
  rcases openExisting_spec s c paths m with hf | ⟨files, b, man, hopen, _, ⟨hnc, heq⟩ | ⟨hw, _, heq⟩⟩
  · exact good0_of_failed hg hf (openExisting_next _ _ _ _)
  · have hi := openExisting_inv s c paths m hg.inv
    rw [heq] at hi ⊢
    obtain ⟨_, _, fl, ul, hl, hb⟩ := openFiles_ok hopen
    refine ⟨hi, hg.pidsBelow, fun _ => openFiles_sound hopen, ?_, ?_⟩
    · intro hw
      simp only [hasWritable, openedHandle, Bool.and_eq_true] at hw
      have : b = true := hw.2
      rw [this] at hb
      have := hb.symm
      simp only [Bool.and_eq_true] at this
      simpa [openedHandle] using this.1
    · intro _ hal hnw
      simp only [openedHandle] at hal
      simp only [hal, Bool.true_and, Bool.not_eq_eq_eq_not, Bool.not_false] at hnc
      rw [hnc] at hnw; cases hnw
  · rw [heq]
    apply good0_createPatch
    obtain ⟨_, _, fl, ul, hl, hb⟩ := openFiles_ok hopen
    simp only [Bool.and_eq_true, Bool.not_eq_eq_eq_not, Bool.not_true] at hw
    have hnw : hasWritable (openedHandle files b c m man) = false := hw.2
    have hb' : b = false := by
      have hne : files.isEmpty = false := by
        cases files with
        | nil => simp [lastFile] at hl
        | cons x r => rfl
      simpa [hasWritable, openedHandle, hne] using hnw
    refine ⟨⟨hg.inv.diskOk, (by intro h; rw [hnw] at h; cases h)⟩, hg.pidsBelow,
      fun _ => openFiles_sound hopen, (by intro h; rw [hnw] at h; cases h), ?_⟩
    intro _ _ _ f u hlf
    simp only [openedHandle] at hlf
    rw [hl] at hlf; cases hlf
    rw [hb', hw.1] at hb
    have := hb.symm
    simp only [Bool.true_and] at this
    cases hh : ul.hash with
    | none => rw [hh] at this; simp at this
    | some v => rfl

theorem good0_openRec (s : State) (c : Bool) (t : Target) (m : Mode) (hsafe : (Op.openRec c t m).safe = true)
    (hg : Good0 s) : Good0 (openRec s c t m).st := by
  have hfail : ∀ e k, Good0 (fail { s with next := k } e).st → True := fun _ _ _ => trivial
  unfold openRec
  split
  · exact hg
  · cases t with
    | list fs =>
      simp only
      split
      · exact hg
      · split
        · exact hg
        · exact good0_openExisting _ _ _ _ hg
    | name n =>
      cases m with
      | w => simp [Op.safe] at hsafe
      | wm => exact good0_createRec _ _ _ _ hg
      | x => exact good0_createRec _ _ _ _ hg
      | r =>
        simp only
        split
        · exact hg
        · exact hg
        · exact good0_openExisting _ _ _ _ hg
      | rp =>
        simp only
        split
        · exact hg
        · exact hg
        · exact good0_openExisting _ _ _ _ hg
      | a =>
        simp only
        split
        · exact hg
        · exact good0_createRec _ _ _ _ hg
        · exact good0_openExisting _ _ _ _ hg

theorem good0_mergeFiles (s : State) (t : Name) (hg : Good0 s) : Good0 (mergeFiles s t).st := by
  rcases mergeFiles_spec s t with hf | ⟨hcl, hnw, _, hfresh, hnotin, hh, _, _, hfr, ⟨ub, p, hub, hpid⟩, hnx, hside, _⟩
  · exact good0_of_failed hg hf (mergeFiles_next s t)
  · have hi := mergeFiles_inv s t hg.inv
    have hcoh := hg.coh hcl
    refine ⟨hi, ?_, ?_, ?_, ?_⟩
    · intro g ubg pg h
      by_cases h1 : g = baseFile t
      · subst h1
        rw [hub] at h; cases h
        rcases hpid with hp | hp
        · omega
        · obtain ⟨f0, u0, rest, hfiles, _⟩ := hcoh.checks
          cases hl : lastFile s.h.files with
          | none => rw [hfiles] at hl; exact absurd ((lastFile_eq_none _).mp hl) (by simp)
          | some y =>
            obtain ⟨fl, ul⟩ := y
            obtain ⟨q, hq⟩ := hcoh.onDisk fl ul (lastFile_mem _ _ hl)
            have := hg.pidsBelow _ _ _ hq
            rw [hp fl ul hl]; omega
      · by_cases h2 : g = manifestFile (baseFile t)
        · subst h2
          rcases hside with hs | ⟨_, a, b, hs⟩
          · rw [hs] at h
            have := hg.pidsBelow _ _ _ h; omega
          · rw [hs] at h; cases h
        · rw [hfr g h1 h2] at h
          have := hg.pidsBelow _ _ _ h; omega
    · intro _
      rw [hh]
      apply coherent_congr _ hcoh
      intro x hx
      obtain ⟨q, hq⟩ := hcoh.onDisk x.1 x.2 hx
      apply hfr
      · intro he
        rw [he, hfresh] at hq; cases hq
      · intro he
        have := hg.inv.diskOk _ _ _ hq
        rw [he, manifestFile_last] at this; cases this
    · rw [hh]; exact hg.rwAllow
    · rw [hh]; exact hg.lastCommitted

/-- every safe call preserves the invariant -/
theorem good0_step (s : State) (op : Op) (hsafe : op.safe = true) (hg : Good0 s) : Good0 (step s op).st := by
  cases op with
  | openRec c t m => exact good0_openRec s c t m hsafe hg
  | write k => exact good0_write s k hg
  | read => simp only [step, (read_state s).1]; exact hg
  | createPatch => exact good0_createPatch s hg
  | commitPatch => exact good0_commitPatch s hg
  | discardPatch => exact good0_discardPatch s hg
  | close c => exact good0_close s c hg
  | merge t => exact good0_mergeFiles s t hg
  | deleteFiles n => simp [Op.safe] at hsafe

theorem good0_run (ops : List Op) (s : State) (hg : Good0 s) (hsafe : ∀ o ∈ ops, o.safe = true) :
    Good0 (run s ops) := by
  induction ops generalizing s with
  | nil => exact hg
  | cons o r ih =>
    simp only [run]
    exact ih _ (good0_step s o (hsafe o (by simp)) hg) (fun o' ho' => hsafe o' (by simp [ho']))

/-- the empty directory with no handle -/
theorem good0_init : Good0 {} :=
  ⟨⟨(by intro f ub p h; simp [getF] at h), (by intro h; simp [hasWritable] at h)⟩,
    (by intro f ub p h; simp [getF] at h), (by intro h; cases h), (by intro h; simp [hasWritable] at h),
    (by intro h; cases h)⟩

end MetadorModel.Record
