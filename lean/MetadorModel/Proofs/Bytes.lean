import MetadorModel.Model.Bytes
import Mathlib.Data.List.Basic
/-! Helper lemmas for `Model/Bytes.lean` (chunked reading, streaming fold). Used by C17 and C19. -/
namespace MetadorModel.Bytes

theorem chunksAux_flatten (n : Nat) (hn : 0 < n) :
    ∀ (fuel : Nat) (bs : Bytes), bs.length < fuel → (chunksAux n fuel bs).flatten = bs := by
  intro fuel
  induction fuel with
  | zero => intro bs h; omega
  | succ f ih =>
    intro bs h
    unfold chunksAux
    simp only
    split_ifs with he
    · have : bs = [] := by
        cases bs with
        | nil => rfl
        | cons b r =>
          cases n with
          | zero => omega
          | succ m => simp at he
      simp [this]
    · have hne : bs ≠ [] := by
        intro h0; subst h0; simp at he
      have hl : 0 < bs.length := List.length_pos_iff.mpr hne
      rw [List.flatten_cons, ih (bs.drop n) (by simp; omega), List.take_append_drop]

theorem chunks_flatten' (n : Nat) (hn : 0 < n) (bs : Bytes) : (chunks n bs).flatten = bs :=
  chunksAux_flatten n hn _ bs (Nat.lt_succ_self _)

theorem chunksAux_mem (n : Nat) :
    ∀ (fuel : Nat) (bs : Bytes) (c : Bytes), c ∈ chunksAux n fuel bs → c ≠ [] ∧ c.length ≤ n := by
  intro fuel
  induction fuel with
  | zero => intro bs c h; simp [chunksAux] at h
  | succ f ih =>
    intro bs c h
    unfold chunksAux at h
    simp only at h
    split_ifs at h with he
    · simp at h
    · rcases List.mem_cons.mp h with h | h
      · subst h
        refine ⟨by intro h0; simp [h0] at he, by simp; omega⟩
      · exact ih _ _ h

theorem foldl_update_flatten {σ : Type} (upd : σ → Bytes → σ)
    (hs : ∀ s a b, upd (upd s a) b = upd s (a ++ b)) (h0 : ∀ s, upd s [] = s) :
    ∀ (cs : List Bytes) (s : σ), cs.foldl upd s = upd s cs.flatten := by
  intro cs
  induction cs with
  | nil => intro s; simp [h0]
  | cons c r ih => intro s; simp [ih, hs]

/-- The assumed behaviour of `hashlib` objects: feeding data in pieces is feeding the
concatenation, feeding nothing changes nothing, block sizes are positive. Hypothesis of the
digest theorems, never an axiom. -/
structure Streaming {σ : Type} (hl : HashLib σ) : Prop where
  append : ∀ s a b, hl.update (hl.update s a) b = hl.update s (a ++ b)
  empty : ∀ s, hl.update s [] = s
  block_pos : ∀ s, 0 < hl.blockSize s

theorem hashChunks_eq {σ : Type} (upd : σ → Bytes → σ)
    (hs : ∀ s a b, upd (upd s a) b = upd s (a ++ b)) (h0 : ∀ s, upd s [] = s)
    (init : σ) (n : Nat) (hn : 0 < n) (bs : Bytes) :
    hashChunks upd init n bs = upd init bs := by
  unfold hashChunks
  rw [foldl_update_flatten upd hs h0, chunks_flatten' n hn]

/-- the loop of `hashsum` (block size read again in every iteration) feeds the whole content -/
theorem readLoop_eq {σ : Type} (hl : HashLib σ) (h : Streaming hl) :
    ∀ (fuel : Nat) (bs : Bytes) (s : σ), bs.length < fuel → readLoop hl fuel bs s = hl.update s bs := by
  intro fuel
  induction fuel with
  | zero => intro bs s hl'; omega
  | succ f ih =>
    intro bs s hlt
    unfold readLoop
    simp only
    split_ifs with he
    · have hpos := h.block_pos s
      have : bs = [] := by
        cases bs with
        | nil => rfl
        | cons b r =>
          cases hn : hl.blockSize s with
          | zero => omega
          | succ m => rw [hn] at he; simp at he
      rw [this, h.empty]
    · have hne : bs ≠ [] := by
        intro h0; subst h0; simp at he
      have hlen : 0 < bs.length := List.length_pos_iff.mpr hne
      have hpos := h.block_pos s
      rw [ih _ _ (by simp; omega), h.append, List.take_append_drop]

/-- with a constant block size (as for every `hashlib` object) the loop is the fold over
`chunks` -/
theorem readLoop_eq_hashChunksAux {σ : Type} (hl : HashLib σ)
    (hc : ∀ s c, hl.blockSize (hl.update s c) = hl.blockSize s) :
    ∀ (fuel : Nat) (bs : Bytes) (s : σ),
      readLoop hl fuel bs s = (chunksAux (hl.blockSize s) fuel bs).foldl hl.update s := by
  intro fuel
  induction fuel with
  | zero => intro bs s; rfl
  | succ f ih =>
    intro bs s
    unfold readLoop chunksAux
    simp only
    split_ifs with he
    · rfl
    · rw [ih, hc, List.foldl_cons]

theorem readLoop_eq_hashChunks {σ : Type} (hl : HashLib σ)
    (hc : ∀ s c, hl.blockSize (hl.update s c) = hl.blockSize s) (bs : Bytes) (s : σ) :
    readLoop hl (bs.length + 1) bs s = hashChunks hl.update s (hl.blockSize s) bs :=
  readLoop_eq_hashChunksAux hl hc _ bs s

theorem hashsum_eq_oneShot {σ : Type} (hl : HashLib σ) (h : Streaming hl) (alg : Str)
    (ha : alg ∈ hashAlgs) (bs : Bytes) : hashsum hl bs alg = .ok (oneShot hl alg bs) := by
  unfold hashsum oneShot
  rw [if_pos ha]
  simp only
  rw [readLoop_eq hl h _ _ _ (Nat.lt_succ_self _)]

theorem hashsum_unsupported {σ : Type} (hl : HashLib σ) (alg : Str) (ha : alg ∉ hashAlgs)
    (bs : Bytes) : hashsum hl bs alg = .error .valueError := by
  unfold hashsum
  rw [if_neg ha]

theorem qualifiedHashsum_eq {σ : Type} (hl : HashLib σ) (h : Streaming hl) (alg : Str)
    (ha : alg ∈ hashAlgs) (bs : Bytes) :
    qualifiedHashsum hl bs alg = .ok (alg ++ ':' :: oneShot hl alg bs) := by
  unfold qualifiedHashsum
  rw [hashsum_eq_oneShot hl h alg ha]

end MetadorModel.Bytes
