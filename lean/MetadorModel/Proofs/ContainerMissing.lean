import MetadorModel.Proofs.ContainerPend
/-!
# `TOCLinks.find_missing` and the renaming of an unlinked copy (`repair_missing`, `update=False`)
-/
namespace MetadorModel.Container

/-! ### `find_missing` -/

/-- path of a metadata object: inside a metadata directory, not the directory itself -/
def isObjPath (q : Path) : Bool := inMeta q && !isMetaBase q

/-- the metadata objects strictly below `p`, in listing order -/
def objsBelow (t : Tree) (p : Path) : List Path := ((descendants t p).map Prod.fst).filter isObjPath

theorem foldlM_missing (f : List Path → Path × Node → Except Err (List Path)) :
    ∀ (l : List (Path × Node)),
      (∀ x ∈ l, ∀ acc, f acc x = .ok (if isObjPath x.1 then acc ++ [x.1] else acc)) →
      ∀ acc, l.foldlM f acc = .ok (acc ++ (l.map Prod.fst).filter isObjPath)
  | [], _, acc => by simp [pure, Except.pure]
  | x :: l, h, acc => by
    rw [List.foldlM_cons, h x (by simp) acc]
    show l.foldlM f _ = _
    rw [foldlM_missing f l (fun y hy => h y (List.mem_cons_of_mem _ hy))]
    by_cases hx : isObjPath x.1 = true
    · simp [hx]
    · simp [hx]

theorem inMeta_internal {q : Path} (h : inMeta q = true) : isInternal q = true := by
  simp only [inMeta, isInternal, List.any_eq_true] at h ⊢
  obtain ⟨k, hk, hm⟩ := h
  refine ⟨k, hk, ?_⟩
  cases k <;> simp_all [Key.isMetaDir, Key.internal]

theorem objPath_isObjPath (base : Path) (m : String) (r : SRef) (u : Nat) :
    isObjPath (base ++ [.metaDir m, .obj r u]) = true := by
  simp [isObjPath, inMeta, isMetaBase, Key.isMetaDir]

theorem objOfPath_obj (base : Path) (m : String) (r : SRef) (u : Nat) :
    objOfPath (base ++ [.metaDir m, .obj r u]) = some (r, u) := by
  simp [objOfPath]

/-- an existing object path of a well-formed tree is an attached object -/
theorem objAt_of_isObjPath {e : Env} {t : Tree} {ex : Path → Prop} (ht : TreeOKx e t ex) {q : Path} {n : Node}
    (hq0 : q ≠ []) (hqt : q.head? ≠ some .toc) (hg : get? t q = some n) (ho : isObjPath q = true) :
    ∃ r u, ObjAt t q r u := by
  simp only [isObjPath, Bool.and_eq_true, Bool.not_eq_true'] at ho
  have := ht.ushape q n hq0 hqt hg
  cases this with
  | user q n hi _ => rw [inMeta_internal ho.1] at hi; cases hi
  | metaDir base m hb => simp [isMetaBase, Key.isMetaDir] at ho
  | obj base m r u tok hb => exact ⟨r, u, base, m, hb, rfl, by rw [hg]; simp⟩

theorem mem_objsBelow {e : Env} {t : Tree} {ex : Path → Prop} (ht : TreeOKx e t ex) {p : Path} (hp0 : p ≠ [])
    (hpt : p.head? ≠ some .toc) (q : Path) :
    q ∈ objsBelow t p ↔ ((∃ r u, ObjAt t q r u) ∧ p <+: q ∧ q ≠ p) := by
  simp only [objsBelow, List.mem_filter, List.mem_map]
  constructor
  · rintro ⟨⟨⟨q', n⟩, hm, rfl⟩, ho⟩
    obtain ⟨hg, hpre, hne⟩ := (mem_descendants ht.keys).mp hm
    have hq0 : q' ≠ [] := by rintro rfl; exact hp0 (List.prefix_nil.mp hpre)
    have hqt : q'.head? ≠ some .toc := by
      obtain ⟨c, rfl⟩ := hpre
      cases p with
      | nil => exact absurd rfl hp0
      | cons x p => simpa using hpt
    exact ⟨objAt_of_isObjPath ht hq0 hqt hg ho, hpre, hne⟩
  · rintro ⟨⟨r, u, base, m, hb, rfl, hg⟩, hpre, hne⟩
    cases hx : get? t (base ++ [.metaDir m, .obj r u]) with
    | none => exact absurd hx hg
    | some n => exact ⟨⟨(_, n), (mem_descendants ht.keys).mpr ⟨hx, hpre, hne⟩, rfl⟩, objPath_isObjPath base m r u⟩

theorem objsBelow_nodup {t : Tree} (hk : KeysOK t) (p : Path) : (objsBelow t p).Nodup := by
  unfold objsBelow descendants
  exact (hk.nodup.sublist ((List.filter_sublist).map Prod.fst)).sublist List.filter_sublist

/-- `find_missing(p)` when none of the objects below `p` is linked from the TOC under its own path:
all of them are reported -/
theorem findMissing_all {e : Env} {s : St} {ex : Path → Prop} {L : Path → SRef → Nat → Prop}
    (ht : TreeOKx e s.raw ex) (hc : TocOK e s L) {p : Path} (hp0 : p ≠ []) (hpt : p.head? ≠ some .toc)
    (hunl : ∀ q r u, ObjAt s.raw q r u → p <+: q → ∀ p0 r0, L p0 r0 u → p0 ≠ q) :
    findMissing s p = .ok (objsBelow s.raw p) := by
  unfold findMissing
  refine (foldlM_missing _ (descendants s.raw p) ?_ []).trans (by simp [objsBelow])
  · rintro ⟨q, n⟩ hx acc
    obtain ⟨hg, hpre, hne⟩ := (mem_descendants ht.keys).mp hx
    simp only
    by_cases h1 : inMeta q = true
    · by_cases h2 : isMetaBase q = true
      · simp [h1, h2, isObjPath]
      · have ho : isObjPath q = true := by simp [isObjPath, h1, h2]
        have hq0 : q ≠ [] := by rintro rfl; exact hp0 (List.prefix_nil.mp hpre)
        have hqt : q.head? ≠ some .toc := by
          obtain ⟨c, rfl⟩ := hpre
          cases p with
          | nil => exact absurd rfl hp0
          | cons x p => simpa using hpt
        obtain ⟨r, u, hobj⟩ := objAt_of_isObjPath ht hq0 hqt hg ho
        have hobj' := hobj
        obtain ⟨base, m, hb, rfl, -⟩ := hobj'
        simp only [h1, Bool.not_true, Bool.false_eq_true, if_false, h2, objOfPath_obj, ho, if_true]
        cases htp : alGet s.c.tocPath u with
        | none => simp
        | some tp =>
          obtain ⟨p0, r0, hL, rfl⟩ := (hc.lcache u tp).mp htp
          have hres : linkResolve s u = .ok p0 := by
            simp [linkResolve, htp, hc.toc.link_some p0 r0 u hL]
          have hne' := hunl _ r u hobj hpre p0 r0 hL
          simp [hres, hne']
    · simp [h1, isObjPath]

/-! ### renaming an object inside its directory -/

theorem rawMove_ok {t : Tree} {src dst : Path} (hs : src ≠ []) (hd : dst ≠ []) (hsrc : get? t src ≠ none)
    (hfree : get? t dst = none) (hnu : ¬ src <+: dst)
    (hpar : ∀ q v, isMid [] dst q = true → get? t q ≠ some (.ds v)) : ∃ t', rawMove t src dst = .ok t' := by
  obtain ⟨t1, h1⟩ := mkParents_ok dst t [] hpar
  refine ⟨t1.map fun e => if under src e.1 then (rebase src dst e.1, e.2) else e, ?_⟩
  have hu : under src dst = false := by
    cases h : under src dst
    · rfl
    · exact absurd (under_iff.mp h) hnu
  simp [rawMove, hs, hd, has_iff.mpr hsrc, has_false_iff.mpr hfree, hu, h1]

/-- `raw.move` of the object `(r, u)` to the free name `(r, u')` in the same directory -/
theorem renameObj_spec {e : Env} {t : Tree} (ht : TreeOK e t) {base : Path} {m : String} {r : SRef} {u u' : Nat}
    (hb : isInternal base = false) (hex : get? t (base ++ [.metaDir m, .obj r u]) ≠ none)
    (hfree : get? t (base ++ [.metaDir m, .obj r u']) = none) :
    ∃ t', rawMove t (base ++ [.metaDir m, .obj r u]) (base ++ [.metaDir m, .obj r u']) = .ok t' ∧ TreeOK e t' ∧
      (∀ q, q.head? = some .toc → get? t' q = get? t q) ∧
      (∀ q, isInternal q = false → get? t' q = get? t q) ∧
      (∀ p r' u'', ObjAt t' p r' u'' ↔ ((ObjAt t p r' u'' ∧ p ≠ base ++ [.metaDir m, .obj r u]) ∨
        (p = base ++ [.metaDir m, .obj r u'] ∧ r' = r ∧ u'' = u'))) ∧
      (∀ q, q ≠ base ++ [.metaDir m, .obj r u] → q ≠ base ++ [.metaDir m, .obj r u'] → get? t' q = get? t q) := by
  obtain ⟨tok, htok⟩ : ∃ tok, get? t (base ++ [.metaDir m, .obj r u]) = some (.ds (.data tok)) := by
    cases hx : get? t (base ++ [.metaDir m, .obj r u]) with
    | none => exact absurd hx hex
    | some n =>
      have := ht.ushape _ n (by simp) (objPath_head hb) hx
      generalize hq : base ++ [Key.metaDir m, Key.obj r u] = pp at this
      cases this with
      | user pp n hi' _ => rw [← hq, isInternal_metaDir] at hi'; cases hi'
      | metaDir b' m' _ => have := congrArg List.getLast? hq; simp at this
      | obj b' m' r' u'' tok _ => exact ⟨tok, rfl⟩
  set p := base ++ [.metaDir m, .obj r u] with hp
  set new := base ++ [.metaDir m, .obj r u'] with hnew
  have hne : u ≠ u' := by rintro rfl; exact hex hfree
  have hpn : p ≠ new := by
    intro h; have := (snoc2_inj h).2.2; simp at this; exact hne this
  have hdirg : get? t (base ++ [.metaDir m]) = some .grp :=
    ht.pclosed (base ++ [.metaDir m]) (.obj r u) (by simpa [hp] using hex)
  -- proper prefixes of the new name exist as groups
  have hmidg : ∀ q, isMid [] new q = true → get? t q = some .grp := by
    intro q hm
    obtain ⟨-, hpre, hqn⟩ := isMid_nil_iff.mp hm
    have : q <+: base ++ [.metaDir m] := by
      have h' : q <+: (base ++ [.metaDir m]) ++ [.obj r u'] := by simpa [hnew] using hpre
      rcases prefix_snoc_iff.mp h' with h | h
      · exact absurd (by simpa [hnew] using h) hqn
      · exact h
    by_cases hq : q = base ++ [.metaDir m]
    · rw [hq]; exact hdirg
    · exact prefix_grp' ht.pclosed this hq (by rw [hdirg]; simp)
  have hnu : ¬ p <+: new := by
    intro h
    exact hpn (List.IsPrefix.eq_of_length_le h (by simp [hp, hnew]))
  obtain ⟨t', hmv⟩ := rawMove_ok (t := t) (src := p) (dst := new) (by simp [hp]) (by simp [hnew]) hex hfree hnu
    (fun q v hm => by rw [hmidg q hm]; exact fun h => by cases h)
  -- nothing lives below an object
  have hleaf : ∀ c, c ≠ [] → get? t (p ++ c) = none := by
    intro c hc
    by_contra hg
    cases c with
    | nil => exact hc rfl
    | cons x c =>
      have : get? t (base ++ Key.metaDir m :: Key.obj r u :: (x :: c)) ≠ none := by simpa [hp] using hg
      have := (below_metaDir' ht hb this).1
      simp at this
  have g : ∀ q, q ≠ [] → get? t' q = if q = new then get? t p else if q = p then none else get? t q := by
    intro q hq
    rw [rawMove_get? hmv ht.pclosed q hq]
    by_cases h1 : new <+: q
    · obtain ⟨c, rfl⟩ := h1
      rw [if_pos (List.prefix_append _ _), drop_append_self]
      by_cases hc : c = []
      · subst hc; simp
      · have e1 : new ++ c ≠ new := by simpa using hc
        have e2 : new ++ c ≠ p := by
          intro h
          have := congrArg List.length h
          simp [hp, hnew] at this
          exact hc this
        rw [if_neg e1, if_neg e2, hleaf c hc, none_below_free ht.pclosed hfree (List.prefix_append _ _)]
    · have e1 : q ≠ new := by rintro rfl; exact h1 (List.prefix_refl _)
      rw [if_neg h1, if_neg e1]
      by_cases h2 : p <+: q
      · obtain ⟨c, rfl⟩ := h2
        rw [if_pos (List.prefix_append _ _)]
        by_cases hc : c = []
        · subst hc; simp
        · rw [if_neg (by simpa using hc), hleaf c hc]
      · have e2 : q ≠ p := by rintro rfl; exact h2 (List.prefix_refl _)
        rw [if_neg h2, if_neg e2]
        cases hg : get? t q with
        | some x => rfl
        | none =>
          cases hm : isMid [] new q with
          | false => rfl
          | true => rw [hmidg q hm] at hg; cases hg
  have hpint : isInternal p = true := isInternal_metaDir base m _
  have hnint : isInternal new = true := isInternal_metaDir base m _
  have huser : ∀ q, isInternal q = false → get? t' q = get? t q := by
    intro q hq
    by_cases hq0 : q = []
    · subst hq0; simp
    · rw [g q hq0, if_neg (by rintro rfl; rw [hnint] at hq; cases hq),
        if_neg (by rintro rfl; rw [hpint] at hq; cases hq)]
  have htoc : ∀ q, q.head? = some .toc → get? t' q = get? t q := by
    intro q hq
    have hq0 : q ≠ [] := by rintro rfl; simp at hq
    rw [g q hq0, if_neg (by rintro rfl; exact objPath_head hb hq), if_neg (by rintro rfl; exact objPath_head hb hq)]
  -- directories are untouched
  have hdir : ∀ b' m', get? t' (b' ++ [Key.metaDir m']) = get? t (b' ++ [.metaDir m']) := by
    intro b' m'
    rw [g _ (by simp), if_neg (by intro h; have := congrArg List.getLast? h; simp [hnew] at this),
      if_neg (by intro h; have := congrArg List.getLast? h; simp [hp] at this)]
  have hobj : ∀ q r' u'', ObjAt t' q r' u'' ↔ ((ObjAt t q r' u'' ∧ q ≠ p) ∨ (q = new ∧ r' = r ∧ u'' = u')) := by
    intro q r' u''
    constructor
    · rintro ⟨b', m', hb', rfl, hg⟩
      rw [g _ (by simp)] at hg
      split_ifs at hg with h1 h2
      · right
        have := (snoc2_inj (h1.trans hnew)).2.2
        simp at this
        exact ⟨h1, this.1, this.2⟩
      · exact absurd rfl hg
      · exact Or.inl ⟨⟨b', m', hb', rfl, hg⟩, h2⟩
    · rintro (⟨⟨b', m', hb', rfl, hg⟩, hqp⟩ | ⟨rfl, rfl, rfl⟩)
      · refine ⟨b', m', hb', rfl, ?_⟩
        have e1 : b' ++ [Key.metaDir m', Key.obj r' u''] ≠ new := by
          intro h; rw [h, hfree] at hg; exact hg rfl
        rw [g _ (by simp), if_neg e1, if_neg hqp]; exact hg
      · exact ⟨base, m, hb, rfl, by rw [g _ (by simp [hnew]), if_pos rfl]; exact hex⟩
  have hframe : ∀ q, q ≠ p → q ≠ new → get? t' q = get? t q := by
    intro q h1 h2
    by_cases hq0 : q = []
    · subst hq0; simp
    · rw [g q hq0, if_neg h2, if_neg h1]
  refine ⟨t', hmv, ⟨rawMove_keys hmv ht.keys ht.pclosed, rawMove_pclosed hmv ht.pclosed, ?_, ?_, ?_, ?_, ?_⟩,
    htoc, huser, hobj, hframe⟩
  · intro q n hq hqt hg
    rw [g q hq] at hg
    split_ifs at hg with h1 h2
    · rw [htok] at hg; cases hg; rw [h1]; exact .obj base m r u' tok hb
    · exact ht.ushape q n hq hqt hg
  · intro b' m' hb' hg _
    rw [hdir] at hg
    rcases ht.host_ds b' m' hb' hg (fun h => h) with h | ⟨v, hv⟩
    · exact Or.inl h
    · exact Or.inr ⟨v, by rw [huser _ (user_internal_false' ht hb' hv)]; exact hv⟩
  · intro b' m' hb' hg
    rw [hdir] at hg
    obtain ⟨r0, u0, h0⟩ := ht.host_obj b' m' hb' hg
    by_cases hsame : b' ++ [Key.metaDir m', Key.obj r0 u0] = p
    · obtain ⟨rfl, hk, -⟩ := snoc2_inj (hsame.trans hp)
      simp at hk; subst hk
      exact ⟨r, u', by rw [g _ (by simp), if_pos rfl]; exact hex⟩
    · have o : ObjAt t' (b' ++ [.metaDir m', .obj r0 u0]) r0 u0 :=
        (hobj _ _ _).mpr (Or.inl ⟨⟨b', m', hb', rfl, h0⟩, hsame⟩)
      obtain ⟨_, _, _, _, hg'⟩ := o
      exact ⟨r0, u0, hg'⟩
  · intro q r' u'' ho
    rcases (hobj q r' u'').mp ho with ⟨h, -⟩ | ⟨-, rfl, -⟩
    · exact ht.objenv q r' u'' h
    · exact ht.objenv p r' u ⟨base, m, hb, rfl, hex⟩
  · intro b' m' r1 u1 r2 u2 hb' hg1 hg2 hn
    have o1 : ObjAt t' (b' ++ [.metaDir m', .obj r1 u1]) r1 u1 := ⟨b', m', hb', rfl, hg1⟩
    have o2 : ObjAt t' (b' ++ [.metaDir m', .obj r2 u2]) r2 u2 := ⟨b', m', hb', rfl, hg2⟩
    rcases (hobj _ _ _).mp o1 with ⟨⟨_, _, _, _, h1⟩, hp1⟩ | ⟨hq1, rfl, rfl⟩ <;>
      rcases (hobj _ _ _).mp o2 with ⟨⟨_, _, _, _, h2⟩, hp2⟩ | ⟨hq2, rfl, rfl⟩
    · exact ht.onename b' m' r1 u1 r2 u2 hb' h1 h2 hn
    · -- the renamed object and an old one with the same schema name: the old one is the renamed one
      obtain ⟨rfl, hk, -⟩ := snoc2_inj (hq2.trans hnew)
      simp at hk; subst hk
      obtain ⟨rfl, rfl⟩ := ht.onename b' m' r1 u1 r2 u hb' h1 (by simpa [hp] using hex) hn
      exact absurd rfl hp1
    · obtain ⟨rfl, hk, -⟩ := snoc2_inj (hq1.trans hnew)
      simp at hk; subst hk
      obtain ⟨rfl, rfl⟩ := ht.onename b' m' r2 u2 r1 u hb' h2 (by simpa [hp] using hex) hn.symm
      exact absurd rfl hp2
    · exact ⟨rfl, rfl⟩

end MetadorModel.Container
