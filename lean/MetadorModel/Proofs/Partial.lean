import MetadorModel.Model.Partial
import MetadorModel.Proofs.DiffMap
/-! Helper lemmas for the partial-merge model (C14), part 1: the field loop of `merge_with`
computes, key by key, `_update_field` of the two values. -/
namespace MetadorModel.Partial
open MetadorModel

theorem wf_obj (c : Cls) (fs : Fields) : (PVal.obj c fs).wf = true ↔ AL.sorted fs = true ∧ wfF fs = true := by
  simp [PVal.wf]

theorem wfF_cons (k : String) (v : PVal) (r : Fields) :
    wfF ((k, v) :: r) = true ↔ v.wf = true ∧ wfF r = true := by
  simp [wfF]

theorem wfF_get {fs : Fields} (h : wfF fs = true) {k : String} {v : PVal}
    (hg : AL.get fs k = some v) : v.wf = true := by
  induction fs with
  | nil => simp at hg
  | cons a r ih =>
    obtain ⟨k', v'⟩ := a
    rw [wfF_cons] at h
    rw [AL.get_cons] at hg
    split_ifs at hg with h1
    · cases hg; exact h.1
    · exact ih h.2 hg

/-! ## `updO` -/

@[simp] theorem updO_none_left (ow : Bool) (y : Option PVal) : updO ow none y = .ok y := by
  cases y <;> rfl

@[simp] theorem updO_none_right (ow : Bool) (x : Option PVal) : updO ow x none = .ok x := by
  cases x <;> rfl

theorem updO_some (ow : Bool) (o n : PVal) :
    updO ow (some o) (some n) = match merge ow o n with
      | .ok m => .ok (some m)
      | .error e => .error e := rfl

/-! ## the field loop, key by key -/

theorem mergeFields_nil (ow : Bool) (acc : Fields) : mergeFields ow acc [] = .ok acc := by
  simp [mergeFields]

theorem mergeFields_cons (ow : Bool) (acc : Fields) (k : String) (v : PVal) (r : Fields) :
    mergeFields ow acc ((k, v) :: r) =
      match updO ow (AL.get acc k) (some v) with
      | .ok (some m) => mergeFields ow (AL.ins k m acc) r
      | .ok none => .error .shape
      | .error e => .error e := by
  rw [mergeFields]
  cases AL.get acc k with
  | none => rfl
  | some o =>
    simp only [updO_some]
    cases merge ow o v <;> rfl

theorem updO_some_right_ok {ow : Bool} {x : Option PVal} {v : PVal} {z : Option PVal}
    (h : updO ow x (some v) = .ok z) : ∃ m, z = some m := by
  cases x with
  | none => simp at h; exact ⟨v, h.symm⟩
  | some o =>
    rw [updO_some] at h
    cases hm : merge ow o v with
    | ok m => rw [hm] at h; cases h; exact ⟨m, rfl⟩
    | error e => rw [hm] at h; cases h

/-- (a) a successful loop: the result is key-sorted and holds, at every key, the update of the
accumulated value by the new one -/
theorem mergeFields_ok {ow : Bool} {f2 : Fields} (h2 : AL.sorted f2 = true) :
    ∀ {acc r : Fields}, AL.sorted acc = true → mergeFields ow acc f2 = .ok r →
      AL.sorted r = true ∧ ∀ k, updO ow (AL.get acc k) (AL.get f2 k) = .ok (AL.get r k) := by
  induction f2 with
  | nil =>
    intro acc r ha h
    rw [mergeFields_nil] at h
    cases h
    exact ⟨ha, fun k => by simp⟩
  | cons a rest ih =>
    obtain ⟨k0, v⟩ := a
    intro acc r ha h
    have hk : AL.get rest k0 = none := AL.get_tail_head h2
    rw [mergeFields_cons] at h
    cases hu : updO ow (AL.get acc k0) (some v) with
    | error e => rw [hu] at h; cases h
    | ok z =>
      obtain ⟨m, rfl⟩ := updO_some_right_ok hu
      rw [hu] at h
      obtain ⟨hs, hp⟩ := ih (AL.sorted_tail h2) (AL.sorted_ins k0 m ha) h
      refine ⟨hs, fun k => ?_⟩
      have := hp k
      rw [AL.get_cons]
      by_cases hkk : k0 = k
      · subst hkk
        rw [if_pos rfl, hu]
        rw [AL.get_ins_self, hk] at this
        simpa using this
      · rw [if_neg hkk]
        rwa [AL.get_ins_ne (Ne.symm hkk)] at this

/-- (c) a failing loop fails at some key -/
theorem mergeFields_err {ow : Bool} {f2 : Fields} (h2 : AL.sorted f2 = true) :
    ∀ {acc : Fields} {e : Err}, mergeFields ow acc f2 = .error e →
      ∃ k e', updO ow (AL.get acc k) (AL.get f2 k) = .error e' := by
  induction f2 with
  | nil => intro acc e h; rw [mergeFields_nil] at h; cases h
  | cons a rest ih =>
    obtain ⟨k0, v⟩ := a
    intro acc e h
    have hk : AL.get rest k0 = none := AL.get_tail_head h2
    rw [mergeFields_cons] at h
    cases hu : updO ow (AL.get acc k0) (some v) with
    | error e' => exact ⟨k0, e', by rw [AL.get_cons, if_pos rfl, hu]⟩
    | ok z =>
      obtain ⟨m, rfl⟩ := updO_some_right_ok hu
      rw [hu] at h
      obtain ⟨k, e', he⟩ := ih (AL.sorted_tail h2) h
      have hne : k ≠ k0 := by
        intro e; subst e
        rw [hk] at he; simp at he
      refine ⟨k, e', ?_⟩
      rw [AL.get_cons, if_neg (Ne.symm hne)]
      rwa [AL.get_ins_ne hne] at he

/-- (b) the loop succeeds when every key does -/
theorem mergeFields_total {ow : Bool} {f2 : Fields} (h2 : AL.sorted f2 = true) :
    ∀ {acc : Fields}, (∀ k, ∃ z, updO ow (AL.get acc k) (AL.get f2 k) = .ok z) →
      ∃ r, mergeFields ow acc f2 = .ok r := by
  intro acc h
  cases hm : mergeFields ow acc f2 with
  | ok r => exact ⟨r, rfl⟩
  | error e =>
    obtain ⟨k, e', he⟩ := mergeFields_err h2 hm
    obtain ⟨z, hz⟩ := h k
    rw [hz] at he; cases he

/-- a successful loop succeeds at every key (no assumption on `acc`) -/
theorem mergeFields_ok_key {ow : Bool} {f2 : Fields} (h2 : AL.sorted f2 = true) :
    ∀ {acc r : Fields}, mergeFields ow acc f2 = .ok r →
      ∀ k, ∃ z, updO ow (AL.get acc k) (AL.get f2 k) = .ok z := by
  induction f2 with
  | nil => intro acc r _ k; exact ⟨AL.get acc k, by simp⟩
  | cons a rest ih =>
    obtain ⟨k0, v⟩ := a
    intro acc r hm k
    have hk : AL.get rest k0 = none := AL.get_tail_head h2
    rw [mergeFields_cons] at hm
    cases hu : updO ow (AL.get acc k0) (some v) with
    | error e'' => rw [hu] at hm; cases hm
    | ok z =>
      obtain ⟨m, rfl⟩ := updO_some_right_ok hu
      rw [hu] at hm
      by_cases hkk : k0 = k
      · subst hkk
        exact ⟨some m, by rw [AL.get_cons, if_pos rfl, hu]⟩
      · obtain ⟨z, hz⟩ := ih (AL.sorted_tail h2) hm k
        rw [AL.get_ins_ne (Ne.symm hkk)] at hz
        exact ⟨z, by rw [AL.get_cons, if_neg hkk]; exact hz⟩

/-- the loop fails iff some key fails -/
theorem mergeFields_isErr_iff {ow : Bool} {acc f2 : Fields} (h2 : AL.sorted f2 = true) :
    (∃ e, mergeFields ow acc f2 = .error e) ↔ ∃ k e', updO ow (AL.get acc k) (AL.get f2 k) = .error e' := by
  constructor
  · rintro ⟨e, h⟩; exact mergeFields_err h2 h
  · rintro ⟨k, e', he⟩
    cases hm : mergeFields ow acc f2 with
    | error e => exact ⟨e, rfl⟩
    | ok r =>
      obtain ⟨z, hz⟩ := mergeFields_ok_key h2 hm k
      rw [hz] at he; cases he
