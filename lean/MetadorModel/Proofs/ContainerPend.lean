import MetadorModel.Proofs.ContainerQuery
import MetadorModel.Proofs.ContainerTreeOps
/-!
# The effect of re-rooting a subtree (`raw.copy` / `raw.move`) on the tree part of the invariant
-/
namespace MetadorModel.Container

/-! ### re-rooting -/

/-- an existing node, or a group created on the way to a new node -/
def orGrp (o : Option Node) (b : Bool) : Option Node :=
  match o with
  | some x => some x
  | none => if b then some .grp else none

@[simp] theorem orGrp_some (x : Node) (b : Bool) : orGrp (some x) b = some x := rfl
@[simp] theorem orGrp_none_true : orGrp none true = some .grp := rfl
@[simp] theorem orGrp_none_false : orGrp none false = none := rfl

/-- point-wise description of the tree after `raw.copy` (`mv = false`) / `raw.move` (`mv = true`) -/
def Rebased (t t' : Tree) (src dst : Path) (mv : Bool) : Prop :=
  ∀ q, q ≠ [] → get? t' q = if dst <+: q then get? t (src ++ q.drop dst.length) else
    if mv = true ∧ src <+: q then none else orGrp (get? t q) (isMid [] dst q)

theorem rebased_of_copy {t t' : Tree} {src dst : Path} (h : rawCopy t src dst = .ok t') (hc : PClosed t) :
    Rebased t t' src dst false := by
  intro q hq
  rw [rawCopy_get? h hc q hq]
  by_cases h1 : dst <+: q
  · simp [h1]
  · simp only [h1, if_false, Bool.false_eq_true, false_and]
    cases get? t q <;> cases isMid [] dst q <;> rfl

theorem rebased_of_move {t t' : Tree} {src dst : Path} (h : rawMove t src dst = .ok t') (hc : PClosed t) :
    Rebased t t' src dst true := by
  intro q hq
  rw [rawMove_get? h hc q hq]
  by_cases h1 : dst <+: q
  · simp [h1]
  · by_cases h2 : src <+: q
    · simp [h1, h2]
    · simp only [h1, h2, if_false, and_false]
      cases get? t q <;> cases isMid [] dst q <;> rfl

/-- how metadata directories below `dst` correspond to directories below `src` -/
structure DirCorr (src dst : Path) : Prop where
  fwd : ∀ c base m tail, isInternal base = false → dst ++ c = base ++ .metaDir m :: tail →
    ∃ bs ms, isInternal bs = false ∧ src ++ c = bs ++ .metaDir ms :: tail
  bwd : ∀ c bs ms tail, isInternal bs = false → src ++ c = bs ++ .metaDir ms :: tail →
    ∃ base m, isInternal base = false ∧ dst ++ c = base ++ .metaDir m :: tail

theorem drop_append_self (a c : Path) : (a ++ c).drop a.length = c := by simp

theorem snoc2_eq (a : Path) (k1 k2 : Key) : a ++ [k1, k2] = a ++ k1 :: [k2] := rfl

/-- the tree part of the invariant after re-rooting, and the attached objects of the new tree -/
theorem treeOK_rebase {e : Env} {t t' : Tree} {src dst : Path} {mv : Bool} {ex ex' : Path → Prop}
    (ht : TreeOKx e t ex) (hk' : KeysOK t') (hc' : PClosed t') (hreb : Rebased t t' src dst mv)
    (hs0 : src ≠ []) (hd0 : dst ≠ []) (hdt : dst.head? ≠ some .toc)
    (hfree : get? t dst = none)
    (hmid : ∀ q, isMid [] dst q = true → isInternal q = false)
    (hsobj : ∀ P r u, src ≠ P ++ [Key.obj r u]) (hdobj : ∀ P r u, dst ≠ P ++ [Key.obj r u])
    (hU : ∀ c n, get? t (src ++ c) = some n → UShape (dst ++ c) n)
    (hK : DirCorr src dst)
    (hD : ∀ base m, isInternal base = false → dst <+: base ++ [.metaDir m] →
      get? t' (base ++ [.metaDir m]) ≠ none → ¬ ex' (base ++ [.metaDir m]) →
      (m = "" ∨ ∃ v, get? t' (base ++ [.user m]) = some (.ds v)))
    (hS : ∀ base m, isInternal base = false → get? t (base ++ [.metaDir m]) ≠ none →
      ¬ dst <+: base ++ [.metaDir m] → ¬ (mv = true ∧ src <+: base ++ [.metaDir m]) →
      ¬ ex' (base ++ [.metaDir m]) →
      ¬ ex (base ++ [.metaDir m]) ∧ (m = "" ∨ ¬ (mv = true ∧ src <+: base ++ [.user m]))) :
    TreeOKx e t' ex' ∧
    (∀ p r u, ObjAt t' p r u ↔ ((dst <+: p ∧ ObjAt t (src ++ p.drop dst.length) r u) ∨
      (¬ dst <+: p ∧ ¬ (mv = true ∧ src <+: p) ∧ ObjAt t p r u))) := by
  -- lookups below `dst`
  have gd : ∀ c, get? t' (dst ++ c) = get? t (src ++ c) := by
    intro c
    rw [hreb _ (by simp [hd0]), if_pos (List.prefix_append _ _), drop_append_self]
  -- lookups of reserved names elsewhere
  have go : ∀ q, isInternal q = true → ¬ dst <+: q → get? t' q = if mv = true ∧ src <+: q then none else get? t q := by
    intro q hq hnd
    have hq0 : q ≠ [] := by rintro rfl; simp [isInternal] at hq
    rw [hreb q hq0, if_neg hnd]
    by_cases h1 : mv = true ∧ src <+: q
    · rw [if_pos h1, if_pos h1]
    · rw [if_neg h1, if_neg h1]
      cases hg : get? t q with
      | some x => rfl
      | none =>
        cases hm : isMid [] dst q with
        | false => rfl
        | true => rw [hmid q hm] at hq; cases hq
  -- an object path is below `dst` iff its directory is
  have hobjpre : ∀ P r u, dst <+: P ++ [Key.obj r u] ↔ dst <+: P := by
    intro P r u
    rw [prefix_snoc_iff]
    constructor
    · rintro (h | h)
      · exact absurd h (hdobj P r u)
      · exact h
    · exact Or.inr
  have hsrcpre : ∀ P r u, src <+: P ++ [Key.obj r u] ↔ src <+: P := by
    intro P r u
    rw [prefix_snoc_iff]
    constructor
    · rintro (h | h)
      · exact absurd h (hsobj P r u)
      · exact h
    · exact Or.inr
  -- attached objects
  have hobj : ∀ p r u, ObjAt t' p r u ↔ ((dst <+: p ∧ ObjAt t (src ++ p.drop dst.length) r u) ∨
      (¬ dst <+: p ∧ ¬ (mv = true ∧ src <+: p) ∧ ObjAt t p r u)) := by
    intro p r u
    constructor
    · rintro ⟨base, m, hb, rfl, hg⟩
      by_cases hpre : dst <+: base ++ [.metaDir m, .obj r u]
      · left
        refine ⟨hpre, ?_⟩
        obtain ⟨c, hc⟩ := hpre
        rw [← hc, drop_append_self]
        obtain ⟨bs, ms, hbs, hsc⟩ := hK.fwd c base m [.obj r u] hb hc
        rw [← hc, gd] at hg
        exact ⟨bs, ms, hbs, hsc, hg⟩
      · right
        rw [go _ (isInternal_metaDir base m _) hpre] at hg
        split_ifs at hg with hrm
        · exact absurd rfl hg
        · exact ⟨hpre, hrm, base, m, hb, rfl, hg⟩
    · rintro (⟨⟨c, rfl⟩, ho⟩ | ⟨hnd, hnr, base, m, hb, rfl, hg⟩)
      · rw [drop_append_self] at ho
        obtain ⟨bs, ms, hbs, hsc, hg⟩ := ho
        obtain ⟨base, m, hb, hdc⟩ := hK.bwd c bs ms [.obj r u] hbs hsc
        exact ⟨base, m, hb, hdc, by rw [gd]; exact hg⟩
      · exact ⟨base, m, hb, rfl, by rw [go _ (isInternal_metaDir base m _) hnd, if_neg hnr]; exact hg⟩
  refine ⟨⟨hk', hc', ?_, ?_, ?_, ?_, ?_⟩, hobj⟩
  · -- shapes
    intro q n hq hqt hg
    by_cases hpre : dst <+: q
    · obtain ⟨c, rfl⟩ := hpre
      rw [gd] at hg
      exact hU c n hg
    · rw [hreb q hq, if_neg hpre] at hg
      by_cases hrm : mv = true ∧ src <+: q
      · rw [if_pos hrm] at hg; cases hg
      · rw [if_neg hrm] at hg
        cases hx : get? t q with
        | some x => rw [hx] at hg; cases hg; exact ht.ushape q _ hq hqt hx
        | none =>
          rw [hx] at hg
          cases hm : isMid [] dst q with
          | false => rw [hm] at hg; cases hg
          | true =>
            rw [hm] at hg
            cases hg
            exact .user q _ (hmid q hm) (Or.inl rfl)
  · -- owning dataset
    intro base m hb hg hne
    by_cases hpre : dst <+: base ++ [.metaDir m]
    · exact hD base m hb hpre hg hne
    · rw [go _ (isInternal_metaDir base m []) hpre] at hg
      split_ifs at hg with hrm
      · exact absurd rfl hg
      · obtain ⟨hnex, hkeep⟩ := hS base m hb hg hpre hrm hne
        rcases ht.host_ds base m hb hg hnex with h | ⟨v, hv⟩
        · exact Or.inl h
        · rcases hkeep with h | hkeep
          · exact Or.inl h
          · refine Or.inr ⟨v, ?_⟩
            have hnd : ¬ dst <+: base ++ [.user m] := by
              intro h
              have := none_below_free ht.pclosed hfree h
              rw [hv] at this; cases this
            rw [hreb _ (by simp), if_neg hnd, if_neg hkeep, hv]; rfl
  · -- directories are not empty
    intro base m hb hg
    by_cases hpre : dst <+: base ++ [.metaDir m]
    · obtain ⟨c, hc⟩ := hpre
      obtain ⟨bs, ms, hbs, hsc⟩ := hK.fwd c base m [] hb hc
      rw [← hc, gd, hsc] at hg
      obtain ⟨r, u, hru⟩ := ht.host_obj bs ms hbs hg
      refine ⟨r, u, ?_⟩
      have e1 : base ++ [Key.metaDir m, Key.obj r u] = dst ++ (c ++ [.obj r u]) := by
        rw [← List.append_assoc, hc]; simp
      have e2 : src ++ (c ++ [Key.obj r u]) = bs ++ [Key.metaDir ms, Key.obj r u] := by
        rw [← List.append_assoc, hsc]; simp
      rw [e1, gd, e2]; exact hru
    · rw [go _ (isInternal_metaDir base m []) hpre] at hg
      split_ifs at hg with hrm
      · exact absurd rfl hg
      · obtain ⟨r, u, hru⟩ := ht.host_obj base m hb hg
        refine ⟨r, u, ?_⟩
        have e1 : base ++ [Key.metaDir m, Key.obj r u] = (base ++ [.metaDir m]) ++ [.obj r u] := by simp
        have hnd : ¬ dst <+: base ++ [Key.metaDir m, Key.obj r u] := by rw [e1, hobjpre]; exact hpre
        have hnr : ¬ (mv = true ∧ src <+: base ++ [Key.metaDir m, Key.obj r u]) := by
          rw [e1, hsrcpre]; exact hrm
        rw [go _ (isInternal_metaDir base m _) hnd, if_neg hnr]; exact hru
  · intro p r u ho
    rcases (hobj p r u).mp ho with ⟨-, h⟩ | ⟨-, -, h⟩
    · exact ht.objenv _ r u h
    · exact ht.objenv _ r u h
  · -- one object per schema name and directory
    intro base m r u r' u' hb hg1 hg2 hn
    have e1 : ∀ r u, base ++ [Key.metaDir m, Key.obj r u] = (base ++ [.metaDir m]) ++ [.obj r u] := by
      intro r u; simp
    by_cases hpre : dst <+: base ++ [.metaDir m]
    · obtain ⟨c, hc⟩ := hpre
      obtain ⟨bs, ms, hbs, hsc⟩ := hK.fwd c base m [] hb hc
      have tr : ∀ r u, get? t' (base ++ [Key.metaDir m, Key.obj r u]) = get? t (bs ++ [.metaDir ms, .obj r u]) := by
        intro r u
        have a1 : base ++ [Key.metaDir m, Key.obj r u] = dst ++ (c ++ [.obj r u]) := by
          rw [← List.append_assoc, hc]; simp
        have a2 : src ++ (c ++ [Key.obj r u]) = bs ++ [Key.metaDir ms, Key.obj r u] := by
          rw [← List.append_assoc, hsc]; simp
        rw [a1, gd, a2]
      rw [tr] at hg1 hg2
      exact ht.onename bs ms r u r' u' hbs hg1 hg2 hn
    · have tr : ∀ r u, get? t' (base ++ [Key.metaDir m, Key.obj r u]) ≠ none →
          get? t (base ++ [Key.metaDir m, Key.obj r u]) ≠ none := by
        intro r u hg
        have hnd : ¬ dst <+: base ++ [Key.metaDir m, Key.obj r u] := by rw [e1, hobjpre]; exact hpre
        rw [go _ (isInternal_metaDir base m _) hnd] at hg
        split_ifs at hg
        · exact absurd rfl hg
        · exact hg
      exact ht.onename base m r u r' u' hb (tr _ _ hg1) (tr _ _ hg2) hn

end MetadorModel.Container
