import MetadorModel.Model.Plugin
import Mathlib.Data.String.Basic
import Mathlib.Data.List.Sort
import Mathlib.Data.List.Perm.Basic
/-! Helper lemmas for the plugin-reference model (C16). -/
namespace MetadorModel.Plugin

/-- strict lexicographic order on version triples -/
def verLt (a b : Ver) : Prop :=
  a.1 < b.1 ∨ (a.1 = b.1 ∧ (a.2.1 < b.2.1 ∨ (a.2.1 = b.2.1 ∧ a.2.2 < b.2.2)))

/-- the specification order: strict lexicographic order on `(group, name, version)` -/
def keyLt (a b : Ref) : Prop :=
  a.group < b.group ∨ (a.group = b.group ∧
    (a.name < b.name ∨ (a.name = b.name ∧ verLt a.ver b.ver)))

theorem verGe_iff (a b : Ver) : verGe a b = true ↔ ¬ verLt a b := by
  obtain ⟨a1, a2, a3⟩ := a
  obtain ⟨b1, b2, b3⟩ := b
  simp only [verGe, verLt]
  split_ifs with h1 h2 <;> simp only [decide_eq_true_eq] <;> omega

theorem verLt_irrefl (a : Ver) : ¬ verLt a a := by
  simp [verLt]

theorem verLt_trans {a b c : Ver} : verLt a b → verLt b c → verLt a c := by
  simp only [verLt]; omega

theorem verLt_trichotomy (a b : Ver) : verLt a b ∨ a = b ∨ verLt b a := by
  obtain ⟨a1, a2, a3⟩ := a
  obtain ⟨b1, b2, b3⟩ := b
  simp only [verLt, Prod.mk.injEq]; omega

theorem keyLt_irrefl (a : Ref) : ¬ keyLt a a := by
  simp [keyLt, verLt_irrefl]

theorem keyLt_trans {a b c : Ref} : keyLt a b → keyLt b c → keyLt a c := by
  intro h1 h2
  rcases h1 with h1 | ⟨e1, h1⟩ <;> rcases h2 with h2 | ⟨e2, h2⟩
  · exact Or.inl (lt_trans h1 h2)
  · exact Or.inl (e2 ▸ h1)
  · exact Or.inl (e1 ▸ h2)
  · refine Or.inr ⟨e1.trans e2, ?_⟩
    rcases h1 with h1 | ⟨f1, h1⟩ <;> rcases h2 with h2 | ⟨f2, h2⟩
    · exact Or.inl (lt_trans h1 h2)
    · exact Or.inl (f2 ▸ h1)
    · exact Or.inl (f1 ▸ h2)
    · exact Or.inr ⟨f1.trans f2, verLt_trans h1 h2⟩

theorem keyLt_trichotomy (a b : Ref) : keyLt a b ∨ a = b ∨ keyLt b a := by
  obtain ⟨ag, an, av⟩ := a
  obtain ⟨bg, bn, bv⟩ := b
  simp only [keyLt, Ref.mk.injEq]
  rcases lt_trichotomy ag bg with h | h | h
  · exact Or.inl (Or.inl h)
  · rcases lt_trichotomy an bn with h' | h' | h'
    · exact Or.inl (Or.inr ⟨h, Or.inl h'⟩)
    · rcases verLt_trichotomy av bv with h'' | h'' | h''
      · exact Or.inl (Or.inr ⟨h, Or.inr ⟨h', h''⟩⟩)
      · exact Or.inr (Or.inl ⟨h, h', h''⟩)
      · exact Or.inr (Or.inr (Or.inr ⟨h.symm, Or.inr ⟨h'.symm, h''⟩⟩))
    · exact Or.inr (Or.inr (Or.inr ⟨h.symm, Or.inl h'⟩))
  · exact Or.inr (Or.inr (Or.inl h))

theorem keyLt_asymm {a b : Ref} (h : keyLt a b) : ¬ keyLt b a :=
  fun h' => keyLt_irrefl a (keyLt_trans h h')

theorem eq_iff (a b : Ref) : eq a b = true ↔ a = b := by
  obtain ⟨ag, an, av⟩ := a
  obtain ⟨bg, bn, bv⟩ := b
  simp [eq]
  tauto

theorem ge_iff (a b : Ref) : ge a b = true ↔ ¬ keyLt a b := by
  simp only [ge, keyLt]
  split_ifs with h1 h2
  · simp only [decide_eq_true_eq, ge_iff_le]
    constructor
    · intro h; rintro (h' | ⟨e, _⟩)
      · exact absurd h (not_le.mpr h')
      · exact h1 e
    · intro h; exact not_lt.mp (fun h' => h (Or.inl h'))
  · have e1 : a.group = b.group := not_not.mp h1
    simp only [decide_eq_true_eq, ge_iff_le]
    constructor
    · intro h; rintro (h' | ⟨_, h' | ⟨e, _⟩⟩)
      · exact absurd e1 (ne_of_lt h')
      · exact absurd h (not_le.mpr h')
      · exact h2 e
    · intro h; exact not_lt.mp (fun h' => h (Or.inr ⟨e1, Or.inl h'⟩))
  · have e1 : a.group = b.group := not_not.mp h1
    have e2 : a.name = b.name := not_not.mp h2
    rw [verGe_iff]
    constructor
    · intro h; rintro (h' | ⟨_, h' | ⟨_, h'⟩⟩)
      · exact absurd e1 (ne_of_lt h')
      · exact absurd e2 (ne_of_lt h')
      · exact h h'
    · intro h h'; exact h (Or.inr ⟨e1, Or.inr ⟨e2, h'⟩⟩)

theorem lt_iff (a b : Ref) : lt a b = true ↔ keyLt a b := by
  have := ge_iff a b
  simp only [lt, ltFrom, geO, truthy]
  cases h : ge a b <;> simp_all

/-- `a ≤ b` in the specification order -/
def leP (a b : Ref) : Prop := ¬ keyLt b a

theorem leP_refl (a : Ref) : leP a a := keyLt_irrefl a
theorem leP_total (a b : Ref) : leP a b ∨ leP b a := by
  rcases keyLt_trichotomy a b with h | h | h
  · exact Or.inl (keyLt_asymm h)
  · exact Or.inl (h ▸ keyLt_irrefl a)
  · exact Or.inr (keyLt_asymm h)
theorem leP_antisymm {a b : Ref} (h1 : leP a b) (h2 : leP b a) : a = b := by
  rcases keyLt_trichotomy a b with h | h | h
  · exact absurd h h2
  · exact h
  · exact absurd h h1
theorem leP_trans {a b c : Ref} (h1 : leP a b) (h2 : leP b c) : leP a c := by
  intro h
  rcases keyLt_trichotomy a b with h' | h' | h'
  · exact h2 (keyLt_trans h h')
  · subst h'; exact h2 h
  · exact h1 h'
theorem leP_of_keyLt {a b : Ref} (h : keyLt a b) : leP a b := keyLt_asymm h

theorem le_iff (a b : Ref) : le a b = true ↔ leP a b := by
  have h1 := ge_iff a b
  have h2 := eq_iff a b
  simp only [le, leFrom, geO, truthy, leP]
  constructor
  · intro h
    cases hg : ge a b
    · have : keyLt a b := by
        by_contra hc; exact absurd (h1.mpr hc) (by simp [hg])
      exact keyLt_asymm this
    · simp only [hg, Bool.not_true, Bool.false_or] at h
      rw [h2.mp h]; exact keyLt_irrefl b
  · intro h
    rcases keyLt_trichotomy a b with h' | h' | h'
    · have : ge a b = false := by
        cases hg : ge a b
        · rfl
        · exact absurd h' (h1.mp hg)
      simp [this]
    · simp [h2.mpr h']
    · exact absurd h' h

theorem gt_iff (a b : Ref) : gt a b = true ↔ keyLt b a := by
  have h1 := ge_iff a b
  have h2 := eq_iff a b
  simp only [gt, gtFrom, geO, truthy, Bool.and_eq_true, Bool.not_eq_true']
  constructor
  · rintro ⟨hg, hne⟩
    rcases keyLt_trichotomy a b with h' | h' | h'
    · exact absurd h' (h1.mp hg)
    · rw [h2.mpr h'] at hne; cases hne
    · exact h'
  · intro h
    refine ⟨h1.mpr (keyLt_asymm h), ?_⟩
    cases he : eq a b
    · rfl
    · rw [h2.mp he] at h; exact absurd h (keyLt_irrefl b)

/-! ### sorting -/

theorem insertSorted_perm (x : Ref) (l : List Ref) : (insertSorted lt x l).Perm (x :: l) := by
  induction l with
  | nil => simp [insertSorted]
  | cons y ys ih =>
    simp only [insertSorted]
    split
    · exact List.Perm.refl _
    · exact (List.Perm.cons y ih).trans (List.Perm.swap x y ys)

theorem insertSorted_sorted (x : Ref) (l : List Ref) (h : l.Pairwise leP) :
    (insertSorted lt x l).Pairwise leP := by
  induction l with
  | nil => simp [insertSorted]
  | cons y ys ih =>
    simp only [insertSorted]
    rw [List.pairwise_cons] at h
    split
    · rename_i hlt
      have hxy : keyLt x y := (lt_iff x y).mp hlt
      refine List.pairwise_cons.mpr ⟨?_, List.pairwise_cons.mpr h⟩
      intro z hz
      rcases List.mem_cons.mp hz with rfl | hz
      · exact leP_of_keyLt hxy
      · exact leP_trans (leP_of_keyLt hxy) (h.1 z hz)
    · rename_i hlt
      have hyx : leP y x := fun hc => hlt ((lt_iff x y).mpr hc)
      refine List.pairwise_cons.mpr ⟨?_, ih h.2⟩
      intro z hz
      rcases List.mem_cons.mp ((insertSorted_perm x ys).subset hz) with rfl | hz
      · exact hyx
      · exact h.1 z hz

theorem foldl_insert_perm (acc l : List Ref) :
    (l.foldl (fun acc x => insertSorted lt x acc) acc).Perm (acc ++ l) := by
  induction l generalizing acc with
  | nil => simp
  | cons x xs ih =>
    simp only [List.foldl_cons]
    refine (ih _).trans ?_
    have := insertSorted_perm x acc
    refine (List.Perm.append_right xs this).trans ?_
    simp only [List.cons_append]
    exact (List.perm_middle (a := x) (l₁ := acc) (l₂ := xs)).symm

theorem foldl_insert_sorted (acc l : List Ref) (h : acc.Pairwise leP) :
    (l.foldl (fun acc x => insertSorted lt x acc) acc).Pairwise leP := by
  induction l generalizing acc with
  | nil => simpa
  | cons x xs ih => exact ih _ (insertSorted_sorted x acc h)

theorem sortRefs_perm (l : List Ref) : (sortRefs l).Perm l := by
  simpa [sortRefs, sortWith] using foldl_insert_perm [] l

theorem sortRefs_sorted (l : List Ref) : (sortRefs l).Pairwise leP :=
  foldl_insert_sorted [] l List.Pairwise.nil

theorem sorted_perm_unique {l₁ l₂ : List Ref} (h₁ : l₁.Pairwise leP) (h₂ : l₂.Pairwise leP)
    (h : l₁.Perm l₂) : l₁ = l₂ :=
  List.Perm.eq_of_pairwise (fun _ _ _ _ hab hba => leP_antisymm hab hba) h₁ h₂ h

theorem sortRefs_congr {l₁ l₂ : List Ref} (h : l₁.Perm l₂) : sortRefs l₁ = sortRefs l₂ :=
  sorted_perm_unique (sortRefs_sorted _) (sortRefs_sorted _)
    ((sortRefs_perm l₁).trans (h.trans (sortRefs_perm l₂).symm))

theorem sortRefs_sortRefs_append (l : List Ref) (r : Ref) :
    sortRefs (sortRefs l ++ [r]) = sortRefs (l ++ [r]) :=
  sortRefs_congr (List.Perm.append_right _ (sortRefs_perm l))

/-! ### tables -/

theorem Table.get_set (t : Table) (n m : String) (l : List Ref) :
    (t.set n l).get m = if m = n then l else t.get m := by
  induction t with
  | nil =>
    by_cases h : m = n
    · simp [Table.set, Table.get, h]
    · have : ¬ n = m := fun h' => h h'.symm
      simp [Table.set, Table.get, h, this]
  | cons e es ih =>
    obtain ⟨k, l'⟩ := e
    simp only [Table.set]
    by_cases hk : k = n
    · subst hk
      by_cases hm : m = k
      · simp [Table.get, hm]
      · have : ¬ k = m := fun h' => hm h'.symm
        simp [Table.get, hm, this]
    · simp only [beq_iff_eq, hk, if_false, Table.get]
      by_cases hkm : k = m
      · have : ¬ m = n := fun h' => hk (hkm.trans h')
        simp [hkm, this]
      · simp only [hkm, if_false]
        exact ih

/-- After registering `rs` (in this order) the list for name `n` is the sorted list of all
registered refs of that name. -/
theorem registerAll_get (rs : List Ref) (n : String) :
    (rs.foldl register []).get n = sortRefs (rs.filter (fun r => r.name = n)) := by
  suffices H : ∀ (pre : List Ref) (t : Table),
      (∀ n, t.get n = sortRefs (pre.filter (fun r => r.name = n))) →
      (rs.foldl register t).get n = sortRefs ((pre ++ rs).filter (fun r => r.name = n)) by
    simpa using H [] [] (by intro n; simp [Table.get, sortRefs, sortWith])
  induction rs with
  | nil => intro pre t h; simpa using h n
  | cons r rs ih =>
    intro pre t h
    have := ih (pre ++ [r]) (register t r) (by
      intro m
      simp only [register, Table.get_set]
      by_cases hm : m = r.name
      · subst hm
        simp only [if_true, h, List.filter_append, List.filter_cons, decide_true, if_true,
          List.filter_nil]
        exact sortRefs_sortRefs_append _ _
      · have : ¬ r.name = m := fun h => hm h.symm
        simp [hm, h, List.filter_append, this])
    simpa using this

/-! ### `keys()` and `in` (what `PluginGroup.keys` / `__contains__` read from the table) -/

theorem Table.keys_set_perm (t : Table) (n : String) (x : Ref) (f : List Ref → List Ref)
    (hf : ∀ l, (f l).Perm l) :
    (t.set n (f (t.get n ++ [x]))).keys.Perm (x :: t.keys) := by
  induction t with
  | nil =>
    simp only [Table.set, Table.get, Table.keys, List.nil_append, List.append_nil]
    exact hf [x]
  | cons e es ih =>
    obtain ⟨k, l'⟩ := e
    by_cases hk : k = n
    · subst hk
      simp only [Table.set, Table.get, Table.keys, beq_self_eq_true, if_true]
      refine ((hf _).append_right _).trans ?_
      simp only [List.append_assoc]
      exact (List.perm_middle (l₁ := l') (a := x) (l₂ := Table.keys es))
    · simp only [Table.set, Table.get, Table.keys, beq_iff_eq, hk, if_false]
      exact ((ih).append_left l').trans List.perm_middle

/-- registering adds exactly the new reference to what `keys()` yields -/
theorem register_keys_perm (t : Table) (r : Ref) : (register t r).keys.Perm (r :: t.keys) :=
  Table.keys_set_perm t r.name r sortRefs sortRefs_perm

theorem registerAll_keys_perm' (rs : List Ref) (t : Table) :
    (rs.foldl register t).keys.Perm (rs ++ t.keys) := by
  induction rs generalizing t with
  | nil => simp
  | cons r rs ih =>
    simp only [List.foldl_cons, List.cons_append]
    refine (ih (register t r)).trans ?_
    exact ((register_keys_perm t r).append_left rs).trans List.perm_middle

/-- `keys()` yields every registered reference exactly as often as it was registered -/
theorem registerAll_keys_perm (rs : List Ref) : (rs.foldl register []).keys.Perm rs := by
  simpa [Table.keys] using registerAll_keys_perm' rs []

/-- well-formed table: names occur once, and the list of a name holds references of that name -/
def Table.WF (t : Table) : Prop :=
  (t.map Prod.fst).Nodup ∧ ∀ e ∈ t, ∀ r ∈ e.2, r.name = e.1

theorem Table.keys_filter_of_not_mem (t : Table) (n : String)
    (h : ∀ e ∈ t, ∀ r ∈ e.2, r.name = e.1) (hn : n ∉ t.map Prod.fst) :
    t.keys.filter (fun r => r.name = n) = [] := by
  induction t with
  | nil => simp [Table.keys]
  | cons e es ih =>
    obtain ⟨k, l⟩ := e
    simp only [List.map_cons, List.mem_cons, not_or] at hn
    simp only [Table.keys, List.filter_append]
    rw [ih (fun e he => h e (List.mem_cons_of_mem _ he)) hn.2, List.append_nil,
      List.filter_eq_nil_iff]
    intro r hr
    have := h (k, l) (List.mem_cons_self) r hr
    simp only at this
    simp only [decide_eq_true_eq]
    intro h'
    exact hn.1 (h'.symm.trans this)

theorem Table.keys_filter_name (t : Table) (h : t.WF) (n : String) :
    t.keys.filter (fun r => r.name = n) = t.get n := by
  induction t with
  | nil => simp [Table.keys, Table.get]
  | cons e es ih =>
    obtain ⟨k, l⟩ := e
    obtain ⟨hnd, hnm⟩ := h
    simp only [List.map_cons, List.nodup_cons] at hnd
    have hes : Table.WF es := ⟨hnd.2, fun e he => hnm e (List.mem_cons_of_mem _ he)⟩
    have hl : ∀ r ∈ l, r.name = k := hnm (k, l) List.mem_cons_self
    simp only [Table.keys, Table.get, List.filter_append, beq_iff_eq]
    by_cases hk : k = n
    · subst hk
      rw [Table.keys_filter_of_not_mem es k hes.2 hnd.1, List.append_nil, if_pos rfl,
        List.filter_eq_self]
      intro r hr
      simp [hl r hr]
    · rw [if_neg hk, ih hes]
      have : l.filter (fun r => decide (r.name = n)) = [] := by
        rw [List.filter_eq_nil_iff]
        intro r hr
        simp only [decide_eq_true_eq]
        intro h'
        exact hk ((hl r hr).symm.trans h')
      rw [this, List.nil_append]

theorem Table.get_names (t : Table) (h : t.WF) (n : String) : ∀ r ∈ t.get n, r.name = n := by
  intro r hr
  rw [← Table.keys_filter_name t h n] at hr
  simpa using (List.mem_filter.mp hr).2

theorem Table.set_map_fst (t : Table) (n : String) (l : List Ref) :
    (t.set n l).map Prod.fst = if n ∈ t.map Prod.fst then t.map Prod.fst else t.map Prod.fst ++ [n] := by
  induction t with
  | nil => simp [Table.set]
  | cons e es ih =>
    obtain ⟨k, l'⟩ := e
    by_cases hk : k = n
    · subst hk; simp [Table.set]
    · have hk' : ¬ n = k := fun h => hk h.symm
      simp only [Table.set, beq_iff_eq, hk, if_false, List.map_cons, ih, List.mem_cons, hk', false_or]
      split_ifs <;> simp

theorem Table.mem_set (t : Table) (n : String) (l : List Ref) (e : String × List Ref)
    (he : e ∈ t.set n l) : e ∈ t ∨ e = (n, l) := by
  induction t with
  | nil => simpa [Table.set] using he
  | cons e' es ih =>
    obtain ⟨k, l'⟩ := e'
    by_cases hk : k = n
    · subst hk
      simp only [Table.set, beq_self_eq_true, if_true, List.mem_cons] at he
      rcases he with he | he
      · exact Or.inr he
      · exact Or.inl (List.mem_cons_of_mem _ he)
    · simp only [Table.set, beq_iff_eq, hk, if_false, List.mem_cons] at he
      rcases he with he | he
      · exact Or.inl (he ▸ List.mem_cons_self)
      · rcases ih he with h | h
        · exact Or.inl (List.mem_cons_of_mem _ h)
        · exact Or.inr h

theorem register_WF (t : Table) (h : t.WF) (r : Ref) : (register t r).WF := by
  refine ⟨?_, ?_⟩
  · simp only [register, Table.set_map_fst]
    split_ifs with hm
    · exact h.1
    · exact List.Nodup.append h.1 (List.nodup_singleton _) (by simpa using hm)
  · intro e he x hx
    rcases Table.mem_set _ _ _ _ he with he | he
    · exact h.2 e he x hx
    · subst he
      have := (sortRefs_perm _).subset hx
      simp only [List.mem_append, List.mem_singleton] at this
      rcases this with h' | h'
      · exact Table.get_names t h _ x h'
      · exact h' ▸ rfl

theorem registerAll_WF (rs : List Ref) : (rs.foldl register []).WF := by
  suffices H : ∀ t : Table, t.WF → (rs.foldl register t).WF from H [] ⟨by simp, by simp⟩
  induction rs with
  | nil => intro t h; exact h
  | cons r rs ih => intro t h; exact ih _ (register_WF t h r)

theorem contains_none_iff (grp : String) (rs : List Ref) (n : String) :
    contains grp (rs.foldl register []) n none = true ↔ ∃ r ∈ rs, r.name = n := by
  have hp := sortRefs_perm (rs.filter (fun r => r.name = n))
  simp only [contains, registerAll_get]
  constructor
  · intro h
    cases hl : sortRefs (rs.filter (fun r => r.name = n)) with
    | nil => simp [hl] at h
    | cons x xs =>
      have : x ∈ rs.filter (fun r => r.name = n) := hp.subset (hl ▸ List.mem_cons_self)
      simp only [List.mem_filter, decide_eq_true_eq] at this
      exact ⟨x, this⟩
  · rintro ⟨r, hr, hn⟩
    have : r ∈ sortRefs (rs.filter (fun r => r.name = n)) := hp.symm.subset (by simp [hr, hn])
    cases hl : sortRefs (rs.filter (fun r => r.name = n)) with
    | nil => simp [hl] at this
    | cons x xs => rfl

theorem contains_some_iff (grp : String) (rs : List Ref) (n : String) (v : Ver) :
    contains grp (rs.foldl register []) n (some v) = true ↔ (⟨grp, n, v⟩ : Ref) ∈ rs := by
  have hp := sortRefs_perm (rs.filter (fun r => r.name = n))
  have key : (sortRefs (rs.filter (fun r => r.name = n))).any (fun r => eq ⟨grp, n, v⟩ r) = true ↔
      (⟨grp, n, v⟩ : Ref) ∈ rs := by
    simp only [List.any_eq_true, eq_iff]
    constructor
    · rintro ⟨r, hr, rfl⟩
      exact (List.mem_filter.mp (hp.subset hr)).1
    · intro h
      exact ⟨_, hp.symm.subset (by simp [h]), rfl⟩
  simp only [contains, registerAll_get]
  cases hl : sortRefs (rs.filter (fun r => r.name = n)) with
  | nil => rw [hl] at key; simpa using key
  | cons x xs => rw [hl] at key; exact key

end MetadorModel.Plugin

namespace MetadorModel.Plugin

/-! ### resolve -/

theorem getLast?_max {l : List Ref} (h : l.Pairwise leP) {x : Ref} (hx : l.getLast? = some x) :
    x ∈ l ∧ ∀ y ∈ l, leP y x := by
  have hmem : x ∈ l := List.mem_of_getLast? hx
  refine ⟨hmem, ?_⟩
  intro y hy
  have hne : l ≠ [] := List.ne_nil_of_mem hmem
  have hl : l = l.dropLast ++ [x] := by
    have := List.dropLast_append_getLast hne
    rw [List.getLast?_eq_some_getLast hne] at hx
    rw [← Option.some.inj hx]; exact this.symm
  rw [hl] at hy h
  rcases List.mem_append.mp hy with hy | hy
  · exact (List.pairwise_append.mp h).2.2 y hy x (by simp)
  · simp only [List.mem_singleton] at hy
    subst hy; exact leP_refl _

theorem supports_iff (a b : Ref) : supports a b = true ↔
    a.group = b.group ∧ a.name = b.name ∧ a.ver.1 = b.ver.1 ∧ b.ver.2.1 ≤ a.ver.2.1 := by
  simp only [supports]
  split_ifs <;> simp_all

/-! ### decimal numerals -/

theorem digitChar_isDigit {d : Nat} (h : d < 10) : isDigit (digitChar d) = true := by
  have : d = 0 ∨ d = 1 ∨ d = 2 ∨ d = 3 ∨ d = 4 ∨ d = 5 ∨ d = 6 ∨ d = 7 ∨ d = 8 ∨ d = 9 := by
    omega
  rcases this with h | h | h | h | h | h | h | h | h | h <;> subst h <;> decide

theorem digitChar_val {d : Nat} (h : d < 10) : (digitChar d).toNat - '0'.toNat = d := by
  have : d = 0 ∨ d = 1 ∨ d = 2 ∨ d = 3 ∨ d = 4 ∨ d = 5 ∨ d = 6 ∨ d = 7 ∨ d = 8 ∨ d = 9 := by
    omega
  rcases this with h | h | h | h | h | h | h | h | h | h <;> subst h <;> decide

theorem digitChar_ne_dot {d : Nat} (h : d < 10) : digitChar d ≠ '.' := by
  have : d = 0 ∨ d = 1 ∨ d = 2 ∨ d = 3 ∨ d = 4 ∨ d = 5 ∨ d = 6 ∨ d = 7 ∨ d = 8 ∨ d = 9 := by
    omega
  rcases this with h | h | h | h | h | h | h | h | h | h <;> subst h <;> decide

theorem natToDigits_all (n : Nat) : ∀ c ∈ natToDigits n, isDigit c = true := by
  induction n using Nat.strongRecOn with
  | _ n ih =>
    rw [natToDigits]
    split
    · intro c hc
      simp only [List.mem_singleton] at hc
      subst hc; exact digitChar_isDigit ‹_›
    · intro c hc
      rcases List.mem_append.mp hc with hc | hc
      · exact ih (n / 10) (by omega) c hc
      · simp only [List.mem_singleton] at hc
        subst hc; exact digitChar_isDigit (by omega)

theorem natToDigits_ne_nil (n : Nat) : natToDigits n ≠ [] := by
  rw [natToDigits]; split <;> simp

theorem digitsToNat_append (a : List Char) (c : Char) :
    digitsToNat (a ++ [c]) = digitsToNat a * 10 + (c.toNat - '0'.toNat) := by
  simp [digitsToNat, List.foldl_append]

theorem digitsToNat_natToDigits (n : Nat) : digitsToNat (natToDigits n) = n := by
  induction n using Nat.strongRecOn with
  | _ n ih =>
    rw [natToDigits]
    split
    · rename_i h
      simpa [digitsToNat] using digitChar_val h
    · rw [digitsToNat_append, ih (n / 10) (by omega), digitChar_val (by omega)]
      omega

theorem isDigits_natToDigits (n : Nat) : isDigits (natToDigits n) = true := by
  simp only [isDigits, Bool.and_eq_true, Bool.not_eq_true', List.isEmpty_eq_false_iff,
    List.all_eq_true]
  exact ⟨natToDigits_ne_nil n, natToDigits_all n⟩

/-! ### splitting -/

theorem splitChar_noSep (sep : Char) (s : List Char) (h : ∀ c ∈ s, c ≠ sep) :
    splitChar sep s = [s] := by
  induction s with
  | nil => rfl
  | cons c cs ih =>
    have hc : (c == sep) = false := by simpa using h c (by simp)
    simp only [splitChar, hc, Bool.false_eq_true, if_false]
    rw [ih (fun d hd => h d (by simp [hd]))]

theorem splitChar_append (sep : Char) (a b : List Char) (h : ∀ c ∈ a, c ≠ sep) :
    splitChar sep (a ++ sep :: b) = a :: splitChar sep b := by
  induction a with
  | nil => simp [splitChar]
  | cons c cs ih =>
    have hc : (c == sep) = false := by simpa using h c (by simp)
    simp only [List.cons_append, splitChar, hc, Bool.false_eq_true, if_false]
    rw [ih (fun d hd => h d (by simp [hd]))]

theorem isDigit_ne_dot {c : Char} (h : isDigit c = true) : c ≠ '.' := by
  intro hc; subst hc; revert h; decide

theorem splitChar_semverStr (v : Ver) :
    splitChar '.' (semverStr v) = [natToDigits v.1, natToDigits v.2.1, natToDigits v.2.2] := by
  have nd : ∀ n, ∀ c ∈ natToDigits n, c ≠ '.' :=
    fun n c hc => isDigit_ne_dot (natToDigits_all n c hc)
  simp only [semverStr]
  rw [splitChar_append _ _ _ (nd _), splitChar_append _ _ _ (nd _), splitChar_noSep _ _ (nd _)]

theorem isSemVer_semverStr (v : Ver) : isSemVer (semverStr v) = true := by
  simp [isSemVer, splitChar_semverStr, isDigits_natToDigits]

theorem parseSemVer_semverStr (v : Ver) : parseSemVer (semverStr v) = some v := by
  simp [parseSemVer, isSemVer_semverStr, splitChar_semverStr, digitsToNat_natToDigits]

/-- no two consecutive underscores and no trailing underscore -/
def NoUU : List Char → Prop
  | [] => True
  | [c] => c ≠ '_'
  | c :: d :: rest => ¬ (c = '_' ∧ d = '_') ∧ NoUU (d :: rest)

theorem splitUU_noUnderscore (s acc : List Char) (h : ∀ c ∈ s, c ≠ '_') :
    splitUU s acc = [acc.reverse ++ s] := by
  induction s generalizing acc with
  | nil => simp [splitUU]
  | cons c cs ih =>
    have hc : c ≠ '_' := h c (by simp)
    rw [splitUU.eq_3 _ _ _ (fun _ h1 _ => hc h1)]
    rw [ih _ (fun d hd => h d (by simp [hd]))]; simp

theorem splitUU_append (n s acc : List Char) (hn : NoUU n) (hs : ∀ c ∈ s, c ≠ '_') :
    splitUU (n ++ '_' :: '_' :: s) acc = [acc.reverse ++ n, s] := by
  induction n generalizing acc with
  | nil =>
    simp only [List.nil_append, splitUU, List.append_nil]
    rw [splitUU_noUnderscore s [] hs]; simp
  | cons c cs ih =>
    cases cs with
    | nil =>
      have hc : c ≠ '_' := hn
      simp only [List.cons_append, List.nil_append]
      rw [splitUU.eq_3 _ _ _ (fun _ h1 _ => hc h1)]
      have := ih (c :: acc) (by simp [NoUU])
      simpa using this
    | cons d ds =>
      obtain ⟨h1, h2⟩ := hn
      simp only [List.cons_append]
      rw [splitUU.eq_3 _ _ _ (fun r h1' h2' => h1 ⟨h1', by
        simp only [List.cons_append, List.cons.injEq] at h2'; exact h2'.1⟩)]
      have := ih (c :: acc) h2
      simpa using this

theorem semverStr_noUnderscore (v : Ver) : ∀ c ∈ semverStr v, c ≠ '_' := by
  intro c hc
  simp only [semverStr, List.mem_append, List.mem_cons] at hc
  have nd : ∀ n, ∀ c ∈ natToDigits n, c ≠ '_' := by
    intro n c hc h; subst h
    have := natToDigits_all n _ hc
    revert this; decide
  rcases hc with hc | hc | hc | hc | hc
  · exact nd _ c hc
  · subst hc; decide
  · exact nd _ c hc
  · subst hc; decide
  · exact nd _ c hc

end MetadorModel.Plugin

namespace MetadorModel.Plugin

/-- every underscore is directly followed by an alphanumeric character -/
def UOk : List Char → Prop
  | [] => True
  | [c] => c ≠ '_'
  | c :: d :: rest => (c = '_' → isAlnum d = true) ∧ UOk (d :: rest)

theorem isAlnum_ne_us {c : Char} (h : isAlnum c = true) : c ≠ '_' := by
  intro hc; subst hc; revert h; decide

theorem isLetter_ne_us {c : Char} (h : isLetter c = true) : c ≠ '_' := by
  intro hc; subst hc; revert h; decide

theorem UOk_tail {c : Char} {l : List Char} (h : UOk (c :: l)) : UOk l := by
  cases l with
  | nil => trivial
  | cons d r => exact h.2

theorem UOk_cons_of_ne {c : Char} {l : List Char} (hc : c ≠ '_') (h : UOk l) : UOk (c :: l) := by
  cases l with
  | nil => exact hc
  | cons d r => exact ⟨fun h' => absurd h' hc, h⟩

theorem UOk_noUU {l : List Char} (h : UOk l) : NoUU l := by
  induction l with
  | nil => trivial
  | cons c l ih =>
    cases l with
    | nil => exact h
    | cons d r =>
      refine ⟨?_, ih h.2⟩
      rintro ⟨h1, h2⟩
      exact isAlnum_ne_us (h.1 h1) h2

theorem nameTail_UOk (l : List Char) (h : nameTail l = true) : UOk l := by
  fun_induction nameTail l with
  | case1 => trivial
  | case2 c => exact isAlnum_ne_us h
  | case3 c d rest hc ih =>
    exact UOk_cons_of_ne (isAlnum_ne_us hc) (ih h)
  | case4 c d rest hc hs ih =>
    simp only [Bool.and_eq_true] at hs
    refine ⟨fun _ => hs.2, ?_⟩
    exact UOk_cons_of_ne (isAlnum_ne_us hs.2) (ih h)
  | case5 c d rest hc hs =>
    simp [hc, hs] at h

theorem isName_UOk (l : List Char) (h : isName l = true) : UOk l := by
  match l, h with
  | c :: d :: rest, h =>
    simp only [isName, Bool.and_eq_true] at h
    exact UOk_cons_of_ne (isLetter_ne_us h.1.1)
      (UOk_cons_of_ne (isAlnum_ne_us h.1.2) (nameTail_UOk rest h.2))

theorem splitChar_ne_nil (sep : Char) (s : List Char) : splitChar sep s ≠ [] := by
  cases s with
  | nil => simp [splitChar]
  | cons c cs =>
    simp only [splitChar]
    split
    · simp
    · split <;> simp

theorem splitChar_UOk (s : List Char) (h : ∀ q ∈ splitChar '.' s, UOk q) : UOk s := by
  induction s with
  | nil => trivial
  | cons c cs ih =>
    simp only [splitChar] at h
    by_cases hc : (c == '.') = true
    · simp only [hc, if_true] at h
      have hc' : c = '.' := by simpa using hc
      have := ih (fun q hq => h q (by simp [hq]))
      exact UOk_cons_of_ne (by rw [hc']; decide) this
    · simp only [hc, if_false] at h
      have hcs : UOk cs := by
        apply ih
        intro q hq
        cases hsp : splitChar '.' cs with
        | nil => exact absurd hsp (splitChar_ne_nil _ _)
        | cons p ps =>
          rw [hsp] at h hq
          simp only [List.mem_cons] at hq
          rcases hq with rfl | hq
          · exact UOk_tail (h (c :: q) (by simp))
          · exact h q (by simp [hq])
      by_cases hu : c = '_'
      · -- the first piece starts with `_`, so it has a second (alphanumeric) character
        cases cs with
        | nil =>
          simp only [splitChar] at h
          have := h [c] (by simp)
          exact absurd hu this
        | cons d r =>
          refine ⟨fun _ => ?_, hcs⟩
          simp only [splitChar] at h
          by_cases hd : (d == '.') = true
          · simp only [hd, if_true] at h
            have := h [c] (by simp)
            exact absurd hu this
          · simp only [hd, if_false] at h
            cases hsp : splitChar '.' r with
            | nil => exact absurd hsp (splitChar_ne_nil _ _)
            | cons p ps =>
              rw [hsp] at h
              have := h (c :: d :: p) (by simp)
              exact this.1 hu
      · exact UOk_cons_of_ne hu hcs

theorem isQualName_noUU (n : List Char) (h : isQualName n = true) : NoUU n := by
  apply UOk_noUU
  apply splitChar_UOk
  intro q hq
  simp only [isQualName, List.all_eq_true] at h
  exact isName_UOk q (h q hq)

end MetadorModel.Plugin
