import MetadorModel.Proofs.Partial
/-! Helper lemmas for C14, part 2: associativity of the merge where the values met at one
position have one shape and, for model values, classes related by inheritance (`Sim`). -/
namespace MetadorModel.Partial
open MetadorModel

/-- sequencing of two steps that may raise -/
def bindE {α β : Type} (x : Except Err α) (f : α → Except Err β) : Except Err β :=
  match x with
  | .ok a => f a
  | .error e => .error e

/-- "both outcomes are equal values, or both raise" -/
def sameOutcome {α : Type} (x y : Except Err α) : Prop :=
  match x, y with
  | .ok a, .ok b => a = b
  | .error _, .error _ => True
  | _, _ => False

theorem sameOutcome_refl {α : Type} (x : Except Err α) : sameOutcome x x := by
  cases x <;> simp [sameOutcome]

theorem sameOutcome_of_eq {α : Type} {x y : Except Err α} (h : x = y) : sameOutcome x y :=
  h ▸ sameOutcome_refl x

theorem related_comm (c d : Cls) : related c d = related d c := by
  simp [related, Bool.or_comm]

mutual
/-- the two values have one shape; two model values have related classes and, field by field,
values of one shape again (lists and sets are not looked into: they are concatenated / united) -/
def Sim : PVal → PVal → Prop
  | .atom _, w => match w with
    | .atom _ => True
    | _ => False
  | .list _, w => match w with
    | .list _ => True
    | _ => False
  | .set _, w => match w with
    | .set _ => True
    | _ => False
  | .obj c1 f1, w => match w with
    | .obj c2 f2 => related c1 c2 = true ∧ SimF f1 f2
    | _ => False
def SimF : Fields → Fields → Prop
  | [], _ => True
  | (k, v) :: r, f2 =>
    (match AL.get f2 k with
      | some v2 => Sim v v2
      | none => True) ∧ SimF r f2
end

theorem SimF_get {f1 f2 : Fields} (h : SimF f1 f2) {k : String} {v1 v2 : PVal}
    (h1 : AL.get f1 k = some v1) (h2 : AL.get f2 k = some v2) : Sim v1 v2 := by
  induction f1 with
  | nil => simp at h1
  | cons a r ih =>
    obtain ⟨k0, v0⟩ := a
    simp only [SimF] at h
    rw [AL.get_cons] at h1
    split_ifs at h1 with hk
    · subst hk
      cases h1
      have := h.1
      rw [h2] at this
      exact this
    · exact ih h.2 h1

/-! ## equations of `merge` by shape -/

theorem merge_atom_atom (ow : Bool) (a b : Atom) : merge ow (.atom a) (.atom b) = asOpaque ow (.atom b) := by
  simp [merge]

theorem merge_list_list (ow : Bool) (xs ys : List PVal) : merge ow (.list xs) (.list ys) = .ok (.list (xs ++ ys)) := by
  simp [merge]

theorem merge_set_set (ow : Bool) (xs ys : List Atom) : merge ow (.set xs) (.set ys) = .ok (.set (unionA xs ys)) := by
  simp [merge]

def mapObj (c : Cls) : Except Err Fields → Except Err PVal
  | .ok r => .ok (.obj c r)
  | .error e => .error e

theorem merge_obj_obj (ow : Bool) (c1 c2 : Cls) (f1 f2 : Fields) :
    merge ow (.obj c1 f1) (.obj c2 f2) =
      if related c2 c1 = true then mapObj c1 (mergeFields ow f1 f2) else asOpaque ow (.obj c2 f2) := by
  rw [merge]
  split_ifs with h
  · cases mergeFields ow f1 f2 <;> rfl
  · rfl

theorem unionA_assoc (xs ys zs : List Atom) : unionA (unionA xs ys) zs = unionA xs (unionA ys zs) := by
  simp only [unionA, List.filter_append, List.append_assoc, List.filter_filter]
  congr 2
  apply List.filter_congr
  intro z _
  simp only [List.contains_eq_mem, List.mem_append, List.mem_filter, Bool.not_eq_true', decide_eq_false_iff_not,
    Bool.decide_or, Bool.decide_and, Bool.not_or, Bool.not_and, Bool.not_not, decide_not]
  cases decide (z ∈ xs) <;> cases decide (z ∈ ys) <;> rfl

/-! ## composite loops, key by key -/

theorem compL {ow : Bool} {f1 f2 f3 : Fields} (h1 : AL.sorted f1 = true) (h2 : AL.sorted f2 = true)
    (h3 : AL.sorted f3 = true) :
    (∀ rL, bindE (mergeFields ow f1 f2) (fun r => mergeFields ow r f3) = .ok rL →
      AL.sorted rL = true ∧
      ∀ k, bindE (updO ow (AL.get f1 k) (AL.get f2 k)) (fun m => updO ow m (AL.get f3 k)) = .ok (AL.get rL k)) ∧
    ((∃ e, bindE (mergeFields ow f1 f2) (fun r => mergeFields ow r f3) = .error e) ↔
      ∃ k e, bindE (updO ow (AL.get f1 k) (AL.get f2 k)) (fun m => updO ow m (AL.get f3 k)) = .error e) := by
  cases hm : mergeFields ow f1 f2 with
  | error e =>
    obtain ⟨k, e', he⟩ := mergeFields_err h2 hm
    refine ⟨fun rL h => by simp [bindE] at h, ⟨fun _ => ⟨k, e', by simp [bindE, he]⟩, fun _ => ⟨e, rfl⟩⟩⟩
  | ok r12 =>
    obtain ⟨hs, hp⟩ := mergeFields_ok h2 h1 hm
    simp only [bindE]
    constructor
    · intro rL h
      obtain ⟨hs', hp'⟩ := mergeFields_ok h3 hs h
      exact ⟨hs', fun k => by rw [hp k]; exact hp' k⟩
    · rw [mergeFields_isErr_iff h3]
      constructor
      · rintro ⟨k, e, he⟩; exact ⟨k, e, by rw [hp k]; exact he⟩
      · rintro ⟨k, e, he⟩; rw [hp k] at he; exact ⟨k, e, he⟩

theorem compR {ow : Bool} {f1 f2 f3 : Fields} (h1 : AL.sorted f1 = true) (h2 : AL.sorted f2 = true)
    (h3 : AL.sorted f3 = true) :
    (∀ rR, bindE (mergeFields ow f2 f3) (fun r => mergeFields ow f1 r) = .ok rR →
      AL.sorted rR = true ∧
      ∀ k, bindE (updO ow (AL.get f2 k) (AL.get f3 k)) (fun m => updO ow (AL.get f1 k) m) = .ok (AL.get rR k)) ∧
    ((∃ e, bindE (mergeFields ow f2 f3) (fun r => mergeFields ow f1 r) = .error e) ↔
      ∃ k e, bindE (updO ow (AL.get f2 k) (AL.get f3 k)) (fun m => updO ow (AL.get f1 k) m) = .error e) := by
  cases hm : mergeFields ow f2 f3 with
  | error e =>
    obtain ⟨k, e', he⟩ := mergeFields_err h3 hm
    refine ⟨fun rR h => by simp [bindE] at h, ⟨fun _ => ⟨k, e', by simp [bindE, he]⟩, fun _ => ⟨e, rfl⟩⟩⟩
  | ok r23 =>
    obtain ⟨hs, hp⟩ := mergeFields_ok h3 h2 hm
    simp only [bindE]
    constructor
    · intro rR h
      obtain ⟨hs', hp'⟩ := mergeFields_ok hs h1 h
      exact ⟨hs', fun k => by rw [hp k]; exact hp' k⟩
    · rw [mergeFields_isErr_iff hs]
      constructor
      · rintro ⟨k, e, he⟩; exact ⟨k, e, by rw [hp k]; exact he⟩
      · rintro ⟨k, e, he⟩; rw [hp k] at he; exact ⟨k, e, he⟩

/-- associativity statement for one new value `c` -/
def AssocAt (c : PVal) : Prop :=
  ∀ (ow : Bool) (a b : PVal), a.wf = true → b.wf = true → c.wf = true → Sim a b → Sim b c → Sim a c →
    sameOutcome (bindE (merge ow a b) (fun m => merge ow m c)) (bindE (merge ow b c) (fun m => merge ow a m))

theorem updO_assoc_some {ow : Bool} {a b c : PVal}
    (h : sameOutcome (bindE (merge ow a b) (fun m => merge ow m c)) (bindE (merge ow b c) (fun m => merge ow a m))) :
    sameOutcome (bindE (updO ow (some a) (some b)) (fun m => updO ow m (some c)))
      (bindE (updO ow (some b) (some c)) (fun m => updO ow (some a) m)) := by
  simp only [updO_some]
  cases h1 : merge ow a b with
  | error e1 =>
    cases h2 : merge ow b c with
    | error e2 => simp [bindE, sameOutcome]
    | ok m2 =>
      rw [h1, h2] at h
      simp only [bindE] at h ⊢
      rw [updO_some]
      cases h3 : merge ow a m2 with
      | error e3 => simp [sameOutcome]
      | ok m3 => rw [h3] at h; simp [sameOutcome] at h
  | ok m1 =>
    rw [h1] at h
    simp only [bindE] at h ⊢
    rw [updO_some]
    cases h2 : merge ow b c with
    | error e2 =>
      rw [h2] at h
      cases h3 : merge ow m1 c with
      | error e3 => simp [sameOutcome]
      | ok m3 => rw [h3] at h; simp [sameOutcome] at h
    | ok m2 =>
      rw [h2] at h
      simp only [] at h ⊢
      rw [updO_some]
      cases h3 : merge ow m1 c with
      | error e3 =>
        rw [h3] at h
        cases h4 : merge ow a m2 with
        | error e4 => simp [sameOutcome]
        | ok m4 => rw [h4] at h; simp [sameOutcome] at h
      | ok m3 =>
        rw [h3] at h
        cases h4 : merge ow a m2 with
        | error e4 => rw [h4] at h; simp [sameOutcome] at h
        | ok m4 => rw [h4] at h; simp only [sameOutcome] at h ⊢; rw [h]

/-- the field loops are associative when every value of the last operand is -/
theorem assocF (ow : Bool) (f1 f2 f3 : Fields)
    (h1 : AL.sorted f1 = true) (h2 : AL.sorted f2 = true) (h3 : AL.sorted f3 = true)
    (w1 : wfF f1 = true) (w2 : wfF f2 = true) (w3 : wfF f3 = true)
    (s12 : SimF f1 f2) (s23 : SimF f2 f3) (s13 : SimF f1 f3)
    (H : ∀ k v, AL.get f3 k = some v → AssocAt v) :
    sameOutcome (bindE (mergeFields ow f1 f2) (fun r => mergeFields ow r f3))
      (bindE (mergeFields ow f2 f3) (fun r => mergeFields ow f1 r)) := by
  -- key by key
  have key : ∀ k, sameOutcome
      (bindE (updO ow (AL.get f1 k) (AL.get f2 k)) (fun m => updO ow m (AL.get f3 k)))
      (bindE (updO ow (AL.get f2 k) (AL.get f3 k)) (fun m => updO ow (AL.get f1 k) m)) := by
    intro k
    cases hx : AL.get f1 k with
    | none =>
      simp only [updO_none_left, bindE]
      cases updO ow (AL.get f2 k) (AL.get f3 k) <;> simp [sameOutcome]
    | some a =>
      cases hy : AL.get f2 k with
      | none => simp only [updO_none_left, updO_none_right, bindE]; exact sameOutcome_refl _
      | some b =>
        cases hz : AL.get f3 k with
        | none =>
          simp only [updO_none_right, bindE]
          cases updO ow (some a) (some b) <;> simp [sameOutcome]
        | some c =>
          exact updO_assoc_some (H k c hz ow a b (wfF_get w1 hx) (wfF_get w2 hy) (wfF_get w3 hz)
            (SimF_get s12 hx hy) (SimF_get s23 hy hz) (SimF_get s13 hx hz))
  obtain ⟨okL, errL⟩ := compL (ow := ow) h1 h2 h3
  obtain ⟨okR, errR⟩ := compR (ow := ow) h1 h2 h3
  cases hL : bindE (mergeFields ow f1 f2) (fun r => mergeFields ow r f3) with
  | error eL =>
    cases hR : bindE (mergeFields ow f2 f3) (fun r => mergeFields ow f1 r) with
    | error eR => simp [sameOutcome]
    | ok rR =>
      exfalso
      obtain ⟨k, e, he⟩ := errL.mp ⟨eL, hL⟩
      have := key k
      rw [he, (okR rR hR).2 k] at this
      simp [sameOutcome] at this
  | ok rL =>
    cases hR : bindE (mergeFields ow f2 f3) (fun r => mergeFields ow f1 r) with
    | error eR =>
      exfalso
      obtain ⟨k, e, he⟩ := errR.mp ⟨eR, hR⟩
      have := key k
      rw [he, (okL rL hL).2 k] at this
      simp [sameOutcome] at this
    | ok rR =>
      simp only [sameOutcome]
      apply AL.ext (okL rL hL).1 (okR rR hR).1
      intro k
      have := key k
      rw [(okL rL hL).2 k, (okR rR hR).2 k] at this
      simpa [sameOutcome] using this

theorem sameOutcome_mapObj (c : Cls) {x y : Except Err Fields} (h : sameOutcome x y) :
    sameOutcome (mapObj c x) (mapObj c y) := by
  cases x <;> cases y <;> simp_all [sameOutcome, mapObj]

theorem bindE_mapObj_merge (ow : Bool) (c1 c3 : Cls) (x : Except Err Fields) (f3 : Fields)
    (hr : related c3 c1 = true) :
    bindE (mapObj c1 x) (fun m => merge ow m (.obj c3 f3)) =
      mapObj c1 (bindE x (fun r => mergeFields ow r f3)) := by
  cases x with
  | error e => rfl
  | ok r => simp [bindE, mapObj, merge_obj_obj, hr]

theorem bindE_mapObj_merge' (ow : Bool) (c1 c2 : Cls) (f1 : Fields) (x : Except Err Fields)
    (hr : related c2 c1 = true) :
    bindE (mapObj c2 x) (fun m => merge ow (.obj c1 f1) m) =
      mapObj c1 (bindE x (fun r => mergeFields ow f1 r)) := by
  cases x with
  | error e => rfl
  | ok r => simp [bindE, mapObj, merge_obj_obj, hr]

mutual
theorem assocV : (c : PVal) → AssocAt c
  | .atom z => by
    intro ow a b _ _ _ sab sbc _
    cases b with
    | atom y =>
      cases a with
      | atom x =>
        cases ow <;> simp [merge_atom_atom, asOpaque, bindE, sameOutcome]
      | list _ => simp [Sim] at sab
      | set _ => simp [Sim] at sab
      | obj _ _ => simp [Sim] at sab
    | list _ => simp [Sim] at sbc
    | set _ => simp [Sim] at sbc
    | obj _ _ => simp [Sim] at sbc
  | .list zs => by
    intro ow a b _ _ _ sab sbc _
    cases b with
    | list ys =>
      cases a with
      | list xs => simp [merge_list_list, bindE, sameOutcome]
      | atom _ => simp [Sim] at sab
      | set _ => simp [Sim] at sab
      | obj _ _ => simp [Sim] at sab
    | atom _ => simp [Sim] at sbc
    | set _ => simp [Sim] at sbc
    | obj _ _ => simp [Sim] at sbc
  | .set zs => by
    intro ow a b _ _ _ sab sbc _
    cases b with
    | set ys =>
      cases a with
      | set xs => simp [merge_set_set, bindE, sameOutcome, unionA_assoc]
      | atom _ => simp [Sim] at sab
      | list _ => simp [Sim] at sab
      | obj _ _ => simp [Sim] at sab
    | atom _ => simp [Sim] at sbc
    | list _ => simp [Sim] at sbc
    | obj _ _ => simp [Sim] at sbc
  | .obj c3 f3 => by
    intro ow a b wa wb wc sab sbc sac
    cases b with
    | obj c2 f2 =>
      cases a with
      | obj c1 f1 =>
        simp only [Sim] at sab sbc sac
        have wa' := (wf_obj c1 f1).mp wa
        have wb' := (wf_obj c2 f2).mp wb
        have wc' := (wf_obj c3 f3).mp wc
        have r21 : related c2 c1 = true := by rw [related_comm]; exact sab.1
        have r32 : related c3 c2 = true := by rw [related_comm]; exact sbc.1
        have r31 : related c3 c1 = true := by rw [related_comm]; exact sac.1
        rw [merge_obj_obj, if_pos r21, merge_obj_obj, if_pos r32]
        rw [bindE_mapObj_merge ow c1 c3 _ f3 r31, bindE_mapObj_merge' ow c1 c2 f1 _ r21]
        exact sameOutcome_mapObj c1 (assocF ow f1 f2 f3 wa'.1 wb'.1 wc'.1 wa'.2 wb'.2 wc'.2
          sab.2 sbc.2 sac.2 (assocM f3))
      | atom _ => simp [Sim] at sab
      | list _ => simp [Sim] at sab
      | set _ => simp [Sim] at sab
    | atom _ => simp [Sim] at sbc
    | list _ => simp [Sim] at sbc
    | set _ => simp [Sim] at sbc
theorem assocM : (f3 : Fields) → ∀ k v, AL.get f3 k = some v → AssocAt v
  | [], k, v, h => by simp at h
  | (k0, v0) :: r, k, v, h => by
    rw [AL.get_cons] at h
    split_ifs at h with hk
    · cases h; exact assocV v0
    · exact assocM r k v h
end

/-- `merge_with` is associative on objects whose fields are pairwise of one shape -/
theorem mergeWith_assoc (ow : Bool) (c1 c2 c3 : Cls) (f1 f2 f3 : Fields)
    (wa : (PVal.obj c1 f1).wf = true) (wb : (PVal.obj c2 f2).wf = true) (wc : (PVal.obj c3 f3).wf = true)
    (s12 : SimF f1 f2) (s23 : SimF f2 f3) (s13 : SimF f1 f3) :
    sameOutcome (bindE (mergeWith ow (.obj c1 f1) (.obj c2 f2)) (fun m => mergeWith ow m (.obj c3 f3)))
      (bindE (mergeWith ow (.obj c2 f2) (.obj c3 f3)) (fun m => mergeWith ow (.obj c1 f1) m)) := by
  have wa' := (wf_obj c1 f1).mp wa
  have wb' := (wf_obj c2 f2).mp wb
  have wc' := (wf_obj c3 f3).mp wc
  have hL : bindE (mergeWith ow (.obj c1 f1) (.obj c2 f2)) (fun m => mergeWith ow m (.obj c3 f3)) =
      mapObj c1 (bindE (mergeFields ow f1 f2) (fun r => mergeFields ow r f3)) := by
    simp only [mergeWith]
    cases mergeFields ow f1 f2 with
    | error e => rfl
    | ok r =>
      simp only [bindE]
      cases mergeFields ow r f3 <;> rfl
  have hR : bindE (mergeWith ow (.obj c2 f2) (.obj c3 f3)) (fun m => mergeWith ow (.obj c1 f1) m) =
      mapObj c1 (bindE (mergeFields ow f2 f3) (fun r => mergeFields ow f1 r)) := by
    simp only [mergeWith]
    cases mergeFields ow f2 f3 with
    | error e => rfl
    | ok r =>
      simp only [bindE]
      cases mergeFields ow f1 r <;> rfl
  rw [hL, hR]
  exact sameOutcome_mapObj c1 (assocF ow f1 f2 f3 wa'.1 wb'.1 wc'.1 wa'.2 wb'.2 wc'.2 s12 s23 s13 (assocM f3))
