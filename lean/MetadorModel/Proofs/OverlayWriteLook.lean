import MetadorModel.Proofs.OverlayView
/-!
# C01 write side, part 1: what the outcome of `look` says about the view

General facts (no invariant needed) relating the three outcomes of `_node_seq` (`found`,
`part`, `insideValue`) to `viewKind`, the refinement relation `Rep` between a record and a
plain tree, and what `Rep` implies for the tree (`Spec` preconditions).
-/
namespace MetadorModel.Overlay
open MetadorModel.Tree
variable {V : Type}

/-- the record `r` shows exactly the plain tree `t` (point-wise: kinds/values and attributes) -/
def Rep (r : Rec V) (t : Tree V) : Prop :=
  ∀ q, viewKind r q = kindAt t q ∧ ∀ k, viewAttr r q k = attrAt t q k

/-! ### kinds -/

theorem plainKind_group_of_isGroup {kd : RKind V} (h : kd.isGroup = true) : plainKind kd = some .group := by
  cases kd <;> simp_all [RKind.isGroup, plainKind]

theorem isGroup_of_plainKind_group {kd : RKind V} (h : plainKind kd = some .group) : kd.isGroup = true := by
  cases kd <;> simp_all [RKind.isGroup, plainKind]

theorem plainKind_ne_none_of_notDel {kd : RKind V} (h : kd.isDel = false) : plainKind kd ≠ none := by
  cases kd <;> simp_all [RKind.isDel, plainKind]

theorem plainKind_data_of {kd : RKind V} (h1 : kd.isDel = false) (h2 : kd.isGroup = false) :
    ∃ v, plainKind kd = some (.data v) := by
  cases kd <;> simp_all [RKind.isDel, RKind.isGroup, plainKind]

theorem isGroup_of_isVirtual {kd : RKind V} (h : kd.isVirtual = true) : kd.isGroup = true := by
  cases kd <;> simp_all [RKind.isVirtual, RKind.isGroup]

/-! ### the walk -/

theorem lookFrom_part_props (r : Rec V) (rest : Path) : ∀ (pre : Path) (c0 : Nat) (n0 : RNode V) (x y : Path),
    lookFrom r pre c0 n0 rest = .part x y →
    ∃ a c n k y', rest = a ++ y ∧ x = pre ++ a ∧ y = k :: y' ∧ lookFrom r pre c0 n0 a = .found c n ∧
      n.kind.isGroup = true ∧ child r (x ++ [k]) c = none := by
  induction rest with
  | nil => intro pre c0 n0 x y h; simp [lookFrom] at h
  | cons k rest ih =>
    intro pre c0 n0 x y h
    simp only [lookFrom] at h
    by_cases hg : n0.kind.isGroup = true
    · simp only [hg, ↓reduceIte] at h
      cases hc : child r (pre ++ [k]) c0 with
      | none =>
        simp only [hc] at h
        simp only [Look.part.injEq] at h
        obtain ⟨rfl, rfl⟩ := h
        exact ⟨[], c0, n0, k, rest, by simp, by simp, rfl, by simp [lookFrom], hg, hc⟩
      | some z =>
        obtain ⟨i, n⟩ := z
        simp only [hc] at h
        obtain ⟨a, c, m, k', y', h1, h2, h3, h4, h5, h6⟩ := ih _ _ _ _ _ h
        refine ⟨k :: a, c, m, k', y', by simp [h1], by simp [h2], h3, ?_, h5, h6⟩
        simp only [lookFrom, hg, ↓reduceIte, hc]
        exact h4
    · simp [hg] at h

theorem lookFrom_inside_props (r : Rec V) (rest : Path) : ∀ (pre : Path) (c0 : Nat) (n0 : RNode V),
    lookFrom r pre c0 n0 rest = .insideValue →
    ∃ a s c n, rest = a ++ s ∧ s ≠ [] ∧ lookFrom r pre c0 n0 a = .found c n ∧ n.kind.isGroup = false := by
  induction rest with
  | nil => intro pre c0 n0 h; simp [lookFrom] at h
  | cons k rest ih =>
    intro pre c0 n0 h
    simp only [lookFrom] at h
    by_cases hg : n0.kind.isGroup = true
    · simp only [hg, ↓reduceIte] at h
      cases hc : child r (pre ++ [k]) c0 with
      | none => simp [hc] at h
      | some z =>
        obtain ⟨i, n⟩ := z
        simp only [hc] at h
        obtain ⟨a, s, c, m, h1, h2, h3, h4⟩ := ih _ _ _ h
        refine ⟨k :: a, s, c, m, by simp [h1], h2, ?_, h4⟩
        simp only [lookFrom, hg, ↓reduceIte, hc]
        exact h3
    · exact ⟨[], k :: rest, c0, n0, by simp, by simp, by simp [lookFrom], by simpa using hg⟩

/-! ### `look` and `viewKind` -/

theorem look_found_props (r : Rec V) (q : Path) (c : Nat) (n : RNode V) (h : look r q = .found c n) :
    c ≤ r.length ∧ n.kind.isDel = false :=
  lookFrom_found_props r q [] 0 vnode c n h (Nat.zero_le _) rfl

theorem viewKind_of_found (r : Rec V) (q : Path) (c : Nat) (n : RNode V) (h : look r q = .found c n) :
    viewKind r q = plainKind n.kind ∧ plainKind n.kind ≠ none := by
  refine ⟨by simp [viewKind, h], plainKind_ne_none_of_notDel (look_found_props r q c n h).2⟩

theorem viewAttr_of_found (r : Rec V) (q : Path) (c : Nat) (n : RNode V) (h : look r q = .found c n) (k : Key) :
    viewAttr r q k = attrOf r q c k := by
  simp [viewAttr, h]

theorem found_of_viewKind (r : Rec V) (q : Path) (h : viewKind r q ≠ none) : ∃ c n, look r q = .found c n := by
  unfold viewKind at h
  cases hl : look r q with
  | found c n => exact ⟨c, n, rfl⟩
  | part _ _ => simp [hl] at h
  | insideValue => simp [hl] at h

theorem viewKind_none_of_not_found (r : Rec V) (q : Path) (h : ∀ c n, look r q ≠ .found c n) : viewKind r q = none := by
  by_contra hne
  obtain ⟨c, n, hl⟩ := found_of_viewKind r q hne
  exact h c n hl

theorem viewAttr_none_of_viewKind_none (r : Rec V) (q : Path) (h : viewKind r q = none) (k : Key) :
    viewAttr r q k = none := by
  unfold viewAttr
  cases hl : look r q with
  | found c n => exact absurd h (by rw [(viewKind_of_found r q c n hl).1]; exact (viewKind_of_found r q c n hl).2)
  | part _ _ => rfl
  | insideValue => rfl

theorem look_append (r : Rec V) (b rest : Path) :
    look r (b ++ rest) = match look r b with
      | .found c cur => lookFrom r b c cur rest
      | .part x y => .part x (y ++ rest)
      | .insideValue => .insideValue := by
  unfold look
  have := lookFrom_append r b rest [] 0 vnode
  simp only [List.nil_append] at this
  exact this

/-- every proper prefix of a visible path is a visible group -/
theorem view_prefix_group (r : Rec V) (x s : Path) (hs : s ≠ []) (h : viewKind r (x ++ s) ≠ none) :
    viewKind r x = some .group := by
  obtain ⟨c, n, hl⟩ := found_of_viewKind r _ h
  rw [look_append] at hl
  cases hx : look r x with
  | found c' cur =>
    rw [hx] at hl
    simp only at hl
    cases s with
    | nil => exact absurd rfl hs
    | cons k s' =>
      simp only [lookFrom] at hl
      by_cases hg : cur.kind.isGroup = true
      · rw [(viewKind_of_found r x c' cur hx).1]; exact plainKind_group_of_isGroup hg
      · simp [hg] at hl
  | part _ _ => rw [hx] at hl; simp at hl
  | insideValue => rw [hx] at hl; simp at hl

theorem view_below_none (r : Rec V) (x s : Path) (h : viewKind r x = none) : viewKind r (x ++ s) = none := by
  by_cases hs : s = []
  · subst hs; simpa using h
  · by_contra hne
    have := view_prefix_group r x s hs hne
    rw [h] at this; cases this

/-- below a dataset nothing is visible -/
theorem view_below_data (r : Rec V) (x s : Path) (v : V) (hs : s ≠ []) (h : viewKind r x = some (.data v)) :
    viewKind r (x ++ s) = none := by
  by_contra hne
  have := view_prefix_group r x s hs hne
  rw [h] at this; cases this

theorem look_part_props (r : Rec V) (q x y : Path) (h : look r q = .part x y) :
    ∃ k y', q = x ++ y ∧ y = k :: y' ∧ viewKind r x = some .group ∧ viewKind r (x ++ [k]) = none := by
  obtain ⟨a, c, n, k, y', h1, h2, h3, h4, h5, h6⟩ := lookFrom_part_props r q [] 0 vnode x y h
  simp only [List.nil_append] at h2
  subst h2
  have hx : look r x = .found c n := h4
  refine ⟨k, y', h1, h3, ?_, ?_⟩
  · rw [(viewKind_of_found r x c n hx).1]; exact plainKind_group_of_isGroup h5
  · apply viewKind_none_of_not_found
    intro c' n' hl
    rw [look_append, hx] at hl
    simp [lookFrom, h5, h6] at hl

theorem look_inside_props (r : Rec V) (q : Path) (h : look r q = .insideValue) :
    ∃ x s v, q = x ++ s ∧ s ≠ [] ∧ viewKind r x = some (.data v) := by
  obtain ⟨a, s, c, n, h1, h2, h3, h4⟩ := lookFrom_inside_props r q [] 0 vnode h
  have hx : look r a = .found c n := h3
  obtain ⟨v, hv⟩ := plainKind_data_of (look_found_props r a c n hx).2 h4
  exact ⟨a, s, v, h1, h2, by rw [(viewKind_of_found r a c n hx).1]; exact hv⟩

/-- the first missing segment of a partially resolved path is itself a partially resolved path -/
theorem look_part_first (r : Rec V) (pre : Path) (k : Key) (more : Path)
    (h : look r (pre ++ k :: more) = .part pre (k :: more)) : look r (pre ++ [k]) = .part pre [k] := by
  obtain ⟨a, c, n, k', y', h1, h2, h3, h4, h5, h6⟩ := lookFrom_part_props r _ [] 0 vnode _ _ h
  simp only [List.nil_append] at h2
  subst h2
  simp only [List.cons.injEq] at h3
  obtain ⟨rfl, rfl⟩ := h3
  have hx : look r pre = .found c n := h4
  rw [look_append, hx]
  simp [lookFrom, h5, h6]

/-! ### consequences of `Rep` for the plain tree -/

theorem kindAt_none_iff (t : Tree V) (q : Path) : kindAt t q = none ↔ aget q t = none := by
  unfold kindAt; cases aget q t <;> simp

theorem Rep.parent {r : Rec V} {t : Tree V} (h : Rep r t) (x s : Path) (hs : s ≠ [])
    (hq : kindAt t (x ++ s) ≠ none) : kindAt t x = some .group := by
  rw [← (h _).1] at hq
  rw [← (h _).1]
  exact view_prefix_group r x s hs hq

theorem Rep.below_none {r : Rec V} {t : Tree V} (h : Rep r t) (x s : Path)
    (hq : kindAt t x = none) : aget (x ++ s) t = none := by
  rw [← kindAt_none_iff, ← (h _).1]
  apply view_below_none
  rw [(h _).1]; exact hq

theorem isData_iff (t : Tree V) (q : Path) : isData (aget q t) = true ↔ ∃ v, kindAt t q = some (.data v) := by
  unfold kindAt isData
  cases aget q t with
  | none => simp
  | some n =>
    obtain ⟨kd, as⟩ := n
    cases kd <;> simp

/-- a path whose deepest visible prefix is a group can be created in the plain tree -/
theorem Rep.checkFresh_ok {r : Rec V} {t : Tree V} (h : Rep r t) (pre : Path) (k : Key) (more : Path)
    (hpre : viewKind r pre = some .group) (hk : viewKind r (pre ++ [k]) = none) :
    Spec.checkFresh t (pre ++ k :: more) = .ok () := by
  have hnone : ∀ s, aget (pre ++ [k] ++ s) t = none := fun s =>
    h.below_none (pre ++ [k]) s (by rw [← (h _).1]; exact hk)
  unfold Spec.checkFresh
  have h1 : pre ++ k :: more ≠ [] := by simp
  have h2 : aget (pre ++ k :: more) t = none := by simpa using hnone more
  have h3 : ancestorsOk t (pre ++ k :: more) = true := by
    unfold ancestorsOk
    rw [List.all_eq_true]
    intro x hx
    obtain ⟨s, hs, hxs⟩ := (mem_properPrefixes x _).1 hx
    cases hd : isData (aget x t) with
    | false => rfl
    | true =>
      exfalso
      obtain ⟨v, hv⟩ := (isData_iff t x).1 hd
      -- `x` is a prefix of `pre` (then a group) or extends `pre ++ [k]` (then absent)
      rcases List.append_eq_append_iff.1 hxs with ⟨a', h5, h6⟩ | ⟨c', h5, h6⟩
      · -- x = pre ++ a'
        cases a' with
        | nil =>
          simp only [List.append_nil] at h5; subst h5
          rw [← (h _).1, hpre] at hv; cases hv
        | cons k' a'' =>
          simp only [List.cons_append, List.cons.injEq] at h6
          obtain ⟨rfl, _⟩ := h6
          have := hnone a''
          rw [h5] at hv
          have hx' : pre ++ k :: a'' = pre ++ [k] ++ a'' := by simp
          rw [hx', (kindAt_none_iff _ _).2 this] at hv; cases hv
      · -- pre = x ++ c'
        by_cases hc : c' = []
        · subst hc
          simp only [List.append_nil] at h5; subst h5
          rw [← (h _).1, hpre] at hv; cases hv
        · have := view_prefix_group r x c' hc (by rw [← h5, hpre]; simp)
          rw [← (h _).1, this] at hv; cases hv
  simp [h1, h2, h3]

theorem Rep.checkFresh_exists {r : Rec V} {t : Tree V} (h : Rep r t) (q : Path)
    (hq : viewKind r q ≠ none) : ∃ e, Spec.checkFresh t q = .error e := by
  unfold Spec.checkFresh
  by_cases h1 : q = []
  · exact ⟨.exists_, by simp [h1]⟩
  · have : (aget q t).isSome = true := by
      rw [(h _).1] at hq
      cases hg : aget q t with
      | none => exact absurd ((kindAt_none_iff t q).2 hg) hq
      | some _ => rfl
    exact ⟨.exists_, by simp [h1, this]⟩

theorem Rep.checkFresh_inside {r : Rec V} {t : Tree V} (h : Rep r t) (x s : Path) (v : V) (hs : s ≠ [])
    (hx : viewKind r x = some (.data v)) : ∃ e, Spec.checkFresh t (x ++ s) = .error e := by
  unfold Spec.checkFresh
  by_cases h1 : x ++ s = []
  · exact ⟨.exists_, by simp [h1]⟩
  · by_cases h2 : (aget (x ++ s) t).isSome = true
    · exact ⟨.exists_, by simp [h1, h2]⟩
    · have h3 : ancestorsOk t (x ++ s) = false := by
        unfold ancestorsOk
        rw [List.all_eq_false]
        refine ⟨x, (mem_properPrefixes x _).2 ⟨s, hs, rfl⟩, ?_⟩
        have : isData (aget x t) = true := (isData_iff t x).2 ⟨v, by rw [← (h _).1]; exact hx⟩
        simp [this]
      exact ⟨.insideValue, by simp [h1, h2, h3]⟩

end MetadorModel.Overlay
