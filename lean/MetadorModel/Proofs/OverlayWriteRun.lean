import MetadorModel.Proofs.OverlayWriteStep
/-!
# C01 write side, part 9: histories

`run_sim`: running a history of basic operations (with patch boundaries anywhere) on a record
and on the plain tree it represents gives the same outcomes and `Rep`-related final states.
Plus the facts about plain trees behind the corollaries of C01 (a deleted subtree stays absent,
a node stays what it is, as long as no later operation touches it).
-/
namespace MetadorModel.Overlay
open MetadorModel.Tree
variable {V : Type}

/-! ### the initial record -/

theorem inv_init : Inv (Rec.init : Rec V) := ⟨wf_init, invLast_init _, trivial⟩

theorem rep_init : Rep (Rec.init : Rec V) (Tree.init : Tree V) := by
  intro q
  have hinv : Inv (Rec.init : Rec V) := inv_init
  obtain ⟨h1, h2⟩ := view_cons (Cont.init : Cont V) [] hinv.1 hinv.2.1 q
  have hnv : nvPrefix (Cont.init : Cont V) q = false := by
    apply nvFrom_false_of_none
    intro s hs
    rw [aget_init]; simp [hs]
  refine ⟨?_, fun k => ?_⟩
  · show viewKind ((Cont.init : Cont V) :: []) q = _
    rw [h1]
    by_cases hq : q = []
    · subst hq; simp [applyKind, hnv, aget_init, viewKind_root, kindAt, Tree.init, aget, emptyGroup]
    · have : ¬ ([] : Path) = q := fun h => hq h.symm
      simp [applyKind, hnv, aget_init, hq, viewKind_nil q hq, kindAt, Tree.init, aget, this]
  · show viewAttr ((Cont.init : Cont V) :: []) q k = _
    rw [h2]
    by_cases hq : q = []
    · subst hq; simp [applyAttr, hnv, aget_init, vnode, aget, viewAttr_nil, attrAt, Tree.init, emptyGroup]
    · have : ¬ ([] : Path) = q := fun h => hq h.symm
      simp [applyAttr, hnv, aget_init, hq, viewAttr_nil, attrAt, Tree.init, aget, this]

/-! ### histories -/

theorem Sim.cases {x : Except Err (Rec V)} {y : Except Err (Tree V)} (h : Sim x y) :
    (∃ r' t', x = .ok r' ∧ y = .ok t' ∧ Rep r' t' ∧ Inv r' ∧ r' ≠ []) ∨
    (∃ e e', x = .error e ∧ y = .error e') := by
  cases x with
  | ok r' =>
    cases y with
    | ok t' => exact Or.inl ⟨r', t', rfl, rfl, h⟩
    | error e => simp [Sim] at h
  | error e =>
    cases y with
    | ok t' => simp [Sim] at h
    | error e' => exact Or.inr ⟨e, e', rfl, rfl⟩

theorem wrun_ok (r r' : Rec V) (op : Op V) (ops : List (Op V)) (hp : op ≠ .patch) (h : W.step r op = .ok r') :
    W.run r (op :: ops) = ((W.run r' ops).1, true :: (W.run r' ops).2) := by
  cases op <;> first | exact absurd rfl hp | simp [W.run, h]

theorem wrun_err (r : Rec V) (e : Err) (op : Op V) (ops : List (Op V)) (hp : op ≠ .patch) (h : W.step r op = .error e) :
    W.run r (op :: ops) = ((W.run r ops).1, false :: (W.run r ops).2) := by
  cases op <;> first | exact absurd rfl hp | simp [W.run, h]

theorem srun_ok (t t' : Tree V) (op : Op V) (ops : List (Op V)) (hp : op ≠ .patch) (h : Spec.step t op = .ok t') :
    Spec.run t (op :: ops) = ((Spec.run t' ops).1, true :: (Spec.run t' ops).2) := by
  cases op <;> first | exact absurd rfl hp | simp [Spec.run, h]

theorem srun_err (t : Tree V) (e : Err) (op : Op V) (ops : List (Op V)) (hp : op ≠ .patch) (h : Spec.step t op = .error e) :
    Spec.run t (op :: ops) = ((Spec.run t ops).1, false :: (Spec.run t ops).2) := by
  cases op <;> first | exact absurd rfl hp | simp [Spec.run, h]

theorem srun_patch (t : Tree V) (ops : List (Op V)) : Spec.run t (.patch :: ops) = Spec.run t ops := by
  simp [Spec.run]

theorem wrun_patch (r r' : Rec V) (ops : List (Op V)) (h : W.step r .patch = .ok r') :
    W.run r (.patch :: ops) = W.run r' ops := by
  simp [W.run, h]

theorem run_sim (h : List (Op V)) : ∀ (r : Rec V) (t : Tree V), (∀ op ∈ h, op.isBasic = true) →
    r ≠ [] → Inv r → Rep r t →
    (W.run r h).2 = (Spec.run t h).2 ∧ Rep (W.run r h).1 (Spec.run t h).1 ∧
      Inv (W.run r h).1 ∧ (W.run r h).1 ≠ [] := by
  induction h with
  | nil => intro r t _ hne hinv hrep; exact ⟨rfl, hrep, hinv, hne⟩
  | cons op ops ih =>
    intro r t hb hne hinv hrep
    have hb1 : op.isBasic = true := hb op (by simp)
    have hb2 : ∀ op' ∈ ops, op'.isBasic = true := fun op' h' => hb op' (by simp [h'])
    have hsim := step_sim_basic r t op hb1 hne hinv hrep
    by_cases hp : op = .patch
    · subst hp
      rcases hsim.cases with ⟨r', t', h1, h2, hrep', hinv', hne'⟩ | ⟨e, e', h1, h2⟩
      · rw [wrun_patch r r' ops h1, srun_patch]
        simp only [Spec.step, Except.ok.injEq] at h2
        subst h2
        exact ih r' t hb2 hne' hinv' hrep'
      · simp [Spec.step] at h2
    · rcases hsim.cases with ⟨r', t', h1, h2, hrep', hinv', hne'⟩ | ⟨e, e', h1, h2⟩
      · rw [wrun_ok r r' op ops hp h1, srun_ok t t' op ops hp h2]
        obtain ⟨a, b, c, d⟩ := ih r' t' hb2 hne' hinv' hrep'
        exact ⟨by simp [a], b, c, d⟩
      · rw [wrun_err r e op ops hp h1, srun_err t e' op ops hp h2]
        obtain ⟨a, b, c, d⟩ := ih r t hb2 hne hinv hrep
        exact ⟨by simp [a], b, c, d⟩

/-! ### plain trees: what later operations cannot change -/

/-- the operation does not create a node at or below `p` -/
def createsBelow (p : Path) : Op V → Bool
  | .set q _ => isPre p q
  | .grp q => isPre p q
  | _ => false

/-- the operation does not delete `p` or one of its ancestors -/
def deletesAbove (p : Path) : Op V → Bool
  | .del q => isPre q p
  | _ => false

theorem spec_create_inv (t t' : Tree V) (q : Path) (nd : Node V)
    (h : (do Spec.checkFresh t q; pure (aput q nd (ensure emptyGroup q t)) : Except Err (Tree V)) = .ok t') :
    aget q t = none ∧ t' = aput q nd (ensure emptyGroup q t) := by
  unfold Spec.checkFresh at h
  by_cases h1 : q = []
  · simp [h1, bind, Except.bind] at h
  · cases h2 : aget q t with
    | some n => simp [h1, h2, bind, Except.bind] at h
    | none =>
      by_cases h3 : ancestorsOk t q = true
      · simp [h1, h2, h3, bind, Except.bind, pure, Except.pure] at h
        exact ⟨rfl, h.symm⟩
      · simp [h1, h2, h3, bind, Except.bind] at h

/-- a node stays what it is unless it or an ancestor is deleted -/
theorem spec_step_kind_stable (t t' : Tree V) (op : Op V) (p : Path) (kd : NKind V)
    (hb : op.isBasic = true) (hd : deletesAbove p op = false)
    (h : Spec.step t op = .ok t') (hk : kindAt t p = some kd) : kindAt t' p = some kd := by
  have hpt : aget p t ≠ none := fun hn => by rw [(kindAt_none_iff t p).2 hn] at hk; cases hk
  cases op with
  | set q v =>
    obtain ⟨h1, rfl⟩ := spec_create_inv t t' q _ h
    have : p ≠ q := by rintro rfl; exact hpt h1
    rw [kindAt_aput, kindAt_ensure, hk]; simp [this]
  | grp q =>
    obtain ⟨h1, rfl⟩ := spec_create_inv t t' q _ h
    have : p ≠ q := by rintro rfl; exact hpt h1
    rw [kindAt_aput, kindAt_ensure, hk]; simp [this]
  | del q =>
    simp only [Spec.step, Spec.delete] at h
    split at h
    · cases h
    · split at h
      · cases h
      · cases h
        simp only [deletesAbove] at hd
        rw [kindAt_removeSub, hd, hk]; rfl
  | sattr q k v =>
    simp only [Spec.step, Spec.setAttr] at h
    split at h
    · cases h
    · rename_i n hn
      cases h
      rw [kindAt_aput]
      by_cases hq : p = q
      · subst hq; simp [← hk, kindAt, hn]
      · simp [hq, hk]
  | dattr q k =>
    simp only [Spec.step, Spec.delAttr] at h
    split at h
    · cases h
    · rename_i n hn
      split at h
      · cases h
      · cases h
        rw [kindAt_aput]
        by_cases hq : p = q
        · subst hq; simp [← hk, kindAt, hn]
        · simp [hq, hk]
  | copy s d => cases hb
  | move s d => cases hb
  | patch => simp only [Spec.step, Except.ok.injEq] at h; subst h; exact hk

/-- a removed subtree stays absent unless something is created at or below its root -/
theorem spec_step_absent_stable (t t' : Tree V) (op : Op V) (p : Path)
    (hb : op.isBasic = true) (hc : createsBelow p op = false)
    (h : Spec.step t op = .ok t') (hk : ∀ s, kindAt t (p ++ s) = none) : ∀ s, kindAt t' (p ++ s) = none := by
  intro s
  have create : ∀ (q : Path) (nd : Node V), isPre p q = false →
      kindAt (aput q nd (ensure emptyGroup q t)) (p ++ s) = none := by
    intro q nd hq
    have h1 : p ++ s ≠ q := by rintro rfl; rw [isPre_append] at hq; cases hq
    have h2 : p ++ s ∉ properPrefixes q := by
      intro hm
      obtain ⟨x, _, rfl⟩ := (mem_properPrefixes _ _).1 hm
      rw [List.append_assoc, isPre_append] at hq; cases hq
    rw [kindAt_aput, kindAt_ensure, hk s]; simp [h1, h2]
  cases op with
  | set q v =>
    obtain ⟨_, rfl⟩ := spec_create_inv t t' q _ h
    exact create q _ hc
  | grp q =>
    obtain ⟨_, rfl⟩ := spec_create_inv t t' q _ h
    exact create q _ hc
  | del q =>
    simp only [Spec.step, Spec.delete] at h
    split at h
    · cases h
    · split at h
      · cases h
      · cases h
        rw [kindAt_removeSub, hk s]; simp
  | sattr q k v =>
    simp only [Spec.step, Spec.setAttr] at h
    split at h
    · cases h
    · rename_i n hn
      cases h
      rw [kindAt_aput]
      by_cases hq : p ++ s = q
      · subst hq
        have := hk s
        rw [(kindAt_none_iff _ _).1 this] at hn; cases hn
      · simp [hq, hk s]
  | dattr q k =>
    simp only [Spec.step, Spec.delAttr] at h
    split at h
    · cases h
    · rename_i n hn
      split at h
      · cases h
      · cases h
        rw [kindAt_aput]
        by_cases hq : p ++ s = q
        · subst hq
          have := hk s
          rw [(kindAt_none_iff _ _).1 this] at hn; cases hn
        · simp [hq, hk s]
  | copy s d => cases hb
  | move s d => cases hb
  | patch => simp only [Spec.step, Except.ok.injEq] at h; subst h; exact hk s

theorem spec_run_stable (P : Tree V → Prop) (h : List (Op V)) (ok : Op V → Prop)
    (hstep : ∀ t t' op, ok op → Spec.step t op = .ok t' → P t → P t') :
    ∀ t, (∀ op ∈ h, ok op) → P t → P (Spec.run t h).1 := by
  induction h with
  | nil => intro t _ hp; exact hp
  | cons op ops ih =>
    intro t hok hp
    have hok2 : ∀ op' ∈ ops, ok op' := fun op' h' => hok op' (by simp [h'])
    have hop := hok op (by simp)
    by_cases hpat : op = .patch
    · subst hpat; rw [srun_patch]; exact ih t hok2 hp
    · cases hs : Spec.step t op with
      | ok t' => rw [srun_ok t t' op ops hpat hs]; exact ih t' hok2 (hstep t t' op hop hs hp)
      | error e => rw [srun_err t e op ops hpat hs]; exact ih t hok2 hp

end MetadorModel.Overlay
