import MetadorModel.Proofs.OverlayWriteSem
/-!
# C01 write side, part 3: what the raw h5py calls do to the newest container (point-wise)

`withCarriers c p q` is the entry at `q` after h5py created the missing intermediate groups of
`p`; `chainAt g more fin` is the shape of a freshly written chain of groups ending in `fin`.
`createNode_shape`, `createGroupAt_shape` evaluate the model's raw calls.
-/
namespace MetadorModel.Overlay
open MetadorModel.Tree
variable {V : Type}

/-! ### paths -/

theorem isPre_append_append (a b c : Path) : isPre (a ++ b) (a ++ c) = isPre b c := by
  induction a with
  | nil => rfl
  | cons x a ih => simp [isPre, ih]

theorem isPre_nil (a : Path) : isPre [] a = true := by cases a <;> rfl

theorem isPre_eq_false_of_not (p q : Path) (h : ¬ isPre p q = true) : isPre p q = false := by simpa using h

theorem mem_pp_append_append (a b c : Path) : a ++ c ∈ properPrefixes (a ++ b) ↔ c ∈ properPrefixes b := by
  rw [mem_properPrefixes, mem_properPrefixes]
  constructor
  · rintro ⟨s, hs, h⟩
    exact ⟨s, hs, by simpa [List.append_assoc] using h⟩
  · rintro ⟨s, hs, h⟩
    exact ⟨s, hs, by rw [h]; simp⟩

theorem not_mem_pp_of_isPre (p q : Path) (h : isPre p q = true) : q ∉ properPrefixes p := by
  intro hm
  obtain ⟨s, rfl⟩ := (isPre_iff _ _).1 h
  obtain ⟨s', hs', h'⟩ := (mem_properPrefixes _ _).1 hm
  have := congrArg List.length h'
  simp only [List.length_append] at this
  have : s'.length = 0 := by omega
  exact hs' (List.eq_nil_of_length_eq_zero this)

theorem isPre_false_of_mem_pp (p q : Path) (h : q ∈ properPrefixes p) : isPre p q = false := by
  cases hb : isPre p q with
  | false => rfl
  | true => exact absurd h (not_mem_pp_of_isPre p q hb)

theorem mem_pp_iff_isPre (s more : Path) : s ∈ properPrefixes more ↔ (isPre s more = true ∧ s ≠ more) :=
  mem_properPrefixes' s more

/-- a proper prefix of `p0 ++ more` that is not below `p0` is a proper prefix of `p0` -/
theorem mem_pp_of_mem_pp_append (p0 more q : Path) (h : q ∈ properPrefixes (p0 ++ more))
    (hb : isPre p0 q = false) : q ∈ properPrefixes p0 := by
  obtain ⟨s, hs, h'⟩ := (mem_properPrefixes _ _).1 h
  rcases List.append_eq_append_iff.1 h' with ⟨a, h5, h6⟩ | ⟨c', h5, h6⟩
  · rw [h5, isPre_append] at hb; cases hb
  · -- p0 = q ++ c'
    by_cases ha : c' = []
    · subst ha; simp only [List.append_nil] at h5; rw [h5, isPre_refl] at hb; cases hb
    · exact (mem_properPrefixes _ _).2 ⟨c', ha, h5⟩

theorem mem_pp_append_of_mem_pp (p0 more q : Path) (h : q ∈ properPrefixes p0) :
    q ∈ properPrefixes (p0 ++ more) := by
  obtain ⟨s, hs, rfl⟩ := (mem_properPrefixes _ _).1 h
  exact (mem_properPrefixes _ _).2 ⟨s ++ more, by simp [hs], by simp⟩

theorem isPre_snoc_of (s : Path) (j : Key) (more : Path) (h : isPre (s ++ [j]) more = true) :
    isPre s more = true ∧ s ≠ more := by
  obtain ⟨x, rfl⟩ := (isPre_iff _ _).1 h
  refine ⟨(isPre_iff _ _).2 ⟨j :: x, by simp⟩, ?_⟩
  intro he
  have := congrArg List.length he
  simp at this

/-! ### intermediate groups -/

/-- the entry at `q` after `ensure vnode p` -/
def withCarriers (c : Cont V) (p q : Path) : Option (RNode V) :=
  match aget q c with
  | some m => some m
  | none => if q ∈ properPrefixes p then some vnode else none

theorem aget_ensure_vnode (c : Cont V) (p q : Path) : aget q (ensure vnode p c) = withCarriers c p q := by
  rw [aget_ensure]; unfold withCarriers
  cases aget q c with
  | some v => rfl
  | none => simp only []

theorem withCarriers_some (c : Cont V) (p q : Path) (m : RNode V) (h : aget q c = some m) :
    withCarriers c p q = some m := by simp [withCarriers, h]

theorem withCarriers_none_mem (c : Cont V) (p q : Path) (h : aget q c = none) (hm : q ∈ properPrefixes p) :
    withCarriers c p q = some vnode := by simp [withCarriers, h, hm]

theorem withCarriers_none_not (c : Cont V) (p q : Path) (h : aget q c = none) (hm : q ∉ properPrefixes p) :
    withCarriers c p q = none := by simp [withCarriers, h, hm]

theorem withCarriers_congr (c c' : Cont V) (p q : Path) (h : aget q c = aget q c') :
    withCarriers c p q = withCarriers c' p q := by simp [withCarriers, h]

theorem withCarriers_mem_ne_none (c : Cont V) (p q : Path) (hm : q ∈ properPrefixes p) :
    withCarriers c p q ≠ none := by
  unfold withCarriers
  cases aget q c <;> simp [hm]

/-- all entries on the way to `p` are groups -/
theorem ancOk_of (c : Cont V) (p : Path)
    (h : ∀ x ∈ properPrefixes p, ∀ m, aget x c = some m → m.kind.isGroup = true) : ancOk c p = true := by
  unfold ancOk
  rw [List.all_eq_true]
  intro x hx
  cases hm : aget x c with
  | none => rfl
  | some m => exact h x hx m hm

theorem createNode_shape (c : Cont V) (p : Path) (n : RNode V) (h1 : aget p c = none)
    (h2 : ∀ x ∈ properPrefixes p, ∀ m, aget x c = some m → m.kind.isGroup = true) :
    ∃ c', Raw.createNode c p n = .ok c' ∧
      ∀ q, aget q c' = if q = p then some n else withCarriers c p q := by
  refine ⟨aput p n (ensure vnode p c), ?_, ?_⟩
  · simp [Raw.createNode, h1, ancOk_of c p h2]
  · intro q
    rw [aget_aput, aget_ensure_vnode]

/-! ### `create_group` on the newest container file -/

/-- kind of an explicitly created group: marked as overwriting in a patch, plain in the base -/
def gk (older : Rec V) : RKind V := if older.isEmpty then .vgroup else .sgroup

theorem gk_isGroup (older : Rec V) : (gk older : RKind V).isGroup = true := by
  unfold gk; split <;> rfl

theorem gk_nv (older : Rec V) (h : older ≠ []) : (gk older : RKind V).isVirtual = false := by
  cases older with
  | nil => exact absurd rfl h
  | cons a b => rfl

theorem createGroupAt_shape (c : Cont V) (older : Rec V) (p : Path)
    (hfree : aget p c = none ∨ isDelAt c p = true)
    (hbelow : ∀ s, s ≠ [] → aget (p ++ s) c = none)
    (hanc : ∀ x ∈ properPrefixes p, ∀ m, aget x c = some m → m.kind.isGroup = true) :
    ∃ c', W.createGroupAt (c :: older) p = .ok (c' :: older) ∧
      ∀ q, aget q c' = if q = p then some ⟨gk older, []⟩
        else if isPre p q then none else withCarriers c p q := by
  -- the container after dropping a deletion marker
  obtain ⟨top1, htop1, hget1⟩ : ∃ top1, (if isDelAt c p then removeSub p c else c) = top1 ∧
      ∀ q, aget q top1 = if isPre p q then none else aget q c := by
    by_cases hd : isDelAt c p = true
    · exact ⟨removeSub p c, by simp [hd], fun q => aget_removeSub p q c⟩
    · refine ⟨c, by simp [hd], fun q => ?_⟩
      have hnone : aget p c = none := by
        rcases hfree with h | h
        · exact h
        · exact absurd h hd
      by_cases hb : isPre p q = true
      · obtain ⟨s, rfl⟩ := (isPre_iff _ _).1 hb
        simp only [hb, ↓reduceIte]
        by_cases hs : s = []
        · subst hs; simpa using hnone
        · exact hbelow s hs
      · simp [hb]
  have h1 : aget p top1 = none := by rw [hget1, isPre_refl]; rfl
  have h2 : ∀ x ∈ properPrefixes p, ∀ m, aget x top1 = some m → m.kind.isGroup = true := by
    intro x hx m hm
    rw [hget1, isPre_false_of_mem_pp p x hx] at hm
    exact hanc x hx m hm
  obtain ⟨top2, htop2, hget2⟩ := createNode_shape top1 p vnode h1 h2
  have hwc : ∀ q, q ≠ p → withCarriers top1 p q = if isPre p q then none else withCarriers c p q := by
    intro q hq
    by_cases hb : isPre p q = true
    · simp only [hb, ↓reduceIte]
      apply withCarriers_none_not
      · rw [hget1, hb]; rfl
      · exact not_mem_pp_of_isPre p q hb
    · simp only [hb]
      apply withCarriers_congr
      rw [hget1]; simp [hb]
  cases older with
  | nil =>
    refine ⟨top2, ?_, ?_⟩
    · simp only [W.createGroupAt, htop1, Raw.createGroup, htop2, List.isEmpty_nil, bind, Except.bind,
        pure, Except.pure, ↓reduceIte]
    · intro q
      rw [hget2]
      by_cases hq : q = p
      · simp [hq, gk, vnode]
      · simp only [hq, ↓reduceIte]; exact hwc q hq
  | cons o os =>
    refine ⟨aput p { (vnode : RNode V) with kind := .sgroup } top2, ?_, ?_⟩
    · have hp2 : aget p top2 = some vnode := by rw [hget2]; simp
      simp only [W.createGroupAt, htop1, Raw.createGroup, htop2, bind, Except.bind, pure, Except.pure,
        Raw.markSubst, hp2]
      simp [vnode, RKind.isGroup]
    · intro q
      rw [aget_aput, hget2]
      by_cases hq : q = p
      · simp [hq, gk, vnode]
      · simp only [hq, ↓reduceIte]; exact hwc q hq

/-! ### a freshly written chain of groups -/

/-- entries of a fresh chain below `p0`, indexed by the path relative to `p0`: `g` at `p0`,
plain groups on the way, `fin` at the end `more` -/
def chainAt (g : RKind V) (more : Path) (fin : RNode V) (s : Path) : Option (RNode V) :=
  if s = more then some fin
  else if isPre s more then some (if s = [] then ⟨g, []⟩ else vnode)
  else none

theorem chainAt_closed (g : RKind V) (more : Path) (fin : RNode V) (hg : g.isGroup = true) (s : Path) (j : Key)
    (h : chainAt g more fin (s ++ [j]) ≠ none) :
    ∃ m, chainAt g more fin s = some m ∧ m.kind.isGroup = true := by
  have hpre : isPre (s ++ [j]) more = true := by
    unfold chainAt at h
    by_cases h1 : s ++ [j] = more
    · rw [h1]; exact isPre_refl _
    · simp only [h1, ↓reduceIte] at h
      by_contra h2
      simp [h2] at h
  obtain ⟨h1, h2⟩ := isPre_snoc_of s j more hpre
  unfold chainAt
  simp only [h2, ↓reduceIte, h1]
  by_cases hs : s = []
  · exact ⟨_, rfl, by simp [hs, hg]⟩
  · exact ⟨_, rfl, by simp [hs, vnode, RKind.isGroup]⟩

theorem plainK_chainAt (g : RKind V) (more : Path) (fin : RNode V) (hg : g.isGroup = true) (s : Path) :
    plainK (chainAt g more fin s) =
      if s = more then plainKind fin.kind else if isPre s more then some .group else none := by
  unfold chainAt
  by_cases h1 : s = more
  · simp [h1, plainK]
  · simp only [h1, ↓reduceIte]
    by_cases h2 : isPre s more = true
    · simp only [h2, ↓reduceIte, plainK, Option.bind_some]
      by_cases hs : s = []
      · simp [hs, plainKind_group_of_isGroup hg]
      · simp [hs, vnode, plainKind]
    · simp [h2, plainK]

theorem plainA_chainAt (g : RKind V) (more : Path) (fin : RNode V) (hfin : fin.attrs = []) (s : Path) (k : Key) :
    plainA (chainAt g more fin s) k = none := by
  unfold chainAt
  by_cases h1 : s = more
  · simp [h1, plainA, hfin, aget]
  · simp only [h1, ↓reduceIte]
    by_cases h2 : isPre s more = true
    · simp only [h2, ↓reduceIte, plainA, Option.bind_some]
      by_cases hs : s = []
      · simp [hs, aget]
      · simp [hs, vnode, aget]
    · simp [h2, plainA]

end MetadorModel.Overlay
