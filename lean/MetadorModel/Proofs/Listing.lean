import MetadorModel.Proofs.Single
/-!
# The canonical listing of a record as a map (helper lemmas for C05 / C10)

`Overlay.listing r` is a sorted, duplicate-free list of `(path, kind, attributes)`;
looked up as an association list it is exactly the user-visible view:
`aget q (listing r) = (viewKind r q).map (·, attrsList r q)` and
`aget k (attrsList r q) = viewAttr r q k`.
-/
namespace MetadorModel.Listing
open MetadorModel.Tree MetadorModel.Overlay MetadorModel.Single

variable {V : Type}

/-! ## sorting and deduplication keep the elements -/

theorem insertBy_perm {α : Type} (lt : α → α → Bool) (x : α) (l : List α) :
    (insertBy lt x l).Perm (x :: l) := by
  induction l with
  | nil => simp [insertBy]
  | cons y ys ih =>
    simp only [insertBy]
    split
    · exact List.Perm.refl _
    · exact (List.Perm.cons y ih).trans (List.Perm.swap x y ys)

theorem sortBy_perm {α : Type} (lt : α → α → Bool) (l : List α) : (sortBy lt l).Perm l := by
  induction l with
  | nil => simp [sortBy]
  | cons x xs ih =>
    simp only [sortBy, List.foldr_cons] at ih ⊢
    exact (insertBy_perm lt x _).trans (List.Perm.cons x ih)

theorem mem_dedup {α : Type} [DecidableEq α] (x : α) (l : List α) : x ∈ dedup l ↔ x ∈ l := by
  induction l with
  | nil => simp [dedup]
  | cons y ys ih =>
    simp only [dedup]
    split
    · rename_i h
      rw [ih, List.mem_cons]
      constructor
      · exact Or.inr
      · rintro (rfl | h')
        · exact h
        · exact h'
    · simp [ih]

theorem nodup_dedup {α : Type} [DecidableEq α] (l : List α) : (dedup l).Nodup := by
  induction l with
  | nil => simp [dedup]
  | cons y ys ih =>
    simp only [dedup]
    split
    · exact ih
    · rename_i h
      exact List.nodup_cons.mpr ⟨fun hc => h ((mem_dedup y ys).mp hc), ih⟩

theorem mem_sort_dedup {α : Type} [DecidableEq α] (lt : α → α → Bool) (x : α) (l : List α) :
    x ∈ sortBy lt (dedup l) ↔ x ∈ l :=
  ((sortBy_perm lt _).mem_iff).trans (mem_dedup x l)

theorem nodup_sort_dedup {α : Type} [DecidableEq α] (lt : α → α → Bool) (l : List α) :
    (sortBy lt (dedup l)).Nodup :=
  (sortBy_perm lt _).nodup_iff.mpr (nodup_dedup l)

/-! ## association lists built by `filterMap` over a duplicate-free key list -/

theorem aget_filterMap {κ β : Type} [DecidableEq κ] (f : κ → Option β) (cs : List κ) (q : κ) :
    aget q (cs.filterMap (fun p => (f p).map (fun x => (p, x)))) = if q ∈ cs then f q else none := by
  induction cs with
  | nil => simp [aget]
  | cons c cs ih =>
    simp only [List.filterMap_cons, List.mem_cons]
    cases hf : f c with
    | none =>
      simp only [Option.map_none, ih]
      by_cases hq : q = c
      · subst hq; simp [hf]
      · simp [hq]
    | some x =>
      simp only [Option.map_some, aget]
      by_cases hq : c = q
      · subst hq; simp [hf]
      · have : ¬ q = c := fun h => hq h.symm
        simp [hq, this, ih]

theorem keys_filterMap_sublist {κ β : Type} (f : κ → Option β) (cs : List κ) :
    ((cs.filterMap (fun p => (f p).map (fun x => (p, x)))).map (·.1)).Sublist cs := by
  induction cs with
  | nil => simp
  | cons c cs ih =>
    simp only [List.filterMap_cons]
    cases hf : f c with
    | none => simpa using ih.cons c
    | some x => simpa using ih.cons₂ c

/-! ## what is visible lies in some container -/

theorem scan_some_mem (q : Path) (c : Nat) (r : Rec V) (i : Nat) (n : RNode V)
    (h : scan q c r = some (i, n)) : ∃ p ∈ r, (aget q p).isSome = true := by
  induction r with
  | nil => simp [scan] at h
  | cons p rest ih =>
    simp only [scan] at h
    split at h
    · cases h
    · cases hp : aget q p with
      | none =>
        simp only [hp] at h
        obtain ⟨p', hp', hs⟩ := ih h
        exact ⟨p', List.mem_cons_of_mem _ hp', hs⟩
      | some m => exact ⟨p, by simp, by simp [hp]⟩

theorem lookFrom_found_mem (r : Rec V) :
    ∀ (rest pre : Path) (c : Nat) (cur : RNode V) (i : Nat) (n : RNode V),
      rest ≠ [] → lookFrom r pre c cur rest = .found i n →
      ∃ p ∈ r, (aget (pre ++ rest) p).isSome = true := by
  intro rest
  induction rest with
  | nil => intro pre c cur i n h; exact absurd rfl h
  | cons k rest ih =>
    intro pre c cur i n _ hl
    simp only [lookFrom] at hl
    by_cases hcur : cur.kind.isGroup = true
    · simp only [hcur, if_true] at hl
      cases hch : child r (pre ++ [k]) c with
      | none => simp [hch] at hl
      | some x =>
        obtain ⟨j, m⟩ := x
        simp only [hch] at hl
        cases rest with
        | nil =>
          simp only [child] at hch
          cases hs : scan (pre ++ [k]) c r with
          | none => simp [hs] at hch
          | some y =>
            obtain ⟨j', m'⟩ := y
            obtain ⟨p, hp, hsome⟩ := scan_some_mem _ _ _ _ _ hs
            exact ⟨p, hp, by simpa using hsome⟩
        | cons k2 rest2 =>
          obtain ⟨p, hp, hsome⟩ := ih (pre ++ [k]) j m i n (by simp) hl
          exact ⟨p, hp, by simpa using hsome⟩
    · simp [hcur] at hl

theorem viewKind_some_mem (r : Rec V) (q : Path) (hq : q ≠ []) (kd : NKind V)
    (h : viewKind r q = some kd) : q ∈ candidates r := by
  simp only [viewKind] at h
  cases hl : look r q with
  | found i n =>
    obtain ⟨p, hp, hsome⟩ := lookFrom_found_mem r q [] 0 vnode i n hq hl
    simp only [List.nil_append] at hsome
    rw [candidates, mem_sort_dedup]
    simp only [List.mem_flatMap, List.mem_map]
    obtain ⟨m, hm⟩ := Option.isSome_iff_exists.mp hsome
    exact ⟨p, hp, (q, m), aget_mem _ _ _ hm, rfl⟩
  | part _ _ => simp [hl] at h
  | insideValue => simp [hl] at h

theorem attrFind_some_mem (q : Path) (k : Key) (c : Nat) (r : Rec V) (i : Nat) (v : Option V)
    (h : attrFind q k c r = some (i, v)) :
    ∃ p ∈ r, ∃ n, aget q p = some n ∧ (aget k n.attrs).isSome = true := by
  induction r with
  | nil => simp [attrFind] at h
  | cons p rest ih =>
    simp only [attrFind] at h
    split at h
    · cases h
    · cases hp : aget q p with
      | none =>
        simp only [hp] at h
        obtain ⟨p', hp', hs⟩ := ih h
        exact ⟨p', List.mem_cons_of_mem _ hp', hs⟩
      | some n =>
        simp only [hp] at h
        cases hk : aget k n.attrs with
        | none =>
          simp only [hk] at h
          obtain ⟨p', hp', hs⟩ := ih h
          exact ⟨p', List.mem_cons_of_mem _ hp', hs⟩
        | some w => exact ⟨p, by simp, n, hp, by simp [hk]⟩

theorem viewAttr_some_mem (r : Rec V) (q : Path) (k : Key) (v : V)
    (h : viewAttr r q k = some v) : k ∈ attrKeys r q := by
  simp only [viewAttr] at h
  cases hl : look r q with
  | found c n =>
    simp only [hl, attrOf] at h
    cases hf : attrFind q k c r with
    | none => simp [hf] at h
    | some x =>
      obtain ⟨i, w⟩ := x
      obtain ⟨p, hp, n', hn', hsome⟩ := attrFind_some_mem q k c r i w hf
      rw [attrKeys, mem_sort_dedup]
      simp only [List.mem_flatMap]
      refine ⟨p, hp, ?_⟩
      simp only [hn', List.mem_map]
      obtain ⟨w', hw'⟩ := Option.isSome_iff_exists.mp hsome
      exact ⟨(k, w'), aget_mem _ _ _ hw', rfl⟩
  | part _ _ => simp [hl] at h
  | insideValue => simp [hl] at h

/-! ## the listing as a map -/

theorem aget_attrsList (r : Rec V) (q : Path) (k : Key) :
    aget k (attrsList r q) = viewAttr r q k := by
  simp only [attrsList]
  rw [aget_filterMap (fun k => viewAttr r q k) (attrKeys r q) k]
  by_cases hk : k ∈ attrKeys r q
  · simp [hk]
  · simp only [hk, if_false]
    cases hv : viewAttr r q k with
    | none => rfl
    | some v => exact absurd (viewAttr_some_mem r q k v hv) hk

theorem attrsList_nodup (r : Rec V) (q : Path) : ((attrsList r q).map (·.1)).Nodup := by
  simp only [attrsList]
  exact (keys_filterMap_sublist _ _).nodup (nodup_sort_dedup _ _)

theorem aget_listing (r : Rec V) (q : Path) (hq : q ≠ []) :
    aget q (Overlay.listing r) = (viewKind r q).map (fun kd => (kd, attrsList r q)) := by
  simp only [Overlay.listing]
  have hf : (fun q => (viewKind r q).map (fun kd => (q, kd, attrsList r q))) =
      (fun p => ((viewKind r p).map (fun kd => (kd, attrsList r p))).map (fun x => (p, x))) := by
    funext p; cases viewKind r p <;> rfl
  rw [hf, aget_filterMap (fun q => (viewKind r q).map (fun kd => (kd, attrsList r q))) (candidates r) q]
  by_cases hk : q ∈ candidates r
  · simp [hk]
  · simp only [hk, if_false]
    cases hv : viewKind r q with
    | none => rfl
    | some kd => exact absurd (viewKind_some_mem r q hq kd hv) hk

theorem listing_attrs_nodup (r : Rec V) : ∀ e ∈ Overlay.listing r, (e.2.2.map (·.1)).Nodup := by
  intro e he
  simp only [Overlay.listing, List.mem_filterMap] at he
  obtain ⟨q, _, hq⟩ := he
  cases hv : viewKind r q with
  | none => simp [hv] at hq
  | some kd =>
    simp only [hv, Option.map_some, Option.some.injEq] at hq
    subst hq
    exact attrsList_nodup r q

/-! ## the root entry and lookups in the root-free part -/
open MetadorModel.Merge

theorem aget_nonRoot (l : Listing V) (q : Path) (hq : q ≠ []) : aget q (nonRoot l) = aget q l := by
  induction l with
  | nil => rfl
  | cons e es ih =>
    obtain ⟨p, x⟩ := e
    simp only [nonRoot, List.filter_cons] at ih ⊢
    by_cases hp : p = []
    · subst hp
      have : ¬ ([] : Path) = q := fun h => hq h.symm
      simp [aget, this, ih]
    · simp only [bne_iff_ne, ne_eq, hp, not_false_eq_true, decide_true, if_true, aget]
      by_cases hpq : p = q
      · simp [hpq]
      · simp [hpq, ih]

theorem rootAttrsOf_eq (l : Listing V) : rootAttrsOf l = ((aget [] l).map (·.2)).getD [] := by
  induction l with
  | nil => rfl
  | cons e es ih =>
    obtain ⟨p, kd, as⟩ := e
    by_cases hp : p = []
    · subst hp; simp [rootAttrsOf, aget]
    · have hb : (p == []) = false := by simpa using hp
      simp only [rootAttrsOf, List.find?_cons, hb, hp, aget, if_false] at ih ⊢
      exact ih

theorem viewKind_root (r : Rec V) : viewKind r [] = some .group := by
  simp [viewKind, look, lookFrom, plainKind, vnode]

theorem aget_listing_root (r : Rec V) :
    aget [] (Overlay.listing r) = if [] ∈ candidates r then some (.group, attrsList r []) else none := by
  simp only [Overlay.listing]
  have hf : (fun q => (viewKind r q).map (fun kd => (q, kd, attrsList r q))) =
      (fun p => ((viewKind r p).map (fun kd => (kd, attrsList r p))).map (fun x => (p, x))) := by
    funext p; cases viewKind r p <;> rfl
  rw [hf, aget_filterMap (fun q => (viewKind r q).map (fun kd => (kd, attrsList r q))) (candidates r) []]
  simp [viewKind_root]

theorem root_attr_listing (r : Rec V) (k : Key) :
    aget k (rootAttrsOf (Overlay.listing r)) = viewAttr r [] k := by
  rw [rootAttrsOf_eq, aget_listing_root]
  by_cases hc : [] ∈ candidates r
  · simp [hc, aget_attrsList]
  · simp only [hc, if_false, Option.map_none, Option.getD_none, aget]
    cases hv : viewAttr r [] k with
    | none => rfl
    | some v =>
      exfalso
      have hk := viewAttr_some_mem r [] k v hv
      rw [attrKeys, mem_sort_dedup] at hk
      simp only [List.mem_flatMap] at hk
      obtain ⟨p, hp, hk⟩ := hk
      apply hc
      rw [candidates, mem_sort_dedup]
      simp only [List.mem_flatMap, List.mem_map]
      cases hroot : aget [] p with
      | none => simp [hroot] at hk
      | some n => exact ⟨p, hp, ([], n), aget_mem _ _ _ hroot, rfl⟩

theorem rootAttrs_nodup (r : Rec V) : ((rootAttrsOf (Overlay.listing r)).map (·.1)).Nodup := by
  rw [rootAttrsOf_eq, aget_listing_root]
  by_cases hc : [] ∈ candidates r
  · simpa [hc] using attrsList_nodup r []
  · simp [hc]

/-- nodes found below the root are never deletion markers -/
theorem lookFrom_found_notDel (r : Rec V) :
    ∀ (rest pre : Path) (c : Nat) (cur : RNode V) (i : Nat) (n : RNode V),
      rest ≠ [] → lookFrom r pre c cur rest = .found i n → n.kind.isDel = false := by
  intro rest
  induction rest with
  | nil => intro pre c cur i n h; exact absurd rfl h
  | cons k rest ih =>
    intro pre c cur i n _ hl
    simp only [lookFrom] at hl
    by_cases hcur : cur.kind.isGroup = true
    · simp only [hcur, if_true] at hl
      cases hch : child r (pre ++ [k]) c with
      | none => simp [hch] at hl
      | some x =>
        obtain ⟨j, m⟩ := x
        simp only [hch] at hl
        cases rest with
        | nil =>
          simp only [lookFrom, Look.found.injEq] at hl
          obtain ⟨_, rfl⟩ := hl
          simp only [child] at hch
          cases hs : scan (pre ++ [k]) c r with
          | none => simp [hs] at hch
          | some y =>
            obtain ⟨j', m'⟩ := y
            simp only [hs] at hch
            by_cases hd : m'.kind.isDel = true
            · simp [hd] at hch
            · simp only [hd, Bool.false_eq_true, if_false, Option.some.injEq, Prod.mk.injEq] at hch
              obtain ⟨_, rfl⟩ := hch
              simpa using hd
        | cons k2 rest2 => exact ih (pre ++ [k]) j m i n (by simp) hl
    · simp [hcur] at hl

theorem viewAttr_none_of_kind_none (r : Rec V) (q : Path) (hq : q ≠ []) (k : Key)
    (h : viewKind r q = none) : viewAttr r q k = none := by
  simp only [viewKind] at h
  simp only [viewAttr]
  cases hl : look r q with
  | found c n =>
    exfalso
    simp only [hl] at h
    have hnd := lookFrom_found_notDel r q [] 0 vnode c n hq hl
    cases hk : n.kind <;> simp_all [plainKind, RKind.isDel]
  | part _ _ => rfl
  | insideValue => rfl

end MetadorModel.Listing
