import MetadorModel.Proofs.HashsumsFold
import MetadorModel.Proofs.Bytes
import Mathlib.Data.List.Nodup
/-!
Helper lemmas for `Model/Hashsums.lean`, part 3: path strings (`split`/`join`), the items of
directory entries, well-formed trees (`FsTree.WF` = what `rglob("*")` guarantees), the loop
`build` in terms of `putAll`, and what the result holds at every path.
-/
namespace MetadorModel.Hashsums
open MetadorModel.Bytes

/-! ### path strings -/

/-- a path segment as the file system / `Path.resolve` produce them -/
def NameOk (s : Name) : Prop := s ≠ ['.'] ∧ '/' ∉ s

theorem splitSlash_ne_nil : ∀ s : Str, splitSlash s ≠ []
  | [] => by simp [splitSlash]
  | c :: r => by
    simp only [splitSlash]
    split_ifs
    · simp
    · cases splitSlash r <;> simp

theorem splitSlash_noslash : ∀ s : Str, '/' ∉ s → splitSlash s = [s]
  | [], _ => rfl
  | c :: r, h => by
    have hc : c ≠ '/' := fun e => h (by simp [e])
    have hr : '/' ∉ r := fun e => h (by simp [e])
    simp [splitSlash, hc, splitSlash_noslash r hr]

theorem splitSlash_append : ∀ (s rest : Str), '/' ∉ s →
    splitSlash (s ++ '/' :: rest) = s :: splitSlash rest
  | [], rest, _ => by simp [splitSlash]
  | c :: r, rest, h => by
    have hc : c ≠ '/' := fun e => h (by simp [e])
    have hr : '/' ∉ r := fun e => h (by simp [e])
    simp [splitSlash, hc, splitSlash_append r rest hr]

theorem splitSlash_joinSlash : ∀ p : Path, p ≠ [] → (∀ s ∈ p, '/' ∉ s) →
    splitSlash (joinSlash p) = p
  | [], h, _ => absurd rfl h
  | [s], _, h => by simp [joinSlash, splitSlash_noslash s (h s (by simp))]
  | s :: s' :: r, _, h => by
    simp only [joinSlash]
    rw [splitSlash_append s _ (h s (by simp)),
      splitSlash_joinSlash (s' :: r) (by simp) (fun x hx => h x (by simp [hx]))]

theorem dictSegs_eq (p : Path) (h : ∀ s ∈ p, NameOk s) : dictSegs p = p := by
  unfold dictSegs pathStr
  cases p with
  | nil => simp [splitSlash]
  | cons a r =>
    simp only [List.isEmpty_cons, Bool.false_eq_true, if_false]
    rw [splitSlash_joinSlash (a :: r) (by simp) (fun s hs => (h s hs).2)]
    rw [List.filter_eq_self]
    intro s hs
    simpa using (h s hs).1

theorem pathStr_injective (a b : Path) (ha : ∀ s ∈ a, NameOk s) (hb : ∀ s ∈ b, NameOk s)
    (h : pathStr a = pathStr b) : a = b := by
  have ea := dictSegs_eq a ha
  have eb := dictSegs_eq b hb
  unfold dictSegs at ea eb
  rw [← ea, ← eb, h]

/-! ### items of entries -/

def Entry.isLeaf (e : Entry) : Bool := e.node.isFile || e.node.isSymlink

theorem entryItem_full (e : Entry) (val : Str) (hne : e.path ≠ []) (hok : ∀ s ∈ e.path, NameOk s) :
    Item.full (entryItem e val) = e.path ∧
    (e.isLeaf = true → (entryItem e val).2 = some (pathName e.path, val) ∧
        (entryItem e val).1 ++ [pathName e.path] = e.path) ∧
    (e.isLeaf = false → entryItem e val = (e.path, none)) := by
  have hdl : e.path.dropLast ++ [pathName e.path] = e.path := by
    unfold pathName
    rw [List.getLast?_eq_some_getLast hne]
    exact List.dropLast_append_getLast hne
  have hseg : dictSegs (pathParent e.path) = e.path.dropLast :=
    dictSegs_eq _ (fun s hs => hok s (List.mem_of_mem_dropLast hs))
  unfold entryItem
  by_cases hl : e.isLeaf = true
  · have hl' : (e.node.isFile || e.node.isSymlink) = true := hl
    rw [if_pos hl']
    refine ⟨?_, fun _ => ⟨rfl, ?_⟩, fun h => by rw [hl] at h; cases h⟩
    · simp only [Item.full]; rw [hseg]; exact hdl
    · simp only; rw [hseg]; exact hdl
  · have hl' : ¬ (e.node.isFile || e.node.isSymlink) = true := hl
    rw [if_neg hl']
    refine ⟨?_, fun h => absurd h hl, fun _ => ?_⟩
    · simp only [Item.full]; exact dictSegs_eq _ hok
    · rw [dictSegs_eq _ hok]

/-! ### well-formed trees -/

/-- What `rglob("*")` guarantees about the entries of a directory (in any order). -/
structure FsTree.WF (t : FsTree) : Prop where
  /-- every entry is listed once -/
  nodup : (t.entries.map Entry.path).Nodup
  /-- the directory itself is not listed -/
  nonempty : ∀ e ∈ t.entries, e.path ≠ []
  /-- names contain no `/` and are not `.` -/
  names : ∀ e ∈ t.entries, ∀ s ∈ e.path, NameOk s
  /-- an entry lies below real directories that are listed themselves (no descent into
  files or symlinks) -/
  closed : ∀ e ∈ t.entries, ∀ q, q ≠ [] → q <+: e.path → q ≠ e.path → ⟨q, .dir⟩ ∈ t.entries
  /-- resolved symlink targets are paths too -/
  targets : ∀ e ∈ t.entries, ∀ r c, e.node = .sym r c → ∀ s ∈ r, NameOk s

theorem FsTree.WF.perm {b : Path} {l₁ l₂ : List Entry} (h : FsTree.WF ⟨b, l₁⟩) (hp : l₁.Perm l₂) :
    FsTree.WF ⟨b, l₂⟩ where
  nodup := (List.Perm.nodup_iff (hp.map _)).mp h.nodup
  nonempty e he := h.nonempty e (hp.mem_iff.mpr he)
  names e he := h.names e (hp.mem_iff.mpr he)
  closed e he q h1 h2 h3 := hp.mem_iff.mp (h.closed e (hp.mem_iff.mpr he) q h1 h2 h3)
  targets e he := h.targets e (hp.mem_iff.mpr he)

theorem FsTree.WF.unique {t : FsTree} (h : t.WF) {e e' : Entry} (he : e ∈ t.entries)
    (he' : e' ∈ t.entries) (hp : e.path = e'.path) : e = e' :=
  List.inj_on_of_nodup_map h.nodup he he' hp

theorem FsTree.WF.compat {t : FsTree} (h : t.WF) (val : Entry → Str) :
    (t.entries.map (fun e => entryItem e (val e))).Pairwise Compat := by
  rw [List.pairwise_map]
  have hnd : t.entries.Pairwise (fun a b => a.path ≠ b.path) := by
    have := h.nodup
    unfold List.Nodup at this
    rwa [List.pairwise_map] at this
  refine hnd.imp_of_mem ?_
  intro a b ha hb hab
  have key : ∀ x y : Entry, x ∈ t.entries → y ∈ t.entries → x.path ≠ y.path →
      NoClash (entryItem x (val x)) (entryItem y (val y)) := by
    intro x y hx hy hxy kv hkv hpre
    obtain ⟨fx, lx, dx⟩ := entryItem_full x (val x) (h.nonempty x hx) (h.names x hx)
    obtain ⟨fy, _, _⟩ := entryItem_full y (val y) (h.nonempty y hy) (h.names y hy)
    by_cases hl : x.isLeaf = true
    · obtain ⟨e1, e2⟩ := lx hl
      rw [e1] at hkv
      cases hkv
      rw [fy] at hpre
      simp only at hpre
      rw [e2] at hpre
      have hd := h.closed y hy x.path (h.nonempty x hx) hpre hxy
      have := h.unique hx hd rfl
      rw [this] at hl
      simp [Entry.isLeaf, Node.isFile, Node.isSymlink] at hl
    · have := dx (by simpa using hl)
      rw [this] at hkv
      cases hkv
  exact ⟨key a b ha hb hab, key b a hb ha (Ne.symm hab)⟩

/-! ### `build` in terms of `putAll` -/

def valOf {σ : Type} (cfg : Cfg σ) (e : Entry) : Str :=
  match entryVal cfg e.node with
  | .ok v => v
  | .error _ => []

def itemOf {σ : Type} (cfg : Cfg σ) (e : Entry) : Item := entryItem e (valOf cfg e)

def entryOk {σ : Type} (cfg : Cfg σ) (e : Entry) : Bool :=
  match entryVal cfg e.node with
  | .ok _ => true
  | .error _ => false

theorem entryVal_err {σ : Type} (cfg : Cfg σ) (n : Node) (x : Err)
    (h : entryVal cfg n = .error x) : x = .valueError := by
  unfold entryVal at h
  split_ifs at h with h1 h2
  · cases hr : relSymlink cfg.base n with
    | none => rw [hr] at h; simp at h; exact h.symm
    | some t => rw [hr] at h; simp at h
  · unfold qualifiedHashsum hashsum at h
    split_ifs at h with h3 <;> simp at h
    exact h.symm

theorem step_ok {σ : Type} (cfg : Cfg σ) (t : HT) (e : Entry) (h : entryOk cfg e = true) :
    step cfg t e = put t (itemOf cfg e).1 (itemOf cfg e).2 := by
  unfold step itemOf valOf
  unfold entryOk at h
  cases hv : entryVal cfg e.node with
  | error x => rw [hv] at h; cases h
  | ok v => rfl

theorem step_err {σ : Type} (cfg : Cfg σ) (t : HT) (e : Entry) (h : entryOk cfg e = false) :
    step cfg t e = .error .valueError := by
  unfold step
  unfold entryOk at h
  cases hv : entryVal cfg e.node with
  | error x => rw [entryVal_err cfg _ x hv]
  | ok v => rw [hv] at h; cases h

theorem build_append {σ : Type} (cfg : Cfg σ) (l : List Entry) (e : Entry) : ∀ t,
    build cfg t (l ++ [e]) = match build cfg t l with
      | .ok t' => step cfg t' e
      | .error x => .error x := by
  induction l with
  | nil =>
    intro t
    simp only [List.nil_append, build]
    cases step cfg t e <;> rfl
  | cons a r ih =>
    intro t
    simp only [List.cons_append, build]
    cases step cfg t a with
    | error x => rfl
    | ok t' => exact ih t'

/-- the loop, started with the empty dict, on compatible entries: either every value could be
computed and the result is the sequence of `put`s, or the first failing entry raises
`ValueError` (no `TypeError` can get in the way). -/
theorem build_root {σ : Type} (cfg : Cfg σ) (l : List Entry) :
    (l.map (itemOf cfg)).Pairwise Compat →
    build cfg (.node []) l =
      if l.all (entryOk cfg) then putAll (.node []) (l.map (itemOf cfg)) else .error .valueError := by
  induction l using List.reverseRecOn with
  | nil => intro _; rfl
  | append_singleton l e ih =>
    intro hw
    rw [List.map_append, List.pairwise_append] at hw
    have hl := ih hw.1
    rw [build_append, hl]
    by_cases hall : l.all (entryOk cfg) = true
    · rw [if_pos hall]
      obtain ⟨t, ht, _⟩ := putAll_spec _ hw.1
      rw [ht]
      simp only
      by_cases he : entryOk cfg e = true
      · have : (l ++ [e]).all (entryOk cfg) = true := by simp [List.all_append, hall, he]
        rw [if_pos this, step_ok cfg t e he, List.map_append, List.map_singleton, putAll_append, ht]
        rfl
      · have he' : entryOk cfg e = false := by simpa using he
        have : ¬ (l ++ [e]).all (entryOk cfg) = true := by simp [List.all_append, he']
        rw [if_neg this, step_err cfg t e he']
    · rw [if_neg hall]
      have : ¬ (l ++ [e]).all (entryOk cfg) = true := by
        simp only [List.all_append, Bool.and_eq_true, not_and]
        intro h; exact absurd h hall
      rw [if_neg this]

/-! ### the tree as the property sees it -/

/-- content of one entry: file bytes, in-directory target of a symlink (`none` = leads
outside), directory -/
inductive Content where
  | file (bs : Bytes)
  | link (target : Option Path)
  | dir
deriving DecidableEq, Repr

def content (base : Path) : Node → Content
  | .file c => .file c
  | .sym r _ => .link (relativeTo r base)
  | .dir => .dir

def FsTree.lookup (t : FsTree) (p : Path) : Option Node :=
  match t.entries.find? (fun e => e.path = p) with
  | some e => some e.node
  | none => none

def FsTree.view (t : FsTree) (p : Path) : Option Content := (t.lookup p).map (content t.base)

/-- same names, same file contents, same in-directory symlink targets, same (possibly empty)
sub-directories -/
def Equiv (a b : FsTree) : Prop := ∀ p, a.view p = b.view p

def FsTree.files (t : FsTree) : List Bytes :=
  t.entries.filterMap (fun e => match e.node with | .file c => some c | _ => none)

/-- no two *different* contents among `S` have the same digest -/
def NoCollision (D : Bytes → Str) (S : List Bytes) : Prop :=
  ∀ x ∈ S, ∀ y ∈ S, D x = D y → x = y

theorem mem_files {t : FsTree} {p : Path} {c : Bytes} (h : ⟨p, .file c⟩ ∈ t.entries) :
    c ∈ t.files := by
  unfold FsTree.files
  rw [List.mem_filterMap]
  exact ⟨_, h, rfl⟩

theorem lookup_of_mem {t : FsTree} (h : t.WF) {e : Entry} (he : e ∈ t.entries) :
    t.lookup e.path = some e.node := by
  unfold FsTree.lookup
  cases hf : t.entries.find? (fun x => x.path = e.path) with
  | none =>
    rw [List.find?_eq_none] at hf
    exact absurd (by simp) (hf e he)
  | some e' =>
    have h1 := List.find?_some hf
    have h2 := List.mem_of_find?_eq_some hf
    simp only [decide_eq_true_eq] at h1
    rw [h.unique h2 he h1]

theorem mem_of_lookup {t : FsTree} {p : Path} {n : Node} (h : t.lookup p = some n) :
    ⟨p, n⟩ ∈ t.entries := by
  unfold FsTree.lookup at h
  cases hf : t.entries.find? (fun x => x.path = p) with
  | none => rw [hf] at h; cases h
  | some e' =>
    rw [hf] at h
    have h1 := List.find?_some hf
    have h2 := List.mem_of_find?_eq_some hf
    simp only [decide_eq_true_eq] at h1
    simp only [Option.some.injEq] at h
    obtain ⟨p', n'⟩ := e'
    simp only at h1 h
    subst h1; subst h
    exact h2

theorem lookup_none {t : FsTree} {p : Path} (h : t.lookup p = none) :
    ∀ e ∈ t.entries, e.path ≠ p := by
  unfold FsTree.lookup at h
  cases hf : t.entries.find? (fun x => x.path = p) with
  | none =>
    rw [List.find?_eq_none] at hf
    intro e he
    simpa using hf e he
  | some e' => rw [hf] at h; cases h

/-- observation the loop leaves at the path of an entry -/
def entryObs {σ : Type} (cfg : Cfg σ) (e : Entry) : Obs :=
  if e.isLeaf then .str (valOf cfg e) else .dict

/-- the result of a successful run on a well-formed tree, path by path -/
theorem build_obs {σ : Type} (hl : HashLib σ) (alg : Str) (t : FsTree) (hwf : t.WF) (h : HT)
    (hok : dirHashsums hl alg t = .ok h) :
    (∀ e ∈ t.entries, entryOk ⟨hl, alg, t.base⟩ e = true) ∧
    (∀ e ∈ t.entries, h.obsAt e.path = some (entryObs ⟨hl, alg, t.base⟩ e)) ∧
    (∀ p, p ≠ [] → (∀ e ∈ t.entries, e.path ≠ p) → h.obsAt p = none) := by
  let cfg : Cfg σ := ⟨hl, alg, t.base⟩
  have hc := hwf.compat (valOf cfg)
  have hb := build_root cfg t.entries hc
  unfold dirHashsums at hok
  rw [hb] at hok
  by_cases hall : t.entries.all (entryOk cfg) = true
  · rw [if_pos hall] at hok
    obtain ⟨t', ht', sp⟩ := putAll_spec _ hc
    have ht'' : putAll (.node []) (t.entries.map (itemOf cfg)) = .ok t' := ht'
    rw [ht''] at hok
    cases hok
    refine ⟨fun e he => (List.all_eq_true.mp hall) e he, ?_, ?_⟩
    · intro e he
      obtain ⟨hf, hleaf, hdir⟩ := entryItem_full e (valOf cfg e) (hwf.nonempty e he) (hwf.names e he)
      have hmem : itemOf cfg e ∈ t.entries.map (fun e => entryItem e (valOf cfg e)) :=
        List.mem_map.mpr ⟨e, he, rfl⟩
      unfold entryObs
      by_cases hl' : e.isLeaf = true
      · rw [if_pos hl']
        obtain ⟨e1, e2⟩ := hleaf hl'
        have := sp.leaf _ hmem _ e1
        simp only at this
        rw [show (itemOf cfg e).1 = (entryItem e (valOf cfg e)).1 from rfl, e2] at this
        exact this
      · rw [if_neg hl']
        have e1 := hdir (by simpa using hl')
        have := sp.dir _ hmem e.path (by
          rw [show (itemOf cfg e).1 = (entryItem e (valOf cfg e)).1 from rfl, e1])
        exact this
    · intro p hp hnone
      refine sp.none p ?_ hp
      intro i hi hpre
      obtain ⟨e, he, rfl⟩ := List.mem_map.mp hi
      obtain ⟨hf, _, _⟩ := entryItem_full e (valOf cfg e) (hwf.nonempty e he) (hwf.names e he)
      rw [hf] at hpre
      by_cases heq : p = e.path
      · exact hnone e he heq.symm
      · exact hnone _ (hwf.closed e he p hp hpre heq) rfl
  · rw [if_neg hall] at hok
    cases hok

theorem valOf_file {σ : Type} (cfg : Cfg σ) (hs : Streaming cfg.hl) (ha : cfg.alg ∈ hashAlgs)
    (p : Path) (c : Bytes) :
    valOf cfg ⟨p, .file c⟩ = cfg.alg ++ ':' :: oneShot cfg.hl cfg.alg c := by
  unfold valOf entryVal
  simp only [Node.isSymlink, Node.isFile, Node.readBytes, Bool.false_eq_true, if_false, if_true]
  rw [qualifiedHashsum_eq cfg.hl hs cfg.alg ha]

theorem valOf_sym {σ : Type} (cfg : Cfg σ) (p r : Path) (c : Option Bytes)
    (hok : entryOk cfg ⟨p, .sym r c⟩ = true) :
    ∃ t, relativeTo r cfg.base = some t ∧ valOf cfg ⟨p, .sym r c⟩ = symlinkPrefix ++ pathStr t := by
  unfold entryOk entryVal at hok
  unfold valOf entryVal
  simp only [Node.isSymlink, if_true, relSymlink] at hok ⊢
  cases h : relativeTo r cfg.base with
  | none => rw [h] at hok; simp at hok
  | some t => exact ⟨t, rfl, rfl⟩

theorem alg_prefix_ne_symlink (alg x y : Str) (ha : alg ∈ hashAlgs) :
    alg ++ ':' :: x ≠ symlinkPrefix ++ y := by
  simp only [hashAlgs, List.mem_cons, List.mem_nil_iff, or_false] at ha
  rcases ha with h | h <;> subst h <;> simp [sha256, sha512, symlinkPrefix]

theorem relativeTo_names {r b t : Path} (h : relativeTo r b = some t) (hr : ∀ s ∈ r, NameOk s) :
    ∀ s ∈ t, NameOk s := by
  unfold relativeTo at h
  split_ifs at h
  simp only [Option.some.injEq] at h
  subst h
  intro s hs
  exact hr s (List.mem_of_mem_drop hs)

/-- equal observations mean equal content (needs: digests separate the file contents
concerned) -/
theorem content_of_obs {σ : Type} (hl : HashLib σ) (hs : Streaming hl) (alg : Str)
    (halg : alg ∈ hashAlgs) (ba bb p : Path) (na nb : Node)
    (hoka : entryOk ⟨hl, alg, ba⟩ ⟨p, na⟩ = true) (hokb : entryOk ⟨hl, alg, bb⟩ ⟨p, nb⟩ = true)
    (hta : ∀ r c, na = .sym r c → ∀ s ∈ r, NameOk s) (htb : ∀ r c, nb = .sym r c → ∀ s ∈ r, NameOk s)
    (hnc : ∀ ca cb, na = .file ca → nb = .file cb → oneShot hl alg ca = oneShot hl alg cb → ca = cb)
    (h : entryObs ⟨hl, alg, ba⟩ ⟨p, na⟩ = entryObs ⟨hl, alg, bb⟩ ⟨p, nb⟩) :
    content ba na = content bb nb := by
  cases na with
  | file ca =>
    cases nb with
    | file cb =>
      simp only [entryObs, Entry.isLeaf, Node.isFile, Node.isSymlink, Bool.or_false, if_true] at h
      rw [valOf_file ⟨hl, alg, ba⟩ hs halg, valOf_file ⟨hl, alg, bb⟩ hs halg] at h
      simp only [Obs.str.injEq, List.append_cancel_left_eq, List.cons.injEq, true_and] at h
      rw [content, content, hnc ca cb rfl rfl h]
    | sym r c =>
      obtain ⟨t, _, hv⟩ := valOf_sym ⟨hl, alg, bb⟩ p r c hokb
      simp only [entryObs, Entry.isLeaf, Node.isFile, Node.isSymlink, Bool.or_false, Bool.or_true,
        if_true] at h
      rw [valOf_file ⟨hl, alg, ba⟩ hs halg, hv] at h
      simp only [Obs.str.injEq] at h
      exact absurd h (alg_prefix_ne_symlink alg _ _ halg)
    | dir => simp [entryObs, Entry.isLeaf, Node.isFile, Node.isSymlink] at h
  | sym r c =>
    obtain ⟨t, ht, hv⟩ := valOf_sym ⟨hl, alg, ba⟩ p r c hoka
    cases nb with
    | file cb =>
      simp only [entryObs, Entry.isLeaf, Node.isFile, Node.isSymlink, Bool.or_false, Bool.or_true,
        if_true] at h
      rw [valOf_file ⟨hl, alg, bb⟩ hs halg, hv] at h
      simp only [Obs.str.injEq] at h
      exact absurd h.symm (alg_prefix_ne_symlink alg _ _ halg)
    | sym r' c' =>
      obtain ⟨t', ht', hv'⟩ := valOf_sym ⟨hl, alg, bb⟩ p r' c' hokb
      simp only [entryObs, Entry.isLeaf, Node.isSymlink, Bool.or_true, if_true] at h
      rw [hv, hv'] at h
      simp only [Obs.str.injEq, List.append_cancel_left_eq] at h
      have := pathStr_injective t t' (relativeTo_names ht (hta r c rfl))
        (relativeTo_names ht' (htb r' c' rfl)) h
      simp only [content]
      rw [show relativeTo r ba = some t from ht, show relativeTo r' bb = some t' from ht', this]
    | dir => simp [entryObs, Entry.isLeaf, Node.isFile, Node.isSymlink] at h
  | dir =>
    cases nb with
    | file cb => simp [entryObs, Entry.isLeaf, Node.isFile, Node.isSymlink] at h
    | sym r c => simp [entryObs, Entry.isLeaf, Node.isFile, Node.isSymlink] at h
    | dir => rfl

/-- entries with equal path and equal content contribute the same item -/
theorem itemOf_congr {σ : Type} (hl : HashLib σ) (alg : Str) (ba bb p : Path) (na nb : Node)
    (h : content ba na = content bb nb) :
    itemOf ⟨hl, alg, ba⟩ ⟨p, na⟩ = itemOf ⟨hl, alg, bb⟩ ⟨p, nb⟩ := by
  cases na with
  | file ca =>
    cases nb with
    | file cb => simp only [content, Content.file.injEq] at h; subst h; rfl
    | sym r c => simp [content] at h
    | dir => simp [content] at h
  | sym r c =>
    cases nb with
    | file cb => simp [content] at h
    | sym r' c' =>
      simp only [content, Content.link.injEq] at h
      have hv : valOf ⟨hl, alg, ba⟩ ⟨p, .sym r c⟩ = valOf ⟨hl, alg, bb⟩ ⟨p, .sym r' c'⟩ := by
        simp only [valOf, entryVal, Node.isSymlink, if_true, relSymlink, h]
      unfold itemOf
      rw [hv]
      cases c <;> cases c' <;> rfl
    | dir => simp [content] at h
  | dir =>
    cases nb with
    | file cb => simp [content] at h
    | sym r c => simp [content] at h
    | dir => rfl

/-! ### executable well-formedness check (for concrete examples) -/

instance : DecidablePred NameOk := fun s => by unfold NameOk; infer_instance

/-- executable well-formedness check -/
def FsTree.wfCheck (t : FsTree) : Bool :=
  decide (t.entries.map Entry.path).Nodup &&
  t.entries.all (fun e =>
    e.path != [] &&
    e.path.all (fun s => decide (NameOk s)) &&
    e.path.inits.all (fun q => q == [] || q == e.path || t.entries.contains ⟨q, .dir⟩) &&
    (match e.node with
     | .sym r _ => r.all (fun s => decide (NameOk s))
     | _ => true))

theorem wf_of_check (t : FsTree) (h : t.wfCheck = true) : t.WF := by
  unfold FsTree.wfCheck at h
  simp only [Bool.and_eq_true, decide_eq_true_eq, List.all_eq_true, bne_iff_ne, ne_eq,
    Bool.or_eq_true, beq_iff_eq, List.contains_iff_mem] at h
  obtain ⟨hnd, hall⟩ := h
  refine ⟨hnd, fun e he => (hall e he).1.1.1, fun e he => (hall e he).1.1.2, ?_, ?_⟩
  · intro e he q hq hpre hne
    have := (hall e he).1.2 q ((List.mem_inits _ _).mpr hpre)
    rcases this with (h1 | h1) | h1
    · exact absurd h1 hq
    · exact absurd h1 hne
    · exact h1
  · intro e he r c hr s hs
    have := (hall e he).2
    rw [hr] at this
    simp only [List.all_eq_true, decide_eq_true_eq] at this
    exact this s hs


instance (D : Bytes → Str) (S : List Bytes) : Decidable (NoCollision D S) := by
  unfold NoCollision; infer_instance

end MetadorModel.Hashsums
