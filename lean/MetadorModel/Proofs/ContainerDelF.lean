import MetadorModel.Proofs.ContainerDelete
/-!
# `_del_raw(name, _unlink=False)`: removal of an (unlinked) metadata object on the tree level
-/
namespace MetadorModel.Container

theorem delRawF_run_keep (h : Handle) (name : String) (s : St) (st : Stored) (t2 : Tree)
    (hst : alGet h.objs name = some st)
    (h2 : rawDel s.raw st.path = .ok t2)
    (hne : alErase h.objs st.schema.name ≠ []) :
    h.delRaw name false s = (.ok { h with objs := alErase h.objs st.schema.name }, ⟨t2, s.c, s.next⟩) := by
  simp [Handle.delRaw, hst, run_liftRaw, h2, hne]

theorem delRawF_run_drop (h : Handle) (name : String) (s : St) (st : Stored) (t2 t3 : Tree)
    (hst : alGet h.objs name = some st)
    (h2 : rawDel s.raw st.path = .ok t2)
    (he : alErase h.objs st.schema.name = [])
    (h3 : rawDel t2 h.baseDir = .ok t3) :
    h.delRaw name false s = (.ok { h with objs := alErase h.objs st.schema.name }, ⟨t3, s.c, s.next⟩) := by
  simp [Handle.delRaw, hst, run_liftRaw, h2, he, h3]

/-- frame of the unlinked deletions: caches and everything below `/metador_container` stay -/
def TocSame (s s' : St) : Prop := s'.c = s.c ∧ ∀ q, q.head? = some .toc → get? s'.raw q = get? s.raw q

/-- … and outside of it nodes only disappear -/
def TocSameMono (s s' : St) : Prop := TocSame s s' ∧ Mono s s'

theorem delRawF_spec {e : Env} {s : St} (ht : TreeOK e s.raw) {h : Handle} (hh : HOK s h)
    {name : String} {st : Stored} (hst : alGet h.objs name = some st) :
    ∃ s' h', h.delRaw name false s = (.ok h', s') ∧ TreeOK e s'.raw ∧ HOK s' h' ∧ h'.baseDir = h.baseDir ∧
      s'.next = s.next ∧ TocSameMono s s' ∧ (∀ q, isInternal q = false → get? s'.raw q = get? s.raw q) ∧
      (∀ p r u, ObjAt s'.raw p r u ↔ (ObjAt s.raw p r u ∧ p ≠ st.path)) := by
  obtain ⟨⟨b, m, hb, hbase, hbg, hhost⟩, hobjs, hknd⟩ := hh
  obtain ⟨r, u, hname, rfl, hex⟩ := (hobjs name st).mp hst
  simp only
  set objP := b ++ [.metaDir m, .obj r u] with hobjP
  have hobjP' : h.baseDir ++ [.obj r u] = objP := by rw [hbase, hobjP]; simp
  rw [hobjP'] at hex ⊢
  have hhead : objP.head? ≠ some .toc := objPath_head hb
  have h2 := rawDel_ok (t := s.raw) (p := objP) (by simp [hobjP]) hex
  set t2 := s.raw.filter (fun e => !under objP e.1) with ht2
  -- nothing lives below the object
  have hleaf : ∀ q, objP <+: q → q ≠ objP → get? s.raw q = none := by
    rintro q ⟨c, rfl⟩ hne
    by_contra hc
    cases c with
    | nil => simp at hne
    | cons x c =>
      have : get? s.raw (b ++ Key.metaDir m :: Key.obj r u :: (x :: c)) ≠ none := by simpa [hobjP] using hc
      have := (below_metaDir' ht hb this).1
      simp at this
  have g2 : ∀ q, q ≠ [] → get? t2 q = if q = objP then none else get? s.raw q := by
    intro q hq
    rw [rawDel_get? h2 q hq]
    by_cases hqe : q = objP
    · subst hqe; simp [under]
    · rw [if_neg hqe]
      by_cases hu : objP <+: q
      · rw [under_true_of_prefix hu, hleaf q hu hqe]; simp
      · rw [under_false_of_not_prefix hu]; simp
  have hother_iff : alErase h.objs r.name ≠ [] ↔
      ∃ r' u', get? s.raw (b ++ [.metaDir m, .obj r' u']) ≠ none ∧ (r', u') ≠ (r, u) := by
    rw [ne_eq, alErase_eq_nil_iff]
    constructor
    · intro hne
      simp only [not_forall] at hne
      obtain ⟨x, hx, hxn⟩ := hne
      obtain ⟨st', hst'⟩ := alGet_some_of_isSome hx
      obtain ⟨r', u', hn', -, hg'⟩ := (hobjs x st').mp hst'
      refine ⟨r', u', by rw [hbase] at hg'; simpa using hg', ?_⟩
      rintro h; cases h; exact hxn hn'.symm
    · rintro ⟨r', u', hg', hne⟩ hall
      have hsome : (alGet h.objs r'.name).isSome := by
        rw [(hobjs r'.name ⟨u', r', h.baseDir ++ [.obj r' u']⟩).mpr ⟨r', u', rfl, rfl, by rw [hbase]; simpa using hg'⟩]; rfl
      have hnm := hall _ hsome
      obtain ⟨rfl, rfl⟩ := ht.onename b m r' u' r u hb hg' (by simpa [hobjP] using hex) hnm
      exact hne rfl
  -- final tree: `drop` says whether the directory goes as well
  have key : ∀ (tf : Tree) (drop : Prop) [Decidable drop],
      (drop ↔ alErase h.objs r.name = []) →
      (∀ q, q ≠ [] → get? tf q =
        if q = objP then none else if drop ∧ q = b ++ [.metaDir m] then none else get? s.raw q) →
      KeysOK tf → PClosed tf →
      TreeOK e tf ∧ HOK ⟨tf, s.c, s.next⟩ { h with objs := alErase h.objs r.name } ∧
      (∀ q, q.head? = some .toc → get? tf q = get? s.raw q) ∧
      (∀ q, isInternal q = false → get? tf q = get? s.raw q) ∧
      (∀ p r' u', ObjAt tf p r' u' ↔ (ObjAt s.raw p r' u' ∧ p ≠ objP)) ∧
      (∀ q, q.head? ≠ some .toc → get? tf q = none ∨ get? tf q = get? s.raw q) := by
    intro tf drop _ hdrop gf hkf hcf
    have hmono : ∀ q, q.head? ≠ some .toc → get? tf q = none ∨ get? tf q = get? s.raw q := by
      intro q _
      by_cases hq0 : q = []
      · subst hq0; right; simp
      · rw [gf q hq0]
        split_ifs
        · exact Or.inl rfl
        · exact Or.inl rfl
        · exact Or.inr rfl
    have hobjf : ∀ p r' u', ObjAt tf p r' u' ↔ (ObjAt s.raw p r' u' ∧ p ≠ objP) := by
      intro p r' u'
      constructor
      · rintro ⟨base, m', hb', rfl, hg⟩
        rw [gf _ (by simp)] at hg
        split_ifs at hg with hq1 hq2
        · exact absurd rfl hg
        · exact absurd rfl hg
        · exact ⟨⟨base, m', hb', rfl, hg⟩, hq1⟩
      · rintro ⟨⟨base, m', hb', rfl, hg⟩, hne⟩
        refine ⟨base, m', hb', rfl, ?_⟩
        rw [gf _ (by simp), if_neg hne, if_neg]
        · exact hg
        · rintro ⟨-, hq⟩
          have := congrArg List.getLast? hq
          simp at this
    have huser : ∀ q, isInternal q = false → get? tf q = get? s.raw q := by
      intro q hq
      by_cases hq0 : q = []
      · subst hq0; simp
      · rw [gf q hq0, if_neg, if_neg]
        · rintro ⟨-, rfl⟩
          rw [isInternal_append] at hq; simp [isInternal, Key.internal] at hq
        · rintro rfl
          rw [hobjP, isInternal_append] at hq; simp [isInternal, Key.internal] at hq
    have htoc : ∀ q, q.head? = some .toc → get? tf q = get? s.raw q := by
      intro q hq
      have hq0 : q ≠ [] := by rintro rfl; simp at hq
      rw [gf q hq0, if_neg, if_neg]
      · rintro ⟨-, rfl⟩; exact objPath_head (k := []) hb hq
      · rintro rfl; exact hhead hq
    refine ⟨⟨hkf, hcf, ?_, ?_, ?_, ?_, ?_⟩, ?_, htoc, huser, hobjf, hmono⟩
    · intro q n hq hqt hg
      rw [gf q hq] at hg
      split_ifs at hg
      exact ht.ushape q n hq hqt hg
    · intro base m' hb' hg _
      rw [gf _ (by simp)] at hg
      split_ifs at hg with hq1 hq2
      · exact absurd rfl hg
      · exact absurd rfl hg
      · rcases ht.host_ds base m' hb' hg (fun h => h) with h | ⟨v, hv⟩
        · exact Or.inl h
        · exact Or.inr ⟨v, by rw [huser _ (user_internal_false' ht hb' hv)]; exact hv⟩
    · intro base m' hb' hg
      rw [gf _ (by simp)] at hg
      have hne1 : base ++ [Key.metaDir m'] ≠ objP := by
        intro h; have := congrArg List.getLast? h; simp [hobjP] at this
      rw [if_neg hne1] at hg
      split_ifs at hg with hq2
      · exact absurd rfl hg
      · obtain ⟨r', u', hh2⟩ := ht.host_obj base m' hb' hg
        by_cases hsame : base ++ [Key.metaDir m'] = b ++ [.metaDir m]
        · obtain ⟨rfl, hk⟩ := List.append_inj' hsame rfl
          simp at hk; subst hk
          have hnd : ¬ drop := fun hd => hq2 ⟨hd, rfl⟩
          obtain ⟨r'', u'', hg'', hne''⟩ := hother_iff.mp (fun h => hnd (hdrop.mpr h))
          refine ⟨r'', u'', ?_⟩
          rw [gf _ (by simp), if_neg, if_neg]
          · exact hg''
          · rintro ⟨-, hq⟩; have := congrArg List.getLast? hq; simp at this
          · intro hq
            have := (snoc2_inj (hobjP ▸ hq)).2.2
            simp at this
            exact hne'' (by rw [this.1, this.2])
        · refine ⟨r', u', ?_⟩
          rw [gf _ (by simp), if_neg, if_neg]
          · exact hh2
          · rintro ⟨-, hq⟩; have := congrArg List.getLast? hq; simp at this
          · intro hq
            have := (snoc2_inj (hobjP ▸ hq))
            exact hsame (by rw [this.1, this.2.1])
    · intro p r' u' ho'
      exact ht.objenv p r' u' ((hobjf _ _ _).mp ho').1
    · intro base m' r1 u1 r2 u2 hb' hg1 hg2 hname'
      have o1 : ObjAt tf (base ++ [.metaDir m', .obj r1 u1]) r1 u1 := ⟨base, m', hb', rfl, hg1⟩
      have o2 : ObjAt tf (base ++ [.metaDir m', .obj r2 u2]) r2 u2 := ⟨base, m', hb', rfl, hg2⟩
      obtain ⟨⟨_, _, _, _, hg1'⟩, -⟩ := (hobjf _ _ _).mp o1
      obtain ⟨⟨_, _, _, _, hg2'⟩, -⟩ := (hobjf _ _ _).mp o2
      exact ht.onename base m' r1 u1 r2 u2 hb' hg1' hg2' hname'
    · refine ⟨⟨b, m, hb, hbase, ?_, ?_⟩, ?_, alKeys_alErase_nodup hknd _⟩
      · rw [huser b hb]; exact hbg
      · rcases hhost with h | ⟨v, hv⟩
        · exact Or.inl h
        · exact Or.inr ⟨v, by rw [huser _ (user_internal_false' ht hb hv)]; exact hv⟩
      · intro name' st'
        show alGet (alErase h.objs r.name) name' = some st' ↔ _
        rw [alGet_alErase]
        by_cases hn : name' = r.name
        · subst hn
          simp only [if_true]
          constructor
          · intro h; cases h
          · rintro ⟨r', u', hn', -, hg'⟩
            exfalso
            rw [hbase] at hg'
            have o' : ObjAt tf (b ++ [.metaDir m, .obj r' u']) r' u' := ⟨b, m, hb, rfl, by simpa using hg'⟩
            obtain ⟨⟨_, _, _, _, hg''⟩, hne'⟩ := (hobjf _ _ _).mp o'
            obtain ⟨rfl, rfl⟩ := ht.onename b m r' u' r u hb hg'' (by simpa [hobjP] using hex) hn'
            exact hne' rfl
        · simp only [hn, if_false, hobjs name' st']
          constructor
          · rintro ⟨r', u', hn', rfl, hg'⟩
            refine ⟨r', u', hn', rfl, ?_⟩
            rw [hbase] at hg' ⊢
            have o' : ObjAt s.raw (b ++ [.metaDir m, .obj r' u']) r' u' := ⟨b, m, hb, rfl, by simpa using hg'⟩
            have : ObjAt tf (b ++ [.metaDir m, .obj r' u']) r' u' := (hobjf _ _ _).mpr ⟨o', by
              intro hq
              have := (snoc2_inj (hobjP ▸ hq)).2.2
              simp at this
              exact hn (by rw [← hn', this.1])⟩
            obtain ⟨_, _, _, hp, hg''⟩ := this
            simpa using hg''
          · rintro ⟨r', u', hn', rfl, hg'⟩
            refine ⟨r', u', hn', rfl, ?_⟩
            rw [hbase] at hg' ⊢
            have o' : ObjAt tf (b ++ [.metaDir m, .obj r' u']) r' u' := ⟨b, m, hb, rfl, by simpa using hg'⟩
            obtain ⟨⟨_, _, _, _, hg''⟩, -⟩ := (hobjf _ _ _).mp o'
            simpa using hg''
  by_cases hne : alErase h.objs r.name = []
  · -- the directory is removed as well
    have hdir2 : get? t2 (b ++ [.metaDir m]) ≠ none := by
      rw [g2 _ (by simp), if_neg (by intro h; have := congrArg List.length h; simp [hobjP] at this)]
      intro hn
      have := ht.pclosed (b ++ [.metaDir m]) (.obj r u) (by simpa [hobjP] using hex)
      rw [hn] at this; cases this
    have h3 := rawDel_ok (t := t2) (p := b ++ [.metaDir m]) (by simp) hdir2
    set t3 := t2.filter (fun e => !under (b ++ [.metaDir m]) e.1) with ht3
    obtain ⟨htree, hhok, htoc, huser, hobjf, hmono⟩ := key t3 True (by simp [hne]) (by
        intro q hq
        rw [rawDel_get? h3 q hq, g2 q hq]
        by_cases hq1 : q = objP
        · simp [hq1]
        · rw [if_neg hq1, if_neg hq1]
          by_cases hq2 : q = b ++ [.metaDir m]
          · simp [hq2, under]
          · simp only [hq2, and_false, if_false]
            by_cases hu : (b ++ [.metaDir m]) <+: q
            · rw [under_true_of_prefix hu]
              simp only [if_true]
              obtain ⟨c, rfl⟩ := hu
              cases c with
              | nil => simp at hq2
              | cons k c =>
                by_contra hc
                have hc' : get? s.raw (b ++ Key.metaDir m :: k :: c) ≠ none := by
                  intro h; apply hc; rw [← h]; simp
                obtain ⟨rfl, r', u', rfl⟩ := below_metaDir' ht hb hc'
                have hoth : ¬ ∃ r' u', get? s.raw (b ++ [.metaDir m, .obj r' u']) ≠ none ∧ (r', u') ≠ (r, u) :=
                  fun h => (hother_iff.mpr h) hne
                apply hoth
                refine ⟨r', u', by simpa using hc', ?_⟩
                rintro h; cases h
                exact hq1 (by simp [hobjP])
            · rw [under_false_of_not_prefix hu]; simp)
      (rawDel_keys h3 (rawDel_keys h2 ht.keys)) (rawDel_pclosed h3 (rawDel_pclosed h2 ht.pclosed))
    exact ⟨⟨t3, s.c, s.next⟩, _, delRawF_run_drop h name s _ t2 t3 hst (by simpa [hobjP'] using h2) hne
      (by rw [hbase]; exact h3), htree, hhok, rfl, rfl, ⟨⟨rfl, htoc⟩, hmono⟩, huser, hobjf⟩
  · obtain ⟨htree, hhok, htoc, huser, hobjf, hmono⟩ := key t2 False (by simp [hne]) (by
        intro q hq
        rw [g2 q hq]; simp)
      (rawDel_keys h2 ht.keys) (rawDel_pclosed h2 ht.pclosed)
    exact ⟨⟨t2, s.c, s.next⟩, _, delRawF_run_keep h name s _ t2 hst (by simpa [hobjP'] using h2) hne,
      htree, hhok, rfl, rfl, ⟨⟨rfl, htoc⟩, hmono⟩, huser, hobjf⟩

/-- `_del_raw(name, _unlink=False)` as an instance of `DelSpec` -/
theorem delSpec_tree (e : Env) : DelSpec e false (fun s => TreeOK e s.raw) TocSameMono where
  tree := fun _ h => h
  refl := fun s => ⟨⟨rfl, fun _ _ => rfl⟩, Mono.refl s⟩
  trans := fun _ _ _ h1 h2 =>
    ⟨⟨h2.1.1.trans h1.1.1, fun q hq => (h2.1.2 q hq).trans (h1.1.2 q hq)⟩, h1.2.trans h2.2⟩
  del := fun _ _ _ _ ht hh hst => delRawF_spec ht hh hst

end MetadorModel.Container
