import MetadorModel.Model.RecordStub
import MetadorModel.Proofs.RecordKw
/-!
# Frame, write set and invariant of `__exit__`, `create_stub` and the merge refused on stubs
-/
namespace MetadorModel.Record
open MetadorModel.FindFiles

theorem getF_setPayload_cont (d : Disk) (f : Name) (ub : UB) (p q : List Nat)
    (h : getF d f = some (.cont ub p)) : getF (setPayload d f q) f = some (.cont ub q) := by
  unfold setPayload
  rw [h]
  exact getF_setF_eq _ _ _

/-- what `create_stub` does when it gets as far as creating the base container -/
theorem createStub_spec (s : State) (n mf : Name) :
    Failed s (createStub s n mf) ∨
    ∃ (s2 : State) (ub0 : UB) (ubS : UB) (ids : List Nat),
      getF s.disk (baseFile n) = none ∧
      (∀ g, g ≠ baseFile n → getF s2.disk g = getF s.disk g) ∧
      getF s2.disk (baseFile n) = some (.cont ub0 ids) ∧ ub0.hash = none ∧
      s2.h.files = [(baseFile n, ubS)] ∧ s2.h.lastRW = true ∧
      createStub s n mf =
        { st := (commitMF s2).st, out := (commitMF s2).out,
          created := baseFile n :: (commitMF s2).created, removed := (commitMF s2).removed,
          written := (commitMF s2).written } := by
  unfold createStub
  by_cases hc : s.h.closed
  · simp only [hc, Bool.not_true, Bool.false_eq_true, if_false]
    cases hm : getF s.disk mf with
    | none => left; exact failed_fail rfl rfl (by decide)
    | some v =>
      cases v with
      | cont ub p => left; exact failed_fail rfl rfl (by decide)
      | mf u b =>
        simp only
        cases hi : stubInfo s.disk u b with
        | none => left; exact failed_fail rfl rfl (by decide)
        | some y =>
          obtain ⟨src, ids⟩ := y
          simp only
          rcases createRec_notrunc s true n [] with hf | ⟨_, _, hfresh, heq⟩
          · left
            have hne := hf.1
            cases ho : (createRec s true n false []).out with
            | ok => exact absurd ho hne
            | _ => exact hf
          · right
            rw [heq]
            simp only
            refine ⟨_, newBaseUB s.next, stubUB src, ids, hfresh, ?_, ?_, rfl, rfl, rfl, rfl⟩
            · intro g hg
              simp only [stubPrep]
              rw [getF_setPayload_ne _ _ _ _ hg, getF_setF_ne _ _ _ _ hg]
            · simp only [stubPrep]
              exact getF_setPayload_cont _ _ _ _ _ (getF_setF_eq _ _ _)
  · left
    simp only [hc, Bool.not_false, if_true]
    exact failed_fail rfl rfl (by decide)

theorem stubPrep_inv {s s2 : State} {n : Name} {ub0 ubS : UB} {ids : List Nat} (hi : Inv s)
    (hfr : ∀ g, g ≠ baseFile n → getF s2.disk g = getF s.disk g)
    (hb : getF s2.disk (baseFile n) = some (.cont ub0 ids)) (hh : ub0.hash = none)
    (hfiles : s2.h.files = [(baseFile n, ubS)]) : Inv s2 := by
  constructor
  · intro f ub p hg
    by_cases h : f = baseFile n
    · subst h; exact baseFile_last _
    · rw [hfr f h] at hg; exact hi.diskOk f ub p hg
  · intro _
    exact ⟨baseFile n, ubS, by rw [hfiles]; rfl, ub0, ids, hb, hh⟩

theorem createStub_frame (s : State) (n mf : Name) : Frame s (createStub s n mf) := by
  rcases createStub_spec s n mf with hf | ⟨s2, ub0, ubS, ids, _, hfr, _, _, _, _, heq⟩
  · exact hf.frame
  · rw [heq]
    intro g hg
    have hg' : g ≠ baseFile n ∧ g ∉ (commitMF s2).W := by
      simp only [Res.W, List.cons_append, List.mem_cons, not_or] at hg
      exact ⟨hg.1, by simpa [Res.W] using hg.2⟩
    show getF (commitMF s2).st.disk g = getF s.disk g
    rw [commitMF_frame s2 g hg'.2, hfr g hg'.1]

theorem createStub_touch (s : State) (n mf : Name) (_hi : Inv s) :
    ∀ f ∈ (createStub s n mf).W, Touchable s.disk f := by
  rcases createStub_spec s n mf with hf | ⟨s2, ub0, ubS, ids, hfresh, hfr, hb, hh, hfiles, _, heq⟩
  · exact touch_of_failed hf
  · rw [heq]
    intro g hg
    have hfreshC : FreshCont s.disk (baseFile n) := ⟨hfresh, baseFile_last _⟩
    have hg' : g = baseFile n ∨ g ∈ (commitMF s2).W := by
      simp only [Res.W, List.cons_append, List.mem_cons] at hg
      rcases hg with h | h
      · exact Or.inl h
      · exact Or.inr (by simpa [Res.W] using h)
    rcases hg' with rfl | hg'
    · exact Or.inl hfreshC
    · rcases commitMF_spec s2 with hf2 | ⟨f, ub, p, hl, _, _, _, _, _, _, _, _, _, hW⟩
      · rw [hf2.W] at hg'; cases hg'
      · rw [hfiles] at hl
        have hf : f = baseFile n := by
          simp only [lastFile, Option.some.injEq, Prod.mk.injEq] at hl
          exact hl.1.symm
        subst hf
        rcases (hW g).mp hg' with rfl | rfl
        · exact Or.inl hfreshC
        · exact Or.inr (Or.inr ⟨_, rfl, Or.inl hfreshC⟩)

theorem createStub_inv (s : State) (n mf : Name) (hi : Inv s) : Inv (createStub s n mf).st := by
  rcases createStub_spec s n mf with hf | ⟨s2, ub0, ubS, ids, _, hfr, hb, hh, hfiles, _, heq⟩
  · exact inv_of_failed hi hf
  · rw [heq]
    exact commitMF_inv s2 (stubPrep_inv hi hfr hb hh hfiles)

/-! ## every call -/

theorem stepS_frame (t : StS) (op : OpS) : Frame t.s (stepS t op) := by
  unfold stepS
  split
  · exact frame_fail _ _
  · cases op with
    | kw k => exact stepK_frame t.s k
    | exit e => exact close_frame t.s true
    | createStub n mf => exact createStub_frame t.s n mf

theorem stepS_touch (t : StS) (op : OpS) (hsafe : op.safe = true) (hi : Inv t.s) :
    ∀ f ∈ (stepS t op).W, Touchable t.s.disk f := by
  unfold stepS
  split
  · intro f hf; cases hf
  · cases op with
    | kw k => exact stepK_touch t.s k hsafe hi
    | exit e => exact close_touch t.s true hi
    | createStub n mf => exact createStub_touch t.s n mf hi

theorem stepS_inv (t : StS) (op : OpS) (hsafe : op.safe = true) (hi : Inv t.s) :
    Inv (stepS t op).st := by
  unfold stepS
  split
  · exact hi
  · cases op with
    | kw k => exact stepK_inv t.s k hsafe hi
    | exit e => exact close_inv t.s true hi
    | createStub n mf => exact createStub_inv t.s n mf hi

theorem afterS_s (t : StS) (op : OpS) : (afterS t op).s = (stepS t op).st := rfl

/-- leaving a `with` block — normally or by an exception — is `close(commit=True)` -/
theorem stepS_exit (t : StS) (e : Bool) : stepS t (.exit e) = step t.s (.close true) := by
  simp [stepS, refusedMerge, exitWith, step]

/-- a history without exits, stubs (and hence without refused merges) is a keyworded history -/
theorem runS_kw (ops : List OpK) (s : State) : (runS { s := s } (ops.map OpS.kw)).s = runK s ops ∧
    (runS { s := s } (ops.map OpS.kw)).stubMfs = [] := by
  induction ops generalizing s with
  | nil => exact ⟨rfl, rfl⟩
  | cons o r ih =>
    have hno : refusedMerge { s := s } (OpS.kw o) = false := by
      unfold refusedMerge
      split
      · simp [isStubUB]
        intro _ a b _
        cases b.ext <;> simp
      · rfl
    have h1 : afterS { s := s } (OpS.kw o) = { s := (stepK s o).st } := by
      simp [afterS, stepS, hno]
    simp only [List.map, runS, runK, h1]
    exact ih _

end MetadorModel.Record
