import MetadorModel.Model.Tree
import MetadorModel.Model.Overlay
import MetadorModel.Model.Merge
/-!
# Single-container records (helper lemmas for C05 / C10)

A freshly created record has one container and the write paths never put deletion markers,
SUBST markers or attribute deletion markers into it. For such a record the overlay read side
collapses to plain look-ups in the container (`look_single`), and a write below an existing
parent is one `aput` (`createGroup_single`, `createDataset_single`, `setAttrRaw_single`).
-/
namespace MetadorModel.Single
open MetadorModel.Tree MetadorModel.Overlay MetadorModel.Merge

variable {V : Type}

/-! ## association lists -/

theorem aget_aput_same {κ β : Type} [DecidableEq κ] (k : κ) (v : β) (m : List (κ × β)) :
    aget k (aput k v m) = some v := by
  induction m with
  | nil => simp [aput, aget]
  | cons e es ih =>
    obtain ⟨k', v'⟩ := e
    by_cases h : k' = k
    · simp [aput, aget, h]
    · simp [aput, aget, h, ih]

theorem aget_aput_other {κ β : Type} [DecidableEq κ] (k q : κ) (v : β) (m : List (κ × β))
    (h : q ≠ k) : aget q (aput k v m) = aget q m := by
  induction m with
  | nil =>
    have : ¬ k = q := fun h' => h h'.symm
    simp [aput, aget, this]
  | cons e es ih =>
    obtain ⟨k', v'⟩ := e
    by_cases hk : k' = k
    · subst hk
      have : ¬ k' = q := fun h' => h h'.symm
      simp [aput, aget, this]
    · by_cases hq : k' = q
      · subst hq
        simp [aput, aget, h]
      · simp [aput, aget, hk, hq, ih]

theorem aget_aput {κ β : Type} [DecidableEq κ] (k q : κ) (v : β) (m : List (κ × β)) :
    aget q (aput k v m) = if q = k then some v else aget q m := by
  by_cases h : q = k
  · subst h; simp [aget_aput_same]
  · simp [h, aget_aput_other k q v m h]

/-! ## single container: read side -/

theorem scan_single (c : Cont V) (q : Path) :
    scan q 0 [c] = (aget q c).map (fun n => (0, n)) := by
  simp only [scan, List.length_nil, Nat.lt_irrefl, if_false]
  cases h : aget q c with
  | none => simp
  | some n => by_cases hv : n.kind.isVirtual <;> simp [hv]

theorem child_single (c : Cont V) (q : Path) :
    child [c] q 0 = match aget q c with
      | none => none
      | some n => if n.kind.isDel then none else some (0, n) := by
  simp only [child, scan_single]
  cases h : aget q c <;> simp

/-- every entry is reachable: all proper prefixes are present as (non-deleted) groups -/
def PC (c : Cont V) : Prop :=
  ∀ q n, aget q c = some n → ∀ i, i < q.length →
    ∃ n', aget (q.take i) c = some n' ∧ n'.kind.isGroup = true

def NoDel (c : Cont V) : Prop := ∀ q n, aget q c = some n → n.kind.isDel = false

theorem isGroup_not_del {k : RKind V} (h : k.isGroup = true) : k.isDel = false := by
  cases k <;> simp_all [RKind.isGroup, RKind.isDel]

/-- walking down to an existing entry of a parent-closed container finds it -/
theorem lookFrom_single (c : Cont V) (hnd : NoDel c) :
    ∀ (rest pre : Path) (cur n : RNode V),
      rest ≠ [] → cur.kind.isGroup = true →
      aget (pre ++ rest) c = some n →
      (∀ i, 0 < i → i < rest.length → ∃ n', aget (pre ++ rest.take i) c = some n' ∧ n'.kind.isGroup = true) →
      lookFrom [c] pre 0 cur rest = .found 0 n := by
  intro rest
  induction rest with
  | nil => intro pre cur n h; exact absurd rfl h
  | cons k rest ih =>
    intro pre cur n _ hcur hget hpre
    simp only [lookFrom, hcur, if_true, child_single]
    cases rest with
    | nil =>
      have : aget (pre ++ [k]) c = some n := by simpa using hget
      simp [this, hnd _ _ this, lookFrom]
    | cons k2 rest2 =>
      obtain ⟨n', hn', hg'⟩ := hpre 1 (by omega) (by simp)
      have e1 : pre ++ List.take 1 (k :: k2 :: rest2) = pre ++ [k] := by simp
      rw [e1] at hn'
      simp only [hn', isGroup_not_del hg', Bool.false_eq_true, if_false]
      apply ih (pre ++ [k]) n' n (by simp) hg'
      · simpa using hget
      · intro i hi hlt
        obtain ⟨m, hm, hgm⟩ := hpre (i + 1) (by omega) (by simp at hlt ⊢; omega)
        refine ⟨m, ?_, hgm⟩
        simpa [List.take_succ_cons] using hm

/-- on a parent-closed single container without deletion markers an existing entry is found -/
theorem look_single_found (c : Cont V) (hpc : PC c) (hnd : NoDel c) (q : Path) (n : RNode V)
    (hq : q ≠ []) (h : aget q c = some n) : look [c] q = .found 0 n := by
  unfold look
  apply lookFrom_single c hnd q [] vnode n hq (by simp [vnode, RKind.isGroup])
  · simpa using h
  · intro i _ hlt
    obtain ⟨n', hn', hg⟩ := hpc q n h i hlt
    exact ⟨n', by simpa using hn', hg⟩

/-- walking towards a missing child of an existing group stops at the parent -/
theorem lookFrom_single_part (c : Cont V) :
    ∀ (rest pre : Path) (cur : RNode V) (k : Key),
      cur.kind.isGroup = true →
      aget (pre ++ rest ++ [k]) c = none →
      (∀ i, 0 < i → i ≤ rest.length → ∃ n', aget (pre ++ rest.take i) c = some n' ∧ n'.kind.isGroup = true) →
      lookFrom [c] pre 0 cur (rest ++ [k]) = .part (pre ++ rest) [k] := by
  intro rest
  induction rest with
  | nil =>
    intro pre cur k hcur hnone _
    have : aget (pre ++ [k]) c = none := by simpa using hnone
    simp [lookFrom, hcur, child_single, this]
  | cons k1 rest ih =>
    intro pre cur k hcur hnone hpre
    obtain ⟨n', hn', hg'⟩ := hpre 1 (by omega) (by simp)
    have e1 : pre ++ List.take 1 (k1 :: rest) = pre ++ [k1] := by simp
    rw [e1] at hn'
    simp only [List.cons_append, lookFrom, hcur, if_true, child_single, hn', isGroup_not_del hg',
      Bool.false_eq_true, if_false]
    have := ih (pre ++ [k1]) n' k hg' (by simpa using hnone) (by
      intro i hi hle
      obtain ⟨m, hm, hgm⟩ := hpre (i + 1) (by omega) (by simp; omega)
      exact ⟨m, by simpa [List.take_succ_cons] using hm, hgm⟩)
    simpa using this

theorem look_single_part (c : Cont V) (hpc : PC c) (par : Path) (k : Key)
    (hpar : par = [] ∨ ∃ np, aget par c = some np ∧ np.kind.isGroup = true)
    (hnone : aget (par ++ [k]) c = none) : look [c] (par ++ [k]) = .part par [k] := by
  unfold look
  have := lookFrom_single_part c par [] vnode k (by simp [vnode, RKind.isGroup])
    (by simpa using hnone) (by
      intro i hi hle
      rcases hpar with rfl | ⟨np, hnp, hg⟩
      · simp at hle; omega
      · by_cases hfull : i = par.length
        · subst hfull
          exact ⟨np, by simpa using hnp, hg⟩
        · obtain ⟨n', hn', hg'⟩ := hpc par np hnp i (by omega)
          exact ⟨n', by simpa using hn', hg'⟩)
  simpa using this

/-! ## paths -/

theorem isPre_iff_take : ∀ (a b : Path), isPre a b = true ↔ a.length ≤ b.length ∧ b.take a.length = a
  | [], b => by simp [isPre]
  | x :: xs, [] => by simp [isPre]
  | x :: xs, y :: ys => by
    by_cases h : x = y
    · subst h
      simp only [isPre, if_true, isPre_iff_take xs ys, List.length_cons, List.take_succ_cons,
        List.cons.injEq, true_and, Nat.add_le_add_iff_right]
    · simp only [isPre, h, if_false, List.length_cons, List.take_succ_cons, List.cons.injEq]
      constructor
      · intro h'; cases h'
      · rintro ⟨_, h1, _⟩; exact absurd h1.symm h

theorem mem_properPrefixes : ∀ (p q : Path), q ∈ properPrefixes p ↔ ∃ i, i < p.length ∧ q = p.take i
  | [], q => by simp [properPrefixes]
  | k :: rest, q => by
    simp only [properPrefixes, List.mem_cons, List.mem_map, mem_properPrefixes rest, List.length_cons]
    constructor
    · rintro (rfl | ⟨q', ⟨i, hi, rfl⟩, rfl⟩)
      · exact ⟨0, by omega, by simp⟩
      · exact ⟨i + 1, by omega, by simp⟩
    · rintro ⟨i, hi, rfl⟩
      cases i with
      | zero => left; simp
      | succ j => right; exact ⟨rest.take j, ⟨j, by omega, rfl⟩, by simp⟩

theorem mem_aget {α : Type} (m : List (Path × α)) (e : Path × α) (h : e ∈ m) : ∃ a, aget e.1 m = some a := by
  induction m with
  | nil => cases h
  | cons x xs ih =>
    obtain ⟨k, v⟩ := x
    by_cases hk : k = e.1
    · exact ⟨v, by simp [aget, hk]⟩
    · rcases List.mem_cons.mp h with rfl | h'
      · exact absurd rfl hk
      · obtain ⟨a, ha⟩ := ih h'
        exact ⟨a, by simp [aget, hk, ha]⟩

/-! ## well-formed single containers and the effect of writes below an existing parent -/

structure Good (c : Cont V) : Prop where
  pc : PC c
  nodel : NoDel c
  root : ∃ n, aget [] c = some n ∧ n.kind.isGroup = true

theorem good_init : Good (Cont.init : Cont V) := by
  refine ⟨?_, ?_, ⟨vnode, by simp [Cont.init, aget], by simp [vnode, RKind.isGroup]⟩⟩
  · intro q n h i hi
    simp only [Cont.init, aget] at h
    split at h
    · rename_i hq; subst hq; simp at hi
    · cases h
  · intro q n h
    simp only [Cont.init, aget] at h
    split at h
    · cases h; simp [vnode, RKind.isDel]
    · cases h

/-- all proper prefixes of `par ++ [k]` are present as groups -/
theorem prefixes_present (c : Cont V) (g : Good c) (par : Path) (k : Key) (np : RNode V)
    (hnp : aget par c = some np) (hg : np.kind.isGroup = true) :
    ∀ q ∈ properPrefixes (par ++ [k]), ∃ n, aget q c = some n ∧ n.kind.isGroup = true := by
  intro q hq
  obtain ⟨i, hi, rfl⟩ := (mem_properPrefixes _ _).mp hq
  simp only [List.length_append, List.length_cons, List.length_nil] at hi
  by_cases hfull : i = par.length
  · subst hfull
    exact ⟨np, by simpa using hnp, hg⟩
  · have hlt : i < par.length := by omega
    obtain ⟨n', hn', hg'⟩ := g.pc par np hnp i hlt
    refine ⟨n', ?_, hg'⟩
    rw [List.take_append_of_le_length (by omega)]
    exact hn'

theorem ensureAll_noop {α : Type} (d : α) (qs : List Path) (m : List (Path × α))
    (h : ∀ q ∈ qs, ∃ a, aget q m = some a) : ensureAll d qs m = m := by
  induction qs with
  | nil => rfl
  | cons q qs ih =>
    obtain ⟨a, ha⟩ := h q (by simp)
    simp only [ensureAll, ha]
    exact ih (fun q' hq' => h q' (by simp [hq']))

theorem createNode_single (c : Cont V) (g : Good c) (par : Path) (k : Key) (np n : RNode V)
    (hnp : aget par c = some np) (hg : np.kind.isGroup = true)
    (hnone : aget (par ++ [k]) c = none) :
    Raw.createNode c (par ++ [k]) n = .ok (aput (par ++ [k]) n c) := by
  have hp := prefixes_present c g par k np hnp hg
  have hanc : ancOk c (par ++ [k]) = true := by
    simp only [ancOk, List.all_eq_true]
    intro q hq
    obtain ⟨m, hm, hgm⟩ := hp q hq
    simp [hm, hgm]
  have hens : ensure vnode (par ++ [k]) c = c :=
    ensureAll_noop _ _ _ (fun q hq => by obtain ⟨m, hm, _⟩ := hp q hq; exact ⟨m, hm⟩)
  simp [Raw.createNode, hnone, hanc, hens]

/-- adding a non-deleted node below an existing group keeps the container well-formed -/
theorem good_aput_new (c : Cont V) (g : Good c) (par : Path) (k : Key) (np n : RNode V)
    (hnp : aget par c = some np) (hg : np.kind.isGroup = true)
    (hnone : aget (par ++ [k]) c = none) (hn : n.kind.isDel = false) :
    Good (aput (par ++ [k]) n c) := by
  have hp := prefixes_present c g par k np hnp hg
  -- a present path is never the fresh one
  have hne : ∀ q m, aget q c = some m → q ≠ par ++ [k] := by
    intro q m hq he; rw [he, hnone] at hq; cases hq
  refine ⟨?_, ?_, ?_⟩
  · intro q m hq i hi
    rw [aget_aput] at hq
    by_cases hqe : q = par ++ [k]
    · subst hqe
      obtain ⟨m', hm', hgm'⟩ := hp _ ((mem_properPrefixes _ _).mpr ⟨i, hi, rfl⟩)
      exact ⟨m', by rw [aget_aput_other _ _ _ _ (hne _ _ hm')]; exact hm', hgm'⟩
    · simp only [hqe, if_false] at hq
      obtain ⟨m', hm', hgm'⟩ := g.pc q m hq i hi
      exact ⟨m', by rw [aget_aput_other _ _ _ _ (hne _ _ hm')]; exact hm', hgm'⟩
  · intro q m hq
    rw [aget_aput] at hq
    by_cases hqe : q = par ++ [k]
    · simp only [hqe, if_true, Option.some.injEq] at hq; subst hq; exact hn
    · simp only [hqe, if_false] at hq; exact g.nodel q m hq
  · obtain ⟨r, hr, hgr⟩ := g.root
    exact ⟨r, by rw [aget_aput_other _ _ _ _ (hne _ _ hr)]; exact hr, hgr⟩

/-- replacing the attributes of an existing node keeps the container well-formed -/
theorem good_aput_attrs (c : Cont V) (g : Good c) (q : Path) (n : RNode V) (as : List (Key × Option V))
    (hq : aget q c = some n) : Good (aput q { n with attrs := as } c) := by
  refine ⟨?_, ?_, ?_⟩
  · intro q' m hq' i hi
    rw [aget_aput] at hq'
    have hsrc : ∃ m0, aget q' c = some m0 := by
      by_cases hqe : q' = q
      · subst hqe; exact ⟨n, hq⟩
      · simp only [hqe, if_false] at hq'; exact ⟨m, hq'⟩
    obtain ⟨m0, hm0⟩ := hsrc
    obtain ⟨m', hm', hgm'⟩ := g.pc q' m0 hm0 i hi
    rw [aget_aput]
    by_cases he : q'.take i = q
    · rw [he] at hm'
      rw [hq] at hm'; cases hm'
      exact ⟨{ n with attrs := as }, by simp [he], hgm'⟩
    · exact ⟨m', by simp [he, hm'], hgm'⟩
  · intro q' m hq'
    rw [aget_aput] at hq'
    by_cases hqe : q' = q
    · simp only [hqe, if_true, Option.some.injEq] at hq'; subst hq'
      exact g.nodel q n hq
    · simp only [hqe, if_false] at hq'; exact g.nodel q' m hq'
  · obtain ⟨r, hr, hgr⟩ := g.root
    rw [aget_aput]
    by_cases he : [] = q
    · subst he; rw [hq] at hr; cases hr
      exact ⟨{ n with attrs := as }, by simp, hgr⟩
    · exact ⟨r, by simp [he, hr], hgr⟩

theorem isDelAt_none (c : Cont V) (p : Path) (h : aget p c = none) : isDelAt c p = false := by
  simp [isDelAt, h]

/-- `create_group` of a missing child of an existing group in a single-container record -/
theorem createGroup_single (c : Cont V) (g : Good c) (par : Path) (k : Key) (np : RNode V)
    (hnp : aget par c = some np) (hg : np.kind.isGroup = true)
    (hnone : aget (par ++ [k]) c = none) :
    W.createGroup [c] (par ++ [k]) = .ok [aput (par ++ [k]) vnode c] := by
  have hl := look_single_part c g.pc par k (Or.inr ⟨np, hnp, hg⟩) hnone
  have hc := createNode_single c g par k np vnode hnp hg hnone
  simp [W.createGroup, hl, W.createGroupAt, isDelAt_none c _ hnone, Raw.createGroup, hc, Functor.map, Except.map, bind, Except.bind, pure, Except.pure]

theorem removeSub_aput_fresh (c : Cont V) (g : Good c) (p : Path) (n : RNode V)
    (hnone : aget p c = none) : removeSub p (aput p n c) = c := by
  -- `aput` of an absent key appends, and nothing in `c` lies at or below `p`
  have happ : aput p n c = c ++ [(p, n)] := by
    clear g
    induction c with
    | nil => simp [aput]
    | cons e es ih =>
      obtain ⟨k', v'⟩ := e
      by_cases hk : k' = p
      · simp [aget, hk] at hnone
      · simp only [aget, hk, if_false] at hnone
        simp [aput, hk, ih hnone]
  rw [happ, removeSub, List.filter_append]
  have h1 : (c.filter fun e => !(isPre p e.1)) = c := by
    apply List.filter_eq_self.mpr
    intro e he
    obtain ⟨a, ha⟩ := mem_aget c e he
    cases hpre : isPre p e.1
    · rfl
    · exfalso
      obtain ⟨hle, htake⟩ := (isPre_iff_take p e.1).mp hpre
      by_cases hlen : p.length = e.1.length
      · have : e.1 = p := by rw [← htake, hlen, List.take_length]
        rw [this, hnone] at ha; cases ha
      · obtain ⟨m, hm, _⟩ := g.pc e.1 a ha p.length (by omega)
        rw [htake, hnone] at hm; cases hm
  have h2 : ([(p, n)].filter fun e => !(isPre p e.1)) = [] := by
    have : isPre p p = true := (isPre_iff_take p p).mpr ⟨Nat.le_refl _, List.take_length⟩
    simp [this]
  rw [h1, h2, List.append_nil]

/-- `create_dataset` at a missing child of an existing group in a single-container record -/
theorem createDataset_single (c : Cont V) (g : Good c) (par : Path) (k : Key) (np : RNode V) (v : V)
    (hnp : aget par c = some np) (hg : np.kind.isGroup = true)
    (hnone : aget (par ++ [k]) c = none) :
    W.createDataset [c] (par ++ [k]) v = .ok [aput (par ++ [k]) ⟨.data v, []⟩ c] := by
  have hl := look_single_part c g.pc par k (Or.inr ⟨np, hnp, hg⟩) hnone
  have hcg := createGroup_single c g par k np hnp hg hnone
  have hc := createNode_single c g par k np ⟨.data v, []⟩ hnp hg hnone
  have hrm := removeSub_aput_fresh c g (par ++ [k]) vnode hnone
  simp [W.createDataset, hl, isDelAt_none c _ hnone, hnone, W.createVirtual, hcg, aget_aput_same,
    hrm, hc, Functor.map, Except.map, bind, Except.bind, pure, Except.pure]

theorem setAttrRaw_single (c : Cont V) (p : Path) (n : RNode V) (k : Key) (v : Option V)
    (hp : aget p c = some n) :
    W.setAttrRaw [c] p k v = .ok [aput p { n with attrs := aput k v n.attrs } c] := by
  simp [W.setAttrRaw, hp, Raw.setAttr, Functor.map, Except.map, bind, Except.bind, pure, Except.pure]

/-! ## copying attributes and replaying a listing into a single container -/

theorem aput_aput_same {κ β : Type} [DecidableEq κ] (k : κ) (v1 v2 : β) (m : List (κ × β)) :
    aput k v2 (aput k v1 m) = aput k v2 m := by
  induction m with
  | nil => simp [aput]
  | cons e es ih =>
    obtain ⟨k', v'⟩ := e
    by_cases h : k' = k
    · simp [aput, h]
    · simp [aput, h, ih]

theorem aput_self {κ β : Type} [DecidableEq κ] (k : κ) (v : β) (m : List (κ × β))
    (h : aget k m = some v) : aput k v m = m := by
  induction m with
  | nil => simp [aget] at h
  | cons e es ih =>
    obtain ⟨k', v'⟩ := e
    by_cases hk : k' = k
    · simp only [aget, hk, if_true, Option.some.injEq] at h
      subst h; simp [aput, hk]
    · simp only [aget, hk, if_false] at h
      simp [aput, hk, ih h]

theorem copyAttrs_single (as : List (Key × V)) :
    ∀ (c : Cont V) (p : Path) (n : RNode V), aget p c = some n →
      W.copyAttrs [c] p as = .ok [aput p { n with attrs := putAll as n.attrs } c] := by
  induction as with
  | nil =>
    intro c p n hp
    simp only [W.copyAttrs, putAll, List.foldl_nil]
    rw [aput_self p _ c (by simpa using hp)]
  | cons kv more ih =>
    intro c p n hp
    obtain ⟨k, v⟩ := kv
    simp only [W.copyAttrs, setAttrRaw_single c p n k (some v) hp, bind, Except.bind]
    rw [ih _ p { n with attrs := aput k (some v) n.attrs } (aget_aput_same _ _ _)]
    simp [putAll, aput_aput_same]

theorem rawKind_notDel (kd : NKind V) : (rawKind kd).isDel = false := by
  cases kd <;> simp [rawKind, RKind.isDel]

theorem plainKind_rawKind (kd : NKind V) : plainKind (rawKind kd) = some kd := by
  cases kd <;> simp [rawKind, plainKind]

/-- the entry can be replayed: its parent is an existing group and the path itself is fresh -/
def StepOk (c : Cont V) (e : Path × NKind V × List (Key × V)) : Prop :=
  ∃ par k np, e.1 = par ++ [k] ∧ aget par c = some np ∧ np.kind.isGroup = true ∧ aget e.1 c = none

/-- parents-first, duplicate-free sequence of entries relative to a starting container -/
def Chain : Cont V → List (Path × NKind V × List (Key × V)) → Prop
  | _, [] => True
  | c, e :: more => StepOk c e ∧ Chain (apply1 c e) more

theorem step_single (c : Cont V) (g : Good c) (e : Path × NKind V × List (Key × V)) (h : StepOk c e) :
    (do
      let r1 ← (match e.2.1 with
        | .group => W.createGroup [c] e.1
        | .data v => W.createDataset [c] e.1 v)
      match look r1 e.1 with
        | .found _ _ => W.copyAttrs r1 e.1 e.2.2
        | _ => .error .missing) = .ok [apply1 c e] ∧ Good (apply1 c e) := by
  obtain ⟨par, k, np, hq, hnp, hg, hnone⟩ := h
  obtain ⟨q, kd, as⟩ := e
  simp only at hq hnone ⊢
  subst hq
  have hne : par ++ [k] ≠ [] := by simp
  have hgood : ∀ n : RNode V, n.kind.isDel = false → Good (aput (par ++ [k]) n c) :=
    fun n hn => good_aput_new c g par k np n hnp hg hnone hn
  cases kd with
  | group =>
    have g1 := hgood vnode (by simp [vnode, RKind.isDel])
    have hl := look_single_found _ g1.pc g1.nodel (par ++ [k]) vnode hne (aget_aput_same _ _ _)
    have hca := copyAttrs_single as (aput (par ++ [k]) vnode c) (par ++ [k]) vnode (aget_aput_same _ _ _)
    refine ⟨?_, ?_⟩
    · simp only [createGroup_single c g par k np hnp hg hnone, bind, Except.bind, hl, hca]
      simp [apply1, rawKind, aput_aput_same, vnode]
    · simpa [apply1, rawKind] using hgood ⟨.vgroup, putAll as []⟩ (by simp [RKind.isDel])
  | data v =>
    have g1 := hgood ⟨.data v, []⟩ (by simp [RKind.isDel])
    have hl := look_single_found _ g1.pc g1.nodel (par ++ [k]) ⟨.data v, []⟩ hne (aget_aput_same _ _ _)
    have hca := copyAttrs_single as (aput (par ++ [k]) ⟨.data v, []⟩ c) (par ++ [k]) ⟨.data v, []⟩
      (aget_aput_same _ _ _)
    refine ⟨?_, ?_⟩
    · simp only [createDataset_single c g par k np v hnp hg hnone, bind, Except.bind, hl, hca]
      simp [apply1, rawKind, aput_aput_same]
    · simpa [apply1, rawKind] using hgood ⟨.data v, putAll as []⟩ (by simp [RKind.isDel])

/-- one iteration of the replay loop -/
def stepBody (r : Rec V) (e : Path × NKind V × List (Key × V)) : Except Err (Rec V) := do
  let r1 ← (match e.2.1 with
    | .group => W.createGroup r e.1
    | .data v => W.createDataset r e.1 v)
  match look r1 e.1 with
    | .found _ _ => W.copyAttrs r1 e.1 e.2.2
    | _ => .error .missing

theorem replay_cons (r : Rec V) (e : Path × NKind V × List (Key × V)) (more : List (Path × NKind V × List (Key × V))) :
    W.replay [] [] r (e :: more) = (stepBody r e) >>= fun r2 => W.replay [] [] r2 more := by
  obtain ⟨q, kd, as⟩ := e
  simp only [W.replay, stepBody, List.nil_append, List.length_nil, List.drop_zero, bind_assoc]
  rfl

theorem replay_single (l : List (Path × NKind V × List (Key × V))) :
    ∀ (c : Cont V), Good c → Chain c l →
      W.replay [] [] [c] l = .ok [l.foldl apply1 c] ∧ Good (l.foldl apply1 c) := by
  induction l with
  | nil => intro c g _; exact ⟨by simp [W.replay], g⟩
  | cons e more ih =>
    intro c g hch
    obtain ⟨hs, hmore⟩ := hch
    obtain ⟨h1, g1⟩ := step_single c g e hs
    obtain ⟨h2, g2⟩ := ih (apply1 c e) g1 hmore
    refine ⟨?_, by simpa using g2⟩
    have h1' : stepBody [c] e = .ok [apply1 c e] := h1
    rw [replay_cons, h1']
    simpa [bind, Except.bind] using h2

/-! ## reading a well-formed single container back -/

theorem lookFrom_found_imp (c : Cont V) :
    ∀ (rest pre : Path) (cur : RNode V) (i : Nat) (n : RNode V),
      rest ≠ [] → lookFrom [c] pre 0 cur rest = .found i n → aget (pre ++ rest) c = some n ∧ i = 0 := by
  intro rest
  induction rest with
  | nil => intro pre cur i n h; exact absurd rfl h
  | cons k rest ih =>
    intro pre cur i n _ hl
    simp only [lookFrom] at hl
    by_cases hcur : cur.kind.isGroup = true
    · simp only [hcur, if_true, child_single] at hl
      cases hk : aget (pre ++ [k]) c with
      | none => simp [hk] at hl
      | some n' =>
        simp only [hk] at hl
        by_cases hd : n'.kind.isDel = true
        · simp [hd] at hl
        · simp only [hd, Bool.false_eq_true, if_false] at hl
          cases rest with
          | nil =>
            simp only [lookFrom, Look.found.injEq] at hl
            obtain ⟨rfl, rfl⟩ := hl
            exact ⟨by simpa using hk, rfl⟩
          | cons k2 rest2 =>
            have := ih (pre ++ [k]) n' i n (by simp) hl
            simpa using this
    · simp [hcur] at hl

theorem viewKind_single (c : Cont V) (g : Good c) (q : Path) :
    viewKind [c] q = (aget q c).bind (fun n => plainKind n.kind) := by
  by_cases hq : q = []
  · subst hq
    obtain ⟨r, hr, hg⟩ := g.root
    have : plainKind r.kind = some NKind.group := by
      cases hk : r.kind <;> simp_all [RKind.isGroup, plainKind]
    simp only [viewKind, look, lookFrom, hr, Option.bind_some, this]
    simp [plainKind, vnode]
  · cases h : aget q c with
    | some n =>
      simp [viewKind, look_single_found c g.pc g.nodel q n hq h]
    | none =>
      simp only [viewKind, Option.bind_none]
      cases hl : look [c] q with
      | found i n =>
        have := (lookFrom_found_imp c q [] vnode i n hq hl).1
        simp only [List.nil_append] at this
        rw [h] at this; cases this
      | part _ _ => rfl
      | insideValue => rfl

theorem attrFind_single (c : Cont V) (q : Path) (k : Key) :
    attrFind q k 0 [c] = (aget q c).bind (fun n => (aget k n.attrs).map (fun v => (0, v))) := by
  simp only [attrFind, List.length_nil, Nat.lt_irrefl, if_false]
  cases h : aget q c with
  | none => simp
  | some n => cases h2 : aget k n.attrs <;> simp [h2]

/-- the attribute `k` of the node at `q`, read from a raw node -/
def rawAttr (n : RNode V) (k : Key) : Option V :=
  match aget k n.attrs with
  | some (some v) => some v
  | _ => none

theorem viewAttr_single (c : Cont V) (g : Good c) (q : Path) (k : Key) :
    viewAttr [c] q k = (aget q c).bind (fun n => rawAttr n k) := by
  by_cases hq : q = []
  · subst hq
    obtain ⟨r, hr, _⟩ := g.root
    simp only [viewAttr, look, lookFrom, attrOf, attrFind_single, hr, Option.bind_some, rawAttr]
    cases aget k r.attrs with
    | none => rfl
    | some v => cases v <;> rfl
  · cases h : aget q c with
    | some n =>
      simp only [viewAttr, look_single_found c g.pc g.nodel q n hq h, attrOf, attrFind_single, h,
        Option.bind_some, rawAttr]
      cases aget k n.attrs with
      | none => rfl
      | some v => cases v <;> rfl
    | none =>
      simp only [viewAttr, Option.bind_none]
      cases hl : look [c] q with
      | found i n =>
        have := (lookFrom_found_imp c q [] vnode i n hq hl).1
        simp only [List.nil_append] at this
        rw [h] at this; cases this
      | part _ _ => rfl
      | insideValue => rfl

/-! ## the container built by a replay, as a map -/

theorem chain_fresh (l : List (Path × NKind V × List (Key × V))) :
    ∀ (c : Cont V) (q : Path) (n : RNode V), Chain c l → aget q c = some n → aget q l = none := by
  induction l with
  | nil => intro c q n _ _; rfl
  | cons e more ih =>
    intro c q n hch hq
    obtain ⟨⟨par, k, np, _, _, _, hnone⟩, hmore⟩ := hch
    have hne : e.1 ≠ q := by intro he; rw [he, hq] at hnone; cases hnone
    obtain ⟨p, kd, as⟩ := e
    simp only [aget, hne, if_false]
    exact ih (apply1 c (p, kd, as)) q n hmore (by
      simp only [apply1]; rw [aget_aput_other _ _ _ _ (fun h => hne h.symm)]; exact hq)

theorem foldl_apply1_get (l : List (Path × NKind V × List (Key × V))) :
    ∀ (c : Cont V) (q : Path), Chain c l →
      aget q (l.foldl apply1 c) = match aget q l with
        | some e => some ⟨rawKind e.1, putAll e.2 []⟩
        | none => aget q c := by
  induction l with
  | nil => intro c q _; rfl
  | cons e more ih =>
    intro c q hch
    obtain ⟨hs, hmore⟩ := hch
    obtain ⟨p, kd, as⟩ := e
    simp only [List.foldl_cons, ih _ q hmore]
    by_cases hp : p = q
    · subst hp
      have hfresh := chain_fresh more (apply1 c (p, kd, as)) p ⟨rawKind kd, putAll as []⟩ hmore
        (by simp [apply1, aget_aput_same])
      simp [hfresh, aget, apply1, aget_aput_same]
    · have : ¬ q = p := fun h => hp h.symm
      simp only [aget, hp, if_false]
      cases aget q more with
      | some e' => rfl
      | none => simp [apply1, aget_aput_other _ _ _ _ this]

theorem aget_putAll (as : List (Key × V)) :
    ∀ (m : List (Key × Option V)) (k : Key), (as.map (·.1)).Nodup →
      aget k (putAll as m) = match aget k as with
        | some v => some (some v)
        | none => aget k m := by
  induction as with
  | nil => intro m k _; rfl
  | cons kv more ih =>
    intro m k hnd
    obtain ⟨k1, v1⟩ := kv
    simp only [List.map_cons, List.nodup_cons] at hnd
    have := ih (aput k1 (some v1) m) k hnd.2
    simp only [putAll, List.foldl_cons] at this ⊢
    rw [this]
    by_cases hk : k1 = k
    · subst hk
      have hnone : aget k1 more = none := by
        cases h : aget k1 more with
        | none => rfl
        | some v =>
          exfalso
          apply hnd.1
          clear this ih
          induction more with
          | nil => simp [aget] at h
          | cons x xs ihx =>
            obtain ⟨kx, vx⟩ := x
            by_cases hx : kx = k1
            · simp [hx]
            · simp only [aget, hx, if_false] at h
              simp only [List.map_cons, List.mem_cons]
              right
              exact ihx (by simp only [List.map_cons, List.nodup_cons] at hnd; exact ⟨fun hc => hnd.1 (by simp [hc]), hnd.2.2⟩) h
      simp [aget, hnone, aget_aput_same]
    · have : ¬ k = k1 := fun h => hk h.symm
      simp only [aget, hk, if_false]
      cases aget k more with
      | some v => rfl
      | none => simp [aget_aput_other _ _ _ _ this]

/-! ## `materialise`: the merged / stub container shows exactly the listing it was built from -/
theorem good_rootCont (as : List (Key × V)) : Good (rootCont as) :=
  good_aput_attrs Cont.init good_init [] vnode _ (by simp [Cont.init, aget])

/-- the listing can be replayed parents-first into a fresh container -/
def Replayable (l : Listing V) : Prop := Chain (rootCont (rootAttrsOf l)) (nonRoot l)

theorem materialise_eq (l : Listing V) (h : Replayable l) :
    materialise l = .ok [(nonRoot l).foldl apply1 (rootCont (rootAttrsOf l))] ∧
    Good ((nonRoot l).foldl apply1 (rootCont (rootAttrsOf l))) := by
  have hroot : W.copyAttrs (Rec.init : Rec V) [] (rootAttrsOf l) = .ok [rootCont (rootAttrsOf l)] := by
    have := copyAttrs_single (rootAttrsOf l) (Cont.init : Cont V) [] vnode (by simp [Cont.init, aget])
    simpa [Rec.init, rootCont, vnode] using this
  obtain ⟨h1, g1⟩ := replay_single (nonRoot l) (rootCont (rootAttrsOf l)) (good_rootCont _) h
  refine ⟨?_, g1⟩
  simp only [materialise]
  change (do let r1 ← W.copyAttrs (Rec.init : Rec V) [] (rootAttrsOf l); W.replay [] [] r1 (nonRoot l)) = _
  rw [hroot]
  simpa [bind, Except.bind] using h1

theorem aget_mem {κ β : Type} [DecidableEq κ] (m : List (κ × β)) (k : κ) (v : β)
    (h : aget k m = some v) : (k, v) ∈ m := by
  induction m with
  | nil => simp [aget] at h
  | cons x xs ih =>
    obtain ⟨kx, vx⟩ := x
    by_cases hx : kx = k
    · simp only [aget, hx, if_true, Option.some.injEq] at h
      subst h; subst hx; simp
    · simp only [aget, hx, if_false] at h
      exact List.mem_cons_of_mem _ (ih h)

/-- kinds shown by the materialised container -/
theorem materialise_kind (l : Listing V) (h : Replayable l) (m : Rec V) (hm : materialise l = .ok m)
    (q : Path) (hq : q ≠ []) :
    viewKind m q = (aget q (nonRoot l)).map (fun e => e.1) := by
  obtain ⟨heq, g⟩ := materialise_eq l h
  rw [heq] at hm
  cases hm
  rw [viewKind_single _ g, foldl_apply1_get _ _ _ h]
  cases hl : aget q (nonRoot l) with
  | some e => simp [plainKind_rawKind]
  | none =>
    have : aget q (rootCont (rootAttrsOf l)) = none := by
      simp only [rootCont, aget_aput, Cont.init, aget]
      simp [hq, fun h : [] = q => hq h.symm]
    simp [this]

/-- attributes shown by the materialised container -/
theorem materialise_attr (l : Listing V) (h : Replayable l) (m : Rec V) (hm : materialise l = .ok m)
    (hnd : ∀ e ∈ l, (e.2.2.map (·.1)).Nodup) (q : Path) (hq : q ≠ []) (k : Key) :
    viewAttr m q k = (aget q (nonRoot l)).bind (fun e => aget k e.2) := by
  obtain ⟨heq, g⟩ := materialise_eq l h
  rw [heq] at hm
  cases hm
  rw [viewAttr_single _ g, foldl_apply1_get _ _ _ h]
  cases hl : aget q (nonRoot l) with
  | some e =>
    have hmem : (q, e) ∈ l := (List.mem_filter.mp (aget_mem _ _ _ hl)).1
    have hn := hnd (q, e) hmem
    simp only [Option.bind_some, rawAttr, aget_putAll e.2 [] k hn]
    cases aget k e.2 <;> simp [aget]
  | none =>
    have : aget q (rootCont (rootAttrsOf l)) = none := by
      simp only [rootCont, aget_aput, Cont.init, aget]
      simp [hq, fun h : [] = q => hq h.symm]
    simp [this]

/-- root attributes shown by the materialised container -/
theorem materialise_root_attr (l : Listing V) (h : Replayable l) (m : Rec V) (hm : materialise l = .ok m)
    (hnd : (rootAttrsOf l |>.map (·.1)).Nodup) (k : Key) :
    viewAttr m [] k = aget k (rootAttrsOf l) ∧ viewKind m [] = some .group := by
  obtain ⟨heq, g⟩ := materialise_eq l h
  rw [heq] at hm
  cases hm
  have hroot : aget [] ((nonRoot l).foldl apply1 (rootCont (rootAttrsOf l))) =
      some { (vnode : RNode V) with attrs := putAll (rootAttrsOf l) [] } := by
    rw [foldl_apply1_get _ _ _ h]
    have hnone : aget [] (nonRoot l) = none :=
      chain_fresh _ _ [] { (vnode : RNode V) with attrs := putAll (rootAttrsOf l) [] } h
        (by simp [rootCont, aget_aput_same])
    simp [hnone, rootCont, aget_aput_same]
  refine ⟨?_, ?_⟩
  · rw [viewAttr_single _ g, hroot]
    simp only [Option.bind_some, rawAttr, aget_putAll _ [] k hnd]
    cases aget k (rootAttrsOf l) <;> simp [aget]
  · rw [viewKind_single _ g, hroot]
    simp [plainKind, vnode]

/-! ## the decidable well-formedness report implies `Replayable` -/

theorem stepOkB_sound (c : Cont V) (e : Path × NKind V × List (Key × V)) (h : stepOkB c e = true) :
    StepOk c e := by
  simp only [stepOkB] at h
  cases hr : e.1.reverse with
  | nil => simp [hr] at h
  | cons k rpar =>
    simp only [hr, Bool.and_eq_true, Option.isNone_iff_eq_none] at h
    obtain ⟨h1, h2⟩ := h
    have he : e.1 = rpar.reverse ++ [k] := by
      have := congrArg List.reverse hr
      simpa using this
    cases hp : aget rpar.reverse c with
    | none => simp [hp] at h1
    | some np =>
      simp only [hp] at h1
      exact ⟨rpar.reverse, k, np, he, hp, h1, h2⟩

theorem chainB_sound (l : Listing V) : ∀ (c : Cont V), chainB c l = true → Chain c l := by
  induction l with
  | nil => intro c _; trivial
  | cons e more ih =>
    intro c h
    simp only [chainB, Bool.and_eq_true] at h
    exact ⟨stepOkB_sound c e h.1, ih _ h.2⟩

theorem replayableB_sound (l : Listing V) (h : replayableB l = true) : Replayable l :=
  chainB_sound _ _ h

/-! ## stubs: the emptied listing is replayable whenever the listing is -/

theorem aget_map_val {κ β γ : Type} [DecidableEq κ] (f : β → γ) (m : List (κ × β)) (k : κ) :
    aget k (m.map (fun e => (e.1, f e.2))) = (aget k m).map f := by
  induction m with
  | nil => rfl
  | cons e es ih =>
    obtain ⟨k', v'⟩ := e
    by_cases h : k' = k <;> simp [aget, h, ih]

/-- kind and attribute names kept, all values replaced by `empty` -/
def emptied (empty : V) (x : NKind V × List (Key × V)) : NKind V × List (Key × V) :=
  ((match x.1 with | .group => .group | .data _ => .data empty), x.2.map (fun kv => (kv.1, empty)))

theorem stubListing_eq (empty : V) (l : Listing V) :
    stubListing empty l = l.map (fun e => (e.1, emptied empty e.2)) := rfl

def SameShape (c c' : Cont V) : Prop :=
  ∀ q, (aget q c).map (fun n => n.kind.isGroup) = (aget q c').map (fun n => n.kind.isGroup)

theorem rawKind_emptied_isGroup (empty : V) (kd : NKind V) :
    (rawKind (emptied empty (kd, ([] : List (Key × V)))).1).isGroup = (rawKind kd).isGroup := by
  cases kd <;> rfl

theorem chain_stub (empty : V) (l : Listing V) :
    ∀ (c c' : Cont V), SameShape c c' → Chain c l →
      Chain c' (l.map (fun e => (e.1, emptied empty e.2))) := by
  induction l with
  | nil => intro c c' _ _; trivial
  | cons e more ih =>
    intro c c' hs hch
    obtain ⟨⟨par, k, np, he, hnp, hg, hnone⟩, hmore⟩ := hch
    obtain ⟨p, kd, as⟩ := e
    simp only at he hnone
    refine ⟨?_, ?_⟩
    · have h1 := hs par
      rw [hnp] at h1
      cases hp' : aget par c' with
      | none => simp [hp'] at h1
      | some np' =>
        simp only [hp', Option.map_some, Option.some.injEq] at h1
        have h2 := hs p
        rw [hnone] at h2
        have hn' : aget p c' = none := by
          cases hx : aget p c' with
          | none => rfl
          | some x => simp [hx] at h2
        exact ⟨par, k, np', he, hp', by rw [← h1]; exact hg, hn'⟩
    · apply ih (apply1 c (p, kd, as)) _ _ hmore
      intro q
      simp only [apply1, aget_aput]
      by_cases hq : q = p
      · simp only [hq, if_true, Option.map_some, emptied]
        cases kd <;> rfl
      · simp only [hq, if_false]
        exact hs q

theorem nonRoot_stub (empty : V) (l : Listing V) :
    nonRoot (stubListing empty l) = (nonRoot l).map (fun e => (e.1, emptied empty e.2)) := by
  simp only [nonRoot, stubListing_eq, List.filter_map]
  rfl

theorem replayable_stub (empty : V) (l : Listing V) (h : Replayable l) :
    Replayable (stubListing empty l) := by
  unfold Replayable at *
  rw [nonRoot_stub]
  apply chain_stub empty (nonRoot l) (rootCont (rootAttrsOf l)) _ _ h
  intro q
  simp only [rootCont, aget_aput]
  by_cases hq : q = [] <;> simp [hq]

end MetadorModel.Single
