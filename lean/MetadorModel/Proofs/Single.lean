import MetadorModel.Model.Tree
import MetadorModel.Model.Overlay
import MetadorModel.Model.Merge
/-!
# Single-container records (helper lemmas for C05 / C10)

A freshly created record has one container and the write paths never put deletion markers,
SUBST markers or attribute deletion markers into it. For such a record the overlay read side
collapses to plain look-ups in the container (`look_single`), and a write below an existing
parent is one `aput` (`createGroup_single`, `createDataset_single`, `setAttrRaw_single`).
-/
namespace MetadorModel.Single
open MetadorModel.Tree MetadorModel.Overlay

variable {V : Type}

/-! ## association lists -/

theorem aget_aput_same {κ β : Type} [DecidableEq κ] (k : κ) (v : β) (m : List (κ × β)) :
    aget k (aput k v m) = some v := by
  induction m with
  | nil => simp [aput, aget]
  | cons e es ih =>
    obtain ⟨k', v'⟩ := e
    by_cases h : k' = k
    · simp [aput, aget, h]
    · simp [aput, aget, h, ih]

theorem aget_aput_other {κ β : Type} [DecidableEq κ] (k q : κ) (v : β) (m : List (κ × β))
    (h : q ≠ k) : aget q (aput k v m) = aget q m := by
  induction m with
  | nil =>
    have : ¬ k = q := fun h' => h h'.symm
    simp [aput, aget, this]
  | cons e es ih =>
    obtain ⟨k', v'⟩ := e
    by_cases hk : k' = k
    · subst hk
      have : ¬ k' = q := fun h' => h h'.symm
      simp [aput, aget, this]
    · by_cases hq : k' = q
      · subst hq
        simp [aput, aget, h]
      · simp [aput, aget, hk, hq, ih]

theorem aget_aput {κ β : Type} [DecidableEq κ] (k q : κ) (v : β) (m : List (κ × β)) :
    aget q (aput k v m) = if q = k then some v else aget q m := by
  by_cases h : q = k
  · subst h; simp [aget_aput_same]
  · simp [h, aget_aput_other k q v m h]

/-! ## single container: read side -/

theorem scan_single (c : Cont V) (q : Path) :
    scan q 0 [c] = (aget q c).map (fun n => (0, n)) := by
  simp only [scan, List.length_nil, Nat.lt_irrefl, if_false]
  cases h : aget q c with
  | none => simp
  | some n => by_cases hv : n.kind.isVirtual <;> simp [hv]

theorem child_single (c : Cont V) (q : Path) :
    child [c] q 0 = match aget q c with
      | none => none
      | some n => if n.kind.isDel then none else some (0, n) := by
  simp only [child, scan_single]
  cases h : aget q c <;> simp

/-- every entry is reachable: all proper prefixes are present as (non-deleted) groups -/
def PC (c : Cont V) : Prop :=
  ∀ q n, aget q c = some n → ∀ i, i < q.length →
    ∃ n', aget (q.take i) c = some n' ∧ n'.kind.isGroup = true

def NoDel (c : Cont V) : Prop := ∀ q n, aget q c = some n → n.kind.isDel = false

theorem isGroup_not_del {k : RKind V} (h : k.isGroup = true) : k.isDel = false := by
  cases k <;> simp_all [RKind.isGroup, RKind.isDel]

/-- walking down to an existing entry of a parent-closed container finds it -/
theorem lookFrom_single (c : Cont V) (hnd : NoDel c) :
    ∀ (rest pre : Path) (cur n : RNode V),
      rest ≠ [] → cur.kind.isGroup = true →
      aget (pre ++ rest) c = some n →
      (∀ i, 0 < i → i < rest.length → ∃ n', aget (pre ++ rest.take i) c = some n' ∧ n'.kind.isGroup = true) →
      lookFrom [c] pre 0 cur rest = .found 0 n := by
  intro rest
  induction rest with
  | nil => intro pre cur n h; exact absurd rfl h
  | cons k rest ih =>
    intro pre cur n _ hcur hget hpre
    simp only [lookFrom, hcur, if_true, child_single]
    cases rest with
    | nil =>
      have : aget (pre ++ [k]) c = some n := by simpa using hget
      simp [this, hnd _ _ this, lookFrom]
    | cons k2 rest2 =>
      obtain ⟨n', hn', hg'⟩ := hpre 1 (by omega) (by simp)
      have e1 : pre ++ List.take 1 (k :: k2 :: rest2) = pre ++ [k] := by simp
      rw [e1] at hn'
      simp only [hn', isGroup_not_del hg', Bool.false_eq_true, if_false]
      apply ih (pre ++ [k]) n' n (by simp) hg'
      · simpa using hget
      · intro i hi hlt
        obtain ⟨m, hm, hgm⟩ := hpre (i + 1) (by omega) (by simp at hlt ⊢; omega)
        refine ⟨m, ?_, hgm⟩
        simpa [List.take_succ_cons] using hm

/-- on a parent-closed single container without deletion markers an existing entry is found -/
theorem look_single_found (c : Cont V) (hpc : PC c) (hnd : NoDel c) (q : Path) (n : RNode V)
    (hq : q ≠ []) (h : aget q c = some n) : look [c] q = .found 0 n := by
  unfold look
  apply lookFrom_single c hnd q [] vnode n hq (by simp [vnode, RKind.isGroup])
  · simpa using h
  · intro i _ hlt
    obtain ⟨n', hn', hg⟩ := hpc q n h i hlt
    exact ⟨n', by simpa using hn', hg⟩

/-- walking towards a missing child of an existing group stops at the parent -/
theorem lookFrom_single_part (c : Cont V) :
    ∀ (rest pre : Path) (cur : RNode V) (k : Key),
      cur.kind.isGroup = true →
      aget (pre ++ rest ++ [k]) c = none →
      (∀ i, 0 < i → i ≤ rest.length → ∃ n', aget (pre ++ rest.take i) c = some n' ∧ n'.kind.isGroup = true) →
      lookFrom [c] pre 0 cur (rest ++ [k]) = .part (pre ++ rest) [k] := by
  intro rest
  induction rest with
  | nil =>
    intro pre cur k hcur hnone _
    have : aget (pre ++ [k]) c = none := by simpa using hnone
    simp [lookFrom, hcur, child_single, this]
  | cons k1 rest ih =>
    intro pre cur k hcur hnone hpre
    obtain ⟨n', hn', hg'⟩ := hpre 1 (by omega) (by simp)
    have e1 : pre ++ List.take 1 (k1 :: rest) = pre ++ [k1] := by simp
    rw [e1] at hn'
    simp only [List.cons_append, lookFrom, hcur, if_true, child_single, hn', isGroup_not_del hg',
      Bool.false_eq_true, if_false]
    have := ih (pre ++ [k1]) n' k hg' (by simpa using hnone) (by
      intro i hi hle
      obtain ⟨m, hm, hgm⟩ := hpre (i + 1) (by omega) (by simp; omega)
      exact ⟨m, by simpa [List.take_succ_cons] using hm, hgm⟩)
    simpa using this

theorem look_single_part (c : Cont V) (hpc : PC c) (par : Path) (k : Key)
    (hpar : par = [] ∨ ∃ np, aget par c = some np ∧ np.kind.isGroup = true)
    (hnone : aget (par ++ [k]) c = none) : look [c] (par ++ [k]) = .part par [k] := by
  unfold look
  have := lookFrom_single_part c par [] vnode k (by simp [vnode, RKind.isGroup])
    (by simpa using hnone) (by
      intro i hi hle
      rcases hpar with rfl | ⟨np, hnp, hg⟩
      · simp at hle; omega
      · by_cases hfull : i = par.length
        · subst hfull
          exact ⟨np, by simpa using hnp, hg⟩
        · obtain ⟨n', hn', hg'⟩ := hpc par np hnp i (by omega)
          exact ⟨n', by simpa using hn', hg'⟩)
  simpa using this

/-! ## paths -/

theorem isPre_iff_take : ∀ (a b : Path), isPre a b = true ↔ a.length ≤ b.length ∧ b.take a.length = a
  | [], b => by simp [isPre]
  | x :: xs, [] => by simp [isPre]
  | x :: xs, y :: ys => by
    by_cases h : x = y
    · subst h
      simp only [isPre, if_true, isPre_iff_take xs ys, List.length_cons, List.take_succ_cons,
        List.cons.injEq, true_and, Nat.add_le_add_iff_right]
    · simp only [isPre, h, if_false, List.length_cons, List.take_succ_cons, List.cons.injEq]
      constructor
      · intro h'; cases h'
      · rintro ⟨_, h1, _⟩; exact absurd h1.symm h

theorem mem_properPrefixes : ∀ (p q : Path), q ∈ properPrefixes p ↔ ∃ i, i < p.length ∧ q = p.take i
  | [], q => by simp [properPrefixes]
  | k :: rest, q => by
    simp only [properPrefixes, List.mem_cons, List.mem_map, mem_properPrefixes rest, List.length_cons]
    constructor
    · rintro (rfl | ⟨q', ⟨i, hi, rfl⟩, rfl⟩)
      · exact ⟨0, by omega, by simp⟩
      · exact ⟨i + 1, by omega, by simp⟩
    · rintro ⟨i, hi, rfl⟩
      cases i with
      | zero => left; simp
      | succ j => right; exact ⟨rest.take j, ⟨j, by omega, rfl⟩, by simp⟩

theorem mem_aget {α : Type} (m : List (Path × α)) (e : Path × α) (h : e ∈ m) : ∃ a, aget e.1 m = some a := by
  induction m with
  | nil => cases h
  | cons x xs ih =>
    obtain ⟨k, v⟩ := x
    by_cases hk : k = e.1
    · exact ⟨v, by simp [aget, hk]⟩
    · rcases List.mem_cons.mp h with rfl | h'
      · exact absurd rfl hk
      · obtain ⟨a, ha⟩ := ih h'
        exact ⟨a, by simp [aget, hk, ha]⟩

/-! ## well-formed single containers and the effect of writes below an existing parent -/

structure Good (c : Cont V) : Prop where
  pc : PC c
  nodel : NoDel c
  root : ∃ n, aget [] c = some n ∧ n.kind.isGroup = true

theorem good_init : Good (Cont.init : Cont V) := by
  refine ⟨?_, ?_, ⟨vnode, by simp [Cont.init, aget], by simp [vnode, RKind.isGroup]⟩⟩
  · intro q n h i hi
    simp only [Cont.init, aget] at h
    split at h
    · rename_i hq; subst hq; simp at hi
    · cases h
  · intro q n h
    simp only [Cont.init, aget] at h
    split at h
    · cases h; simp [vnode, RKind.isDel]
    · cases h

/-- all proper prefixes of `par ++ [k]` are present as groups -/
theorem prefixes_present (c : Cont V) (g : Good c) (par : Path) (k : Key) (np : RNode V)
    (hnp : aget par c = some np) (hg : np.kind.isGroup = true) :
    ∀ q ∈ properPrefixes (par ++ [k]), ∃ n, aget q c = some n ∧ n.kind.isGroup = true := by
  intro q hq
  obtain ⟨i, hi, rfl⟩ := (mem_properPrefixes _ _).mp hq
  simp only [List.length_append, List.length_cons, List.length_nil] at hi
  by_cases hfull : i = par.length
  · subst hfull
    exact ⟨np, by simpa using hnp, hg⟩
  · have hlt : i < par.length := by omega
    obtain ⟨n', hn', hg'⟩ := g.pc par np hnp i hlt
    refine ⟨n', ?_, hg'⟩
    rw [List.take_append_of_le_length (by omega)]
    exact hn'

theorem ensureAll_noop {α : Type} (d : α) (qs : List Path) (m : List (Path × α))
    (h : ∀ q ∈ qs, ∃ a, aget q m = some a) : ensureAll d qs m = m := by
  induction qs with
  | nil => rfl
  | cons q qs ih =>
    obtain ⟨a, ha⟩ := h q (by simp)
    simp only [ensureAll, ha]
    exact ih (fun q' hq' => h q' (by simp [hq']))

theorem createNode_single (c : Cont V) (g : Good c) (par : Path) (k : Key) (np n : RNode V)
    (hnp : aget par c = some np) (hg : np.kind.isGroup = true)
    (hnone : aget (par ++ [k]) c = none) :
    Raw.createNode c (par ++ [k]) n = .ok (aput (par ++ [k]) n c) := by
  have hp := prefixes_present c g par k np hnp hg
  have hanc : ancOk c (par ++ [k]) = true := by
    simp only [ancOk, List.all_eq_true]
    intro q hq
    obtain ⟨m, hm, hgm⟩ := hp q hq
    simp [hm, hgm]
  have hens : ensure vnode (par ++ [k]) c = c :=
    ensureAll_noop _ _ _ (fun q hq => by obtain ⟨m, hm, _⟩ := hp q hq; exact ⟨m, hm⟩)
  simp [Raw.createNode, hnone, hanc, hens]

/-- adding a non-deleted node below an existing group keeps the container well-formed -/
theorem good_aput_new (c : Cont V) (g : Good c) (par : Path) (k : Key) (np n : RNode V)
    (hnp : aget par c = some np) (hg : np.kind.isGroup = true)
    (hnone : aget (par ++ [k]) c = none) (hn : n.kind.isDel = false) :
    Good (aput (par ++ [k]) n c) := by
  have hp := prefixes_present c g par k np hnp hg
  -- a present path is never the fresh one
  have hne : ∀ q m, aget q c = some m → q ≠ par ++ [k] := by
    intro q m hq he; rw [he, hnone] at hq; cases hq
  refine ⟨?_, ?_, ?_⟩
  · intro q m hq i hi
    rw [aget_aput] at hq
    by_cases hqe : q = par ++ [k]
    · subst hqe
      obtain ⟨m', hm', hgm'⟩ := hp _ ((mem_properPrefixes _ _).mpr ⟨i, hi, rfl⟩)
      exact ⟨m', by rw [aget_aput_other _ _ _ _ (hne _ _ hm')]; exact hm', hgm'⟩
    · simp only [hqe, if_false] at hq
      obtain ⟨m', hm', hgm'⟩ := g.pc q m hq i hi
      exact ⟨m', by rw [aget_aput_other _ _ _ _ (hne _ _ hm')]; exact hm', hgm'⟩
  · intro q m hq
    rw [aget_aput] at hq
    by_cases hqe : q = par ++ [k]
    · simp only [hqe, if_true, Option.some.injEq] at hq; subst hq; exact hn
    · simp only [hqe, if_false] at hq; exact g.nodel q m hq
  · obtain ⟨r, hr, hgr⟩ := g.root
    exact ⟨r, by rw [aget_aput_other _ _ _ _ (hne _ _ hr)]; exact hr, hgr⟩

/-- replacing the attributes of an existing node keeps the container well-formed -/
theorem good_aput_attrs (c : Cont V) (g : Good c) (q : Path) (n : RNode V) (as : List (Key × Option V))
    (hq : aget q c = some n) : Good (aput q { n with attrs := as } c) := by
  refine ⟨?_, ?_, ?_⟩
  · intro q' m hq' i hi
    rw [aget_aput] at hq'
    have hsrc : ∃ m0, aget q' c = some m0 := by
      by_cases hqe : q' = q
      · subst hqe; exact ⟨n, hq⟩
      · simp only [hqe, if_false] at hq'; exact ⟨m, hq'⟩
    obtain ⟨m0, hm0⟩ := hsrc
    obtain ⟨m', hm', hgm'⟩ := g.pc q' m0 hm0 i hi
    rw [aget_aput]
    by_cases he : q'.take i = q
    · rw [he] at hm'
      rw [hq] at hm'; cases hm'
      exact ⟨{ n with attrs := as }, by simp [he], hgm'⟩
    · exact ⟨m', by simp [he, hm'], hgm'⟩
  · intro q' m hq'
    rw [aget_aput] at hq'
    by_cases hqe : q' = q
    · simp only [hqe, if_true, Option.some.injEq] at hq'; subst hq'
      exact g.nodel q n hq
    · simp only [hqe, if_false] at hq'; exact g.nodel q' m hq'
  · obtain ⟨r, hr, hgr⟩ := g.root
    rw [aget_aput]
    by_cases he : [] = q
    · subst he; rw [hq] at hr; cases hr
      exact ⟨{ n with attrs := as }, by simp, hgr⟩
    · exact ⟨r, by simp [he, hr], hgr⟩

theorem isDelAt_none (c : Cont V) (p : Path) (h : aget p c = none) : isDelAt c p = false := by
  simp [isDelAt, h]

/-- `create_group` of a missing child of an existing group in a single-container record -/
theorem createGroup_single (c : Cont V) (g : Good c) (par : Path) (k : Key) (np : RNode V)
    (hnp : aget par c = some np) (hg : np.kind.isGroup = true)
    (hnone : aget (par ++ [k]) c = none) :
    W.createGroup [c] (par ++ [k]) = .ok [aput (par ++ [k]) vnode c] := by
  have hl := look_single_part c g.pc par k (Or.inr ⟨np, hnp, hg⟩) hnone
  have hc := createNode_single c g par k np vnode hnp hg hnone
  simp [W.createGroup, hl, W.createGroupAt, isDelAt_none c _ hnone, Raw.createGroup, hc, Functor.map, Except.map, bind, Except.bind, pure, Except.pure]

theorem removeSub_aput_fresh (c : Cont V) (g : Good c) (p : Path) (n : RNode V)
    (hnone : aget p c = none) : removeSub p (aput p n c) = c := by
  -- `aput` of an absent key appends, and nothing in `c` lies at or below `p`
  have happ : aput p n c = c ++ [(p, n)] := by
    clear g
    induction c with
    | nil => simp [aput]
    | cons e es ih =>
      obtain ⟨k', v'⟩ := e
      by_cases hk : k' = p
      · simp [aget, hk] at hnone
      · simp only [aget, hk, if_false] at hnone
        simp [aput, hk, ih hnone]
  rw [happ, removeSub, List.filter_append]
  have h1 : (c.filter fun e => !(isPre p e.1)) = c := by
    apply List.filter_eq_self.mpr
    intro e he
    obtain ⟨a, ha⟩ := mem_aget c e he
    cases hpre : isPre p e.1
    · rfl
    · exfalso
      obtain ⟨hle, htake⟩ := (isPre_iff_take p e.1).mp hpre
      by_cases hlen : p.length = e.1.length
      · have : e.1 = p := by rw [← htake, hlen, List.take_length]
        rw [this, hnone] at ha; cases ha
      · obtain ⟨m, hm, _⟩ := g.pc e.1 a ha p.length (by omega)
        rw [htake, hnone] at hm; cases hm
  have h2 : ([(p, n)].filter fun e => !(isPre p e.1)) = [] := by
    have : isPre p p = true := (isPre_iff_take p p).mpr ⟨Nat.le_refl _, List.take_length⟩
    simp [this]
  rw [h1, h2, List.append_nil]

/-- `create_dataset` at a missing child of an existing group in a single-container record -/
theorem createDataset_single (c : Cont V) (g : Good c) (par : Path) (k : Key) (np : RNode V) (v : V)
    (hnp : aget par c = some np) (hg : np.kind.isGroup = true)
    (hnone : aget (par ++ [k]) c = none) :
    W.createDataset [c] (par ++ [k]) v = .ok [aput (par ++ [k]) ⟨.data v, []⟩ c] := by
  have hl := look_single_part c g.pc par k (Or.inr ⟨np, hnp, hg⟩) hnone
  have hcg := createGroup_single c g par k np hnp hg hnone
  have hc := createNode_single c g par k np ⟨.data v, []⟩ hnp hg hnone
  have hrm := removeSub_aput_fresh c g (par ++ [k]) vnode hnone
  simp [W.createDataset, hl, isDelAt_none c _ hnone, hnone, W.createVirtual, hcg, aget_aput_same,
    hrm, hc, Functor.map, Except.map, bind, Except.bind, pure, Except.pure]

theorem setAttrRaw_single (c : Cont V) (p : Path) (n : RNode V) (k : Key) (v : Option V)
    (hp : aget p c = some n) :
    W.setAttrRaw [c] p k v = .ok [aput p { n with attrs := aput k v n.attrs } c] := by
  simp [W.setAttrRaw, hp, Raw.setAttr, Functor.map, Except.map, bind, Except.bind, pure, Except.pure]

/-! ## copying attributes and replaying a listing into a single container -/

/-- attribute map after `copy_attrs` -/
def putAll (as : List (Key × V)) (m : List (Key × Option V)) : List (Key × Option V) :=
  as.foldl (fun m kv => aput kv.1 (some kv.2) m) m

theorem aput_aput_same {κ β : Type} [DecidableEq κ] (k : κ) (v1 v2 : β) (m : List (κ × β)) :
    aput k v2 (aput k v1 m) = aput k v2 m := by
  induction m with
  | nil => simp [aput]
  | cons e es ih =>
    obtain ⟨k', v'⟩ := e
    by_cases h : k' = k
    · simp [aput, h]
    · simp [aput, h, ih]

theorem copyAttrs_single (as : List (Key × V)) :
    ∀ (c : Cont V) (p : Path) (n : RNode V), aget p c = some n →
      W.copyAttrs [c] p as = .ok [aput p { n with attrs := putAll as n.attrs } c] := by
  induction as with
  | nil =>
    intro c p n hp
    simp only [W.copyAttrs, putAll, List.foldl_nil]
    have : aput p { n with attrs := n.attrs } c = c := by
      clear as
      induction c with
      | nil => simp [aget] at hp
      | cons e es ih =>
        obtain ⟨k', v'⟩ := e
        by_cases hk : k' = p
        · simp only [aget, hk, if_true, Option.some.injEq] at hp
          subst hp; simp [aput, hk]
        · simp only [aget, hk, if_false] at hp
          simp [aput, hk, ih hp]
    rw [this]
  | cons kv more ih =>
    intro c p n hp
    obtain ⟨k, v⟩ := kv
    simp only [W.copyAttrs, setAttrRaw_single c p n k (some v) hp, bind, Except.bind]
    rw [ih _ p { n with attrs := aput k (some v) n.attrs } (aget_aput_same _ _ _)]
    simp [putAll, aput_aput_same]

def rawKind : NKind V → RKind V
  | .group => .vgroup
  | .data v => .data v

theorem rawKind_notDel (kd : NKind V) : (rawKind kd).isDel = false := by
  cases kd <;> simp [rawKind, RKind.isDel]

theorem plainKind_rawKind (kd : NKind V) : plainKind (rawKind kd) = some kd := by
  cases kd <;> simp [rawKind, plainKind]

/-- what one replayed listing entry does to the container -/
def apply1 (c : Cont V) (e : Path × NKind V × List (Key × V)) : Cont V :=
  aput e.1 ⟨rawKind e.2.1, putAll e.2.2 []⟩ c

/-- the entry can be replayed: its parent is an existing group and the path itself is fresh -/
def StepOk (c : Cont V) (e : Path × NKind V × List (Key × V)) : Prop :=
  ∃ par k np, e.1 = par ++ [k] ∧ aget par c = some np ∧ np.kind.isGroup = true ∧ aget e.1 c = none

/-- parents-first, duplicate-free sequence of entries relative to a starting container -/
def Chain : Cont V → List (Path × NKind V × List (Key × V)) → Prop
  | _, [] => True
  | c, e :: more => StepOk c e ∧ Chain (apply1 c e) more

theorem step_single (c : Cont V) (g : Good c) (e : Path × NKind V × List (Key × V)) (h : StepOk c e) :
    (do
      let r1 ← (match e.2.1 with
        | .group => W.createGroup [c] e.1
        | .data v => W.createDataset [c] e.1 v)
      match look r1 e.1 with
        | .found _ _ => W.copyAttrs r1 e.1 e.2.2
        | _ => .error .missing) = .ok [apply1 c e] ∧ Good (apply1 c e) := by
  obtain ⟨par, k, np, hq, hnp, hg, hnone⟩ := h
  obtain ⟨q, kd, as⟩ := e
  simp only at hq hnone ⊢
  subst hq
  have hne : par ++ [k] ≠ [] := by simp
  have hgood : ∀ n : RNode V, n.kind.isDel = false → Good (aput (par ++ [k]) n c) :=
    fun n hn => good_aput_new c g par k np n hnp hg hnone hn
  cases kd with
  | group =>
    have g1 := hgood vnode (by simp [vnode, RKind.isDel])
    have hl := look_single_found _ g1.pc g1.nodel (par ++ [k]) vnode hne (aget_aput_same _ _ _)
    have hca := copyAttrs_single as (aput (par ++ [k]) vnode c) (par ++ [k]) vnode (aget_aput_same _ _ _)
    refine ⟨?_, ?_⟩
    · simp [createGroup_single c g par k np hnp hg hnone, bind, Except.bind, hl, hca, apply1,
        rawKind, aput_aput_same, vnode]
    · simpa [apply1, rawKind] using hgood ⟨.vgroup, putAll as []⟩ (by simp [RKind.isDel])
  | data v =>
    have g1 := hgood ⟨.data v, []⟩ (by simp [RKind.isDel])
    have hl := look_single_found _ g1.pc g1.nodel (par ++ [k]) ⟨.data v, []⟩ hne (aget_aput_same _ _ _)
    have hca := copyAttrs_single as (aput (par ++ [k]) ⟨.data v, []⟩ c) (par ++ [k]) ⟨.data v, []⟩
      (aget_aput_same _ _ _)
    refine ⟨?_, ?_⟩
    · simp [createDataset_single c g par k np v hnp hg hnone, bind, Except.bind, hl, hca, apply1,
        rawKind, aput_aput_same]
    · simpa [apply1, rawKind] using hgood ⟨.data v, putAll as []⟩ (by simp [RKind.isDel])

theorem replay_single (l : List (Path × NKind V × List (Key × V))) :
    ∀ (c : Cont V), Good c → Chain c l →
      W.replay [] [] [c] l = .ok [l.foldl apply1 c] ∧ Good (l.foldl apply1 c) := by
  induction l with
  | nil => intro c g _; exact ⟨by simp [W.replay], g⟩
  | cons e more ih =>
    intro c g hch
    obtain ⟨hs, hmore⟩ := hch
    obtain ⟨h1, g1⟩ := step_single c g e hs
    obtain ⟨h2, g2⟩ := ih (apply1 c e) g1 hmore
    refine ⟨?_, by simpa using g2⟩
    obtain ⟨q, kd, as⟩ := e
    simp only [W.replay, List.nil_append, List.length_nil, List.drop_zero, List.foldl_cons]
    simp only [bind, Except.bind] at h1 ⊢
    -- the two monadic steps of the loop body are the ones of `step_single`
    revert h1
    cases kd <;> simp only <;> intro h1
    all_goals
      split at h1
      · cases h1
      · rename_i r1 hr1
        simp only [hr1]
        split at h1
        · rename_i _ _ hlk
          simp only [hlk, h1]
          exact h2
        · cases h1

end MetadorModel.Single
