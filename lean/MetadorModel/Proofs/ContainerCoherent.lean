import MetadorModel.Proofs.ContainerDrvDefs
import MetadorModel.Proofs.ContainerMove
import MetadorModel.Proofs.ContainerReload
/-!
# Cache coherence in the form used by C09 (`CachesEqv`, including the private `_used` table for
packages that currently provide a schema), for every state reachable by well-formed operations
-/
namespace MetadorModel.Container

theorem optRel_memEq_of {α : Type} {o o' : Option (List α)} (hd : o.isSome = o'.isSome)
    (hm : ∀ l l', o = some l → o' = some l' → ∀ x, x ∈ l ↔ x ∈ l') : OptRel MemEq o o' := by
  cases o with
  | none =>
    cases o' with
    | none => exact .none
    | some l' => cases hd
  | some l =>
    cases o' with
    | none => cases hd
    | some l' => exact .some (hm l l' rfl rfl)

/-- the cache specification determines the caches up to `CachesEqv` -/
theorem cachesEqv_of_spec {e : Env} {L : Path → SRef → Nat → Prop} {U : SRef → Prop} {c c' : Caches}
    (h1 : SchemaCache e U c) (l1 : LinkCache L c) (h2 : SchemaCache e U c') (l2 : LinkCache L c') :
    CachesEqv c c' := by
  have hq := cachesEq_of_spec h1 l1 h2 l2
  refine ⟨hq.tocPath, hq.parents, hq.pkginfos, hq.providers, hq.schemas, fun r => ?_, fun r pk hpk => ?_⟩
  · refine optRel_memEq_of (hq.children_dom r) ?_
    intro l l' hl hl' x
    have := hq.children r x
    rw [hl, hl'] at this
    simpa using this
  · -- `pk` provides `r`, hence is registered: both tables have an entry with the schemas in use
    have hreg : RegP e U pk := by
      cases hg : alGet c.providers r with
      | none => rw [hg] at hpk; simp at hpk
      | some ps =>
        obtain ⟨pk', rfl, hreg, -⟩ := (h1.providers r ps).mp hg
        rw [hg] at hpk
        simp at hpk
        rw [hpk]; exact hreg
    refine optRel_memEq_of ?_ ?_
    · rw [Option.isSome_iff_exists.mpr (alGet_some_of_isSome (h1.used_dom pk hreg)),
        Option.isSome_iff_exists.mpr (alGet_some_of_isSome (h2.used_dom pk hreg))]
    · intro l l' hl hl' x
      rw [(h1.used_val pk l hl).2 x, (h2.used_val pk l' hl').2 x]

theorem reload_cachesEqv {e : Env} (he : WFEnv e) {s : St} (hi : Inv e s) : CachesEqv (reload s.raw) s.c := by
  have h := reload_inv he hi
  exact cachesEqv_of_spec h.scache h.lcache hi.scache hi.lcache

/-- reachable from a fresh container by operations whose paths have no empty names -/
def ReachableOK (e : Env) (s : St) : Prop := ∃ h, (∀ op ∈ h, OpOK op) ∧ s = run e initSt h

/-- cache coherence (in the sense of C09's `CacheCoherent`) for all well-formed histories -/
theorem cacheCoherent_ok {e : Env} (he : WFEnv e) : ∀ s, ReachableOK e s → CachesEqv (reload s.raw) s.c := by
  rintro s ⟨h, hok, rfl⟩
  exact reload_cachesEqv he (run_inv he h initSt (init_inv e) hok)

end MetadorModel.Container
