import MetadorModel.Proofs.ContainerTree
import Mathlib.Data.List.Infix
/-!
# `raw.copy` and `raw.move` of the container model, point-wise
-/
namespace MetadorModel.Container

theorem lookup_append (a b : Tree) (q : Path) :
    lookup (a ++ b) q = match lookup a q with
      | some n => some n
      | none => lookup b q := by
  induction a with
  | nil => rfl
  | cons x a ih =>
    obtain ⟨p, n⟩ := x
    simp only [List.cons_append, lookup]
    split_ifs
    · rfl
    · exact ih

theorem rebase_eq (src dst q : Path) : rebase src dst q = dst ++ q.drop src.length := rfl

/-- `q = src ++ c` and `x = dst ++ c` describe the same relative position -/
theorem rebase_eq_iff {src dst p q : Path} (hp : src <+: p) (hq : dst <+: q) :
    dst ++ p.drop src.length = q ↔ p = src ++ q.drop dst.length := by
  obtain ⟨a, rfl⟩ := hp
  obtain ⟨b, rfl⟩ := hq
  simp

theorem lookup_rebase (t : Tree) (src dst q : Path) :
    lookup ((t.filter fun e => under src e.1).map fun e => (rebase src dst e.1, e.2)) q =
      if dst <+: q then lookup t (src ++ q.drop dst.length) else none := by
  induction t with
  | nil => simp [lookup]
  | cons x t ih =>
    obtain ⟨p, n⟩ := x
    by_cases hu : under src p = true
    · have hp := under_iff.mp hu
      simp only [List.filter_cons, hu, if_true, List.map_cons, lookup]
      rw [ih]
      by_cases hq : dst <+: q
      · simp only [hq, if_true, rebase_eq, rebase_eq_iff hp hq]
      · simp only [hq, if_false]
        rw [if_neg]
        rw [rebase_eq]
        rintro rfl
        exact hq (List.prefix_append _ _)
    · have hu' : under src p = false := by simpa using hu
      simp only [List.filter_cons, hu', Bool.false_eq_true, if_false, lookup]
      rw [ih]
      by_cases hq : dst <+: q
      · simp only [hq, if_true]
        rw [if_neg]
        rintro rfl
        exact hu (under_iff.mpr (List.prefix_append _ _))
      · simp [hq]

theorem rawCopy_inv {t t' : Tree} {src dst : Path} (h : rawCopy t src dst = .ok t') :
    src ≠ [] ∧ dst ≠ [] ∧ get? t src ≠ none ∧ get? t dst = none ∧
      ∃ t1, mkParents t [] dst = .ok t1 ∧
        t' = ((t.filter fun e => under src e.1).map fun e => (rebase src dst e.1, e.2)) ++ t1 := by
  unfold rawCopy at h
  by_cases h1 : src = []
  · simp [h1] at h
  · by_cases h2 : dst = []
    · simp [h2] at h
    · simp only [h1, h2, Bool.or_self, Bool.false_eq_true, if_false] at h
      cases h3 : has t src with
      | false => simp [h3] at h
      | true =>
        simp only [h3, Bool.not_true, Bool.false_eq_true, if_false] at h
        cases h4 : has t dst with
        | true => simp [h4] at h
        | false =>
          simp only [h4, Bool.false_eq_true, if_false] at h
          cases hm : mkParents t [] dst with
          | error err => simp [hm] at h
          | ok t1 =>
            simp only [hm] at h
            cases h
            exact ⟨h1, h2, has_iff.mp h3, has_false_iff.mp h4, t1, rfl, rfl⟩

/-- nothing exists at or below a free name of a parent-closed tree -/
theorem none_below_free {t : Tree} (hc : PClosed t) {dst q : Path} (hfree : get? t dst = none)
    (hq : dst <+: q) : get? t q = none := by
  by_cases he : q = dst
  · rw [he]; exact hfree
  · by_contra hne
    obtain ⟨b, rfl⟩ := hq
    have hb : b ≠ [] := by rintro rfl; simp at he
    -- `dst` would be a group
    have : ∀ (b : Path) (a : Path), get? t (a ++ b) ≠ none → b ≠ [] → get? t a = some .grp := by
      intro b
      induction b using List.reverseRecOn with
      | nil => intro a _ h; exact absurd rfl h
      | append_singleton b k ih =>
        intro a hg _
        have h1 : get? t (a ++ b) = some .grp := hc (a ++ b) k (by simpa [List.append_assoc] using hg)
        by_cases hb : b = []
        · subst hb; simpa using h1
        · exact ih a (by rw [h1]; simp) hb
    rw [this b dst hne hb] at hfree; cases hfree

theorem not_isMid_of_prefix {dst q : Path} (hq : dst <+: q) : isMid [] dst q = false := by
  cases hm : isMid [] dst q with
  | false => rfl
  | true =>
    obtain ⟨-, hpre, hne⟩ := isMid_nil_iff.mp hm
    exact absurd (List.IsPrefix.eq_of_length_le hpre hq.length_le) hne

/-- lookups after `raw.copy(src, dst)` -/
theorem rawCopy_get? {t t' : Tree} {src dst : Path} (h : rawCopy t src dst = .ok t') (hc : PClosed t)
    (q : Path) (hq : q ≠ []) :
    get? t' q = if dst <+: q then get? t (src ++ q.drop dst.length) else
      match get? t q with
      | some x => some x
      | none => if isMid [] dst q then some .grp else none := by
  obtain ⟨hs, hd, -, hfree, t1, h1, rfl⟩ := rawCopy_inv h
  rw [get?_ne_nil hq, lookup_append, lookup_rebase, ← get?_ne_nil (t := t1) hq, mkParents_get? _ _ _ _ h1 q hq]
  by_cases hpre : dst <+: q
  · simp only [hpre, if_true]
    have hsq : src ++ q.drop dst.length ≠ [] := by simp [hs]
    rw [get?_ne_nil hsq]
    cases lookup t (src ++ q.drop dst.length) with
    | some n => rfl
    | none => simp [none_below_free hc hfree hpre, not_isMid_of_prefix hpre]
  · simp only [hpre, if_false]
    cases get? t q <;> rfl

theorem rebase_injOn {src dst p p' : Path} (hp : src <+: p) (hp' : src <+: p')
    (h : rebase src dst p = rebase src dst p') : p = p' := by
  obtain ⟨a, rfl⟩ := hp
  obtain ⟨b, rfl⟩ := hp'
  simp [rebase_eq] at h
  rw [h]

theorem rawCopy_keys {t t' : Tree} {src dst : Path} (h : rawCopy t src dst = .ok t') (hk : KeysOK t)
    (hc : PClosed t) : KeysOK t' := by
  obtain ⟨hs, hd, -, hfree, t1, h1, rfl⟩ := rawCopy_inv h
  have hk1 := mkParents_keys _ _ _ _ h1 hk
  constructor
  · rw [List.map_append, List.nodup_append]
    refine ⟨?_, hk1.nodup, ?_⟩
    · rw [List.map_map]
      have : ((t.filter fun e => under src e.1).map Prod.fst).Nodup :=
        hk.nodup.sublist ((List.filter_sublist).map Prod.fst)
      rw [show (Prod.fst ∘ fun e : Path × Node => (rebase src dst e.1, e.2)) = (rebase src dst ∘ Prod.fst) from rfl,
        ← List.map_map]
      refine List.Nodup.map_on ?_ this
      intro p hp p' hp' heq
      obtain ⟨⟨_, n⟩, hm, rfl⟩ := List.mem_map.mp hp
      obtain ⟨⟨_, n'⟩, hm', rfl⟩ := List.mem_map.mp hp'
      exact rebase_injOn (under_iff.mp (by simpa using (List.mem_filter.mp hm).2))
        (under_iff.mp (by simpa using (List.mem_filter.mp hm').2)) heq
    · -- copies live below `dst`, where the old tree has nothing
      intro x hx y hy hxy
      subst hxy
      obtain ⟨⟨p, n⟩, hm, rfl⟩ := List.mem_map.mp hx
      obtain ⟨⟨p0, n0⟩, _, hpe⟩ := List.mem_map.mp hm
      simp only [Prod.mk.injEq] at hpe
      obtain ⟨⟨q, m⟩, hm1, hq⟩ := List.mem_map.mp hy
      simp only at hq
      subst hq
      have hpre : dst <+: q := by rw [← hpe.1, rebase_eq]; exact List.prefix_append _ _
      have hq0 : q ≠ [] := fun h => hk1.noroot m (h ▸ hm1)
      have := ((mem_iff_get? hk1).mp hm1).2
      rw [mkParents_get? _ _ _ _ h1 q hq0, none_below_free hc hfree hpre, not_isMid_of_prefix hpre] at this
      simp at this
  · intro n hm
    rcases List.mem_append.mp hm with hm | hm
    · obtain ⟨⟨p, n'⟩, _, hpe⟩ := List.mem_map.mp hm
      simp only [Prod.mk.injEq, rebase_eq] at hpe
      have := hpe.1
      simp at this
      exact hd this.1
    · exact hk1.noroot n hm

/-! ### `raw.move` -/

theorem rawMove_inv {t t' : Tree} {src dst : Path} (h : rawMove t src dst = .ok t') :
    src ≠ [] ∧ dst ≠ [] ∧ get? t src ≠ none ∧ get? t dst = none ∧ ¬ src <+: dst ∧
      ∃ t1, mkParents t [] dst = .ok t1 ∧
        t' = t1.map fun e => if under src e.1 then (rebase src dst e.1, e.2) else e := by
  unfold rawMove at h
  by_cases h1 : src = []
  · simp [h1] at h
  · by_cases h2 : dst = []
    · simp [h2] at h
    · simp only [h1, h2, Bool.or_self, Bool.false_eq_true, if_false] at h
      cases h3 : has t src with
      | false => simp [h3] at h
      | true =>
        simp only [h3, Bool.not_true, Bool.false_eq_true, if_false] at h
        cases h4 : has t dst with
        | true => simp [h4] at h
        | false =>
          simp only [h4, Bool.false_eq_true, if_false] at h
          cases h5 : under src dst with
          | true => simp [h5] at h
          | false =>
            simp only [h5, Bool.false_eq_true, if_false] at h
            cases hm : mkParents t [] dst with
            | error err => simp [hm] at h
            | ok t1 =>
              simp only [hm] at h
              cases h
              refine ⟨h1, h2, has_iff.mp h3, has_false_iff.mp h4, fun hp => ?_, t1, rfl, rfl⟩
              rw [under_iff.mpr hp] at h5; cases h5

theorem lookup_move (src dst : Path) : ∀ (t1 : Tree) (q : Path), (∀ x, dst <+: x → lookup t1 x = none) →
    lookup (t1.map fun e => if under src e.1 then (rebase src dst e.1, e.2) else e) q =
      if dst <+: q then lookup t1 (src ++ q.drop dst.length) else if src <+: q then none else lookup t1 q
  | [], q, _ => by simp [lookup]
  | (p, n) :: t1, q, hfree => by
    have hfree' : ∀ x, dst <+: x → lookup t1 x = none := by
      intro x hx
      have := hfree x hx
      simp only [lookup] at this
      split_ifs at this
      exact this
    have hpd : ¬ dst <+: p := by
      intro hp
      have := hfree p hp
      simp [lookup] at this
    have ih := lookup_move src dst t1 q hfree'
    by_cases hu : under src p = true
    · have hp := under_iff.mp hu
      simp only [List.map_cons, hu, if_true, lookup]
      rw [ih]
      by_cases hq : dst <+: q
      · simp only [hq, if_true, rebase_eq, rebase_eq_iff hp hq]
      · simp only [hq, if_false]
        have e1 : ¬ rebase src dst p = q := by
          rw [rebase_eq]; rintro rfl; exact hq (List.prefix_append _ _)
        rw [if_neg e1]
        by_cases hsq : src <+: q
        · simp [hsq]
        · simp only [hsq, if_false]
          rw [if_neg]; rintro rfl; exact hsq hp
    · have hu' : ¬ src <+: p := fun h => hu (under_iff.mpr h)
      simp only [List.map_cons, hu, lookup]
      rw [ih]
      by_cases hq : dst <+: q
      · simp only [hq, if_true]
        have e1 : ¬ p = q := by rintro rfl; exact hpd hq
        have e2 : ¬ p = src ++ q.drop dst.length := by rintro rfl; exact hu' (List.prefix_append _ _)
        simp [e1, e2]
      · simp only [hq, if_false]
        by_cases hsq : src <+: q
        · have e1 : ¬ p = q := by rintro rfl; exact hu' hsq
          simp [hsq, e1]
        · simp [hsq]

/-- lookups after `raw.move(src, dst)` -/
theorem rawMove_get? {t t' : Tree} {src dst : Path} (h : rawMove t src dst = .ok t') (hc : PClosed t)
    (q : Path) (hq : q ≠ []) :
    get? t' q = if dst <+: q then get? t (src ++ q.drop dst.length) else if src <+: q then none else
      match get? t q with
      | some x => some x
      | none => if isMid [] dst q then some .grp else none := by
  obtain ⟨hs, hd, hsrc, hfree, hnu, t1, h1, rfl⟩ := rawMove_inv h
  have g1 : ∀ x, x ≠ [] → get? t1 x = _ := fun x hx => mkParents_get? _ _ _ _ h1 x hx
  have hfree1 : ∀ x, dst <+: x → lookup t1 x = none := by
    intro x hx
    have hx0 : x ≠ [] := by rintro rfl; exact hd (List.prefix_nil.mp hx)
    rw [← get?_ne_nil hx0, g1 x hx0, none_below_free hc hfree hx, not_isMid_of_prefix hx]
    simp
  rw [get?_ne_nil hq, lookup_move src dst t1 q hfree1]
  by_cases hpre : dst <+: q
  · simp only [hpre, if_true]
    have hsq : src ++ q.drop dst.length ≠ [] := by simp [hs]
    rw [← get?_ne_nil hsq, g1 _ hsq]
    cases hg : get? t (src ++ q.drop dst.length) with
    | some n => rfl
    | none =>
      -- a missing node below `src` is not one of the created parents of `dst`
      cases hm : isMid [] dst (src ++ q.drop dst.length) with
      | false => simp
      | true =>
        exfalso
        obtain ⟨-, hp, -⟩ := isMid_nil_iff.mp hm
        exact hnu ((List.prefix_append _ _).trans hp)
  · simp only [hpre, if_false]
    by_cases hsq : src <+: q
    · simp [hsq]
    · simp only [hsq, if_false]
      rw [← get?_ne_nil hq, g1 q hq]
      cases get? t q <;> rfl

theorem rawMove_keys {t t' : Tree} {src dst : Path} (h : rawMove t src dst = .ok t') (hk : KeysOK t)
    (hc : PClosed t) : KeysOK t' := by
  obtain ⟨hs, hd, hsrc, hfree, hnu, t1, h1, rfl⟩ := rawMove_inv h
  have hk1 := mkParents_keys _ _ _ _ h1 hk
  have hnone : ∀ x n, (x, n) ∈ t1 → ¬ dst <+: x := by
    intro x n hm hx
    have hx0 : x ≠ [] := fun h => hk1.noroot n (h ▸ hm)
    have := ((mem_iff_get? hk1).mp hm).2
    rw [mkParents_get? _ _ _ _ h1 x hx0, none_below_free hc hfree hx, not_isMid_of_prefix hx] at this
    simp at this
  constructor
  · rw [List.map_map]
    have e : (Prod.fst ∘ fun e : Path × Node => if under src e.1 = true then (rebase src dst e.1, e.2) else e) =
        ((fun p => if under src p = true then rebase src dst p else p) ∘ Prod.fst) := by
      funext x; simp only [Function.comp]; split_ifs <;> rfl
    rw [e, ← List.map_map]
    refine List.Nodup.map_on ?_ hk1.nodup
    intro p hp p' hp' heq
    obtain ⟨⟨p0, n⟩, hm, hp0⟩ := List.mem_map.mp hp
    obtain ⟨⟨p1, n'⟩, hm', hp1⟩ := List.mem_map.mp hp'
    simp only at hp0 hp1
    subst hp0; subst hp1
    by_cases h1 : under src p0 = true <;> by_cases h2 : under src p1 = true
    · rw [if_pos h1, if_pos h2] at heq
      exact rebase_injOn (under_iff.mp h1) (under_iff.mp h2) heq
    · rw [if_pos h1, if_neg h2] at heq
      exact absurd (heq ▸ (by rw [rebase_eq]; exact List.prefix_append _ _)) (hnone p1 n' hm')
    · rw [if_neg h1, if_pos h2] at heq
      exact absurd (heq ▸ (by rw [rebase_eq]; exact List.prefix_append _ _) : dst <+: p0) (hnone p0 n hm)
    · rw [if_neg h1, if_neg h2] at heq; exact heq
  · intro n hm
    obtain ⟨⟨p, n'⟩, hm1, hpe⟩ := List.mem_map.mp hm
    by_cases h1 : under src p = true
    · rw [if_pos h1] at hpe
      simp only [Prod.mk.injEq, rebase_eq] at hpe
      have := hpe.1
      simp at this
      exact hd this.1
    · rw [if_neg h1] at hpe
      cases hpe
      exact hk1.noroot n hm1

/-! ### parent-closedness -/

theorem drop_snoc_of_prefix {dst q : Path} (k : Key) (h : dst <+: q) :
    (q ++ [k]).drop dst.length = q.drop dst.length ++ [k] := by
  obtain ⟨c, rfl⟩ := h
  simp

/-- `dst <+: q ++ [k]` means `q ++ [k] = dst` or `dst <+: q` -/
theorem prefix_snoc_iff {dst q : Path} {k : Key} : dst <+: q ++ [k] ↔ (dst = q ++ [k] ∨ dst <+: q) := by
  constructor
  · rintro ⟨c, hc⟩
    cases c using List.reverseRecOn with
    | nil => left; simpa using hc
    | append_singleton c x _ =>
      right
      rw [← List.append_assoc] at hc
      exact ⟨c, (List.append_inj' hc rfl).1⟩
  · rintro (rfl | h)
    · exact List.prefix_refl _
    · exact h.trans (List.prefix_append _ _)

theorem pclosed_of_rebase {t t2 t' : Tree} {src dst : Path} (hc : PClosed t) (hc2 : PClosed t2)
    (hdst : get? t2 dst ≠ none) (hnu : ¬ src <+: dst)
    (hget : ∀ q, q ≠ [] → get? t' q = if dst <+: q then get? t (src ++ q.drop dst.length)
      else if src <+: q then none else get? t2 q)
    (hsrc_or : (∀ q, src <+: q → ¬ dst <+: q → get? t' q = none)) : PClosed t' := by
  intro q k hne
  have hqk : q ++ [k] ≠ [] := by simp
  rw [hget _ hqk] at hne
  by_cases hq0 : q = []
  · subst hq0; simp
  · rw [hget q hq0]
    by_cases hpre : dst <+: q ++ [k]
    · rw [if_pos hpre] at hne
      rcases prefix_snoc_iff.mp hpre with heq | hpre'
      · have hnd : ¬ dst <+: q := by
          intro h
          have := h.length_le
          rw [heq] at this; simp at this; omega
        have hns : ¬ src <+: q := fun h => hnu (heq ▸ h.trans (List.prefix_append _ _))
        rw [if_neg hnd, if_neg hns]
        exact hc2 q k (heq ▸ hdst)
      · rw [if_pos hpre']
        rw [drop_snoc_of_prefix k hpre', ← List.append_assoc] at hne
        exact hc _ k hne
    · rw [if_neg hpre] at hne
      have hnd : ¬ dst <+: q := fun h => hpre (h.trans (List.prefix_append _ _))
      rw [if_neg hnd]
      by_cases hs : src <+: q ++ [k]
      · rw [if_pos hs] at hne; exact absurd rfl hne
      · rw [if_neg hs] at hne
        have hns : ¬ src <+: q := fun h => hs (h.trans (List.prefix_append _ _))
        rw [if_neg hns]
        exact hc2 q k hne

theorem rawCreate_of_free {t t1 : Tree} {dst : Path} (hd : dst ≠ []) (hfree : get? t dst = none)
    (h1 : mkParents t [] dst = .ok t1) (n : Node) : rawCreate t dst n = .ok ((dst, n) :: t1) := by
  simp [rawCreate, hd, has_false_iff.mpr hfree, h1]

theorem rawMove_pclosed {t t' : Tree} {src dst : Path} (h : rawMove t src dst = .ok t') (hc : PClosed t) :
    PClosed t' := by
  obtain ⟨hs, hd, hsrc, hfree, hnu, t1, h1, -⟩ := rawMove_inv h
  have h2 := rawCreate_of_free hd hfree h1 .grp
  refine pclosed_of_rebase (t2 := (dst, .grp) :: t1) hc (rawCreate_pclosed h2 hc)
    (by rw [rawCreate_get? h2 dst hd]; simp) hnu ?_ (fun q h1 h2 => ?_)
  · intro q hq
    rw [rawMove_get? h hc q hq]
    by_cases hpre : dst <+: q
    · simp [hpre]
    · by_cases hsq : src <+: q
      · simp [hpre, hsq]
      · simp only [hpre, hsq, if_false]
        have hqd : ¬ q = dst := by rintro rfl; exact hpre (List.prefix_refl _)
        rw [rawCreate_get? h2 q hq, if_neg hqd]
        cases get? t q <;> rfl
  · have hq : q ≠ [] := by rintro rfl; exact hs (List.prefix_nil.mp h1)
    rw [rawMove_get? h hc q hq]; simp [h1, h2]

/-- lookups after `raw.copy` relative to the tree with `dst` created as an empty group -/
theorem rawCopy_pclosed {t t' : Tree} {src dst : Path} (h : rawCopy t src dst = .ok t') (hc : PClosed t) :
    PClosed t' := by
  obtain ⟨hs, hd, hsrc, hfree, t1, h1, -⟩ := rawCopy_inv h
  have h2 := rawCreate_of_free hd hfree h1 .grp
  have hc2 := rawCreate_pclosed h2 hc
  have g2 : ∀ q, q ≠ [] → ¬ dst <+: q → get? t' q = get? ((dst, Node.grp) :: t1) q := by
    intro q hq hpre
    have hqd : ¬ q = dst := by rintro rfl; exact hpre (List.prefix_refl _)
    rw [rawCopy_get? h hc q hq, if_neg hpre, rawCreate_get? h2 q hq, if_neg hqd]
    cases get? t q <;> rfl
  intro q k hne
  have hqk : q ++ [k] ≠ [] := by simp
  by_cases hq0 : q = []
  · subst hq0; simp
  · by_cases hpre : dst <+: q ++ [k]
    · rcases prefix_snoc_iff.mp hpre with heq | hpre'
      · have hnd : ¬ dst <+: q := by
          intro h
          have := h.length_le
          rw [heq] at this; simp at this; omega
        rw [g2 q hq0 hnd]
        exact hc2 q k (by rw [← heq, rawCreate_get? h2 dst hd]; simp)
      · rw [rawCopy_get? h hc _ hqk, if_pos hpre, drop_snoc_of_prefix k hpre', ← List.append_assoc] at hne
        rw [rawCopy_get? h hc q hq0, if_pos hpre']
        exact hc _ k hne
    · have hnd : ¬ dst <+: q := fun h => hpre (h.trans (List.prefix_append _ _))
      rw [g2 _ hqk hpre] at hne
      rw [g2 q hq0 hnd]
      exact hc2 q k hne

end MetadorModel.Container
