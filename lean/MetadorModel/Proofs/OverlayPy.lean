import MetadorModel.Model.OverlayPy
import MetadorModel.Proofs.OverlayView
import MetadorModel.Proofs.Listing
/-!
# Lemmas about the value dictionary of the C01 translation (`Model/OverlayPy.lean`)

Nothing here depends on the generated file. The file provides

* Python list / range / dict facts (`pyListGet`, `pyRange`, `pyReversed`, `aget` on sorted and
  filtered association lists);
* the *per key* reading of the two dictionaries `children`, `is_virtual` of
  `IH5InnerNode._children` (`slot`, `stepSlot`) and the pure recursion `runSlot` that a fold over the
  container indices `len-1 … cidx` performs on one key, with the proof that it computes the model's
  `Overlay.scan` (`runSlot_none`);
* generic fold lemmas (`pyFor_keys`, `pyFor_range`) that lift a per-iteration specification of a
  loop body to the whole loop;
* facts about `Overlay.scan` that the successive lookup needs (`scan_get`, `scan_newer_virtual`).
-/
namespace MetadorModel.OverlayPy
open MetadorModel.Tree MetadorModel.Overlay MetadorModel.Listing

variable {V : Type}

/-! ## lists and ranges -/

theorem pyListGet_nat {α : Type} (l : List α) (i : Nat) :
    pyListGet l (i : Int) = match l[i]? with | some x => .ok x | none => .error .indexError := by
  have h1 : ¬ ((i : Int) < 0) := by omega
  cases h : l[i]? <;> simp [pyListGet, h1, h]

theorem pyListGet_neg_one {α : Type} (l : List α) :
    pyListGet l (-1) = match l.getLast? with | some x => .ok x | none => .error .indexError := by
  unfold pyListGet
  rcases List.eq_nil_or_concat l with h | ⟨xs, x, h⟩
  · subst h; simp
  · rw [List.concat_eq_append] at h
    subst h
    have h2 : ((-1 : Int) + ((xs.length : Int) + 1)).toNat = xs.length := by omega
    have h3 : ¬ ((-1 : Int) + ((xs.length : Int) + 1) < 0) := by omega
    simp [h2, h3]

theorem pyRange_empty (a b : Int) (h : b ≤ a) : pyRange a b = [] := by
  unfold pyRange
  have : (b - a).toNat = 0 := by omega
  simp [this]

theorem pyRange_succ (a : Int) (m : Nat) (h : a ≤ m) :
    pyRange a ((m + 1 : Nat) : Int) = pyRange a (m : Int) ++ [(m : Int)] := by
  unfold pyRange
  have h1 : (((m + 1 : Nat) : Int) - a).toNat = ((m : Int) - a).toNat + 1 := by omega
  rw [h1, List.range_succ, List.map_append]
  congr 1
  simp only [List.map_cons, List.map_nil, List.cons.injEq, and_true]
  omega

theorem pyReversed_pyRange_succ (a : Int) (m : Nat) (h : a ≤ m) :
    pyReversed (pyRange a ((m + 1 : Nat) : Int)) = (m : Int) :: pyReversed (pyRange a (m : Int)) := by
  unfold pyReversed
  rw [pyRange_succ a m h]
  simp

theorem pyRange_zero_succ (n a : Nat) (h : a < n) :
    (pyRange (a : Int) (n : Int)) = (a : Int) :: pyRange ((a + 1 : Nat) : Int) (n : Int) := by
  unfold pyRange
  have h1 : ((n : Int) - (a : Int)).toNat = ((n : Int) - ((a + 1 : Nat) : Int)).toNat + 1 := by omega
  rw [h1, List.range_succ_eq_map]
  simp only [List.map_cons, List.map_map, List.cons.injEq]
  constructor
  · simp
  · apply List.map_congr_left
    intro x _
    simp only [Function.comp]
    omega

/-! ## association lists -/

theorem aget_eq_some_iff_mem {κ β : Type} [DecidableEq κ] (l : List (κ × β))
    (hnd : (l.map (·.1)).Nodup) (k : κ) (v : β) : aget k l = some v ↔ (k, v) ∈ l := by
  induction l with
  | nil => simp [aget]
  | cons e l ih =>
    obtain ⟨a, b⟩ := e
    simp only [List.map_cons, List.nodup_cons] at hnd
    by_cases h : a = k
    · subst h
      simp only [aget, ↓reduceIte, Option.some.injEq, List.mem_cons, Prod.mk.injEq, true_and]
      constructor
      · intro h; exact Or.inl h.symm
      · rintro (h | h)
        · exact h.symm
        · exact absurd (List.mem_map_of_mem (f := (·.1)) h) hnd.1
    · simp only [aget, h, ↓reduceIte, List.mem_cons, Prod.mk.injEq]
      rw [ih hnd.2]
      constructor
      · exact Or.inr
      · rintro (⟨h', _⟩ | h')
        · exact absurd h'.symm h
        · exact h'

theorem aget_perm {κ β : Type} [DecidableEq κ] (l₁ l₂ : List (κ × β)) (hp : l₁.Perm l₂)
    (hnd : (l₁.map (·.1)).Nodup) (k : κ) : aget k l₁ = aget k l₂ := by
  have hnd2 : (l₂.map (·.1)).Nodup := (hp.map _).nodup_iff.mp hnd
  cases h : aget k l₂ with
  | some v =>
    rw [aget_eq_some_iff_mem l₂ hnd2] at h
    rw [aget_eq_some_iff_mem l₁ hnd]
    exact hp.mem_iff.mpr h
  | none =>
    cases h1 : aget k l₁ with
    | none => rfl
    | some v =>
      rw [aget_eq_some_iff_mem l₁ hnd] at h1
      have := (aget_eq_some_iff_mem l₂ hnd2 k v).mpr (hp.mem_iff.mp h1)
      rw [h] at this; cases this

theorem aget_pySortedItems {β : Type} (d : List (Key × β)) (hnd : (d.map (·.1)).Nodup) (k : Key) :
    aget k (pySortedItems d) = aget k d := by
  unfold pySortedItems
  have hp := sortBy_perm (fun (a b : Key × β) => decide (a.1 < b.1)) d
  exact (aget_perm _ _ hp.symm hnd k).symm

theorem nodup_pySortedItems {β : Type} (d : List (Key × β)) (hnd : (d.map (·.1)).Nodup) :
    ((pySortedItems d).map (·.1)).Nodup := by
  unfold pySortedItems
  have hp := sortBy_perm (fun (a b : Key × β) => decide (a.1 < b.1)) d
  exact (hp.map _).nodup_iff.mpr hnd

theorem mem_pySortedItems {β : Type} (d : List (Key × β)) (x : Key × β) :
    x ∈ pySortedItems d ↔ x ∈ d := by
  unfold pySortedItems
  exact (sortBy_perm _ d).mem_iff

theorem aget_filter {κ β : Type} [DecidableEq κ] (l : List (κ × β)) (p : κ × β → Bool)
    (hnd : (l.map (·.1)).Nodup) (k : κ) :
    aget k (l.filter p) = match aget k l with
      | some v => if p (k, v) then some v else none
      | none => none := by
  induction l with
  | nil => simp [aget]
  | cons e l ih =>
    obtain ⟨a, b⟩ := e
    simp only [List.map_cons, List.nodup_cons] at hnd
    by_cases h : a = k
    · subst h
      simp only [aget, ↓reduceIte]
      by_cases hp : p (a, b) = true
      · simp [List.filter, hp, aget]
      · simp only [List.filter, hp]
        rw [ih hnd.2]
        have : aget a l = none := by
          cases h2 : aget a l with
          | none => rfl
          | some v =>
            have := (aget_eq_some_iff_mem l hnd.2 a v).mp h2
            exact absurd (List.mem_map_of_mem (f := (·.1)) this) hnd.1
        simp [this]
    · by_cases hp : p (a, b) = true
      · simp only [List.filter, hp, aget, h, ↓reduceIte]
        exact ih hnd.2
      · simp only [List.filter, hp, aget, h, ↓reduceIte]
        exact ih hnd.2

theorem keys_aput {κ β : Type} [DecidableEq κ] (k : κ) (v : β) (l : List (κ × β)) :
    (aput k v l).map (·.1) = if (aget k l).isSome then l.map (·.1) else l.map (·.1) ++ [k] := by
  induction l with
  | nil => simp [aput, aget]
  | cons e l ih =>
    obtain ⟨a, b⟩ := e
    by_cases h : a = k
    · subst h; simp [aput, aget]
    · simp only [aput, h, ↓reduceIte, List.map_cons, aget, ih]
      split <;> simp

theorem mem_keys_iff {κ β : Type} [DecidableEq κ] (k : κ) (l : List (κ × β)) :
    k ∈ l.map (·.1) ↔ (aget k l).isSome = true := by
  induction l with
  | nil => simp [aget]
  | cons e l ih =>
    obtain ⟨a, b⟩ := e
    by_cases h : a = k
    · subst h; simp [aget]
    · have h' : ¬ k = a := fun x => h x.symm
      simp [aget, h, h', ih]

theorem nodup_keys_aput {κ β : Type} [DecidableEq κ] (k : κ) (v : β) (l : List (κ × β))
    (hnd : (l.map (·.1)).Nodup) : ((aput k v l).map (·.1)).Nodup := by
  rw [keys_aput]
  split
  · exact hnd
  · rename_i h
    rw [List.nodup_append]
    refine ⟨hnd, by simp, ?_⟩
    intro a ha b hb
    simp only [List.mem_cons, List.not_mem_nil, or_false] at hb
    subst hb
    intro hab
    subst hab
    exact h ((mem_keys_iff _ _).mp ha)

theorem pyFilterM_pure {α : Type} (f : α → Except PyErr Bool) (p : α → Bool) (l : List α)
    (h : ∀ x ∈ l, f x = .ok (p x)) : pyFilterM f l = .ok (l.filter p) := by
  induction l with
  | nil => rfl
  | cons x xs ih =>
    have hx := h x List.mem_cons_self
    have hxs := ih (fun y hy => h y (List.mem_cons_of_mem _ hy))
    simp only [pyFilterM, hx, hxs, List.filter]
    cases p x <;> rfl

/-! ## child keys of a group -/

theorem childKeyOf_eq_some (p q : Path) (k : Key) : childKeyOf p q = some k ↔ q = p ++ [k] := by
  unfold childKeyOf
  cases hq : q.getLast? with
  | none =>
    have : q = [] := List.getLast?_eq_none_iff.mp hq
    subst this
    simp
  | some a =>
    have h1 : q.dropLast ++ [a] = q := by
      obtain ⟨ys, hys⟩ := List.getLast?_eq_some_iff.mp hq
      subst hys; simp
    simp only
    constructor
    · intro h
      split at h
      · rename_i hp
        simp only [Option.some.injEq] at h
        subst h; subst hp; exact h1.symm
      · cases h
    · intro h
      subst h
      simp only [List.getLast?_append, List.getLast?_singleton, Option.some_or,
        Option.some.injEq] at hq
      subst hq
      simp

theorem mem_childKeys (f : Cont V) (p : Path) (k : Key) :
    k ∈ childKeys f p ↔ (aget (p ++ [k]) f).isSome = true := by
  unfold childKeys
  rw [mem_dedup, ← mem_keys_iff]
  simp only [List.mem_filterMap, List.mem_map]
  constructor
  · rintro ⟨e, he, hk⟩
    exact ⟨e, he, ((childKeyOf_eq_some p e.1 k).mp hk)⟩
  · rintro ⟨e, he, hk⟩
    exact ⟨e, he, ((childKeyOf_eq_some p e.1 k).mpr hk)⟩

theorem nodup_childKeys (f : Cont V) (p : Path) : (childKeys f p).Nodup := nodup_dedup _

/-! ## the two dictionaries of `_children`, read per key -/

/-- loop state of `_children`: (`children`, `is_virtual`) -/
abbrev St := List (Key × Int) × List (Key × Bool)

def slot (k : Key) (st : St) : Option (Int × Bool) :=
  match aget k st.1, aget k st.2 with
  | some j, some b => some (j, b)
  | _, _ => none

/-- both dictionaries have the same keys, no key twice -/
structure Dom (st : St) : Prop where
  nodup : (st.1.map (·.1)).Nodup
  same : ∀ k, (aget k st.1).isSome = (aget k st.2).isSome

theorem Dom.init : Dom (([], []) : St) := ⟨by simp, by simp [aget]⟩

theorem slot_eq_none (k : Key) (st : St) (hd : Dom st) : slot k st = none ↔ aget k st.1 = none := by
  have := hd.same k
  unfold slot
  cases h1 : aget k st.1 <;> cases h2 : aget k st.2 <;> simp_all

theorem slot_fst (k : Key) (st : St) (hd : Dom st) : (slot k st).map (·.1) = aget k st.1 := by
  have := hd.same k
  unfold slot
  cases h1 : aget k st.1 <;> cases h2 : aget k st.2 <;> simp_all

/-- what one sighting (container index `i`, virtual flag `v` of the node seen) does to the entry of
its key: l. 274–280 of `_children` -/
def stepSlot (s : Option (Int × Bool)) (i : Int) (v : Bool) : Option (Int × Bool) :=
  match s with
  | none => some (i, v)
  | some (j, true) => some (min j i, v)
  | some (j, false) => some (j, false)

/-- the whole loop `for i in reversed(range(c, len(files)))` on the entry of the child at `q`,
as a recursion over the record (newest first) -/
def runSlot (q : Path) (c : Int) : Rec V → Option (Int × Bool) → Option (Int × Bool)
  | [], s => s
  | p :: rest, s =>
    if (rest.length : Int) < c then s
    else runSlot q c rest (match aget q p with
      | none => s
      | some n => stepSlot s rest.length n.kind.isVirtual)

def enc (x : Nat × RNode V) : Int × Bool := ((x.1 : Int), x.2.kind.isVirtual)

theorem runSlot_false (q : Path) (c : Int) (r : Rec V) (j : Int) :
    runSlot q c r (some (j, false)) = some (j, false) := by
  induction r with
  | nil => rfl
  | cons p rest ih =>
    simp only [runSlot]
    split
    · rfl
    · cases aget q p <;> simp [stepSlot, ih]

theorem runSlot_true (q : Path) (c : Nat) (r : Rec V) (j : Int) (hj : (r.length : Int) ≤ j) :
    runSlot q (c : Int) r (some (j, true)) = some (((scan q c r).map enc).getD (j, true)) := by
  induction r generalizing j with
  | nil => simp [runSlot, scan]
  | cons p rest ih =>
    simp only [List.length_cons] at hj
    simp only [runSlot, scan]
    by_cases hc : rest.length < c
    · have : (rest.length : Int) < (c : Int) := by omega
      simp [hc, this]
    · have : ¬ (rest.length : Int) < (c : Int) := by omega
      simp only [hc, this, ↓reduceIte]
      cases hq : aget q p with
      | none => simp only; exact ih j (by omega)
      | some n =>
        have hmin : min j (rest.length : Int) = (rest.length : Int) := by omega
        simp only [stepSlot, hmin]
        cases hv : n.kind.isVirtual with
        | true =>
          rw [ih _ (Int.le_refl _)]
          cases hs : scan q c rest <;> simp [enc, hv]
        | false =>
          rw [runSlot_false]
          simp [enc, hv]

/-- **the fold of `_children` on one key is the model's `scan`** -/
theorem runSlot_none (q : Path) (c : Nat) (r : Rec V) :
    runSlot q (c : Int) r none = (scan q c r).map enc := by
  induction r with
  | nil => simp [runSlot, scan]
  | cons p rest ih =>
    simp only [runSlot, scan]
    by_cases hc : rest.length < c
    · have : (rest.length : Int) < (c : Int) := by omega
      simp [hc, this]
    · have : ¬ (rest.length : Int) < (c : Int) := by omega
      simp only [hc, this, ↓reduceIte]
      cases hq : aget q p with
      | none => simp only; exact ih
      | some n =>
        simp only [stepSlot]
        cases hv : n.kind.isVirtual with
        | true =>
          rw [runSlot_true _ _ _ _ (Int.le_refl _)]
          cases hs : scan q c rest <;> simp [enc, hv]
        | false =>
          rw [runSlot_false]
          simp [enc, hv]

theorem slot_set_both (k k' : Key) (j : Int) (b : Bool) (ch : List (Key × Int)) (iv : List (Key × Bool)) :
    slot k' ((aput k j ch, aput k b iv) : St) = if k' = k then some (j, b) else slot k' ((ch, iv) : St) := by
  unfold slot
  simp only [aget_aput]
  by_cases h : k' = k <;> simp [h]

theorem Dom.set_both (k : Key) (j : Int) (b : Bool) (ch : List (Key × Int)) (iv : List (Key × Bool))
    (hd : Dom ((ch, iv) : St)) : Dom ((aput k j ch, aput k b iv) : St) := by
  refine ⟨nodup_keys_aput _ _ _ hd.nodup, ?_⟩
  intro k'
  have := hd.same k'
  simp only [aget_aput]
  by_cases h : k' = k <;> simp_all

/-! ## facts about `scan` -/

/-- the container with index `i` of a record (newest first) -/
theorem reverse_getElem?_cons (p : Cont V) (rest : Rec V) (i : Nat) :
    (p :: rest).reverse[i]? = if i < rest.length then rest.reverse[i]? else if i = rest.length then some p else none := by
  simp only [List.reverse_cons]
  by_cases h : i < rest.length
  · simp [h, List.getElem?_append_left]
  · simp only [h, ↓reduceIte]
    by_cases h2 : i = rest.length
    · subst h2; simp
    · simp only [h2, ↓reduceIte]
      rw [List.getElem?_eq_none]
      simp; omega

/-- `scan` returns the node that container `i` holds at `q` -/
theorem scan_get (q : Path) (c : Nat) (r : Rec V) (i : Nat) (n : RNode V)
    (h : scan q c r = some (i, n)) : c ≤ i ∧ ∃ f, r.reverse[i]? = some f ∧ aget q f = some n := by
  induction r generalizing i n with
  | nil => simp [scan] at h
  | cons p rest ih =>
    simp only [scan] at h
    split at h
    · simp at h
    · rename_i hc
      have hself : c ≤ rest.length ∧ ∃ f, (p :: rest).reverse[rest.length]? = some f ∧ aget q f = aget q p :=
        ⟨by omega, p, by rw [reverse_getElem?_cons]; simp, rfl⟩
      have hlift : ∀ i n, scan q c rest = some (i, n) →
          c ≤ i ∧ ∃ f, (p :: rest).reverse[i]? = some f ∧ aget q f = some n := by
        intro i n hs
        obtain ⟨h1, f, h2, h3⟩ := ih _ _ hs
        have := scan_idx_lt q c rest i n hs
        exact ⟨h1, f, by rw [reverse_getElem?_cons, if_pos this]; exact h2, h3⟩
      split at h
      · exact hlift i n h
      · rename_i m hm
        split at h
        · cases hs : scan q c rest with
          | none =>
            simp [hs] at h
            obtain ⟨h1, h2⟩ := h
            subst h1; subst h2
            obtain ⟨a, f, b, d⟩ := hself
            exact ⟨a, f, b, by rw [d, hm]⟩
          | some x =>
            simp [hs] at h
            subst h
            exact hlift _ _ hs
        · simp at h
          obtain ⟨h1, h2⟩ := h
          subst h1; subst h2
          obtain ⟨a, f, b, d⟩ := hself
          exact ⟨a, f, b, by rw [d, hm]⟩

/-- every container newer than the one `scan` names holds at most a virtual node at `q` -/
theorem scan_newer_virtual (q : Path) (c : Nat) (r : Rec V) (i : Nat) (n : RNode V)
    (h : scan q c r = some (i, n)) (j : Nat) (hj : i < j) (f : Cont V) (hf : r.reverse[j]? = some f)
    (m : RNode V) (hm : aget q f = some m) : m.kind.isVirtual = true := by
  induction r generalizing i n with
  | nil => simp at hf
  | cons p rest ih =>
    simp only [scan] at h
    rw [reverse_getElem?_cons] at hf
    split at h
    · simp at h
    · split at h
      · -- `p` has no entry
        rename_i hp
        split at hf
        · exact ih i n h hj hf
        · split at hf
          · simp at hf; subst hf; rw [hp] at hm; cases hm
          · cases hf
      · rename_i m' hm'
        split at h
        · rename_i hv
          split at hf
          · cases hs : scan q c rest with
            | none =>
              simp [hs] at h
              omega
            | some x =>
              simp [hs] at h
              subst h
              exact ih _ _ hs hj hf
          · split at hf
            · simp at hf; subst hf; rw [hm'] at hm; cases hm; exact hv
            · cases hf
        · simp at h
          obtain ⟨h1, h2⟩ := h
          subst h1
          split at hf
          · omega
          · split at hf
            · omega
            · cases hf

/-! ## lifting a per-iteration specification of a loop body to the loop -/

/-- inner loop `for k in obj.keys()`: each key is visited once and only its own entry changes -/
theorem pyFor_keys (body : St → Key → Except PyErr St) (upd : Key → Option (Int × Bool) → Option (Int × Bool))
    (ks : List Key) (hnd : ks.Nodup)
    (hbody : ∀ st k, k ∈ ks → Dom st → ∃ st', body st k = .ok st' ∧ Dom st' ∧
      slot k st' = upd k (slot k st) ∧ ∀ k', k' ≠ k → slot k' st' = slot k' st)
    (st : St) (hd : Dom st) :
    ∃ st', pyFor ks st body = .ok st' ∧ Dom st' ∧
      ∀ k, slot k st' = if k ∈ ks then upd k (slot k st) else slot k st := by
  induction ks generalizing st with
  | nil => exact ⟨st, rfl, hd, by simp⟩
  | cons x xs ih =>
    obtain ⟨st1, h1, hd1, hx, hother⟩ := hbody st x List.mem_cons_self hd
    simp only [List.nodup_cons] at hnd
    obtain ⟨st2, h2, hd2, hk⟩ := ih hnd.2 (fun st k hk => hbody st k (List.mem_cons_of_mem _ hk)) st1 hd1
    refine ⟨st2, by simp [pyFor, h1, h2], hd2, ?_⟩
    intro k
    rw [hk k]
    by_cases hkx : k = x
    · subst hkx
      simp [hnd.1, hx]
    · have : ¬ x = k := fun h => hkx h.symm
      simp only [List.mem_cons, hkx, false_or]
      rw [hother k hkx]

/-- outer loop `for i in reversed(range(c, len(files)))`: per key it is `runSlot` -/
theorem pyFor_range (fs : List (Cont V)) (body : St → Int → Except PyErr St) (g : Path) (c : Nat)
    (hbody : ∀ st (i : Nat) f, fs[i]? = some f → c ≤ i → Dom st → ∃ st', body st (i : Int) = .ok st' ∧ Dom st' ∧
      ∀ k, slot k st' = match aget (g ++ [k]) f with
        | none => slot k st
        | some n => stepSlot (slot k st) (i : Int) n.kind.isVirtual)
    (m : Nat) (hm : m ≤ fs.length) (st : St) (hd : Dom st) :
    ∃ st', pyFor (pyReversed (pyRange (c : Int) (m : Int))) st body = .ok st' ∧ Dom st' ∧
      ∀ k, slot k st' = runSlot (g ++ [k]) (c : Int) ((fs.take m).reverse) (slot k st) := by
  induction m generalizing st with
  | zero =>
    rw [pyRange_empty _ _ (by omega)]
    exact ⟨st, rfl, hd, by simp [runSlot]⟩
  | succ m ih =>
    by_cases hc : c ≤ m
    · rw [pyReversed_pyRange_succ _ _ (by omega)]
      have hlt : m < fs.length := by omega
      have hget : fs[m]? = some fs[m] := by simp [hlt]
      obtain ⟨st1, h1, hd1, hs1⟩ := hbody st m fs[m] hget hc hd
      obtain ⟨st2, h2, hd2, hs2⟩ := ih (by omega) st1 hd1
      refine ⟨st2, by simp [pyFor, h1, h2], hd2, ?_⟩
      intro k
      rw [hs2 k, hs1 k]
      have htake : (fs.take (m + 1)).reverse = fs[m] :: (fs.take m).reverse := by
        rw [List.take_add_one, hget]; simp
      have hlen : ((fs.take m).reverse).length = m := by simp; omega
      rw [htake]
      simp only [runSlot, hlen]
      have : ¬ (m : Int) < (c : Int) := by omega
      simp only [this, ↓reduceIte]
    · rw [pyRange_empty _ _ (by omega)]
      refine ⟨st, rfl, hd, ?_⟩
      intro k
      have htake : (fs.take (m + 1)).reverse = fs[m]'(by omega) :: (fs.take m).reverse := by
        rw [List.take_add_one]
        have : fs[m]? = some (fs[m]'(by omega)) := by simp
        rw [this]; simp
      have hlen : ((fs.take m).reverse).length = m := by simp; omega
      rw [htake]
      simp only [runSlot, hlen]
      have : (m : Int) < (c : Int) := by omega
      simp [this]

end MetadorModel.OverlayPy
