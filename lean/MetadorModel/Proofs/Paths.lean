import MetadorModel.Model.Paths
import Mathlib.Tactic.SplitIfs
import Mathlib.Tactic.Cases
/-! Helper lemmas for the reserved-namespace model (C08): Python string primitives,
`split`/`join` round trips, guard sequencing, filtered listings. -/
namespace MetadorModel.Paths

/-! ### startswith / find -/

@[simp] theorem pyStartswith_nil (s : Str) : pyStartswith s [] = true := by
  cases s <;> rfl

@[simp] theorem pyStartswith_nil_cons (d : Char) (p : Str) : pyStartswith [] (d :: p) = false := rfl

@[simp] theorem pyStartswith_cons_cons (c d : Char) (s p : Str) :
    pyStartswith (c :: s) (d :: p) = (c == d && pyStartswith s p) := rfl

theorem pyStartswith_append (p x : Str) : pyStartswith (p ++ x) p = true := by
  induction p with
  | nil => simp
  | cons c p ih => simp [ih]

theorem pyStartswith_append_left (p q x : Str) : pyStartswith (p ++ q ++ x) p = true := by
  rw [List.append_assoc]; exact pyStartswith_append p (q ++ x)

/-- `sub` occurs in `s` (as a contiguous substring) -/
def occurs : Str → Str → Bool
  | [], sub => sub.isEmpty
  | c :: s, sub => pyStartswith (c :: s) sub || occurs s sub

theorem pyFind_nonneg_iff (s sub : Str) : 0 ≤ pyFind s sub ↔ occurs s sub = true := by
  induction s with
  | nil =>
    simp only [pyFind, occurs]
    cases sub.isEmpty <;> simp
  | cons c s ih =>
    by_cases h : pyStartswith (c :: s) sub = true
    · simp [pyFind, occurs, h]
    · have h1 : pyFind (c :: s) sub = if pyFind s sub ≥ 0 then pyFind s sub + 1 else -1 := by
        simp [pyFind, h]
      have h2 : occurs (c :: s) sub = occurs s sub := by simp [occurs, h]
      rw [h1, h2, ← ih]
      split_ifs <;> omega

/-! ### split / join -/

@[simp] theorem splitAux_nil (sep : Char) : splitAux sep [] = ([], []) := rfl

theorem splitAux_cons_sep (sep : Char) (s : Str) :
    splitAux sep (sep :: s) = ([], (splitAux sep s).1 :: (splitAux sep s).2) := by
  simp [splitAux]

theorem splitAux_cons_ne (sep c : Char) (s : Str) (h : c ≠ sep) :
    splitAux sep (c :: s) = (c :: (splitAux sep s).1, (splitAux sep s).2) := by
  simp [splitAux, h]

theorem pySplit_nil (sep : Char) : pySplit [] sep = [[]] := rfl

theorem pySplit_ne_nil (s : Str) (sep : Char) : pySplit s sep ≠ [] := by simp [pySplit]

theorem pySplit_cons_sep (sep : Char) (s : Str) : pySplit (sep :: s) sep = [] :: pySplit s sep := by
  simp [pySplit, splitAux_cons_sep]

theorem pySplit_cons_ne (sep c : Char) (s : Str) (h : c ≠ sep) :
    pySplit (c :: s) sep = (c :: (splitAux sep s).1) :: (splitAux sep s).2 := by
  simp [pySplit, splitAux_cons_ne _ _ _ h]

/-- no segment contains the separator -/
theorem splitAux_no_sep (sep : Char) (s : Str) :
    sep ∉ (splitAux sep s).1 ∧ ∀ seg ∈ (splitAux sep s).2, sep ∉ seg := by
  induction s with
  | nil => simp
  | cons c s ih =>
    by_cases h : c = sep
    · subst h
      rw [splitAux_cons_sep]
      refine ⟨by simp, ?_⟩
      intro seg hseg
      rcases List.mem_cons.mp hseg with h | h
      · rw [h]; exact ih.1
      · exact ih.2 seg h
    · rw [splitAux_cons_ne _ _ _ h]
      refine ⟨?_, ih.2⟩
      intro hm
      rcases List.mem_cons.mp hm with h2 | h2
      · exact h h2.symm
      · exact ih.1 h2

theorem pySplit_no_sep (s : Str) (sep : Char) : ∀ seg ∈ pySplit s sep, sep ∉ seg := by
  intro seg hseg
  rcases List.mem_cons.mp hseg with h | h
  · rw [h]; exact (splitAux_no_sep sep s).1
  · exact (splitAux_no_sep sep s).2 seg h

theorem pyJoin_cons_cons (sep c : Char) (a : Str) (l : List Str) :
    pyJoin sep ((c :: a) :: l) = c :: pyJoin sep (a :: l) := by
  cases l <;> simp [pyJoin]

/-- `"/".join(s.split("/")) == s` -/
theorem join_split (s : Str) (sep : Char) : pyJoin sep (pySplit s sep) = s := by
  induction s with
  | nil => rfl
  | cons c s ih =>
    by_cases h : c = sep
    · subst h
      rw [pySplit_cons_sep]
      unfold pySplit at ih ⊢
      simp only [pyJoin, List.nil_append]
      rw [ih]
    · rw [pySplit_cons_ne _ _ _ h, pyJoin_cons_cons]
      unfold pySplit at ih
      rw [ih]

theorem splitAux_append (sep : Char) (a rest : Str) (ha : sep ∉ a) :
    splitAux sep (a ++ rest) = (a ++ (splitAux sep rest).1, (splitAux sep rest).2) := by
  induction a with
  | nil => simp
  | cons c a ih =>
    have hc : c ≠ sep := fun h => ha (by simp [h])
    have ha' : sep ∉ a := fun h => ha (List.mem_cons_of_mem _ h)
    rw [List.cons_append, splitAux_cons_ne _ _ _ hc, ih ha']
    simp

/-- `sep.join(l).split(sep) == l` for a non-empty list of separator-free strings -/
theorem splitAux_join (sep : Char) (a : Str) (l : List Str) (ha : sep ∉ a)
    (hl : ∀ seg ∈ l, sep ∉ seg) : splitAux sep (pyJoin sep (a :: l)) = (a, l) := by
  induction l generalizing a with
  | nil =>
    have := splitAux_append sep a [] ha
    simpa [pyJoin] using this
  | cons b l ih =>
    have hb : sep ∉ b := hl b (by simp)
    have hl' : ∀ seg ∈ l, sep ∉ seg := fun seg h => hl seg (List.mem_cons_of_mem _ h)
    simp only [pyJoin]
    rw [splitAux_append sep a _ ha, splitAux_cons_sep, ih b hb hl']
    simp

theorem split_join (sep : Char) (l : List Str) (hne : l ≠ []) (hl : ∀ seg ∈ l, sep ∉ seg) :
    pySplit (pyJoin sep l) sep = l := by
  cases l with
  | nil => exact absurd rfl hne
  | cons a l =>
    unfold pySplit
    rw [splitAux_join sep a l (hl a (by simp)) (fun seg h => hl seg (List.mem_cons_of_mem _ h))]

/-- splitting at an inserted separator -/
theorem split_append_sep (sep : Char) (a b : Str) :
    pySplit (a ++ sep :: b) sep = pySplit a sep ++ pySplit b sep := by
  induction a with
  | nil => simp [pySplit_cons_sep, pySplit_nil]
  | cons c a ih =>
    by_cases h : c = sep
    · subst h
      rw [List.cons_append, pySplit_cons_sep, pySplit_cons_sep, ih]; rfl
    · rw [List.cons_append, pySplit_cons_ne _ _ _ h, pySplit_cons_ne _ _ _ h]
      unfold pySplit at ih
      have h1 := congrArg List.head? ih
      have h2 := congrArg List.tail ih
      simp only [List.head?_cons, List.tail_cons, List.cons_append, Option.some.injEq] at h1 h2
      rw [h1, h2]; rfl

/-! ### list primitives -/

theorem pyLast_append_one (l : List Str) (x : Str) : pyLast (l ++ [x]) = x := by
  induction l with
  | nil => rfl
  | cons a l ih =>
    cases l with
    | nil => rfl
    | cons b l => simpa [pyLast] using ih

theorem pySetLast_append_one (l : List Str) (x y : Str) : pySetLast (l ++ [x]) y = l ++ [y] := by
  induction l with
  | nil => rfl
  | cons a l ih =>
    cases l with
    | nil => rfl
    | cons b l => simpa [pySetLast] using ih

theorem pyPop_append_one (l : List Str) (x : Str) : pyPop (l ++ [x]) = l := by
  induction l with
  | nil => rfl
  | cons a l ih =>
    cases l with
    | nil => rfl
    | cons b l => simpa [pyPop] using ih

theorem pyHead_append (l : List Str) (x : Str) (h : l ≠ []) : pyHead (l ++ [x]) = pyHead l := by
  cases l with
  | nil => exact absurd rfl h
  | cons a l => rfl

/-- every non-empty list is `init ++ [last]` -/
theorem exists_init_last (l : List Str) (h : l ≠ []) : ∃ i, l = i ++ [pyLast l] := by
  induction l with
  | nil => exact absurd rfl h
  | cons a l ih =>
    cases l with
    | nil => exact ⟨[], rfl⟩
    | cons b l =>
      obtain ⟨i, hi⟩ := ih (by simp)
      refine ⟨a :: i, ?_⟩
      simp only [pyLast, List.cons_append]
      rw [← hi]

theorem pyLast_mem (l : List Str) (h : l ≠ []) : pyLast l ∈ l := by
  obtain ⟨i, hi⟩ := exists_init_last l h
  rw [hi, pyLast_append_one]; simp

/-! ### the internal-path predicate -/

/-- the first segment starts with a separator-free prefix iff the whole string does -/
theorem startswith_first_seg (s pref : Str) (hp : '/' ∉ pref) :
    pyStartswith (splitAux '/' s).1 pref = pyStartswith s pref := by
  induction s generalizing pref with
  | nil => rfl
  | cons c s ih =>
    cases pref with
    | nil => simp
    | cons d p =>
      have hd : d ≠ '/' := fun h => hp (by simp [h])
      have hp' : '/' ∉ p := fun h => hp (List.mem_cons_of_mem _ h)
      by_cases h : c = '/'
      · subst h
        rw [splitAux_cons_sep]
        have : ('/' == d) = false := by
          simp only [beq_eq_false_iff_ne, ne_eq]; exact fun h => hd h.symm
        simp [this]
      · rw [splitAux_cons_ne _ _ _ h]
        simp [ih p hp']

/-- some later segment starts with `pref` iff `"/" + pref` occurs in the string -/
theorem later_seg_iff (s pref : Str) (hp : '/' ∉ pref) :
    (∃ seg ∈ (splitAux '/' s).2, pyStartswith seg pref = true) ↔ occurs s ('/' :: pref) = true := by
  induction s with
  | nil => simp [occurs]
  | cons c s ih =>
    by_cases h : c = '/'
    · subst h
      rw [splitAux_cons_sep]
      simp only [List.mem_cons, exists_eq_or_imp, occurs, pyStartswith_cons_cons, beq_self_eq_true,
        Bool.true_and, Bool.or_eq_true]
      rw [startswith_first_seg s pref hp, ih]
    · rw [splitAux_cons_ne _ _ _ h]
      have : (c == '/') = false := by simpa using h
      simp only [occurs, pyStartswith_cons_cons, this, Bool.false_and, Bool.false_or]
      exact ih

/-- `is_internal_path(path, pref)` ⇔ some segment of `path` starts with `pref`
(for a prefix without `/`). -/
theorem isInternalPathP_iff (p pref : Str) (hp : '/' ∉ pref) :
    isInternalPathP p pref = true ↔ ∃ seg ∈ pySplit p '/', pyStartswith seg pref = true := by
  unfold isInternalPathP pySplit
  simp only [Bool.or_eq_true, decide_eq_true_eq, ge_iff_le, List.mem_cons, exists_eq_or_imp]
  rw [pyFind_nonneg_iff, startswith_first_seg p pref hp, later_seg_iff p pref hp]

theorem metador_pref_no_slash : '/' ∉ METADOR_PREF := by decide

theorem meta_pref_no_slash : '/' ∉ METADOR_META_PREF := by decide

theorem isInternalPath_iff (p : Str) : isInternalPath p = true ↔ hasReservedSeg p :=
  isInternalPathP_iff p METADOR_PREF metador_pref_no_slash

/-! ### guards -/

theorem guardPath_reserved (loc : Bool) (p : Str) (h : isInternalPath p = true) :
    guardPath loc p = .error .internalPath := by
  simp [guardPath, h]

theorem runGuards_reserved (loc ro : Bool) (args : List Str) (i : Nat) (p : Str)
    (hp : args[i]? = some p) (hr : isInternalPath p = true) (gs : List Guard)
    (hg : Guard.path i ∈ gs) : ∃ e, runGuards loc ro args gs = .error e := by
  induction gs with
  | nil => cases hg
  | cons g gs ih =>
    cases g with
    | readOnly =>
      have hg' : Guard.path i ∈ gs := by
        rcases List.mem_cons.mp hg with h | h
        · cases h
        · exact h
      simp only [runGuards]
      split_ifs
      · exact ⟨_, rfl⟩
      · exact ih hg'
    | path j =>
      simp only [runGuards]
      cases hj : args[j]? with
      | none => exact ⟨_, rfl⟩
      | some q =>
        simp only
        cases hq : guardPath loc q with
        | error e => exact ⟨e, rfl⟩
        | ok u =>
          simp only
          rcases List.mem_cons.mp hg with h | h
          · injection h with h
            subst h
            rw [hp] at hj
            injection hj with hj
            subst hj
            rw [guardPath_reserved loc p hr] at hq
            cases hq
          · exact ih h

/-! ### filtered listings -/

theorem stripPrefix_eq (pre s r : Str) (h : stripPrefix pre s = some r) : s = pre ++ r := by
  induction pre generalizing s with
  | nil => simp [stripPrefix] at h; simp [h]
  | cons c pre ih =>
    cases s with
    | nil => simp [stripPrefix] at h
    | cons d s =>
      simp only [stripPrefix] at h
      by_cases hcd : (c == d) = true
      · simp only [hcd, ↓reduceIte] at h
        rw [ih s h]
        simp only [beq_iff_eq] at hcd
        simp [hcd]
      · simp [hcd] at h

/-- a name below group `g` is `q ++ "/" ++ rel` for some `q` -/
theorem relName_eq (g n r : Str) (h : relName g n = some r) : ∃ q, n = q ++ '/' :: r := by
  unfold relName at h
  by_cases hg : (g == ['/']) = true
  · simp only [hg, ↓reduceIte] at h
    cases hs : stripPrefix ['/'] n with
    | none => simp [hs] at h
    | some x =>
      cases x with
      | nil => simp [hs] at h
      | cons c x =>
        simp only [hs, Option.some.injEq] at h
        refine ⟨[], ?_⟩
        rw [stripPrefix_eq _ _ _ hs, h]; rfl
  · simp only [hg, Bool.false_eq_true, ↓reduceIte] at h
    cases hs : stripPrefix (g ++ ['/']) n with
    | none => simp [hs] at h
    | some x =>
      cases x with
      | nil => simp [hs] at h
      | cons c x =>
        simp only [hs, Option.some.injEq] at h
        refine ⟨g, ?_⟩
        rw [stripPrefix_eq _ _ _ hs, h]; simp

/-- a reserved segment of the relative name is a reserved segment of the absolute name -/
theorem reserved_rel_abs (q r : Str) (h : hasReservedSeg r) : hasReservedSeg (q ++ '/' :: r) := by
  obtain ⟨seg, hseg, hs⟩ := h
  refine ⟨seg, ?_, hs⟩
  rw [split_append_sep]
  exact List.mem_append_right _ hseg

/-! ### raw operations and the user view -/

/-- is the part of a name below a node reserved? (`r` is `[]` or `"/…"`) -/
def relInt : Str → Bool
  | [] => false
  | _ :: r => isInternalPath r

theorem suffixBelow_eq (p n r : Str) (h : suffixBelow p n = some r) :
    n = p ++ r ∧ (r = [] ∨ ∃ r', r = '/' :: r') := by
  cases hs : stripPrefix p n with
  | none => simp [suffixBelow, hs] at h
  | some x =>
    have hx := stripPrefix_eq p n x hs
    cases x with
    | nil =>
      simp only [suffixBelow, hs, Option.some.injEq] at h
      subst h; exact ⟨hx, Or.inl rfl⟩
    | cons c x =>
      by_cases hc : c = '/'
      · subst hc
        simp only [suffixBelow, hs, Option.some.injEq] at h
        subst h
        exact ⟨hx, Or.inr ⟨x, rfl⟩⟩
      · have hnone : suffixBelow p n = none := by
          simp only [suffixBelow, hs]
          split
          · rename_i heq; cases heq
          · rename_i heq; injection heq with heq; injection heq with h1 _; exact absurd h1 hc
          · rfl
        rw [hnone] at h; cases h

theorem hasReservedSeg_append_sep (a b : Str) :
    hasReservedSeg (a ++ '/' :: b) ↔ hasReservedSeg a ∨ hasReservedSeg b := by
  unfold hasReservedSeg
  rw [split_append_sep]
  constructor
  · rintro ⟨seg, hm, hs⟩
    rcases List.mem_append.mp hm with h | h
    · exact Or.inl ⟨seg, h, hs⟩
    · exact Or.inr ⟨seg, h, hs⟩
  · rintro (⟨seg, hm, hs⟩ | ⟨seg, hm, hs⟩)
    · exact ⟨seg, List.mem_append_left _ hm, hs⟩
    · exact ⟨seg, List.mem_append_right _ hm, hs⟩

theorem internal_append (p r : Str) (h : r = [] ∨ ∃ r', r = '/' :: r') :
    isInternalPath (p ++ r) = (isInternalPath p || relInt r) := by
  rcases h with h | ⟨r', h⟩
  · subst h; simp [relInt]
  · subst h
    rw [Bool.eq_iff_iff]
    simp only [relInt, Bool.or_eq_true, isInternalPath_iff]
    exact hasReservedSeg_append_sep p r'

theorem filter_filterMap {α β : Type} (f : α → Option β) (p : α → Bool) (q : β → Bool) (l : List α)
    (h : ∀ x y, f x = some y → q y = p x) : (l.filterMap f).filter q = (l.filter p).filterMap f := by
  induction l with
  | nil => rfl
  | cons a l ih =>
    cases hf : f a with
    | none =>
      by_cases hp : p a = true
      · simp [hf, hp, ih]
      · simp [hf, hp, ih]
    | some y =>
      have := h a y hf
      by_cases hp : p a = true
      · simp [hf, hp, this, ih]
      · simp [hf, hp, this, ih]

theorem userView_append (a b : Raw) : userView (a ++ b) = userView a ++ userView b := by
  simp [userView]

/-- deleting a user node commutes with the user view -/
theorem userView_delete_comm (p : Str) (raw : Raw) :
    userView (rawDelete p raw) = rawDelete p (userView raw) := by
  simp only [userView, rawDelete, List.filter_filter]
  apply List.filter_congr
  intro nd _
  exact Bool.and_comm _ _

/-- deleting a reserved node (and everything below it) does not change the user view -/
theorem userView_delete_internal (p : Str) (hp : isInternalPath p = true) (raw : Raw) :
    userView (rawDelete p raw) = userView raw := by
  simp only [userView, rawDelete, List.filter_filter]
  apply List.filter_congr
  intro nd _
  cases hs : suffixBelow p nd.name with
  | none => simp
  | some r =>
    obtain ⟨hn, hr⟩ := suffixBelow_eq p nd.name r hs
    have : isInternalPath nd.name = true := by rw [hn, internal_append p r hr, hp]; rfl
    simp [this]

/-- the nodes a copy adds -/
def copied (src dst : Str) (raw : Raw) : Raw :=
  raw.filterMap fun nd => (suffixBelow src nd.name).map fun r => ⟨dst ++ r, nd.isGroup⟩

theorem rawCopy_eq (src dst : Str) (raw : Raw) : rawCopy src dst raw = raw ++ copied src dst raw := rfl

theorem userView_copied_internal (src dst : Str) (hd : isInternalPath dst = true) (raw : Raw) :
    userView (copied src dst raw) = [] := by
  simp only [userView, copied, List.filter_eq_nil_iff, List.mem_filterMap, Option.map_eq_some_iff,
    Bool.not_eq_eq_eq_not, Bool.not_true, Bool.not_eq_false]
  rintro nd ⟨nd0, _, r, hs, rfl⟩
  obtain ⟨_, hr⟩ := suffixBelow_eq src nd0.name r hs
  simp [internal_append dst r hr, hd]

theorem userView_copied_user (src dst : Str) (hs : isInternalPath src = false)
    (hd : isInternalPath dst = false) (raw : Raw) :
    userView (copied src dst raw) = copied src dst (userView raw) := by
  unfold userView copied
  apply filter_filterMap
  intro nd y hy
  simp only [Option.map_eq_some_iff] at hy
  obtain ⟨r, hsuf, rfl⟩ := hy
  obtain ⟨hn, hr⟩ := suffixBelow_eq src nd.name r hsuf
  simp only
  rw [hn, internal_append dst r hr, internal_append src r hr, hs, hd]

end MetadorModel.Paths
