import MetadorModel.Proofs.OverlayWriteView
/-!
# C01 write side, part 8: one step of the overlay refines one step of the plain tree

`Sim x y` relates the outcome of an overlay write with the outcome of the same call on the
plain tree: both fail, or both succeed with `Rep`-related results (and the invariant holds
again). `step_sim_basic` proves it for `set`, `grp`, `del`, `sattr`, `dattr`, `patch`.
-/
namespace MetadorModel.Overlay
open MetadorModel.Tree
variable {V : Type}

/-! ### plain tree, point-wise -/

theorem kindAt_aput (t : Tree V) (p q : Path) (nd : Node V) :
    kindAt (aput p nd t) q = if q = p then some nd.kind else kindAt t q := by
  unfold kindAt; rw [aget_aput]; split <;> rfl

theorem attrAt_aput (t : Tree V) (p q : Path) (nd : Node V) (k : Key) :
    attrAt (aput p nd t) q k = if q = p then aget k nd.attrs else attrAt t q k := by
  unfold attrAt; rw [aget_aput]; split <;> rfl

theorem kindAt_ensure (t : Tree V) (p q : Path) :
    kindAt (ensure emptyGroup p t) q = match kindAt t q with
      | some kd => some kd
      | none => if q ∈ properPrefixes p then some .group else none := by
  unfold kindAt; rw [aget_ensure]
  cases aget q t with
  | some n => rfl
  | none =>
    by_cases hm : q ∈ properPrefixes p <;> simp [hm, emptyGroup]

theorem attrAt_ensure (t : Tree V) (p q : Path) (k : Key) :
    attrAt (ensure emptyGroup p t) q k = attrAt t q k := by
  unfold attrAt; rw [aget_ensure]
  cases aget q t with
  | some n => rfl
  | none =>
    by_cases hm : q ∈ properPrefixes p <;> simp [hm, emptyGroup, aget]

theorem kindAt_removeSub (t : Tree V) (p q : Path) :
    kindAt (removeSub p t) q = if isPre p q then none else kindAt t q := by
  unfold kindAt; rw [aget_removeSub]; split <;> rfl

theorem attrAt_removeSub (t : Tree V) (p q : Path) (k : Key) :
    attrAt (removeSub p t) q k = if isPre p q then none else attrAt t q k := by
  unfold attrAt; rw [aget_removeSub]; split <;> rfl

/-! ### the simulation relation -/

def Sim (x : Except Err (Rec V)) (y : Except Err (Tree V)) : Prop :=
  match x, y with
  | .ok r', .ok t' => Rep r' t' ∧ Inv r' ∧ r' ≠ []
  | .error _, .error _ => True
  | _, _ => False

theorem Sim.of_err {x : Except Err (Rec V)} {y : Except Err (Tree V)}
    (hx : ∃ e, x = .error e) (hy : ∃ e, y = .error e) : Sim x y := by
  obtain ⟨e, rfl⟩ := hx
  obtain ⟨e', rfl⟩ := hy
  trivial

theorem Sim.of_ok {x : Except Err (Rec V)} {y : Except Err (Tree V)} (r' : Rec V) (t' : Tree V)
    (hx : x = .ok r') (hy : y = .ok t') (h : Rep r' t' ∧ Inv r' ∧ r' ≠ []) : Sim x y := by
  subst hx; subst hy; exact h

/-! ### creating nodes -/

/-- the plain tree after creating a node of kind `kd` at `pre ++ [k] ++ more` shows what the
record shows after the chain was written -/
theorem rep_create (r r' : Rec V) (t : Tree V) (pre : Path) (k : Key) (more : Path) (kd : NKind V)
    (hrep : Rep r t) (hpre : viewKind r pre = some .group) (hk : viewKind r (pre ++ [k]) = none)
    (hview : ∀ q,
      (viewKind r' q =
        if isPre (pre ++ [k]) q then
          (if q = pre ++ [k] ++ more then some kd else if isPre q (pre ++ [k] ++ more) then some .group else none)
        else viewKind r q) ∧
      ∀ k', viewAttr r' q k' = if isPre (pre ++ [k]) q then none else viewAttr r q k') :
    Rep r' (aput (pre ++ [k] ++ more) ⟨kd, []⟩ (ensure emptyGroup (pre ++ [k] ++ more) t)) := by
  have hbelow : ∀ s, aget (pre ++ [k] ++ s) t = none :=
    fun s => hrep.below_none (pre ++ [k]) s (by rw [← (hrep _).1]; exact hk)
  intro q
  refine ⟨?_, fun k' => ?_⟩
  · rw [(hview q).1, kindAt_aput, kindAt_ensure]
    by_cases hb : isPre (pre ++ [k]) q = true
    · obtain ⟨s, rfl⟩ := (isPre_iff _ _).1 hb
      simp only [hb, ↓reduceIte, (kindAt_none_iff _ _).2 (hbelow s)]
      by_cases hq : pre ++ [k] ++ s = pre ++ [k] ++ more
      · simp [hq]
      · simp only [hq, ↓reduceIte]
        by_cases hp : isPre (pre ++ [k] ++ s) (pre ++ [k] ++ more) = true
        · have : pre ++ [k] ++ s ∈ properPrefixes (pre ++ [k] ++ more) := (mem_pp_iff_isPre _ _).2 ⟨hp, hq⟩
          simp only [hp, this, ↓reduceIte]
        · have : pre ++ [k] ++ s ∉ properPrefixes (pre ++ [k] ++ more) := fun hm => hp ((mem_pp_iff_isPre _ _).1 hm).1
          simp only [hp, this, ↓reduceIte, Bool.false_eq_true]
    · have hb' : isPre (pre ++ [k]) q = false := by simpa using hb
      have hq : q ≠ pre ++ [k] ++ more := by rintro rfl; rw [isPre_append] at hb'; cases hb'
      simp only [hb', Bool.false_eq_true, ↓reduceIte, hq, (hrep q).1]
      cases hkq : kindAt t q with
      | some kd' => rfl
      | none =>
        have : q ∉ properPrefixes (pre ++ [k] ++ more) := by
          intro hm
          have := pp_visible_of_part r pre k hpre q (mem_pp_of_mem_pp_append _ more q hm hb')
          rw [(hrep q).1, hkq] at this; cases this
        simp only [this, ↓reduceIte]
  · rw [(hview q).2 k', attrAt_aput, attrAt_ensure]
    by_cases hb : isPre (pre ++ [k]) q = true
    · obtain ⟨s, rfl⟩ := (isPre_iff _ _).1 hb
      simp only [hb, ↓reduceIte]
      by_cases hq : pre ++ [k] ++ s = pre ++ [k] ++ more
      · simp only [hq, ↓reduceIte, aget]
      · simp only [hq, ↓reduceIte, attrAt, hbelow s, Option.bind_none]
    · have hb' : isPre (pre ++ [k]) q = false := by simpa using hb
      have hq : q ≠ pre ++ [k] ++ more := by rintro rfl; rw [isPre_append] at hb'; cases hb'
      simp only [hb', Bool.false_eq_true, ↓reduceIte, hq, (hrep q).2 k']

theorem createGroup_sim (c : Cont V) (older : Rec V) (t : Tree V) (path : Path)
    (hinv : Inv (c :: older)) (hrep : Rep (c :: older) t) :
    Sim (W.createGroup (c :: older) path) (Spec.createGroup t path) := by
  cases hl : look (c :: older) path with
  | found cf nf =>
    apply Sim.of_err (createGroup_err _ path (Or.inl ⟨cf, nf, hl⟩))
    obtain ⟨e, he⟩ := hrep.checkFresh_exists path (by rw [(viewKind_of_found _ _ cf nf hl).1]; exact (viewKind_of_found _ _ cf nf hl).2)
    exact ⟨e, by simp [Spec.createGroup, he, bind, Except.bind]⟩
  | insideValue =>
    apply Sim.of_err (createGroup_err _ path (Or.inr hl))
    obtain ⟨x, s, v, rfl, hs, hx⟩ := look_inside_props _ _ hl
    obtain ⟨e, he⟩ := hrep.checkFresh_inside x s v hs hx
    exact ⟨e, by simp [Spec.createGroup, he, bind, Except.bind]⟩
  | part pre y =>
    obtain ⟨k, more, hpath, rfl, hpre, hk⟩ := look_part_props _ _ _ _ hl
    have hp2 : path = pre ++ [k] ++ more := by rw [hpath]; simp
    obtain ⟨c', h1, hinv', hview⟩ := createGroup_ok c older path pre k more hinv hl
    have hcf := hrep.checkFresh_ok pre k more hpre hk
    rw [← hpath] at hcf
    refine Sim.of_ok (c' :: older) _ h1 (by simp [Spec.createGroup, hcf, bind, Except.bind, pure, Except.pure]; rfl)
      ⟨?_, hinv', by simp⟩
    rw [hp2]
    apply rep_create (c :: older) (c' :: older) t pre k more .group hrep hpre hk
    intro q
    refine ⟨?_, (hview q).2⟩
    rw [(hview q).1, hp2]
    by_cases hb : isPre (pre ++ [k]) q = true
    · simp only [hb, ↓reduceIte]
      by_cases hq : q = pre ++ [k] ++ more
      · simp only [hq, isPre_refl, ↓reduceIte]
      · simp only [hq, ↓reduceIte]
    · simp [hb]

theorem createDataset_sim (c : Cont V) (older : Rec V) (t : Tree V) (path : Path) (v : V)
    (hinv : Inv (c :: older)) (hrep : Rep (c :: older) t) :
    Sim (W.createDataset (c :: older) path v) (Spec.createDataset t path v) := by
  cases hl : look (c :: older) path with
  | found cf nf =>
    apply Sim.of_err (createDataset_err c older path v (Or.inl ⟨cf, nf, hl⟩))
    obtain ⟨e, he⟩ := hrep.checkFresh_exists path (by rw [(viewKind_of_found _ _ cf nf hl).1]; exact (viewKind_of_found _ _ cf nf hl).2)
    exact ⟨e, by simp [Spec.createDataset, he, bind, Except.bind]⟩
  | insideValue =>
    apply Sim.of_err (createDataset_err c older path v (Or.inr hl))
    obtain ⟨x, s, v', rfl, hs, hx⟩ := look_inside_props _ _ hl
    obtain ⟨e, he⟩ := hrep.checkFresh_inside x s v' hs hx
    exact ⟨e, by simp [Spec.createDataset, he, bind, Except.bind]⟩
  | part pre y =>
    obtain ⟨k, more, hpath, rfl, hpre, hk⟩ := look_part_props _ _ _ _ hl
    have hp2 : path = pre ++ [k] ++ more := by rw [hpath]; simp
    obtain ⟨c', h1, hinv', hview⟩ := createDataset_ok c older path pre k more v hinv hl
    have hcf := hrep.checkFresh_ok pre k more hpre hk
    rw [← hpath] at hcf
    refine Sim.of_ok (c' :: older) _ h1 (by simp [Spec.createDataset, hcf, bind, Except.bind, pure, Except.pure]; rfl)
      ⟨?_, hinv', by simp⟩
    rw [hp2]
    apply rep_create (c :: older) (c' :: older) t pre k more (.data v) hrep hpre hk
    intro q
    refine ⟨?_, (hview q).2⟩
    rw [(hview q).1, hp2]

/-! ### deleting -/

theorem delete_sim (c : Cont V) (older : Rec V) (t : Tree V) (path : Path)
    (hinv : Inv (c :: older)) (hrep : Rep (c :: older) t) :
    Sim (W.delete (c :: older) path) (Spec.delete t path) := by
  by_cases hp : path = []
  · apply Sim.of_err (delete_err c older path (Or.inl hp))
    exact ⟨.root, by simp [Spec.delete, hp]⟩
  · by_cases hvis : viewKind (c :: older) path = none
    · apply Sim.of_err (delete_err c older path (Or.inr hvis))
      have : aget path t = none := by rw [← kindAt_none_iff, ← (hrep path).1]; exact hvis
      exact ⟨.missing, by simp [Spec.delete, hp, this]⟩
    · obtain ⟨c', h1, hinv', hview⟩ := delete_ok c older path hinv hp hvis
      have : ∃ n, aget path t = some n := by
        cases hg : aget path t with
        | none => exact absurd (by rw [(hrep path).1]; exact (kindAt_none_iff t path).2 hg) hvis
        | some n => exact ⟨n, rfl⟩
      obtain ⟨n, hn⟩ := this
      refine Sim.of_ok (c' :: older) (removeSub path t) h1 (by simp [Spec.delete, hp, hn]) ⟨?_, hinv', by simp⟩
      intro q
      refine ⟨?_, fun k' => ?_⟩
      · rw [(hview q).1, kindAt_removeSub, (hrep q).1]
      · rw [(hview q).2 k', attrAt_removeSub, (hrep q).2 k']

/-! ### attributes -/

theorem setAttr_sim (c : Cont V) (older : Rec V) (t : Tree V) (path : Path) (k : Key) (v : V)
    (hinv : Inv (c :: older)) (hrep : Rep (c :: older) t) :
    Sim (W.setAttr (c :: older) path k v) (Spec.setAttr t path k v) := by
  by_cases hvis : viewKind (c :: older) path = none
  · apply Sim.of_err (setAttr_err _ path k v hvis)
    have : aget path t = none := by rw [← kindAt_none_iff, ← (hrep path).1]; exact hvis
    exact ⟨.missing, by simp [Spec.setAttr, this]⟩
  · obtain ⟨c', h1, hinv', hk', ha'⟩ := setAttr_ok c older path k v hinv hvis
    obtain ⟨n, hn⟩ : ∃ n, aget path t = some n := by
      cases hg : aget path t with
      | none => exact absurd (by rw [(hrep path).1]; exact (kindAt_none_iff t path).2 hg) hvis
      | some n => exact ⟨n, rfl⟩
    refine Sim.of_ok (c' :: older) _ h1 (by simp only [Spec.setAttr, hn]; rfl) ⟨?_, hinv', by simp⟩
    intro q
    refine ⟨?_, fun k' => ?_⟩
    · rw [hk' q, kindAt_aput, (hrep q).1]
      by_cases hq : q = path
      · subst hq; simp [kindAt, hn]
      · simp [hq]
    · rw [ha' q k', attrAt_aput, (hrep q).2 k']
      by_cases hq : q = path
      · subst hq
        simp only [true_and, ↓reduceIte, aget_aput]
        by_cases hkk : k' = k
        · simp [hkk]
        · simp [hkk, attrAt, hn]
      · simp [hq]

theorem delAttr_sim (c : Cont V) (older : Rec V) (t : Tree V) (path : Path) (k : Key)
    (hinv : Inv (c :: older)) (hrep : Rep (c :: older) t) :
    Sim (W.delAttr (c :: older) path k) (Spec.delAttr t path k) := by
  by_cases hvis : viewAttr (c :: older) path k = none
  · apply Sim.of_err (delAttr_err c older path k hvis)
    rw [(hrep path).2 k] at hvis
    unfold attrAt at hvis
    cases hg : aget path t with
    | none => exact ⟨.missing, by simp [Spec.delAttr, hg]⟩
    | some n =>
      simp only [hg, Option.bind_some] at hvis
      exact ⟨.missing, by simp [Spec.delAttr, hg, hvis]⟩
  · obtain ⟨c', h1, hinv', hk', ha'⟩ := delAttr_ok c older path k hinv hvis
    rw [(hrep path).2 k] at hvis
    unfold attrAt at hvis
    cases hg : aget path t with
    | none => simp [hg] at hvis
    | some n =>
      simp only [hg, Option.bind_some] at hvis
      obtain ⟨v0, hv0⟩ : ∃ v0, aget k n.attrs = some v0 := by
        cases hx : aget k n.attrs with
        | none => exact absurd hx hvis
        | some v0 => exact ⟨v0, rfl⟩
      refine Sim.of_ok (c' :: older) _ h1 (by simp only [Spec.delAttr, hg, hv0]; rfl) ⟨?_, hinv', by simp⟩
      intro q
      refine ⟨?_, fun k' => ?_⟩
      · rw [hk' q, kindAt_aput, (hrep q).1]
        by_cases hq : q = path
        · subst hq; simp [kindAt, hg]
        · simp [hq]
      · rw [ha' q k', attrAt_aput, (hrep q).2 k']
        by_cases hq : q = path
        · subst hq
          simp only [true_and, ↓reduceIte, aget_aerase]
          by_cases hkk : k' = k
          · simp [hkk]
          · simp [hkk, attrAt, hg]
        · simp [hq]

/-! ### patch boundary -/

theorem newPatch_sim (c : Cont V) (older : Rec V) (t : Tree V)
    (hinv : Inv (c :: older)) (hrep : Rep (c :: older) t) :
    Sim (W.step (c :: older) .patch) (Spec.step t .patch) := by
  refine Sim.of_ok (newPatch (c :: older)) t rfl rfl ⟨?_, ⟨wf_init, invLast_init _, hinv⟩, by simp [newPatch]⟩
  intro q
  obtain ⟨h1, h2⟩ := view_newPatch' (c :: older) q
  exact ⟨by rw [h1, (hrep q).1], fun k => by rw [h2 k, (hrep q).2 k]⟩

/-! ### all basic operations -/

/-- the operations of the alphabet except `copy` and `move` -/
def _root_.MetadorModel.Tree.Op.isBasic : Op V → Bool
  | .copy _ _ => false
  | .move _ _ => false
  | _ => true

theorem step_sim_basic (r : Rec V) (t : Tree V) (op : Op V) (hb : op.isBasic = true)
    (hne : r ≠ []) (hinv : Inv r) (hrep : Rep r t) : Sim (W.step r op) (Spec.step t op) := by
  cases r with
  | nil => exact absurd rfl hne
  | cons c older =>
    cases op with
    | set p v => exact createDataset_sim c older t p v hinv hrep
    | grp p => exact createGroup_sim c older t p hinv hrep
    | del p => exact delete_sim c older t p hinv hrep
    | sattr p k v => exact setAttr_sim c older t p k v hinv hrep
    | dattr p k => exact delAttr_sim c older t p k hinv hrep
    | copy s d => cases hb
    | move s d => cases hb
    | patch => exact newPatch_sim c older t hinv hrep

/-! ### the invariant alone (no plain tree needed) -/

theorem ok_inj {α : Type} {x : Except Err α} {a b : α} (h1 : x = .ok a) (h2 : x = .ok b) : a = b := by
  rw [h1] at h2; cases h2; rfl

theorem ok_ne_err {α : Type} {x : Except Err α} {a : α} (h1 : x = .ok a) (h2 : ∃ e, x = .error e) : False := by
  obtain ⟨e, he⟩ := h2; rw [h1] at he; cases he

/-- a record without containers refuses everything -/
theorem step_nil_basic (op : Op V) (hb : op.isBasic = true) : ∃ e, W.step ([] : Rec V) op = .error e := by
  cases op with
  | set p v => exact ⟨.closed, rfl⟩
  | grp p =>
    simp only [W.step, W.createGroup]
    cases hl : look ([] : Rec V) p with
    | found cf nf => exact ⟨_, rfl⟩
    | insideValue => exact ⟨_, rfl⟩
    | part pre y =>
      cases y with
      | nil => exact ⟨_, rfl⟩
      | cons k more =>
        by_cases hm : more = []
        · exact ⟨.closed, by simp [hm, W.createGroupAt]⟩
        · exact ⟨.closed, by simp [hm, W.createGroupAt, bind, Except.bind]⟩
  | del p => exact ⟨.closed, rfl⟩
  | sattr p k v =>
    simp only [W.step, W.setAttr]
    cases hl : look ([] : Rec V) p with
    | found cf nf => exact ⟨.closed, rfl⟩
    | insideValue => exact ⟨_, rfl⟩
    | part pre y => exact ⟨_, rfl⟩
  | dattr p k => exact ⟨.closed, rfl⟩
  | copy s d => cases hb
  | move s d => cases hb
  | patch => exact ⟨.closed, rfl⟩

/-- every successful basic operation re-establishes the record invariant (and leaves at least
one container) -/
theorem step_inv_basic (r r' : Rec V) (op : Op V) (hb : op.isBasic = true) (hinv : Inv r)
    (h : W.step r op = .ok r') : Inv r' ∧ r' ≠ [] := by
  cases r with
  | nil => exact (ok_ne_err h (step_nil_basic op hb)).elim
  | cons c older =>
    cases op with
    | set p v =>
      cases hl : look (c :: older) p with
      | found cf nf => exact (ok_ne_err h (createDataset_err c older p v (Or.inl ⟨cf, nf, hl⟩))).elim
      | insideValue => exact (ok_ne_err h (createDataset_err c older p v (Or.inr hl))).elim
      | part pre y =>
        obtain ⟨k, more, _, rfl, _, _⟩ := look_part_props _ _ _ _ hl
        obtain ⟨c', h1, hinv', _⟩ := createDataset_ok c older p pre k more v hinv hl
        rw [← ok_inj h1 h]; exact ⟨hinv', by simp⟩
    | grp p =>
      cases hl : look (c :: older) p with
      | found cf nf => exact (ok_ne_err h (createGroup_err _ p (Or.inl ⟨cf, nf, hl⟩))).elim
      | insideValue => exact (ok_ne_err h (createGroup_err _ p (Or.inr hl))).elim
      | part pre y =>
        obtain ⟨k, more, _, rfl, _, _⟩ := look_part_props _ _ _ _ hl
        obtain ⟨c', h1, hinv', _⟩ := createGroup_ok c older p pre k more hinv hl
        rw [← ok_inj h1 h]; exact ⟨hinv', by simp⟩
    | del p =>
      by_cases hp : p = [] ∨ viewKind (c :: older) p = none
      · exact (ok_ne_err h (delete_err c older p hp)).elim
      · obtain ⟨c', h1, hinv', _⟩ := delete_ok c older p hinv (fun h0 => hp (Or.inl h0)) (fun h0 => hp (Or.inr h0))
        rw [← ok_inj h1 h]; exact ⟨hinv', by simp⟩
    | sattr p k v =>
      by_cases hp : viewKind (c :: older) p = none
      · exact (ok_ne_err h (setAttr_err _ p k v hp)).elim
      · obtain ⟨c', h1, hinv', _⟩ := setAttr_ok c older p k v hinv hp
        rw [← ok_inj h1 h]; exact ⟨hinv', by simp⟩
    | dattr p k =>
      by_cases hp : viewAttr (c :: older) p k = none
      · exact (ok_ne_err h (delAttr_err c older p k hp)).elim
      · obtain ⟨c', h1, hinv', _⟩ := delAttr_ok c older p k hinv hp
        rw [← ok_inj h1 h]; exact ⟨hinv', by simp⟩
    | copy s d => cases hb
    | move s d => cases hb
    | patch =>
      simp only [W.step, Except.ok.injEq] at h
      subst h
      exact ⟨⟨wf_init, invLast_init _, hinv⟩, by simp [newPatch]⟩

end MetadorModel.Overlay
