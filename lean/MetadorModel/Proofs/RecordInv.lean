import MetadorModel.Proofs.RecordSpec
/-! Frame conditions, the write-set characterisation and the handle invariant of the record
model (C02). -/
namespace MetadorModel.Record
open MetadorModel.FindFiles

/-! ## names -/

theorem baseFile_last (n : Name) : (baseFile n).getLast? = some '5' := by
  simp [baseFile, ext, List.getLast?_append]

theorem patchFile_last (n : Name) (k : Nat) : (patchFile n k).getLast? = some '5' := by
  simp [patchFile, ext, List.getLast?_append]

theorem manifestFile_last (f : Name) : (manifestFile f).getLast? = some 'n' := by
  simp [manifestFile, mfExt, List.getLast?_append]

theorem manifestFile_inj {f g : Name} (h : manifestFile f = manifestFile g) : f = g := by
  unfold manifestFile at h
  exact List.append_cancel_right h

/-! ## frame of every call -/

theorem createPatch_frame (s : State) : Frame s (createPatch s) := by
  rcases createPatch_spec s with hf | ⟨f0, u0, rest, fl, ul, _, _, _, _, _, _, _, heq⟩
  · exact hf.frame
  · rw [heq]
    intro g hg
    simp only [Res.W, List.append_nil, List.mem_cons, List.not_mem_nil, or_false] at hg
    exact getF_setF_ne _ _ _ _ hg

theorem commitPlain_frame (s : State) : Frame s (commitPlain s) := by
  rcases commitPlain_spec s with hf | ⟨f, ub, p, _, _, _, _, _, heq⟩
  · exact hf.frame
  · rw [heq]
    intro g hg
    simp only [Res.W, List.append_nil, List.nil_append, List.mem_cons, List.not_mem_nil, or_false] at hg
    exact getF_setF_ne _ _ _ _ hg

theorem commitMF_frame (s : State) : Frame s (commitMF s) := by
  rcases commitMF_spec s with hf | ⟨f, ub, p, _, _, _, _, _, _, hd, _, _, _, hW⟩
  · exact hf.frame
  · intro g hg
    rw [hW] at hg
    simp only [not_or] at hg
    rw [hd, getF_setF_ne _ _ _ _ hg.2, getF_setF_ne _ _ _ _ hg.1]

theorem commitPatch_frame (s : State) : Frame s (commitPatch s) := by
  unfold commitPatch; split
  · exact commitMF_frame s
  · exact commitPlain_frame s

theorem discardPatch_frame (s : State) : Frame s (discardPatch s) := by
  rcases discardPatch_spec s with hf | ⟨f, ub, _, _, _, _, _, heq⟩
  · exact hf.frame
  · rw [heq]
    intro g hg
    simp only [Res.W, List.append_nil, List.nil_append, List.mem_cons, List.not_mem_nil, or_false] at hg
    exact getF_eraseF_ne _ _ _ hg

theorem write_frame (s : State) (k : Nat) : Frame s (write s k) := by
  rcases write_spec s k with hf | ⟨f, u, _, _, _, ⟨ub, p, _, heq⟩ | ⟨_, heq⟩⟩
  · exact hf.frame
  · rw [heq]
    intro g hg
    simp only [Res.W, List.append_nil, List.nil_append, List.mem_cons, List.not_mem_nil, or_false] at hg
    exact getF_setF_ne _ _ _ _ hg
  · rw [heq]; intro g _; rfl

theorem close_frame (s : State) (c : Bool) : Frame s (close s c) := by
  rcases close_spec s c with ⟨_, heq⟩ | ⟨_, _, _, _, heq⟩ | ⟨_, _, _, _, heq⟩ | ⟨_, _, heq⟩
  · rw [heq]; intro g _; rfl
  · rw [heq]; exact commitPatch_frame s
  · rw [heq]; intro g hg; exact commitPatch_frame s g hg
  · rw [heq]; intro g _; rfl

theorem openExisting_frame (s : State) (c : Bool) (paths : List Name) (m : Mode) :
    Frame s (openExisting s c paths m) := by
  rcases openExisting_spec s c paths m with hf | ⟨files, b, man, _, _, ⟨_, heq⟩ | ⟨_, _, heq⟩⟩
  · exact hf.frame
  · rw [heq]; intro g _; rfl
  · rw [heq]; exact createPatch_frame _

theorem createRec_frame (s : State) (c : Bool) (n : Name) (t : Bool) (o : List Name) :
    Frame s (createRec s c n t o) := by
  rcases createRec_spec s c n t o with ⟨_, heq⟩ | ⟨_, e, _, _, heq⟩ | ⟨_, _, _, heq⟩
  · rw [heq]; exact frame_fail _ _
  · rw [heq]
    intro g hg
    simp only [Res.W, List.nil_append, List.append_nil] at hg
    exact getF_eraseAll_not_mem _ _ _ hg
  · rw [heq]
    intro g hg
    simp only [Res.W, List.append_nil, List.cons_append, List.nil_append, List.mem_cons, not_or] at hg
    simp only
    rw [getF_setF_ne _ _ _ _ hg.1]
    exact getF_eraseAll_not_mem _ _ _ hg.2

theorem openRec_frame (s : State) (c : Bool) (t : Target) (m : Mode) : Frame s (openRec s c t m) := by
  unfold openRec
  split
  · exact frame_fail _ _
  · cases t with
    | list fs =>
      simp only
      split
      · exact frame_fail _ _
      · split
        · exact frame_fail _ _
        · exact openExisting_frame _ _ _ _
    | name n =>
      cases m <;> simp only <;> first
        | exact createRec_frame _ _ _ _ _
        | (split
           · exact frame_fail _ _
           · first
             | exact frame_fail _ _
             | (split
                · exact createRec_frame _ _ _ _ _
                · exact frame_fail _ _)
           · exact openExisting_frame _ _ _ _)

theorem mergeFiles_frame (s : State) (t : Name) : Frame s (mergeFiles s t) := by
  rcases mergeFiles_spec s t with hf | ⟨_, _, _, _, _, _, _, _, hfr, _, _, hside, hbase⟩
  · exact hf.frame
  · intro g hg
    by_cases h1 : g = baseFile t
    · subst h1; exact absurd hbase hg
    · by_cases h2 : g = manifestFile (baseFile t)
      · subst h2
        rcases hside with h | ⟨h, _⟩
        · exact h
        · exact absurd h hg
      · exact hfr g h1 h2

theorem read_state (s : State) : (read s).st = s ∧ (read s).W = [] := by
  unfold read; split <;> simp [fail, Res.W]

theorem read_frame (s : State) : Frame s (read s) := by
  intro g _; rw [(read_state s).1]

theorem step_frame (s : State) (op : Op) : Frame s (step s op) := by
  cases op with
  | openRec c t m => exact openRec_frame s c t m
  | write k => exact write_frame s k
  | read => exact read_frame s
  | createPatch => exact createPatch_frame s
  | commitPatch => exact commitPatch_frame s
  | discardPatch => exact discardPatch_frame s
  | close c => exact close_frame s c
  | merge t => exact mergeFiles_frame s t
  | deleteFiles n => exact deleteFiles_frame s n


/-- an existing container without checksum -/
def UncommittedCont (d : Disk) (f : Name) : Prop :=
  ∃ ub p, getF d f = some (.cont ub p) ∧ ub.hash = none

/-- a name that is free and looks like a container name -/
def FreshCont (d : Disk) (f : Name) : Prop := getF d f = none ∧ f.getLast? = some '5'

/-- what an API call may create, remove or rewrite: a fresh container name, an uncommitted
container, or the manifest sidecar of one of these -/
def Touchable (d : Disk) (f : Name) : Prop :=
  FreshCont d f ∨ UncommittedCont d f ∨ ∃ g, f = manifestFile g ∧ (FreshCont d g ∨ UncommittedCont d g)

/-- the invariant of C02: containers have container names; if the handle has a writable
container, it is its last file and that file is an uncommitted container on disk -/
structure Inv (s : State) : Prop where
  diskOk : ∀ f ub p, getF s.disk f = some (.cont ub p) → f.getLast? = some '5'
  writable : hasWritable s.h = true → ∃ f ub, lastFile s.h.files = some (f, ub) ∧ UncommittedCont s.disk f

theorem inv_of_failed {s : State} {r : Res} (hi : Inv s) (hf : Failed s r) : Inv r.st :=
  ⟨by rw [hf.2.1]; exact hi.diskOk, by rw [hf.2.1, hf.2.2.1]; exact hi.writable⟩

theorem touch_of_failed {s : State} {r : Res} (hf : Failed s r) : ∀ f ∈ r.W, Touchable s.disk f := by
  rw [hf.W]; intro f hf; cases hf

/-! ### create_patch -/
theorem createPatch_touch (s : State) : ∀ f ∈ (createPatch s).W, Touchable s.disk f := by
  rcases createPatch_spec s with hf | ⟨f0, u0, rest, fl, ul, _, _, _, _, _, _, hfresh, heq⟩
  · exact touch_of_failed hf
  · rw [heq]
    intro f hf
    simp only [Res.W, List.append_nil, List.mem_cons, List.not_mem_nil, or_false] at hf
    subst hf
    exact Or.inl ⟨hfresh, patchFile_last _ _⟩

theorem createPatch_inv (s : State) (hi : Inv s) : Inv (createPatch s).st := by
  rcases createPatch_spec s with hf | ⟨f0, u0, rest, fl, ul, _, _, _, _, _, _, hfresh, heq⟩
  · exact inv_of_failed hi hf
  · rw [heq]
    constructor
    · intro f ub p hg
      simp only at hg
      by_cases h : f = patchFile (inferName f0) (ul.idx + 1)
      · subst h; exact patchFile_last _ _
      · rw [getF_setF_ne _ _ _ _ h] at hg; exact hi.diskOk f ub p hg
    · intro _
      refine ⟨_, _, lastFile_append_single _ _, _, _, getF_setF_eq _ _ _, rfl⟩

/-! ### commit -/
theorem commitPlain_touch (s : State) (hi : Inv s) : ∀ f ∈ (commitPlain s).W, Touchable s.disk f := by
  rcases commitPlain_spec s with hf | ⟨f, ub, p, hl, _, _, hw, _, heq⟩
  · exact touch_of_failed hf
  · rw [heq]
    intro g hg
    simp only [Res.W, List.append_nil, List.nil_append, List.mem_cons, List.not_mem_nil, or_false] at hg
    subst hg
    obtain ⟨f', ub', hl', hu⟩ := hi.writable hw
    rw [hl] at hl'; cases hl'
    exact Or.inr (Or.inl hu)

theorem hasWritable_lastRW_false (h : Handle) (fs : List (Name × UB)) :
    hasWritable { h with files := fs, lastRW := false } = false := by
  simp [hasWritable]

theorem commitPlain_inv (s : State) (hi : Inv s) : Inv (commitPlain s).st := by
  rcases commitPlain_spec s with hf | ⟨f, ub, p, hl, _, _, hw, hp, heq⟩
  · exact inv_of_failed hi hf
  · rw [heq]
    constructor
    · intro g ubg pg hg
      simp only at hg
      by_cases h : g = f
      · subst h
        unfold payloadOf at hp
        cases hgf : getF s.disk g with
        | none => simp [hgf] at hp
        | some v =>
          cases v with
          | cont u q => exact hi.diskOk g u q hgf
          | mf a b => simp [hgf] at hp
      · rw [getF_setF_ne _ _ _ _ h] at hg; exact hi.diskOk g ubg pg hg
    · intro h
      simp [hasWritable] at h

theorem commitMF_touch (s : State) (hi : Inv s) : ∀ f ∈ (commitMF s).W, Touchable s.disk f := by
  rcases commitMF_spec s with hf | ⟨f, ub, p, hl, _, _, hw, _, _, _, _, _, _, hW⟩
  · exact touch_of_failed hf
  · intro g hg
    obtain ⟨f', ub', hl', hu⟩ := hi.writable hw
    rw [hl] at hl'; cases hl'
    rcases (hW g).mp hg with rfl | rfl
    · exact Or.inr (Or.inl hu)
    · exact Or.inr (Or.inr ⟨_, rfl, Or.inr hu⟩)

theorem commitMF_inv (s : State) (hi : Inv s) : Inv (commitMF s).st := by
  rcases commitMF_spec s with hf | ⟨f, ub, p, hl, _, _, hw, hp, _, hd, hh, _, _, _⟩
  · exact inv_of_failed hi hf
  · constructor
    · intro g ubg pg hg
      rw [hd] at hg
      by_cases h2 : g = manifestFile f
      · subst h2; rw [getF_setF_eq] at hg; cases hg
      · rw [getF_setF_ne _ _ _ _ h2] at hg
        by_cases h : g = f
        · subst h
          unfold payloadOf at hp
          cases hgf : getF s.disk g with
          | none => simp [hgf] at hp
          | some v =>
            cases v with
            | cont u q => exact hi.diskOk g u q hgf
            | mf a b => simp [hgf] at hp
        · rw [getF_setF_ne _ _ _ _ h] at hg; exact hi.diskOk g ubg pg hg
    · intro h
      rw [hh] at h
      simp [hasWritable] at h

theorem commitPatch_touch (s : State) (hi : Inv s) : ∀ f ∈ (commitPatch s).W, Touchable s.disk f := by
  unfold commitPatch; split
  · exact commitMF_touch s hi
  · exact commitPlain_touch s hi

theorem commitPatch_inv (s : State) (hi : Inv s) : Inv (commitPatch s).st := by
  unfold commitPatch; split
  · exact commitMF_inv s hi
  · exact commitPlain_inv s hi

/-! ### discard -/
theorem discardPatch_touch (s : State) (hi : Inv s) : ∀ f ∈ (discardPatch s).W, Touchable s.disk f := by
  rcases discardPatch_spec s with hf | ⟨f, ub, hl, _, _, hw, _, heq⟩
  · exact touch_of_failed hf
  · rw [heq]
    intro g hg
    simp only [Res.W, List.append_nil, List.nil_append, List.mem_cons, List.not_mem_nil, or_false] at hg
    subst hg
    obtain ⟨f', ub', hl', hu⟩ := hi.writable hw
    rw [hl] at hl'; cases hl'
    exact Or.inr (Or.inl hu)

theorem discardPatch_inv (s : State) (hi : Inv s) : Inv (discardPatch s).st := by
  rcases discardPatch_spec s with hf | ⟨f, ub, hl, _, _, hw, _, heq⟩
  · exact inv_of_failed hi hf
  · rw [heq]
    constructor
    · intro g ubg pg hg
      simp only at hg
      by_cases h : g = f
      · subst h; rw [getF_eraseF_eq] at hg; cases hg
      · rw [getF_eraseF_ne _ _ _ h] at hg; exact hi.diskOk g ubg pg hg
    · intro h
      simp [hasWritable] at h

/-! ### write -/
theorem write_touch (s : State) (k : Nat) (hi : Inv s) : ∀ f ∈ (write s k).W, Touchable s.disk f := by
  rcases write_spec s k with hf | ⟨f, u, hl, hw, _, ⟨ub, p, _, heq⟩ | ⟨_, heq⟩⟩
  · exact touch_of_failed hf
  · rw [heq]
    intro g hg
    simp only [Res.W, List.append_nil, List.nil_append, List.mem_cons, List.not_mem_nil, or_false] at hg
    subst hg
    obtain ⟨f', ub', hl', hu⟩ := hi.writable hw
    rw [hl] at hl'; cases hl'
    exact Or.inr (Or.inl hu)
  · rw [heq]; intro g hg; simp [Res.W] at hg

theorem write_inv (s : State) (k : Nat) (hi : Inv s) : Inv (write s k).st := by
  rcases write_spec s k with hf | ⟨f, u, hl, hw, _, ⟨ub, p, hg0, heq⟩ | ⟨_, heq⟩⟩
  · exact inv_of_failed hi hf
  · rw [heq]
    obtain ⟨f', ub', hl', ubd, pd, hgd, hnone⟩ := hi.writable hw
    rw [hl] at hl'; cases hl'
    rw [hg0] at hgd; cases hgd
    constructor
    · intro g ubg pg hg
      simp only at hg
      by_cases h : g = f
      · subst h; exact hi.diskOk g _ _ hg0
      · rw [getF_setF_ne _ _ _ _ h] at hg; exact hi.diskOk g ubg pg hg
    · intro _
      exact ⟨f, u, hl, _, _, getF_setF_eq _ _ _, hnone⟩
  · rw [heq]; exact hi

/-! ### close -/
theorem hasWritable_closedHandle (h : Handle) : hasWritable (closedHandle h) = false := by
  simp [hasWritable, closedHandle]

theorem close_touch (s : State) (c : Bool) (hi : Inv s) : ∀ f ∈ (close s c).W, Touchable s.disk f := by
  rcases close_spec s c with ⟨_, heq⟩ | ⟨_, _, _, _, heq⟩ | ⟨_, _, _, _, heq⟩ | ⟨_, _, heq⟩
  · rw [heq]; intro g hg; simp [Res.W] at hg
  · rw [heq]; exact commitPatch_touch s hi
  · rw [heq]; exact commitPatch_touch s hi
  · rw [heq]
    intro g hg
    simp only [Res.W, List.append_nil, List.nil_append] at hg
    by_cases hw : hasWritable s.h
    · simp only [hw, if_true] at hg
      obtain ⟨f', ub', hl', hu⟩ := hi.writable hw
      rw [hl'] at hg
      simp only [List.mem_cons, List.not_mem_nil, or_false] at hg
      subst hg
      exact Or.inr (Or.inl hu)
    · simp [hw] at hg

theorem close_inv (s : State) (c : Bool) (hi : Inv s) : Inv (close s c).st := by
  rcases close_spec s c with ⟨_, heq⟩ | ⟨_, _, _, _, heq⟩ | ⟨_, _, _, _, heq⟩ | ⟨_, _, heq⟩
  · rw [heq]; exact hi
  · rw [heq]; exact commitPatch_inv s hi
  · rw [heq]
    exact ⟨(commitPatch_inv s hi).diskOk, by intro h; simp [hasWritable_closedHandle] at h⟩
  · rw [heq]
    exact ⟨hi.diskOk, by intro h; simp [hasWritable_closedHandle] at h⟩


/-! ### open -/
theorem createRec_notrunc_touch (s : State) (c : Bool) (n : Name) (o : List Name) :
    ∀ f ∈ (createRec s c n false o).W, Touchable s.disk f := by
  rcases createRec_notrunc s c n o with hf | ⟨_, _, hfresh, heq⟩
  · exact touch_of_failed hf
  · rw [heq]
    intro f hf
    simp only [Res.W, List.append_nil, List.mem_cons, List.not_mem_nil, or_false] at hf
    subst hf
    exact Or.inl ⟨hfresh, baseFile_last _⟩

theorem createRec_notrunc_inv (s : State) (c : Bool) (n : Name) (o : List Name) (hi : Inv s) :
    Inv (createRec s c n false o).st := by
  rcases createRec_notrunc s c n o with hf | ⟨_, _, hfresh, heq⟩
  · exact inv_of_failed hi hf
  · rw [heq]
    constructor
    · intro f ub p hg
      simp only at hg
      by_cases h : f = baseFile n
      · subst h; exact baseFile_last _
      · rw [getF_setF_ne _ _ _ _ h] at hg; exact hi.diskOk f ub p hg
    · intro _
      exact ⟨_, _, rfl, _, _, getF_setF_eq _ _ _, rfl⟩

theorem openExisting_touch (s : State) (c : Bool) (paths : List Name) (m : Mode) :
    ∀ f ∈ (openExisting s c paths m).W, Touchable s.disk f := by
  rcases openExisting_spec s c paths m with hf | ⟨files, b, man, hopen, _, ⟨_, heq⟩ | ⟨_, _, heq⟩⟩
  · exact touch_of_failed hf
  · rw [heq]
    intro g hg
    simp only [Res.W, List.append_nil, List.nil_append] at hg
    obtain ⟨_, _, fl, ul, hl, hb⟩ := openFiles_ok hopen
    by_cases hbb : b
    · simp only [hbb, if_true, hl, List.mem_cons, List.not_mem_nil, or_false] at hg
      subst hg
      obtain ⟨p, hp⟩ := openFiles_mem hopen g ul (lastFile_mem _ _ hl)
      have : ul.hash = none := by
        rw [hbb] at hb
        have := hb.symm
        simp only [Bool.and_eq_true, Option.isNone_iff_eq_none] at this
        exact this.2
      exact Or.inr (Or.inl ⟨ul, p, hp, this⟩)
    · simp [hbb] at hg
  · rw [heq]
    exact createPatch_touch { s with h := openedHandle files b c m man }

theorem openExisting_inv (s : State) (c : Bool) (paths : List Name) (m : Mode) (hi : Inv s) :
    Inv (openExisting s c paths m).st := by
  rcases openExisting_spec s c paths m with hf | ⟨files, b, man, hopen, _, ⟨_, heq⟩ | ⟨hw, _, heq⟩⟩
  · exact inv_of_failed hi hf
  · rw [heq]
    refine ⟨hi.diskOk, ?_⟩
    intro hw
    simp only [hasWritable, openedHandle, Bool.and_eq_true] at hw
    obtain ⟨_, _, fl, ul, hl, hb⟩ := openFiles_ok hopen
    obtain ⟨p, hp⟩ := openFiles_mem hopen fl ul (lastFile_mem _ _ hl)
    refine ⟨fl, ul, hl, ul, p, hp, ?_⟩
    rw [hw.2] at hb
    have := hb.symm
    simp only [Bool.and_eq_true, Option.isNone_iff_eq_none] at this
    exact this.2
  · rw [heq]
    apply createPatch_inv
    refine ⟨hi.diskOk, ?_⟩
    intro h
    simp only [Bool.and_eq_true, Bool.not_eq_eq_eq_not, Bool.not_true] at hw
    rw [hw.2] at h; cases h

theorem openRec_touch (s : State) (c : Bool) (t : Target) (m : Mode) (hsafe : (Op.openRec c t m).safe = true) :
    ∀ f ∈ (openRec s c t m).W, Touchable s.disk f := by
  unfold openRec
  split
  · exact touch_of_failed (failed_fail rfl rfl (by decide))
  · cases t with
    | list fs =>
      simp only
      split
      · exact touch_of_failed (failed_fail rfl rfl (by decide))
      · split
        · exact touch_of_failed (failed_fail rfl rfl (by decide))
        · exact openExisting_touch _ _ _ _
    | name n =>
      cases m with
      | w => simp [Op.safe] at hsafe
      | wm => exact createRec_notrunc_touch _ _ _ _
      | x => exact createRec_notrunc_touch _ _ _ _
      | r =>
        simp only
        split
        · exact touch_of_failed (failed_fail rfl rfl (by decide))
        · exact touch_of_failed (failed_fail rfl rfl (by decide))
        · exact openExisting_touch _ _ _ _
      | rp =>
        simp only
        split
        · exact touch_of_failed (failed_fail rfl rfl (by decide))
        · exact touch_of_failed (failed_fail rfl rfl (by decide))
        · exact openExisting_touch _ _ _ _
      | a =>
        simp only
        split
        · exact touch_of_failed (failed_fail rfl rfl (by decide))
        · exact createRec_notrunc_touch _ _ _ _
        · exact openExisting_touch _ _ _ _

theorem openRec_inv (s : State) (c : Bool) (t : Target) (m : Mode) (hsafe : (Op.openRec c t m).safe = true)
    (hi : Inv s) : Inv (openRec s c t m).st := by
  unfold openRec
  split
  · exact hi
  · cases t with
    | list fs =>
      simp only
      split
      · exact hi
      · split
        · exact hi
        · exact openExisting_inv _ _ _ _ hi
    | name n =>
      cases m with
      | w => simp [Op.safe] at hsafe
      | wm => exact createRec_notrunc_inv _ _ _ _ hi
      | x => exact createRec_notrunc_inv _ _ _ _ hi
      | r =>
        simp only
        split
        · exact hi
        · exact hi
        · exact openExisting_inv _ _ _ _ hi
      | rp =>
        simp only
        split
        · exact hi
        · exact hi
        · exact openExisting_inv _ _ _ _ hi
      | a =>
        simp only
        split
        · exact hi
        · exact createRec_notrunc_inv _ _ _ _ hi
        · exact openExisting_inv _ _ _ _ hi

/-! ### merge -/
theorem mergeFiles_touch (s : State) (t : Name) : ∀ f ∈ (mergeFiles s t).W, Touchable s.disk f := by
  rcases mergeFiles_spec s t with hf | ⟨_, _, _, hfresh, _, _, _, hW, _, _, _, _, _⟩
  · exact touch_of_failed hf
  · intro g hg
    rcases hW g hg with rfl | rfl
    · exact Or.inl ⟨hfresh, baseFile_last _⟩
    · exact Or.inr (Or.inr ⟨_, rfl, Or.inl ⟨hfresh, baseFile_last _⟩⟩)

theorem mergeFiles_inv (s : State) (t : Name) (hi : Inv s) : Inv (mergeFiles s t).st := by
  rcases mergeFiles_spec s t with hf | ⟨_, hnw, _, hfresh, _, hh, _, _, hfr, _, _, hside, _⟩
  · exact inv_of_failed hi hf
  · constructor
    · intro g ub p hg
      by_cases h1 : g = baseFile t
      · subst h1; exact baseFile_last _
      · by_cases h2 : g = manifestFile (baseFile t)
        · subst h2
          rcases hside with h | ⟨_, a, b, h⟩
          · rw [h] at hg; exact hi.diskOk _ ub p hg
          · rw [h] at hg; cases hg
        · rw [hfr g h1 h2] at hg; exact hi.diskOk g ub p hg
    · intro h
      rw [hh, hnw] at h; cases h

/-! ### every safe call -/
theorem step_touch (s : State) (op : Op) (hsafe : op.safe = true) (hi : Inv s) :
    ∀ f ∈ (step s op).W, Touchable s.disk f := by
  cases op with
  | openRec c t m => exact openRec_touch s c t m hsafe
  | write k => exact write_touch s k hi
  | read => simp only [step, (read_state s).2]; intro f hf; cases hf
  | createPatch => exact createPatch_touch s
  | commitPatch => exact commitPatch_touch s hi
  | discardPatch => exact discardPatch_touch s hi
  | close c => exact close_touch s c hi
  | merge t => exact mergeFiles_touch s t
  | deleteFiles n => simp [Op.safe] at hsafe

theorem step_inv (s : State) (op : Op) (hsafe : op.safe = true) (hi : Inv s) : Inv (step s op).st := by
  cases op with
  | openRec c t m => exact openRec_inv s c t m hsafe hi
  | write k => exact write_inv s k hi
  | read => simp only [step, (read_state s).1]; exact hi
  | createPatch => exact createPatch_inv s hi
  | commitPatch => exact commitPatch_inv s hi
  | discardPatch => exact discardPatch_inv s hi
  | close c => exact close_inv s c hi
  | merge t => exact mergeFiles_inv s t hi
  | deleteFiles n => simp [Op.safe] at hsafe

end MetadorModel.Record
