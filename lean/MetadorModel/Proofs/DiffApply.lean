import MetadorModel.Proofs.Diff
/-! Helper lemmas for C18, part 2: the in-order simulator on the listing of a comparison. -/
namespace MetadorModel.Diff
open MetadorModel

theorem applyAll_append (t : DirTree) (l1 l2 : List Rec) :
    applyAll t (l1 ++ l2) = (applyAll t l1).bind (fun t' => applyAll t' l2) := by
  induction l1 generalizing t with
  | nil => simp [applyAll]
  | cons r rs ih =>
    simp only [List.cons_append, applyAll]
    cases applyRec t r with
    | none => simp
    | some t' => simpa using ih t'

theorem lookup_cons_dir (es : Entries) (k : String) (p : Path) :
    lookup (.dir es) (k :: p) = match AL.get es k with
      | none => none
      | some t => lookup t p := by
  rw [lookup]
  cases AL.get es k <;> rfl

theorem lookup_deep {es : Entries} {k : String} {t : DirTree} (hg : AL.get es k = some t) (p : Path) :
    lookup (.dir es) (k :: p) = lookup t p := by
  rw [lookup_cons_dir, hg]

theorem removeAt_deep (es : Entries) (k k2 : String) (p : Path) {t : DirTree}
    (hg : AL.get es k = some t) :
    removeAt (.dir es) (k :: k2 :: p) = (removeAt t (k2 :: p)).map (fun t' => .dir (AL.ins k t' es)) := by
  rw [removeAt, hg]
  simp only []
  cases removeAt t (k2 :: p) <;> rfl

theorem addAt_deep (x : DirTree) (es : Entries) (k k2 : String) (p : Path) {t : DirTree}
    (hg : AL.get es k = some t) :
    addAt x (.dir es) (k :: k2 :: p) = (addAt x t (k2 :: p)).map (fun t' => .dir (AL.ins k t' es)) := by
  rw [addAt, hg]
  simp only []
  cases addAt x t (k2 :: p) <;> rfl

/-- a step below the entry `k` of a directory is a step on that entry -/
theorem applyRec_pre {E : Entries} (hs : AL.sorted E = true) {k : String} {t : DirTree}
    (hg : AL.get E k = some t) (r : Rec) (hp : r.path ≠ []) :
    applyRec (.dir E) (Rec.pre [k] r) = (applyRec t r).map (fun t' => .dir (AL.ins k t' E)) := by
  obtain ⟨path, pv, cv⟩ := r
  cases path with
  | nil => exact absurd rfl hp
  | cons k2 p =>
    simp only [applyRec, Rec.pre, List.singleton_append]
    cases pv with
    | none =>
      cases cv with
      | none => rfl
      | some c => exact addAt_deep _ _ _ _ _ hg
    | some pv =>
      cases cv with
      | none => exact removeAt_deep _ _ _ _ hg
      | some c =>
        by_cases hb : bothDir (some pv) (some c) = true
        · simp only [hb, if_true]
          rw [lookup_deep hg]
          cases hl : lookup t (k2 :: p) with
          | none => rfl
          | some u =>
            cases u with
            | file s => rfl
            | dir ds => simp [AL.ins_of_get hs hg]
        · simp only [hb]
          rw [removeAt_deep _ _ _ _ hg]
          cases removeAt t (k2 :: p) with
          | none => rfl
          | some t1 =>
            simp only [Option.map_some, Bool.false_eq_true, if_false]
            rw [addAt_deep _ _ _ _ _ (AL.get_ins_self k t1 E)]
            cases addAt (shell c) t1 (k2 :: p) with
            | none => rfl
            | some t2 => simp [AL.ins_ins k t1 t2 hs]

theorem applyAll_pre {E : Entries} (hs : AL.sorted E = true) {k : String} {t : DirTree}
    (hg : AL.get E k = some t) (L : List Rec) (hp : ∀ r ∈ L, r.path ≠ []) :
    applyAll (.dir E) (L.map (Rec.pre [k])) = (applyAll t L).map (fun t' => .dir (AL.ins k t' E)) := by
  induction L generalizing E t with
  | nil => simp [applyAll, AL.ins_of_get hs hg]
  | cons r rs ih =>
    simp only [List.map_cons, applyAll]
    rw [applyRec_pre hs hg r (hp r (List.mem_cons_self ..))]
    cases applyRec t r with
    | none => rfl
    | some t1 =>
      simp only [Option.map_some]
      rw [ih (AL.sorted_ins k t1 hs) (AL.get_ins_self k t1 E) (fun r hr => hp r (List.mem_cons_of_mem _ hr))]
      cases applyAll t1 rs with
      | none => rfl
      | some t2 => simp [AL.ins_ins k t1 t2 hs]

/-! ## the children of a node at the root have non-empty paths -/

theorem addEs_root (es : Entries) :
    nodesL (addEs [] es) = match es with
      | [] => []
      | (k, t) :: r => (nodes (addT [] t)).map (Rec.pre [k]) ++ nodesL (addEs [] r) := by
  cases es with
  | nil => simp [addEs]
  | cons a r =>
    obtain ⟨k, t⟩ := a
    simp only [addEs, nodesL_cons, List.nil_append]
    rw [← nodes_addT_pre t [k] []]; simp

theorem remEs_root (es : Entries) :
    nodesL (remEs [] es) = match es with
      | [] => []
      | (k, t) :: r => (nodes (remT [] t)).map (Rec.pre [k]) ++ nodesL (remEs [] r) := by
  cases es with
  | nil => simp [remEs]
  | cons a r =>
    obtain ⟨k, t⟩ := a
    simp only [remEs, nodesL_cons, List.nil_append]
    rw [← nodes_remT_pre t [k] []]; simp

theorem pre_path_ne_nil (k : String) (r : Rec) : (Rec.pre [k] r).path ≠ [] := by
  simp [Rec.pre]

theorem addEs_paths (es : Entries) : ∀ r ∈ nodesL (addEs [] es), r.path ≠ [] := by
  induction es with
  | nil => simp [addEs]
  | cons a r ih =>
    obtain ⟨k, t⟩ := a
    rw [addEs_root]
    intro x hx
    rcases List.mem_append.mp hx with h | h
    · obtain ⟨y, _, rfl⟩ := List.mem_map.mp h
      exact pre_path_ne_nil k y
    · exact ih x h

theorem remEs_paths (es : Entries) : ∀ r ∈ nodesL (remEs [] es), r.path ≠ [] := by
  induction es with
  | nil => simp [remEs]
  | cons a r ih =>
    obtain ⟨k, t⟩ := a
    rw [remEs_root]
    intro x hx
    rcases List.mem_append.mp hx with h | h
    · obtain ⟨y, _, rfl⟩ := List.mem_map.mp h
      exact pre_path_ne_nil k y
    · exact ih x h

theorem remSel_root_cons (k : String) (t : DirTree) (r fs : Entries) :
    nodesL (remSel [] ((k, t) :: r) fs) = match AL.get fs k with
      | none => (nodes (remT [] t)).map (Rec.pre [k]) ++ nodesL (remSel [] r fs)
      | some _ => nodesL (remSel [] r fs) := by
  simp only [remSel]
  cases AL.get fs k with
  | none =>
    simp only [nodesL_cons, List.nil_append]
    rw [← nodes_remT_pre t [k] []]; simp
  | some u => rfl

theorem addSel_root_cons (k : String) (t : DirTree) (r es : Entries) :
    nodesL (addSel [] ((k, t) :: r) es) = match AL.get es k with
      | none => (nodes (addT [] t)).map (Rec.pre [k]) ++ nodesL (addSel [] r es)
      | some _ => nodesL (addSel [] r es) := by
  simp only [addSel]
  cases AL.get es k with
  | none =>
    simp only [nodesL_cons, List.nil_append]
    rw [← nodes_addT_pre t [k] []]; simp
  | some u => rfl

theorem cmpEs_root_cons (k : String) (t : DirTree) (r fs : Entries) :
    nodesL (cmpEs [] ((k, t) :: r) fs) = match AL.get fs k with
      | none => nodesL (cmpEs [] r fs)
      | some u => (nodesO (cmpT [] t u)).map (Rec.pre [k]) ++ nodesL (cmpEs [] r fs) := by
  rw [cmpEs_cons]
  cases AL.get fs k with
  | none => rfl
  | some u =>
    simp only [List.nil_append]
    have h := cmpT_pre t u [k] []
    simp only [List.append_nil] at h
    rw [← h.2]
    cases cmpT [k] t u with
    | none => simp [nodesO]
    | some d => simp [nodesO, nodesL_cons]

theorem remSel_paths (es fs : Entries) : ∀ r ∈ nodesL (remSel [] es fs), r.path ≠ [] := by
  induction es with
  | nil => simp [remSel]
  | cons a r ih =>
    obtain ⟨k, t⟩ := a
    rw [remSel_root_cons]
    cases AL.get fs k with
    | none =>
      intro x hx
      rcases List.mem_append.mp hx with h | h
      · obtain ⟨y, _, rfl⟩ := List.mem_map.mp h
        exact pre_path_ne_nil k y
      · exact ih x h
    | some u => exact ih

theorem addSel_paths (fs es : Entries) : ∀ r ∈ nodesL (addSel [] fs es), r.path ≠ [] := by
  induction fs with
  | nil => simp [addSel]
  | cons a r ih =>
    obtain ⟨k, t⟩ := a
    rw [addSel_root_cons]
    cases AL.get es k with
    | none =>
      intro x hx
      rcases List.mem_append.mp hx with h | h
      · obtain ⟨y, _, rfl⟩ := List.mem_map.mp h
        exact pre_path_ne_nil k y
      · exact ih x h
    | some u => exact ih

theorem cmpEs_paths (es fs : Entries) : ∀ r ∈ nodesL (cmpEs [] es fs), r.path ≠ [] := by
  induction es with
  | nil => simp [cmpEs]
  | cons a r ih =>
    obtain ⟨k, t⟩ := a
    rw [cmpEs_root_cons]
    cases AL.get fs k with
    | none => exact ih
    | some u =>
      intro x hx
      rcases List.mem_append.mp hx with h | h
      · obtain ⟨y, _, rfl⟩ := List.mem_map.mp h
        exact pre_path_ne_nil k y
      · exact ih x h
