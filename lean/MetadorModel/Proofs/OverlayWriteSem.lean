import MetadorModel.Proofs.OverlayWriteLook
/-!
# C01 write side, part 2: meaning of the primitive edits of the newest container

Three point-wise lemmas about a record `c :: older` with the invariant:

* `carriers`  — adding pass-through groups at the missing proper prefixes of a path whose
                proper prefixes are all visible groups changes nothing a user can read;
* `graft`     — replacing everything at and below a path `pre ++ [k]` (parent visible group)
                by a parent-closed set of entries that is either headed by a non-virtual entry,
                lies inside a freshly written subtree, or is written into the base container:
                below the path the plain reading of the new entries is visible, everything else
                is unchanged;
* `attrEdit`  — changing the attribute list of the (possibly new, pass-through) entry at a
                visible path changes only the attributes of that path.

Each lemma also re-establishes the invariant.
-/
namespace MetadorModel.Overlay
open MetadorModel.Tree
variable {V : Type}

/-! ### paths -/

theorem isPre_append_right (p a b : Path) (h : isPre p a = true) : isPre p (a ++ b) = true := by
  obtain ⟨s, rfl⟩ := (isPre_iff p a).1 h
  exact (isPre_iff _ _).2 ⟨s ++ b, by simp⟩

theorem isPre_nil_false (p : Path) (h : p ≠ []) : isPre p [] = false := by
  cases p with
  | nil => exact absurd rfl h
  | cons a p => rfl

theorem isPre_snoc_self_false (pre : Path) (k : Key) : isPre (pre ++ [k]) pre = false := by
  cases h : isPre (pre ++ [k]) pre with
  | false => rfl
  | true =>
    obtain ⟨s, hs⟩ := (isPre_iff _ _).1 h
    have := congrArg List.length hs
    simp at this

/-- a path that is not below `pre ++ [k]` but has an extension below it is a prefix of `pre` -/
theorem prefix_of_extension_below (pre : Path) (k : Key) (x y : Path)
    (h1 : isPre (pre ++ [k]) (x ++ y) = true) (h2 : isPre (pre ++ [k]) x = false) : ∃ s, pre = x ++ s := by
  obtain ⟨s', hs'⟩ := (isPre_iff _ _).1 h1
  rcases List.append_eq_append_iff.1 hs' with ⟨a, h5, h6⟩ | ⟨c', h5, h6⟩
  · -- pre ++ [k] = x ++ a
    rcases List.eq_nil_or_concat a with rfl | ⟨a', j, rfl⟩
    · simp only [List.append_nil] at h5
      rw [← h5, isPre_refl] at h2; cases h2
    · have : pre ++ [k] = (x ++ a') ++ [j] := by rw [h5]; simp
      obtain ⟨h7, _⟩ := List.append_inj' this rfl
      exact ⟨a', h7⟩
  · -- x = pre ++ [k] ++ c'
    rw [h5, isPre_append] at h2; cases h2

theorem mem_properPrefixes_snoc (pre : Path) (k : Key) (x : Path) :
    x ∈ properPrefixes (pre ++ [k]) ↔ ∃ s, pre = x ++ s := by
  rw [mem_properPrefixes]
  constructor
  · rintro ⟨s, hs, h⟩
    rcases List.eq_nil_or_concat s with rfl | ⟨s', j, rfl⟩
    · exact absurd rfl hs
    · have : pre ++ [k] = (x ++ s') ++ [j] := by rw [h]; simp
      obtain ⟨h7, _⟩ := List.append_inj' this rfl
      exact ⟨s', h7⟩
  · rintro ⟨s, rfl⟩
    exact ⟨s ++ [k], by simp, by simp⟩

/-! ### non-virtual entries on the way -/

/-- the entry of `c` at `x` is non-virtual (`sgroup`, `data`, `del`) -/
def nvAt (c : Cont V) (x : Path) : Bool :=
  match aget x c with
  | some n => !n.kind.isVirtual
  | none => false

theorem nvFrom_cons (c : Cont V) (pre : Path) (k : Key) (rest : Path) :
    nvFrom c pre (k :: rest) = (nvAt c (pre ++ [k]) || nvFrom c (pre ++ [k]) rest) := by
  unfold nvAt; rw [nvFrom]; rfl

theorem nvFrom_congr (c c' : Cont V) (rest : Path) : ∀ (pre : Path),
    (∀ a b, rest = a ++ b → a ≠ [] → nvAt c (pre ++ a) = nvAt c' (pre ++ a)) →
    nvFrom c pre rest = nvFrom c' pre rest := by
  induction rest with
  | nil => intro pre _; rfl
  | cons k rest ih =>
    intro pre h
    rw [nvFrom_cons, nvFrom_cons, h [k] rest rfl (by simp)]
    congr 1
    apply ih
    intro a b hab ha
    have := h (k :: a) b (by simp [hab]) (by simp)
    simpa using this

theorem nvPrefix_congr (c c' : Cont V) (q : Path)
    (h : ∀ a b, q = a ++ b → a ≠ [] → nvAt c a = nvAt c' a) : nvPrefix c q = nvPrefix c' q := by
  unfold nvPrefix
  apply nvFrom_congr
  intro a b hab ha
  simpa using h a b hab ha

theorem nvPrefix_append_of_true (c : Cont V) (p s : Path) (h : nvPrefix c p = true) :
    nvPrefix c (p ++ s) = true := by
  unfold nvPrefix at *
  rw [nvFrom_append, h]; rfl

theorem nvPrefix_snoc (c : Cont V) (pre : Path) (k : Key) :
    nvPrefix c (pre ++ [k]) = (nvPrefix c pre || nvAt c (pre ++ [k])) := by
  unfold nvPrefix
  rw [nvFrom_append, nvFrom_cons]
  simp [nvFrom]

/-! ### the empty record -/

theorem viewKind_nil (q : Path) (hq : q ≠ []) : viewKind ([] : Rec V) q = none := by
  cases q with
  | nil => exact absurd rfl hq
  | cons a q => simp [viewKind, look, lookFrom, child, scan, vnode, RKind.isGroup]

theorem viewAttr_nil (q : Path) (k : Key) : viewAttr ([] : Rec V) q k = none := by
  cases q with
  | nil => rfl
  | cons a q => simp [viewAttr, look, lookFrom, child, scan, vnode, RKind.isGroup]

/-! ### entries of the newest container and what is visible -/

/-- an entry of the newest container at a path that shows a group is a group -/
theorem entry_isGroup_of_view_group (c : Cont V) (older : Rec V) (hinv : Inv (c :: older))
    (x : Path) (n : RNode V) (hv : viewKind (c :: older) x = some .group) (hx : aget x c = some n) :
    n.kind.isGroup = true := by
  rw [(view_cons c older hinv.1 hinv.2.1 x).1] at hv
  unfold applyKind at hv
  by_cases hnv : nvPrefix c x = true
  · simp only [hnv, ↓reduceIte, hx, plainK, Option.bind_some] at hv
    exact isGroup_of_plainKind_group hv
  · by_cases h0 : x = []
    · subst h0
      obtain ⟨a, ha⟩ := hinv.1.root
      rw [ha] at hx; cases hx; rfl
    · exact isGroup_of_isVirtual (virtual_of_not_nv c x n h0 (by simpa using hnv) hx)

/-! ### pass-through groups for missing ancestors -/

theorem carriers (c : Cont V) (older : Rec V) (p : Path) (hinv : Inv (c :: older))
    (hvis : ∀ x ∈ properPrefixes p, viewKind (c :: older) x = some .group) :
    Inv (ensure vnode p c :: older) ∧ ∀ q,
      viewKind (ensure vnode p c :: older) q = viewKind (c :: older) q ∧
      ∀ k, viewAttr (ensure vnode p c :: older) q k = viewAttr (c :: older) q k := by
  obtain ⟨hwf, hil, hold⟩ := hinv
  have hinv : Inv (c :: older) := ⟨hwf, hil, hold⟩
  have hget : ∀ q, aget q (ensure vnode p c) = match aget q c with
      | some v => some v
      | none => if q ∈ properPrefixes p then some vnode else none := fun q => by
    rw [aget_ensure]; cases aget q c with
    | some v => rfl
    | none => simp only []
  have hnvAt : ∀ x, nvAt (ensure vnode p c) x = nvAt c x := by
    intro x
    unfold nvAt
    rw [hget]
    cases hx : aget x c with
    | some n => rfl
    | none =>
      by_cases hm : x ∈ properPrefixes p
      · simp [hm, vnode, RKind.isVirtual]
      · simp [hm]
  have hnvP : ∀ q, nvPrefix (ensure vnode p c) q = nvPrefix c q :=
    fun q => nvPrefix_congr _ _ q (fun a _ _ _ => hnvAt a)
  have hvc := fun q => view_cons c older hwf hil q
  -- a visible group that has no entry and no non-virtual prefix is a group of the older view
  have hK : ∀ x, x ∈ properPrefixes p → aget x c = none →
      nvPrefix c x = false ∧ viewKind older x = some .group := by
    intro x hm hx
    have := hvis x hm
    rw [(hvc x).1] at this
    unfold applyKind at this
    by_cases hnv : nvPrefix c x = true
    · simp [hnv, hx, plainK] at this
    · simp only [hnv, hx] at this
      exact ⟨by simpa using hnv, by simpa using this⟩
  have hwf' : WF (ensure vnode p c) := by
    refine ⟨?_, ?_⟩
    · obtain ⟨a, ha⟩ := hwf.root
      exact ⟨a, by rw [hget, ha]⟩
    · intro x k hne
      rw [hget] at hne
      cases hxk : aget (x ++ [k]) c with
      | some n =>
        obtain ⟨m, hm, hg⟩ := hwf.parent x k (by simp [hxk])
        exact ⟨m, by rw [hget, hm], hg⟩
      | none =>
        rw [hxk] at hne
        have hmem : x ++ [k] ∈ properPrefixes p := by
          by_contra hc; simp [hc] at hne
        have hmx : x ∈ properPrefixes p := by
          obtain ⟨s, hs, rfl⟩ := (mem_properPrefixes _ _).1 hmem
          exact (mem_properPrefixes _ _).2 ⟨k :: s, by simp, by simp⟩
        rw [hget]
        cases hx : aget x c with
        | some m => exact ⟨m, rfl, entry_isGroup_of_view_group c older hinv x m (hvis x hmx) hx⟩
        | none => exact ⟨vnode, by simp [hmx], rfl⟩
  have hil' : InvLast (ensure vnode p c) older := by
    intro x n hx0 hn hnv
    rw [hnvP] at hnv
    rw [hget] at hn
    cases hx : aget x c with
    | some m =>
      rw [hx] at hn
      have hmn : m = n := by simpa using hn
      subst hmn
      rcases hil x m hx0 hx hnv with h | ⟨⟨v, hv⟩, hch⟩ | h
      · exact Or.inl h
      · refine Or.inr (Or.inl ⟨⟨v, hv⟩, ?_⟩)
        intro y hy
        rw [hget, hch y hy]
        by_cases hm : x ++ y ∈ properPrefixes p
        · exfalso
          have hmx : x ∈ properPrefixes p := by
            obtain ⟨s, hs, rfl⟩ := (mem_properPrefixes _ _).1 hm
            exact (mem_properPrefixes _ _).2 ⟨y ++ s, by simp [hy], by simp⟩
          have := hvis x hmx
          rw [(hvc x).1] at this
          simp [applyKind, hnv, hx, hv] at this
        · simp [hm]
      · exact Or.inr (Or.inr h)
    | none =>
      rw [hx] at hn
      by_cases hm : x ∈ properPrefixes p
      · exact Or.inl (hK x hm hx).2
      · simp [hm] at hn
  refine ⟨⟨hwf', hil', hold⟩, fun q => ?_⟩
  obtain ⟨e1, e2⟩ := view_cons (ensure vnode p c) older hwf' hil' q
  obtain ⟨f1, f2⟩ := hvc q
  cases hq : aget q c with
  | some n =>
    refine ⟨?_, fun k => ?_⟩
    · rw [e1, f1]; unfold applyKind; rw [hnvP, hget, hq]
    · rw [e2, f2]; unfold applyAttr; rw [hnvP, hget, hq]
  | none =>
    by_cases hm : q ∈ properPrefixes p
    · obtain ⟨hnv, hk⟩ := hK q hm hq
      refine ⟨?_, fun k => ?_⟩
      · rw [e1, f1]; unfold applyKind; rw [hnvP, hget, hq]
        simp [hnv, hm, hk]
      · rw [e2, f2]; unfold applyAttr; rw [hnvP, hget, hq]
        simp [hnv, hm, vnode, aget]
    · refine ⟨?_, fun k => ?_⟩
      · rw [e1, f1]; unfold applyKind; rw [hnvP, hget, hq]; simp [hm]
      · rw [e2, f2]; unfold applyAttr; rw [hnvP, hget, hq]; simp [hm]

/-! ### replacing a subtree -/

theorem graft (c c' : Cont V) (older : Rec V) (pre : Path) (k : Key)
    (hinv : Inv (c :: older)) (hpre : viewKind (c :: older) pre = some .group)
    (hpar : aget pre c ≠ none)
    (hout : ∀ q, isPre (pre ++ [k]) q = false → aget q c' = aget q c)
    (hclosed : ∀ s j, aget (pre ++ [k] ++ s ++ [j]) c' ≠ none →
      ∃ m, aget (pre ++ [k] ++ s) c' = some m ∧ m.kind.isGroup = true)
    (hmode : nvAt c' (pre ++ [k]) = true ∨ older = [] ∨ nvPrefix c pre = true) :
    Inv (c' :: older) ∧ ∀ q,
      (viewKind (c' :: older) q =
        if isPre (pre ++ [k]) q then plainK (aget q c') else viewKind (c :: older) q) ∧
      ∀ k', viewAttr (c' :: older) q k' =
        if isPre (pre ++ [k]) q then plainA (aget q c') k' else viewAttr (c :: older) q k' := by
  obtain ⟨hwf, hil, hold⟩ := hinv
  have hinv : Inv (c :: older) := ⟨hwf, hil, hold⟩
  have hvc := fun q => view_cons c older hwf hil q
  have hnvAt : ∀ x, isPre (pre ++ [k]) x = false → nvAt c' x = nvAt c x := by
    intro x hx; unfold nvAt; rw [hout x hx]
  have hnvP : ∀ q, isPre (pre ++ [k]) q = false → nvPrefix c' q = nvPrefix c q := by
    intro q hq
    apply nvPrefix_congr
    intro a b hab _
    apply hnvAt
    cases h : isPre (pre ++ [k]) a with
    | false => rfl
    | true => rw [hab, isPre_append_right _ a b h] at hq; cases hq
  have hp0 : isPre (pre ++ [k]) [] = false := isPre_nil_false _ (by simp)
  have hwf' : WF c' := by
    refine ⟨?_, ?_⟩
    · obtain ⟨a, ha⟩ := hwf.root
      exact ⟨a, by rw [hout [] hp0, ha]⟩
    · intro x j hne
      by_cases hb : isPre (pre ++ [k]) (x ++ [j]) = true
      · obtain ⟨s, hs⟩ := (isPre_iff _ _).1 hb
        rcases List.eq_nil_or_concat s with rfl | ⟨s', j', rfl⟩
        · simp only [List.append_nil] at hs
          obtain ⟨h7, _⟩ := List.append_inj' hs rfl
          subst h7
          rw [hout x (isPre_snoc_self_false x k)]
          cases hx : aget x c with
          | none => exact absurd hx hpar
          | some m => exact ⟨m, rfl, entry_isGroup_of_view_group c older hinv x m hpre hx⟩
        · have : x ++ [j] = (pre ++ [k] ++ s') ++ [j'] := by rw [hs]; simp
          obtain ⟨h7, h8⟩ := List.append_inj' this rfl
          subst h7
          simp only [List.cons.injEq, and_true] at h8
          subst h8
          exact hclosed s' j hne
      · have hb' : isPre (pre ++ [k]) (x ++ [j]) = false := by simpa using hb
        have hbx : isPre (pre ++ [k]) x = false := by
          cases h : isPre (pre ++ [k]) x with
          | false => rfl
          | true => rw [isPre_append_right _ x [j] h] at hb'; cases hb'
        rw [hout _ hb'] at hne
        obtain ⟨m, hm, hg⟩ := hwf.parent x j hne
        exact ⟨m, by rw [hout x hbx, hm], hg⟩
  -- below the grafted path a non-virtual prefix exists (unless we write the base container)
  have hM : (nvAt c' (pre ++ [k]) = true ∨ nvPrefix c pre = true) → ∀ s, nvPrefix c' (pre ++ [k] ++ s) = true := by
    intro h s
    apply nvPrefix_append_of_true
    rw [nvPrefix_snoc, hnvP pre (isPre_snoc_self_false pre k)]
    rcases h with h | h <;> simp [h]
  have hil' : InvLast c' older := by
    intro x n hx0 hn hnv
    by_cases hb : isPre (pre ++ [k]) x = true
    · obtain ⟨s, rfl⟩ := (isPre_iff _ _).1 hb
      rcases hmode with h | h | h
      · rw [hM (Or.inl h) s] at hnv; cases hnv
      · subst h; exact Or.inr (Or.inr (fun c hc => by cases hc))
      · rw [hM (Or.inr h) s] at hnv; cases hnv
    · have hb' : isPre (pre ++ [k]) x = false := by simpa using hb
      rw [hout x hb'] at hn
      rw [hnvP x hb'] at hnv
      rcases hil x n hx0 hn hnv with h | ⟨⟨v, hv⟩, hch⟩ | h
      · exact Or.inl h
      · refine Or.inr (Or.inl ⟨⟨v, hv⟩, ?_⟩)
        intro y hy
        by_cases hby : isPre (pre ++ [k]) (x ++ y) = true
        · exfalso
          obtain ⟨s, hs⟩ := prefix_of_extension_below pre k x y hby hb'
          have hxg : viewKind (c :: older) x = some .group := by
            by_cases hs0 : s = []
            · subst hs0; simp only [List.append_nil] at hs; subst hs; exact hpre
            · exact view_prefix_group _ x s hs0 (by rw [← hs, hpre]; simp)
          rw [(hvc x).1] at hxg
          simp [applyKind, hnv, hn, hv] at hxg
        · rw [hout _ (by simpa using hby)]
          exact hch y hy
      · exact Or.inr (Or.inr h)
  refine ⟨⟨hwf', hil', hold⟩, fun q => ?_⟩
  obtain ⟨e1, e2⟩ := view_cons c' older hwf' hil' q
  by_cases hb : isPre (pre ++ [k]) q = true
  · simp only [hb, ↓reduceIte]
    obtain ⟨s, rfl⟩ := (isPre_iff _ _).1 hb
    have key : (nvAt c' (pre ++ [k]) = true ∨ nvPrefix c pre = true) →
        applyKind c' (viewKind older) (pre ++ [k] ++ s) = plainK (aget (pre ++ [k] ++ s) c') ∧
        ∀ k', applyAttr c' (viewAttr older) (pre ++ [k] ++ s) k' = plainA (aget (pre ++ [k] ++ s) c') k' :=
      fun h => apply_nv c' _ _ _ (hM h s)
    rcases hmode with h | h | h
    · obtain ⟨a1, a2⟩ := key (Or.inl h)
      exact ⟨by rw [e1, a1], fun k' => by rw [e2, a2]⟩
    · subst h
      obtain ⟨a1, a2⟩ := apply_fresh c' (viewKind ([] : Rec V)) (viewAttr ([] : Rec V)) (pre ++ [k] ++ s)
        (by simp) (viewKind_nil _ (by simp)) (fun k' => viewAttr_nil _ k')
      exact ⟨by rw [e1, a1], fun k' => by rw [e2, a2]⟩
    · obtain ⟨a1, a2⟩ := key (Or.inr h)
      exact ⟨by rw [e1, a1], fun k' => by rw [e2, a2]⟩
  · have hb' : isPre (pre ++ [k]) q = false := by simpa using hb
    simp only [hb', Bool.false_eq_true, ↓reduceIte]
    obtain ⟨f1, f2⟩ := hvc q
    refine ⟨?_, fun k' => ?_⟩
    · rw [e1, f1]; unfold applyKind; rw [hnvP q hb', hout q hb']
    · rw [e2, f2]; unfold applyAttr; rw [hnvP q hb', hout q hb']

/-! ### editing the attributes of one entry -/

theorem attrEdit (c c' : Cont V) (older : Rec V) (p : Path) (n' : RNode V)
    (hinv : Inv (c :: older)) (hvis : viewKind (c :: older) p ≠ none)
    (hpres : ∀ x ∈ properPrefixes p, aget x c ≠ none)
    (hat : aget p c' = some n')
    (hkind : n'.kind = match aget p c with | some n => n.kind | none => .vgroup)
    (hout : ∀ q, q ≠ p → aget q c' = aget q c) :
    Inv (c' :: older) ∧ (∀ q, viewKind (c' :: older) q = viewKind (c :: older) q) ∧
    (∀ q k', q ≠ p → viewAttr (c' :: older) q k' = viewAttr (c :: older) q k') ∧
    ∀ k', viewAttr (c' :: older) p k' =
      if nvPrefix c p then (aget k' n'.attrs).join
      else match aget k' n'.attrs with
        | some v => v
        | none => viewAttr older p k' := by
  obtain ⟨hwf, hil, hold⟩ := hinv
  have hinv : Inv (c :: older) := ⟨hwf, hil, hold⟩
  have hvc := fun q => view_cons c older hwf hil q
  have hnvAt : ∀ x, nvAt c' x = nvAt c x := by
    intro x
    unfold nvAt
    by_cases hx : x = p
    · subst hx
      rw [hat]
      cases hp : aget x c with
      | some n => simp only [hp] at hkind; simp only [hkind]
      | none => simp only [hp] at hkind; simp only [hkind]; rfl
    · rw [hout x hx]
  have hnvP : ∀ q, nvPrefix c' q = nvPrefix c q :=
    fun q => nvPrefix_congr _ _ q (fun a _ _ _ => hnvAt a)
  -- what the visibility of `p` says about its entry
  have hvisK : applyKind c (viewKind older) p ≠ none := by rw [← (hvc p).1]; exact hvis
  have hpg : ∀ x, x ∈ properPrefixes p → viewKind (c :: older) x = some .group := by
    intro x hx
    obtain ⟨s, hs, rfl⟩ := (mem_properPrefixes _ _).1 hx
    exact view_prefix_group _ x s hs hvis
  have hwf' : WF c' := by
    refine ⟨?_, ?_⟩
    · obtain ⟨a, ha⟩ := hwf.root
      by_cases h0 : p = []
      · subst h0
        simp only [ha] at hkind
        exact ⟨n'.attrs, by rw [hat]; cases n'; simp_all⟩
      · exact ⟨a, by rw [hout [] (fun h => h0 h.symm), ha]⟩
    · intro x j hne
      by_cases hxj : x ++ [j] = p
      · have hmx : x ∈ properPrefixes p := (mem_properPrefixes _ _).2 ⟨[j], by simp, hxj.symm⟩
        have hxp : x ≠ p := by
          intro h; rw [h] at hxj; simp at hxj
        rw [hout x hxp]
        cases hx : aget x c with
        | none => exact absurd hx (hpres x hmx)
        | some m => exact ⟨m, rfl, entry_isGroup_of_view_group c older hinv x m (hpg x hmx) hx⟩
      · rw [hout _ hxj] at hne
        obtain ⟨m, hm, hg⟩ := hwf.parent x j hne
        by_cases hxp : x = p
        · subst hxp
          simp only [hm] at hkind
          exact ⟨n', hat, by rw [hkind]; exact hg⟩
        · exact ⟨m, by rw [hout x hxp, hm], hg⟩
  have hil' : InvLast c' older := by
    intro x n hx0 hn hnv
    rw [hnvP] at hnv
    by_cases hxp : x = p
    · subst hxp
      rw [hat] at hn
      cases hp : aget x c with
      | some m =>
        rcases hil x m hx0 hp hnv with h | ⟨⟨v, hv⟩, hch⟩ | h
        · exact Or.inl h
        · refine Or.inr (Or.inl ⟨⟨v, hv⟩, ?_⟩)
          intro y hy
          rw [hout _ (by simpa using hy)]
          exact hch y hy
        · exact Or.inr (Or.inr h)
      | none =>
        have hk : viewKind older x ≠ none := by
          simpa [applyKind, hnv, hp] using hvisK
        cases hkx : viewKind older x with
        | none => exact absurd hkx hk
        | some kd =>
          cases kd with
          | group => exact Or.inl rfl
          | data v =>
            refine Or.inr (Or.inl ⟨⟨v, rfl⟩, ?_⟩)
            intro y hy
            rw [hout _ (by simpa using hy)]
            exact hwf.below_none x y hp
    · rw [hout x hxp] at hn
      rcases hil x n hx0 hn hnv with h | ⟨⟨v, hv⟩, hch⟩ | h
      · exact Or.inl h
      · refine Or.inr (Or.inl ⟨⟨v, hv⟩, ?_⟩)
        intro y hy
        by_cases hxy : x ++ y = p
        · exfalso
          have hmx : x ∈ properPrefixes p := (mem_properPrefixes _ _).2 ⟨y, hy, hxy.symm⟩
          have := hpg x hmx
          rw [(hvc x).1] at this
          simp [applyKind, hnv, hn, hv] at this
        · rw [hout _ hxy]; exact hch y hy
      · exact Or.inr (Or.inr h)
  have hvc' := fun q => view_cons c' older hwf' hil' q
  refine ⟨⟨hwf', hil', hold⟩, ?_, ?_, ?_⟩
  · intro q
    rw [(hvc' q).1, (hvc q).1]
    unfold applyKind
    rw [hnvP]
    by_cases hqp : q = p
    · subst hqp
      rw [hat]
      by_cases hnv : nvPrefix c q = true
      · simp only [hnv, ↓reduceIte]
        cases hp : aget q c with
        | some m => simp only [hp] at hkind; simp [plainK, hkind]
        | none => simp [applyKind, hnv, hp, plainK] at hvisK
      · simp only [hnv]
        cases hp : aget q c with
        | some m => rfl
        | none =>
          have hk : viewKind older q ≠ none := by
            simpa [applyKind, hnv, hp] using hvisK
          cases hkx : viewKind older q with
          | none => exact absurd hkx hk
          | some kd => rfl
    · rw [hout q hqp]
  · intro q k' hqp
    rw [(hvc' q).2, (hvc q).2]
    unfold applyAttr
    rw [hnvP, hout q hqp]
  · intro k'
    rw [(hvc' p).2]
    unfold applyAttr
    rw [hnvP, hat]
    by_cases hnv : nvPrefix c p = true
    · simp only [hnv, ↓reduceIte]
      cases hp : aget p c with
      | some m =>
        simp only [hp] at hkind
        have : plainKind m.kind ≠ none := by
          simpa [applyKind, hnv, hp, plainK] using hvisK
        cases hpk : plainKind m.kind with
        | none => exact absurd hpk this
        | some kd => simp [plainA, hkind, hpk]
      | none => simp [applyKind, hnv, hp, plainK] at hvisK
    · simp only [hnv]
      rfl

/-- companion of `attrEdit`: the attribute shown before the edit -/
theorem viewAttr_top (c : Cont V) (older : Rec V) (p : Path) (hinv : Inv (c :: older))
    (hvis : viewKind (c :: older) p ≠ none) (k' : Key) :
    viewAttr (c :: older) p k' =
      if nvPrefix c p then ((aget p c).bind (fun n => aget k' n.attrs)).join
      else match (aget p c).bind (fun n => aget k' n.attrs) with
        | some v => v
        | none => viewAttr older p k' := by
  obtain ⟨hwf, hil, hold⟩ := hinv
  have hvisK : applyKind c (viewKind older) p ≠ none := by
    rw [← (view_cons c older hwf hil p).1]; exact hvis
  rw [(view_cons c older hwf hil p).2]
  unfold applyAttr
  by_cases hnv : nvPrefix c p = true
  · simp only [hnv, ↓reduceIte]
    cases hp : aget p c with
    | some m =>
      have : plainKind m.kind ≠ none := by
        simpa [applyKind, hnv, hp, plainK] using hvisK
      cases hpk : plainKind m.kind with
      | none => exact absurd hpk this
      | some kd => simp [plainA, hpk]
    | none => simp [plainA]
  · simp only [hnv]
    cases hp : aget p c with
    | some m =>
      simp only [Option.bind_some]
      cases aget k' m.attrs <;> rfl
    | none => rfl

end MetadorModel.Overlay
