import MetadorModel.Model.Overlay
/-!
# Abstract meaning of one container (PATCH_THEORY.md) and the record invariant (C01)

`applyKind/applyAttr p t` is the closed, non-recursive, point-wise form of "apply the patch
container `p` to the tree `t`":

* below the shallowest non-virtual entry (`sgroup`, `data`, `del`) on the way to `q` only `p`
  counts (`plain` reading of `p`'s own entry);
* otherwise an absent entry keeps `t`, a virtual group passes `t`'s node through (a fresh
  group where `t` has nothing) and overlays its attributes (`none` = attribute removed).
-/
namespace MetadorModel.Overlay
open MetadorModel.Tree

variable {V : Type}

/-- some prefix `pre ++ [k₁…kᵢ]` (`i ≥ 1`) of `pre ++ rest` holds a non-virtual entry in `p` -/
def nvFrom (p : Cont V) : Path → Path → Bool
  | _, [] => false
  | pre, k :: rest =>
    (match aget (pre ++ [k]) p with
      | some n => !n.kind.isVirtual
      | none => false) || nvFrom p (pre ++ [k]) rest

/-- some non-empty prefix of `q` (possibly `q` itself) holds a non-virtual entry in `p` -/
def nvPrefix (p : Cont V) (q : Path) : Bool := nvFrom p [] q

/-- plain reading of a raw entry -/
def plainK (n : Option (RNode V)) : Option (NKind V) := n.bind (fun m => plainKind m.kind)

def plainA (n : Option (RNode V)) (k : Key) : Option V :=
  n.bind (fun m => (plainKind m.kind).bind (fun _ => (aget k m.attrs).join))

def applyKind (p : Cont V) (t : Path → Option (NKind V)) (q : Path) : Option (NKind V) :=
  if nvPrefix p q then plainK (aget q p)
  else match aget q p with
    | none => t q
    | some _ => match t q with
      | some kd => some kd
      | none => some .group

def applyAttr (p : Cont V) (ta : Path → Key → Option V) (q : Path) (k : Key) : Option V :=
  if nvPrefix p q then plainA (aget q p) k
  else match aget q p with
    | none => ta q k
    | some n => match aget k n.attrs with
      | some v => v
      | none => ta q k

/-- what every HDF5 file satisfies: the root is a (plain) group, every entry has a parent
entry, and parents are groups -/
structure WF (p : Cont V) : Prop where
  root : ∃ a, aget [] p = some ⟨.vgroup, a⟩
  parent : ∀ x k, aget (x ++ [k]) p ≠ none → ∃ m, aget x p = some m ∧ m.kind.isGroup = true

/-- the newest container `p` relative to the older ones `r`: a pass-through group that is not
inside a freshly written subtree sits on a group of the older view, or on a dataset and then
carries no children, or on a path the older containers never mention. -/
def InvLast (p : Cont V) (r : Rec V) : Prop :=
  ∀ x n, x ≠ [] → aget x p = some n → nvPrefix p x = false →
    viewKind r x = some .group ∨
    ((∃ v, viewKind r x = some (.data v)) ∧ ∀ y, y ≠ [] → aget (x ++ y) p = none) ∨
    (∀ c ∈ r, aget x c = none)

/-- record invariant -/
def Inv : Rec V → Prop
  | [] => True
  | p :: r => WF p ∧ InvLast p r ∧ Inv r

end MetadorModel.Overlay
