import MetadorModel.Proofs.ContainerDrvDefs
/-!
# Simulation: the container layer over any law-abiding driver refines the model (C09)

`Sim drv m m'`: started in a driver state `sD` and in the model state `viewSt drv sD`, the
generic computation `m` and the model computation `m'` return the same result (value or
error) and leave states that are again related by `viewSt`. One lemma per generic definition
of `ContainerDrvDefs.lean`, ending in `step_sim`, `obs_sim`, `run_sim`, `outcomes_sim`.

Also: the two concrete drivers `treeDriver` and `patchLogDriver` with their laws.
-/
namespace MetadorModel.Container

variable {D : Type} {drv : Driver D}

/-- lock-step simulation between a computation over a driver and a model computation -/
def Sim (drv : Driver D) {α : Type} (m : MD D α) (m' : M α) : Prop :=
  ∀ sD, (m sD).1 = (m' (viewSt drv sD)).1 ∧ viewSt drv (m sD).2 = (m' (viewSt drv sD)).2

/-! ## Structural lemmas -/

theorem Sim.pure {α : Type} (a : α) : Sim drv (Pure.pure a : MD D α) (Pure.pure a : M α) :=
  fun _ => ⟨rfl, rfl⟩

theorem Sim.bind {α β : Type} {m : MD D α} {m' : M α} {f : α → MD D β} {f' : α → M β}
    (h : Sim drv m m') (hf : ∀ a, Sim drv (f a) (f' a)) : Sim drv (m >>= f) (m' >>= f') := by
  intro sD
  obtain ⟨h1, h2⟩ := h sD
  show (MD.bind m f sD).1 = (M.bind m' f' (viewSt drv sD)).1 ∧
    viewSt drv (MD.bind m f sD).2 = (M.bind m' f' (viewSt drv sD)).2
  unfold MD.bind M.bind
  rcases hm : m sD with ⟨r, sD1⟩
  rcases hm' : m' (viewSt drv sD) with ⟨r', s1⟩
  rw [hm, hm'] at h1 h2
  simp only at h1 h2
  subst h1 h2
  cases r with
  | ok a => exact hf a sD1
  | error e => exact ⟨rfl, rfl⟩

theorem Sim.raise {α : Type} (e : Err) : Sim drv (Drv.raise e : MD D α) (raise e) :=
  fun _ => ⟨rfl, rfl⟩

/-- a raising statement in non-final position: the rest is never run -/
theorem Sim.raise_bind {α β : Type} (e : Err) {f : α → MD D β} {f' : α → M β} :
    Sim drv (Drv.raise e >>= f) (MetadorModel.Container.raise e >>= f') :=
  fun _ => ⟨rfl, rfl⟩

theorem Sim.getView : Sim drv (Drv.getView drv) getSt := fun _ => ⟨rfl, rfl⟩

theorem Sim.modC (f : Caches → Caches) : Sim drv (Drv.modC f : MD D Unit) (modC f) :=
  fun _ => ⟨rfl, rfl⟩

theorem Sim.freshUuid : Sim drv (Drv.freshUuid : MD D Nat) freshUuid := fun _ => ⟨rfl, rfl⟩

theorem Sim.ofOpt {α : Type} (e : Err) (o : Option α) : Sim drv (Drv.ofOpt e o : MD D α) (ofOpt e o) := by
  cases o
  · exact Sim.raise e
  · exact Sim.pure _

theorem Sim.guardPath (p : Path) : Sim drv (Drv.guardPath p : MD D Unit) (guardPath p) := by
  unfold Drv.guardPath MetadorModel.Container.guardPath
  split
  · exact Sim.raise _
  · exact Sim.pure _

/-- a driver write whose effect on the view is the raw primitive `g` -/
theorem Sim.liftD {f : D → Except Err D} {g : Tree → Except Err Tree}
    (h : ∀ d, (f d).map drv.view = g (drv.view d)) : Sim drv (Drv.liftD f) (liftRaw g) := by
  intro sD
  have h := h sD.raw
  show (Drv.liftD f sD).1 = (liftRaw g (viewSt drv sD)).1 ∧
    viewSt drv (Drv.liftD f sD).2 = (liftRaw g (viewSt drv sD)).2
  unfold Drv.liftD liftRaw
  have hv : (viewSt drv sD).raw = drv.view sD.raw := rfl
  rw [hv, ← h]
  cases f sD.raw with
  | ok d => exact ⟨rfl, rfl⟩
  | error e => exact ⟨rfl, rfl⟩

theorem Sim.liftD_create (p : Path) (n : Node) :
    Sim drv (Drv.liftD fun d => drv.create d p n) (liftRaw fun t => rawCreate t p n) :=
  Sim.liftD fun d => drv.create_view d p n

theorem Sim.liftD_del (p : Path) :
    Sim drv (Drv.liftD fun d => drv.del d p) (liftRaw fun t => rawDel t p) :=
  Sim.liftD fun d => drv.del_view d p

theorem Sim.liftD_move (a b : Path) :
    Sim drv (Drv.liftD fun d => drv.move d a b) (liftRaw fun t => rawMove t a b) :=
  Sim.liftD fun d => drv.move_view d a b

theorem Sim.liftD_copy (a b : Path) :
    Sim drv (Drv.liftD fun d => drv.copy d a b) (liftRaw fun t => rawCopy t a b) :=
  Sim.liftD fun d => drv.copy_view d a b

theorem Sim.forEachM {α : Type} (l : List α) {f : α → MD D Unit} {f' : α → M Unit}
    (h : ∀ a, Sim drv (f a) (f' a)) : Sim drv (Drv.forEachM l f) (forEachM l f') := by
  induction l with
  | nil => exact Sim.pure _
  | cons a t ih =>
    unfold Drv.forEachM MetadorModel.Container.forEachM
    exact Sim.bind (h a) (fun _ => ih)

/-! ## Proof automation: structural descent through two textually equal do-blocks -/

/-- leaves of the descent; extended with `macro_rules` after every proved definition -/
syntax "sim_leaf" : tactic
macro_rules
  | `(tactic| sim_leaf) => `(tactic| first
      | with_reducible exact Sim.pure _
      | with_reducible exact Sim.raise _
      | with_reducible exact Sim.raise_bind _
      | with_reducible exact Sim.getView
      | with_reducible exact Sim.modC _
      | with_reducible exact Sim.freshUuid
      | with_reducible exact Sim.ofOpt _ _
      | with_reducible exact Sim.guardPath _
      | with_reducible exact Sim.liftD_create _ _
      | with_reducible exact Sim.liftD_del _
      | with_reducible exact Sim.liftD_move _ _
      | with_reducible exact Sim.liftD_copy _ _)

syntax "sim_step" : tactic
macro_rules
  | `(tactic| sim_step) => `(tactic| first
      | sim_leaf
      | with_reducible refine Sim.bind ?_ (fun _ => ?_)
      | with_reducible refine Sim.forEachM _ (fun _ => ?_)
      | (split <;> try (rename_i hq; rw [hq]))
      | dsimp only)

/-- descend until only leaves are left -/
macro "sim" : tactic => `(tactic| repeat' sim_step)

/-! ## One lemma per generic definition -/

theorem pkgRegister_sim (pkg : PkgId) (plugins : List SRef) :
    Sim drv (Drv.pkgRegister drv pkg plugins) (pkgRegister pkg plugins) := by
  unfold Drv.pkgRegister pkgRegister
  sim

macro_rules | `(tactic| sim_leaf) => `(tactic| with_reducible exact pkgRegister_sim _ _)

theorem pkgUnregister_sim (pkg : PkgId) :
    Sim drv (Drv.pkgUnregister drv pkg) (pkgUnregister pkg) := by
  unfold Drv.pkgUnregister pkgUnregister
  sim

macro_rules | `(tactic| sim_leaf) => `(tactic| with_reducible exact pkgUnregister_sim _)

theorem schemaRegister_sim (e : Env) (ref : SRef) :
    Sim drv (Drv.schemaRegister drv e ref) (schemaRegister e ref) := by
  unfold Drv.schemaRegister schemaRegister
  sim

macro_rules | `(tactic| sim_leaf) => `(tactic| with_reducible exact schemaRegister_sim _ _)

theorem schemaUnregister_sim (ref : SRef) :
    Sim drv (Drv.schemaUnregister drv ref) (schemaUnregister ref) := by
  unfold Drv.schemaUnregister schemaUnregister
  sim

macro_rules | `(tactic| sim_leaf) => `(tactic| with_reducible exact schemaUnregister_sim _)

theorem linkRegister_sim (e : Env) (ref : SRef) (u : Nat) (objPath : Path) :
    Sim drv (Drv.linkRegister drv e ref u objPath) (linkRegister e ref u objPath) := by
  unfold Drv.linkRegister linkRegister
  sim

macro_rules | `(tactic| sim_leaf) => `(tactic| with_reducible exact linkRegister_sim _ _ _ _)

theorem linkUnregister_sim (u : Nat) :
    Sim drv (Drv.linkUnregister drv u) (linkUnregister u) := by
  unfold Drv.linkUnregister linkUnregister
  sim
  -- the wildcard branch of one side against the `some (.ep ref)` branch of the other
  all_goals
    exfalso
    rename_i hn _ _ hq
    exact hn _ hq

macro_rules | `(tactic| sim_leaf) => `(tactic| with_reducible exact linkUnregister_sim _)

theorem linkUpdate_sim (u : Nat) (newTarget : Path) :
    Sim drv (Drv.linkUpdate drv u newTarget) (linkUpdate u newTarget) := by
  unfold Drv.linkUpdate linkUpdate
  sim

macro_rules | `(tactic| sim_leaf) => `(tactic| with_reducible exact linkUpdate_sim _ _)

theorem repairMissing_sim (e : Env) (missing : List Path) (update : Bool) :
    Sim drv (Drv.repairMissing drv e missing update) (repairMissing e missing update) := by
  unfold Drv.repairMissing repairMissing
  sim

macro_rules | `(tactic| sim_leaf) => `(tactic| with_reducible exact repairMissing_sim _ _ _)

theorem Handle.setRaw_sim (e : Env) (h : Handle) (ref : SRef) (tok : String) :
    Sim drv (Drv.Handle.setRaw drv e h ref tok) (Handle.setRaw e h ref tok) := by
  unfold Drv.Handle.setRaw Handle.setRaw
  sim

macro_rules | `(tactic| sim_leaf) => `(tactic| with_reducible exact Handle.setRaw_sim _ _ _ _)

theorem Handle.delRaw_sim (h : Handle) (name : String) (unlink : Bool) :
    Sim drv (Drv.Handle.delRaw drv h name unlink) (Handle.delRaw h name unlink) := by
  unfold Drv.Handle.delRaw Handle.delRaw
  sim

macro_rules | `(tactic| sim_leaf) => `(tactic| with_reducible exact Handle.delRaw_sim _ _ _)

theorem Handle.set_sim (e : Env) (h : Handle) (name : String) (ver : Option Ver) (valid : Bool)
    (tok : String) :
    Sim drv (Drv.Handle.set drv e h name ver valid tok) (Handle.set e h name ver valid tok) := by
  unfold Drv.Handle.set Handle.set
  sim

theorem Handle.del_sim (h : Handle) (name : String) :
    Sim drv (Drv.Handle.del drv h name) (Handle.del h name) := by
  unfold Drv.Handle.del Handle.del
  sim

theorem Handle.destroy_go_sim (unlink : Bool) (ns : List String) (h : Handle) :
    Sim drv (Drv.Handle.destroy.go drv unlink h ns) (Handle.destroy.go unlink h ns) := by
  induction ns generalizing h with
  | nil => exact Sim.pure _
  | cons n ns ih =>
    unfold Drv.Handle.destroy.go Handle.destroy.go
    exact Sim.bind (Handle.delRaw_sim _ _ _) (fun h' => ih h')

theorem Handle.destroy_sim (h : Handle) (unlink : Bool) :
    Sim drv (Drv.Handle.destroy drv h unlink) (Handle.destroy h unlink) :=
  Handle.destroy_go_sim unlink _ h

macro_rules | `(tactic| sim_leaf) => `(tactic| with_reducible exact Handle.destroy_sim _ _)

theorem destroyMeta_sim (p : Path) (isDs unlink : Bool) :
    Sim drv (Drv.destroyMeta drv p isDs unlink) (destroyMeta p isDs unlink) := by
  unfold Drv.destroyMeta destroyMeta
  sim

macro_rules | `(tactic| sim_leaf) => `(tactic| with_reducible exact destroyMeta_sim _ _ _)

theorem opCreateGroup_sim (p : Path) : Sim drv (Drv.opCreateGroup drv p) (opCreateGroup p) := by
  unfold Drv.opCreateGroup opCreateGroup
  sim

theorem opCreateDataset_sim (p : Path) (tok : String) :
    Sim drv (Drv.opCreateDataset drv p tok) (opCreateDataset p tok) := by
  unfold Drv.opCreateDataset opCreateDataset
  sim

theorem opDelete_sim (p : Path) : Sim drv (Drv.opDelete drv p) (opDelete p) := by
  unfold Drv.opDelete opDelete
  sim

theorem opMove_sim (e : Env) (src dst : Path) : Sim drv (Drv.opMove drv e src dst) (opMove e src dst) := by
  unfold Drv.opMove opMove
  sim

theorem opCopy_sim (e : Env) (src dst : Path) (wm : Bool) :
    Sim drv (Drv.opCopy drv e src dst wm) (opCopy e src dst wm) := by
  unfold Drv.opCopy opCopy
  sim

theorem opReopen_sim : Sim drv (Drv.opReopen drv) opReopen := by
  intro sD
  show (Drv.opReopen drv sD).1 = (opReopen (viewSt drv sD)).1 ∧
    viewSt drv (Drv.opReopen drv sD).2 = (opReopen (viewSt drv sD)).2
  unfold Drv.opReopen opReopen modifySt viewSt
  simp only [drv.reopen_view, and_self]

theorem opPatch_sim : Sim drv (Drv.opPatch drv) (Pure.pure () : M Unit) := by
  intro sD
  show (Drv.opPatch drv sD).1 = (M.pure () (viewSt drv sD)).1 ∧
    viewSt drv (Drv.opPatch drv sD).2 = (M.pure () (viewSt drv sD)).2
  unfold Drv.opPatch M.pure viewSt
  simp only [drv.patch_view, and_self]

/-- one sub-operation on a handle: same outcome, same handle, related states -/
theorem metaStep_sim (e : Env) (h : Handle) (o : MetaOp) (sD : StD D) :
    (Drv.metaStep drv e h o sD).1 = (metaStep e h o (viewSt drv sD)).1 ∧
    viewSt drv (Drv.metaStep drv e h o sD).2 = (metaStep e h o (viewSt drv sD)).2 := by
  cases o with
  | set n v ok tok =>
    obtain ⟨h1, h2⟩ := Handle.set_sim (drv := drv) e h n v ok tok sD
    dsimp only [Drv.metaStep, metaStep]
    rcases hm : Drv.Handle.set drv e h n v ok tok sD with ⟨r, sD1⟩
    rcases hm' : Handle.set e h n v ok tok (viewSt drv sD) with ⟨r', s1⟩
    rw [hm, hm'] at h1 h2
    simp only at h1 h2
    subst h1 h2
    cases r <;> exact ⟨rfl, rfl⟩
  | del n =>
    obtain ⟨h1, h2⟩ := Handle.del_sim (drv := drv) h n sD
    dsimp only [Drv.metaStep, metaStep]
    rcases hm : Drv.Handle.del drv h n sD with ⟨r, sD1⟩
    rcases hm' : Handle.del h n (viewSt drv sD) with ⟨r', s1⟩
    rw [hm, hm'] at h1 h2
    simp only at h1 h2
    subst h1 h2
    cases r <;> exact ⟨rfl, rfl⟩
  | get n v =>
    dsimp only [Drv.metaStep, metaStep]
    cases Handle.get e (viewSt drv sD) h n v <;> exact ⟨rfl, rfl⟩

theorem metaSeqTrace_sim (e : Env) (ops : List MetaOp) (h : Handle) (sD : StD D) :
    (Drv.metaSeqTrace drv e h ops sD).1 = (metaSeqTrace e h ops (viewSt drv sD)).1 ∧
    viewSt drv (Drv.metaSeqTrace drv e h ops sD).2 = (metaSeqTrace e h ops (viewSt drv sD)).2 := by
  induction ops generalizing h sD with
  | nil => exact ⟨rfl, rfl⟩
  | cons o os ih =>
    obtain ⟨h1, h2⟩ := metaStep_sim (drv := drv) e h o sD
    unfold Drv.metaSeqTrace metaSeqTrace
    rcases hm : Drv.metaStep drv e h o sD with ⟨⟨out, hd⟩, sD1⟩
    rcases hm' : metaStep e h o (viewSt drv sD) with ⟨⟨out', hd'⟩, s1⟩
    rw [hm, hm'] at h1 h2
    simp only [Prod.mk.injEq] at h1 h2
    obtain ⟨rfl, rfl⟩ := h1
    subst h2
    obtain ⟨i1, i2⟩ := ih hd sD1
    exact ⟨by simp only [i1], i2⟩

theorem metaSeq_sim (e : Env) (h : Handle) (ops : List MetaOp) :
    Sim drv (Drv.metaSeq drv e h ops) (metaSeq e h ops) :=
  fun sD => ⟨rfl, (metaSeqTrace_sim e ops h sD).2⟩

macro_rules | `(tactic| sim_leaf) => `(tactic| with_reducible exact metaSeq_sim _ _ _)

theorem opMeta_sim (e : Env) (p : Path) (ops : List MetaOp) :
    Sim drv (Drv.opMeta drv e p ops) (opMeta e p ops) := by
  unfold Drv.opMeta opMeta
  sim

theorem step_sim (e : Env) (op : Op) : Sim drv (Drv.step drv e op) (step e op) := by
  cases op with
  | createGroup p => exact opCreateGroup_sim p
  | createDataset p tok => exact opCreateDataset_sim p tok
  | onMeta p ops => exact opMeta_sim e p ops
  | delete p => exact opDelete_sim p
  | copy src dst wm => exact opCopy_sim e src dst wm
  | move src dst => exact opMove_sim e src dst
  | reopen => exact opReopen_sim
  | patch => exact opPatch_sim

theorem obs_sim (e : Env) (op : Op) (sD : StD D) :
    Drv.obs drv e op sD = obs e op (viewSt drv sD) := by
  unfold Drv.obs obs
  rw [(step_sim (drv := drv) e op sD).1]
  congr 1
  cases op with
  | onMeta p ops =>
    dsimp only
    split
    · rfl
    · split
      · rfl
      · exact (metaSeqTrace_sim e ops _ sD).1
  | _ => rfl

theorem run_sim (e : Env) (h : List Op) (sD : StD D) :
    viewSt drv (Drv.run drv e sD h) = run e (viewSt drv sD) h := by
  induction h generalizing sD with
  | nil => rfl
  | cons op ops ih =>
    unfold Drv.run run
    rw [ih, (step_sim (drv := drv) e op sD).2]

theorem outcomes_sim (ins : Op → Bool) (e : Env) (h : List Op) (sD : StD D) :
    Drv.outcomes drv ins e sD h = outcomes ins e (viewSt drv sD) h := by
  induction h generalizing sD with
  | nil => rfl
  | cons op ops ih =>
    unfold Drv.outcomes outcomes
    rw [ih, (step_sim (drv := drv) e op sD).2, obs_sim]

/-! ## Concrete drivers -/

theorem Except.map_id' {ε α : Type} (x : Except ε α) : x.map (fun a => a) = x := by
  cases x <;> rfl

/-- the plain raw tree as a driver (h5py on one HDF5 file): the view is the state itself -/
def treeDriver : Driver Tree where
  view := fun t => t
  create := rawCreate
  del := rawDel
  move := rawMove
  copy := rawCopy
  patch := fun t => t
  reopen := fun t => t
  create_view := fun _ _ _ => Except.map_id' _
  del_view := fun _ _ => Except.map_id' _
  move_view := fun _ _ _ => Except.map_id' _
  copy_view := fun _ _ _ => Except.map_id' _
  patch_view := fun _ => rfl
  reopen_view := fun _ => rfl

theorem flatten_appendLast (d : List (List RawOp)) (op : RawOp) :
    (appendLast d op).flatten = d.flatten ++ [op] := by
  fun_induction appendLast d op with
  | case1 op => simp
  | case2 l op => simp
  | case3 l l' ls op ih => simp only [List.flatten_cons] at ih ⊢; rw [ih]; simp

theorem replay_append (t : Tree) (l : List RawOp) (op : RawOp) :
    replay t (l ++ [op]) =
      match op.apply (replay t l) with
      | .ok t' => t'
      | .error _ => replay t l := by
  induction l generalizing t with
  | nil =>
    simp only [List.nil_append, replay]
    cases op.apply t <;> rfl
  | cons o l ih =>
    simp only [List.cons_append, replay]
    cases o.apply t <;> exact ih _

theorem plWrite_view (d : List (List RawOp)) (op : RawOp) :
    (plWrite d op).map plView = op.apply (plView d) := by
  unfold plWrite
  cases h : op.apply (plView d) with
  | error e => rfl
  | ok t' =>
    show Except.ok (plView (appendLast d op)) = Except.ok t'
    unfold plView at h ⊢
    rw [flatten_appendLast, replay_append, h]

/-- an IH5-like driver: a list of patch containers, each the log of the successful raw writes
made while it was the most recent one; the view is the overlay (replay of all logs in order);
a patch boundary starts a new, empty container; reopening changes nothing on disk -/
def patchLogDriver : Driver (List (List RawOp)) where
  view := plView
  create := fun d p n => plWrite d (.create p n)
  del := fun d p => plWrite d (.del p)
  move := fun d a b => plWrite d (.move a b)
  copy := fun d a b => plWrite d (.copy a b)
  patch := fun d => d ++ [[]]
  reopen := fun d => d
  create_view := fun d _ _ => plWrite_view d _
  del_view := fun d _ => plWrite_view d _
  move_view := fun d _ _ => plWrite_view d _
  copy_view := fun d _ _ => plWrite_view d _
  patch_view := fun d => by simp [plView]
  reopen_view := fun _ => rfl

end MetadorModel.Container
