import MetadorModel.Proofs.RecordDisk
/-! Case characterisations ("specs") of the API calls of the record model: every call either
fails without touching anything, or succeeds with an explicitly given result. The property
theorems are derived from these. -/
namespace MetadorModel.Record
open MetadorModel.FindFiles

/-- a refused call: an exception, nothing on disk or in the handle changed -/
def Failed (s : State) (r : Res) : Prop :=
  r.out ≠ .ok ∧ r.st.disk = s.disk ∧ r.st.h = s.h ∧ r.created = [] ∧ r.removed = [] ∧ r.written = []

theorem failed_fail {s s' : State} {e : Out} (hd : s'.disk = s.disk) (hh : s'.h = s.h) (he : e ≠ .ok) :
    Failed s (fail s' e) := ⟨he, hd, hh, rfl, rfl, rfl⟩

theorem Failed.frame {s : State} {r : Res} (h : Failed s r) : Frame s r := by
  intro g _; rw [h.2.1]

theorem Failed.W {s : State} {r : Res} (h : Failed s r) : r.W = [] := by
  simp [Res.W, h.2.2.2.1, h.2.2.2.2.1, h.2.2.2.2.2]

theorem newContainer_ok {d : Disk} {o : List Name} {path : Name} {ub : UB} {d' : Disk}
    (h : newContainer d o path ub = .ok d') :
    o.contains path = false ∧ getF d path = none ∧ d' = setF d path (.cont ub []) := by
  unfold newContainer at h
  split at h
  · cases h
  · split at h
    · cases h
    · rename_i h1 h2
      cases h
      refine ⟨by simpa using h1, ?_, rfl⟩
      cases hg : getF d path <;> simp_all

theorem newContainer_error {d : Disk} {o : List Name} {path : Name} {ub : UB} {e : Out}
    (h : newContainer d o path ub = .error e) : e ≠ .ok := by
  unfold newContainer at h
  split at h
  · cases h; decide
  · split at h
    · cases h; decide
    · cases h

theorem newContainer_of_fresh {d : Disk} {o : List Name} {path : Name} (ub : UB)
    (h1 : o.contains path = false) (h2 : getF d path = none) :
    newContainer d o path ub = .ok (setF d path (.cont ub [])) := by
  have h1' : path ∉ o := by simpa using h1
  simp [newContainer, h1', h2]

/-! ### createRec -/

/-- the handle `_create` returns -/
def freshHandle (c : Bool) (n : Name) (k : Nat) : Handle :=
  { files := [(baseFile n, newBaseUB k)], lastRW := true, allow := true, closed := false,
    mfcls := c, manifest := none }

theorem createRec_spec (s : State) (c : Bool) (n : Name) (t : Bool) (o : List Name) :
    (isValidName n = false ∧ createRec s c n t o = fail s .valueError) ∨
    (isValidName n = true ∧ ∃ e, e ≠ .ok ∧
        newContainer (eraseAll s.disk (goneFiles s.disk n t)) o (baseFile n) (newBaseUB s.next) = .error e ∧
        createRec s c n t o =
          { st := { s with disk := eraseAll s.disk (goneFiles s.disk n t) }, out := e,
            removed := goneFiles s.disk n t }) ∨
    (isValidName n = true ∧ o.contains (baseFile n) = false ∧
        getF (eraseAll s.disk (goneFiles s.disk n t)) (baseFile n) = none ∧
        createRec s c n t o =
          { st := { disk := setF (eraseAll s.disk (goneFiles s.disk n t)) (baseFile n) (.cont (newBaseUB s.next) []),
                    next := s.next + 2, h := freshHandle c n s.next },
            out := .ok, created := [baseFile n], removed := goneFiles s.disk n t }) := by
  unfold createRec
  by_cases hv : isValidName n
  · simp only [hv, Bool.not_true, Bool.false_eq_true, if_false]
    cases hnc : newContainer (eraseAll s.disk (goneFiles s.disk n t)) o (baseFile n) (newBaseUB s.next) with
    | error e =>
      right; left
      exact ⟨trivial, e, newContainer_error hnc, rfl, rfl⟩
    | ok d2 =>
      obtain ⟨h1, h2, rfl⟩ := newContainer_ok hnc
      right; right
      exact ⟨trivial, h1, h2, rfl⟩
  · left
    simp [hv]

theorem goneFiles_false (d : Disk) (n : Name) : goneFiles d n false = [] := by
  simp [goneFiles]

/-- `_create` without truncation: refused without any change, or the fresh base container -/
theorem createRec_notrunc (s : State) (c : Bool) (n : Name) (o : List Name) :
    Failed s (createRec s c n false o) ∨
    (isValidName n = true ∧ o.contains (baseFile n) = false ∧ getF s.disk (baseFile n) = none ∧
        createRec s c n false o =
          { st := { disk := setF s.disk (baseFile n) (.cont (newBaseUB s.next) []),
                    next := s.next + 2, h := freshHandle c n s.next },
            out := .ok, created := [baseFile n] }) := by
  rcases createRec_spec s c n false o with ⟨_, h⟩ | ⟨_, e, he, _, h⟩ | ⟨hv, h1, h2, h⟩
  · left; rw [h]; exact failed_fail rfl rfl (by decide)
  · left; rw [h]; simp only [goneFiles_false, eraseAll]
    exact ⟨he, rfl, rfl, rfl, rfl, rfl⟩
  · right
    simp only [goneFiles_false, eraseAll] at h h2
    exact ⟨hv, h1, h2, h⟩


theorem createPatch_spec (s : State) :
    Failed s (createPatch s) ∨
    ∃ f0 u0 rest fl ul,
      s.h.files = (f0, u0) :: rest ∧ lastFile s.h.files = some (fl, ul) ∧
      s.h.closed = false ∧ s.h.allow = true ∧ hasWritable s.h = false ∧
      (fileNames s.h).contains (patchFile (inferName f0) (ul.idx + 1)) = false ∧
      getF s.disk (patchFile (inferName f0) (ul.idx + 1)) = none ∧
      createPatch s =
        { st := { disk := setF s.disk (patchFile (inferName f0) (ul.idx + 1)) (.cont (newPatchUB ul s.next) []),
                  next := s.next + 1,
                  h := { s.h with files := s.h.files ++ [(patchFile (inferName f0) (ul.idx + 1), newPatchUB ul s.next)],
                                  lastRW := true } },
          out := .ok, created := [patchFile (inferName f0) (ul.idx + 1)] } := by
  unfold createPatch
  simp only
  by_cases hc : s.h.closed
  · left; simp only [hc, if_true]; exact failed_fail rfl rfl (by decide)
  · by_cases ha : s.h.allow
    · by_cases hw : hasWritable s.h
      · left; simp only [hc, ha, hw, Bool.false_eq_true, if_false, Bool.not_true, if_true]; exact failed_fail rfl rfl (by decide)
      · simp only [hc, ha, hw, Bool.false_eq_true, if_false, Bool.not_true]
        cases hf : s.h.files with
        | nil => left; simp only [lastFile]; exact failed_fail rfl rfl (by decide)
        | cons x rest =>
          obtain ⟨f0, u0⟩ := x
          cases hl : lastFile ((f0, u0) :: rest) with
          | none => left; exact failed_fail rfl rfl (by decide)
          | some y =>
            obtain ⟨fl, ul⟩ := y
            simp only
            cases hnc : newContainer s.disk (fileNames s.h) (patchFile (inferName f0) (ul.idx + 1)) (newPatchUB ul s.next) with
            | error e => left; exact failed_fail rfl rfl (newContainer_error hnc)
            | ok d =>
              obtain ⟨h1, h2, rfl⟩ := newContainer_ok hnc
              right
              refine ⟨f0, u0, rest, fl, ul, ?_⟩
              simp_all
    · left; simp only [hc, ha, Bool.false_eq_true, if_false, Bool.not_false, if_true]; exact failed_fail rfl rfl (by decide)

/-! ### list helpers -/

theorem lastFile_setLastUB : ∀ (l : List (Name × UB)) (f : Name) (ub u : UB),
    lastFile l = some (f, ub) → lastFile (setLastUB l u) = some (f, u)
  | [], _, _, _, h => by simp [lastFile] at h
  | [(g, v)], f, ub, u, h => by
    simp only [lastFile, Option.some.injEq, Prod.mk.injEq] at h
    simp [setLastUB, lastFile, h.1]
  | x :: y :: r, f, ub, u, h => by
    simp only [lastFile] at h
    have := lastFile_setLastUB (y :: r) f ub u h
    cases r with
    | nil => obtain ⟨g, v⟩ := y; simpa [setLastUB, lastFile] using this
    | cons z r' => simpa [setLastUB, lastFile] using this

theorem setLastUB_setLastUB : ∀ (l : List (Name × UB)) (a b : UB),
    setLastUB (setLastUB l a) b = setLastUB l b
  | [], _, _ => rfl
  | [(g, v)], _, _ => rfl
  | x :: y :: r, a, b => by
    have := setLastUB_setLastUB (y :: r) a b
    cases r with
    | nil => obtain ⟨g, v⟩ := y; simp [setLastUB]
    | cons z r' => simp only [setLastUB] at this ⊢; rw [this]

theorem setLastUB_isEmpty : ∀ (l : List (Name × UB)) (u : UB), (setLastUB l u).isEmpty = l.isEmpty
  | [], _ => rfl
  | [(g, v)], _ => rfl
  | x :: y :: r, u => by simp [setLastUB]

theorem map_fst_setLastUB : ∀ (l : List (Name × UB)) (u : UB), (setLastUB l u).map Prod.fst = l.map Prod.fst
  | [], _ => rfl
  | [(g, v)], _ => rfl
  | x :: y :: r, u => by
    have := map_fst_setLastUB (y :: r) u
    simp only [setLastUB, List.map_cons] at this ⊢
    rw [this]

theorem setLastUB_self : ∀ (l : List (Name × UB)) (f : Name) (ub : UB),
    lastFile l = some (f, ub) → setLastUB l ub = l
  | [], _, _, h => by simp [lastFile] at h
  | [(g, v)], f, ub, h => by
    simp only [lastFile, Option.some.injEq, Prod.mk.injEq] at h
    simp [setLastUB, h.2]
  | x :: y :: r, f, ub, h => by
    simp only [lastFile] at h
    have := setLastUB_self (y :: r) f ub h
    simp only [setLastUB]
    rw [this]

/-! ### commit -/

theorem commitPlain_spec (s : State) :
    Failed s (commitPlain s) ∨
    ∃ f ub p, lastFile s.h.files = some (f, ub) ∧ s.h.closed = false ∧ s.h.allow = true ∧
      hasWritable s.h = true ∧ payloadOf s.disk f = some p ∧
      commitPlain s =
        { st := { s with disk := setF s.disk f (.cont { ub with hash := some p } p),
                         h := { s.h with files := setLastUB s.h.files { ub with hash := some p },
                                         lastRW := false } },
          out := .ok, written := [f] } := by
  unfold commitPlain
  simp only
  by_cases hc : s.h.closed
  · left; simp only [hc, if_true]; exact failed_fail rfl rfl (by decide)
  · by_cases ha : s.h.allow
    · by_cases hw : hasWritable s.h
      · simp only [hc, ha, hw, Bool.false_eq_true, if_false, Bool.not_true]
        cases hl : lastFile s.h.files with
        | none => left; exact failed_fail rfl rfl (by decide)
        | some y =>
          obtain ⟨f, ub⟩ := y
          simp only
          cases hp : payloadOf s.disk f with
          | none => left; exact failed_fail rfl rfl (by decide)
          | some p =>
            right
            refine ⟨f, ub, p, ?_⟩
            simp_all
      · left; simp only [hc, ha, hw, Bool.false_eq_true, if_false, Bool.not_true, Bool.not_false, if_true]
        exact failed_fail rfl rfl (by decide)
    · left; simp only [hc, ha, Bool.false_eq_true, if_false, Bool.not_false, if_true]
      exact failed_fail rfl rfl (by decide)


theorem hasWritable_setLastUB (h : Handle) (u : UB) :
    hasWritable { h with files := setLastUB h.files u } = hasWritable h := by
  simp [hasWritable, setLastUB_isEmpty]

/-- the user block `IH5MFRecord.commit_patch` writes -/
def mfCommitUB (ub : UB) (k : Nat) (p : List Nat) : UB :=
  { ub with ext := some (k, k + 1), hash := some p }

theorem commitMF_spec (s : State) :
    Failed s (commitMF s) ∨
    ∃ f ub p, lastFile s.h.files = some (f, ub) ∧ s.h.closed = false ∧ s.h.allow = true ∧
      hasWritable s.h = true ∧ payloadOf s.disk f = some p ∧
      (commitMF s).out = .ok ∧
      (commitMF s).st.disk =
        setF (setF s.disk f (.cont (mfCommitUB ub s.next p) p)) (manifestFile f) (.mf s.next (s.next + 1)) ∧
      (commitMF s).st.h =
        { s.h with files := setLastUB s.h.files (mfCommitUB ub s.next p), lastRW := false,
                   manifest := some (s.next, s.next + 1) } ∧
      (commitMF s).st.next = s.next + 2 ∧ (commitMF s).removed = [] ∧
      (∀ g, g ∈ (commitMF s).W ↔ g = f ∨ g = manifestFile f) := by
  unfold commitMF
  simp only
  cases hl : lastFile s.h.files with
  | none => left; exact failed_fail rfl rfl (by decide)
  | some y =>
    obtain ⟨f, ub⟩ := y
    simp only
    generalize hs1 : mfPrep s { ub with ext := some (s.next, s.next + 1) } = s1
    have hl1 : lastFile s1.h.files = some (f, { ub with ext := some (s.next, s.next + 1) }) := by
      rw [← hs1]; exact lastFile_setLastUB _ _ _ _ hl
    rcases commitPlain_spec s1 with hf | ⟨f', ub', p, h1, h2, h3, h4, h5, h6⟩
    · left
      have hne := hf.1
      cases ho : (commitPlain s1).out with
      | ok => exact absurd ho hne
      | _ => simp only; exact failed_fail rfl rfl (by decide)
    · right
      rw [hl1] at h1
      simp only [Option.some.injEq, Prod.mk.injEq] at h1
      obtain ⟨rfl, rfl⟩ := h1
      refine ⟨f, ub, p, rfl, ?_, ?_, ?_, ?_, ?_⟩
      · rw [← hs1] at h2; exact h2
      · rw [← hs1] at h3; exact h3
      · rw [← hs1] at h4; rw [← h4]; exact (hasWritable_setLastUB _ _).symm
      · rw [← hs1] at h5; exact h5
      · rw [h6]
        simp only
        subst hs1
        simp only [mfPrep, setLastUB_setLastUB, mfCommitUB, true_and]
        intro g
        by_cases hex : (getF (setF s.disk f (File.cont { rid := ub.rid, idx := ub.idx, pid := ub.pid, prev := ub.prev, hash := some p, ext := some (s.next, s.next + 1) } p)) (manifestFile f)).isSome
        · simp [Res.W, hex]
        · simp [Res.W, hex]; exact or_comm


theorem discardPatch_spec (s : State) :
    Failed s (discardPatch s) ∨
    ∃ f ub, lastFile s.h.files = some (f, ub) ∧ s.h.closed = false ∧ s.h.allow = true ∧
      hasWritable s.h = true ∧ s.h.files.length ≠ 1 ∧
      discardPatch s =
        { st := { s with disk := eraseF s.disk f,
                         h := { s.h with files := dropLastF s.h.files, lastRW := false } },
          out := .ok, removed := [f] } := by
  unfold discardPatch
  simp only
  by_cases hc : s.h.closed
  · left; simp only [hc, if_true]; exact failed_fail rfl rfl (by decide)
  · by_cases ha : s.h.allow
    · by_cases hw : hasWritable s.h
      · by_cases hn : s.h.files.length = 1
        · left; simp only [hc, ha, hw, hn, Bool.false_eq_true, if_false, Bool.not_true, beq_self_eq_true, if_true]
          exact failed_fail rfl rfl (by decide)
        · have hn' : (s.h.files.length == 1) = false := by simpa using hn
          simp only [hc, ha, hw, hn', Bool.false_eq_true, if_false, Bool.not_true]
          cases hl : lastFile s.h.files with
          | none => left; exact failed_fail rfl rfl (by decide)
          | some y =>
            obtain ⟨f, ub⟩ := y
            right
            refine ⟨f, ub, ?_⟩
            simp_all
      · left; simp only [hc, ha, hw, Bool.false_eq_true, if_false, Bool.not_true, Bool.not_false, if_true]
        exact failed_fail rfl rfl (by decide)
    · left; simp only [hc, ha, Bool.false_eq_true, if_false, Bool.not_false, if_true]
      exact failed_fail rfl rfl (by decide)

theorem write_spec (s : State) (k : Nat) :
    Failed s (write s k) ∨
    ∃ f u, lastFile s.h.files = some (f, u) ∧ hasWritable s.h = true ∧ s.h.closed = false ∧
      ((∃ ub p, getF s.disk f = some (.cont ub p) ∧
          write s k = { st := { s with disk := setF s.disk f (.cont ub (p ++ [k])) }, out := .ok, written := [f] }) ∨
       ((∀ ub p, getF s.disk f ≠ some (.cont ub p)) ∧ write s k = { st := s, out := .ok })) := by
  unfold write
  simp only
  by_cases hc : (s.h.closed || s.h.files.isEmpty)
  · left; simp only [hc, if_true]; exact failed_fail rfl rfl (by decide)
  · by_cases hw : hasWritable s.h
    · simp only [hc, hw, Bool.false_eq_true, if_false, Bool.not_true]
      cases hl : lastFile s.h.files with
      | none => left; exact failed_fail rfl rfl (by decide)
      | some y =>
        obtain ⟨f, u⟩ := y
        right
        refine ⟨f, u, rfl, trivial, by simp_all, ?_⟩
        simp only
        cases hg : getF s.disk f with
        | none => right; simp
        | some v =>
          cases v with
          | cont ub p => left; exact ⟨ub, p, rfl, rfl⟩
          | mf a b => right; simp
    · left; simp only [hc, hw, Bool.false_eq_true, if_false, Bool.not_false, if_true]
      exact failed_fail rfl rfl (by decide)

/-- the handle after `close()` -/
def closedHandle (h : Handle) : Handle := { h with files := [], lastRW := false, closed := true }

theorem close_spec (s : State) (c : Bool) :
    (s.h.closed = true ∧ close s c = { st := s, out := .ok }) ∨
    (s.h.closed = false ∧ hasWritable s.h = true ∧ c = true ∧ (commitPatch s).out ≠ .ok ∧
        close s c = commitPatch s) ∨
    (s.h.closed = false ∧ hasWritable s.h = true ∧ c = true ∧ (commitPatch s).out = .ok ∧
        close s c = { commitPatch s with
                      st := { (commitPatch s).st with h := closedHandle (commitPatch s).st.h } }) ∨
    (s.h.closed = false ∧ (hasWritable s.h && c) = false ∧
        close s c =
          { st := { s with h := closedHandle s.h }, out := .ok,
            written := if hasWritable s.h then
                         (match lastFile s.h.files with | some (f, _) => [f] | none => []) else [] }) := by
  unfold close
  simp only
  by_cases hc : s.h.closed
  · left; simp [hc]
  · right
    by_cases hw : (hasWritable s.h && c)
    · have h1 : hasWritable s.h = true := by simp_all
      have h2 : c = true := by simp_all
      simp only [hc, hw, Bool.false_eq_true, if_false, if_true]
      cases ho : (commitPatch s).out with
      | ok => right; left; simp_all [closedHandle]
      | _ => left; simp_all
    · right; right
      have hw' : ¬ (hasWritable s.h = true ∧ c = true) := by simpa using hw
      refine ⟨by simpa using hc, by simpa using hw, ?_⟩
      simp only [hc, Bool.false_eq_true, if_false]
      rw [if_neg (by simpa using hw)]
      rfl



theorem loadAll_ok : ∀ (d : Disk) (paths : List Name) (l : List (Name × UB)),
    loadAll d paths = .ok l →
    l.map Prod.fst = paths ∧ ∀ f ub, (f, ub) ∈ l → ∃ p, getF d f = some (.cont ub p)
  | d, [], l, h => by
    simp only [loadAll, Except.ok.injEq] at h
    subst h; simp
  | d, f :: r, l, h => by
    simp only [loadAll] at h
    cases hg : getF d f with
    | none => simp [hg] at h
    | some v =>
      cases v with
      | mf a b => simp [hg] at h
      | cont ub p =>
        simp only [hg] at h
        cases hr : loadAll d r with
        | error e => simp [hr] at h
        | ok l' =>
          simp only [hr, Except.ok.injEq] at h
          subst h
          obtain ⟨h1, h2⟩ := loadAll_ok d r l' hr
          refine ⟨by simp [h1], ?_⟩
          intro g ug hm
          simp only [List.mem_cons, Prod.mk.injEq] at hm
          rcases hm with ⟨rfl, rfl⟩ | hm
          · exact ⟨p, hg⟩
          · exact h2 g ug hm

theorem insertByIdx_perm (x : Name × UB) : ∀ l, (insertByIdx x l).Perm (x :: l)
  | [] => by simp [insertByIdx]
  | y :: r => by
    simp only [insertByIdx]
    split
    · exact List.Perm.refl _
    · exact ((insertByIdx_perm x r).cons y).trans (List.Perm.swap x y r)

theorem sortByIdx_perm : ∀ l, (sortByIdx l).Perm l
  | [] => by simp [sortByIdx]
  | x :: r => by
    simp only [sortByIdx]
    exact (insertByIdx_perm x _).trans ((sortByIdx_perm r).cons x)

/-- what a successful `_open` guarantees (the part the file-level properties need) -/
theorem openFiles_ok {d : Disk} {paths : List Name} {rw : Bool} {files : List (Name × UB)} {b : Bool}
    (h : openFiles d paths rw = .ok (files, b)) :
    paths ≠ [] ∧
    (∃ ubs, loadAll d paths = .ok ubs ∧ files = sortByIdx ubs) ∧
    (∃ f ul, lastFile files = some (f, ul) ∧ b = (rw && ul.hash.isNone)) := by
  unfold openFiles at h
  by_cases hp : paths.isEmpty
  · simp [hp] at h
  · simp only [hp, Bool.false_eq_true, if_false] at h
    cases hl : loadAll d paths with
    | error e => simp [hl] at h
    | ok ubs =>
      simp only [hl] at h
      cases hs : sortByIdx ubs with
      | nil => simp [hs] at h
      | cons x rest =>
        obtain ⟨f0, u0⟩ := x
        simp only [hs] at h
        split at h
        · cases h
        · split at h
          · cases h
          · split at h
            · cases h
            · split at h
              · cases h
              · cases hlast : lastFile ((f0, u0) :: rest) with
                | none => simp [hlast] at h
                | some y =>
                  obtain ⟨fl, ul⟩ := y
                  simp only [hlast, Except.ok.injEq, Prod.mk.injEq] at h
                  obtain ⟨rfl, rfl⟩ := h
                  refine ⟨by simpa using hp, ⟨ubs, rfl, hs.symm⟩, fl, ul, hlast, rfl⟩

theorem openFiles_mem {d : Disk} {paths : List Name} {rw : Bool} {files : List (Name × UB)} {b : Bool}
    (h : openFiles d paths rw = .ok (files, b)) :
    ∀ f ub, (f, ub) ∈ files → ∃ p, getF d f = some (.cont ub p) := by
  obtain ⟨_, ⟨ubs, h1, rfl⟩, _⟩ := openFiles_ok h
  intro f ub hm
  exact (loadAll_ok d paths ubs h1).2 f ub ((sortByIdx_perm ubs).mem_iff.mp hm)


/-- the handle `_open` builds -/
def openedHandle (files : List (Name × UB)) (b : Bool) (c : Bool) (m : Mode) (man : Option (Nat × Nat)) : Handle :=
  { files := files, lastRW := b, allow := m != .r, closed := false, mfcls := c, manifest := man }

theorem loadAll_error : ∀ (d : Disk) (paths : List Name) (e : Out), loadAll d paths = .error e → e ≠ .ok
  | d, [], e, h => by simp [loadAll] at h
  | d, f :: r, e, h => by
    simp only [loadAll] at h
    cases hg : getF d f with
    | none => simp only [hg, Except.error.injEq] at h; subst h; decide
    | some v =>
      cases v with
      | mf a b => simp only [hg, Except.error.injEq] at h; subst h; decide
      | cont ub p =>
        simp only [hg] at h
        cases hr : loadAll d r with
        | error e' => simp only [hr, Except.error.injEq] at h; subst h; exact loadAll_error d r e' hr
        | ok l' => simp [hr] at h

theorem openFiles_error {d : Disk} {paths : List Name} {rw : Bool} {e : Out}
    (h : openFiles d paths rw = .error e) : e ≠ .ok := by
  unfold openFiles at h
  split at h
  · cases h; decide
  · cases hl : loadAll d paths with
    | error e' => simp only [hl, Except.error.injEq] at h; subst h; exact loadAll_error _ _ _ hl
    | ok ubs =>
      simp only [hl] at h
      repeat' (split at h <;> try (cases h; decide))
      all_goals (try cases h)

theorem loadManifest_error {d : Disk} {files : List (Name × UB)} {e : Out}
    (h : loadManifest d files = .error e) : e ≠ .ok := by
  unfold loadManifest at h
  repeat' (split at h <;> try (cases h; decide))
  all_goals (try cases h)

theorem openExisting_spec (s : State) (c : Bool) (paths : List Name) (m : Mode) :
    Failed s (openExisting s c paths m) ∨
    ∃ files b man,
      openFiles s.disk paths (m != .r) = .ok (files, b) ∧
      (if c then loadManifest s.disk files else .ok none) = .ok man ∧
      (((m != .r && !hasWritable (openedHandle files b c m man)) = false ∧
          openExisting s c paths m =
            { st := { s with h := openedHandle files b c m man }, out := .ok,
              written := if b then (match lastFile files with | some (f, _) => [f] | none => []) else [] }) ∨
       ((m != .r && !hasWritable (openedHandle files b c m man)) = true ∧
          (createPatch { s with h := openedHandle files b c m man }).out = .ok ∧
          openExisting s c paths m = createPatch { s with h := openedHandle files b c m man })) := by
  unfold openExisting
  simp only
  cases ho : openFiles s.disk paths (m != .r) with
  | error e =>
    left
    exact failed_fail rfl rfl (openFiles_error ho)
  | ok v =>
    obtain ⟨files, b⟩ := v
    simp only
    cases hm : (if c then loadManifest s.disk files else .ok none) with
    | error e =>
      left
      have : e ≠ .ok := by
        by_cases hc : c
        · simp only [hc, if_true] at hm
          exact loadManifest_error hm
        · simp [hc] at hm
      simp only [hm]
      exact failed_fail rfl rfl this
    | ok man =>
      simp only [hm]
      by_cases hw : (m != .r && !hasWritable (openedHandle files b c m man))
      · simp only [openedHandle] at hw
        simp only [hw, if_true]
        cases hcp : (createPatch { s with h := { files := files, lastRW := b, allow := m != .r, closed := false, mfcls := c, manifest := man } }).out with
        | ok =>
          right
          refine ⟨files, b, man, rfl, hm, Or.inr ⟨by simpa [openedHandle] using hw, by simpa [openedHandle] using hcp, ?_⟩⟩
          simp [openedHandle]
        | _ => left; simp only; exact failed_fail rfl rfl (by decide)
      · right
        refine ⟨files, b, man, rfl, hm, Or.inl ⟨by simpa using hw, ?_⟩⟩
        simp only [openedHandle] at hw
        simp only [hw, Bool.false_eq_true, if_false]
        rfl



theorem payloadOf_setF_cont (d : Disk) (f : Name) (ub : UB) (p : List Nat) :
    payloadOf (setF d f (.cont ub p)) f = some p := by
  simp [payloadOf, getF_setF_eq]

theorem setPayload_setF_cont (d : Disk) (f : Name) (ub : UB) (p q : List Nat) :
    setPayload (setF d f (.cont ub p)) f q = setF (setF d f (.cont ub p)) f (.cont ub q) := by
  simp [setPayload, getF_setF_eq]

/-- committing a record that consists of a fresh base container (plain class) -/
theorem commitPlain_fresh (d : Disk) (k nx : Nat) (c : Bool) (n : Name) (p : List Nat)
    (hp : payloadOf d (baseFile n) = some p) :
    commitPlain { disk := d, next := nx, h := freshHandle c n k } =
      { st := { disk := setF d (baseFile n) (.cont { newBaseUB k with hash := some p } p), next := nx,
                h := { freshHandle c n k with files := [(baseFile n, { newBaseUB k with hash := some p })], lastRW := false } },
        out := .ok, written := [baseFile n] } := by
  simp [commitPlain, freshHandle, hasWritable, lastFile, hp, setLastUB]

theorem commitMF_fresh (d : Disk) (k nx : Nat) (c : Bool) (n : Name) (p : List Nat)
    (hp : payloadOf d (baseFile n) = some p) :
    (commitMF { disk := d, next := nx, h := freshHandle c n k }).out = .ok ∧
    (commitMF { disk := d, next := nx, h := freshHandle c n k }).st.disk =
      setF (setF d (baseFile n) (.cont (mfCommitUB (newBaseUB k) nx p) p)) (manifestFile (baseFile n)) (.mf nx (nx + 1)) ∧
    (commitMF { disk := d, next := nx, h := freshHandle c n k }).st.next = nx + 2 ∧
    (commitMF { disk := d, next := nx, h := freshHandle c n k }).removed = [] ∧
    (∀ g, g ∈ (commitMF { disk := d, next := nx, h := freshHandle c n k }).W ↔ g = baseFile n ∨ g = manifestFile (baseFile n)) := by
  rcases commitMF_spec { disk := d, next := nx, h := freshHandle c n k } with hf | ⟨f, ub, p', h1, _, _, _, h5, h6, h7, _, h9, h10, h11⟩
  · exfalso
    apply hf.1
    simp [commitMF, mfPrep, freshHandle, lastFile, setLastUB, commitPlain, hasWritable, hp]
  · simp only [freshHandle, lastFile, Option.some.injEq, Prod.mk.injEq] at h1
    obtain ⟨rfl, rfl⟩ := h1
    simp only at h5
    rw [hp] at h5
    cases h5
    exact ⟨h6, h7, h9, h10, h11⟩


theorem hasWritable_freshHandle (c : Bool) (n : Name) (k : Nat) : hasWritable (freshHandle c n k) = true := by
  simp [hasWritable, freshHandle]

theorem mergeFiles_spec (s : State) (t : Name) :
    Failed s (mergeFiles s t) ∨
    (s.h.closed = false ∧ hasWritable s.h = false ∧ isValidName t = true ∧
      getF s.disk (baseFile t) = none ∧ (fileNames s.h).contains (baseFile t) = false ∧
      (mergeFiles s t).st.h = s.h ∧ (mergeFiles s t).removed = [] ∧
      (∀ g, g ∈ (mergeFiles s t).W → g = baseFile t ∨ g = manifestFile (baseFile t)) ∧
      (∀ g, g ≠ baseFile t → g ≠ manifestFile (baseFile t) →
          getF (mergeFiles s t).st.disk g = getF s.disk g) ∧
      (∃ ub p, getF (mergeFiles s t).st.disk (baseFile t) = some (.cont ub p) ∧
        (ub.pid = s.next ∨ ∀ fl ul, lastFile s.h.files = some (fl, ul) → ub.pid = ul.pid)) ∧
      s.next < (mergeFiles s t).st.next ∧
      (getF (mergeFiles s t).st.disk (manifestFile (baseFile t)) = getF s.disk (manifestFile (baseFile t)) ∨
        (manifestFile (baseFile t) ∈ (mergeFiles s t).W ∧
          ∃ a b, getF (mergeFiles s t).st.disk (manifestFile (baseFile t)) = some (.mf a b))) ∧
      baseFile t ∈ (mergeFiles s t).W) := by
  unfold mergeFiles
  simp only
  by_cases hc : s.h.closed
  · left; simp only [hc, if_true]; exact failed_fail rfl rfl (by decide)
  · by_cases hw : hasWritable s.h
    · left; simp only [hc, hw, Bool.false_eq_true, if_false, if_true]; exact failed_fail rfl rfl (by decide)
    · simp only [hc, hw, Bool.false_eq_true, if_false]
      cases hf : s.h.files with
      | nil => left; exact failed_fail rfl rfl (by decide)
      | cons x rest =>
        obtain ⟨f0, u0⟩ := x
        cases hl : lastFile ((f0, u0) :: rest) with
        | none => left; exact failed_fail rfl rfl (by decide)
        | some y =>
          obtain ⟨fl, ul⟩ := y
          simp only
          rcases createRec_notrunc { s with h := {} } s.h.mfcls t (fileNames s.h) with hfail | ⟨hv, h1, h2, heq⟩
          · left
            cases ho : (createRec { s with h := {} } s.h.mfcls t false (fileNames s.h)).out with
            | ok => exact absurd ho hfail.1
            | _ => simp only; exact failed_fail rfl rfl (by decide)
          · right
            rw [heq]
            simp only at h2
            have hside : manifestFile (baseFile t) ≠ baseFile t := by
              simp [manifestFile, mfExt]
            simp only [setPayload_setF_cont, close, freshHandle, hasWritable, List.isEmpty_cons, Bool.not_false,
              Bool.and_self, Bool.false_eq_true, if_false, if_true, commitPatch]
            by_cases hm : s.h.mfcls
            · simp only [hm, if_true]
              obtain ⟨ho, hd, hn, hrm, hW⟩ := commitMF_fresh (setF (setF s.disk (baseFile t) (File.cont (newBaseUB s.next) [])) (baseFile t)
                (File.cont (newBaseUB s.next) (viewFiles s.disk ((f0, u0) :: rest)))) s.next (s.next + 2) true t _ (payloadOf_setF_cont _ _ _ _)
              simp only [freshHandle] at ho hd hn hrm hW
              revert ho hd hn hrm hW
              generalize (commitMF _) = r3
              intro ho hd hn hrm hW
              simp only [ho]
              have hWc : ∀ g, g ∈ r3.created → g = baseFile t ∨ g = manifestFile (baseFile t) := by
                intro g hg; exact (hW g).mp (by simp [Res.W, hg])
              have hWw : ∀ g, g ∈ r3.written → g = baseFile t ∨ g = manifestFile (baseFile t) := by
                intro g hg; exact (hW g).mp (by simp [Res.W, hg])
              have hsideW : manifestFile (baseFile t) ∈ r3.created ∨ manifestFile (baseFile t) ∈ r3.written := by
                have := (hW (manifestFile (baseFile t))).mpr (Or.inr rfl)
                simpa [Res.W, hrm] using this
              refine ⟨by simpa using hc, by simpa using hw, hv, h2, h1, ?_⟩
              cases hman : s.h.manifest with
              | none =>
                simp only [Res.W, List.append_nil, List.nil_append]
                refine ⟨trivial, trivial, ?_, ?_, ?_, by omega, ?_, by simp⟩
                · intro g hg
                  simp only [List.mem_cons, List.mem_append] at hg
                  rcases hg with (rfl | hg) | hg
                  · exact Or.inl rfl
                  · exact hWc g hg
                  · exact hWw g hg
                · intro g hg1 hg2
                  rw [getF_setF_ne _ _ _ _ hg1, hd, getF_setF_ne _ _ _ _ hg2, getF_setF_ne _ _ _ _ hg1,
                    getF_setF_ne _ _ _ _ hg1, getF_setF_ne _ _ _ _ hg1]
                · refine ⟨_, _, getF_setF_eq _ _ _, Or.inr ?_⟩
                  intro fl' ul' hl'
                  first | (rw [hl] at hl'; cases hl'; rfl) | (cases hl'; rfl)
                · right
                  refine ⟨by rcases hsideW with h | h <;> simp [h], ?_⟩
                  rw [getF_setF_ne _ _ _ _ hside, hd, getF_setF_eq]
                  exact ⟨_, _, rfl⟩
              | some mm =>
                obtain ⟨mu, mb⟩ := mm
                cases hext : ul.ext with
                | none =>
                  simp only [Res.W, List.append_nil, List.nil_append]
                  refine ⟨trivial, trivial, ?_, ?_, ?_, by omega, ?_, by simp⟩
                  · intro g hg
                    simp only [List.mem_cons, List.mem_append] at hg
                    rcases hg with (rfl | hg) | hg
                    · exact Or.inl rfl
                    · exact hWc g hg
                    · exact hWw g hg
                  · intro g hg1 hg2
                    rw [getF_setF_ne _ _ _ _ hg1, hd, getF_setF_ne _ _ _ _ hg2, getF_setF_ne _ _ _ _ hg1,
                      getF_setF_ne _ _ _ _ hg1, getF_setF_ne _ _ _ _ hg1]
                  · refine ⟨_, _, getF_setF_eq _ _ _, Or.inr ?_⟩
                    intro fl' ul' hl'
                    first | (rw [hl] at hl'; cases hl'; rfl) | (cases hl'; rfl)
                  · right
                    refine ⟨by rcases hsideW with h | h <;> simp [h], ?_⟩
                    rw [getF_setF_ne _ _ _ _ hside, hd, getF_setF_eq]
                    exact ⟨_, _, rfl⟩
                | some ee =>
                  obtain ⟨eu, eh⟩ := ee
                  simp only
                  by_cases heq : (eu == mu)
                  · simp only [heq, if_true, Res.W, List.append_nil, List.nil_append]
                    refine ⟨trivial, trivial, ?_, ?_, ?_, by omega, ?_, by simp⟩
                    · intro g hg
                      simp only [List.mem_cons, List.mem_append, List.not_mem_nil, or_false] at hg
                      rcases hg with (rfl | hg) | hg | rfl
                      · exact Or.inl rfl
                      · exact hWc g hg
                      · exact hWw g hg
                      · exact Or.inr rfl
                    · intro g hg1 hg2
                      rw [getF_setF_ne _ _ _ _ hg1, getF_setF_ne _ _ _ _ hg2, hd, getF_setF_ne _ _ _ _ hg2, getF_setF_ne _ _ _ _ hg1,
                        getF_setF_ne _ _ _ _ hg1, getF_setF_ne _ _ _ _ hg1]
                    · refine ⟨_, _, getF_setF_eq _ _ _, Or.inr ?_⟩
                      intro fl' ul' hl'
                      first | (rw [hl] at hl'; cases hl'; rfl) | (cases hl'; rfl)
                    · right
                      refine ⟨by simp, ?_⟩
                      rw [getF_setF_ne _ _ _ _ hside, getF_setF_eq]
                      exact ⟨_, _, rfl⟩
                  · simp only [heq, Bool.false_eq_true, if_false, Res.W, List.append_nil, List.nil_append]
                    refine ⟨trivial, trivial, ?_, ?_, ?_, by omega, ?_, by simp⟩
                    · intro g hg
                      simp only [List.mem_cons, List.mem_append] at hg
                      rcases hg with (rfl | hg) | hg
                      · exact Or.inl rfl
                      · exact hWc g hg
                      · exact hWw g hg
                    · intro g hg1 hg2
                      rw [hd, getF_setF_ne _ _ _ _ hg2, getF_setF_ne _ _ _ _ hg1,
                        getF_setF_ne _ _ _ _ hg1, getF_setF_ne _ _ _ _ hg1]
                    · rw [hd, getF_setF_ne _ _ _ _ hside.symm, getF_setF_eq]
                      exact ⟨_, _, rfl, Or.inl rfl⟩
                    · right
                      refine ⟨by rcases hsideW with h | h <;> simp [h], ?_⟩
                      rw [hd, getF_setF_eq]
                      exact ⟨_, _, rfl⟩
            · simp only [hm, Bool.false_eq_true, if_false]
              have := commitPlain_fresh (setF (setF s.disk (baseFile t) (File.cont (newBaseUB s.next) [])) (baseFile t)
                (File.cont (newBaseUB s.next) (viewFiles s.disk ((f0, u0) :: rest)))) s.next (s.next + 2) false t _ (payloadOf_setF_cont _ _ _ _)
              simp only [freshHandle] at this
              rw [this]
              simp only [Res.W, List.append_nil, List.nil_append, List.mem_cons, List.not_mem_nil, or_false]
              refine ⟨by simpa using hc, by simpa using hw, hv, h2, h1, trivial, trivial, ?_, ?_, ?_, by omega, ?_, by simp⟩
              · intro g hg; left; simpa using hg
              · intro g hg1 hg2
                simp only [getF_setF_ne _ _ _ _ hg1]
              · refine ⟨_, _, getF_setF_eq _ _ _, Or.inr ?_⟩
                intro fl' ul' hl'
                first | (rw [hl] at hl'; cases hl'; rfl) | (cases hl'; rfl)
              · left
                simp only [getF_setF_ne _ _ _ _ hside]



theorem commitPlain_eq (s : State) {f : Name} {ub : UB} {p : List Nat}
    (hc : s.h.closed = false) (ha : s.h.allow = true) (hw : hasWritable s.h = true)
    (hl : lastFile s.h.files = some (f, ub)) (hp : payloadOf s.disk f = some p) :
    commitPlain s =
      { st := { s with disk := setF s.disk f (.cont { ub with hash := some p } p),
                       h := { s.h with files := setLastUB s.h.files { ub with hash := some p },
                                       lastRW := false } },
        out := .ok, written := [f] } := by
  simp [commitPlain, hc, ha, hw, hl, hp]

theorem commitMF_out_ok (s : State) {f : Name} {ub : UB} {p : List Nat}
    (hc : s.h.closed = false) (ha : s.h.allow = true) (hw : hasWritable s.h = true)
    (hl : lastFile s.h.files = some (f, ub)) (hp : payloadOf s.disk f = some p) :
    (commitMF s).out = .ok := by
  unfold commitMF
  simp only [hl]
  have := commitPlain_eq (mfPrep s { ub with ext := some (s.next, s.next + 1) }) (f := f) (p := p)
    hc ha (by simp only [mfPrep]; rw [hasWritable_setLastUB]; exact hw)
    (lastFile_setLastUB _ _ _ _ hl) hp
  rw [this]

end MetadorModel.Record
