import MetadorModel.Proofs.CrashTorn
import MetadorModel.Proofs.ChainFaults
/-! Helper lemmas for the crash model (C11): frame property of `Reach`, loading zero blocks,
`openFiles` on appended / permuted lists. -/
namespace MetadorModel.Crash
open List MetadorModel.Chain MetadorModel.UBlock

variable {P M : Type}

theorem loadUBT_zeros (n : Nat) (v : UBT) : loadUBT (zeros n) ≠ .ok v := by
  have hnone : readHeadRaw (zeros n) 512 = .ok none := by
    apply readHeadRaw_none_of_count
    · intro c hc
      rw [eq_of_mem_replicate (mem_of_mem_take hc)]; decide
    · have hle : ((zeros n).take 512).count '\n' ≤ (zeros n).count '\n' := (take_sublist _ _).count_le _
      have hz : (zeros n).count '\n' = 0 := by
        unfold zeros; rw [count_replicate]; simp
      omega
  unfold loadUBT loadText
  rw [hnone]
  intro h; cases h

theorem loadUB_eq (b : Bytes) : loadUB b = (loadUBT b).map UBT.toUB := rfl

theorem loadUB_ok {b : Bytes} {u : UBT} (h : loadUBT b = .ok u) : loadUB b = .ok u.toUB := by
  rw [loadUB_eq, h]; rfl

theorem loadUB_ok_inv {b : Bytes} {x : UB} (h : loadUB b = .ok x) : ∃ u, loadUBT b = .ok u ∧ x = u.toUB := by
  rw [loadUB_eq] at h
  rcases hu : loadUBT b with e | u
  · rw [hu] at h; cases h
  · rw [hu] at h
    exact ⟨u, rfl, by simpa [Except.map] using h.symm⟩

/-! ## frame -/

theorem Reach.frame {d0 d : Disk P M} {nn : Name} {uOld uNew : UBT} {pf : P}
    (h : Reach d0 nn uOld uNew pf d) (n : Name) (hn : n ≠ nn) :
    d.cont n = d0.cont n ∧ d.mf n = d0.mf n := by
  cases h <;> simp [Disk.setC, Disk.setM, hn]

theorem loadFile_congr {d d' : Disk P M} {n : Name} (h1 : d.cont n = d'.cont n) (h2 : d.mf n = d'.mf n) :
    loadFile d n = loadFile d' n := by
  unfold loadFile; rw [h1, h2]

theorem Reach.loadFile_other {d0 d : Disk P M} {nn : Name} {uOld uNew : UBT} {pf : P}
    (h : Reach d0 nn uOld uNew pf d) {ns : List Name} (hn : nn ∉ ns) :
    ns.map (loadFile d) = ns.map (loadFile d0) := by
  apply map_congr_left
  intro n hmem
  have hne : n ≠ nn := fun e => hn (e ▸ hmem)
  exact loadFile_congr (h.frame n hne).1 (h.frame n hne).2

/-! ## opening a list of loaded files -/

section
variable (H : P → Digest) (HM : M → Digest) (mfAware : Bool)

theorem mapM_id_append_some {l : List (Option (File P M))} {fs : List (File P M)} (f : File P M)
    (h : l.mapM id = some fs) : (l ++ [some f]).mapM id = some (fs ++ [f]) := by
  induction l generalizing fs with
  | nil => simp at h; subst h; simp
  | cons a r ih =>
    rcases a with _ | a
    · simp at h
    · rcases hr : r.mapM id with _ | fr
      · simp [hr] at h
      · simp [hr] at h; subst h
        simp [ih hr]

theorem mapM_id_append_none {l : List (Option (File P M))} :
    (l ++ [none]).mapM id = none := by
  induction l with
  | nil => simp
  | cons a r ih =>
    rcases a with _ | a
    · simp
    · simp [ih]

theorem openFiles_ok_inv {l : List (Option (File P M))} {s : List (File P M)}
    (h : openFiles H HM mfAware false l = .ok s) :
    ∃ fs, l.mapM id = some fs ∧ validate H HM mfAware false fs = .ok s := by
  unfold openFiles at h
  split_ifs at h with he
  rcases hm : l.mapM id with _ | fs
  · rw [hm] at h; cases h
  · rw [hm] at h; exact ⟨fs, rfl, h⟩

theorem openFiles_append_none (l : List (Option (File P M))) :
    openFiles H HM mfAware false (l ++ [none]) = .error .load := by
  unfold openFiles
  have : (l ++ [none]).isEmpty = false := by cases l <;> rfl
  rw [this, mapM_id_append_none]; rfl

theorem openFiles_append_some {l : List (Option (File P M))} {fs : List (File P M)} (f : File P M)
    (h : l.mapM id = some fs) :
    openFiles H HM mfAware false (l ++ [some f]) = validate H HM mfAware false (fs ++ [f]) := by
  unfold openFiles
  have : (l ++ [some f]).isEmpty = false := by cases l <;> rfl
  rw [this, mapM_id_append_some f h]; rfl

/-- a permutation of the name list gives the same successful result -/
theorem mapM_id_perm {l l' : List (Option (File P M))} (hp : l ~ l') :
    (∀ fs, l.mapM id = some fs → ∃ fs', l'.mapM id = some fs' ∧ fs ~ fs') := by
  induction hp with
  | nil => intro fs h; exact ⟨fs, h, Perm.refl _⟩
  | @cons a l₁ l₂ _ ih =>
    intro fs h
    rcases a with _ | a
    · simp at h
    · rcases hr : l₁.mapM id with _ | fr
      · simp [hr] at h
      · simp [hr] at h; subst h
        obtain ⟨fs', h1, h2⟩ := ih fr hr
        exact ⟨a :: fs', by simp [h1], h2.cons a⟩
  | swap a b l =>
    intro fs h
    rcases a with _ | a <;> rcases b with _ | b <;> simp at h
    rcases hr : l.mapM id with _ | fr
    · simp [hr] at h
    · simp [hr] at h; subst h
      exact ⟨a :: b :: fr, by simp [hr], Perm.swap a b fr⟩
  | trans _ _ ih1 ih2 =>
    intro fs h
    obtain ⟨f1, h1, p1⟩ := ih1 fs h
    obtain ⟨f2, h2, p2⟩ := ih2 f1 h1
    exact ⟨f2, h2, p1.trans p2⟩

theorem mapM_id_perm_none {l l' : List (Option (File P M))} (hp : l ~ l') (h : l.mapM id = none) :
    l'.mapM id = none := by
  rcases h' : l'.mapM id with _ | fs'
  · rfl
  · obtain ⟨fs, h1, _⟩ := mapM_id_perm hp.symm fs' h'
    rw [h] at h1; cases h1

/-- the result of opening does not depend on the order of the names, up to the error kind -/
theorem openFiles_perm {l l' : List (Option (File P M))} (hp : l ~ l') (s : List (File P M)) :
    openFiles H HM mfAware false l = .ok s → openFiles H HM mfAware false l' = .ok s := by
  intro h
  obtain ⟨fs, h1, h2⟩ := openFiles_ok_inv H HM mfAware h
  obtain ⟨fs', h1', p⟩ := mapM_id_perm hp fs h1
  unfold openFiles
  have hne : l ≠ [] := by rintro rfl; simp [openFiles] at h
  have : l'.isEmpty = false := by
    cases l' with
    | nil => exact absurd hp.eq_nil hne
    | cons a r => rfl
  rw [this, h1']
  simp only [Bool.false_eq_true, if_false]
  exact (validate_ok_iff H HM mfAware false fs' s).mpr
    (let ⟨q1, q2⟩ := (validate_ok_iff H HM mfAware false fs s).mp h2; ⟨q1.trans p, q2⟩)

end
end MetadorModel.Crash
