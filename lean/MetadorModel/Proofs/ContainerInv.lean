import MetadorModel.Proofs.ContainerToc
/-!
# The container invariant and its preservation by the metadata operations
-/
namespace MetadorModel.Container

/-- a metadata object (schema `r`, uuid `u`) is attached at path `p` of the raw tree -/
def ObjAt (t : Tree) (p : Path) (r : SRef) (u : Nat) : Prop :=
  ∃ base m, isInternal base = false ∧ p = base ++ [.metaDir m, .obj r u] ∧ get? t p ≠ none

/-- schemas in use -/
def UsedIn (t : Tree) (r : SRef) : Prop := ∃ p u, ObjAt t p r u

/-- what may live outside `/metador_container` -/
inductive UShape : Path → Node → Prop
  | user (q : Path) (n : Node) : isInternal q = false → (n = .grp ∨ ∃ tok, n = .ds (.data tok)) → UShape q n
  | metaDir (base : Path) (m : String) : isInternal base = false → UShape (base ++ [.metaDir m]) .grp
  | obj (base : Path) (m : String) (r : SRef) (u : Nat) (tok : String) : isInternal base = false →
      UShape (base ++ [.metaDir m, .obj r u]) (.ds (.data tok))

/-- the non-TOC half of the invariant: user nodes and their metadata directories -/
structure MetaOK (e : Env) (s : St) : Prop where
  ushape : ∀ q n, q ≠ [] → q.head? ≠ some .toc → get? s.raw q = some n → UShape q n
  /-- a metadata directory belongs to an existing node of the right kind and is not empty -/
  host : ∀ base m, isInternal base = false → get? s.raw (base ++ [.metaDir m]) ≠ none →
    (m = "" ∨ ∃ v, get? s.raw (base ++ [.user m]) = some (.ds v)) ∧
    ∃ r u, get? s.raw (base ++ [.metaDir m, .obj r u]) ≠ none
  objenv : ∀ p r u, ObjAt s.raw p r u → ∃ i, e.info r = some i
  onename : ∀ base m r u r' u', isInternal base = false →
    get? s.raw (base ++ [.metaDir m, .obj r u]) ≠ none → get? s.raw (base ++ [.metaDir m, .obj r' u']) ≠ none →
    r.name = r'.name → r = r' ∧ u = u'
  uniq : ∀ p p' r r' u, ObjAt s.raw p r u → ObjAt s.raw p' r' u → p = p' ∧ r = r'
  bound : ∀ p r u, ObjAt s.raw p r u → u < s.next

/-- The invariant of the container model: well-formed raw tree, the TOC subtree and the caches
are exactly what the attached metadata objects demand. -/
structure Inv (e : Env) (s : St) : Prop where
  keys : KeysOK s.raw
  pclosed : PClosed s.raw
  mok : MetaOK e s
  toc : TocRaw e (ObjAt s.raw) (UsedIn s.raw) s.raw
  scache : SchemaCache e (UsedIn s.raw) s.c
  lcache : LinkCache (ObjAt s.raw) s.c

theorem TocRaw.frame {e : Env} {L : Path → SRef → Nat → Prop} {U : SRef → Prop} {t t' : Tree}
    (h : TocRaw e L U t) (hf : ∀ q, q.head? = some .toc → get? t' q = get? t q) : TocRaw e L U t' := by
  have f : ∀ q : Path, q.head? = some .toc → get? t' q = get? t q := hf
  refine ⟨?_, ?_, ?_, ?_, fun r => ?_, fun p r u hL => ?_, fun r u hL => ?_, ?_, fun r => ?_, fun r => ?_,
    fun r => ?_, ?_, fun pk => ?_, fun rest hne => ?_⟩
  · rw [f _ rfl]; exact h.root
  · rw [f _ rfl]; exact h.ver
  · rw [f _ rfl]; exact h.uid
  · exact h.links.congr (f _ rfl) Iff.rfl
  · exact (h.ldir r).congr (f _ rfl) Iff.rfl
  · rw [f _ rfl]; exact h.link_some p r u hL
  · rw [f _ rfl]; exact h.link_none r u hL
  · exact h.schemas.congr (f _ rfl) Iff.rfl
  · exact (h.sdir r).congr (f _ rfl) Iff.rfl
  · exact (h.json r).congr (f _ rfl) Iff.rfl
  · exact (h.compat r).congr (f _ rfl) Iff.rfl
  · exact h.packages.congr (f _ rfl) Iff.rfl
  · exact (h.pkg pk).congr (f _ rfl) Iff.rfl
  · rw [f _ rfl] at hne; exact h.shape rest hne

theorem isInternal_append (a b : Path) : isInternal (a ++ b) = (isInternal a || isInternal b) := by
  simp [isInternal, List.any_append]

theorem isInternal_head_ne_toc {q : Path} (h : isInternal q = false) : q.head? ≠ some .toc := by
  cases q with
  | nil => simp
  | cons k q =>
    simp only [isInternal, List.any_cons, Bool.or_eq_false_iff] at h
    simp only [List.head?_cons, ne_eq, Option.some.injEq]
    rintro rfl
    simp [Key.internal] at h

theorem objPath_head {base : Path} {m : String} {k : List Key} (h : isInternal base = false) :
    (base ++ .metaDir m :: k).head? ≠ some .toc := by
  cases base with
  | nil => simp
  | cons x base =>
    have := isInternal_head_ne_toc h
    simpa using this

theorem ObjAt.head {t : Tree} {p : Path} {r : SRef} {u : Nat} (h : ObjAt t p r u) : p.head? ≠ some .toc := by
  obtain ⟨base, m, hb, rfl, -⟩ := h
  exact objPath_head hb

theorem ObjAt.congr {t t' : Tree} (hf : ∀ q, q.head? ≠ some .toc → get? t' q = get? t q)
    (p : Path) (r : SRef) (u : Nat) : ObjAt t' p r u ↔ ObjAt t p r u := by
  constructor
  · rintro ⟨base, m, hb, rfl, hg⟩
    exact ⟨base, m, hb, rfl, by rw [← hf _ (objPath_head hb)]; exact hg⟩
  · rintro ⟨base, m, hb, rfl, hg⟩
    exact ⟨base, m, hb, rfl, by rw [hf _ (objPath_head hb)]; exact hg⟩

end MetadorModel.Container
