import MetadorModel.Proofs.ContainerToc
import Mathlib.Data.List.Induction
/-!
# The container invariant and its preservation by the metadata operations
-/
namespace MetadorModel.Container

/-- a metadata object (schema `r`, uuid `u`) is attached at path `p` of the raw tree -/
def ObjAt (t : Tree) (p : Path) (r : SRef) (u : Nat) : Prop :=
  ∃ base m, isInternal base = false ∧ p = base ++ [.metaDir m, .obj r u] ∧ get? t p ≠ none

/-- schemas in use -/
def UsedIn (t : Tree) (r : SRef) : Prop := ∃ p u, ObjAt t p r u

/-- what may live outside `/metador_container` -/
inductive UShape : Path → Node → Prop
  | user (q : Path) (n : Node) : isInternal q = false → (n = .grp ∨ ∃ tok, n = .ds (.data tok)) → UShape q n
  | metaDir (base : Path) (m : String) : isInternal base = false → UShape (base ++ [.metaDir m]) .grp
  | obj (base : Path) (m : String) (r : SRef) (u : Nat) (tok : String) : isInternal base = false →
      UShape (base ++ [.metaDir m, .obj r u]) (.ds (.data tok))

/-- the non-TOC half of the invariant: user nodes and their metadata directories -/
structure MetaOK (e : Env) (s : St) : Prop where
  ushape : ∀ q n, q ≠ [] → q.head? ≠ some .toc → get? s.raw q = some n → UShape q n
  /-- a metadata directory belongs to an existing node of the right kind and is not empty -/
  host : ∀ base m, isInternal base = false → get? s.raw (base ++ [.metaDir m]) ≠ none →
    (m = "" ∨ ∃ v, get? s.raw (base ++ [.user m]) = some (.ds v)) ∧
    ∃ r u, get? s.raw (base ++ [.metaDir m, .obj r u]) ≠ none
  objenv : ∀ p r u, ObjAt s.raw p r u → ∃ i, e.info r = some i
  onename : ∀ base m r u r' u', isInternal base = false →
    get? s.raw (base ++ [.metaDir m, .obj r u]) ≠ none → get? s.raw (base ++ [.metaDir m, .obj r' u']) ≠ none →
    r.name = r'.name → r = r' ∧ u = u'
  uniq : ∀ p p' r r' u, ObjAt s.raw p r u → ObjAt s.raw p' r' u → p = p' ∧ r = r'
  bound : ∀ p r u, ObjAt s.raw p r u → u < s.next

/-- The invariant of the container model: well-formed raw tree, the TOC subtree and the caches
are exactly what the attached metadata objects demand. -/
structure Inv (e : Env) (s : St) : Prop where
  keys : KeysOK s.raw
  pclosed : PClosed s.raw
  mok : MetaOK e s
  toc : TocRaw e (ObjAt s.raw) (UsedIn s.raw) s.raw
  scache : SchemaCache e (UsedIn s.raw) s.c
  lcache : LinkCache (ObjAt s.raw) s.c

theorem TocRaw.frame {e : Env} {L : Path → SRef → Nat → Prop} {U : SRef → Prop} {t t' : Tree}
    (h : TocRaw e L U t) (hf : ∀ q, q.head? = some .toc → get? t' q = get? t q) : TocRaw e L U t' := by
  have f : ∀ q : Path, q.head? = some .toc → get? t' q = get? t q := hf
  refine ⟨?_, ?_, ?_, ?_, fun r => ?_, fun p r u hL => ?_, fun r u hL => ?_, ?_, fun r => ?_, fun r => ?_,
    fun r => ?_, ?_, fun pk => ?_, fun rest hne => ?_⟩
  · rw [f _ rfl]; exact h.root
  · rw [f _ rfl]; exact h.ver
  · rw [f _ rfl]; exact h.uid
  · exact h.links.congr (f _ rfl) Iff.rfl
  · exact (h.ldir r).congr (f _ rfl) Iff.rfl
  · rw [f _ rfl]; exact h.link_some p r u hL
  · rw [f _ rfl]; exact h.link_none r u hL
  · exact h.schemas.congr (f _ rfl) Iff.rfl
  · exact (h.sdir r).congr (f _ rfl) Iff.rfl
  · exact (h.json r).congr (f _ rfl) Iff.rfl
  · exact (h.compat r).congr (f _ rfl) Iff.rfl
  · exact h.packages.congr (f _ rfl) Iff.rfl
  · exact (h.pkg pk).congr (f _ rfl) Iff.rfl
  · rw [f _ rfl] at hne; exact h.shape rest hne

theorem isInternal_append (a b : Path) : isInternal (a ++ b) = (isInternal a || isInternal b) := by
  simp [isInternal, List.any_append]

theorem isInternal_head_ne_toc {q : Path} (h : isInternal q = false) : q.head? ≠ some .toc := by
  cases q with
  | nil => simp
  | cons k q =>
    simp only [isInternal, List.any_cons, Bool.or_eq_false_iff] at h
    simp only [List.head?_cons, ne_eq, Option.some.injEq]
    rintro rfl
    simp [Key.internal] at h

theorem objPath_head {base : Path} {m : String} {k : List Key} (h : isInternal base = false) :
    (base ++ .metaDir m :: k).head? ≠ some .toc := by
  cases base with
  | nil => simp
  | cons x base =>
    have := isInternal_head_ne_toc h
    simpa using this

theorem ObjAt.head {t : Tree} {p : Path} {r : SRef} {u : Nat} (h : ObjAt t p r u) : p.head? ≠ some .toc := by
  obtain ⟨base, m, hb, rfl, -⟩ := h
  exact objPath_head hb

theorem ObjAt.congr {t t' : Tree} (hf : ∀ q, q.head? ≠ some .toc → get? t' q = get? t q)
    (p : Path) (r : SRef) (u : Nat) : ObjAt t' p r u ↔ ObjAt t p r u := by
  constructor
  · rintro ⟨base, m, hb, rfl, hg⟩
    exact ⟨base, m, hb, rfl, by rw [← hf _ (objPath_head hb)]; exact hg⟩
  · rintro ⟨base, m, hb, rfl, hg⟩
    exact ⟨base, m, hb, rfl, by rw [hf _ (objPath_head hb)]; exact hg⟩

/-- the step function of the fold in `MetadorMeta.__init__` -/
def loadStep (base : Path) (acc : List (String × Stored)) (kn : Key × Node) : List (String × Stored) :=
  match kn.1 with
  | .obj r u => alSet acc r.name ⟨u, r, base ++ [.obj r u]⟩
  | _ => acc

theorem openHandle_eq (s : St) (node : Path) (isDs : Bool) :
    openHandle s node isDs =
      ⟨metaBase node isDs, (children s.raw (metaBase node isDs)).foldl (loadStep (metaBase node isDs)) []⟩ := rfl

/-- distinct object names in a listing -/
def NamesDistinct (l : List (Key × Node)) : Prop :=
  l.Pairwise fun a b => ∀ r u r' u', a.1 = .obj r u → b.1 = .obj r' u' → r.name ≠ r'.name

theorem loadStep_fold_get (base : Path) :
    ∀ (l : List (Key × Node)) (acc : List (String × Stored)) (name : String) (st : Stored),
      NamesDistinct l →
      (alGet (l.foldl (loadStep base) acc) name = some st ↔
        ((∃ r u n, (Key.obj r u, n) ∈ l ∧ r.name = name ∧ st = ⟨u, r, base ++ [.obj r u]⟩) ∨
         (alGet acc name = some st ∧ ∀ r u n, (Key.obj r u, n) ∈ l → r.name ≠ name)))
  | [], acc, name, st, _ => by simp
  | (k, n) :: l, acc, name, st, hd => by
    have hd' : NamesDistinct l := (List.pairwise_cons.mp hd).2
    have hhead := (List.pairwise_cons.mp hd).1
    rw [List.foldl_cons, loadStep_fold_get base l _ name st hd']
    cases k with
    | obj r u =>
      simp only [loadStep, alGet_alSet]
      by_cases hn : name = r.name
      · subst hn
        simp only [if_true, Option.some.injEq]
        constructor
        · rintro (⟨r', u', n', hm, hnm, rfl⟩ | ⟨rfl, hno⟩)
          · exact Or.inl ⟨r', u', n', List.mem_cons_of_mem _ hm, hnm, rfl⟩
          · exact Or.inl ⟨r, u, n, by simp, rfl, rfl⟩
        · rintro (⟨r', u', n', hm, hnm, rfl⟩ | ⟨-, hno⟩)
          · rcases List.mem_cons.mp hm with h | h
            · cases h
              refine Or.inr ⟨rfl, fun r'' u'' n'' hm'' => ?_⟩
              exact fun h => hhead _ hm'' r u r'' u'' rfl rfl h.symm
            · exact Or.inl ⟨r', u', n', h, hnm, rfl⟩
          · exact absurd rfl (hno r u n (by simp))
      · simp only [hn, if_false]
        constructor
        · rintro (⟨r', u', n', hm, hnm, rfl⟩ | ⟨hacc, hno⟩)
          · exact Or.inl ⟨r', u', n', List.mem_cons_of_mem _ hm, hnm, rfl⟩
          · refine Or.inr ⟨hacc, fun r' u' n' hm => ?_⟩
            rcases List.mem_cons.mp hm with h | h
            · cases h; exact fun h => hn h.symm
            · exact hno r' u' n' h
        · rintro (⟨r', u', n', hm, hnm, rfl⟩ | ⟨hacc, hno⟩)
          · rcases List.mem_cons.mp hm with h | h
            · cases h; exact absurd hnm.symm hn
            · exact Or.inl ⟨r', u', n', h, hnm, rfl⟩
          · exact Or.inr ⟨hacc, fun r' u' n' hm => hno r' u' n' (List.mem_cons_of_mem _ hm)⟩
    | _ =>
      simp only [loadStep]
      constructor
      · rintro (⟨r', u', n', hm, hnm, rfl⟩ | ⟨hacc, hno⟩)
        · exact Or.inl ⟨r', u', n', List.mem_cons_of_mem _ hm, hnm, rfl⟩
        · refine Or.inr ⟨hacc, fun r' u' n' hm => ?_⟩
          rcases List.mem_cons.mp hm with h | h
          · cases h
          · exact hno r' u' n' h
      · rintro (⟨r', u', n', hm, hnm, rfl⟩ | ⟨hacc, hno⟩)
        · rcases List.mem_cons.mp hm with h | h
          · cases h
          · exact Or.inl ⟨r', u', n', h, hnm, rfl⟩
        · exact Or.inr ⟨hacc, fun r' u' n' hm => hno r' u' n' (List.mem_cons_of_mem _ hm)⟩

theorem children_nodup {t : Tree} (hk : KeysOK t) (p : Path) : (children t p).Nodup := by
  have htn : t.Nodup := List.Nodup.of_map _ hk.nodup
  unfold children
  refine List.Nodup.filterMap ?_ htn
  rintro ⟨q, n⟩ ⟨q', n'⟩ ⟨k, m⟩ h1 h2
  simp only [Option.mem_def] at h1 h2
  have aux : ∀ (q : Path) (n : Node), (match q.getLast? with
      | some k => if (q.length = p.length + 1 && under p q) = true then some (k, n) else none
      | none => none) = some (k, m) → q = p ++ [k] ∧ n = m := by
    intro q n h
    cases hl : q.getLast? with
    | none => simp [hl] at h
    | some k' =>
      simp only [hl] at h
      split_ifs at h with hc
      cases h
      simp only [Bool.and_eq_true, decide_eq_true_eq, under_iff] at hc
      obtain ⟨q0, rfl⟩ := getLast?_eq_some_iff'.mp hl
      obtain ⟨hlen, b, hb⟩ := hc
      have h1 : q0.length = p.length := by simpa using hlen
      exact ⟨by rw [(List.append_inj hb h1.symm).1], rfl⟩
  obtain ⟨rfl, rfl⟩ := aux q n h1
  obtain ⟨rfl, rfl⟩ := aux q' n' h2
  rfl

/-- a `node.meta` handle agrees with the raw tree -/
structure HOK (s : St) (h : Handle) : Prop where
  base : ∃ b m, isInternal b = false ∧ h.baseDir = b ++ [.metaDir m] ∧ get? s.raw b = some .grp ∧
    (m = "" ∨ ∃ v, get? s.raw (b ++ [.user m]) = some (.ds v))
  objs : ∀ name st, alGet h.objs name = some st ↔
    ∃ r u, r.name = name ∧ st = ⟨u, r, h.baseDir ++ [.obj r u]⟩ ∧ get? s.raw (h.baseDir ++ [.obj r u]) ≠ none
  nodup : (alKeys h.objs).Nodup

theorem loadStep_fold_nodup (base : Path) : ∀ (l : List (Key × Node)) (acc : List (String × Stored)),
    (alKeys acc).Nodup → (alKeys (l.foldl (loadStep base) acc)).Nodup
  | [], acc, h => h
  | (k, n) :: l, acc, h => by
    rw [List.foldl_cons]
    apply loadStep_fold_nodup base l
    cases k <;> simp only [loadStep] <;> first | exact h | exact alKeys_alSet_nodup h _ _

theorem loadObjs_spec {e : Env} {s : St} (hi : Inv e s) (b : Path) (m : String) (hb : isInternal b = false)
    (name : String) (st : Stored) :
    alGet ((children s.raw (b ++ [.metaDir m])).foldl (loadStep (b ++ [.metaDir m])) []) name = some st ↔
      ∃ r u, r.name = name ∧ st = ⟨u, r, (b ++ [.metaDir m]) ++ [.obj r u]⟩ ∧
        get? s.raw ((b ++ [.metaDir m]) ++ [.obj r u]) ≠ none := by
  have hnd : NamesDistinct (children s.raw (b ++ [.metaDir m])) := by
    refine List.Nodup.pairwise_of_forall_ne (children_nodup hi.keys _) ?_
    rintro ⟨k, n⟩ h1 ⟨k', n'⟩ h2 hne r u r' u' hk hk' hname
    simp only at hk hk'
    subst hk; subst hk'
    have g1 := (mem_children hi.keys).mp h1
    have g2 := (mem_children hi.keys).mp h2
    obtain ⟨rfl, rfl⟩ := hi.mok.onename b m r u r' u' hb
      (by simpa using (by rw [g1]; simp : get? s.raw (b ++ [Key.metaDir m] ++ [Key.obj r u]) ≠ none))
      (by simpa using (by rw [g2]; simp : get? s.raw (b ++ [Key.metaDir m] ++ [Key.obj r' u']) ≠ none)) hname
    rw [g1] at g2
    cases g2
    exact hne rfl
  rw [loadStep_fold_get _ _ _ _ _ hnd]
  simp only [alGet_nil]
  constructor
  · rintro (⟨r, u, n, hm, hn, rfl⟩ | ⟨h, -⟩)
    · refine ⟨r, u, hn, rfl, ?_⟩
      rw [(mem_children hi.keys).mp hm]; simp
    · cases h
  · rintro ⟨r, u, hn, rfl, hg⟩
    cases hx : get? s.raw (b ++ [Key.metaDir m] ++ [Key.obj r u]) with
    | none => exact absurd hx hg
    | some n => exact Or.inl ⟨r, u, n, (mem_children hi.keys).mpr hx, hn, rfl⟩

theorem metaBase_grp (p : Path) : metaBase p false = p ++ [.metaDir ""] := rfl

theorem metaBase_ds (b : Path) (m : String) : metaBase (b ++ [.user m]) true = b ++ [.metaDir m] := by
  simp [metaBase]

/-- user paths end in a user name -/
theorem user_path_snoc {q : Path} (hq : q ≠ []) (hi : isInternal q = false) :
    ∃ b m, q = b ++ [.user m] ∧ isInternal b = false := by
  obtain ⟨b, k, rfl⟩ : ∃ b k, q = b ++ [k] := ⟨q.dropLast, q.getLast hq, (List.dropLast_append_getLast hq).symm⟩
  rw [isInternal_append] at hi
  simp only [Bool.or_eq_false_iff] at hi
  cases k with
  | user m => exact ⟨b, m, rfl, hi.1⟩
  | _ => simp [isInternal, Key.internal] at hi

theorem nodeKind_some {s : St} {p : Path} {k : Bool} (h : nodeKind s p = some k) :
    (k = false ∧ get? s.raw p = some .grp) ∨ (k = true ∧ ∃ v, get? s.raw p = some (.ds v)) := by
  unfold nodeKind at h
  cases hg : get? s.raw p with
  | none => simp [hg] at h
  | some n =>
    cases n with
    | grp => simp [hg] at h; exact Or.inl ⟨h, rfl⟩
    | ds v => simp [hg] at h; exact Or.inr ⟨h, v, rfl⟩

/-- a freshly created handle of an existing user node agrees with the tree -/
theorem openHandle_HOK {e : Env} {s : St} (hi : Inv e s) {p : Path} {k : Bool}
    (hp : isInternal p = false) (hk : nodeKind s p = some k) : HOK s (openHandle s p k) := by
  rcases nodeKind_some hk with ⟨rfl, hg⟩ | ⟨rfl, v, hg⟩
  · rw [openHandle_eq, metaBase_grp]
    exact ⟨⟨p, "", hp, rfl, hg, Or.inl rfl⟩, fun name st => loadObjs_spec hi p "" hp name st,
      loadStep_fold_nodup _ _ _ (by simp [alKeys])⟩
  · have hp0 : p ≠ [] := by rintro rfl; simp at hg
    obtain ⟨b, m, rfl, hb⟩ := user_path_snoc hp0 hp
    rw [openHandle_eq, metaBase_ds]
    have hbg : get? s.raw b = some .grp := hi.pclosed b (.user m) (by rw [hg]; simp)
    exact ⟨⟨b, m, hb, rfl, hbg, Or.inr ⟨v, hg⟩⟩, fun name st => loadObjs_spec hi b m hb name st,
      loadStep_fold_nodup _ _ _ (by simp [alKeys])⟩

/-- all prefixes of an existing path are groups -/
theorem prefix_grp {t : Tree} (hc : PClosed t) : ∀ (b : Path) (a : Path), get? t (a ++ b) ≠ none → b ≠ [] →
    get? t a = some .grp := by
  intro b
  induction b using List.reverseRecOn with
  | nil => intro a _ h; exact absurd rfl h
  | append_singleton b k ih =>
    intro a hg _
    have h1 : get? t (a ++ b) = some .grp := hc (a ++ b) k (by simpa [List.append_assoc] using hg)
    by_cases hb : b = []
    · subst hb; simpa using h1
    · exact ih a (by rw [h1]; simp) hb

theorem prefix_grp' {t : Tree} (hc : PClosed t) {q p : Path} (h : q <+: p) (hne : q ≠ p)
    (hp : get? t p ≠ none) : get? t q = some .grp := by
  obtain ⟨b, rfl⟩ := h
  exact prefix_grp hc b q hp (by rintro rfl; simp at hne)

/-- a metadata directory is a group -/
theorem metaDir_is_grp {e : Env} {s : St} (hm : MetaOK e s) {b : Path} {m : String} (hb : isInternal b = false)
    {n : Node} (h : get? s.raw (b ++ [.metaDir m]) = some n) : n = .grp := by
  have := hm.ushape _ n (by simp) (objPath_head hb) h
  generalize hq : b ++ [Key.metaDir m] = q at this
  cases this with
  | user q n hi _ =>
    rw [← hq, isInternal_append] at hi
    simp [isInternal, Key.internal] at hi
  | metaDir => rfl
  | obj base m' r u tok =>
    have := congrArg List.getLast? hq
    simp at this

/-- lookups after a metadata object was written below the directory `b ++ [metaDir m]` -/
theorem storeObj_get {e : Env} {s : St} (hi : Inv e s) {b : Path} {m : String} (hb : isInternal b = false)
    (hbg : get? s.raw b = some .grp) {ref : SRef} {u : Nat} {tok : String} {t1 : Tree}
    (h1 : rawCreate s.raw (b ++ [.metaDir m, .obj ref u]) (.ds (.data tok)) = .ok t1) :
    ∀ q, q ≠ [] → get? t1 q =
      if q = b ++ [.metaDir m, .obj ref u] then some (.ds (.data tok))
      else if q = b ++ [.metaDir m] then some .grp else get? s.raw q := by
  intro q hq
  rw [rawCreate_get? h1 q hq]
  by_cases hq1 : q = b ++ [.metaDir m, .obj ref u]
  · simp [hq1]
  · simp only [hq1, if_false]
    by_cases hq2 : q = b ++ [.metaDir m]
    · subst hq2
      simp only [if_true]
      cases hg : get? s.raw (b ++ [Key.metaDir m]) with
      | some n => rw [metaDir_is_grp hi.mok hb hg]
      | none =>
        have : isMid [] (b ++ [Key.metaDir m, Key.obj ref u]) (b ++ [Key.metaDir m]) = true :=
          isMid_nil_iff.mpr ⟨by simp, ⟨[Key.obj ref u], by simp⟩, by
            intro h
            have := congrArg List.length h
            simp at this⟩
        simp [this]
    · simp only [hq2, if_false]
      cases hg : get? s.raw q with
      | some n => rfl
      | none =>
        have : isMid [] (b ++ [Key.metaDir m, Key.obj ref u]) q = false := by
          cases hm : isMid [] (b ++ [Key.metaDir m, Key.obj ref u]) q
          · rfl
          · exfalso
            obtain ⟨-, ⟨c, hc⟩, hne⟩ := isMid_nil_iff.mp hm
            -- `q` is a prefix of `b` or the directory itself
            have : q <+: b ++ [Key.metaDir m] := by
              have h2 : q ++ c = (b ++ [Key.metaDir m]) ++ [Key.obj ref u] := by simpa using hc
              cases c using List.reverseRecOn with
              | nil => simp at h2; exact absurd h2 hne
              | append_singleton c k _ =>
                rw [← List.append_assoc] at h2
                exact ⟨c, (List.append_inj' h2 rfl).1⟩
            obtain ⟨c', hc'⟩ := this
            cases c' using List.reverseRecOn with
            | nil => simp at hc'; exact hq2 hc'
            | append_singleton c' k _ =>
              rw [← List.append_assoc] at hc'
              have hqb : q ++ c' = b := (List.append_inj' hc' rfl).1
              have : get? s.raw q = some .grp := by
                by_cases hc0 : c' = []
                · subst hc0; simp at hqb; rw [hqb]; exact hbg
                · exact prefix_grp hi.pclosed c' q (by rw [hqb, hbg]; simp) hc0
              rw [hg] at this; cases this
        simp [this]

theorem snoc2_inj {a b : Path} {k1 k2 l1 l2 : Key} (h : a ++ [k1, k2] = b ++ [l1, l2]) :
    a = b ∧ k1 = l1 ∧ k2 = l2 := by
  have h' : (a ++ [k1]) ++ [k2] = (b ++ [l1]) ++ [l2] := by simpa using h
  obtain ⟨h1, h2⟩ := List.append_inj' h' rfl
  obtain ⟨h3, h4⟩ := List.append_inj' h1 rfl
  simp at h2 h4
  exact ⟨h3, h4, h2⟩

theorem snoc_ne_snoc2 {a b : Path} {k l1 : Key} {m : String} (h : a ++ [Key.metaDir m] = b ++ [l1, k]) :
    ∃ m', k = Key.metaDir m' := by
  have h' : a ++ [Key.metaDir m] = (b ++ [l1]) ++ [k] := by simpa using h
  have := (List.append_inj' h' rfl).2
  simp at this
  exact ⟨m, this.symm⟩

theorem setRaw_run (e : Env) (h : Handle) (ref : SRef) (tok : String) (s : St) (t1 : Tree) (s2 : St)
    (h1 : rawCreate s.raw (h.baseDir ++ [.obj ref s.next]) (.ds (.data tok)) = .ok t1)
    (h2 : linkRegister e ref s.next (h.baseDir ++ [.obj ref s.next]) ⟨t1, s.c, s.next + 1⟩ = (.ok (), s2)) :
    h.setRaw e ref tok s =
      (.ok { h with objs := alSet h.objs ref.name ⟨s.next, ref, h.baseDir ++ [.obj ref s.next]⟩ }, s2) := by
  simp [Handle.setRaw, freshUuid, bind, M.bind, run_liftRaw, h1, h2]

/-- `_set_raw(schema_ref, obj)` on a handle that agrees with the tree -/
theorem setRaw_spec {e : Env} (he : WFEnv e) {s : St} (hi : Inv e s) {h : Handle} (hh : HOK s h)
    {ref : SRef} {i : SInfo} (hinfo : e.info ref = some i) (tok : String)
    (hfree : alGet h.objs ref.name = none) (u : Nat) (hu : u = s.next) :
    ∃ s' h', h.setRaw e ref tok s = (.ok h', s') ∧ Inv e s' ∧ HOK s' h' ∧ h'.baseDir = h.baseDir ∧
      get? s'.raw (h.baseDir ++ [.obj ref u]) = some (.ds (.data tok)) ∧
      (∀ q, q.head? ≠ some .toc → q ≠ h.baseDir → q ≠ h.baseDir ++ [.obj ref u] →
        get? s'.raw q = get? s.raw q) := by
  obtain ⟨⟨b, m, hb, hbase, hbg, hhost⟩, hobjs, hknd⟩ := hh
  have hobjP : h.baseDir ++ [.obj ref u] = b ++ [.metaDir m, .obj ref u] := by rw [hbase]; simp
  -- the object path is free (its uuid is new)
  have hfresh : ¬ ∃ p r, ObjAt s.raw p r u := by
    rintro ⟨p, r, ho⟩; exact absurd (hi.mok.bound p r u ho) (by simp [hu])
  have hfreeP : get? s.raw (b ++ [.metaDir m, .obj ref u]) = none := by
    by_contra hc
    exact hfresh ⟨_, ref, b, m, hb, rfl, hc⟩
  obtain ⟨t1, h1⟩ := rawCreate_ok (t := s.raw) (p := b ++ [.metaDir m, .obj ref u]) (n := .ds (.data tok))
    (by simp) hfreeP (by
      intro q v hm
      obtain ⟨hq0, ⟨c, hc⟩, hne⟩ := isMid_nil_iff.mp hm
      have hpre : q <+: b ++ [Key.metaDir m] := by
        have h2 : q ++ c = (b ++ [Key.metaDir m]) ++ [Key.obj ref u] := by simpa using hc
        cases c using List.reverseRecOn with
        | nil => simp at h2; exact absurd h2 hne
        | append_singleton c k _ =>
          rw [← List.append_assoc] at h2
          exact ⟨c, (List.append_inj' h2 rfl).1⟩
      obtain ⟨c', hc'⟩ := hpre
      cases c' using List.reverseRecOn with
      | nil =>
        simp at hc'; subst hc'
        intro hg; cases metaDir_is_grp hi.mok hb hg
      | append_singleton c' k _ =>
        rw [← List.append_assoc] at hc'
        have hqb : q ++ c' = b := (List.append_inj' hc' rfl).1
        have : get? s.raw q = some .grp := by
          by_cases hc0 : c' = []
          · subst hc0; simp at hqb; rw [hqb]; exact hbg
          · exact prefix_grp hi.pclosed c' q (by rw [hqb, hbg]; simp) hc0
        rw [this]; exact fun h => by cases h)
  have g1 := storeObj_get hi hb hbg h1
  have hhead : (b ++ [Key.metaDir m, Key.obj ref u]).head? ≠ some .toc := objPath_head hb
  have f1 : ∀ q, q.head? = some .toc → get? t1 q = get? s.raw q :=
    fun q hq => rawCreate_frame h1 q (by rw [hq]; exact fun h => hhead h.symm)
  set s1 : St := ⟨t1, s.c, s.next + 1⟩ with hs1
  -- attached objects after the write
  have hobj1 : ∀ p r u', ObjAt t1 p r u' ↔ (ObjAt s.raw p r u' ∨ (p = b ++ [.metaDir m, .obj ref u] ∧ r = ref ∧ u' = u)) := by
    intro p r u'
    constructor
    · rintro ⟨base, m', hb', rfl, hg⟩
      rw [g1 _ (by simp)] at hg
      split_ifs at hg with hq1 hq2
      · obtain ⟨-, -, hk⟩ := snoc2_inj hq1
        simp at hk
        exact Or.inr ⟨hq1, hk.1, hk.2⟩
      · obtain ⟨m'', hk⟩ := snoc_ne_snoc2 hq2.symm
        simp at hk
      · exact Or.inl ⟨base, m', hb', rfl, hg⟩
    · rintro (⟨base, m', hb', rfl, hg⟩ | ⟨rfl, rfl, rfl⟩)
      · refine ⟨base, m', hb', rfl, ?_⟩
        rw [g1 _ (by simp)]
        split_ifs <;> simp_all
      · exact ⟨b, m, hb, rfl, by rw [g1 _ (by simp)]; simp⟩
  -- the TOC part: untouched so far, then `register`
  have htoc1 : TocRaw e (ObjAt s.raw) (UsedIn s.raw) t1 := hi.toc.frame f1
  obtain ⟨s2, hrun2, htoc2, hsc2, hlc2, step2⟩ :=
    linkRegister_spec he (s := s1) (p0 := b ++ [.metaDir m, .obj ref u]) hinfo htoc1 hi.scache hi.lcache hfresh
  have f2 : ∀ q, q.head? ≠ some .toc → get? s2.raw q = get? t1 q := step2.frame
  have hobj2 : ∀ p r u', ObjAt s2.raw p r u' ↔ (ObjAt s.raw p r u' ∨ (p = b ++ [.metaDir m, .obj ref u] ∧ r = ref ∧ u' = u)) :=
    fun p r u' => (ObjAt.congr f2 p r u').trans (hobj1 p r u')
  have hused2 : ∀ r, UsedIn s2.raw r ↔ (UsedIn s.raw r ∨ r = ref) := by
    intro r
    constructor
    · rintro ⟨p, u', ho⟩
      rcases (hobj2 p r u').mp ho with h | ⟨-, rfl, -⟩
      · exact Or.inl ⟨p, u', h⟩
      · exact Or.inr rfl
    · rintro (⟨p, u', ho⟩ | rfl)
      · exact ⟨p, u', (hobj2 p r u').mpr (Or.inl ho)⟩
      · exact ⟨_, u, (hobj2 _ _ _).mpr (Or.inr ⟨rfl, rfl, rfl⟩)⟩
  -- non-TOC lookups in the final state
  have g2 : ∀ q, q ≠ [] → q.head? ≠ some .toc → get? s2.raw q =
      if q = b ++ [.metaDir m, .obj ref u] then some (.ds (.data tok))
      else if q = b ++ [.metaDir m] then some .grp else get? s.raw q :=
    fun q hq hqt => (f2 q hqt).trans (g1 q hq)
  have hnext2 : s2.next = s.next + 1 := step2.next
  let h' : Handle := { h with objs := alSet h.objs ref.name ⟨u, ref, h.baseDir ++ [.obj ref u]⟩ }
  refine ⟨s2, h', ?_, ?_, ?_, rfl, ?_, ?_⟩
  · -- the run
    subst hu
    exact setRaw_run e h ref tok s t1 s2 (by rw [hobjP]; exact h1) (by rw [hobjP]; exact hrun2)
  · -- the invariant
    refine ⟨step2.keys (rawCreate_keys h1 hi.keys), step2.pclosed (rawCreate_pclosed h1 hi.pclosed), ?_,
      htoc2.congr (fun p r u' => hobj2 p r u') hused2, hsc2.congr hused2, ?_⟩
    · constructor
      · intro q n hq hqt hg
        rw [g2 q hq hqt] at hg
        split_ifs at hg with hq1 hq2
        · cases hg; rw [hq1]; exact .obj b m ref u tok hb
        · cases hg; rw [hq2]; exact .metaDir b m hb
        · exact hi.mok.ushape q n hq hqt hg
      · intro base m' hb' hg
        rw [g2 _ (by simp) (objPath_head hb')] at hg
        have hne1 : base ++ [Key.metaDir m'] ≠ b ++ [.metaDir m, .obj ref u] := by
          intro h
          have := congrArg List.getLast? h
          simp at this
        rw [if_neg hne1] at hg
        by_cases hq2 : base ++ [Key.metaDir m'] = b ++ [.metaDir m]
        · obtain ⟨rfl, hk⟩ := List.append_inj' hq2 rfl
          simp at hk; subst hk
          refine ⟨?_, ref, u, ?_⟩
          · rcases hhost with h | ⟨v, hv⟩
            · exact Or.inl h
            · refine Or.inr ⟨v, ?_⟩
              rw [g2 _ (by simp) (by
                have := isInternal_head_ne_toc (q := base ++ [Key.user m']) (by
                  have := hi.mok.ushape _ _ (by simp) (by
                    cases base with
                    | nil => simp
                    | cons x base => simpa using isInternal_head_ne_toc hb) hv
                  generalize hq : base ++ [Key.user m'] = q at this
                  cases this with
                  | user q n hi' _ => exact hi'
                  | obj b' m'' r' u' tok' _ => have := congrArg List.getLast? hq; simp at this)
                exact this)]
              have e1 : base ++ [Key.user m'] ≠ base ++ [.metaDir m', .obj ref u] := by
                intro h; have := congrArg List.length h; simp at this
              have e2 : base ++ [Key.user m'] ≠ base ++ [.metaDir m'] := by
                intro h; have := (List.append_inj' h rfl).2; simp at this
              rw [if_neg e1, if_neg e2]; exact hv
          · rw [g2 _ (by simp) (objPath_head hb)]; simp
        · rw [if_neg hq2] at hg
          obtain ⟨hh1, r, u', hh2⟩ := hi.mok.host base m' hb' hg
          refine ⟨?_, r, u', ?_⟩
          · rcases hh1 with h | ⟨v, hv⟩
            · exact Or.inl h
            · refine Or.inr ⟨v, ?_⟩
              have hint : isInternal (base ++ [Key.user m']) = false := by
                have := hi.mok.ushape _ _ (by simp) (by
                  cases base with
                  | nil => simp
                  | cons x base => simpa using isInternal_head_ne_toc hb') hv
                generalize hq : base ++ [Key.user m'] = q at this
                cases this with
                | user q n hi' _ => exact hi'
                | obj b' m'' r' u' tok' _ => have := congrArg List.getLast? hq; simp at this
              rw [g2 _ (by simp) (isInternal_head_ne_toc hint)]
              have e1 : base ++ [Key.user m'] ≠ b ++ [.metaDir m, .obj ref u] := by
                intro h; have := congrArg List.getLast? h; simp at this
              have e2 : base ++ [Key.user m'] ≠ b ++ [.metaDir m] := by
                intro h; have := congrArg List.getLast? h; simp at this
              rw [if_neg e1, if_neg e2]; exact hv
          · rw [g2 _ (by simp) (objPath_head hb')]
            split_ifs <;> simp_all
      · intro p r u' ho
        rcases (hobj2 p r u').mp ho with h | ⟨-, rfl, -⟩
        · exact hi.mok.objenv p r u' h
        · exact ⟨i, hinfo⟩
      · intro base m' r1 u1 r2 u2 hb' hg1 hg2 hname
        have o1 : ObjAt s2.raw (base ++ [.metaDir m', .obj r1 u1]) r1 u1 := ⟨base, m', hb', rfl, hg1⟩
        have o2 : ObjAt s2.raw (base ++ [.metaDir m', .obj r2 u2]) r2 u2 := ⟨base, m', hb', rfl, hg2⟩
        -- an old object of that name in the directory of the handle contradicts `hfree`
        have old_contra : ∀ r' u'', r'.name = ref.name → ObjAt s.raw (b ++ [.metaDir m, .obj r' u'']) r' u'' → False := by
          intro r' u'' hn ⟨base', m'', hb'', hp, hg⟩
          have : alGet h.objs ref.name = some ⟨u'', r', h.baseDir ++ [.obj r' u'']⟩ :=
            (hobjs _ _).mpr ⟨r', u'', hn, rfl, by rw [hbase]; simpa using hg⟩
          rw [hfree] at this; cases this
        rcases (hobj2 _ _ _).mp o1 with h1' | ⟨hp1, rfl, rfl⟩ <;> rcases (hobj2 _ _ _).mp o2 with h2' | ⟨hp2, rfl, rfl⟩
        · obtain ⟨_, _, _, _, hg1'⟩ := h1'
          obtain ⟨_, _, _, _, hg2'⟩ := h2'
          exact hi.mok.onename base m' r1 u1 r2 u2 hb' hg1' hg2' hname
        · obtain ⟨rfl, hk, -⟩ := snoc2_inj hp2
          simp at hk; subst hk
          exact (old_contra r1 u1 hname h1').elim
        · obtain ⟨rfl, hk, -⟩ := snoc2_inj hp1
          simp at hk; subst hk
          exact (old_contra r2 u2 hname.symm h2').elim
        · exact ⟨rfl, rfl⟩
      · intro p p' r r' u' ho ho'
        rcases (hobj2 _ _ _).mp ho with h1' | ⟨rfl, rfl, hu1⟩ <;> rcases (hobj2 _ _ _).mp ho' with h2' | ⟨rfl, rfl, hu2⟩
        · exact hi.mok.uniq p p' r r' u' h1' h2'
        · exact absurd ⟨p, r, hu2 ▸ h1'⟩ hfresh
        · exact absurd ⟨p', r', hu1 ▸ h2'⟩ hfresh
        · exact ⟨rfl, rfl⟩
      · intro p r u' ho
        rw [hnext2]
        rcases (hobj2 _ _ _).mp ho with h1' | ⟨-, -, hu'⟩
        · exact Nat.lt_succ_of_lt (hi.mok.bound p r u' h1')
        · rw [hu', hu]; exact Nat.lt_succ_self _
    · intro u' tp
      rw [hlc2 u' tp]
      constructor
      · rintro ⟨p, r, hL | ⟨rfl, rfl, rfl⟩, rfl⟩
        · exact ⟨p, r, (hobj2 _ _ _).mpr (Or.inl hL), rfl⟩
        · exact ⟨_, _, (hobj2 _ _ _).mpr (Or.inr ⟨rfl, rfl, rfl⟩), rfl⟩
      · rintro ⟨p, r, ho, rfl⟩
        rcases (hobj2 _ _ _).mp ho with hL | ⟨rfl, rfl, rfl⟩
        · exact ⟨p, r, Or.inl hL, rfl⟩
        · exact ⟨_, _, Or.inr ⟨rfl, rfl, rfl⟩, rfl⟩
  · -- the handle
    refine ⟨⟨b, m, hb, hbase, ?_, ?_⟩, ?_, alKeys_alSet_nodup hknd _ _⟩
    · by_cases hb0 : b = []
      · subst hb0; simp
      · rw [g2 b hb0 (isInternal_head_ne_toc hb)]
        have e1 : b ≠ b ++ [.metaDir m, .obj ref u] := by
          intro h; have := congrArg List.length h; simp at this
        have e2 : b ≠ b ++ [.metaDir m] := by
          intro h; have := congrArg List.length h; simp at this
        rw [if_neg e1, if_neg e2]; exact hbg
    · rcases hhost with h | ⟨v, hv⟩
      · exact Or.inl h
      · refine Or.inr ⟨v, ?_⟩
        have hint : isInternal (b ++ [Key.user m]) = false := by
          have := hi.mok.ushape _ _ (by simp) (by
            cases b with
            | nil => simp
            | cons x b => simpa using isInternal_head_ne_toc hb) hv
          generalize hq : b ++ [Key.user m] = q at this
          cases this with
          | user q n hi' _ => exact hi'
          | obj b' m'' r' u' tok' _ => have := congrArg List.getLast? hq; simp at this
        rw [g2 _ (by simp) (isInternal_head_ne_toc hint)]
        have e1 : b ++ [Key.user m] ≠ b ++ [.metaDir m, .obj ref u] := by
          intro h; have := congrArg List.length h; simp at this
        have e2 : b ++ [Key.user m] ≠ b ++ [.metaDir m] := by
          intro h; have := (List.append_inj' h rfl).2; simp at this
        rw [if_neg e1, if_neg e2]; exact hv
    · intro name st
      show alGet (alSet h.objs ref.name _) name = some st ↔ _
      rw [alGet_alSet]
      by_cases hn : name = ref.name
      · subst hn
        simp only [if_true, Option.some.injEq]
        constructor
        · rintro rfl
          refine ⟨ref, u, rfl, rfl, ?_⟩
          rw [hobjP, g2 _ (by simp) (objPath_head hb)]; simp
        · rintro ⟨r, u', hn, rfl, hg⟩
          have ho : ObjAt s2.raw (b ++ [.metaDir m, .obj r u']) r u' :=
            ⟨b, m, hb, rfl, by rw [hbase] at hg; simpa using hg⟩
          rcases (hobj2 _ _ _).mp ho with ⟨_, _, _, _, hg'⟩ | ⟨hp, rfl, rfl⟩
          · have : alGet h.objs ref.name = some ⟨u', r, h.baseDir ++ [.obj r u']⟩ :=
              (hobjs _ _).mpr ⟨r, u', hn, rfl, by rw [hbase]; simpa using hg'⟩
            rw [hfree] at this; cases this
          · rfl
      · simp only [hn, if_false, hobjs name st]
        constructor
        · rintro ⟨r, u', hnm, rfl, hg⟩
          refine ⟨r, u', hnm, rfl, ?_⟩
          have hne : r ≠ ref := by rintro rfl; exact hn hnm.symm
          rw [hbase] at hg ⊢
          rw [show b ++ [Key.metaDir m] ++ [Key.obj r u'] = b ++ [Key.metaDir m, Key.obj r u'] by simp] at hg ⊢
          rw [g2 _ (by simp) (objPath_head hb)]
          have e1 : b ++ [Key.metaDir m, Key.obj r u'] ≠ b ++ [.metaDir m, .obj ref u] := by
            intro h; have := (snoc2_inj h).2.2; simp at this; exact hne this.1
          have e2 : b ++ [Key.metaDir m, Key.obj r u'] ≠ b ++ [.metaDir m] := by
            intro h; have := congrArg List.length h; simp at this
          rw [if_neg e1, if_neg e2]; exact hg
        · rintro ⟨r, u', hnm, rfl, hg⟩
          refine ⟨r, u', hnm, rfl, ?_⟩
          have hne : r ≠ ref := by rintro rfl; exact hn hnm.symm
          rw [hbase] at hg ⊢
          rw [show b ++ [Key.metaDir m] ++ [Key.obj r u'] = b ++ [Key.metaDir m, Key.obj r u'] by simp] at hg ⊢
          rw [g2 _ (by simp) (objPath_head hb)] at hg
          have e1 : b ++ [Key.metaDir m, Key.obj r u'] ≠ b ++ [.metaDir m, .obj ref u] := by
            intro h; have := (snoc2_inj h).2.2; simp at this; exact hne this.1
          have e2 : b ++ [Key.metaDir m, Key.obj r u'] ≠ b ++ [.metaDir m] := by
            intro h; have := congrArg List.length h; simp at this
          rw [if_neg e1, if_neg e2] at hg; exact hg
  · rw [hobjP, g2 _ (by simp) (objPath_head hb)]; simp
  · intro q hqt hq1 hq2
    by_cases hq0 : q = []
    · subst hq0; simp
    · rw [g2 q hq0 hqt]
      rw [hobjP] at hq2
      rw [hbase] at hq1
      rw [if_neg hq2, if_neg hq1]

/-- the first internal name of a path is where it is -/
theorem internal_split_unique : ∀ (a a' : Path) (k k' : Key) (r r' : Path),
    isInternal a = false → isInternal a' = false → k.internal = true → k'.internal = true →
    a ++ k :: r = a' ++ k' :: r' → a = a' ∧ k = k' ∧ r = r'
  | [], [], k, k', r, r', _, _, _, _, h => by simp at h; exact ⟨rfl, h.1, h.2⟩
  | [], x :: a', k, k', r, r', _, ha', hk, _, h => by
    simp at h
    simp only [isInternal, List.any_cons, Bool.or_eq_false_iff] at ha'
    rw [← h.1, hk] at ha'; simp at ha'
  | x :: a, [], k, k', r, r', ha, _, _, hk', h => by
    simp at h
    simp only [isInternal, List.any_cons, Bool.or_eq_false_iff] at ha
    rw [h.1, hk'] at ha; simp at ha
  | x :: a, y :: a', k, k', r, r', ha, ha', hk, hk', h => by
    simp only [List.cons_append, List.cons.injEq] at h
    simp only [isInternal, List.any_cons, Bool.or_eq_false_iff] at ha ha'
    obtain ⟨h1, h2, h3⟩ := internal_split_unique a a' k k' r r' ha.2 ha'.2 hk hk' h.2
    exact ⟨by rw [h.1, h1], h2, h3⟩

/-- whatever lives below a metadata directory is a metadata object directly in it -/
theorem below_metaDir {e : Env} {s : St} (hm : MetaOK e s) {b : Path} {m : String} (hb : isInternal b = false)
    {k : Key} {rest : Path} (h : get? s.raw (b ++ .metaDir m :: k :: rest) ≠ none) :
    rest = [] ∧ ∃ r u, k = .obj r u := by
  cases hg : get? s.raw (b ++ .metaDir m :: k :: rest) with
  | none => exact absurd hg h
  | some n =>
    have := hm.ushape _ n (by simp) (objPath_head hb) hg
    generalize hq : b ++ Key.metaDir m :: k :: rest = q at this
    cases this with
    | user q n hi _ =>
      rw [← hq, isInternal_append] at hi
      simp [isInternal, Key.internal] at hi
    | metaDir base m' hb' =>
      -- the directory name would be the second internal name
      have h1 : b ++ Key.metaDir m :: (k :: rest) = base ++ Key.metaDir m' :: [] := by simpa using hq
      have := (internal_split_unique b base _ _ _ _ hb hb' rfl rfl h1).2.2
      simp at this
    | obj base m' r u tok hb' =>
      have h1 : b ++ Key.metaDir m :: (k :: rest) = base ++ Key.metaDir m' :: [Key.obj r u] := by simpa using hq
      have := (internal_split_unique b base _ _ _ _ hb hb' rfl rfl h1).2.2
      simp at this
      exact ⟨this.2, r, u, this.1⟩

theorem ObjAt.inj {t : Tree} {b : Path} {m : String} {k : Key} {rest p : Path} {r : SRef} {u : Nat}
    (hb : isInternal b = false) (ho : ObjAt t p r u) (hp : p = b ++ .metaDir m :: k :: rest) :
    rest = [] ∧ k = .obj r u := by
  obtain ⟨base, m', hb', rfl, -⟩ := ho
  have h1 : base ++ Key.metaDir m' :: [Key.obj r u] = b ++ Key.metaDir m :: (k :: rest) := by simpa using hp
  have := (internal_split_unique base b _ _ _ _ hb' hb rfl rfl h1).2.2
  simp at this
  exact ⟨this.2, this.1.symm⟩

theorem alErase_eq_nil_iff {α β : Type} [DecidableEq α] (l : List (α × β)) (a : α) :
    alErase l a = [] ↔ ∀ x, (alGet l x).isSome → x = a := by
  simp only [alErase, List.filter_eq_nil_iff, alGet_isSome_iff, alKeys, List.mem_map]
  constructor
  · rintro h x ⟨⟨k, v⟩, hm, rfl⟩
    have := h (k, v) hm
    simpa using this
  · rintro h ⟨k, v⟩ hm
    have := h k ⟨(k, v), hm, rfl⟩
    simpa using this

theorem delRaw_run_keep (h : Handle) (name : String) (s : St) (st : Stored) (s1 : St) (t2 : Tree)
    (hst : alGet h.objs name = some st)
    (h1 : linkUnregister st.uuid s = (.ok (), s1))
    (h2 : rawDel s1.raw st.path = .ok t2)
    (hne : alErase h.objs st.schema.name ≠ []) :
    h.delRaw name true s = (.ok { h with objs := alErase h.objs st.schema.name }, ⟨t2, s1.c, s1.next⟩) := by
  simp [Handle.delRaw, hst, h1, run_liftRaw, h2, hne]

theorem delRaw_run_drop (h : Handle) (name : String) (s : St) (st : Stored) (s1 : St) (t2 t3 : Tree)
    (hst : alGet h.objs name = some st)
    (h1 : linkUnregister st.uuid s = (.ok (), s1))
    (h2 : rawDel s1.raw st.path = .ok t2)
    (he : alErase h.objs st.schema.name = [])
    (h3 : rawDel t2 h.baseDir = .ok t3) :
    h.delRaw name true s = (.ok { h with objs := alErase h.objs st.schema.name }, ⟨t3, s1.c, s1.next⟩) := by
  simp [Handle.delRaw, hst, h1, run_liftRaw, h2, he, h3]

theorem user_internal_false {e : Env} {s : St} (hm : MetaOK e s) {b : Path} {m : String} {n : Node}
    (hb : isInternal b = false) (hv : get? s.raw (b ++ [.user m]) = some n) :
    isInternal (b ++ [Key.user m]) = false := by
  have := hm.ushape _ _ (by simp) (by
    cases b with
    | nil => simp
    | cons x b => simpa using isInternal_head_ne_toc hb) hv
  generalize hq : b ++ [Key.user m] = q at this
  cases this with
  | user q n hi' _ => exact hi'
  | metaDir b' m'' _ => have := congrArg List.getLast? hq; simp at this
  | obj b' m'' r' u' tok' _ => have := congrArg List.getLast? hq; simp at this

/-- `_del_raw(schema_name)` (with unlinking) on a handle that agrees with the tree -/
theorem delRaw_spec {e : Env} (he : WFEnv e) {s : St} (hi : Inv e s) {h : Handle} (hh : HOK s h)
    {name : String} {st : Stored} (hst : alGet h.objs name = some st) :
    ∃ s' h', h.delRaw name true s = (.ok h', s') ∧ Inv e s' ∧ HOK s' h' ∧ h'.baseDir = h.baseDir ∧
      s'.next = s.next ∧ (∀ q, isInternal q = false → get? s'.raw q = get? s.raw q) ∧
      (∀ p r u, ObjAt s'.raw p r u ↔ (ObjAt s.raw p r u ∧ p ≠ st.path)) ∧
      (∀ q, q.head? ≠ some .toc → get? s'.raw q = none ∨ get? s'.raw q = get? s.raw q) := by
  obtain ⟨⟨b, m, hb, hbase, hbg, hhost⟩, hobjs, hknd⟩ := hh
  obtain ⟨r, u, hname, rfl, hex⟩ := (hobjs name st).mp hst
  simp only
  set objP := b ++ [.metaDir m, .obj r u] with hobjP
  have hobjP' : h.baseDir ++ [.obj r u] = objP := by rw [hbase, hobjP]; simp
  rw [hobjP'] at hex ⊢
  have ho : ObjAt s.raw objP r u := ⟨b, m, hb, rfl, hex⟩
  -- TOC part
  have huniq : LUniq (ObjAt s.raw) := fun p p' r r' u h1 h2 => hi.mok.uniq p p' r r' u h1 h2
  obtain ⟨s1, hrun1, htoc1, hsc1, hlc1, step1⟩ := linkUnregister_spec he hi.keys hi.toc hi.scache hi.lcache huniq ho
    (fun _ => Iff.rfl) (fun r' ⟨p, u', h⟩ => hi.mok.objenv p r' u' h)
  have hk1 : KeysOK s1.raw := step1.keys hi.keys
  have hc1 : PClosed s1.raw := step1.pclosed hi.pclosed
  have hhead : objP.head? ≠ some .toc := objPath_head hb
  have hex1 : get? s1.raw objP ≠ none := by rw [step1.frame _ hhead]; exact hex
  have h2 := rawDel_ok (t := s1.raw) (p := objP) (by simp [hobjP]) hex1
  set t2 := s1.raw.filter (fun e => !under objP e.1) with ht2
  -- nothing lives below the object
  have hleaf : ∀ q, objP <+: q → q ≠ objP → get? s.raw q = none := by
    rintro q ⟨c, rfl⟩ hne
    by_contra hc
    cases c with
    | nil => simp at hne
    | cons x c =>
      have : get? s.raw (b ++ Key.metaDir m :: Key.obj r u :: (x :: c)) ≠ none := by simpa [hobjP] using hc
      have := (below_metaDir hi.mok hb this).1
      simp at this
  have g2 : ∀ q, q ≠ [] → q.head? ≠ some .toc → get? t2 q = if q = objP then none else get? s.raw q := by
    intro q hq hqt
    rw [rawDel_get? h2 q hq, step1.frame q hqt]
    by_cases hqe : q = objP
    · subst hqe; simp [under]
    · rw [if_neg hqe]
      by_cases hu : objP <+: q
      · rw [under_true_of_prefix hu, hleaf q hu hqe]; simp
      · rw [under_false_of_not_prefix hu]; simp
  have f2 : ∀ q, q.head? = some .toc → get? t2 q = get? s1.raw q :=
    fun q hq => rawDel_frame h2 q (by rw [hq]; exact fun h => hhead h.symm)
  -- is another object left in the directory?
  have hother_iff : alErase h.objs r.name ≠ [] ↔ ∃ r' u', get? s.raw (b ++ [.metaDir m, .obj r' u']) ≠ none ∧ (r', u') ≠ (r, u) := by
    rw [ne_eq, alErase_eq_nil_iff]
    constructor
    · intro hne
      simp only [not_forall] at hne
      obtain ⟨x, hx, hxn⟩ := hne
      obtain ⟨st', hst'⟩ := alGet_some_of_isSome hx
      obtain ⟨r', u', hn', -, hg'⟩ := (hobjs x st').mp hst'
      refine ⟨r', u', by rw [hbase] at hg'; simpa using hg', ?_⟩
      rintro h; cases h; exact hxn hn'.symm
    · rintro ⟨r', u', hg', hne⟩ hall
      have hsome : (alGet h.objs r'.name).isSome := by
        rw [(hobjs r'.name ⟨u', r', h.baseDir ++ [.obj r' u']⟩).mpr ⟨r', u', rfl, rfl, by rw [hbase]; simpa using hg'⟩]; rfl
      have hnm := hall _ hsome
      obtain ⟨rfl, rfl⟩ := hi.mok.onename b m r' u' r u hb hg' (by simpa [hobjP] using hex) hnm
      exact hne rfl
  -- final tree: `drop` says whether the directory goes as well
  have key : ∀ (tf : Tree) (drop : Prop) [Decidable drop],
      (drop ↔ alErase h.objs r.name = []) →
      (∀ q, q ≠ [] → q.head? ≠ some .toc → get? tf q =
        if q = objP then none else if drop ∧ q = b ++ [.metaDir m] then none else get? s.raw q) →
      (∀ q, q.head? = some .toc → get? tf q = get? s1.raw q) → KeysOK tf → PClosed tf →
      Inv e ⟨tf, s1.c, s1.next⟩ ∧ HOK ⟨tf, s1.c, s1.next⟩ { h with objs := alErase h.objs r.name } ∧
      (∀ q, isInternal q = false → get? tf q = get? s.raw q) ∧
      (∀ p r' u', ObjAt tf p r' u' ↔ (ObjAt s.raw p r' u' ∧ p ≠ objP)) ∧
      (∀ q, q.head? ≠ some .toc → get? tf q = none ∨ get? tf q = get? s.raw q) := by
    intro tf drop _ hdrop gf ff hkf hcf
    have hmono : ∀ q, q.head? ≠ some .toc → get? tf q = none ∨ get? tf q = get? s.raw q := by
      intro q hqt
      by_cases hq0 : q = []
      · subst hq0; right; simp
      · rw [gf q hq0 hqt]
        split_ifs
        · exact Or.inl rfl
        · exact Or.inl rfl
        · exact Or.inr rfl
    have hobjf : ∀ p r' u', ObjAt tf p r' u' ↔ (ObjAt s.raw p r' u' ∧ p ≠ objP) := by
      intro p r' u'
      constructor
      · rintro ⟨base, m', hb', rfl, hg⟩
        rw [gf _ (by simp) (objPath_head hb')] at hg
        split_ifs at hg with hq1 hq2
        · exact absurd rfl hg
        · exact absurd rfl hg
        · exact ⟨⟨base, m', hb', rfl, hg⟩, hq1⟩
      · rintro ⟨⟨base, m', hb', rfl, hg⟩, hne⟩
        refine ⟨base, m', hb', rfl, ?_⟩
        rw [gf _ (by simp) (objPath_head hb'), if_neg hne, if_neg]
        · exact hg
        · rintro ⟨-, hq⟩
          have := congrArg List.getLast? hq
          simp at this
    have hobjf' : ∀ p r' u', ObjAt tf p r' u' ↔ (ObjAt s.raw p r' u' ∧ u' ≠ u) := by
      intro p r' u'
      rw [hobjf]
      constructor
      · rintro ⟨h1, hne⟩
        refine ⟨h1, ?_⟩
        rintro rfl
        exact hne (hi.mok.uniq _ _ _ _ _ h1 ho).1
      · rintro ⟨h1, hne⟩
        refine ⟨h1, ?_⟩
        rintro rfl
        obtain ⟨base, m', hb', hp, -⟩ := h1
        have := (snoc2_inj hp).2.2
        simp at this
        exact hne this.2.symm
    have husedf : ∀ r', UsedIn tf r' ↔ ∃ p u', ObjAt s.raw p r' u' ∧ u' ≠ u := by
      intro r'
      constructor
      · rintro ⟨p, u', h⟩; exact ⟨p, u', (hobjf' _ _ _).mp h⟩
      · rintro ⟨p, u', h⟩; exact ⟨p, u', (hobjf' _ _ _).mpr h⟩
    have huser : ∀ q, isInternal q = false → get? tf q = get? s.raw q := by
      intro q hq
      by_cases hq0 : q = []
      · subst hq0; simp
      · rw [gf q hq0 (isInternal_head_ne_toc hq), if_neg, if_neg]
        · rintro ⟨-, rfl⟩
          rw [isInternal_append] at hq; simp [isInternal, Key.internal] at hq
        · rintro rfl
          rw [hobjP, isInternal_append] at hq; simp [isInternal, Key.internal] at hq
    refine ⟨⟨hkf, hcf, ?_, (htoc1.frame ff).congr (fun p r' u' => hobjf' p r' u') husedf, hsc1.congr husedf, ?_⟩, ?_, huser, hobjf, hmono⟩
    · constructor
      · intro q n hq hqt hg
        rw [gf q hq hqt] at hg
        split_ifs at hg
        exact hi.mok.ushape q n hq hqt hg
      · intro base m' hb' hg
        rw [gf _ (by simp) (objPath_head hb')] at hg
        have hne1 : base ++ [Key.metaDir m'] ≠ objP := by
          intro h; have := congrArg List.getLast? h; simp [hobjP] at this
        rw [if_neg hne1] at hg
        split_ifs at hg with hq2
        · exact absurd rfl hg
        · obtain ⟨hh1, r', u', hh2⟩ := hi.mok.host base m' hb' hg
          refine ⟨?_, ?_⟩
          · rcases hh1 with h | ⟨v, hv⟩
            · exact Or.inl h
            · exact Or.inr ⟨v, by rw [huser _ (user_internal_false hi.mok hb' hv)]; exact hv⟩
          · -- some object is left in this directory
            by_cases hsame : base ++ [Key.metaDir m'] = b ++ [.metaDir m]
            · obtain ⟨rfl, hk⟩ := List.append_inj' hsame rfl
              simp at hk; subst hk
              have hnd : ¬ drop := fun hd => hq2 ⟨hd, rfl⟩
              obtain ⟨r'', u'', hg'', hne''⟩ := hother_iff.mp (fun h => hnd (hdrop.mpr h))
              refine ⟨r'', u'', ?_⟩
              rw [gf _ (by simp) (objPath_head hb'), if_neg, if_neg]
              · exact hg''
              · rintro ⟨-, hq⟩; have := congrArg List.getLast? hq; simp at this
              · intro hq
                have := (snoc2_inj (hobjP ▸ hq)).2.2
                simp at this
                exact hne'' (by rw [this.1, this.2])
            · refine ⟨r', u', ?_⟩
              rw [gf _ (by simp) (objPath_head hb'), if_neg, if_neg]
              · exact hh2
              · rintro ⟨-, hq⟩; have := congrArg List.getLast? hq; simp at this
              · intro hq
                have := (snoc2_inj (hobjP ▸ hq))
                exact hsame (by rw [this.1, this.2.1])
      · intro p r' u' ho'
        exact hi.mok.objenv p r' u' ((hobjf _ _ _).mp ho').1
      · intro base m' r1 u1 r2 u2 hb' hg1 hg2 hname'
        have o1 : ObjAt tf (base ++ [.metaDir m', .obj r1 u1]) r1 u1 := ⟨base, m', hb', rfl, hg1⟩
        have o2 : ObjAt tf (base ++ [.metaDir m', .obj r2 u2]) r2 u2 := ⟨base, m', hb', rfl, hg2⟩
        obtain ⟨⟨_, _, _, _, hg1'⟩, -⟩ := (hobjf _ _ _).mp o1
        obtain ⟨⟨_, _, _, _, hg2'⟩, -⟩ := (hobjf _ _ _).mp o2
        exact hi.mok.onename base m' r1 u1 r2 u2 hb' hg1' hg2' hname'
      · intro p p' r1 r2 u' ho1 ho2
        exact hi.mok.uniq p p' r1 r2 u' ((hobjf _ _ _).mp ho1).1 ((hobjf _ _ _).mp ho2).1
      · intro p r' u' ho'
        show u' < s1.next
        rw [step1.next]
        exact hi.mok.bound p r' u' ((hobjf _ _ _).mp ho').1
    · intro u' tp
      rw [hlc1 u' tp]
      constructor
      · rintro ⟨p, r', hL, rfl⟩; exact ⟨p, r', (hobjf' _ _ _).mpr hL, rfl⟩
      · rintro ⟨p, r', hL, rfl⟩; exact ⟨p, r', (hobjf' _ _ _).mp hL, rfl⟩
    · refine ⟨⟨b, m, hb, hbase, ?_, ?_⟩, ?_, alKeys_alErase_nodup hknd _⟩
      · rw [huser b hb]; exact hbg
      · rcases hhost with h | ⟨v, hv⟩
        · exact Or.inl h
        · exact Or.inr ⟨v, by rw [huser _ (user_internal_false hi.mok hb hv)]; exact hv⟩
      · intro name' st'
        show alGet (alErase h.objs r.name) name' = some st' ↔ _
        rw [alGet_alErase]
        by_cases hn : name' = r.name
        · subst hn
          simp only [if_true]
          constructor
          · intro h; cases h
          · rintro ⟨r', u', hn', -, hg'⟩
            exfalso
            rw [hbase] at hg'
            have o' : ObjAt tf (b ++ [.metaDir m, .obj r' u']) r' u' := ⟨b, m, hb, rfl, by simpa using hg'⟩
            obtain ⟨⟨_, _, _, _, hg''⟩, hne'⟩ := (hobjf _ _ _).mp o'
            obtain ⟨rfl, rfl⟩ := hi.mok.onename b m r' u' r u hb hg'' (by simpa [hobjP] using hex) hn'
            exact hne' rfl
        · simp only [hn, if_false, hobjs name' st']
          constructor
          · rintro ⟨r', u', hn', rfl, hg'⟩
            refine ⟨r', u', hn', rfl, ?_⟩
            rw [hbase] at hg' ⊢
            have o' : ObjAt s.raw (b ++ [.metaDir m, .obj r' u']) r' u' := ⟨b, m, hb, rfl, by simpa using hg'⟩
            have : ObjAt tf (b ++ [.metaDir m, .obj r' u']) r' u' := (hobjf _ _ _).mpr ⟨o', by
              intro hq
              have := (snoc2_inj (hobjP ▸ hq)).2.2
              simp at this
              exact hn (by rw [← hn', this.1])⟩
            obtain ⟨_, _, _, hp, hg''⟩ := this
            simpa using hg''
          · rintro ⟨r', u', hn', rfl, hg'⟩
            refine ⟨r', u', hn', rfl, ?_⟩
            rw [hbase] at hg' ⊢
            have o' : ObjAt tf (b ++ [.metaDir m, .obj r' u']) r' u' := ⟨b, m, hb, rfl, by simpa using hg'⟩
            obtain ⟨⟨_, _, _, _, hg''⟩, -⟩ := (hobjf _ _ _).mp o'
            simpa using hg''
  by_cases hne : alErase h.objs r.name = []
  · -- the directory is removed as well
    have hdir2 : get? t2 (b ++ [.metaDir m]) ≠ none := by
      rw [g2 _ (by simp) (objPath_head hb), if_neg (by intro h; have := congrArg List.length h; simp [hobjP] at this)]
      intro hn
      have := hi.pclosed (b ++ [.metaDir m]) (.obj r u) (by simpa [hobjP] using hex)
      rw [hn] at this; cases this
    have h3 := rawDel_ok (t := t2) (p := b ++ [.metaDir m]) (by simp) hdir2
    set t3 := t2.filter (fun e => !under (b ++ [.metaDir m]) e.1) with ht3
    have hhead3 : (b ++ [Key.metaDir m]).head? ≠ some .toc := objPath_head hb
    obtain ⟨hinv, hhok, huser, hobjf, hmono⟩ := key t3 True (by simp [hne]) (by
        intro q hq hqt
        rw [rawDel_get? h3 q hq, g2 q hq hqt]
        by_cases hq1 : q = objP
        · simp [hq1]
        · rw [if_neg hq1, if_neg hq1]
          by_cases hq2 : q = b ++ [.metaDir m]
          · simp [hq2, under]
          · simp only [hq2, and_false, if_false]
            by_cases hu : (b ++ [.metaDir m]) <+: q
            · rw [under_true_of_prefix hu]
              simp only [if_true]
              -- nothing else is left below the directory
              obtain ⟨c, rfl⟩ := hu
              cases c with
              | nil => simp at hq2
              | cons k c =>
                by_contra hc
                have hc' : get? s.raw (b ++ Key.metaDir m :: k :: c) ≠ none := by
                  intro h; apply hc; rw [← h]; simp
                obtain ⟨rfl, r', u', rfl⟩ := below_metaDir hi.mok hb hc'
                have hoth : ¬ ∃ r' u', get? s.raw (b ++ [.metaDir m, .obj r' u']) ≠ none ∧ (r', u') ≠ (r, u) :=
                  fun h => (hother_iff.mpr h) hne
                apply hoth
                refine ⟨r', u', by simpa using hc', ?_⟩
                rintro h; cases h
                exact hq1 (by simp [hobjP])
            · rw [under_false_of_not_prefix hu]; simp)
      (fun q hq => (rawDel_frame h3 q (by rw [hq]; exact fun h => hhead3 h.symm)).trans (f2 q hq))
      (rawDel_keys h3 (rawDel_keys h2 hk1)) (rawDel_pclosed h3 (rawDel_pclosed h2 hc1))
    refine ⟨⟨t3, s1.c, s1.next⟩, _, delRaw_run_drop h name s _ s1 t2 t3 hst hrun1 (by simpa [hobjP'] using h2) hne
      (by rw [hbase]; exact h3), hinv, hhok, rfl, step1.next, huser, hobjf, hmono⟩
  · obtain ⟨hinv, hhok, huser, hobjf, hmono⟩ := key t2 False (by simp [hne]) (by
        intro q hq hqt
        rw [g2 q hq hqt]; simp)
      f2 (rawDel_keys h2 hk1) (rawDel_pclosed h2 hc1)
    exact ⟨⟨t2, s1.c, s1.next⟩, _, delRaw_run_keep h name s _ s1 t2 hst hrun1 (by simpa [hobjP'] using h2) hne,
      hinv, hhok, rfl, step1.next, huser, hobjf, hmono⟩

theorem resolve_name {e : Env} {name : String} {ver : Option Ver} {r : SRef}
    (h : e.resolve name ver = some r) : r.name = name := by
  unfold Env.resolve at h
  have hm := List.mem_of_getLast? h
  unfold Env.versions at hm
  have key : ∀ r, r ∈ (e.schemas.filter fun i => i.ref.name == name).map (·.ref) → r.name = name := by
    intro r hr
    obtain ⟨i, hi, rfl⟩ := List.mem_map.mp hr
    simpa using (List.mem_filter.mp hi).2
  cases ver with
  | none => exact key r hm
  | some v => exact key r (List.mem_filter.mp hm).1

theorem requireSchema_ok {e : Env} {name : String} {ver : Option Ver} {i : SInfo}
    (h : e.requireSchema name ver = .ok i) : e.info i.ref = some i ∧ i.ref.name = name ∧ i.aux = false := by
  unfold Env.requireSchema at h
  cases hr : e.resolve name ver with
  | none => simp [hr] at h
  | some r =>
    simp only [hr] at h
    cases hinf : e.info r with
    | none => simp [hinf] at h
    | some j =>
      simp only [hinf] at h
      split_ifs at h with haux
      cases h
      have := info_ref hinf
      exact ⟨this ▸ hinf, this ▸ resolve_name hr, by simpa using haux⟩

/-- one operation on a kept `node.meta` handle keeps the invariant, whatever its outcome -/
theorem metaStep_inv {e : Env} (he : WFEnv e) {s : St} (hi : Inv e s) {h : Handle} (hh : HOK s h) (o : MetaOp) :
    Inv e (metaStep e h o s).2 ∧ HOK (metaStep e h o s).2 (metaStep e h o s).1.2 := by
  have hgr : ∀ name, h.getRaw name none = alGet h.objs name := by
    intro name; unfold Handle.getRaw; cases alGet h.objs name <;> rfl
  cases o with
  | set name ver valid tok =>
    cases hg : alGet h.objs name with
    | some st =>
      have : metaStep e h (.set name ver valid tok) s = ((.raised .value, h), s) := by
        simp [metaStep, Handle.set, hgr, hg]
      rw [this]; exact ⟨hi, hh⟩
    | none =>
      cases hreq : e.requireSchema name ver with
      | error err =>
        have : metaStep e h (.set name ver valid tok) s = ((.raised err, h), s) := by
          simp [metaStep, Handle.set, hgr, hg, hreq]
        rw [this]; exact ⟨hi, hh⟩
      | ok info =>
        obtain ⟨hinfo, hname, -⟩ := requireSchema_ok hreq
        cases valid with
        | false =>
          have : metaStep e h (.set name ver false tok) s = ((.raised .validation, h), s) := by
            simp [metaStep, Handle.set, hgr, hg, hreq]
          rw [this]; exact ⟨hi, hh⟩
        | true =>
          obtain ⟨s', h', hrun, hinv, hhok, -⟩ := setRaw_spec he hi hh hinfo tok (by rw [hname]; exact hg) s.next rfl
          have : metaStep e h (.set name ver true tok) s = ((.done, h'), s') := by
            simp [metaStep, Handle.set, hgr, hg, hreq, hrun]
          rw [this]; exact ⟨hinv, hhok⟩
  | del name =>
    cases hg : alGet h.objs name with
    | none =>
      have : metaStep e h (.del name) s = ((.raised .key, h), s) := by
        simp [metaStep, Handle.del, hgr, hg]
      rw [this]; exact ⟨hi, hh⟩
    | some st =>
      obtain ⟨s', h', hrun, hinv, hhok, -⟩ := delRaw_spec he hi hh hg
      have : metaStep e h (.del name) s = ((.done, h'), s') := by
        simp [metaStep, Handle.del, hgr, hg, hrun]
      rw [this]; exact ⟨hinv, hhok⟩
  | get name ver =>
    simp only [metaStep]
    cases h.get e s name ver <;> exact ⟨hi, hh⟩

theorem metaSeqTrace_inv {e : Env} (he : WFEnv e) : ∀ (ops : List MetaOp) {s : St} {h : Handle},
    Inv e s → HOK s h → Inv e (metaSeqTrace e h ops s).2
  | [], s, h, hi, _ => by simpa [metaSeqTrace] using hi
  | o :: ops, s, h, hi, hh => by
    obtain ⟨h1, h2⟩ := metaStep_inv he hi hh o
    simp only [metaSeqTrace]
    exact metaSeqTrace_inv he ops h1 h2

/-- `node.meta[...]` operations (any sequence on one handle) -/
theorem opMeta_inv {e : Env} (he : WFEnv e) {s : St} (hi : Inv e s) (p : Path) (ops : List MetaOp) :
    Inv e (opMeta e p ops s).2 := by
  unfold opMeta guardPath
  by_cases hint : isInternal p = true
  · simp [hint, hi]
  · have hint' : isInternal p = false := by simpa using hint
    simp only [hint', Bool.false_eq_true, if_false, bind, M.bind, run_pure, run_getSt]
    cases hk : nodeKind s p with
    | none => simp [hi]
    | some k =>
      simp only [run_ofOpt_some, metaSeq]
      exact metaSeqTrace_inv he ops hi (openHandle_HOK hi hint' hk)

end MetadorModel.Container
