import MetadorModel.Proofs.OverlayWriteChain
/-!
# C01 write side, part 5: `__delitem__`, `create_group`, `create_dataset` evaluated

For a record `c :: older` with the invariant, each write path is evaluated (it does not fail
when the plain tree would accept the call) and the resulting newest container is described
point-wise (`Leaf` / `ChainShape`); `chain_sem` / `graft` then give the new view.
-/
namespace MetadorModel.Overlay
open MetadorModel.Tree
variable {V : Type}

/-! ### entries of the newest container vs. the view -/

/-- entries on the way to a path whose proper prefixes are visible groups are groups -/
theorem anc_groups (c : Cont V) (older : Rec V) (hinv : Inv (c :: older)) (p : Path)
    (hvis : ∀ x ∈ properPrefixes p, viewKind (c :: older) x = some .group) :
    ∀ x ∈ properPrefixes p, ∀ m, aget x c = some m → m.kind.isGroup = true :=
  fun x hx m hm => entry_isGroup_of_view_group c older hinv x m (hvis x hx) hm

theorem pp_visible_of_visible (r : Rec V) (p : Path) (h : viewKind r p ≠ none) :
    ∀ x ∈ properPrefixes p, viewKind r x = some .group := by
  intro x hx
  obtain ⟨s, hs, rfl⟩ := (mem_properPrefixes _ _).1 hx
  exact view_prefix_group r x s hs h

theorem pp_visible_of_part (r : Rec V) (pre : Path) (k : Key) (hpre : viewKind r pre = some .group) :
    ∀ x ∈ properPrefixes (pre ++ [k]), viewKind r x = some .group := by
  intro x hx
  obtain ⟨s, hs⟩ := (mem_properPrefixes_snoc pre k x).1 hx
  by_cases hs0 : s = []
  · subst hs0; simp only [List.append_nil] at hs; subst hs; exact hpre
  · exact view_prefix_group _ x s hs0 (by rw [← hs, hpre]; simp)

/-- an entry of the newest container at an invisible path is a deletion marker -/
theorem entry_at_invisible (c : Cont V) (older : Rec V) (hinv : Inv (c :: older)) (p : Path) (n : RNode V)
    (hv : viewKind (c :: older) p = none) (hp : aget p c = some n) : n.kind.isDel = true := by
  rw [(view_cons c older hinv.1 hinv.2.1 p).1] at hv
  unfold applyKind at hv
  by_cases hnv : nvPrefix c p = true
  · simp only [hnv, ↓reduceIte, hp, plainK, Option.bind_some] at hv
    cases hk : n.kind <;> simp_all [plainKind, RKind.isDel]
  · simp only [hnv, hp] at hv
    cases hk : viewKind older p <;> simp [hk] at hv

theorem free_below (c : Cont V) (hwf : WF c) (p : Path) (h : aget p c = none ∨ isDelAt c p = true) :
    ∀ s, s ≠ [] → aget (p ++ s) c = none := by
  intro s hs
  rcases h with h | h
  · exact hwf.below_none p s h
  · unfold isDelAt at h
    cases hp : aget p c with
    | none => exact hwf.below_none p s hp
    | some n =>
      simp only [hp] at h
      have : n.kind.isGroup = false := by cases hk : n.kind <;> simp_all [RKind.isDel, RKind.isGroup]
      exact hwf.below_nongroup p s n hp this hs

theorem viewKind_none_of_unmentioned (r : Rec V) (x : Path) (hx : x ≠ []) (h : ∀ c ∈ r, aget x c = none) :
    viewKind r x = none := by
  apply viewKind_none_of_not_found
  intro c n hl
  obtain ⟨ct, hm, hne⟩ := lookFrom_found_mem r x [] 0 vnode c n hl hx
  simp only [List.nil_append] at hne
  exact hne (h ct hm)

/-- the parent of an entry of the newest container is a visible group -/
theorem parent_visible (c : Cont V) (older : Rec V) (hinv : Inv (c :: older)) (x : Path) (j : Key)
    (h : aget (x ++ [j]) c ≠ none) : viewKind (c :: older) x = some .group := by
  obtain ⟨m, hm, hg⟩ := hinv.1.parent x j h
  rw [(view_cons c older hinv.1 hinv.2.1 x).1]
  unfold applyKind
  by_cases hnv : nvPrefix c x = true
  · simp [hnv, hm, plainK, plainKind_group_of_isGroup hg]
  · simp only [hnv, hm]
    by_cases hx0 : x = []
    · subst hx0; rw [viewKind_root]; rfl
    · rcases hinv.2.1 x m hx0 hm (by simpa using hnv) with h1 | ⟨_, h2⟩ | h3
      · rw [h1]; rfl
      · exact absurd (h2 [j] (by simp)) h
      · rw [viewKind_none_of_unmentioned older x hx0 h3]; rfl

/-- in the base container every visible path has an entry -/
theorem base_present (c : Cont V) (hinv : Inv [c]) (x : Path) (h : viewKind [c] x ≠ none) : aget x c ≠ none := by
  rw [(view_cons c [] hinv.1 hinv.2.1 x).1] at h
  unfold applyKind at h
  intro hx
  by_cases hnv : nvPrefix c x = true
  · simp [hnv, hx, plainK] at h
  · simp only [hnv, hx] at h
    by_cases hx0 : x = []
    · subst hx0
      obtain ⟨a, ha⟩ := hinv.1.root
      rw [ha] at hx; cases hx
    · exact h (viewKind_nil x hx0)

/-! ### leaves -/

theorem Leaf.free {c cg : Cont V} {p : Path} {n : RNode V} (h : Leaf c p n cg) (s : Path) (hs : s ≠ []) :
    aget (p ++ s) cg = none := by
  rw [h]; simp [hs, isPre_append]

theorem Leaf.at {c cg : Cont V} {p : Path} {n : RNode V} (h : Leaf c p n cg) : aget p cg = some n := by
  rw [h]; simp

theorem Leaf.out {c cg : Cont V} {p : Path} {n : RNode V} (h : Leaf c p n cg) (q : Path) (hq : isPre p q = false) :
    aget q cg = withCarriers c p q := by
  rw [h]
  have : q ≠ p := by rintro rfl; rw [isPre_refl] at hq; cases hq
  simp [this, hq]

theorem withCarriers_isGroup (c : Cont V) (p x : Path) (m : RNode V)
    (hanc : ∀ x ∈ properPrefixes p, ∀ m, aget x c = some m → m.kind.isGroup = true)
    (hx : x ∈ properPrefixes p) (h : withCarriers c p x = some m) : m.kind.isGroup = true := by
  unfold withCarriers at h
  cases hc : aget x c with
  | some m' => simp only [hc, Option.some.injEq] at h; subst h; exact hanc x hx m' hc
  | none => simp only [hc, hx, ↓reduceIte, Option.some.injEq] at h; subst h; rfl

/-- entries on the way to a path below a fresh group leaf are groups -/
theorem Leaf.anc {c cg : Cont V} {p0 : Path} {g : RKind V} (h : Leaf c p0 ⟨g, []⟩ cg) (hg : g.isGroup = true)
    (hanc : ∀ x ∈ properPrefixes p0, ∀ m, aget x c = some m → m.kind.isGroup = true) (more : Path) :
    ∀ x ∈ properPrefixes (p0 ++ more), ∀ m, aget x cg = some m → m.kind.isGroup = true := by
  intro x hx m hm
  by_cases hb : isPre p0 x = true
  · obtain ⟨s, rfl⟩ := (isPre_iff _ _).1 hb
    by_cases hs : s = []
    · subst hs
      simp only [List.append_nil] at hm
      rw [h.at] at hm
      cases hm; exact hg
    · rw [h.free s hs] at hm; cases hm
  · have hb' : isPre p0 x = false := by simpa using hb
    rw [h.out x hb'] at hm
    exact withCarriers_isGroup c p0 x m hanc (mem_pp_of_mem_pp_append p0 more x hx hb') hm

/-! ### `create_group` -/

/-- creating the first missing segment -/
theorem createGroupAt_first (c : Cont V) (older : Rec V) (pre : Path) (k : Key) (hinv : Inv (c :: older))
    (hpre : viewKind (c :: older) pre = some .group) (hk : viewKind (c :: older) (pre ++ [k]) = none) :
    ∃ cg, W.createGroupAt (c :: older) (pre ++ [k]) = .ok (cg :: older) ∧
      Leaf c (pre ++ [k]) ⟨gk older, []⟩ cg := by
  have hfree : aget (pre ++ [k]) c = none ∨ isDelAt c (pre ++ [k]) = true := by
    cases hp : aget (pre ++ [k]) c with
    | none => exact Or.inl rfl
    | some n => right; simp [isDelAt, hp, entry_at_invisible c older hinv _ n hk hp]
  exact createGroupAt_shape c older (pre ++ [k]) hfree (free_below c hinv.1 _ hfree)
    (anc_groups c older hinv _ (pp_visible_of_part _ pre k hpre))

theorem createGroup_eval (c : Cont V) (older : Rec V) (path pre : Path) (k : Key) (more : Path)
    (hinv : Inv (c :: older)) (hl : look (c :: older) path = .part pre (k :: more)) :
    ∃ c', W.createGroup (c :: older) path = .ok (c' :: older) ∧
      ChainShape c (pre ++ [k]) (gk older) more ⟨gk older, []⟩ c' := by
  obtain ⟨k', y', hpath, hy, hpre, hk⟩ := look_part_props _ _ _ _ hl
  simp only [List.cons.injEq] at hy
  obtain ⟨rfl, rfl⟩ := hy
  obtain ⟨cg, hcg, hleaf⟩ := createGroupAt_first c older pre k hinv hpre hk
  have hancc := anc_groups c older hinv _ (pp_visible_of_part _ pre k hpre)
  by_cases hm : more = []
  · subst hm
    subst hpath
    refine ⟨cg, ?_, hleaf.chain _⟩
    simp only [W.createGroup, hl, ↓reduceIte]
    exact hcg
  · have hp2 : path = pre ++ [k] ++ more := by rw [hpath]; simp
    obtain ⟨c', hc', hleaf'⟩ := createGroupAt_shape cg older (pre ++ [k] ++ more)
      (Or.inl (hleaf.free more hm))
      (fun s _ => by rw [List.append_assoc]; exact hleaf.free (more ++ s) (by simp [hm]))
      (hleaf.anc (gk_isGroup older) hancc more)
    refine ⟨c', ?_, hleaf.extend hleaf'⟩
    simp only [W.createGroup, hl, hm, ↓reduceIte, hcg, bind, Except.bind]
    rw [hp2]; exact hc'

/-! ### `create_dataset` -/

theorem createDataset_eval (c : Cont V) (older : Rec V) (path pre : Path) (k : Key) (more : Path) (v : V)
    (hinv : Inv (c :: older)) (hl : look (c :: older) path = .part pre (k :: more)) :
    ∃ c', W.createDataset (c :: older) path v = .ok (c' :: older) ∧
      ChainShape c (pre ++ [k]) (gk older) more ⟨.data v, []⟩ c' := by
  obtain ⟨k', y', hpath, hy, hpre, hk⟩ := look_part_props _ _ _ _ hl
  simp only [List.cons.injEq] at hy
  obtain ⟨rfl, rfl⟩ := hy
  have hp2 : path = pre ++ [k] ++ more := by rw [hpath]; simp
  have hancc := anc_groups c older hinv _ (pp_visible_of_part _ pre k hpre)
  -- an entry at `path` in the newest container forces `more = []`
  have hshallow : aget path c ≠ none → more = [] := by
    intro hne
    rcases List.eq_nil_or_concat more with h | ⟨m', j, h⟩
    · exact h
    · exfalso
      have hx : path = (pre ++ [k] ++ m') ++ [j] := by rw [hp2, h]; simp
      rw [hx] at hne
      have := parent_visible c older hinv _ j hne
      rw [view_below_none _ (pre ++ [k]) m' hk] at this
      cases this
  have hpathnone : viewKind (c :: older) path = none := by
    rw [hp2]; exact view_below_none _ _ more hk
  cases hp : aget path c with
  | some n =>
    -- necessarily a deletion marker, and `path = pre ++ [k]`
    have hm := hshallow (by simp [hp])
    subst hm
    simp only [List.append_nil] at hp2
    have hdel : isDelAt c path = true := by
      simp [isDelAt, hp, entry_at_invisible c older hinv _ n hpathnone hp]
    subst hp2
    obtain ⟨c', hc', hleaf⟩ := rmCreate_shape c (pre ++ [k]) ⟨.data v, []⟩ hancc
    refine ⟨c', ?_, hleaf.chain _⟩
    simp only [W.createDataset, hl, hdel, ↓reduceIte, pure, Except.pure, bind, Except.bind, hc']
  | none =>
    have hdel : isDelAt c path = false := by simp [isDelAt, hp]
    obtain ⟨cg, hcg, hleaf⟩ := createGroupAt_first c older pre k hinv hpre hk
    have hl1 : look (c :: older) (pre ++ [k]) = .part pre [k] := by
      apply look_part_first _ pre k more
      rw [← hpath]; exact hl
    have hcgroup : W.createGroup (c :: older) (pre ++ [k]) = .ok (cg :: older) := by
      simp only [W.createGroup, hl1, ↓reduceIte]
      exact hcg
    by_cases hm : more = []
    · subst hm
      simp only [List.append_nil] at hp2
      subst hp2
      obtain ⟨c', hc', hleaf'⟩ := rmCreate_shape cg (pre ++ [k]) ⟨.data v, []⟩ (by
        have := hleaf.anc (gk_isGroup older) hancc []
        simpa using this)
      have hleaf2 : Leaf c (pre ++ [k]) ⟨.data v, []⟩ c' := hleaf'.rebase (fun q hq => hleaf.out q hq)
      refine ⟨c', ?_, hleaf2.chain _⟩
      have hat : aget (pre ++ [k]) cg = some ⟨gk older, []⟩ := hleaf.at
      simp only [W.createDataset, hl, hdel, hp, W.createVirtual, hcgroup, Bool.false_eq_true, ↓reduceIte,
        Option.isNone_none, pure, Except.pure, bind, Except.bind, hat, Option.isNone_some, hc']
    · -- the deep case: groups down to `path`, removed again, then the dataset
      have hanc_cg := hleaf.anc (gk_isGroup older) hancc more
      obtain ⟨c3, hc3, hleaf3⟩ := create_shape_free cg (pre ++ [k] ++ more) vnode
        (fun s => by rw [List.append_assoc]; exact hleaf.free (more ++ s) (by simp [hm])) hanc_cg
      have hanc3 : ∀ x ∈ properPrefixes (pre ++ [k] ++ more), ∀ m, aget x c3 = some m → m.kind.isGroup = true := by
        intro x hx m hxm
        rw [hleaf3.out x (isPre_false_of_mem_pp _ x hx)] at hxm
        exact withCarriers_isGroup cg _ x m hanc_cg hx hxm
      obtain ⟨c', hc', hleaf'⟩ := rmCreate_shape c3 (pre ++ [k] ++ more) ⟨.data v, []⟩ hanc3
      have hleaf2 : Leaf cg (pre ++ [k] ++ more) ⟨.data v, []⟩ c' := hleaf'.rebase (fun q hq => hleaf3.out q hq)
      refine ⟨c', ?_, hleaf.extend hleaf2⟩
      have hat : aget (pre ++ [k] ++ more) c3 = some vnode := hleaf3.at
      subst hp2
      simp only [W.createDataset, hl, hdel, hp, W.createVirtual, hcgroup, hm, Bool.false_eq_true, ↓reduceIte,
        Option.isNone_none, pure, Except.pure, bind, Except.bind, Raw.createGroup, hc3, hat, Option.isNone_some, hc']

/-! ### `__delitem__` -/

theorem delete_eval_patch (c o : Cont V) (os : Rec V) (path : Path) (hinv : Inv (c :: o :: os))
    (hne : path ≠ []) (hvis : viewKind (c :: o :: os) path ≠ none) :
    ∃ c', W.delete (c :: o :: os) path = .ok (c' :: o :: os) ∧ Leaf c path ⟨.del, []⟩ c' := by
  obtain ⟨cf, nf, hl⟩ := found_of_viewKind _ _ hvis
  have hanc := anc_groups c (o :: os) hinv path (pp_visible_of_visible _ path hvis)
  cases hp : aget path c with
  | some n =>
    obtain ⟨c', hc', hleaf⟩ := rmCreate_shape c path ⟨.del, []⟩ hanc
    refine ⟨c', ?_, hleaf⟩
    simp only [W.delete, hne, ↓reduceIte, hl, hp, Option.isSome_some, List.isEmpty_cons, Bool.false_eq_true,
      bind, Except.bind, hc', pure, Except.pure]
  | none =>
    obtain ⟨c', hc', hleaf⟩ := create_shape_free c path ⟨.del, []⟩ (fun s => hinv.1.below_none path s hp) hanc
    refine ⟨c', ?_, hleaf⟩
    simp only [W.delete, hne, ↓reduceIte, hl, hp, Option.isSome_none, List.isEmpty_cons, Bool.false_eq_true,
      bind, Except.bind, hc', pure, Except.pure]

theorem delete_eval_base (c : Cont V) (path : Path) (hinv : Inv [c])
    (hne : path ≠ []) (hvis : viewKind [c] path ≠ none) :
    ∃ c', W.delete [c] path = .ok [c'] ∧ ∀ q, aget q c' = if isPre path q then none else aget q c := by
  obtain ⟨cf, nf, hl⟩ := found_of_viewKind _ _ hvis
  cases hp : aget path c with
  | some n =>
    refine ⟨removeSub path c, ?_, fun q => aget_removeSub path q c⟩
    simp only [W.delete, hne, ↓reduceIte, hl, hp, Option.isSome_some, List.isEmpty_nil,
      bind, Except.bind, pure, Except.pure]
  | none =>
    -- cannot happen: a visible path of the base container has an entry
    exact absurd hp (base_present c hinv path hvis)

end MetadorModel.Overlay
