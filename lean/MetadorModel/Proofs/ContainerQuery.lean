import MetadorModel.Proofs.ContainerDelete
/-!
# `MetadorMeta.query / __contains__ / get` and `MetadorContainerTOC.query` in terms of the raw tree
-/
namespace MetadorModel.Container

/-- version compatibility as `_get_raw` / `TOCSchemas.versions` test it: no version requested, or
the requested `(name, v)` *supports* the reference (`PluginRef.supports`: same name, same major,
requested minor ≥ minor of the reference) -/
def VerOK (name : String) (ver : Option Ver) (r : SRef) : Prop :=
  match ver with
  | none => True
  | some v => supports ⟨name, v⟩ r = true

instance (name : String) (ver : Option Ver) (r : SRef) : Decidable (VerOK name ver r) := by
  unfold VerOK; cases ver <;> infer_instance

/-- the rule implemented by `query`: an object of schema `q` answers a request for `(name, ver)` when
`q` itself is called `name` (compatible version), or a proper ancestor of `q` is -/
def Answers (e : Env) (name : String) (ver : Option Ver) (q : SRef) : Prop :=
  (q.name = name ∧ VerOK name ver q) ∨ ∃ A, A ∈ ppath e q ∧ A ≠ q ∧ A.name = name ∧ VerOK name ver A

theorem mem_iff_alGet {α β : Type} [DecidableEq α] {l : List (α × β)} (hnd : (alKeys l).Nodup) (a : α) (b : β) :
    (a, b) ∈ l ↔ alGet l a = some b := by
  induction l with
  | nil => simp
  | cons x l ih =>
    obtain ⟨k, v⟩ := x
    simp only [alKeys, List.map_cons, List.nodup_cons] at hnd
    simp only [List.mem_cons, Prod.mk.injEq, alGet_cons]
    by_cases hk : k = a
    · subst hk
      simp only [true_and, if_true, Option.some.injEq]
      constructor
      · rintro (h | h)
        · exact h.symm
        · exact absurd (List.mem_map.mpr ⟨(k, b), h, rfl⟩) hnd.1
      · intro h; exact Or.inl h.symm
    · have hk' : ¬ a = k := fun h => hk h.symm
      simp only [hk, hk', false_and, false_or, if_false]
      exact ih hnd.2

theorem getRaw_eq_some {h : Handle} {name : String} {ver : Option Ver} {st : Stored} :
    h.getRaw name ver = some st ↔ alGet h.objs name = some st ∧ VerOK name ver st.schema := by
  unfold Handle.getRaw VerOK
  cases hg : alGet h.objs name with
  | none => simp
  | some st' =>
    cases ver with
    | none => simp
    | some v =>
      simp only [Option.some.injEq]
      split_ifs with hs
      · constructor
        · rintro h; cases h; exact ⟨rfl, hs⟩
        · rintro ⟨h, -⟩; rw [h]
      · constructor
        · intro h; cases h
        · rintro ⟨rfl, h⟩; exact absurd h hs

theorem mem_tocVersions {c : Caches} {name : String} {ver : Option Ver} {A : SRef} :
    A ∈ tocVersions c name ver ↔ (alGet c.children A).isSome ∧ A.name = name ∧ VerOK name ver A := by
  unfold tocVersions VerOK
  rw [alGet_isSome_iff]
  cases ver with
  | none => simp [alKeys]
  | some v => simp [alKeys]; intro _ _; exact and_comm

/-- the objects of a handle's directory that answer a query -/
theorem mem_query {e : Env} {s : St} (hi : Inv e s) {h : Handle} (hh : HOK s h) (name : String)
    (ver : Option Ver) (q : SRef) :
    q ∈ h.query s.c name ver ↔
      (∃ u, get? s.raw (h.baseDir ++ [.obj q u]) ≠ none) ∧ Answers e name ver q := by
  obtain ⟨⟨b, m, hb, hbase, -, -⟩, hobjs, hnd⟩ := hh
  -- objects of the directory are attached objects
  have hobjAt : ∀ r u, get? s.raw (h.baseDir ++ [.obj r u]) ≠ none → ObjAt s.raw (h.baseDir ++ [.obj r u]) r u :=
    fun r u hg => ⟨b, m, hb, by rw [hbase]; simp, hg⟩
  have havail : q ∈ h.objs.map (·.2.schema) ↔ ∃ u, get? s.raw (h.baseDir ++ [.obj q u]) ≠ none := by
    simp only [List.mem_map]
    constructor
    · rintro ⟨⟨n, st⟩, hm, rfl⟩
      obtain ⟨r, u, -, rfl, hg⟩ := (hobjs n st).mp ((mem_iff_alGet hnd n st).mp hm)
      exact ⟨u, hg⟩
    · rintro ⟨u, hg⟩
      exact ⟨(q.name, ⟨u, q, h.baseDir ++ [.obj q u]⟩),
        (mem_iff_alGet hnd _ _).mpr ((hobjs _ _).mpr ⟨q, u, rfl, rfl, hg⟩), rfl⟩
  have hcompat : ∀ (hq : ∃ u, get? s.raw (h.baseDir ++ [.obj q u]) ≠ none),
      (q ∈ ((tocVersions s.c name ver).map (tocChildren s.c)).flatten ↔
        ∃ A, A ∈ ppath e q ∧ A ≠ q ∧ A.name = name ∧ VerOK name ver A) := by
    rintro ⟨u, hg⟩
    have hused : UsedIn s.raw q := ⟨_, u, hobjAt q u hg⟩
    simp only [List.mem_flatten, List.mem_map]
    constructor
    · rintro ⟨l, ⟨A, hA, rfl⟩, hq⟩
      obtain ⟨hsome, hn, hv⟩ := mem_tocVersions.mp hA
      obtain ⟨cs, hcs⟩ := alGet_some_of_isSome hsome
      simp only [tocChildren, hcs, Option.getD_some] at hq
      obtain ⟨-, hp, hne⟩ := ((hi.scache.index.chi_val A cs hcs).2 q).mp hq
      exact ⟨A, hp, fun h => hne h.symm, hn, hv⟩
    · rintro ⟨A, hp, hne, hn, hv⟩
      have hsome : (alGet s.c.children A).isSome := (hi.scache.index.dom A).mpr ⟨q, hused, hp⟩
      obtain ⟨cs, hcs⟩ := alGet_some_of_isSome hsome
      refine ⟨_, ⟨A, mem_tocVersions.mpr ⟨hsome, hn, hv⟩, rfl⟩, ?_⟩
      simp only [tocChildren, hcs, Option.getD_some]
      exact ((hi.scache.index.chi_val A cs hcs).2 q).mpr ⟨hused, hp, fun h => hne h.symm⟩
  unfold Handle.query Answers
  simp only [List.mem_append, List.mem_filter, decide_eq_true_eq]
  constructor
  · rintro (hex | ⟨hav, hco⟩)
    · cases hgr : h.getRaw name ver with
      | none => simp [hgr] at hex
      | some st =>
        simp only [hgr, List.mem_singleton] at hex
        subst hex
        obtain ⟨hg, hv⟩ := getRaw_eq_some.mp hgr
        obtain ⟨r, u, hn, rfl, hex⟩ := (hobjs name st).mp hg
        exact ⟨⟨u, hex⟩, Or.inl ⟨hn, hv⟩⟩
    · have hq := havail.mp hav
      exact ⟨hq, Or.inr ((hcompat hq).mp hco)⟩
  · rintro ⟨⟨u, hg⟩, hex | hco⟩
    · left
      have : h.getRaw name ver = some ⟨u, q, h.baseDir ++ [.obj q u]⟩ :=
        getRaw_eq_some.mpr ⟨(hobjs _ _).mpr ⟨q, u, hex.1, rfl, hg⟩, hex.2⟩
      simp [this]
    · exact Or.inr ⟨havail.mpr ⟨u, hg⟩, (hcompat ⟨u, hg⟩).mpr hco⟩

/-- `(name, version) in node.meta` -/
theorem contains_iff {e : Env} {s : St} (hi : Inv e s) {h : Handle} (hh : HOK s h) (name : String)
    (ver : Option Ver) :
    h.contains s.c name ver = true ↔
      name ≠ "" ∧ ∃ q u, get? s.raw (h.baseDir ++ [.obj q u]) ≠ none ∧ Answers e name ver q := by
  unfold Handle.contains
  by_cases hn : name = ""
  · simp [hn]
  · simp only [hn, if_false, Bool.not_eq_true', ne_eq, not_false_eq_true, true_and]
    rw [← Bool.not_eq_true, List.isEmpty_iff]
    constructor
    · intro hne
      obtain ⟨q, hq⟩ := List.exists_mem_of_ne_nil _ hne
      obtain ⟨⟨u, hg⟩, ha⟩ := (mem_query hi hh name ver q).mp hq
      exact ⟨q, u, hg, ha⟩
    · rintro ⟨q, u, hg, ha⟩ hnil
      have := (mem_query hi hh name ver q).mpr ⟨⟨u, hg⟩, ha⟩
      rw [hnil] at this; simp at this

theorem supports_self (q : SRef) : supports ⟨q.name, q.ver⟩ q = true := by
  simp [supports]

/-- what `get` makes of one query answer -/
def getStep (s : St) (h : Handle) (cls : SRef) (q : SRef) : Option GetResult :=
  match h.getRaw q.name (some q.ver) with
  | none => none
  | some st =>
    match get? s.raw st.path with
    | some (.ds (.data tok)) => some ⟨cls, st, tok⟩
    | _ => none

theorem getAll_eq {e : Env} {s : St} {h : Handle} {name : String} {ver : Option Ver} {info : SInfo}
    (hreq : e.requireSchema name ver = .ok info) :
    h.getAll e s name ver = .ok ((h.query s.c name ver).filterMap (getStep s h info.ref)) := by
  unfold Handle.getAll
  cases hq : h.query s.c name ver with
  | nil => rfl
  | cons q qs => simp only [hreq]; rfl

theorem getAll_err {e : Env} {s : St} {h : Handle} {name : String} {ver : Option Ver} {err : Err}
    (hreq : e.requireSchema name ver = .error err) :
    h.getAll e s name ver = if h.query s.c name ver = [] then .ok [] else .error err := by
  unfold Handle.getAll
  cases hq : h.query s.c name ver with
  | nil => rfl
  | cons q qs => simp [hreq]

/-- content of a metadata object of the directory -/
theorem obj_content {e : Env} {s : St} (hi : Inv e s) {h : Handle} (hh : HOK s h) {q : SRef} {u : Nat}
    (hg : get? s.raw (h.baseDir ++ [.obj q u]) ≠ none) :
    ∃ tok, get? s.raw (h.baseDir ++ [.obj q u]) = some (.ds (.data tok)) := by
  obtain ⟨⟨b, m, hb, hbase, -, -⟩, -, -⟩ := hh
  have hp : h.baseDir ++ [.obj q u] = b ++ [.metaDir m, .obj q u] := by rw [hbase]; simp
  rw [hp] at hg ⊢
  cases hx : get? s.raw (b ++ [.metaDir m, .obj q u]) with
  | none => exact absurd hx hg
  | some n =>
    have := hi.mok.ushape _ n (by simp) (objPath_head hb) hx
    generalize hq : b ++ [Key.metaDir m, Key.obj q u] = pp at this
    cases this with
    | user pp n hi' _ =>
      rw [← hq, isInternal_append] at hi'
      simp [isInternal, Key.internal] at hi'
    | metaDir b' m' _ => have := congrArg List.getLast? hq; simp at this
    | obj b' m' r' u' tok _ => exact ⟨tok, rfl⟩

/-- the possible answers of `get(name, ver)`: one per attached object that answers the query,
parsed with the resolved class of the *requested* schema, carrying the stored bytes -/
theorem mem_getAll {e : Env} {s : St} (hi : Inv e s) {h : Handle} (hh : HOK s h) {name : String}
    {ver : Option Ver} {info : SInfo} (hreq : e.requireSchema name ver = .ok info) (g : GetResult) :
    (∃ l, h.getAll e s name ver = .ok l ∧ g ∈ l) ↔
      ∃ q u tok, get? s.raw (h.baseDir ++ [.obj q u]) = some (.ds (.data tok)) ∧ Answers e name ver q ∧
        g = ⟨info.ref, ⟨u, q, h.baseDir ++ [.obj q u]⟩, tok⟩ := by
  rw [getAll_eq hreq]
  have hstep : ∀ q, q ∈ h.query s.c name ver → ∀ g, getStep s h info.ref q = some g ↔
      ∃ u tok, get? s.raw (h.baseDir ++ [.obj q u]) = some (.ds (.data tok)) ∧
        g = ⟨info.ref, ⟨u, q, h.baseDir ++ [.obj q u]⟩, tok⟩ := by
    intro q hq g
    obtain ⟨⟨u, hg⟩, -⟩ := (mem_query hi hh name ver q).mp hq
    obtain ⟨tok, htok⟩ := obj_content hi hh hg
    have hraw : h.getRaw q.name (some q.ver) = some ⟨u, q, h.baseDir ++ [.obj q u]⟩ :=
      getRaw_eq_some.mpr ⟨(hh.objs _ _).mpr ⟨q, u, rfl, rfl, hg⟩, supports_self q⟩
    simp only [getStep, hraw, htok, Option.some.injEq]
    constructor
    · rintro rfl; exact ⟨u, tok, htok, rfl⟩
    · rintro ⟨u', tok', htok', rfl⟩
      have ho : ObjAt s.raw (h.baseDir ++ [.obj q u]) q u := by
        obtain ⟨⟨b, m, hb, hbase, -, -⟩, -, -⟩ := hh
        exact ⟨b, m, hb, by rw [hbase]; simp, hg⟩
      have ho' : ObjAt s.raw (h.baseDir ++ [.obj q u']) q u' := by
        obtain ⟨⟨b, m, hb, hbase, -, -⟩, -, -⟩ := hh
        exact ⟨b, m, hb, by rw [hbase]; simp, by rw [htok']; simp⟩
      obtain ⟨b, m, hb, hbase, -, -⟩ := hh.base
      have := hi.mok.onename b m q u q u' hb (by rw [hbase] at hg; simpa using hg)
        (by rw [hbase] at htok'; simp at htok'; rw [htok']; simp) rfl
      obtain ⟨-, rfl⟩ := this
      rw [htok] at htok'; cases htok'; rfl
  constructor
  · rintro ⟨l, hl, hgl⟩
    cases hl
    obtain ⟨q, hq, hgq⟩ := List.mem_filterMap.mp hgl
    obtain ⟨u, tok, htok, rfl⟩ := (hstep q hq g).mp hgq
    exact ⟨q, u, tok, htok, ((mem_query hi hh name ver q).mp hq).2, rfl⟩
  · rintro ⟨q, u, tok, htok, ha, rfl⟩
    have hq : q ∈ h.query s.c name ver := (mem_query hi hh name ver q).mpr ⟨⟨u, by rw [htok]; simp⟩, ha⟩
    exact ⟨_, rfl, List.mem_filterMap.mpr ⟨q, hq, (hstep q hq _).mpr ⟨u, tok, htok, rfl⟩⟩⟩

/-- the exact schema is yielded first: when an object of the requested schema name (in a
compatible version) is attached, `get` returns that one -/
theorem get_exact {e : Env} {s : St} (hi : Inv e s) {h : Handle} (hh : HOK s h) {name : String}
    {ver : Option Ver} {info : SInfo} (hreq : e.requireSchema name ver = .ok info) {q : SRef} {u : Nat}
    {tok : String} (hn : q.name = name) (hv : VerOK name ver q)
    (htok : get? s.raw (h.baseDir ++ [.obj q u]) = some (.ds (.data tok))) :
    h.get e s name ver = .ok (some ⟨info.ref, ⟨u, q, h.baseDir ++ [.obj q u]⟩, tok⟩) := by
  have hg : get? s.raw (h.baseDir ++ [.obj q u]) ≠ none := by rw [htok]; simp
  have hraw0 : h.getRaw name ver = some ⟨u, q, h.baseDir ++ [.obj q u]⟩ :=
    getRaw_eq_some.mpr ⟨(hh.objs _ _).mpr ⟨q, u, hn, rfl, hg⟩, hv⟩
  have hraw : h.getRaw q.name (some q.ver) = some ⟨u, q, h.baseDir ++ [.obj q u]⟩ :=
    getRaw_eq_some.mpr ⟨(hh.objs _ _).mpr ⟨q, u, rfl, rfl, hg⟩, supports_self q⟩
  unfold Handle.get
  rw [getAll_eq hreq]
  have : h.query s.c name ver = q :: (h.objs.map (·.2.schema)).filter
      (· ∈ ((tocVersions s.c name ver).map (tocChildren s.c)).flatten) := by
    simp [Handle.query, hraw0]
  rw [this]
  simp [getStep, hraw, htok, Except.map]

/-! ### container-level query -/

theorem metaBase_obj_objAt {e : Env} {s : St} (hi : Inv e s) {x : Path} {k : Bool} (hx : isInternal x = false)
    (hk : nodeKind s x = some k) {q : SRef} {u : Nat} (hg : get? s.raw (metaBase x k ++ [.obj q u]) ≠ none) :
    ObjAt s.raw (metaBase x k ++ [.obj q u]) q u := by
  obtain ⟨b, m, hb, hbase, -, -⟩ := (openHandle_HOK hi hx hk).base
  have hb' : metaBase x k = b ++ [.metaDir m] := hbase
  exact ⟨b, m, hb, by rw [hb']; simp, hg⟩

/-- the node `x` carries an object that answers the query -/
def Carries (e : Env) (s : St) (x : Path) (name : String) (ver : Option Ver) : Prop :=
  ∃ k q u, nodeKind s x = some k ∧ get? s.raw (metaBase x k ++ [.obj q u]) ≠ none ∧ Answers e name ver q

theorem tocQuery_mem {e : Env} {s : St} (hi : Inv e s) {start : Path} (hs : isInternal start = false)
    {name : String} {ver : Option Ver} {l : List Path} (h : tocQuery s start name ver = .ok l) (x : Path) :
    x ∈ l ↔ (start <+: x ∧ isInternal x = false ∧ Carries e s x name ver) := by
  unfold tocQuery at h
  by_cases hn : name = ""
  · simp [hn] at h
  · simp only [hn, if_false] at h
    cases hk : nodeKind s start with
    | none => simp [hk] at h
    | some k =>
      simp only [hk] at h
      have hcont : ∀ y d, isInternal y = false → nodeKind s y = some d →
          ((openHandle s y d).contains s.c name ver = true ↔ Carries e s y name ver) := by
        intro y d hy hd
        rw [contains_iff hi (openHandle_HOK hi hy hd)]
        have hb : (openHandle s y d).baseDir = metaBase y d := rfl
        rw [hb]
        constructor
        · rintro ⟨-, q, u, hg, ha⟩; exact ⟨d, q, u, hd, hg, ha⟩
        · rintro ⟨d', q, u, hd', hg, ha⟩
          rw [hd] at hd'; cases hd'
          exact ⟨hn, q, u, hg, ha⟩
      have hhere : x ∈ (if (openHandle s start k).contains s.c name ver = true then [start] else []) ↔
          (x = start ∧ Carries e s start name ver) := by
        rw [← hcont start k hs hk]
        split_ifs with hc <;> simp [hc]
      -- nothing lives below a dataset
      have hds : k = true → ∀ y, start <+: y → nodeKind s y ≠ none → y = start := by
        rintro rfl y hpre hy
        by_contra hne
        rcases nodeKind_some hk with ⟨h', -⟩ | ⟨-, v, hv⟩
        · cases h'
        · have := prefix_grp' hi.pclosed hpre (fun h => hne h.symm) (by
            intro hg; apply hy; simp [nodeKind, hg])
          rw [hv] at this; cases this
      cases k with
      | true =>
        simp only [if_true] at h
        cases h
        rw [hhere]
        constructor
        · rintro ⟨rfl, hc⟩; exact ⟨List.prefix_refl _, hs, hc⟩
        · rintro ⟨hpre, -, hc⟩
          have ⟨d, _, _, hd, _, _⟩ := hc
          have := hds rfl x hpre (by rw [hd]; simp)
          subst this; exact ⟨rfl, hc⟩
      | false =>
        simp only [Bool.false_eq_true, if_false] at h
        cases h
        rw [List.mem_append, hhere, List.mem_filterMap]
        constructor
        · rintro (⟨rfl, hc⟩ | ⟨⟨y, d⟩, hy, hyx⟩)
          · exact ⟨List.prefix_refl _, hs, hc⟩
          · obtain ⟨n, hg, hpre, hne, hint, rfl⟩ := (mem_userNodesFrom hi.keys).mp hy
            have hyint : isInternal y = false := by
              obtain ⟨c, rfl⟩ := hpre
              rw [isInternal_append, hs]; simpa using hint
            simp only at hyx
            by_cases hc : (openHandle s y (kindOf n)).contains s.c name ver = true
            · rw [if_pos hc] at hyx
              cases hyx
              exact ⟨hpre, hyint, (hcont _ _ hyint (nodeKind_eq_kindOf hg)).mp hc⟩
            · rw [if_neg hc] at hyx; cases hyx
        · rintro ⟨hpre, hxi, hc⟩
          by_cases hxs : x = start
          · subst hxs; exact Or.inl ⟨rfl, hc⟩
          · right
            obtain ⟨d, q, u, hd, hg, ha⟩ := hc
            obtain ⟨n, hn'⟩ : ∃ n, get? s.raw x = some n := by
              cases hx : get? s.raw x with
              | none => simp [nodeKind, hx] at hd
              | some n => exact ⟨n, rfl⟩
            have hd' : d = kindOf n := by
              have := nodeKind_eq_kindOf hn'
              rw [hd] at this; exact Option.some.inj this
            subst hd'
            refine ⟨(x, kindOf n), (mem_userNodesFrom hi.keys).mpr ⟨n, hn', hpre, hxs, isInternal_drop hpre hxi, rfl⟩, ?_⟩
            simp only
            rw [if_pos ((hcont x _ hxi hd).mpr ⟨_, q, u, hd, hg, ha⟩)]

/-! ### a stored object stays until it is deleted (metadata operations on the handle) -/

/-- one `set` / `del` / `get` on a handle leaves every object of the directory in place, with its
bytes, unless it is the `del` of that object's schema name -/
theorem metaStep_keeps {e : Env} (he : WFEnv e) {s : St} (hi : Inv e s) {h : Handle} (hh : HOK s h) (o : MetaOp)
    {q : SRef} {u : Nat} {tok : String}
    (hobj : get? s.raw (h.baseDir ++ [.obj q u]) = some (.ds (.data tok)))
    (hnd : ∀ n, o = .del n → n ≠ q.name) :
    (metaStep e h o s).1.2.baseDir = h.baseDir ∧
    get? (metaStep e h o s).2.raw (h.baseDir ++ [.obj q u]) = some (.ds (.data tok)) := by
  have hgr : ∀ name, h.getRaw name none = alGet h.objs name := by
    intro name; unfold Handle.getRaw; cases alGet h.objs name <;> rfl
  obtain ⟨b, m, hb, hbase, -, -⟩ := hh.base
  have hpath : h.baseDir ++ [.obj q u] = b ++ [.metaDir m, .obj q u] := by rw [hbase]; simp
  have hobjAt : ObjAt s.raw (h.baseDir ++ [.obj q u]) q u := ⟨b, m, hb, hpath, by rw [hobj]; simp⟩
  cases o with
  | set name ver valid tok' =>
    cases hg : alGet h.objs name with
    | some st =>
      have : metaStep e h (.set name ver valid tok') s = ((.raised .value, h), s) := by
        simp [metaStep, Handle.set, hgr, hg]
      rw [this]; exact ⟨rfl, hobj⟩
    | none =>
      cases hreq : e.requireSchema name ver with
      | error err =>
        have : metaStep e h (.set name ver valid tok') s = ((.raised err, h), s) := by
          simp [metaStep, Handle.set, hgr, hg, hreq]
        rw [this]; exact ⟨rfl, hobj⟩
      | ok info =>
        obtain ⟨hinfo, hname, -⟩ := requireSchema_ok hreq
        cases valid with
        | false =>
          have : metaStep e h (.set name ver false tok') s = ((.raised .validation, h), s) := by
            simp [metaStep, Handle.set, hgr, hg, hreq]
          rw [this]; exact ⟨rfl, hobj⟩
        | true =>
          obtain ⟨s', h', hrun, -, -, hbase', -, hframe⟩ :=
            setRaw_spec he hi hh hinfo tok' (by rw [hname]; exact hg) s.next rfl
          have : metaStep e h (.set name ver true tok') s = ((.done, h'), s') := by
            simp [metaStep, Handle.set, hgr, hg, hreq, hrun]
          rw [this]
          refine ⟨hbase', ?_⟩
          rw [hframe _ (by rw [hpath]; exact objPath_head hb) (by
              intro h'; have := congrArg List.length h'; simp at this) (by
              intro h'
              have := (List.append_inj' h' rfl).2
              simp at this
              exact absurd (hi.mok.bound _ q u hobjAt) (by rw [this.2]; exact lt_irrefl _))]
          exact hobj
  | del name =>
    cases hg : alGet h.objs name with
    | none =>
      have : metaStep e h (.del name) s = ((.raised .key, h), s) := by
        simp [metaStep, Handle.del, hgr, hg]
      rw [this]; exact ⟨rfl, hobj⟩
    | some st =>
      obtain ⟨s', h', hrun, -, -, hbase', -, -, hobjs', hmono⟩ := delRaw_spec he hi hh hg
      have : metaStep e h (.del name) s = ((.done, h'), s') := by
        simp [metaStep, Handle.del, hgr, hg, hrun]
      rw [this]
      refine ⟨hbase', ?_⟩
      obtain ⟨r', u', hn', rfl, -⟩ := (hh.objs name st).mp hg
      have hne : h.baseDir ++ [Key.obj q u] ≠ h.baseDir ++ [Key.obj r' u'] := by
        intro h'
        have := (List.append_inj' h' rfl).2
        simp at this
        exact hnd name rfl (by rw [← hn', this.1])
      have hstill : ObjAt s'.raw (h.baseDir ++ [.obj q u]) q u := (hobjs' _ _ _).mpr ⟨hobjAt, hne⟩
      obtain ⟨_, _, _, _, hg'⟩ := hstill
      rcases hmono (h.baseDir ++ [.obj q u]) (by rw [hpath]; exact objPath_head hb) with h0 | h0
      · exact absurd h0 hg'
      · rw [h0]; exact hobj
  | get name ver =>
    simp only [metaStep]
    cases h.get e s name ver <;> exact ⟨rfl, hobj⟩

/-- … and so does any sequence of operations on the kept handle that does not delete it -/
theorem metaSeq_keeps {e : Env} (he : WFEnv e) : ∀ (ops : List MetaOp) {s : St} {h : Handle},
    Inv e s → HOK s h → ∀ {q : SRef} {u : Nat} {tok : String},
    get? s.raw (h.baseDir ++ [.obj q u]) = some (.ds (.data tok)) →
    (∀ n, MetaOp.del n ∈ ops → n ≠ q.name) →
    get? (metaSeqTrace e h ops s).2.raw (h.baseDir ++ [.obj q u]) = some (.ds (.data tok))
  | [], s, h, _, _, q, u, tok, hobj, _ => by simpa [metaSeqTrace] using hobj
  | o :: ops, s, h, hi, hh, q, u, tok, hobj, hnd => by
    obtain ⟨hi1, hh1⟩ := metaStep_inv he hi hh o
    obtain ⟨hb1, hobj1⟩ := metaStep_keeps he hi hh o hobj (fun n hn => hnd n (by simp [hn]))
    simp only [metaSeqTrace]
    have := metaSeq_keeps he ops hi1 hh1 (q := q) (u := u) (tok := tok) (by rw [hb1]; exact hobj1)
      (fun n hn => hnd n (List.mem_cons_of_mem _ hn))
    rw [hb1] at this; exact this

end MetadorModel.Container
