import MetadorModel.Proofs.PartialAssoc
/-! Helper lemmas for C14, part 3: no provided leaf is dropped by a merge. -/
namespace MetadorModel.Partial
open MetadorModel

def valAtO : Option PVal → List String → Option PVal
  | none, _ => none
  | some v, p => valAt v p

def wfOpt : Option PVal → Prop
  | none => True
  | some v => v.wf = true

/-- the field `k` of a (possibly missing, possibly non-model) value -/
def childO : Option PVal → String → Option PVal
  | some (.obj _ fs), k => AL.get fs k
  | _, _ => none

theorem valAtO_nil (x : Option PVal) : valAtO x [] = x := by
  cases x <;> simp [valAtO, valAt]

theorem valAtO_cons (x : Option PVal) (k : String) (p : List String) :
    valAtO x (k :: p) = valAtO (childO x k) p := by
  cases x with
  | none => rfl
  | some v =>
    cases v with
    | obj c fs =>
      simp only [valAtO, childO, valAt]
      cases AL.get fs k <;> rfl
    | atom a => simp [valAtO, childO, valAt]
    | list xs => simp [valAtO, childO, valAt]
    | set xs => simp [valAtO, childO, valAt]

theorem wfOpt_child {x : Option PVal} (h : wfOpt x) (k : String) : wfOpt (childO x k) := by
  cases x with
  | none => trivial
  | some v =>
    cases v with
    | obj c fs =>
      simp only [childO]
      cases hg : AL.get fs k with
      | none => trivial
      | some u => exact wfF_get ((wf_obj c fs).mp h).2 hg
    | atom a => trivial
    | list xs => trivial
    | set xs => trivial

/-- the provided leaf `v` is still there in `w`: the same atom; a list that contains the list
as a contiguous block; a set that contains every element -/
def Keeps : PVal → PVal → Prop
  | .atom a, w => w = .atom a
  | .list xs, w => ∃ pre post, w = .list (pre ++ xs ++ post)
  | .set xs, w => ∃ ws, w = .set ws ∧ ∀ x ∈ xs, x ∈ ws
  | .obj _ _, _ => True

theorem Keeps_refl (v : PVal) : Keeps v v := by
  cases v with
  | atom a => rfl
  | list xs => exact ⟨[], [], by simp⟩
  | set xs => exact ⟨xs, rfl, fun _ h => h⟩
  | obj c fs => trivial

theorem mem_unionA (xs ys : List Atom) (a : Atom) : a ∈ unionA xs ys ↔ a ∈ xs ∨ a ∈ ys := by
  simp only [unionA, List.mem_append, List.mem_filter, List.contains_eq_mem, Bool.not_eq_true',
    decide_eq_false_iff_not]
  constructor
  · rintro (h | ⟨h, _⟩)
    · exact Or.inl h
    · exact Or.inr h
  · rintro (h | h)
    · exact Or.inl h
    · by_cases hx : a ∈ xs
      · exact Or.inl hx
      · exact Or.inr ⟨h, hx⟩

/-- the new value survives a successful update -/
theorem merge_keeps_new {ow : Bool} {o v m : PVal} (hv : v.isObj = false) (h : merge ow o v = .ok m) :
    Keeps v m := by
  cases v with
  | obj c fs => simp [PVal.isObj] at hv
  | atom b =>
    cases o <;> cases ow <;> simp [merge, asOpaque] at h <;> subst h <;> rfl
  | list ys =>
    cases o with
    | list xs => simp [merge] at h; subst h; exact ⟨xs, [], by simp⟩
    | set xs => simp [merge] at h
    | atom a => cases ow <;> simp [merge, asOpaque] at h; subst h; exact Keeps_refl _
    | obj c fs => cases ow <;> simp [merge, asOpaque] at h; subst h; exact Keeps_refl _
  | set ys =>
    cases o with
    | set xs =>
      simp [merge] at h; subst h
      exact ⟨_, rfl, fun x hx => (mem_unionA xs ys x).mpr (Or.inr hx)⟩
    | list xs => simp [merge] at h
    | atom a => cases ow <;> simp [merge, asOpaque] at h; subst h; exact Keeps_refl _
    | obj c fs => cases ow <;> simp [merge, asOpaque] at h; subst h; exact Keeps_refl _

/-- the old value survives a successful update, or (only with overwrite) the result is the new value -/
theorem merge_keeps_old {ow : Bool} {v n m : PVal} (hv : v.isObj = false) (h : merge ow v n = .ok m) :
    Keeps v m ∨ (ow = true ∧ m = n) := by
  cases v with
  | obj c fs => simp [PVal.isObj] at hv
  | atom a =>
    right
    cases n <;> cases ow <;> simp [merge, asOpaque] at h <;> exact ⟨rfl, h.symm⟩
  | list xs =>
    cases n with
    | list ys => simp [merge] at h; subst h; exact Or.inl ⟨[], ys, by simp⟩
    | atom b => simp [merge] at h
    | set ys => simp [merge] at h
    | obj c fs => simp [merge] at h
  | set xs =>
    cases n with
    | set ys =>
      simp [merge] at h; subst h
      exact Or.inl ⟨_, rfl, fun x hx => (mem_unionA xs ys x).mpr (Or.inl hx)⟩
    | atom b => simp [merge] at h
    | list ys => simp [merge] at h
    | obj c fs => simp [merge] at h

theorem updO_ok_cases {ow : Bool} {x y z : Option PVal} (h : updO ow x y = .ok z) :
    (x = none ∧ z = y) ∨ (y = none ∧ z = x) ∨ ∃ o n m, x = some o ∧ y = some n ∧ z = some m ∧ merge ow o n = .ok m := by
  cases x with
  | none => simp at h; exact Or.inl ⟨rfl, h.symm⟩
  | some o =>
    cases y with
    | none => simp at h; exact Or.inr (Or.inl ⟨rfl, h.symm⟩)
    | some n =>
      rw [updO_some] at h
      cases hm : merge ow o n with
      | error e => rw [hm] at h; cases h
      | ok m => rw [hm] at h; cases h; exact Or.inr (Or.inr ⟨o, n, m, rfl, rfl, rfl, hm⟩)

/-- what a successful update of a model value by a model value looks like, one level down -/
theorem merge_obj_ok {ow : Bool} {c1 c2 : Cls} {f1 f2 : Fields} {m : PVal}
    (w1 : (PVal.obj c1 f1).wf = true) (w2 : (PVal.obj c2 f2).wf = true)
    (h : merge ow (.obj c1 f1) (.obj c2 f2) = .ok m) :
    (∃ r, m = .obj c1 r ∧ AL.sorted r = true ∧ ∀ k, updO ow (AL.get f1 k) (AL.get f2 k) = .ok (AL.get r k)) ∨
    (ow = true ∧ m = .obj c2 f2) := by
  rw [merge_obj_obj] at h
  split_ifs at h with hr
  · left
    cases hm : mergeFields ow f1 f2 with
    | error e => rw [hm] at h; simp [mapObj] at h
    | ok r =>
      rw [hm] at h
      simp only [mapObj] at h
      cases h
      obtain ⟨hs, hp⟩ := mergeFields_ok ((wf_obj c2 f2).mp w2).1 ((wf_obj c1 f1).mp w1).1 hm
      exact ⟨r, rfl, hs, hp⟩
  · right
    cases ow <;> simp [asOpaque] at h
    exact ⟨rfl, h.symm⟩

/-- no provided leaf is dropped: a leaf of the later operand `y` is kept in the result; a leaf of
the earlier operand `x` is kept, or — only with overwrite — the later operand's value `n` sits in
the result at that path or above it (it replaced what `x` had there) -/
theorem keep (p : List String) : ∀ (ow : Bool) (x y z : Option PVal), wfOpt x → wfOpt y →
    updO ow x y = .ok z → ∀ v, v.isObj = false →
    (valAtO y p = some v → ∃ w, valAtO z p = some w ∧ Keeps v w) ∧
    (valAtO x p = some v → (∃ w, valAtO z p = some w ∧ Keeps v w) ∨
      (ow = true ∧ ∃ q n, q <+: p ∧ valAtO y q = some n ∧ valAtO z q = some n)) := by
  induction p with
  | nil =>
    intro ow x y z _ _ h v hv
    simp only [valAtO_nil]
    rcases updO_ok_cases h with ⟨rfl, rfl⟩ | ⟨rfl, rfl⟩ | ⟨o, n, m, rfl, rfl, rfl, hm⟩
    · exact ⟨fun h => ⟨v, h, Keeps_refl v⟩, fun h => by cases h⟩
    · exact ⟨fun h => (by cases h), fun h => Or.inl ⟨v, h, Keeps_refl v⟩⟩
    · constructor
      · intro h; cases h
        exact ⟨m, rfl, merge_keeps_new hv hm⟩
      · intro h; cases h
        rcases merge_keeps_old hv hm with hk | ⟨how, rfl⟩
        · exact Or.inl ⟨m, rfl, hk⟩
        · exact Or.inr ⟨how, [], m, List.prefix_refl _, by simp [valAtO_nil], by simp [valAtO_nil]⟩
  | cons k rest ih =>
    intro ow x y z wx wy h v hv
    rcases updO_ok_cases h with ⟨rfl, rfl⟩ | ⟨rfl, rfl⟩ | ⟨o, n, m, rfl, rfl, rfl, hm⟩
    · exact ⟨fun h => ⟨v, h, Keeps_refl v⟩, fun h => by simp [valAtO] at h⟩
    · exact ⟨fun h => (by simp [valAtO] at h), fun h => Or.inl ⟨v, h, Keeps_refl v⟩⟩
    · -- both provided
      have whole_new : m = n → (valAtO (some n) (k :: rest) = some v →
          ∃ w, valAtO (some m) (k :: rest) = some w ∧ Keeps v w) := by
        intro e h; subst e; exact ⟨v, h, Keeps_refl v⟩
      have replaced : ow = true → m = n → (ow = true ∧ ∃ q n', q <+: k :: rest ∧
          valAtO (some n) q = some n' ∧ valAtO (some m) q = some n') := by
        intro how e; subst e
        exact ⟨how, [], m, List.nil_prefix, by simp [valAtO_nil], by simp [valAtO_nil]⟩
      cases n with
      | atom b =>
        refine ⟨fun h => (by simp [valAtO, valAt] at h), fun hx => ?_⟩
        cases o with
        | obj c1 f1 =>
          cases ow <;> simp [merge, asOpaque] at hm
          exact Or.inr (replaced rfl hm.symm)
        | atom a => simp [valAtO, valAt] at hx
        | list xs => simp [valAtO, valAt] at hx
        | set xs => simp [valAtO, valAt] at hx
      | list ys =>
        refine ⟨fun h => (by simp [valAtO, valAt] at h), fun hx => ?_⟩
        cases o with
        | obj c1 f1 =>
          cases ow <;> simp [merge, asOpaque] at hm
          exact Or.inr (replaced rfl hm.symm)
        | atom a => simp [valAtO, valAt] at hx
        | list xs => simp [valAtO, valAt] at hx
        | set xs => simp [valAtO, valAt] at hx
      | set ys =>
        refine ⟨fun h => (by simp [valAtO, valAt] at h), fun hx => ?_⟩
        cases o with
        | obj c1 f1 =>
          cases ow <;> simp [merge, asOpaque] at hm
          exact Or.inr (replaced rfl hm.symm)
        | atom a => simp [valAtO, valAt] at hx
        | list xs => simp [valAtO, valAt] at hx
        | set xs => simp [valAtO, valAt] at hx
      | obj c2 f2 =>
        cases o with
        | atom a =>
          have : ow = true ∧ m = .obj c2 f2 := by
            cases ow <;> simp [merge, asOpaque] at hm
            exact ⟨rfl, hm.symm⟩
          exact ⟨whole_new this.2, fun hx => by simp [valAtO, valAt] at hx⟩
        | list xs => simp [merge] at hm
        | set xs => simp [merge] at hm
        | obj c1 f1 =>
          rcases merge_obj_ok wx wy hm with ⟨r, rfl, _, hp⟩ | ⟨how, e⟩
          · have := ih ow (AL.get f1 k) (AL.get f2 k) (AL.get r k)
              (wfOpt_child (x := some (.obj c1 f1)) wx k) (wfOpt_child (x := some (.obj c2 f2)) wy k) (hp k) v hv
            simp only [valAtO_cons, childO]
            refine ⟨this.1, fun hx => ?_⟩
            rcases this.2 hx with h1 | ⟨how, q, n', hq, h2, h3⟩
            · exact Or.inl h1
            · refine Or.inr ⟨how, k :: q, n', List.cons_prefix_cons.mpr ⟨rfl, hq⟩, ?_, ?_⟩
              · rw [valAtO_cons]; exact h2
              · rw [valAtO_cons]; exact h3
          · exact ⟨whole_new e, fun _ => Or.inr (replaced how e)⟩
