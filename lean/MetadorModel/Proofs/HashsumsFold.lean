import MetadorModel.Proofs.HashsumsDict
import Mathlib.Data.List.Perm.Basic
/-!
Helper lemmas for `Model/Hashsums.lean`, part 2: the sequence of dict-building tails
(`putAll`) is invariant under permutation of compatible items; what a reader finds in the
result (`putAll_spec`).
-/
namespace MetadorModel.Hashsums
open MetadorModel.Bytes

/-- the dict-building tails of all entries, one after the other -/
def putAll : HT → List Item → Except Err HT
  | t, [] => .ok t
  | t, i :: r => bindE (put t i.1 i.2) (fun t' => putAll t' r)

theorem bindE_assoc (x : Except Err HT) (f g : HT → Except Err HT) :
    bindE (bindE x f) g = bindE x (fun t => bindE (f t) g) := by
  cases x <;> rfl

theorem bindE_congr (x : Except Err HT) (f g : HT → Except Err HT) (h : ∀ t, f t = g t) :
    bindE x f = bindE x g := by
  cases x with
  | error e => rfl
  | ok t => exact h t


theorem putAll_perm {l₁ l₂ : List Item} (hp : l₁.Perm l₂) :
    l₁.Pairwise Compat → ∀ t, putAll t l₁ = putAll t l₂ := by
  induction hp with
  | nil => intro _ t; rfl
  | cons x _ ih =>
    intro hw t
    simp only [putAll]
    exact bindE_congr _ _ _ (fun t' => ih (List.pairwise_cons.mp hw).2 t')
  | swap x y l =>
    intro hw t
    have hxy : Compat y x := by
      have := (List.pairwise_cons.mp hw).1 x (by simp)
      exact this
    simp only [putAll]
    rw [← bindE_assoc, ← bindE_assoc, put_comm y.1 y.2 x.1 x.2 hxy t]
  | trans h₁ _ ih₁ ih₂ =>
    intro hw t
    rw [ih₁ hw t, ih₂ ((h₁.pairwise_iff (fun {_ _} h => Compat.symm h)).mp hw) t]

theorem putAll_append (l : List Item) (i : Item) : ∀ t,
    putAll t (l ++ [i]) = bindE (putAll t l) (fun t' => put t' i.1 i.2) := by
  induction l with
  | nil =>
    intro t
    simp only [List.nil_append, putAll, bindE]
    cases put t i.1 i.2 <;> rfl
  | cons j r ih =>
    intro t
    simp only [List.cons_append, putAll]
    rw [bindE_assoc]
    exact bindE_congr _ _ _ (fun t' => ih t')

/-! ### what is stored where after one `put` -/

@[simp] theorem obsAt_nil_node (d : List (Name × HT)) : (HT.node d).obsAt [] = some .dict := rfl
@[simp] theorem obsAt_nil_leaf (x : Str) : (HT.leaf x).obsAt [] = some (.str x) := rfl
@[simp] theorem obsAt_cons_leaf (x : Str) (s : Name) (r : Path) : (HT.leaf x).obsAt (s :: r) = none := rfl

theorem obsAt_cons_node (d : List (Name × HT)) (s : Name) (r : Path) :
    (HT.node d).obsAt (s :: r) = match dget s d with
      | none => none
      | some c => c.obsAt r := by
  simp only [HT.obsAt, HT.get]
  cases dget s d <;> rfl

/-- the observation at `p` after `put _ segs lf`, given the observation before -/
def afterPut (old : Option Obs) (segs : List Name) (lf : Option (Name × Str)) (p : Path) :
    Option Obs :=
  if p <+: segs then some .dict
  else match lf with
    | none => old
    | some (k, v) =>
      if p = segs ++ [k] then some (.str v)
      else if (segs ++ [k]) <+: p then none else old

theorem put_obs : ∀ (segs : List Name) (t : HT) (lf : Option (Name × Str)),
    (∀ q x, q <+: segs → t.obsAt q ≠ some (.str x)) →
    ∃ t', put t segs lf = .ok t' ∧ ∀ p, t'.obsAt p = afterPut (t.obsAt p) segs lf p
  | [], .leaf x, lf, h => absurd rfl (h [] x (List.prefix_refl _))
  | [], .node d, none, _ => by
    refine ⟨.node d, rfl, ?_⟩
    intro p
    cases p with
    | nil => simp [afterPut]
    | cons a r => simp [afterPut]
  | [], .node d, some (k, v), _ => by
    refine ⟨.node (dset k (.leaf v) d), rfl, ?_⟩
    intro p
    cases p with
    | nil => simp [afterPut]
    | cons a r =>
      by_cases ha : a = k
      · subst ha
        rw [obsAt_cons_node, dget_dset_same]
        cases r with
        | nil => simp [afterPut]
        | cons b r' => simp [afterPut, List.cons_prefix_cons]
      · rw [obsAt_cons_node, dget_dset_ne k a _ (Ne.symm ha), ← obsAt_cons_node]
        simp [afterPut, ha, List.cons_prefix_cons, Ne.symm ha]
  | s :: rest, .leaf x, lf, h => absurd rfl (h [] x List.nil_prefix)
  | s :: rest, .node d, lf, h => by
    have hc : ∀ q x, q <+: rest → ((dget s d).getD (.node [])).obsAt q ≠ some (.str x) := by
      intro q x hq
      cases hd : dget s d with
      | none =>
        simp only [Option.getD_none]
        cases q <;> simp [obsAt_cons_node, dget]
      | some c =>
        simp only [Option.getD_some]
        have := h (s :: q) x (by simp [List.cons_prefix_cons, hq])
        rw [obsAt_cons_node, hd] at this
        exact this
    obtain ⟨c', hput, hobs⟩ := put_obs rest ((dget s d).getD (.node [])) lf hc
    refine ⟨.node (dset s c' d), by rw [put_cons_node, hput]; rfl, ?_⟩
    intro p
    cases p with
    | nil => simp [afterPut]
    | cons a r =>
      by_cases ha : a = s
      · subst ha
        rw [obsAt_cons_node, dget_dset_same]
        simp only
        rw [hobs r]
        have hold : ¬ r <+: rest → ((dget a d).getD (.node [])).obsAt r = (HT.node d).obsAt (a :: r) := by
          intro hr
          rw [obsAt_cons_node]
          cases hd : dget a d with
          | none =>
            cases r with
            | nil => exact absurd List.nil_prefix hr
            | cons b r' => simp [obsAt_cons_node, dget]
          | some c => simp
        unfold afterPut
        simp only [List.cons_prefix_cons, true_and, List.cons_append, List.cons.injEq]
        split_ifs with h1
        · rfl
        · rw [hold h1]
      · rw [obsAt_cons_node, dget_dset_ne s a _ (Ne.symm ha), ← obsAt_cons_node]
        unfold afterPut
        simp only [List.cons_prefix_cons, ha, false_and, List.cons_append, List.cons.injEq,
          if_false, Ne.symm ha]
        cases lf with
        | none => rfl
        | some kv => simp

theorem prefix_full_iff (i : Item) (p : Path) :
    p <+: i.full ↔ p <+: i.1 ∨ ∃ kv, i.2 = some kv ∧ p = i.1 ++ [kv.1] := by
  obtain ⟨a, la⟩ := i
  cases la with
  | none => simp [Item.full]
  | some kv =>
    simp only [Item.full, Option.some.injEq, exists_eq_left']
    rw [List.prefix_concat_iff]
    tauto

/-- What the result of all `put`s holds, for pairwise compatible items:
the leaf values at the leaf paths, dicts at every prefix of an item's directory path, nothing
anywhere else. -/
structure Spec (is : List Item) (t : HT) : Prop where
  leaf : ∀ i ∈ is, ∀ kv, i.2 = some kv → t.obsAt (i.1 ++ [kv.1]) = some (.str kv.2)
  dir : ∀ i ∈ is, ∀ p, p <+: i.1 → t.obsAt p = some .dict
  none : ∀ p, (∀ i ∈ is, ¬ p <+: i.full) → p ≠ [] → t.obsAt p = none
  root : t.obsAt [] = some .dict

theorem putAll_spec (is : List Item) : is.Pairwise Compat →
    ∃ t, putAll (.node []) is = .ok t ∧ Spec is t := by
  induction is using List.reverseRecOn with
  | nil =>
    intro _
    refine ⟨.node [], rfl, ⟨by simp, by simp, ?_, rfl⟩⟩
    intro p _ hp
    cases p with
    | nil => exact absurd rfl hp
    | cons a r => simp [obsAt_cons_node, dget]
  | append_singleton l i ih =>
    intro hw
    rw [List.pairwise_append] at hw
    obtain ⟨hl, _, hli⟩ := hw
    obtain ⟨t, ht, sp⟩ := ih hl
    have hli' : ∀ j ∈ l, Compat j i := fun j hj => hli j hj i (by simp)
    -- no leaf of t lies on the directory path of i
    have hfree : ∀ q x, q <+: i.1 → t.obsAt q ≠ some (.str x) := by
      intro q x hq hx
      by_cases hex : ∃ j ∈ l, q <+: j.full
      · obtain ⟨j, hj, hqj⟩ := hex
        rcases (prefix_full_iff j q).mp hqj with h1 | ⟨kv, hkv, h1⟩
        · rw [sp.dir j hj q h1] at hx; cases hx
        · refine (hli' j hj).1 kv hkv ?_
          rw [← h1]
          exact hq.trans (by
            rw [prefix_full_iff]; exact Or.inl (List.prefix_refl _))
      · have hq0 : q ≠ [] := by
          intro e; subst e; rw [sp.root] at hx; cases hx
        rw [sp.none q (by
          intro j hj hqj; exact hex ⟨j, hj, hqj⟩) hq0] at hx
        cases hx
    obtain ⟨t', hput, hobs⟩ := put_obs i.1 t i.2 hfree
    refine ⟨t', by rw [putAll_append, ht]; exact hput, ?_⟩
    constructor
    · -- leaf values
      intro j hj kv hkv
      rw [hobs]
      rcases List.mem_append.mp hj with hj | hj
      · have hc := hli' j hj
        have h1 : ¬ (j.1 ++ [kv.1]) <+: i.1 := by
          intro h
          exact hc.1 kv hkv (h.trans (by rw [prefix_full_iff]; exact Or.inl (List.prefix_refl _)))
        unfold afterPut
        rw [if_neg h1]
        cases hi : i.2 with
        | none => exact sp.leaf j hj kv hkv
        | some kv' =>
          obtain ⟨k', v'⟩ := kv'
          simp only
          have h2 : j.1 ++ [kv.1] ≠ i.1 ++ [k'] := by
            intro h
            refine hc.1 kv hkv ?_
            rw [h, prefix_full_iff]
            exact Or.inr ⟨(k', v'), hi, rfl⟩
          have h3 : ¬ (i.1 ++ [k']) <+: (j.1 ++ [kv.1]) := by
            intro h
            refine hc.2 (k', v') hi ?_
            rw [prefix_full_iff] at *
            exact h.trans (by
              show j.1 ++ [kv.1] <+: j.full
              rw [prefix_full_iff]; exact Or.inr ⟨kv, hkv, rfl⟩) |> (prefix_full_iff j _).mp
          rw [if_neg h2, if_neg h3]
          exact sp.leaf j hj kv hkv
      · simp only [List.mem_singleton] at hj
        subst hj
        unfold afterPut
        have h1 : ¬ (j.1 ++ [kv.1]) <+: j.1 := by
          intro h
          have := h.length_le
          simp at this
          omega
        rw [if_neg h1, hkv]
        obtain ⟨k, v⟩ := kv
        simp
    · -- dicts
      intro j hj p hp
      rw [hobs]
      unfold afterPut
      by_cases h1 : p <+: i.1
      · rw [if_pos h1]
      · rw [if_neg h1]
        rcases List.mem_append.mp hj with hj | hj
        · have hc := hli' j hj
          cases hi : i.2 with
          | none => exact sp.dir j hj p hp
          | some kv' =>
            obtain ⟨k', v'⟩ := kv'
            simp only
            have hpj : p <+: j.full := (prefix_full_iff j p).mpr (Or.inl hp)
            have h2 : p ≠ i.1 ++ [k'] := by
              intro h
              exact hc.2 (k', v') hi (by rw [← h]; exact hpj)
            have h3 : ¬ (i.1 ++ [k']) <+: p := by
              intro h
              exact hc.2 (k', v') hi (h.trans hpj)
            rw [if_neg h2, if_neg h3]
            exact sp.dir j hj p hp
        · simp only [List.mem_singleton] at hj
          subst hj
          exact absurd hp h1
    · -- nothing elsewhere
      intro p hp hp0
      rw [hobs]
      unfold afterPut
      have hpi : ¬ p <+: i.full := hp i (by simp)
      have h1 : ¬ p <+: i.1 := fun h => hpi ((prefix_full_iff i p).mpr (Or.inl h))
      rw [if_neg h1]
      have hold : t.obsAt p = none := sp.none p (fun j hj => hp j (by simp [hj])) hp0
      cases hi : i.2 with
      | none => exact hold
      | some kv' =>
        obtain ⟨k', v'⟩ := kv'
        simp only
        have h2 : p ≠ i.1 ++ [k'] := by
          intro h
          exact hpi ((prefix_full_iff i p).mpr (Or.inr ⟨(k', v'), hi, h⟩))
        rw [if_neg h2]
        split_ifs
        · rfl
        · exact hold
    · rw [hobs]
      unfold afterPut
      rw [if_pos List.nil_prefix]

end MetadorModel.Hashsums
