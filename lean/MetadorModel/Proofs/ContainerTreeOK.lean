import MetadorModel.Proofs.ContainerInit
/-!
# The invariant split into a tree part and a TOC part (relative to an arbitrary link relation)

`copy` and `move` pass through states in which the TOC does not yet describe the attached
objects (unlinked copies, links with stale targets). `TreeOKx` is the part of `Inv` that only talks
about user nodes and metadata directories; `TocOK` is the part about `/metador_container` and the
caches, relative to a relation `L` ("the TOC links uuid `u` of schema `r` to path `p`").
-/
namespace MetadorModel.Container

/-- tree part of the invariant; directories in `ex` are exempt from "the owning dataset exists" -/
structure TreeOKx (e : Env) (t : Tree) (ex : Path → Prop) : Prop where
  keys : KeysOK t
  pclosed : PClosed t
  ushape : ∀ q n, q ≠ [] → q.head? ≠ some .toc → get? t q = some n → UShape q n
  host_ds : ∀ base m, isInternal base = false → get? t (base ++ [.metaDir m]) ≠ none →
    ¬ ex (base ++ [.metaDir m]) → (m = "" ∨ ∃ v, get? t (base ++ [.user m]) = some (.ds v))
  host_obj : ∀ base m, isInternal base = false → get? t (base ++ [.metaDir m]) ≠ none →
    ∃ r u, get? t (base ++ [.metaDir m, .obj r u]) ≠ none
  objenv : ∀ p r u, ObjAt t p r u → ∃ i, e.info r = some i
  onename : ∀ base m r u r' u', isInternal base = false →
    get? t (base ++ [.metaDir m, .obj r u]) ≠ none → get? t (base ++ [.metaDir m, .obj r' u']) ≠ none →
    r.name = r'.name → r = r' ∧ u = u'

abbrev TreeOK (e : Env) (t : Tree) : Prop := TreeOKx e t (fun _ => False)

/-- TOC part of the invariant relative to the link relation `L` -/
structure TocOK (e : Env) (s : St) (L : Path → SRef → Nat → Prop) : Prop where
  toc : TocRaw e L (fun r => ∃ p u, L p r u) s.raw
  scache : SchemaCache e (fun r => ∃ p u, L p r u) s.c
  lcache : LinkCache L s.c
  luniq : LUniq L

theorem Inv.treeOK {e : Env} {s : St} (hi : Inv e s) : TreeOK e s.raw :=
  ⟨hi.keys, hi.pclosed, hi.mok.ushape, fun b m hb hg _ => (hi.mok.host b m hb hg).1,
    fun b m hb hg => (hi.mok.host b m hb hg).2, hi.mok.objenv, hi.mok.onename⟩

theorem Inv.tocOK {e : Env} {s : St} (hi : Inv e s) : TocOK e s (ObjAt s.raw) :=
  ⟨hi.toc, hi.scache, hi.lcache, fun p p' r r' u => hi.mok.uniq p p' r r' u⟩

theorem inv_of_parts {e : Env} {s : St} (ht : TreeOK e s.raw) (hc : TocOK e s (ObjAt s.raw))
    (hb : ∀ p r u, ObjAt s.raw p r u → u < s.next) : Inv e s :=
  ⟨ht.keys, ht.pclosed, ⟨ht.ushape, fun b m hb' hg => ⟨ht.host_ds b m hb' hg (fun h => h), ht.host_obj b m hb' hg⟩,
    ht.objenv, ht.onename, hc.luniq, hb⟩, hc.toc, hc.scache, hc.lcache⟩

theorem TocOK.congr {e : Env} {s : St} {L L' : Path → SRef → Nat → Prop} (h : TocOK e s L)
    (hL : ∀ p r u, L' p r u ↔ L p r u) : TocOK e s L' := by
  have : L' = L := by funext p r u; exact propext (hL p r u)
  rw [this]; exact h

theorem TreeOKx.weaken {e : Env} {t : Tree} {ex ex' : Path → Prop} (h : TreeOKx e t ex)
    (hx : ∀ base m, isInternal base = false → get? t (base ++ [.metaDir m]) ≠ none →
      ex (base ++ [.metaDir m]) → ex' (base ++ [.metaDir m])) : TreeOKx e t ex' :=
  ⟨h.keys, h.pclosed, h.ushape, fun b m hb hg hne => h.host_ds b m hb hg (fun hx' => hne (hx b m hb hg hx')),
    h.host_obj, h.objenv, h.onename⟩


/-! ### handles only depend on the tree part -/

theorem loadObjs_spec' {e : Env} {s : St} {ex : Path → Prop} (ht : TreeOKx e s.raw ex) (b : Path) (m : String)
    (hb : isInternal b = false) (name : String) (st : Stored) :
    alGet ((children s.raw (b ++ [.metaDir m])).foldl (loadStep (b ++ [.metaDir m])) []) name = some st ↔
      ∃ r u, r.name = name ∧ st = ⟨u, r, (b ++ [.metaDir m]) ++ [.obj r u]⟩ ∧
        get? s.raw ((b ++ [.metaDir m]) ++ [.obj r u]) ≠ none := by
  have hnd : NamesDistinct (children s.raw (b ++ [.metaDir m])) := by
    refine List.Nodup.pairwise_of_forall_ne (children_nodup ht.keys _) ?_
    rintro ⟨k, n⟩ h1 ⟨k', n'⟩ h2 hne r u r' u' hk hk' hname
    simp only at hk hk'
    subst hk; subst hk'
    have g1 := (mem_children ht.keys).mp h1
    have g2 := (mem_children ht.keys).mp h2
    obtain ⟨rfl, rfl⟩ := ht.onename b m r u r' u' hb
      (by simpa using (by rw [g1]; simp : get? s.raw (b ++ [Key.metaDir m] ++ [Key.obj r u]) ≠ none))
      (by simpa using (by rw [g2]; simp : get? s.raw (b ++ [Key.metaDir m] ++ [Key.obj r' u']) ≠ none)) hname
    rw [g1] at g2
    cases g2
    exact hne rfl
  rw [loadStep_fold_get _ _ _ _ _ hnd]
  simp only [alGet_nil]
  constructor
  · rintro (⟨r, u, n, hm, hn, rfl⟩ | ⟨h, -⟩)
    · refine ⟨r, u, hn, rfl, ?_⟩
      rw [(mem_children ht.keys).mp hm]; simp
    · cases h
  · rintro ⟨r, u, hn, rfl, hg⟩
    cases hx : get? s.raw (b ++ [Key.metaDir m] ++ [Key.obj r u]) with
    | none => exact absurd hx hg
    | some n => exact Or.inl ⟨r, u, n, (mem_children ht.keys).mpr hx, hn, rfl⟩

/-- a freshly created handle of an existing user node agrees with the tree -/
theorem openHandle_HOK' {e : Env} {s : St} {ex : Path → Prop} (ht : TreeOKx e s.raw ex) {p : Path} {k : Bool}
    (hp : isInternal p = false) (hk : nodeKind s p = some k) : HOK s (openHandle s p k) := by
  rcases nodeKind_some hk with ⟨rfl, hg⟩ | ⟨rfl, v, hg⟩
  · rw [openHandle_eq, metaBase_grp]
    exact ⟨⟨p, "", hp, rfl, hg, Or.inl rfl⟩, fun name st => loadObjs_spec' ht p "" hp name st,
      loadStep_fold_nodup _ _ _ (by simp [alKeys])⟩
  · have hp0 : p ≠ [] := by rintro rfl; simp at hg
    obtain ⟨b, m, rfl, hb⟩ := user_path_snoc hp0 hp
    rw [openHandle_eq, metaBase_ds]
    have hbg : get? s.raw b = some .grp := ht.pclosed b (.user m) (by rw [hg]; simp)
    exact ⟨⟨b, m, hb, rfl, hbg, Or.inr ⟨v, hg⟩⟩, fun name st => loadObjs_spec' ht b m hb name st,
      loadStep_fold_nodup _ _ _ (by simp [alKeys])⟩

theorem user_internal_false' {e : Env} {t : Tree} {ex : Path → Prop} (ht : TreeOKx e t ex) {b : Path} {m : String}
    {n : Node} (hb : isInternal b = false) (hv : get? t (b ++ [.user m]) = some n) :
    isInternal (b ++ [Key.user m]) = false := by
  have := ht.ushape _ _ (by simp) (by
    cases b with
    | nil => simp
    | cons x b => simpa using isInternal_head_ne_toc hb) hv
  generalize hq : b ++ [Key.user m] = q at this
  cases this with
  | user q n hi' _ => exact hi'
  | metaDir b' m'' _ => have := congrArg List.getLast? hq; simp at this
  | obj b' m'' r' u' tok' _ => have := congrArg List.getLast? hq; simp at this

/-- whatever lives below a metadata directory is a metadata object directly in it -/
theorem below_metaDir' {e : Env} {t : Tree} {ex : Path → Prop} (ht : TreeOKx e t ex) {b : Path} {m : String}
    (hb : isInternal b = false) {k : Key} {rest : Path} (h : get? t (b ++ .metaDir m :: k :: rest) ≠ none) :
    rest = [] ∧ ∃ r u, k = .obj r u := by
  cases hg : get? t (b ++ .metaDir m :: k :: rest) with
  | none => exact absurd hg h
  | some n =>
    have := ht.ushape _ n (by simp) (objPath_head hb) hg
    generalize hq : b ++ Key.metaDir m :: k :: rest = q at this
    cases this with
    | user q n hi _ =>
      rw [← hq, isInternal_append] at hi
      simp [isInternal, Key.internal] at hi
    | metaDir base m' hb' =>
      have h1 : b ++ Key.metaDir m :: (k :: rest) = base ++ Key.metaDir m' :: [] := by simpa using hq
      have := (internal_split_unique b base _ _ _ _ hb hb' rfl rfl h1).2.2
      simp at this
    | obj base m' r u tok hb' =>
      have h1 : b ++ Key.metaDir m :: (k :: rest) = base ++ Key.metaDir m' :: [Key.obj r u] := by simpa using hq
      have := (internal_split_unique b base _ _ _ _ hb hb' rfl rfl h1).2.2
      simp at this
      exact ⟨this.2, r, u, this.1⟩

end MetadorModel.Container
