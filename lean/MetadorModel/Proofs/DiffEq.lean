import MetadorModel.Proofs.Diff
/-! Helper lemmas for C18, part 3: `compare` reports nothing exactly on equal trees. -/
namespace MetadorModel.Diff
open MetadorModel

theorem remSel_nil_iff (p : Path) (es fs : Entries) :
    remSel p es fs = [] ↔ ∀ n, AL.get es n ≠ none → AL.get fs n ≠ none := by
  induction es with
  | nil => simp [remSel]
  | cons a r ih =>
    obtain ⟨k, t⟩ := a
    simp only [remSel]
    cases hg : AL.get fs k with
    | none =>
      simp only [reduceCtorEq, false_iff, not_forall]
      exact ⟨k, by simp [AL.get_cons], by simp [hg]⟩
    | some u =>
      simp only [ih]
      constructor
      · intro h n hn
        by_cases hk : k = n
        · subst hk; simp [hg]
        · rw [AL.get_cons, if_neg hk] at hn; exact h n hn
      · intro h n hn
        by_cases hk : k = n
        · subst hk; simp [hg]
        · apply h n; rw [AL.get_cons, if_neg hk]; exact hn

theorem addSel_nil_iff (p : Path) (fs es : Entries) :
    addSel p fs es = [] ↔ ∀ n, AL.get fs n ≠ none → AL.get es n ≠ none := by
  induction fs with
  | nil => simp [addSel]
  | cons a r ih =>
    obtain ⟨k, t⟩ := a
    simp only [addSel]
    cases hg : AL.get es k with
    | none =>
      simp only [reduceCtorEq, false_iff, not_forall]
      exact ⟨k, by simp [AL.get_cons], by simp [hg]⟩
    | some u =>
      simp only [ih]
      constructor
      · intro h n hn
        by_cases hk : k = n
        · subst hk; simp [hg]
        · rw [AL.get_cons, if_neg hk] at hn; exact h n hn
      · intro h n hn
        by_cases hk : k = n
        · subst hk; simp [hg]
        · apply h n; rw [AL.get_cons, if_neg hk]; exact hn

theorem isEmpty_iff_nil {α : Type} (l : List α) : l.isEmpty = true ↔ l = [] := by
  cases l <;> simp

mutual
theorem cmpT_none : (a : DirTree) → ∀ (p : Path) (b : DirTree), a.wf = true → b.wf = true →
    cmpT p a b = none → a = b
  | .file s, p, .file s', _, _, h => by
    simp only [cmpT] at h
    split_ifs at h with hs
    rw [hs]
  | .file s, p, .dir fs, _, _, h => by simp [cmpT] at h
  | .dir es, p, .file s', _, _, h => by simp [cmpT] at h
  | .dir es, p, .dir fs, ha, hb, h => by
    rw [cmpT_dir_dir] at h
    split_ifs at h with hc
    simp only [Bool.and_eq_true, isEmpty_iff_nil] at hc
    obtain ⟨⟨h1, h2⟩, h3⟩ := hc
    have ha' := (wf_dir es).mp ha
    have hb' := (wf_dir fs).mp hb
    have e1 := (remSel_nil_iff p es fs).mp h1
    have e3 := (addSel_nil_iff p fs es).mp h3
    have e2 := cmpEs_nil es p fs ha'.2 hb'.2 h2
    have : es = fs := by
      apply AL.ext ha'.1 hb'.1
      intro n
      cases hx : AL.get es n with
      | none =>
        cases hy : AL.get fs n with
        | none => rfl
        | some u => exact absurd hx (e3 n (by simp [hy]))
      | some t =>
        cases hy : AL.get fs n with
        | none => exact absurd hy (e1 n (by simp [hx]))
        | some u => rw [e2 n t u hx hy]
    rw [this]
theorem cmpEs_nil : (es : Entries) → ∀ (p : Path) (fs : Entries), wfEs es = true → wfEs fs = true →
    cmpEs p es fs = [] → ∀ n t u, AL.get es n = some t → AL.get fs n = some u → t = u
  | [], p, fs, _, _, _ => by intro n t u h; simp at h
  | (k, t0) :: r, p, fs, hw, hwf, h => by
    rw [cmpEs_cons] at h
    have hw' := (wfEs_cons k t0 r).mp hw
    intro n t u hx hy
    cases hg : AL.get fs k with
    | none =>
      rw [hg] at h
      by_cases hk : k = n
      · subst hk; rw [hg] at hy; cases hy
      · rw [AL.get_cons, if_neg hk] at hx
        exact cmpEs_nil r p fs hw'.2 hwf h n t u hx hy
    | some u0 =>
      rw [hg] at h
      simp only [] at h
      cases hc : cmpT (p ++ [k]) t0 u0 with
      | some d => rw [hc] at h; simp at h
      | none =>
        rw [hc] at h
        by_cases hk : k = n
        · subst hk
          rw [AL.get_cons, if_pos rfl] at hx
          cases hx
          rw [hg] at hy
          cases hy
          exact cmpT_none t0 (p ++ [k]) u hw'.1 (wfEs_get hwf hg) hc
        · rw [AL.get_cons, if_neg hk] at hx
          exact cmpEs_nil r p fs hw'.2 hwf h n t u hx hy
end

mutual
theorem cmpT_self : (a : DirTree) → ∀ (p : Path), a.wf = true → cmpT p a a = none
  | .file s, p, _ => by simp [cmpT]
  | .dir es, p, ha => by
    have ha' := (wf_dir es).mp ha
    rw [cmpT_dir_dir]
    have h1 : remSel p es es = [] := (remSel_nil_iff p es es).mpr (fun n h => h)
    have h3 : addSel p es es = [] := (addSel_nil_iff p es es).mpr (fun n h => h)
    have h2 : cmpEs p es es = [] := cmpEs_self es p es ha'.2 (fun k t hm => (AL.mem_iff_get ha'.1 k t).mp hm)
    simp [h1, h2, h3]
theorem cmpEs_self : (es' : Entries) → ∀ (p : Path) (es : Entries), wfEs es' = true →
    (∀ k t, (k, t) ∈ es' → AL.get es k = some t) → cmpEs p es' es = []
  | [], p, es, _, _ => by simp [cmpEs]
  | (k, t) :: r, p, es, hw, hm => by
    have hw' := (wfEs_cons k t r).mp hw
    rw [cmpEs_cons, hm k t (List.mem_cons_self ..)]
    simp only []
    rw [cmpT_self t (p ++ [k]) hw'.1]
    exact cmpEs_self r p es hw'.2 (fun k' t' h => hm k' t' (List.mem_cons_of_mem _ h))
end

theorem cmpT_none_iff (p : Path) (a b : DirTree) (ha : a.wf = true) (hb : b.wf = true) :
    cmpT p a b = none ↔ a = b :=
  ⟨cmpT_none a p b ha hb, fun h => h ▸ cmpT_self a p ha⟩
