import MetadorModel.Model.ByteStreams
import MetadorModel.Proofs.Bytes
/-! Helper lemmas for `Model/ByteStreams.lean` (the read loop of `hashsum` on streams that
deliver short reads). Used by C19. -/
namespace MetadorModel.Bytes

/-- Whatever the delivery schedule (every read delivers at least one byte while bytes are
left), the loop of `hashsum` leaves the hash object in the state of one `update` with the whole
content of the stream. -/
theorem readLoopS_eq {σ : Type} (hl : HashLib σ) (h : Streaming hl) (cap : Nat → Nat)
    (hcap : ∀ i, 0 < cap i) :
    ∀ (fuel i : Nat) (bs : Bytes) (s : σ), bs.length < fuel →
      readLoopS hl cap fuel i bs s = hl.update s bs := by
  intro fuel
  induction fuel with
  | zero => intro i bs s hl'; omega
  | succ f ih =>
    intro i bs s hlt
    unfold readLoopS
    simp only
    have hpos : 0 < min (hl.blockSize s) (cap i) := Nat.lt_min.mpr ⟨h.block_pos s, hcap i⟩
    split_ifs with he
    · have : bs = [] := by
        cases bs with
        | nil => rfl
        | cons b r =>
          cases hn : min (hl.blockSize s) (cap i) with
          | zero => omega
          | succ m => rw [hn] at he; simp at he
      rw [this, h.empty]
    · have hne : bs ≠ [] := by
        intro h0; subst h0; simp at he
      have hlen : 0 < bs.length := List.length_pos_iff.mpr hne
      rw [ih _ _ _ (by simp; omega), h.append, List.take_append_drop]

/-- the loop of `Model/Bytes.lean` is the instance "no read is ever short" -/
theorem readLoopS_full {σ : Type} (hl : HashLib σ) (cap : Nat → Nat)
    (hfull : ∀ i s, hl.blockSize s ≤ cap i) :
    ∀ (fuel i : Nat) (bs : Bytes) (s : σ), readLoopS hl cap fuel i bs s = readLoop hl fuel bs s := by
  intro fuel
  induction fuel with
  | zero => intro i bs s; rfl
  | succ f ih =>
    intro i bs s
    unfold readLoopS readLoop
    simp only
    rw [Nat.min_eq_left (hfull i s)]
    split_ifs with he
    · rfl
    · rw [ih]

theorem hashsumS_eq_oneShot {σ : Type} (hl : HashLib σ) (h : Streaming hl) (cap : Nat → Nat)
    (hcap : ∀ i, 0 < cap i) (alg : Str) (ha : alg ∈ hashAlgs) (bs : Bytes) :
    hashsumS hl cap bs alg = .ok (oneShot hl alg bs) := by
  unfold hashsumS oneShot
  rw [if_pos ha]
  simp only
  rw [readLoopS_eq hl h cap hcap _ _ _ _ (Nat.lt_succ_self _)]

theorem qualifiedHashsumS_eq {σ : Type} (hl : HashLib σ) (h : Streaming hl) (cap : Nat → Nat)
    (hcap : ∀ i, 0 < cap i) (alg : Str) (ha : alg ∈ hashAlgs) (bs : Bytes) :
    qualifiedHashsumS hl cap bs alg = .ok (alg ++ ':' :: oneShot hl alg bs) := by
  unfold qualifiedHashsumS
  rw [hashsumS_eq_oneShot hl h cap hcap alg ha]

theorem hashsumS_unsupported {σ : Type} (hl : HashLib σ) (cap : Nat → Nat) (alg : Str)
    (ha : alg ∉ hashAlgs) (bs : Bytes) : hashsumS hl cap bs alg = .error .valueError := by
  unfold hashsumS
  rw [if_neg ha]

/-- a cyclic schedule over positive caps is positive everywhere -/
theorem cyclic_pos (cyc : List Nat) (big : Nat) (hb : 0 < big) (hc : ∀ k ∈ cyc, 0 < k) (i : Nat) :
    0 < cyclic cyc big i := by
  unfold cyclic
  split
  · next k hk => exact hc k (List.mem_of_getElem? hk)
  · exact hb

end MetadorModel.Bytes
