import MetadorModel.Proofs.Chain
/-! Consequences of `Coherent` used by the fault corollaries of C04 and by C11. -/
namespace MetadorModel.Chain
open List

variable {P M : Type} (H : P → Digest) (HM : M → Digest)

/-- strictly sorted arrangements of the same file set coincide -/
theorem sortedLt_unique {s t : List (File P M)} (hp : s ~ t) (hs : SortedLt s) (ht : SortedLt t) :
    s = t :=
  Perm.eq_of_pairwise (fun _ _ _ _ h1 h2 => absurd h1 (Nat.lt_asymm h2)) hs ht hp

variable {H HM}
variable {mfAware ab : Bool}

theorem Coherent.ne_nil {s : List (File P M)} (h : Coherent H HM mfAware ab s) : s ≠ [] := by
  rintro rfl; exact absurd h (by simp [Coherent])

theorem Coherent.nodup {s : List (File P M)} (h : Coherent H HM mfAware ab s) :
    (s.map (fun f => f.ub.pid)).Nodup := by
  cases s with
  | nil => simp
  | cons b rest => exact h.2.2.2.2.2.2.1

theorem Coherent.h5 {s : List (File P M)} (h : Coherent H HM mfAware ab s) :
    ∀ f ∈ s, f.h5ok = true := by
  cases s with
  | nil => simp
  | cons b rest => exact h.1

theorem Coherent.sameRecord {s : List (File P M)} (h : Coherent H HM mfAware ab s) :
    ∀ f ∈ s, ∀ g ∈ s, f.ub.rid = g.ub.rid := by
  cases s with
  | nil => simp
  | cons b rest =>
    have hr := h.2.2.1
    have : ∀ f ∈ b :: rest, f.ub.rid = b.ub.rid := by
      intro f hf
      rcases mem_cons.mp hf with rfl | hf
      · rfl
      · exact hr f hf
    intro f hf g hg
    rw [this f hf, this g hg]

/-- every container of a coherent set is either uncommitted or verifies; only the newest may be
uncommitted -/
theorem Coherent.hash_mem {s : List (File P M)} (h : Coherent H HM mfAware ab s) :
    ∀ f ∈ s, f.ub.hash = none ∨ HashOK H f := by
  cases s with
  | nil => simp
  | cons b rest =>
    intro f hf
    rw [← dropLast_append_lastOf b rest] at hf
    rcases mem_append.mp hf with hf | hf
    · exact Or.inr (h.2.2.2.2.1 f hf)
    · rw [mem_singleton] at hf; subst hf; exact h.2.2.2.2.2.1

theorem Coherent.hash_init {init : List (File P M)} {l : File P M}
    (h : Coherent H HM mfAware ab (init ++ [l])) : ∀ f ∈ init, HashOK H f := by
  cases init with
  | nil => simp
  | cons b r =>
    intro f hf
    have := h.2.2.2.2.1
    rw [show (b :: r ++ [l]) = b :: (r ++ [l]) from rfl] at h
    have hd : (b :: (r ++ [l])).dropLast = b :: r := by
      rw [← cons_append, dropLast_concat]
    exact h.2.2.2.2.1 f (hd ▸ hf)

theorem Coherent.last_manifest {init : List (File P M)} {l : File P M}
    (h : Coherent H HM mfAware ab (init ++ [l])) (hm : mfAware = true) :
    ∀ e, l.ub.ext = some e → ∃ m, l.mf = some m ∧ e.mhash = HM m := by
  cases init with
  | nil => exact (h.2.2.2.2.2.2.2 hm).2
  | cons b r =>
    have := (h.2.2.2.2.2.2.2 hm).2
    have hl : lastOf b (r.append [l]) = l := lastOf_append b r l
    rwa [hl] at this

/-- in a chain every element names a member of the list as its predecessor -/
theorem ChainFrom.pred {p : File P M} {r : List (File P M)} (h : ChainFrom p r) :
    ∀ g ∈ r, ∃ x ∈ p :: r, g.ub.prev = some x.ub.pid := by
  induction r generalizing p with
  | nil => simp
  | cons y r' ih =>
    obtain ⟨h1, h2⟩ := h
    intro g hg
    rcases mem_cons.mp hg with rfl | hg
    · exact ⟨p, mem_cons_self, h1.2⟩
    · obtain ⟨x, hx, hgx⟩ := ih h2 g hg
      exact ⟨x, mem_cons_of_mem _ hx, hgx⟩

/-- a chain with distinct patch uuids has no fork: no two elements name the same predecessor -/
theorem ChainFrom.noFork {p : File P M} {r : List (File P M)} (h : ChainFrom p r)
    (hn : ((p :: r).map (fun f => f.ub.pid)).Nodup) :
    r.Pairwise (fun a b => a.ub.prev ≠ b.ub.prev) := by
  induction r generalizing p with
  | nil => simp
  | cons y r' ih =>
    obtain ⟨h1, h2⟩ := h
    rw [map_cons, nodup_cons] at hn
    rw [pairwise_cons]
    refine ⟨?_, ih h2 hn.2⟩
    intro g hg
    obtain ⟨x, hx, hgx⟩ := h2.pred g hg
    rw [h1.2, hgx]
    intro heq
    injection heq with heq
    exact hn.1 (heq ▸ mem_map_of_mem hx)

/-- with a base required, no two containers of a coherent set name the same predecessor
(the base names none, every other one names a different member) -/
theorem Coherent.noFork {s : List (File P M)} (h : Coherent H HM mfAware false s) :
    s.Pairwise (fun a b => a.ub.prev ≠ b.ub.prev) := by
  cases s with
  | nil => simp
  | cons b rest =>
    have hb : b.ub.prev = none := h.2.1 rfl
    have hc := h.2.2.2.1
    rw [pairwise_cons]
    refine ⟨?_, hc.noFork h.nodup⟩
    intro g hg
    obtain ⟨x, -, hgx⟩ := hc.pred g hg
    rw [hb, hgx]; simp

/-- with a base required: a container that names a predecessor is preceded by it in the set -/
theorem Coherent.pred {s : List (File P M)} (h : Coherent H HM mfAware false s) :
    ∀ g ∈ s, g.ub.prev = none ∨ ∃ x ∈ s, g.ub.prev = some x.ub.pid := by
  cases s with
  | nil => simp
  | cons b rest =>
    intro g hg
    rcases mem_cons.mp hg with rfl | hg
    · exact Or.inl (h.2.1 rfl)
    · exact Or.inr (h.2.2.2.1.pred g hg)

theorem Coherent.chain_split {l₁ l₂ : List (File P M)} {b : File P M}
    (h : Coherent H HM mfAware ab (b :: (l₁ ++ l₂))) : ChainFrom (lastOf b l₁) l₂ :=
  (chainFrom_append.mp h.2.2.2.1).2

/-- removing the newest container of a coherent set (with at least two elements) leaves a coherent
set, provided (manifest-aware class) the container that becomes newest has its manifest -/
theorem Coherent.dropNewest {init : List (File P M)} {l : File P M}
    (h : Coherent H HM mfAware ab (init ++ [l])) (hne : init ≠ [])
    (hmf : mfAware = true → ∀ b r, init = b :: r → ∀ e, (lastOf b r).ub.ext = some e →
      ∃ m, (lastOf b r).mf = some m ∧ e.mhash = HM m) :
    Coherent H HM mfAware ab init := by
  cases init with
  | nil => exact absurd rfl hne
  | cons b r =>
    have hinit := h.hash_init
    have hsub : ∀ f, f ∈ r → f ∈ r ++ [l] := fun f hf => mem_append_left _ hf
    obtain ⟨c1, c2, c3, c4, c5, c6, c7, c8⟩ := h
    refine ⟨fun f hf => c1 f (mem_append_left _ hf), c2,
      fun f hf => c3 f (hsub f hf), (chainFrom_append.mp c4).1, ?_, ?_, ?_, ?_⟩
    · intro f hf; exact hinit f (dropLast_subset _ hf)
    · exact Or.inr (hinit _ (lastOf_mem b r))
    · have : (b :: r).map (fun f => f.ub.pid) <+ ((b :: r) ++ [l]).map (fun f => f.ub.pid) :=
        (sublist_append_left _ _).map _
      exact c7.sublist this
    · intro hm
      exact ⟨fun f hf => (c8 hm).1 f (hsub f hf), hmf hm b r rfl⟩

end MetadorModel.Chain
