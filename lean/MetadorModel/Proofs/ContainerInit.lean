import MetadorModel.Proofs.ContainerInv
import Mathlib.Data.List.Infix
/-!
# The initial container state satisfies the invariant; an executable check of `WFEnv`
-/
namespace MetadorModel.Container

/-! ### a decidable sufficient condition for `WFEnv` (finite tables) -/

/-- `WFEnv` spelled out over the finite tables of the environment (decidable) -/
def WFEnvCheck (e : Env) : Prop :=
  (∀ i ∈ e.schemas, i.parents.getLast? = some i.ref ∧ i.parents.Nodup ∧ i.ref ∈ e.pkgPlugins i.pkg ∧
     ∀ a ∈ i.parents.inits, a ≠ [] → ∃ p ∈ a, a.getLast? = some p ∧ ppath e p = a) ∧
  (∀ x ∈ e.pkgs, ∀ y ∈ e.pkgs, ∀ r ∈ e.pkgPlugins x.1, r ∈ e.pkgPlugins y.1 → x.1 = y.1) ∧
  (∀ x ∈ e.pkgs, (e.pkgPlugins x.1).Nodup)

instance (e : Env) : Decidable (WFEnvCheck e) := by
  unfold WFEnvCheck; infer_instance

theorem info_mem {e : Env} {r : SRef} {i : SInfo} (h : e.info r = some i) : i ∈ e.schemas := by
  unfold Env.info at h
  exact List.mem_of_find?_eq_some h

theorem pkgPlugins_key {e : Env} {pk : PkgId} {r : SRef} (h : r ∈ e.pkgPlugins pk) :
    ∃ x ∈ e.pkgs, x.1 = pk := by
  unfold Env.pkgPlugins at h
  cases hg : alGet e.pkgs pk with
  | none => simp [hg] at h
  | some l =>
    have : pk ∈ alKeys e.pkgs := (alGet_isSome_iff _ _).mp (by rw [hg]; rfl)
    obtain ⟨x, hx, rfl⟩ := List.mem_map.mp this
    exact ⟨x, hx, rfl⟩

theorem WFEnv.of_check {e : Env} (h : WFEnvCheck e) : WFEnv e := by
  obtain ⟨h1, h2, h3⟩ := h
  refine ⟨?_, ?_, ?_, ?_, ?_, ?_⟩
  · intro r i hi
    rw [← info_ref hi]; exact (h1 i (info_mem hi)).1
  · intro r i hi; exact (h1 i (info_mem hi)).2.1
  · intro r i a b hi hab ha
    obtain ⟨p, -, hp, hpp⟩ := (h1 i (info_mem hi)).2.2.2 a (by rw [List.mem_inits, hab]; simp) ha
    exact ⟨p, hp, hpp⟩
  · intro r i hi
    rw [← info_ref hi]; exact (h1 i (info_mem hi)).2.2.1
  · intro pk pk' r hr hr'
    obtain ⟨x, hx, rfl⟩ := pkgPlugins_key hr
    obtain ⟨y, hy, rfl⟩ := pkgPlugins_key hr'
    exact h2 x hx y hy r hr hr'
  · intro pk
    cases hg : alGet e.pkgs pk with
    | none => simp [Env.pkgPlugins, hg]
    | some l =>
      have : pk ∈ alKeys e.pkgs := (alGet_isSome_iff _ _).mp (by rw [hg]; rfl)
      obtain ⟨x, hx, rfl⟩ := List.mem_map.mp this
      exact h3 x hx

/-! ### the freshly initialised container -/

theorem init_get? (q : Path) : get? initSt.raw q =
    if q = [] then some .grp else if q = uuidP then some (.ds (.text "uuid"))
    else if q = versionP then some (.ds (.text "1.0")) else if q = tocP then some .grp else none := by
  by_cases h0 : q = []
  · simp [h0]
  · rw [get?_ne_nil h0]
    simp only [initSt, lookup, h0, if_false, eq_comm (b := q)]

theorem init_noObj (p : Path) (r : SRef) (u : Nat) : ¬ ObjAt initSt.raw p r u := by
  rintro ⟨base, m, hb, rfl, hg⟩
  rw [init_get?] at hg
  have h1 : base ++ [Key.metaDir m, Key.obj r u] ≠ [] := by simp
  have h2 : (base ++ [Key.metaDir m, Key.obj r u]).head? ≠ some .toc := objPath_head hb
  have e1 : base ++ [Key.metaDir m, Key.obj r u] ≠ uuidP := by intro h; rw [h] at h2; exact h2 rfl
  have e2 : base ++ [Key.metaDir m, Key.obj r u] ≠ versionP := by intro h; rw [h] at h2; exact h2 rfl
  have e3 : base ++ [Key.metaDir m, Key.obj r u] ≠ tocP := by intro h; rw [h] at h2; exact h2 rfl
  simp [h1, e1, e2, e3] at hg

/-- `MetadorContainer(raw)` on an empty file establishes the invariant -/
theorem init_inv (e : Env) : Inv e initSt := by
  have nou : ∀ r, ¬ UsedIn initSt.raw r := fun r ⟨p, u, h⟩ => init_noObj p r u h
  have noreg : ∀ pk, ¬ RegP e (UsedIn initSt.raw) pk := fun pk ⟨r, _, h, _⟩ => nou r h
  have nontoc : ∀ q : Path, q ≠ [] → q.head? ≠ some .toc → get? initSt.raw q = none := by
    intro q h0 hq
    rw [init_get?]
    have e1 : q ≠ uuidP := by intro h; rw [h] at hq; exact hq rfl
    have e2 : q ≠ versionP := by intro h; rw [h] at hq; exact hq rfl
    have e3 : q ≠ tocP := by intro h; rw [h] at hq; exact hq rfl
    simp [h0, e1, e2, e3]
  refine ⟨⟨by decide, ?_⟩, ?_, ?_, ?_, ?_, ?_⟩
  · intro n hm
    simp [initSt, uuidP, versionP, tocP] at hm
  · intro q k hne
    rw [init_get?] at hne
    by_cases h1 : q ++ [k] = uuidP
    · have : q = tocP := by
        have h' : q ++ [k] = [Key.toc] ++ [Key.uuid] := h1
        exact (List.append_inj' h' rfl).1
      rw [this, init_get?]; simp [tocP, uuidP, versionP]
    · by_cases h2 : q ++ [k] = versionP
      · have : q = tocP := by
          have h' : q ++ [k] = [Key.toc] ++ [Key.version] := h2
          exact (List.append_inj' h' rfl).1
        rw [this, init_get?]; simp [tocP, uuidP, versionP]
      · by_cases h3 : q ++ [k] = tocP
        · have : q = [] := by
            have h' : q ++ [k] = [] ++ [Key.toc] := h3
            exact (List.append_inj' h' rfl).1
          rw [this]; simp
        · simp [h1, h2, h3] at hne
  · constructor
    · intro q n h0 hq hg
      rw [nontoc q h0 hq] at hg; cases hg
    · intro base m hb hg
      rw [nontoc _ (by simp) (objPath_head hb)] at hg
      exact absurd rfl hg
    · intro p r u h; exact absurd h (init_noObj p r u)
    · intro base m r u r' u' hb hg
      rw [nontoc _ (by simp) (objPath_head hb)] at hg
      exact absurd rfl hg
    · intro p p' r r' u h; exact absurd h (init_noObj p r u)
    · intro p r u h; exact absurd h (init_noObj p r u)
  · have g : ∀ q, get? initSt.raw q = _ := init_get?
    refine ⟨by rw [g]; simp [tocP, uuidP, versionP], by rw [g]; simp [uuidP, versionP],
      by rw [g]; simp [uuidP], ?_, ?_, ?_, ?_, ?_, ?_, ?_, ?_, ?_, ?_, ?_⟩
    · exact ⟨fun ⟨p, r, u, h⟩ => absurd h (init_noObj p r u), fun _ => by rw [g]; simp [linksP, tocP, uuidP, versionP]⟩
    · intro r
      exact ⟨fun ⟨p, u, h⟩ => absurd h (init_noObj p r u), fun _ => by rw [g]; simp [linkDir, tocP, uuidP, versionP]⟩
    · intro p r u h; exact absurd h (init_noObj p r u)
    · intro r u _; rw [g]; simp [linkPath, tocP, uuidP, versionP]
    · exact ⟨fun ⟨r, h⟩ => absurd h (nou r), fun _ => by rw [g]; simp [schemasP, tocP, uuidP, versionP]⟩
    · intro r
      exact ⟨fun h => absurd h (nou r), fun _ => by rw [g]; simp [schemaDir, tocP, uuidP, versionP]⟩
    · intro r
      exact ⟨fun h => absurd h (nou r), fun _ => by rw [g]; simp [schemaDir, tocP, uuidP, versionP]⟩
    · intro r
      exact ⟨fun h => absurd h (nou r), fun _ => by rw [g]; simp [schemaDir, tocP, uuidP, versionP]⟩
    · exact ⟨fun ⟨r, h⟩ => absurd h (nou r), fun _ => by rw [g]; simp [packagesP, tocP, uuidP, versionP]⟩
    · intro pk
      exact ⟨fun h => absurd h (noreg pk), fun _ => by rw [g]; simp [pkgPath, tocP, uuidP, versionP]⟩
    · intro rest hne
      rw [g] at hne
      by_cases h1 : Key.toc :: rest = uuidP
      · simp only [uuidP, List.cons.injEq, true_and] at h1; rw [h1]; exact .uuid
      · by_cases h2 : Key.toc :: rest = versionP
        · simp only [versionP, List.cons.injEq, true_and] at h2; rw [h2]; exact .version
        · by_cases h3 : Key.toc :: rest = tocP
          · simp only [tocP, List.cons.injEq, true_and] at h3; rw [h3]; exact .root
          · simp [h1, h2, h3] at hne
  · refine ⟨fun r => ?_, List.nodup_nil, ⟨fun P => ?_, fun P => Iff.rfl, fun P l h => ?_, fun P cs h => ?_⟩,
      fun pk pl => ?_, fun r ps => ?_, fun pk h => absurd h (noreg pk), fun pk rs h => ?_⟩
    · simp [initSt]; exact nou r
    · simp only [initSt, alGet_nil, Option.isSome_none, Bool.false_eq_true, false_iff]
      rintro ⟨S, hS, -⟩; exact nou S hS
    · simp [initSt] at h
    · simp [initSt] at h
    · show alGet ([] : List (PkgId × List SRef)) pk = some pl ↔ _
      exact ⟨fun h => (by cases h), fun ⟨h, _⟩ => absurd h (noreg pk)⟩
    · show alGet ([] : List (SRef × List PkgId)) r = some ps ↔ _
      exact ⟨fun h => (by cases h), fun ⟨pk, _, h, _⟩ => absurd h (noreg pk)⟩
    · simp [initSt] at h
  · intro u tp
    show alGet ([] : List (Nat × Path)) u = some tp ↔ _
    exact ⟨fun h => (by cases h), fun ⟨p, r, h, _⟩ => absurd h (init_noObj p r u)⟩

end MetadorModel.Container
