import MetadorModel.Proofs.CrashTornBase
/-! Torn user-block writes (C11), part 2: blocks on disk, `torn_create_classified`,
`torn_classified` (see `CrashTornBase.lean` for the framing and parser lemmas). -/
namespace MetadorModel.UBlock
open List

theorem zeros_eq (n : Nat) : Crash.zeros n = replicate n '\x00' := rfl

theorem frame_length (u : UBT) : (frame SZ1024 u).length = (render u).length + 14 := by
  rw [frame_eq]; simp [HDR_length]; omega

/-- third line of a block written over zeros: text, NUL, zeros -/
theorem written_zeros (u : UBT) (hfit : (frame SZ1024 u).length ≤ UBSIZE) :
    Crash.written (Crash.zeros UBSIZE) u =
      HDR ++ (render u ++ '\x00' :: replicate (1010 - (render u).length) '\x00') := by
  have hl := frame_length u
  rw [hl] at hfit
  have hU : UBSIZE = 1024 := rfl
  rw [hU] at hfit
  unfold Crash.written torn
  rw [take_of_length_le (Nat.le_refl _), zeros_eq, drop_replicate, hl, hU, frame_eq, append_assoc, append_assoc]
  have : 1024 - ((render u).length + 14) = 1010 - (render u).length := by omega
  rw [this]
  rfl
theorem clean_of_good {s : List Char} (h : AllGood s) : Clean s := fun c hc => ⟨(h c hc).1, (h c hc).2.2⟩

theorem noNul_of_good {s : List Char} (h : AllGood s) : '\x00' ∉ s := fun hm => (h _ hm).2.1 rfl

theorem clean_zeros (n : Nat) : Clean (replicate n '\x00') := by
  intro c hc; rw [eq_of_mem_replicate hc]; exact ⟨by decide, by decide⟩

/-- what `load` computes on a block `HDR ++ (torn j (a NUL zeros) (b NUL))` -/
theorem loadUBT_torn (a b Z : List Char) (ha : AllGood a) (hb : AllGood b)
    (hZ : ∀ c ∈ Z, c = '\x00') (hlen : a.length + 1 + Z.length = 1011)
    (hab : a.length ≤ b.length) (hb2 : b.length + 1 ≤ 1011) (j : Nat) :
    loadUBT (HDR ++ torn j (a ++ '\x00' :: Z) (b ++ ['\x00'])) =
      parseUBT (if j ≤ a.length then b.take j ++ a.drop j else if j ≤ b.length then b.take j else b) := by
  have hclean : Clean ((torn j (a ++ '\x00' :: Z) (b ++ ['\x00'])).take 1011) := by
    apply Clean.take
    unfold torn
    apply Clean.append
    · apply Clean.take
      exact (clean_of_good hb).append (fun c hc => by rw [mem_singleton.mp hc]; exact ⟨by decide, by decide⟩)
    · apply Clean.drop
      apply (clean_of_good ha).append
      intro c hc
      rcases mem_cons.mp hc with rfl | hc
      · exact ⟨by decide, by decide⟩
      · rw [hZ c hc]; exact ⟨by decide, by decide⟩
  unfold loadUBT
  rw [loadText_hdr _ hclean, torn_text a b Z (noNul_of_good ha) (noNul_of_good hb) hZ hlen hab hb2 j]
  rfl

theorem loadUBT_written (u : UBT) (hw : u.wf = true) (hfit : (frame SZ1024 u).length ≤ UBSIZE) :
    loadUBT (Crash.written (Crash.zeros UBSIZE) u) = .ok u := by
  have hg := render_good hw
  have hl : (render u).length + 14 ≤ 1024 := by
    rw [frame_length] at hfit; exact hfit
  rw [written_zeros u hfit]
  have hclean : Clean ((render u ++ '\x00' :: replicate (1010 - (render u).length) '\x00').take 1011) := by
    apply Clean.take
    apply (clean_of_good hg).append
    intro c hc
    rcases mem_cons.mp hc with rfl | hc
    · exact ⟨by decide, by decide⟩
    · exact clean_zeros _ c hc
  unfold loadUBT
  rw [loadText_hdr _ hclean, cutNul_take (noNul_of_good hg) _ (by omega)]
  exact (parseUBT_ok_iff _ _).mpr ⟨rfl, hw⟩

/-! ## a torn first write (`_new_container`): zeros before, `frame u` written -/

theorem splitOn_length (c : Char) (s : List Char) : (splitOn c s).length = s.count c + 1 := by
  induction s with
  | nil => rfl
  | cons x xs ih =>
    simp only [splitOn]
    split_ifs with h
    · subst h; simp [ih]
    · have hx : (x == c) = false := by simpa using h
      rcases hs : splitOn c xs with _ | ⟨p, ps⟩
      · rw [hs] at ih; simp at ih
      · rw [hs] at ih; simp [count_cons, hx] at ih ⊢; omega

theorem readHeadRaw_none_of_count (file : Bytes) (n : Nat)
    (hascii : ∀ c ∈ file.take n, c.toNat < 128) (hcount : (file.take n).count '\n' ≠ 2) :
    readHeadRaw file n = .ok none := by
  unfold readHeadRaw
  have h1 : (file.take n).any (fun c => decide (c.toNat ≥ 128)) = false := by
    rw [any_eq_false]; intro c hc; have := hascii c hc; simp; omega
  simp only [h1, Bool.false_eq_true, if_false]
  have hl := splitOn_length '\n' (file.take n)
  rcases hs : splitOn '\n' (file.take n) with _ | ⟨x, _ | ⟨y, _ | ⟨z, _ | ⟨w, r⟩⟩⟩⟩
  · rfl
  · rfl
  · rfl
  · rw [hs] at hl; simp at hl; omega
  · rfl

theorem hdr_take_count (k : Nat) (hk : k < 13) : (HDR.take k).count '\n' ≤ 1 := by
  interval_cases k <;> decide

theorem torn_create_small (u : UBT) (k : Nat) (hk : k < 13) (v : UBT) :
    loadUBT (torn k (Crash.zeros UBSIZE) (frame SZ1024 u)) ≠ .ok v := by
  have hblock : torn k (Crash.zeros UBSIZE) (frame SZ1024 u) = HDR.take k ++ replicate (1024 - k) '\x00' := by
    unfold torn
    have hU : UBSIZE = 1024 := rfl
    rw [frame_eq, take_append, show k - HDR.length = 0 by rw [HDR_length]; omega, take_zero,
      append_nil, zeros_eq, drop_replicate, hU]
  have hnone : readHeadRaw (HDR.take k ++ replicate (1024 - k) '\x00') 512 = .ok none := by
    apply readHeadRaw_none_of_count
    · intro c hc
      rcases mem_append.mp (mem_of_mem_take hc) with h | h
      · have : ∀ d ∈ HDR, d.toNat < 128 := by decide
        exact this c (mem_of_mem_take h)
      · rw [eq_of_mem_replicate h]; decide
    · have hle : ((HDR.take k ++ replicate (1024 - k) '\x00').take 512).count '\n' ≤
          (HDR.take k ++ replicate (1024 - k) '\x00').count '\n' :=
        (take_sublist _ _).count_le _
      have hz : (replicate (1024 - k) '\x00').count '\n' = 0 := by
        rw [count_replicate]; simp
      rw [count_append, hz] at hle
      have := hdr_take_count k hk
      omega
  rw [hblock]
  unfold loadUBT loadText
  rw [hnone]
  intro h; cases h

/-- **A torn first write of a user block** either does not load or loads the block written. -/
theorem torn_create_classified (u : UBT) (hw : u.wf = true)
    (hfit : (frame SZ1024 u).length ≤ UBSIZE) (k : Nat) (v : UBT)
    (hv : loadUBT (torn k (Crash.zeros UBSIZE) (frame SZ1024 u)) = .ok v) : v = u := by
  by_cases hk : k < 13
  · exact absurd hv (torn_create_small u k hk v)
  · have hg := render_good hw
    have hl : (render u).length + 14 ≤ 1024 := by
      rw [frame_length] at hfit; exact hfit
    -- the bytes behind the two framing lines are untouched zeros or new text
    have hblock : torn k (Crash.zeros UBSIZE) (frame SZ1024 u) =
        HDR ++ torn (k - 13) ([] ++ '\x00' :: replicate 1010 '\x00') (render u ++ ['\x00']) := by
      unfold torn
      have hU : UBSIZE = 1024 := rfl
      rw [frame_eq, take_append, take_of_length_le (by rw [HDR_length]; omega), HDR_length,
        zeros_eq, drop_replicate, hU, nil_append, ← replicate_succ, drop_replicate, append_assoc]
      congr 3
      omega
    rw [hblock, loadUBT_torn [] (render u) (replicate 1010 '\x00') (fun _ h => by cases h) hg
      (fun c hc => eq_of_mem_replicate hc) (by rw [length_replicate, length_nil]) (Nat.zero_le _) (by omega)] at hv
    simp only [length_nil, Nat.le_zero_eq, drop_nil, append_nil] at hv
    have hself : parseUBT (render u) = .ok u := (parseUBT_ok_iff (render u) u).mpr ⟨rfl, hw⟩
    have hpos : 0 < (render u).length := by simp [render, K1]
    split_ifs at hv with h1 h2
    · rw [h1, take_zero] at hv
      have := parseUBT_take_error hw (j := 0) hpos v
      rw [take_zero] at this
      exact absurd hv this
    · rcases Nat.lt_or_ge (k - 13) (render u).length with hlt | hge
      · exact absurd hv (parseUBT_take_error hw hlt v)
      · rw [take_of_length_le hge, hself] at hv
        injection hv with hv; exact hv.symm
    · rw [hself] at hv
      injection hv with hv; exact hv.symm

/-! ## a torn commit write -/

/-- the two user blocks of a commit: `uOld` as made by `IH5UserBlock.create` (no hash, empty
`ub_exts`), `uNew` the same with the hash `h` (and possibly the manifest extension). -/
structure CommitPair (uOld uNew : UBT) (h : List Char) : Prop where
  wfOld : uOld.wf = true
  wfNew : uNew.wf = true
  hashOld : uOld.hash = none
  extOld : uOld.ext = none
  rid : uNew.rid = uOld.rid
  idx : uNew.idx = uOld.idx
  pid : uNew.pid = uOld.pid
  prev : uNew.prev = uOld.prev
  hashNew : uNew.hash = some h
  hlen : 19 ≤ h.length
  fits : (frame SZ1024 uNew).length ≤ UBSIZE

theorem CommitPair.head_eq {uOld uNew : UBT} {h : List Char} (c : CommitPair uOld uNew h) :
    headText uNew = headText uOld := by
  simp [headText, c.rid, c.idx, c.pid, c.prev]

theorem CommitPair.render_old {uOld uNew : UBT} {h : List Char} (c : CommitPair uOld uNew h) :
    render uOld = headText uOld ++ TAIL0 := by
  rw [render_split, c.hashOld, c.extOld]; rfl

theorem CommitPair.render_new {uOld uNew : UBT} {h : List Char} (c : CommitPair uOld uNew h) :
    render uNew = headText uOld ++ (q h ++ (K6 ++ renderExt uNew.ext ++ S_close)) := by
  rw [render_split, c.head_eq, c.hashNew]
  simp [tailText, optStr, append_assoc]

/-- **A torn commit write** either does not load, or loads the old (uncommitted) block, or loads
the new (committed) block — never anything else. -/
theorem torn_classified {uOld uNew : UBT} {h : List Char} (c : CommitPair uOld uNew h)
    (k : Nat) (v : UBT)
    (hv : loadUBT (torn k (Crash.written (Crash.zeros UBSIZE) uOld) (frame SZ1024 uNew)) = .ok v) :
    v = uOld ∨ v = uNew := by
  have hgo := render_good c.wfOld
  have hgn := render_good c.wfNew
  have hq : '"' ∉ h := (wf_parts c.wfNew).2.2.2.2.1 h c.hashNew |>.2
  have hln : (render uNew).length + 14 ≤ 1024 := by
    have hf := c.fits
    rw [frame_length] at hf; exact hf
  have hlen_old : (render uOld).length = (headText uOld).length + 20 := by
    rw [c.render_old, length_append, TAIL0_length]
  have hlen_new : (render uNew).length ≥ (headText uOld).length + 21 := by
    rw [c.render_new]; simp [q]; have := c.hlen; omega
  have hfit_old : (frame SZ1024 uOld).length ≤ UBSIZE := by
    rw [frame_length]; show _ ≤ 1024; omega
  rw [written_zeros uOld hfit_old, frame_eq, torn_prefix,
    loadUBT_torn (render uOld) (render uNew) _ hgo hgn (fun c hc => eq_of_mem_replicate hc)
      (by simp; omega) (by omega) (by omega)] at hv
  have hnew : parseUBT (render uNew) = .ok uNew := (parseUBT_ok_iff _ _).mpr ⟨rfl, c.wfNew⟩
  have hold : parseUBT (render uOld) = .ok uOld := (parseUBT_ok_iff _ _).mpr ⟨rfl, c.wfOld⟩
  generalize k - HDR.length = j at hv
  split_ifs at hv with h1 h2
  · -- new prefix + old suffix
    by_cases hj : j ≤ (headText uOld).length
    · -- inside the common part: the block is the old one
      have : (render uNew).take j ++ (render uOld).drop j = render uOld := by
        rw [c.render_new, c.render_old, take_append, drop_append,
          show j - (headText uOld).length = 0 by omega, take_zero, drop_zero, append_nil,
          ← append_assoc, take_append_drop]
      rw [this, hold] at hv
      injection hv with hv; exact Or.inl hv.symm
    · -- interleaving: does not parse
      exfalso
      obtain ⟨i, hi⟩ : ∃ i, j = (headText uOld).length + i := ⟨j - (headText uOld).length, by omega⟩
      have hi1 : 1 ≤ i := by omega
      have hi2 : i ≤ 20 := by omega
      have e1 : (render uNew).take j = headText uOld ++ ('"' :: h.take (i - 1)) := by
        rw [c.render_new, hi, take_append, take_of_length_le (by omega),
          show (headText uOld).length + i - (headText uOld).length = i by omega]
        congr 1
        obtain ⟨i', rfl⟩ : ∃ i', i = i' + 1 := ⟨i - 1, by omega⟩
        simp only [q, cons_append, take_succ_cons, Nat.add_sub_cancel]
        congr 1
        rw [append_assoc, take_append, show i' - h.length = 0 by have := c.hlen; omega]
        simp
      have e2 : (render uOld).drop j = TAIL0.drop i := by
        rw [c.render_old, hi, drop_append, drop_eq_nil_of_le (by omega),
          show (headText uOld).length + i - (headText uOld).length = i by omega]
        simp
      rw [e1, e2, append_assoc] at hv
      have hp := parseP_head c.wfOld ('"' :: take (i - 1) h ++ drop i TAIL0)
      rw [tailP_mix _ _ _ _ _ (fun hm => hq (mem_of_mem_take hm)) i hi1 hi2] at hp
      unfold parseUBT at hv
      rw [hp] at hv
      cases hv
  · -- proper prefix of the new text (or all of it)
    rcases Nat.lt_or_ge j (render uNew).length with hlt | hge
    · exact absurd hv (parseUBT_take_error c.wfNew hlt v)
    · rw [take_of_length_le hge, hnew] at hv
      injection hv with hv; exact Or.inr hv.symm
  · rw [hnew] at hv
    injection hv with hv; exact Or.inr hv.symm

/-- the committed block, once completely written, loads as the new block -/
theorem loadUBT_committed {uOld uNew : UBT} {h : List Char} (c : CommitPair uOld uNew h) :
    loadUBT (Crash.written (Crash.written (Crash.zeros UBSIZE) uOld) uNew) = .ok uNew := by
  have hfull := torn_classified c (frame SZ1024 uNew).length
  unfold Crash.written at hfull ⊢
  -- compute directly: complete write = third regime
  have hgo := render_good c.wfOld
  have hgn := render_good c.wfNew
  have hln : (render uNew).length + 14 ≤ 1024 := by
    have hf := c.fits
    rw [frame_length] at hf; exact hf
  have hlen_old : (render uOld).length = (headText uOld).length + 20 := by
    rw [c.render_old, length_append, TAIL0_length]
  have hlen_new : (render uNew).length ≥ (headText uOld).length + 21 := by
    rw [c.render_new]; simp [q]; have := c.hlen; omega
  have hfit_old : (frame SZ1024 uOld).length ≤ UBSIZE := by
    rw [frame_length]; show _ ≤ 1024; omega
  have hw := written_zeros uOld hfit_old
  unfold Crash.written at hw
  rw [hw, frame_eq, torn_prefix,
    loadUBT_torn (render uOld) (render uNew) _ hgo hgn (fun c hc => eq_of_mem_replicate hc)
      (by simp; omega) (by omega) (by omega)]
  have hj : ¬ ((HDR ++ (render uNew ++ ['\x00'])).length - HDR.length ≤ (render uNew).length) := by
    simp
  have hj' : ¬ ((HDR ++ (render uNew ++ ['\x00'])).length - HDR.length ≤ (render uOld).length) := by
    simp; omega
  rw [if_neg hj', if_neg hj]
  exact (parseUBT_ok_iff _ _).mpr ⟨rfl, c.wfNew⟩

end MetadorModel.UBlock
