import MetadorModel.Model.Subtype
import MetadorModel.Proofs.Codec
/-!
# Soundness of `isSubtype` (C13): helper definitions and lemmas

`Sub env a b` : every valid value of `a` serialises to something `b` accepts.

The proof goes through two denotations of runtype's canonical types: `denL c j` ("`j` is the
encoding of a valid value of a type whose canonical form is `c`") and `denR c j` ("a type whose
canonical form is `c` accepts `j`"), and three facts:

1. `valid_denL`   : `Valid env a v → denL (canon a) (encode v)`
2. `le_sound`     : `le T c d → denL c j → denR d j`  (needs `ClassTableSound`)
3. `denR_accepts` : `denR (canon b) j → accepts env b j`  (needs `NoCrash`, `SetsScalar b`)
-/
namespace MetadorModel.Subtype
open MetadorModel.Codec

/-- every valid value of `a` serialises to something `b` accepts -/
def Sub (env : Env) (a b : Ty) : Prop := ∀ v, Valid env a v → accepts env b (encode v) = true

/-- registry: class name ↦ its (effective) schema type -/
abbrev Reg := Str → Option Ty

mutual
/-- the schema nodes of a field type are the registered ones -/
def Coherent (R : Reg) : Ty → Prop
  | .model n e fs cs => R n = some (.model n e fs cs)
  | .opt t => Coherent R t
  | .list t => Coherent R t
  | .set t => Coherent R t
  | .ann t => Coherent R t
  | .union ts => CoherentAll R ts
  | _ => True
def CoherentAll (R : Reg) : List Ty → Prop
  | [] => True
  | t :: ts => Coherent R t ∧ CoherentAll R ts
end

mutual
/-- no list, set or schema: every validated value is hashable -/
def ScalarTy : Ty → Bool
  | .list _ => false
  | .set _ => false
  | .model _ _ _ _ => false
  | .opt t => ScalarTy t
  | .ann t => ScalarTy t
  | .union ts => ScalarAll ts
  | _ => true
def ScalarAll : List Ty → Bool
  | [] => true
  | t :: ts => ScalarTy t && ScalarAll ts
end

mutual
/-- item types of sets are scalar (the grammar's "Set of hashables"), down to schema nodes -/
def SetsScalar : Ty → Bool
  | .set t => ScalarTy t
  | .list t => SetsScalar t
  | .opt t => SetsScalar t
  | .ann t => SetsScalar t
  | .union ts => SetsScalarAll ts
  | _ => true
def SetsScalarAll : List Ty → Bool
  | [] => true
  | t :: ts => SetsScalar t && SetsScalarAll ts
end

/-- the library parsers only ever refuse with a validation error -/
def NoCrash (env : Env) : Prop := ∀ k s, env.crash k s = false

/-- every nominal subclass edge is an inclusion: of the recognised strings for the phantom
string types, of the accepted serialisations for registered schema classes -/
def ClassTableSound (env : Env) (T : Table) (R : Reg) : Prop :=
  (∀ k k', cstrSub k k' = true → ∀ s, recog k s = true → recog k' s = true) ∧
  (∀ n m tn tm, R n = some tn → R m = some tm → atomSub T (.cls n) (.cls m) = true → Sub env tn tm)

/-! ## denotations -/

def encLitN : LitN → Json
  | none => .null
  | some l => encode (litVal l)

/-- Python `==` between a member of `OneOf` and a JSON scalar -/
def litNMatch : LitN → Json → Bool
  | none, .null => true
  | none, _ => false
  | some l, j => litMatch l j

def denAtomL (env : Env) (R : Reg) : Atom → Json → Prop
  | .bool, j => ∃ b, j = .bool b
  | .int, j => ∃ i, j = .int i
  | .float, j => ∃ t, j = .float t ∧ env.normFloat t = some t
  | .str, j => ∃ s, j = .str s ∧ stripWs s = s ∧ s ≠ []
  | .cstr k, j => ∃ s, j = .str s ∧ recog k s = true
  | .opq k, j => ∃ s, j = .str s ∧ env.norm k s = some s
  | .cls n, j => ∃ tn v, R n = some tn ∧ Valid env tn v ∧ j = encode v

def denAtomR (env : Env) (R : Reg) : Atom → Json → Prop
  | .cls n, j => ∀ tn, R n = some tn → accepts env tn j = true
  | k, j => denAtomL env R k j

mutual
def denL (env : Env) (R : Reg) : CT → Json → Prop
  | .data k, j => denAtomL env R k j
  | .oneOf vs, j => ∃ l ∈ vs, j = encLitN l
  | .sum ts, j => denLAny env R ts j
  | .gen _ i, j => ∃ xs, j = .arr xs ∧ ∀ x ∈ xs, denL env R i x
def denLAny (env : Env) (R : Reg) : List CT → Json → Prop
  | [], _ => False
  | t :: ts, j => denL env R t j ∨ denLAny env R ts j
end

mutual
def denR (env : Env) (R : Reg) : CT → Json → Prop
  | .data k, j => denAtomR env R k j
  | .oneOf vs, j => ∃ l ∈ vs, litNMatch l j = true
  | .sum ts, j => denRAny env R ts j
  | .gen _ i, j => ∃ xs, j = .arr xs ∧ ∀ x ∈ xs, denR env R i x
def denRAny (env : Env) (R : Reg) : List CT → Json → Prop
  | [], _ => False
  | t :: ts, j => denR env R t j ∨ denRAny env R ts j
end

theorem denLAny_iff (env : Env) (R : Reg) (ts : List CT) (j : Json) :
    denLAny env R ts j ↔ ∃ t ∈ ts, denL env R t j := by
  induction ts with
  | nil => simp [denLAny]
  | cons t ts ih => simp [denLAny, ih]

theorem denRAny_iff (env : Env) (R : Reg) (ts : List CT) (j : Json) :
    denRAny env R ts j ↔ ∃ t ∈ ts, denR env R t j := by
  induction ts with
  | nil => simp [denRAny]
  | cons t ts ih => simp [denRAny, ih]

/-! ## `flat` and `mkSum` preserve the denotations -/

theorem denL_flat (env : Env) (R : Reg) (c : CT) (j : Json) :
    denL env R c j ↔ ∃ t ∈ c.flat, denL env R t j := by
  cases c <;> simp [CT.flat, denL, denLAny_iff]

theorem denR_flat (env : Env) (R : Reg) (c : CT) (j : Json) :
    denR env R c j ↔ ∃ t ∈ c.flat, denR env R t j := by
  cases c <;> simp [CT.flat, denR, denRAny_iff]

theorem mem_flatten_filterMap (ts : List CT) (l : LitN) :
    l ∈ (ts.filterMap CT.oneOfVals).flatten ↔ ∃ vs, CT.oneOf vs ∈ ts ∧ l ∈ vs := by
  simp only [List.mem_flatten, List.mem_filterMap]
  constructor
  · rintro ⟨vs, ⟨t, ht, e⟩, hl⟩
    cases t with
    | oneOf ws =>
      simp only [CT.oneOfVals, Option.some.injEq] at e
      subst e
      exact ⟨ws, ht, hl⟩
    | data k => simp [CT.oneOfVals] at e
    | sum as => simp [CT.oneOfVals] at e
    | gen c i => simp [CT.oneOfVals] at e
  · rintro ⟨vs, ht, hl⟩
    exact ⟨vs, ⟨.oneOf vs, ht, rfl⟩, hl⟩

theorem denL_mkSum (env : Env) (R : Reg) (ts : List CT) (j : Json) :
    denL env R (mkSum ts) j ↔ ∃ t ∈ ts, denL env R t j := by
  simp only [mkSum]
  split
  · simp only [denL, denLAny_iff, List.mem_append, List.mem_filter, List.mem_singleton]
    constructor
    · rintro ⟨t, ht | ht, hd⟩
      · exact ⟨t, ht.1, hd⟩
      · subst ht
        simp only [denL] at hd
        obtain ⟨l, hl, e⟩ := hd
        obtain ⟨vs, hvs, hl'⟩ := (mem_flatten_filterMap ts l).mp hl
        exact ⟨.oneOf vs, hvs, by simp only [denL]; exact ⟨l, hl', e⟩⟩
    · rintro ⟨t, ht, hd⟩
      cases t with
      | oneOf vs =>
        refine ⟨_, Or.inr rfl, ?_⟩
        simp only [denL] at hd ⊢
        obtain ⟨l, hl, e⟩ := hd
        exact ⟨l, (mem_flatten_filterMap ts l).mpr ⟨vs, ht, hl⟩, e⟩
      | data k => exact ⟨_, Or.inl ⟨ht, by simp [CT.oneOfVals]⟩, hd⟩
      | sum as => exact ⟨_, Or.inl ⟨ht, by simp [CT.oneOfVals]⟩, hd⟩
      | gen c i => exact ⟨_, Or.inl ⟨ht, by simp [CT.oneOfVals]⟩, hd⟩
  · simp [denL, denLAny_iff]

theorem denR_mkSum (env : Env) (R : Reg) (ts : List CT) (j : Json) :
    denR env R (mkSum ts) j ↔ ∃ t ∈ ts, denR env R t j := by
  simp only [mkSum]
  split
  · simp only [denR, denRAny_iff, List.mem_append, List.mem_filter, List.mem_singleton]
    constructor
    · rintro ⟨t, ht | ht, hd⟩
      · exact ⟨t, ht.1, hd⟩
      · subst ht
        simp only [denR] at hd
        obtain ⟨l, hl, e⟩ := hd
        obtain ⟨vs, hvs, hl'⟩ := (mem_flatten_filterMap ts l).mp hl
        exact ⟨.oneOf vs, hvs, by simp only [denR]; exact ⟨l, hl', e⟩⟩
    · rintro ⟨t, ht, hd⟩
      cases t with
      | oneOf vs =>
        refine ⟨_, Or.inr rfl, ?_⟩
        simp only [denR] at hd ⊢
        obtain ⟨l, hl, e⟩ := hd
        exact ⟨l, (mem_flatten_filterMap ts l).mpr ⟨vs, ht, hl⟩, e⟩
      | data k => exact ⟨_, Or.inl ⟨ht, by simp [CT.oneOfVals]⟩, hd⟩
      | sum as => exact ⟨_, Or.inl ⟨ht, by simp [CT.oneOfVals]⟩, hd⟩
      | gen c i => exact ⟨_, Or.inl ⟨ht, by simp [CT.oneOfVals]⟩, hd⟩
  · simp [denR, denRAny_iff]

/-! ## (1) valid values denote on the left -/

theorem mem_encodeList (vs : List PyVal) (x : Json) (h : x ∈ encodeList vs) :
    ∃ v ∈ vs, x = encode v := by
  induction vs with
  | nil => simp [encodeList] at h
  | cons v vs ih =>
    simp only [encodeList, List.mem_cons] at h
    rcases h with h | h
    · exact ⟨v, by simp, h⟩
    · obtain ⟨w, hw, e⟩ := ih h
      exact ⟨w, by simp [hw], e⟩

theorem encode_litVal (l : Lit) : encode (litVal l) = encLitN (some l) := rfl

mutual
theorem valid_denL (env : Env) (R : Reg) : ∀ (a : Ty) (v : PyVal), Valid env a v → Coherent R a →
    denL env R (canon a) (encode v)
  | .bool, v, h, _ => by
    simp only [Valid] at h
    obtain ⟨b, rfl⟩ := h
    simp [canon, denL, denAtomL, encode]
  | .int, v, h, _ => by
    simp only [Valid] at h
    obtain ⟨i, rfl⟩ := h
    simp [canon, denL, denAtomL, encode]
  | .float, v, h, _ => by
    simp only [Valid] at h
    obtain ⟨t, rfl, ht⟩ := h
    simp [canon, denL, denAtomL, encode, ht]
  | .str, v, h, _ => by
    simp only [Valid] at h
    obtain ⟨s, rfl, h1, h2⟩ := h
    simp [canon, denL, denAtomL, encode, h1, h2]
  | .cstr k, v, h, _ => by
    simp only [Valid] at h
    obtain ⟨s, rfl, h1⟩ := h
    simp [canon, denL, denAtomL, encode, h1]
  | .opq k, v, h, _ => by
    simp only [Valid] at h
    obtain ⟨s, rfl, h1, _⟩ := h
    simp [canon, denL, denAtomL, encode, h1]
  | .lit vs, v, h, _ => by
    simp only [Valid] at h
    obtain ⟨l, rfl, h1⟩ := h
    have hmem : l ∈ vs := by
      have := List.mem_of_getLast? h1
      exact (List.mem_filter.mp this).1
    simp only [canon, denL]
    exact ⟨some l, List.mem_map.mpr ⟨l, hmem, rfl⟩, rfl⟩
  | .opt t, v, h, hc => by
    simp only [Valid] at h
    simp only [Coherent] at hc
    simp only [canon]
    rw [denL_mkSum]
    rcases h with rfl | h
    · exact ⟨.oneOf [none], by simp, by simp [denL, encode, encLitN]⟩
    · have := valid_denL env R t v h hc
      obtain ⟨c, hc', hd⟩ := (denL_flat env R _ _).mp this
      exact ⟨c, by simp [hc'], hd⟩
  | .ann t, v, h, hc => by
    simp only [Valid] at h
    simp only [Coherent] at hc
    simp only [canon]
    exact valid_denL env R t v h hc
  | .union ts, v, h, hc => by
    simp only [Valid] at h
    simp only [Coherent] at hc
    simp only [canon]
    rw [denL_mkSum]
    exact valid_denLU env R ts v h hc
  | .list t, v, h, hc => by
    simp only [Valid] at h
    simp only [Coherent] at hc
    obtain ⟨vs, rfl, hvs⟩ := h
    simp only [canon, denL, encode]
    refine ⟨_, rfl, ?_⟩
    intro x hx
    obtain ⟨w, hw, rfl⟩ := mem_encodeList vs x hx
    exact valid_denL env R t w (hvs w hw) hc
  | .set t, v, h, hc => by
    simp only [Valid] at h
    simp only [Coherent] at hc
    obtain ⟨vs, rfl, hvs, _, _⟩ := h
    simp only [canon, denL, encode]
    refine ⟨_, rfl, ?_⟩
    intro x hx
    obtain ⟨w, hw, rfl⟩ := mem_encodeList vs x hx
    exact valid_denL env R t w (hvs w hw) hc
  | .model n e fs cs, v, h, hc => by
    simp only [Coherent] at hc
    simp only [canon, denL, denAtomL]
    exact ⟨_, v, hc, h, rfl⟩
theorem valid_denLU (env : Env) (R : Reg) : ∀ (ts : List Ty) (v : PyVal), ValidU env ts v →
    CoherentAll R ts → ∃ c ∈ canonAlts ts, denL env R c (encode v)
  | [], v, h, _ => by simp [ValidU] at h
  | t :: ts, v, h, hc => by
    simp only [ValidU] at h
    simp only [CoherentAll] at hc
    simp only [canonAlts, List.mem_append]
    rcases h with h | ⟨_, h⟩
    · have := valid_denL env R t v h hc.1
      obtain ⟨c, hc', hd⟩ := (denL_flat env R _ _).mp this
      exact ⟨c, Or.inl hc', hd⟩
    · obtain ⟨c, hc', hd⟩ := valid_denLU env R ts v h hc.2
      exact ⟨c, Or.inr hc', hd⟩
end

/-! ## (2) `le` is sound between the two denotations -/

theorem litNEq_match (v w : LitN) (h : litNEq v w = true) : litNMatch w (encLitN v) = true := by
  cases v with
  | none =>
    cases w with
    | none => rfl
    | some w => cases w <;> simp [litNEq] at h
  | some v =>
    cases w with
    | none => cases v <;> simp [litNEq] at h
    | some w =>
      cases v with
      | str s =>
        cases w with
        | str s' =>
          simp only [litNEq, beq_iff_eq] at h
          simp [litNMatch, encLitN, litVal, encode, litMatch, h]
        | int i => simp [litNEq] at h
        | bool b => simp [litNEq] at h
      | int i =>
        cases w with
        | str s' => simp [litNEq] at h
        | int i' =>
          simp only [litNEq, beq_iff_eq] at h
          simp [litNMatch, encLitN, litVal, encode, litMatch, jsonInt?, h]
        | bool b =>
          simp only [litNEq, beq_iff_eq] at h
          simp [litNMatch, encLitN, litVal, encode, litMatch, jsonInt?, h]
      | bool b =>
        cases w with
        | str s' => simp [litNEq] at h
        | int i =>
          simp only [litNEq, beq_iff_eq] at h
          simp [litNMatch, encLitN, litVal, encode, litMatch, jsonInt?, h]
        | bool b' =>
          simp only [litNEq, beq_iff_eq] at h
          simp [litNMatch, encLitN, litVal, encode, litMatch, jsonInt?, h]

mutual
theorem isa_sound (env : Env) (R : Reg) (v : LitN) : ∀ (d : CT), isa v d = true →
    denR env R d (encLitN v)
  | .data k, h => by
    simp only [isa] at h
    cases v with
    | none => simp [isaAtom] at h
    | some l =>
      cases l with
      | str s =>
        cases k <;> simp [isaAtom] at h
        simp only [denR, denAtomR, denAtomL, encLitN, litVal, encode]
        exact ⟨s, rfl, h⟩
      | int i => simp [isaAtom] at h
      | bool b => simp [isaAtom] at h
  | .oneOf ws, h => by
    simp only [isa, List.any_eq_true] at h
    obtain ⟨w, hw, e⟩ := h
    simp only [denR]
    exact ⟨w, hw, litNEq_match v w e⟩
  | .sum ts, h => by
    simp only [isa] at h
    simp only [denR]
    exact isaAny_sound env R v ts h
  | .gen _ _, h => by simp [isa] at h
theorem isaAny_sound (env : Env) (R : Reg) (v : LitN) : ∀ (ts : List CT), isaAny v ts = true →
    denRAny env R ts (encLitN v)
  | [], h => by simp [isaAny] at h
  | t :: ts, h => by
    simp only [isaAny, Bool.or_eq_true] at h
    simp only [denRAny]
    rcases h with h | h
    · exact Or.inl (isa_sound env R v t h)
    · exact Or.inr (isaAny_sound env R v ts h)
end

theorem atomSub_sound (env : Env) (T : Table) (R : Reg) (hT : ClassTableSound env T R)
    (k k' : Atom) (h : atomSub T k k' = true) (j : Json) (hj : denAtomL env R k j) :
    denAtomR env R k' j := by
  cases k with
  | cstr c =>
    cases k' with
    | cstr c' =>
      simp only [atomSub] at h
      simp only [denAtomL] at hj
      obtain ⟨s, rfl, hs⟩ := hj
      simp only [denAtomR, denAtomL]
      exact ⟨s, rfl, hT.1 c c' h s hs⟩
    | _ => simp [atomSub] at h
  | cls n =>
    cases k' with
    | cls m =>
      simp only [denAtomL] at hj
      obtain ⟨tn, v, hn, hv, rfl⟩ := hj
      simp only [denAtomR]
      intro tm hm
      exact hT.2 n m tn tm hn hm h v hv
    | _ => simp [atomSub] at h
  | bool => cases k' <;> simp [atomSub] at h; simpa [denAtomR] using hj
  | int => cases k' <;> simp [atomSub] at h; simpa [denAtomR] using hj
  | float => cases k' <;> simp [atomSub] at h; simpa [denAtomR] using hj
  | str => cases k' <;> simp [atomSub] at h; simpa [denAtomR] using hj
  | opq o =>
    cases k' with
    | opq o' =>
      simp [atomSub] at h
      subst h
      simpa [denAtomR] using hj
    | _ => simp [atomSub] at h

mutual
theorem dataLe_sound (env : Env) (T : Table) (R : Reg) (hT : ClassTableSound env T R) (k : Atom)
    (j : Json) (hj : denAtomL env R k j) : ∀ (d : CT), dataLe T k d = true → denR env R d j
  | .data k', h => by
    simp only [dataLe] at h
    simp only [denR]
    exact atomSub_sound env T R hT k k' h j hj
  | .sum bs, h => by
    simp only [dataLe] at h
    simp only [denR]
    exact dataLeAny_sound env T R hT k j hj bs h
  | .oneOf _, h => by simp [dataLe] at h
  | .gen _ _, h => by simp [dataLe] at h
theorem dataLeAny_sound (env : Env) (T : Table) (R : Reg) (hT : ClassTableSound env T R) (k : Atom)
    (j : Json) (hj : denAtomL env R k j) : ∀ (bs : List CT), dataLeAny T k bs = true →
    denRAny env R bs j
  | [], h => by simp [dataLeAny] at h
  | b :: bs, h => by
    simp only [dataLeAny, Bool.or_eq_true] at h
    simp only [denRAny]
    rcases h with h | h
    · exact Or.inl (dataLe_sound env T R hT k j hj b h)
    · exact Or.inr (dataLeAny_sound env T R hT k j hj bs h)
end

mutual
theorem genLe_sound (env : Env) (R : Reg) (c : Cont) (f : CT → Bool) (xs : List Json)
    (hf : ∀ d' x, f d' = true → x ∈ xs → denR env R d' x) :
    ∀ (d : CT), genLe c f d = true → denR env R d (.arr xs)
  | .gen c' i', h => by
    simp only [genLe, Bool.and_eq_true] at h
    simp only [denR]
    exact ⟨xs, rfl, fun x hx => hf i' x h.2 hx⟩
  | .sum bs, h => by
    simp only [genLe] at h
    simp only [denR]
    exact genLeAny_sound env R c f xs hf bs h
  | .data _, h => by simp [genLe] at h
  | .oneOf _, h => by simp [genLe] at h
theorem genLeAny_sound (env : Env) (R : Reg) (c : Cont) (f : CT → Bool) (xs : List Json)
    (hf : ∀ d' x, f d' = true → x ∈ xs → denR env R d' x) :
    ∀ (bs : List CT), genLeAny c f bs = true → denRAny env R bs (.arr xs)
  | [], h => by simp [genLeAny] at h
  | b :: bs, h => by
    simp only [genLeAny, Bool.or_eq_true] at h
    simp only [denRAny]
    rcases h with h | h
    · exact Or.inl (genLe_sound env R c f xs hf b h)
    · exact Or.inr (genLeAny_sound env R c f xs hf bs h)
end

mutual
theorem le_sound (env : Env) (T : Table) (R : Reg) (hT : ClassTableSound env T R) :
    ∀ (c d : CT) (j : Json), le T c d = true → denL env R c j → denR env R d j
  | .sum as, d, j, h, hj => by
    simp only [le] at h
    simp only [denL] at hj
    exact leAll_sound env T R hT as d j h hj
  | .data k, d, j, h, hj => by
    simp only [le] at h
    simp only [denL] at hj
    exact dataLe_sound env T R hT k j hj d h
  | .oneOf vs, d, j, h, hj => by
    simp only [denL] at hj
    obtain ⟨l, hl, rfl⟩ := hj
    cases d with
    | oneOf ws =>
      simp only [le, List.all_eq_true, List.any_eq_true] at h
      obtain ⟨w, hw, e⟩ := h l hl
      simp only [denR]
      exact ⟨w, hw, litNEq_match l w e⟩
    | data k =>
      simp only [le, List.all_eq_true] at h
      exact isa_sound env R l _ (h l hl)
    | sum bs =>
      simp only [le, List.all_eq_true] at h
      exact isa_sound env R l _ (h l hl)
    | gen c i =>
      simp only [le, List.all_eq_true] at h
      exact isa_sound env R l _ (h l hl)
  | .gen c i, d, j, h, hj => by
    simp only [le] at h
    simp only [denL] at hj
    obtain ⟨xs, rfl, hxs⟩ := hj
    exact genLe_sound env R c (le T i) xs
      (fun d' x hd' hx => le_sound env T R hT i d' x hd' (hxs x hx)) d h
theorem leAll_sound (env : Env) (T : Table) (R : Reg) (hT : ClassTableSound env T R) :
    ∀ (as : List CT) (d : CT) (j : Json), leAll T as d = true → denLAny env R as j → denR env R d j
  | [], _, _, _, hj => by simp [denLAny] at hj
  | a :: as, d, j, h, hj => by
    simp only [leAll, Bool.and_eq_true] at h
    simp only [denLAny] at hj
    rcases hj with hj | hj
    · exact le_sound env T R hT a d j h.1 hj
    · exact leAll_sound env T R hT as d j h.2 hj
end

/-! ## (3) what denotes on the right is accepted -/

theorem accepts_iff (env : Env) (t : Ty) (j : Json) :
    accepts env t j = true ↔ ∃ v, decode env t j = .ok v := by
  unfold accepts
  cases decode env t j <;> simp

theorem allOk_noCrash {α : Type} : ∀ (rs : List (Except Err α)),
    (∀ r ∈ rs, r ≠ .error .crash) → allOk rs ≠ .error .crash
  | [], _ => by simp [allOk]
  | .ok a :: rs, h => by
    have := allOk_noCrash rs (fun r hr => h r (by simp [hr]))
    simp only [allOk]
    cases hr : allOk rs with
    | ok l => simp [mapOk]
    | error e => simp [mapOk]; intro e'; rw [hr, e'] at this; exact this rfl
  | .error e :: rs, h => by
    have h1 := allOk_noCrash rs (fun r hr => h r (by simp [hr]))
    have h2 : e ≠ .crash := fun e' => h (.error e) (by simp) (by rw [e'])
    simp only [allOk]
    cases hr : allOk rs with
    | ok l => simp [h2]
    | error e'' =>
      cases e'' <;> simp_all

mutual
theorem noCrash_decode (env : Env) (hn : NoCrash env) : ∀ (t : Ty) (j : Json),
    decode env t j ≠ .error .crash
  | .bool, j => by cases j <;> simp [decode]
  | .int, j => by cases j <;> simp [decode]
  | .float, j => by
    cases j <;> simp [decode]
    split <;> simp
  | .str, j => by
    cases j <;> simp [decode]
    split <;> simp
  | .cstr k, j => by
    cases j <;> simp [decode]
    split <;> simp
  | .opq k, j => by
    cases j <;> simp [decode, hn k]
    split <;> simp
  | .lit vs, j => by
    simp only [decode, decodeLit]
    split <;> simp
  | .opt t, j => by
    by_cases h : j = .null
    · subst h; simp [decode]
    · rw [decode_opt_nonnull env t j h]; exact noCrash_decode env hn t j
  | .ann t, j => by
    simp only [decode]; exact noCrash_decode env hn t j
  | .union ts, j => by
    simp only [decode]; exact noCrash_decodeU env hn ts j
  | .list t, j => by
    cases j <;> simp [decode]
    rename_i xs
    have := allOk_noCrash (xs.map (fun x => decode env t x))
      (fun r hr => by
        obtain ⟨x, _, rfl⟩ := List.mem_map.mp hr
        exact noCrash_decode env hn t x)
    cases hr : allOk (xs.map (fun x => decode env t x)) with
    | ok l => simp [mapOk]
    | error e => simp [mapOk]; intro e'; rw [hr, e'] at this; exact this rfl
  | .set t, j => by
    cases j <;> simp [decode]
    rename_i xs
    have := allOk_noCrash (xs.map (fun x => decode env t x))
      (fun r hr => by
        obtain ⟨x, _, rfl⟩ := List.mem_map.mp hr
        exact noCrash_decode env hn t x)
    cases hr : allOk (xs.map (fun x => decode env t x)) with
    | ok l => simp only [mkSet]; split <;> simp
    | error e => simp; intro e'; rw [hr, e'] at this; exact this rfl
  | .model n ex fs cs, j => by
    simp only [decode]
    cases asDict j with
    | none => simp
    | some kvs =>
      have := noCrash_decodeFs env hn fs kvs
      simp only
      cases hf : decodeFields env fs kvs with
      | error e => simp; intro e'; rw [hf, e'] at this; exact this rfl
      | ok fvs =>
        cases ex <;> simp
        split <;> simp
theorem noCrash_decodeU (env : Env) (hn : NoCrash env) : ∀ (ts : List Ty) (j : Json),
    decodeUnion env ts j ≠ .error .crash
  | [], j => by simp [decodeUnion]
  | t :: ts, j => by
    have h1 := noCrash_decode env hn t j
    have h2 := noCrash_decodeU env hn ts j
    simp only [decodeUnion]
    cases hd : decode env t j with
    | ok v => simp
    | error e => cases e <;> simp_all
theorem noCrash_decodeFs (env : Env) (hn : NoCrash env) : ∀ (fs : List Field) (kvs : List (Str × Json)),
    decodeFields env fs kvs ≠ .error .crash
  | [], kvs => by simp [decodeFields]
  | f :: fs, kvs => by
    have h1 := noCrash_decodeF env hn f kvs
    have h2 := noCrash_decodeFs env hn fs kvs
    simp only [decodeFields]
    cases hd : decodeField env f kvs with
    | ok v =>
      cases hr : decodeFields env fs kvs with
      | ok r => simp
      | error e => cases e <;> simp_all
    | error e =>
      cases hr : decodeFields env fs kvs with
      | ok r => cases e <;> simp_all
      | error e' => cases e <;> cases e' <;> simp_all
theorem noCrash_decodeF (env : Env) (hn : NoCrash env) : ∀ (f : Field) (kvs : List (Str × Json)),
    decodeField env f kvs ≠ .error .crash
  | .mk n t req d, kvs => by
    simp only [decodeField]
    split
    · rename_i j _
      have := noCrash_decode env hn t j
      cases hd : decode env t j with
      | ok v => simp [mapOk]
      | error e => simp [mapOk]; intro e'; rw [hd, e'] at this; exact this rfl
    · split
      · simp
      · split
        · simp
        · rename_i dj
          have := noCrash_decode env hn t dj
          cases hd : decode env t dj with
          | ok v => simp [mapOk]
          | error e => simp [mapOk]; intro e'; rw [hd, e'] at this; exact this rfl
end

theorem allOk_ok_of_all {α : Type} : ∀ (rs : List (Except Err α)),
    (∀ r ∈ rs, ∃ a, r = .ok a) → ∃ l, allOk rs = .ok l ∧ ∀ a ∈ l, .ok a ∈ rs
  | [], _ => ⟨[], by simp [allOk], by simp⟩
  | r :: rs, h => by
    obtain ⟨a, rfl⟩ := h r (by simp)
    obtain ⟨l, hl, hm⟩ := allOk_ok_of_all rs (fun r hr => h r (by simp [hr]))
    refine ⟨a :: l, by simp [allOk, hl, mapOk], ?_⟩
    intro b hb
    simp only [List.mem_cons] at hb
    rcases hb with rfl | hb
    · simp
    · simp [hm b hb]

mutual
theorem scalar_hashable (env : Env) : ∀ (t : Ty) (j : Json) (v : PyVal), ScalarTy t = true →
    decode env t j = .ok v → hashable v = true
  | .bool, j, v, _, h => by cases j <;> simp [decode] at h; subst h; rfl
  | .int, j, v, _, h => by cases j <;> simp [decode] at h; subst h; rfl
  | .float, j, v, _, h => by
    cases j <;> simp [decode] at h
    split at h <;> simp at h
    subst h; rfl
  | .str, j, v, _, h => by
    cases j <;> simp [decode] at h
    split at h <;> simp at h
    subst h; rfl
  | .cstr k, j, v, _, h => by
    cases j <;> simp [decode] at h
    split at h <;> simp at h
    subst h; rfl
  | .opq k, j, v, _, h => by
    cases j <;> simp [decode] at h
    split at h
    · simp at h
    · split at h <;> simp at h
      subst h; rfl
  | .lit vs, j, v, _, h => by
    simp only [decode, decodeLit] at h
    split at h <;> simp at h
    subst h
    rename_i l _
    cases l <;> rfl
  | .opt t, j, v, hs, h => by
    simp only [ScalarTy] at hs
    by_cases hj : j = .null
    · subst hj; simp [decode] at h; subst h; rfl
    · rw [decode_opt_nonnull env t j hj] at h
      exact scalar_hashable env t j v hs h
  | .ann t, j, v, hs, h => by
    simp only [ScalarTy] at hs
    simp only [decode] at h
    exact scalar_hashable env t j v hs h
  | .union ts, j, v, hs, h => by
    simp only [ScalarTy] at hs
    simp only [decode] at h
    exact scalar_hashableU env ts j v hs h
  | .list _, _, _, hs, _ => by simp [ScalarTy] at hs
  | .set _, _, _, hs, _ => by simp [ScalarTy] at hs
  | .model _ _ _ _, _, _, hs, _ => by simp [ScalarTy] at hs
theorem scalar_hashableU (env : Env) : ∀ (ts : List Ty) (j : Json) (v : PyVal), ScalarAll ts = true →
    decodeUnion env ts j = .ok v → hashable v = true
  | [], j, v, _, h => by simp [decodeUnion] at h
  | t :: ts, j, v, hs, h => by
    simp only [ScalarAll, Bool.and_eq_true] at hs
    simp only [decodeUnion] at h
    cases hd : decode env t j with
    | ok w =>
      rw [hd] at h
      simp at h
      subst h
      exact scalar_hashable env t j w hs.1 hd
    | error e =>
      rw [hd] at h
      cases e <;> simp at h <;> exact scalar_hashableU env ts j v hs.2 h
end

mutual
theorem scalar_setsScalar : ∀ (t : Ty), ScalarTy t = true → SetsScalar t = true
  | .opt t, h => by simp only [ScalarTy] at h; simp only [SetsScalar]; exact scalar_setsScalar t h
  | .ann t, h => by simp only [ScalarTy] at h; simp only [SetsScalar]; exact scalar_setsScalar t h
  | .union ts, h => by simp only [ScalarTy] at h; simp only [SetsScalar]; exact scalar_setsScalarAll ts h
  | .list _, h => by simp [ScalarTy] at h
  | .set _, h => by simp [ScalarTy] at h
  | .model _ _ _ _, _ => by simp [SetsScalar]
  | .bool, _ => by simp [SetsScalar]
  | .int, _ => by simp [SetsScalar]
  | .float, _ => by simp [SetsScalar]
  | .str, _ => by simp [SetsScalar]
  | .cstr _, _ => by simp [SetsScalar]
  | .opq _, _ => by simp [SetsScalar]
  | .lit _, _ => by simp [SetsScalar]
theorem scalar_setsScalarAll : ∀ (ts : List Ty), ScalarAll ts = true → SetsScalarAll ts = true
  | [], _ => by simp [SetsScalarAll]
  | t :: ts, h => by
    simp only [ScalarAll, Bool.and_eq_true] at h
    simp only [SetsScalarAll, Bool.and_eq_true]
    exact ⟨scalar_setsScalar t h.1, scalar_setsScalarAll ts h.2⟩
end

theorem getLast?_isSome_of_ne_nil {α : Type} (l : List α) (h : l ≠ []) : ∃ x, l.getLast? = some x := by
  cases hl : l.getLast? with
  | some x => exact ⟨x, rfl⟩
  | none => exact absurd (List.getLast?_eq_none_iff.mp hl) h

mutual
theorem denR_accepts (env : Env) (R : Reg) (hn : NoCrash env) : ∀ (b : Ty) (j : Json),
    Coherent R b → SetsScalar b = true → denR env R (canon b) j → ∃ v, decode env b j = .ok v
  | .bool, j, _, _, h => by
    simp only [canon, denR, denAtomR, denAtomL] at h
    obtain ⟨x, rfl⟩ := h
    exact ⟨.bool x, by simp [decode]⟩
  | .int, j, _, _, h => by
    simp only [canon, denR, denAtomR, denAtomL] at h
    obtain ⟨x, rfl⟩ := h
    exact ⟨.int x, by simp [decode]⟩
  | .float, j, _, _, h => by
    simp only [canon, denR, denAtomR, denAtomL] at h
    obtain ⟨x, rfl, hx⟩ := h
    exact ⟨.float x, by simp [decode, hx]⟩
  | .str, j, _, _, h => by
    simp only [canon, denR, denAtomR, denAtomL] at h
    obtain ⟨x, rfl, h1, h2⟩ := h
    exact ⟨.str x, by simp [decode, h1, h2]⟩
  | .cstr k, j, _, _, h => by
    simp only [canon, denR, denAtomR, denAtomL] at h
    obtain ⟨x, rfl, h1⟩ := h
    exact ⟨.str x, by simp [decode, h1]⟩
  | .opq k, j, _, _, h => by
    simp only [canon, denR, denAtomR, denAtomL] at h
    obtain ⟨x, rfl, h1⟩ := h
    exact ⟨.opq k x, by simp [decode, h1, hn k x]⟩
  | .lit ws, j, _, _, h => by
    simp only [canon, denR] at h
    obtain ⟨l, hl, hm⟩ := h
    obtain ⟨w, hw, rfl⟩ := List.mem_map.mp hl
    simp only [litNMatch] at hm
    have hne : ws.filter (fun l => litMatch l j) ≠ [] := by
      intro e
      have : w ∈ ws.filter (fun l => litMatch l j) := List.mem_filter.mpr ⟨hw, hm⟩
      rw [e] at this
      simp at this
    obtain ⟨x, hx⟩ := getLast?_isSome_of_ne_nil _ hne
    exact ⟨litVal x, by simp [decode, decodeLit, hx]⟩
  | .opt t, j, hc, hs, h => by
    simp only [Coherent] at hc
    simp only [SetsScalar] at hs
    simp only [canon] at h
    rw [denR_mkSum] at h
    obtain ⟨c, hc', hd⟩ := h
    by_cases hj : j = .null
    · subst hj; exact ⟨.none, by simp [decode]⟩
    · rw [decode_opt_nonnull env t j hj]
      simp only [List.mem_append, List.mem_singleton] at hc'
      rcases hc' with hc' | rfl
      · exact denR_accepts env R hn t j hc hs ((denR_flat env R _ _).mpr ⟨c, hc', hd⟩)
      · simp only [denR, List.mem_singleton] at hd
        obtain ⟨l, rfl, hm⟩ := hd
        cases j <;> simp [litNMatch] at hm hj
  | .ann t, j, hc, hs, h => by
    simp only [Coherent] at hc
    simp only [SetsScalar] at hs
    simp only [canon] at h
    simp only [decode]
    exact denR_accepts env R hn t j hc hs h
  | .union ts, j, hc, hs, h => by
    simp only [Coherent] at hc
    simp only [SetsScalar] at hs
    simp only [canon] at h
    rw [denR_mkSum] at h
    simp only [decode]
    exact denR_acceptsU env R hn ts j hc hs h
  | .list t, j, hc, hs, h => by
    simp only [Coherent] at hc
    simp only [SetsScalar] at hs
    simp only [canon, denR] at h
    obtain ⟨xs, rfl, hxs⟩ := h
    obtain ⟨l, hl, _⟩ := allOk_ok_of_all (xs.map (fun x => decode env t x)) (fun r hr => by
      obtain ⟨x, hx, rfl⟩ := List.mem_map.mp hr
      exact denR_accepts env R hn t x hc hs (hxs x hx))
    exact ⟨.list l, by simp [decode, hl, mapOk]⟩
  | .set t, j, hc, hs, h => by
    simp only [Coherent] at hc
    simp only [SetsScalar] at hs
    simp only [canon, denR] at h
    obtain ⟨xs, rfl, hxs⟩ := h
    obtain ⟨l, hl, hm⟩ := allOk_ok_of_all (xs.map (fun x => decode env t x)) (fun r hr => by
      obtain ⟨x, hx, rfl⟩ := List.mem_map.mp hr
      exact denR_accepts env R hn t x hc (scalar_setsScalar t hs) (hxs x hx))
    have hh : l.all hashable = true := by
      rw [List.all_eq_true]
      intro a ha
      obtain ⟨x, _, hx⟩ := List.mem_map.mp (hm a ha)
      exact scalar_hashable env t x a hs hx
    exact ⟨.set (dedup l), by simp [decode, hl, mkSet, hh]⟩
  | .model n ex fs cs, j, hc, _, h => by
    simp only [Coherent] at hc
    simp only [canon, denR, denAtomR] at h
    exact (accepts_iff env _ j).mp (h _ hc)
theorem denR_acceptsU (env : Env) (R : Reg) (hn : NoCrash env) : ∀ (ts : List Ty) (j : Json),
    CoherentAll R ts → SetsScalarAll ts = true → (∃ c ∈ canonAlts ts, denR env R c j) →
    ∃ v, decodeUnion env ts j = .ok v
  | [], j, _, _, h => by simp [canonAlts] at h
  | t :: ts, j, hc, hs, h => by
    simp only [CoherentAll] at hc
    simp only [SetsScalarAll, Bool.and_eq_true] at hs
    obtain ⟨c, hc', hd⟩ := h
    simp only [canonAlts, List.mem_append] at hc'
    simp only [decodeUnion]
    cases hdec : decode env t j with
    | ok v => exact ⟨v, rfl⟩
    | error e =>
      have hne : e ≠ .crash := fun e' => noCrash_decode env hn t j (by rw [hdec, e'])
      rcases hc' with hc' | hc'
      · obtain ⟨v, hv⟩ := denR_accepts env R hn t j hc.1 hs.1 ((denR_flat env R _ _).mpr ⟨c, hc', hd⟩)
        rw [hv] at hdec
        cases hdec
      · obtain ⟨v, hv⟩ := denR_acceptsU env R hn ts j hc.2 hs.2 ⟨c, hc', hd⟩
        cases e <;> simp_all
end

/-- **soundness of `<=` on canonical types**, assembled -/
theorem le_canon_sound (env : Env) (T : Table) (R : Reg) (hn : NoCrash env)
    (hT : ClassTableSound env T R) (a b : Ty) (ha : Coherent R a) (hb : Coherent R b)
    (hs : SetsScalar b = true) (h : le T (canon a) (canon b) = true) : Sub env a b := by
  intro v hv
  rw [accepts_iff]
  exact denR_accepts env R hn b _ hb hs
    (le_sound env T R hT _ _ _ h (valid_denL env R a v hv ha))

end MetadorModel.Subtype
