import MetadorModel.Model.FindFiles
/-! Lemmas about the syntactic file discovery (`find_files`, `list_records`), C03. -/
namespace MetadorModel.FindFiles

/-- the record names of the property: non-empty words over `[A-Za-z0-9-]` -/
def ValidName (n : Name) : Prop := n ≠ [] ∧ ∀ c ∈ n, isNameChar c = true

theorem allNameChars_iff (n : Name) : allNameChars n = true ↔ ∀ c ∈ n, isNameChar c = true := by
  induction n with
  | nil => simp [allNameChars]
  | cons x r ih => simp [allNameChars, ih]

theorem strictName_iff (n : Name) : strictName n = true ↔ ValidName n := by
  unfold strictName ValidName
  rw [Bool.and_eq_true, allNameChars_iff]
  cases n <;> simp

theorem isValidName_of_valid {n : Name} (h : ValidName n) : isValidName n = true := by
  unfold isValidName
  rw [(strictName_iff n).mpr h]; rfl

theorem startsWith_iff : ∀ (s p : List Char), startsWith s p = true ↔ ∃ t, s = p ++ t
  | s, [] => by simp [startsWith]
  | [], d :: p => by simp [startsWith]
  | c :: s, d :: p => by
    simp only [startsWith, Bool.and_eq_true, beq_iff_eq, startsWith_iff s p, List.cons_append,
      List.cons.injEq]
    constructor
    · rintro ⟨rfl, t, rfl⟩; exact ⟨t, rfl, rfl⟩
    · rintro ⟨t, rfl, rfl⟩; exact ⟨rfl, t, rfl⟩

theorem startsWith_append (p t : List Char) : startsWith (p ++ t) p = true :=
  (startsWith_iff _ _).mpr ⟨t, rfl⟩

theorem endsWith_iff (s p : List Char) : endsWith s p = true ↔ ∃ t, s = t ++ p := by
  unfold endsWith
  rw [startsWith_iff]
  constructor
  · rintro ⟨t, h⟩
    refine ⟨t.reverse, ?_⟩
    have := congrArg List.reverse h
    simpa using this
  · rintro ⟨t, rfl⟩
    exact ⟨t.reverse, by simp⟩

theorem drop_length_append (n t : List Char) : (n ++ t).drop n.length = t := by
  simp

/-- `belongs n f` spelled out: `f` is `n`, then a character outside the name alphabet, then
anything, and the part after `n` ends with `.ih5`. -/
theorem belongs_iff (n f : Name) :
    belongs n f = true ↔
      ∃ c rest, f = n ++ c :: rest ∧ isNameChar c = false ∧ endsWith (c :: rest) ext = true := by
  unfold belongs globMatch regexGuard
  constructor
  · intro h
    simp only [Bool.and_eq_true] at h
    obtain ⟨⟨h1, h2⟩, _, h4⟩ := h
    obtain ⟨t, rfl⟩ := (startsWith_iff _ _).mp h1
    rw [drop_length_append] at h2 h4
    cases t with
    | nil => simp at h4
    | cons c rest =>
      refine ⟨c, rest, rfl, ?_, h2⟩
      simpa using h4
  · rintro ⟨c, rest, rfl, hc, he⟩
    simp [startsWith_append, he, hc]

/-- **findFiles_exact**: for a valid record name, `find_files` returns exactly the directory
entries of the shape `<name><non-name character>…` whose remainder ends with `.ih5`. -/
theorem findFiles_exact' (dir : List Name) (n : Name) (hn : ValidName n) :
    ∃ l, findFiles dir n = some l ∧
      ∀ f, f ∈ l ↔ (f ∈ dir ∧ ∃ c rest, f = n ++ c :: rest ∧ isNameChar c = false ∧
                      endsWith (c :: rest) ext = true) := by
  refine ⟨dir.filter (belongs n), by simp [findFiles, isValidName_of_valid hn], ?_⟩
  intro f
  rw [List.mem_filter, belongs_iff]

/-- two valid names followed by a non-name character that spell the same string are equal -/
theorem name_prefix_unique : ∀ (n m : Name) (c d : Char) (t r : List Char),
    (∀ x ∈ n, isNameChar x = true) → (∀ x ∈ m, isNameChar x = true) →
    isNameChar c = false → isNameChar d = false → n ++ c :: t = m ++ d :: r → n = m
  | [], [], _, _, _, _, _, _, _, _, _ => rfl
  | [], y :: m, c, d, t, r, _, hm, hc, _, h => by
    simp only [List.nil_append, List.cons_append, List.cons.injEq] at h
    have := hm y (by simp)
    rw [← h.1, hc] at this; cases this
  | x :: n, [], c, d, t, r, hn, _, _, hd, h => by
    simp only [List.nil_append, List.cons_append, List.cons.injEq] at h
    have := hn x (by simp)
    rw [h.1, hd] at this; cases this
  | x :: n, y :: m, c, d, t, r, hn, hm, hc, hd, h => by
    simp only [List.cons_append, List.cons.injEq] at h
    rw [h.1, name_prefix_unique n m c d t r (fun z hz => hn z (by simp [hz]))
      (fun z hz => hm z (by simp [hz])) hc hd h.2]

/-- a file that canonically belongs to the record `m` is never attributed to another valid name -/
theorem belongs_other_false (n m : Name) (hn : ValidName n) (hm : ValidName m) (hne : n ≠ m)
    (c : Char) (rest : List Char) (hc : isNameChar c = false) : belongs n (m ++ c :: rest) = false := by
  cases hb : belongs n (m ++ c :: rest) with
  | false => rfl
  | true =>
    obtain ⟨c', rest', heq, hc', _⟩ := (belongs_iff _ _).mp hb
    exact absurd (name_prefix_unique n m c' c rest' rest hn.2 hm.2 hc' hc heq.symm) hne

theorem belongs_baseFile (n : Name) : belongs n (baseFile n) = true := by
  rw [belongs_iff]
  exact ⟨'.', ['i', 'h', '5'], rfl, by decide, by decide⟩

theorem belongs_patchFile (n : Name) (k : Nat) : belongs n (patchFile n k) = true := by
  rw [belongs_iff]
  refine ⟨'.', 'p' :: (decimal k ++ ext), by simp [patchFile, infix_], by decide, ?_⟩
  rw [endsWith_iff]
  exact ⟨'.' :: 'p' :: decimal k, by simp⟩

theorem belongs_manifestFile (n f : Name) : belongs n (manifestFile f) = false := by
  cases hb : belongs n (manifestFile f) with
  | false => rfl
  | true =>
    obtain ⟨c, rest, heq, _, he⟩ := (belongs_iff _ _).mp hb
    obtain ⟨t, ht⟩ := (endsWith_iff _ _).mp he
    have h1 : (manifestFile f).getLast? = some 'n' := by simp [manifestFile, mfExt, List.getLast?_append]
    rw [heq, ht] at h1
    simp [ext, List.getLast?_append] at h1

end MetadorModel.FindFiles
