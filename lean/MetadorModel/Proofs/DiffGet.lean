import MetadorModel.Proofs.DiffReport
/-! Helper lemmas for C18, part 6: `DirDiff.get` finds exactly the listed node of a path. -/
namespace MetadorModel.Diff
open MetadorModel

theorem addT_path (p : Path) (t : DirTree) : (addT p t).path = p := by
  cases t <;> simp [addT, DNode.path]

theorem remT_path (p : Path) (t : DirTree) : (remT p t).path = p := by
  cases t <;> simp [remT, DNode.path]

theorem cmpT_path {p : Path} {a b : DirTree} {d : DNode} (h : cmpT p a b = some d) : d.path = p := by
  cases a with
  | file s =>
    cases b with
    | file s' =>
      simp only [cmpT] at h
      split_ifs at h
      cases h; rfl
    | dir fs => simp only [cmpT] at h; cases h; rfl
  | dir es =>
    cases b with
    | file s' => simp only [cmpT] at h; cases h; rfl
    | dir fs =>
      rw [cmpT_dir_dir] at h
      split_ifs at h
      cases h; rfl

theorem compareAt_eq {x : Option DirTree} (h : wfO x) (pre : Path) : compareAt pre x x = none := by
  cases x with
  | none => rfl
  | some t => simp [compareAt, cmpT_self t pre h]

/-- the node of two different entries, in uniform shape -/
theorem compareAt_ne {x y : Option DirTree} (hx : wfO x) (hy : wfO y) (hne : x ≠ y) (pre : Path) :
    compareAt pre x y = some (.mk pre x y (remSel pre (entriesO x) (entriesO y))
      (cmpEs pre (entriesO x) (entriesO y)) (addSel pre (entriesO y) (entriesO x))) := by
  cases x with
  | none =>
    cases y with
    | none => exact absurd rfl hne
    | some b =>
      cases b with
      | file s => simp [compareAt, addT, entriesO, remSel, cmpEs, addSel]
      | dir fs => simp [compareAt, addT, entriesO, remSel, cmpEs, addSel_nil_right]
  | some a =>
    cases y with
    | none =>
      cases a with
      | file s => simp [compareAt, remT, entriesO, remSel, cmpEs, addSel]
      | dir es => simp [compareAt, remT, entriesO, addSel, cmpEs_nil_right, remSel_nil_right]
    | some b =>
      cases a with
      | file s =>
        cases b with
        | file s' =>
          have : s ≠ s' := fun e => hne (by rw [e])
          simp [compareAt, cmpT, this, entriesO, remSel, cmpEs, addSel]
        | dir fs => simp [compareAt, cmpT, entriesO, remSel, cmpEs, addSel_nil_right]
      | dir es =>
        cases b with
        | file s' => simp [compareAt, cmpT, entriesO, addSel, cmpEs_nil_right, remSel_nil_right]
        | dir fs =>
          have hc : cmpT pre (.dir es) (.dir fs) ≠ none := by
            intro h
            exact hne (by rw [cmpT_none _ _ _ hx hy h])
          simp only [compareAt, entriesO]
          rw [cmpT_dir_dir] at hc ⊢
          split_ifs at hc ⊢ with hcc
          · exact absurd rfl hc
          · rfl

theorem findPath_append (p : Path) (l1 l2 : List DNode) :
    findPath p (l1 ++ l2) = (findPath p l1).orElse (fun _ => findPath p l2) := by
  induction l1 with
  | nil => simp [findPath]
  | cons d r ih =>
    simp only [List.cons_append, findPath]
    split_ifs
    · simp
    · exact ih

theorem append_single_inj (pre : Path) (a b : String) : pre ++ [a] = pre ++ [b] ↔ a = b := by
  simp

theorem findPath_remSel {es : Entries} (hs : AL.sorted es = true) (fs : Entries) (pre : Path) (k : String) :
    findPath (pre ++ [k]) (remSel pre es fs) =
      match AL.get es k, AL.get fs k with
      | some t, none => some (remT (pre ++ [k]) t)
      | _, _ => none := by
  induction es with
  | nil => simp [remSel, findPath]
  | cons a r ih =>
    obtain ⟨k0, t0⟩ := a
    have hk : AL.get r k0 = none := AL.get_tail_head hs
    have ih' := ih (AL.sorted_tail hs)
    simp only [remSel]
    by_cases hkk : k0 = k
    · subst hkk
      rw [AL.get_cons, if_pos rfl]
      cases hg : AL.get fs k0 with
      | none => simp [findPath, remT_path]
      | some u =>
        simp only []
        rw [ih', hk]
    · rw [AL.get_cons, if_neg hkk]
      cases hg : AL.get fs k0 with
      | none =>
        simp only [findPath, remT_path, append_single_inj, hkk, if_false]
        exact ih'
      | some u => exact ih'

theorem findPath_addSel {fs : Entries} (hs : AL.sorted fs = true) (es : Entries) (pre : Path) (k : String) :
    findPath (pre ++ [k]) (addSel pre fs es) =
      match AL.get fs k, AL.get es k with
      | some t, none => some (addT (pre ++ [k]) t)
      | _, _ => none := by
  induction fs with
  | nil => simp [addSel, findPath]
  | cons a r ih =>
    obtain ⟨k0, t0⟩ := a
    have hk : AL.get r k0 = none := AL.get_tail_head hs
    have ih' := ih (AL.sorted_tail hs)
    simp only [addSel]
    by_cases hkk : k0 = k
    · subst hkk
      rw [AL.get_cons, if_pos rfl]
      cases hg : AL.get es k0 with
      | none => simp [findPath, addT_path]
      | some u =>
        simp only []
        rw [ih', hk]
    · rw [AL.get_cons, if_neg hkk]
      cases hg : AL.get es k0 with
      | none =>
        simp only [findPath, addT_path, append_single_inj, hkk, if_false]
        exact ih'
      | some u => exact ih'

theorem findPath_cmpEs {es : Entries} (hs : AL.sorted es = true) (fs : Entries) (pre : Path) (k : String) :
    findPath (pre ++ [k]) (cmpEs pre es fs) =
      match AL.get es k, AL.get fs k with
      | some t, some u => cmpT (pre ++ [k]) t u
      | _, _ => none := by
  induction es with
  | nil => simp [cmpEs, findPath]
  | cons a r ih =>
    obtain ⟨k0, t0⟩ := a
    have hk : AL.get r k0 = none := AL.get_tail_head hs
    have ih' := ih (AL.sorted_tail hs)
    rw [cmpEs_cons]
    by_cases hkk : k0 = k
    · subst hkk
      rw [AL.get_cons, if_pos rfl]
      cases hg : AL.get fs k0 with
      | none =>
        simp only []
        rw [ih', hk]
      | some u =>
        simp only []
        cases hc : cmpT (pre ++ [k0]) t0 u with
        | none =>
          simp only []
          rw [ih', hk]
        | some d => simp [findPath, cmpT_path hc]
    · rw [AL.get_cons, if_neg hkk]
      cases hg : AL.get fs k0 with
      | none => exact ih'
      | some u =>
        simp only []
        cases hc : cmpT (pre ++ [k0]) t0 u with
        | none => exact ih'
        | some d =>
          simp only [findPath, cmpT_path hc, append_single_inj, hkk, if_false]
          exact ih'

/-- looking for the child `k` among the children of a node gives the node of the two `k` entries -/
theorem children_find {es fs : Entries} (he : AL.sorted es = true) (hf : AL.sorted fs = true)
    (pre : Path) (k : String) :
    findPath (pre ++ [k]) (remSel pre es fs ++ (cmpEs pre es fs ++ addSel pre fs es)) =
      compareAt (pre ++ [k]) (AL.get es k) (AL.get fs k) := by
  rw [findPath_append, findPath_append, findPath_remSel he, findPath_cmpEs he, findPath_addSel hf]
  cases AL.get es k with
  | none =>
    cases AL.get fs k with
    | none => rfl
    | some u => rfl
  | some t =>
    cases AL.get fs k with
    | none => rfl
    | some u =>
      simp only [compareAt]
      cases cmpT (pre ++ [k]) t u <;> rfl

def getO (d : Option DNode) (pre p : Path) : Option DNode :=
  match d with
  | none => none
  | some d => getFrom d pre p

/-- `get` answers with the node of the two entries at the path, iff they differ -/
theorem getSpec (p : Path) : ∀ (pre : Path) (x y : Option DirTree), wfO x → wfO y →
    (lookupO x p = lookupO y p → getO (compareAt pre x y) pre p = none) ∧
    (lookupO x p ≠ lookupO y p →
      (getO (compareAt pre x y) pre p).map DNode.rec' = some ⟨pre ++ p, lookupO x p, lookupO y p⟩) := by
  induction p with
  | nil =>
    intro pre x y hx hy
    rw [lookupO_nil, lookupO_nil]
    constructor
    · intro h; subst h; rw [compareAt_eq hx]; rfl
    · intro h
      rw [compareAt_ne hx hy h]
      simp [getO, getFrom, DNode.rec', DNode.path, DNode.prev, DNode.curr]
  | cons k rest ih =>
    intro pre x y hx hy
    rw [lookupO_cons, lookupO_cons]
    by_cases hxy : x = y
    · subst hxy
      rw [compareAt_eq hx]
      exact ⟨fun _ => rfl, fun h => absurd rfl h⟩
    · rw [compareAt_ne hx hy hxy]
      have hstep : getO (some (DNode.mk pre x y (remSel pre (entriesO x) (entriesO y))
            (cmpEs pre (entriesO x) (entriesO y)) (addSel pre (entriesO y) (entriesO x)))) pre (k :: rest) =
          getO (compareAt (pre ++ [k]) (AL.get (entriesO x) k) (AL.get (entriesO y) k)) (pre ++ [k]) rest := by
        simp only [getO, getFrom, children]
        rw [children_find (wfO_entries hx).1 (wfO_entries hy).1]
        cases compareAt (pre ++ [k]) (AL.get (entriesO x) k) (AL.get (entriesO y) k) <;> rfl
      rw [hstep]
      have := ih (pre ++ [k]) _ _ (wfO_get hx k) (wfO_get hy k)
      simpa [List.append_assoc] using this
